package objsrv

import (
	"context"
	"crypto/sha256"
	"fmt"
	"slices"
	"time"

	"github.com/google/uuid"
	"github.com/nspcc-dev/neo-go/pkg/crypto/hash"
	"github.com/nspcc-dev/neofs-node/pkg/network/peerauth"
	"github.com/nspcc-dev/neofs-sdk-go/bearer"
	neofscrypto "github.com/nspcc-dev/neofs-sdk-go/crypto"
	neofsecdsa "github.com/nspcc-dev/neofs-sdk-go/crypto/ecdsa"
	"github.com/nspcc-dev/neofs-sdk-go/eacl"
	"github.com/nspcc-dev/neofs-sdk-go/object"
	oid "github.com/nspcc-dev/neofs-sdk-go/object/id"
	protoacl "github.com/nspcc-dev/neofs-sdk-go/proto/acl"
	protoobject "github.com/nspcc-dev/neofs-sdk-go/proto/object"
	"github.com/nspcc-dev/neofs-sdk-go/proto/refs"
	protosession "github.com/nspcc-dev/neofs-sdk-go/proto/session"
	"github.com/nspcc-dev/neofs-sdk-go/session"
	sessionv2 "github.com/nspcc-dev/neofs-sdk-go/session/v2"
	"github.com/nspcc-dev/neofs-sdk-go/user"
	"google.golang.org/grpc/peer"
	"google.golang.org/protobuf/proto"
)

// Built is a ready-to-send request.
type Built struct {
	Spec Spec
	Ctx  context.Context
	Late bool // send to Env.ServerLate

	Get    *protoobject.GetRequest
	Head   *protoobject.HeadRequest
	Range  *protoobject.GetRangeRequest
	Delete *protoobject.DeleteRequest
	Search *protoobject.SearchV2Request
	Put    []*protoobject.PutRequest

	// DefectMsg is the index of the PUT message that carries a signature
	// defect (0 = the init message; always 0 for other ops and defects).
	DefectMsg int
}

// n3VerifScript is the verification script of the N3 account used by SchemeN3.
var n3VerifScript = append([]byte{0x0c, 0x21}, append(newIdentity("n3").Pub, 0x41, 0x56, 0xe7, 0xb3, 0x27)...)

// N3Account is the user ID of the N3 witness account.
func N3Account() user.ID { return user.NewFromScriptHash(hash.Hash160(n3VerifScript)) }

// Author returns the user on whose behalf the request acts after all checks
// pass: TLS peer, session issuer (the owner issues all sessions), N3 account or signer.
func (u *Universe) Author(s Spec) user.ID {
	switch {
	case s.Trusted:
		return u.Users[s.Requester].ID
	case s.Session != SessionNone:
		return u.Users[IDOwner].ID
	case s.Scheme == SchemeN3:
		return N3Account()
	}
	return u.Users[s.Requester].ID
}

func scheme(i int) neofscrypto.Scheme {
	switch i {
	case SchemeRFC6979:
		return neofscrypto.ECDSA_DETERMINISTIC_SHA256
	case SchemeWalletConnect:
		return neofscrypto.ECDSA_WALLETCONNECT
	}
	return neofscrypto.ECDSA_SHA512
}

func (u *Universe) verb(s Spec) (session.ObjectVerb, sessionv2.Verb) {
	switch s.Op {
	case OpGet:
		return session.VerbObjectGet, sessionv2.VerbObjectGet
	case OpHead:
		return session.VerbObjectHead, sessionv2.VerbObjectHead
	case OpRange:
		return session.VerbObjectRange, sessionv2.VerbObjectRange
	case OpDelete:
		return session.VerbObjectDelete, sessionv2.VerbObjectDelete
	case OpSearch:
		return session.VerbObjectSearch, sessionv2.VerbObjectSearch
	}
	if s.PutTombstone {
		return session.VerbObjectDelete, sessionv2.VerbObjectDelete
	}
	return session.VerbObjectPut, sessionv2.VerbObjectPut
}

func otherCnr(ci int) int { return (ci + 1) % numContainers }

func (u *Universe) sessionV1(s Spec) *protosession.SessionToken {
	owner, req := u.Users[IDOwner], u.Users[s.Requester]
	var t session.Object
	// the ID depends on the token-relevant fields only, so that a forged copy has a byte-identical body
	h := sha256.Sum256(fmt.Appendf(nil, "session-id|%v|%d|%d|%d|%d|%v|%v|%d", s.Op, s.Cnr, s.Obj, s.Requester, s.Session, s.SessionBindObj, s.PutTombstone, s.DefectArg))
	h[6], h[8] = h[6]&0x0f|0x40, h[8]&0x3f|0x80 // UUID v4
	t.SetID(uuid.UUID(h[:16]))
	t.SetAuthKey((*neofsecdsa.PublicKey)(&req.Priv.PublicKey))
	t.SetIat(Epoch - 1)
	t.SetNbf(Epoch - 1)
	t.SetExp(Epoch + 5)
	cnr := u.Cnrs[s.Cnr].ID
	v1, _ := u.verb(s)
	switch s.Defect {
	case DefSessionExpired:
		t.SetIat(Epoch - 3)
		t.SetNbf(Epoch - 3)
		t.SetExp(Epoch - 1)
	case DefSessionNotYetValid:
		t.SetNbf(Epoch + 1)
	case DefSessionOtherContainer:
		cnr = u.Cnrs[otherCnr(s.Cnr)].ID
	case DefSessionWrongVerb:
		if s.Op == OpPut {
			v1 = session.VerbObjectGet
		} else {
			v1 = session.VerbObjectPut
		}
	}
	t.BindContainer(cnr)
	t.ForVerb(v1)
	if s.Op.HasObject() && s.SessionBindObj {
		id := u.ObjectID(s.Cnr, s.Obj)
		if s.Defect == DefSessionOtherObject {
			id = u.ObjectID(s.Cnr, (s.Obj+1)%numObjIndexes)
		}
		t.LimitByObjects(id)
	}
	if err := t.Sign(owner.UserSigner()); err != nil {
		panic(err)
	}
	m := t.ProtoMessage()
	if s.Defect == DefSessionTampered {
		m.Body.Lifetime.Exp += 100
	}
	if s.Defect == DefSessionForgedSig {
		u.forge(m.Signature, m.Body, s)
	}
	return m
}

func (u *Universe) sessionV2(s Spec) *protosession.SessionTokenV2 {
	owner, req := u.Users[IDOwner], u.Users[s.Requester]
	var t sessionv2.Token
	t.SetVersion(sessionv2.TokenCurrentVersion)
	iat, nbf, exp := ChainTime.Add(-time.Hour), ChainTime.Add(-time.Hour), ChainTime.Add(5*time.Hour)
	cnr := u.Cnrs[s.Cnr].ID
	_, v2 := u.verb(s)
	switch s.Defect {
	case DefSessionExpired:
		iat, nbf, exp = ChainTime.Add(-3*time.Hour), ChainTime.Add(-3*time.Hour), ChainTime.Add(-time.Hour)
	case DefSessionNotYetValid:
		nbf = ChainTime.Add(time.Hour)
	case DefSessionOtherContainer:
		cnr = u.Cnrs[otherCnr(s.Cnr)].ID
	case DefSessionWrongVerb:
		if s.Op == OpPut {
			v2 = sessionv2.VerbObjectGet
		} else {
			v2 = sessionv2.VerbObjectPut
		}
	}
	t.SetIat(iat)
	t.SetNbf(nbf)
	t.SetExp(exp)
	c, err := sessionv2.NewContext(cnr, []sessionv2.Verb{v2})
	if err != nil {
		panic(err)
	}
	if err = t.SetContexts([]sessionv2.Context{c}); err != nil {
		panic(err)
	}
	if err = t.AddSubject(sessionv2.NewTargetUser(req.ID)); err != nil {
		panic(err)
	}
	if err = t.Sign(owner.UserSigner()); err != nil {
		panic(err)
	}
	m := t.ProtoMessage()
	if s.Defect == DefSessionTampered {
		m.Body.Lifetime.Exp += 100
	}
	if s.Defect == DefSessionForgedSig {
		u.forge(m.Signature, m.Body, s)
	}
	return m
}

// forge replaces the signature of a genuine token, leaving its body untouched.
func (u *Universe) forge(sig *refs.Signature, body neofscrypto.ProtoMessage, s Spec) {
	b := make([]byte, body.MarshaledSize())
	body.MarshalStable(b)
	switch s.ForgeKind {
	case 0: // a stranger signs the owner's token body
		v, err := u.Users[IDOther2].Signer(neofscrypto.ECDSA_SHA512).Sign(b)
		if err != nil {
			panic(err)
		}
		sig.Key, sig.Sign, sig.Scheme = slices.Clone(u.Users[IDOther2].Pub), v, refs.SignatureScheme_ECDSA_SHA512
	case 1:
		flip(sig, s.DefectArg)
	case 2:
		sig.Sign = nil
	default: // a genuine signature of the owner, but of other data
		v, err := u.Users[IDOwner].Signer(neofscrypto.ECDSA_SHA512).Sign(append(slices.Clone(b), 0))
		if err != nil {
			panic(err)
		}
		sig.Key, sig.Sign, sig.Scheme = slices.Clone(u.Users[IDOwner].Pub), v, refs.SignatureScheme_ECDSA_SHA512
	}
}

// TokenBodies returns the marshalled bodies of the tokens a request of spec s
// carries (session, bearer); used to self-check that forged copies keep the body.
func (u *Universe) TokenBodies(s Spec) (session, bearerBody []byte) {
	m := u.meta(s)
	enc := func(x neofscrypto.ProtoMessage) []byte {
		b := make([]byte, x.MarshaledSize())
		x.MarshalStable(b)
		return b
	}
	if m.SessionToken != nil {
		session = enc(m.SessionToken.Body)
	}
	if m.SessionTokenV2 != nil {
		session = enc(m.SessionTokenV2.Body)
	}
	if m.BearerToken != nil {
		bearerBody = enc(m.BearerToken.Body)
	}
	return
}

func eaclOp(op Op, tombstone bool) eacl.Operation {
	switch op {
	case OpGet:
		return eacl.OperationGet
	case OpHead:
		return eacl.OperationHead
	case OpRange:
		return eacl.OperationRange
	case OpDelete:
		return eacl.OperationDelete
	case OpSearch:
		return eacl.OperationSearch
	}
	if tombstone {
		return eacl.OperationDelete
	}
	return eacl.OperationPut
}

func (u *Universe) bearer(s Spec) *protoacl.BearerToken {
	issuer := u.Users[IDOwner]
	var recs []eacl.Record
	if s.Defect == DefEACLBearerDeny {
		recs = append(recs, eacl.ConstructRecord(eacl.ActionDeny, eaclOp(s.Op, s.PutTombstone),
			[]eacl.Target{eacl.NewTargetByRole(eacl.RoleUser), eacl.NewTargetByRole(eacl.RoleOthers)}))
	}
	tableCnr := u.Cnrs[s.Cnr].ID
	if s.Defect == DefBearerOtherContainer {
		tableCnr = u.Cnrs[otherCnr(s.Cnr)].ID
	}
	var table eacl.Table
	if len(recs) > 0 || s.Defect == DefBearerOtherContainer || s.DefectArg%2 == 0 {
		table = eacl.NewTableForContainer(tableCnr, recs)
	}
	var t bearer.Token
	t.SetEACLTable(table)
	t.SetIat(Epoch - 1)
	t.SetNbf(Epoch - 1)
	t.SetExp(Epoch + 5)
	if s.BearerForUser {
		t.ForUser(u.Author(s))
	}
	switch s.Defect {
	case DefBearerExpired:
		t.SetIat(Epoch - 3)
		t.SetNbf(Epoch - 3)
		t.SetExp(Epoch - 1)
	case DefBearerNotOwner:
		issuer = u.Users[IDOther2]
	case DefBearerOtherUser:
		t.ForUser(u.Users[IDOther2].ID)
	}
	if err := t.Sign(issuer.UserSigner()); err != nil {
		panic(err)
	}
	m := t.ProtoMessage()
	if s.Defect == DefBearerTampered {
		m.Body.Lifetime.Exp += 100
	}
	if s.Defect == DefBearerForgedSig {
		u.forge(m.Signature, m.Body, s)
	}
	return m
}

func (u *Universe) meta(s Spec) *protosession.RequestMetaHeader {
	m := &protosession.RequestMetaHeader{Ttl: s.TTL}
	if v := Versions[s.Version]; v != [2]uint32{} {
		m.Version = &refs.Version{Major: v[0], Minor: v[1]}
	}
	for _, x := range s.XHeaders {
		m.XHeaders = append(m.XHeaders, &protosession.XHeader{Key: x[0], Value: x[1]})
	}
	switch s.Session {
	case SessionV1:
		m.SessionToken = u.sessionV1(s)
	case SessionV2:
		m.SessionTokenV2 = u.sessionV2(s)
	}
	if s.Defect == DefSessionBothVersions {
		if m.SessionToken == nil {
			m.SessionToken = u.sessionV1(s)
		} else {
			m.SessionTokenV2 = u.sessionV2(s)
		}
	}
	if s.Bearer {
		m.BearerToken = u.bearer(s)
	}
	return m
}

// n3Sig makes an N3 witness for the message part m: verification script of the
// N3 account, invocation script N3OKScript followed by the first 8 bytes of
// sha256(m) (the fake chain compares them with the hash of the fake transaction,
// which neofs-node derives from the signed data).
func n3Sig(m neofscrypto.ProtoMessage) *refs.Signature {
	b := make([]byte, m.MarshaledSize())
	m.MarshalStable(b)
	h := sha256.Sum256(b)
	return &refs.Signature{Key: slices.Clone(n3VerifScript), Sign: append(slices.Clone(N3OKScript), h[:8]...), Scheme: refs.SignatureScheme_N3}
}

func flip(sig *refs.Signature, arg int) {
	if sig == nil || len(sig.Sign) == 0 {
		return
	}
	sig.Sign = slices.Clone(sig.Sign)
	sig.Sign[arg%len(sig.Sign)] ^= 1 << (arg / 7 % 8)
}

// signAndBreak signs req per spec and applies signature-level defects that do
// not depend on the body type. mutateBody / mutateMeta implement
// DefBodyChanged / DefMetaChanged.
func signAndBreak[B neofscrypto.ProtoMessage, R interface {
	neofscrypto.SignedRequest[B]
}](u *Universe, s Spec, req R, setVH func(*protosession.RequestVerificationHeader), setMeta func(*protosession.RequestMetaHeader), mutateBody func()) {
	d := s.Defect
	if s.Trusted || d == DefNoVerifyHeader {
		if d == DefMetaChanged || d == DefBodyChanged {
			panic("inconsistent spec")
		}
		return
	}
	var vh *protosession.RequestVerificationHeader
	if s.Scheme == SchemeN3 {
		vh = &protosession.RequestVerificationHeader{BodySignature: n3Sig(req.GetBody()), MetaSignature: n3Sig(req.GetMetaHeader())}
		if m := req.GetMetaHeader(); m == nil || m.Version == nil || m.Version.Major < 2 || (m.Version.Major == 2 && m.Version.Minor < 25) {
			vh.OriginSignature = n3Sig((*protosession.RequestVerificationHeader)(nil))
		}
	} else {
		var err error
		vh, err = neofscrypto.SignRequestWithBuffer[B](u.Users[s.Requester].Signer(scheme(s.Scheme)), req, nil)
		if err != nil {
			panic(err)
		}
	}
	setVH(vh)
	switch d {
	case DefBodySigFlip:
		flip(vh.BodySignature, s.DefectArg)
	case DefMetaSigFlip:
		flip(vh.MetaSignature, s.DefectArg)
	case DefOriginSigFlip:
		flip(vh.OriginSignature, s.DefectArg)
	case DefNoBodySig:
		vh.BodySignature = nil
	case DefKeySwap:
		sigs := []*refs.Signature{vh.BodySignature, vh.MetaSignature}
		if vh.OriginSignature != nil {
			sigs = append(sigs, vh.OriginSignature)
		}
		k := u.Users[IDOwner].Pub
		if s.Requester == IDOwner {
			k = u.Users[IDOther2].Pub
		}
		sigs[s.DefectArg%len(sigs)].Key = slices.Clone(k)
	case DefForgedKey:
		for _, sig := range []*refs.Signature{vh.BodySignature, vh.MetaSignature, vh.OriginSignature} {
			if sig != nil {
				sig.Key = slices.Clone(u.Users[IDOwner].Pub)
			}
		}
	case DefBodyChanged:
		mutateBody()
	case DefMetaChanged:
		m := req.GetMetaHeader()
		switch s.DefectArg % 3 {
		case 0:
			m.Ttl++
		case 1:
			m.XHeaders = append(m.XHeaders, &protosession.XHeader{Key: "x-added", Value: "1"})
		default:
			m.Epoch += 7
		}
	case DefInnerLayerBroken:
		// a second hop re-signs: new meta header wrapping the original one
		inner := req.GetMetaHeader()
		outer := &protosession.RequestMetaHeader{Version: inner.Version, Ttl: inner.Ttl - 1, Origin: inner}
		setMeta(outer)
		vh2, err := neofscrypto.SignRequestWithBuffer[B](u.Remote.Signer(neofscrypto.ECDSA_SHA512), req, nil)
		if err != nil {
			panic(err)
		}
		setVH(vh2)
		switch s.DefectArg % 3 {
		case 0:
			flip(vh.MetaSignature, s.DefectArg)
		case 1:
			flip(vh.BodySignature, s.DefectArg)
		default:
			flip(vh.OriginSignature, s.DefectArg)
		}
	}
}

func (u *Universe) addr(ci, oi int) *refs.Address {
	return oid.NewAddress(u.Cnrs[ci].ID, u.ObjectID(ci, oi)).ProtoMessage()
}

// otherObj returns an address of another object of the container (retargeting a signed request).
func (u *Universe) otherAddr(s Spec) *refs.Address {
	return u.addr(s.Cnr, (s.Obj+1+s.DefectArg%2)%numObjIndexes)
}

// Build produces the messages of the normalised spec. It panics on harness bugs only.
func (u *Universe) Build(s Spec) *Built {
	b := &Built{Spec: s, Ctx: context.Background(), Late: s.Late || s.Defect == DefEACLHeader}
	switch {
	case s.Trusted:
		b.Ctx = peer.NewContext(b.Ctx, &peer.Peer{AuthInfo: peerauth.AuthInfo{PublicKey: u.Users[s.Requester].Key.PublicKey()}})
	case s.TLSPeer:
		b.Ctx = peer.NewContext(b.Ctx, &peer.Peer{AuthInfo: peerauth.AuthInfo{PublicKey: u.Users[IDOther2].Key.PublicKey()}})
	}
	switch s.Op {
	case OpGet:
		body := &protoobject.GetRequest_Body{Address: u.addr(s.Cnr, s.Obj), Raw: s.Raw, PayloadOnly: s.PayloadOnly}
		switch s.RangeKind {
		case RangeOffLen:
			body.Range = &protoobject.Range{Offset: s.RangeOff, Length: s.RangeLen}
		case RangeExtBounds:
			f, l := s.RangeOff, s.RangeOff+s.RangeLen
			body.ExtendedRange = &protoobject.ExtendedRange{FirstPos: &f, LastPos: &l}
		case RangeExtFrom:
			f := s.RangeOff
			body.ExtendedRange = &protoobject.ExtendedRange{FirstPos: &f}
		case RangeExtSuffix:
			l := s.RangeLen + 1
			body.ExtendedRange = &protoobject.ExtendedRange{LastPos: &l}
		}
		r := &protoobject.GetRequest{Body: body, MetaHeader: u.meta(s)}
		signAndBreak[*protoobject.GetRequest_Body](u, s, r,
			func(v *protosession.RequestVerificationHeader) { r.VerifyHeader = v },
			func(m *protosession.RequestMetaHeader) { r.MetaHeader = m },
			func() { r.Body.Address = u.otherAddr(s) })
		b.Get = r
	case OpHead:
		r := &protoobject.HeadRequest{Body: &protoobject.HeadRequest_Body{Address: u.addr(s.Cnr, s.Obj), Raw: s.Raw}, MetaHeader: u.meta(s)}
		signAndBreak[*protoobject.HeadRequest_Body](u, s, r,
			func(v *protosession.RequestVerificationHeader) { r.VerifyHeader = v },
			func(m *protosession.RequestMetaHeader) { r.MetaHeader = m },
			func() { r.Body.Address = u.otherAddr(s) })
		b.Head = r
	case OpRange:
		r := &protoobject.GetRangeRequest{Body: &protoobject.GetRangeRequest_Body{Address: u.addr(s.Cnr, s.Obj), Raw: s.Raw,
			Range: &protoobject.Range{Offset: s.RangeOff, Length: s.RangeLen}}, MetaHeader: u.meta(s)}
		signAndBreak[*protoobject.GetRangeRequest_Body](u, s, r,
			func(v *protosession.RequestVerificationHeader) { r.VerifyHeader = v },
			func(m *protosession.RequestMetaHeader) { r.MetaHeader = m },
			func() {
				if s.DefectArg%3 == 2 {
					r.Body.Range.Length += 10
				} else {
					r.Body.Address = u.otherAddr(s)
				}
			})
		b.Range = r
	case OpDelete:
		r := &protoobject.DeleteRequest{Body: &protoobject.DeleteRequest_Body{Address: u.addr(s.Cnr, s.Obj)}, MetaHeader: u.meta(s)}
		signAndBreak[*protoobject.DeleteRequest_Body](u, s, r,
			func(v *protosession.RequestVerificationHeader) { r.VerifyHeader = v },
			func(m *protosession.RequestMetaHeader) { r.MetaHeader = m },
			func() { r.Body.Address = u.otherAddr(s) })
		b.Delete = r
	case OpSearch:
		body := &protoobject.SearchV2Request_Body{ContainerId: u.Cnrs[s.Cnr].ID.ProtoMessage(), Version: 1, Count: s.SearchCount}
		for _, f := range s.SearchFilters {
			body.Filters = append(body.Filters, &protoobject.SearchFilter{MatchType: protoobject.MatchType_STRING_EQUAL, Key: f[0], Value: f[1]})
		}
		for i := range s.SearchAttrs {
			body.Attributes = append(body.Attributes, s.SearchFilters[i][0])
		}
		r := &protoobject.SearchV2Request{Body: body, MetaHeader: u.meta(s)}
		signAndBreak[*protoobject.SearchV2Request_Body](u, s, r,
			func(v *protosession.RequestVerificationHeader) { r.VerifyHeader = v },
			func(m *protosession.RequestMetaHeader) { r.MetaHeader = m },
			func() {
				if s.DefectArg%2 == 0 {
					r.Body.ContainerId = u.Cnrs[otherCnr(s.Cnr)].ID.ProtoMessage()
				} else {
					r.Body.Count++
				}
			})
		b.Search = r
	case OpPut:
		u.buildPut(s, b)
	}
	return b
}

func (u *Universe) buildPut(s Spec, b *Built) {
	cnr := u.Cnrs[s.Cnr]
	author := u.Author(s)
	var signer neofscrypto.Signer = u.Users[s.Requester].UserSigner()
	owner := author
	if s.Scheme == SchemeN3 {
		// objects are ECDSA-signed; the N3 account only signs the request
		owner = u.Users[s.Requester].ID
	}
	if s.Defect == DefSticky {
		owner = u.Users[IDOther2].ID
		signer = u.Users[IDOther2].UserSigner()
	}
	obj := object.New(cnr.ID, owner)
	obj.SetCreationEpoch(Epoch)
	if s.PutTombstone {
		obj.SetType(object.TypeTombstone)
		obj.AssociateDeleted(u.ObjectID(s.Cnr, ObjPlain))
		obj.SetAttributes(object.NewAttribute(object.AttributeExpirationEpoch, fmt.Sprint(Epoch+100)),
			object.NewAttribute(object.AttributeAssociatedObject, u.ObjectID(s.Cnr, ObjPlain).EncodeToString()))
	} else if s.PutAttr != "" {
		obj.SetAttributes(object.NewAttribute("tag", s.PutAttr))
	}
	obj.SetPayload(s.PutPayload)
	obj.SetPayloadSize(uint64(len(s.PutPayload)))
	if err := obj.SetVerificationFields(signer); err != nil {
		panic(err)
	}
	mo := obj.ProtoMessage()

	nMsg := 1 + s.PutChunks
	defectMsg := 0
	if s.Defect.IsSignature() {
		defectMsg = s.DefectArg / 3 % nMsg
	}
	b.DefectMsg = defectMsg
	mkSpec := func(i int) Spec {
		ms := s
		if s.Defect.IsSignature() && i != defectMsg {
			ms.Defect = DefNone
		}
		if i > 0 {
			// chunk messages carry plain meta headers; tokens and access defects live in the init message
			ms.Session, ms.Bearer = SessionNone, false
			if !s.Defect.IsSignature() {
				ms.Defect = DefNone
			}
		}
		return ms
	}
	for i := range nMsg {
		ms := mkSpec(i)
		r := &protoobject.PutRequest{Body: new(protoobject.PutRequest_Body)}
		if i == 0 {
			r.Body.ObjectPart = &protoobject.PutRequest_Body_Init_{Init: &protoobject.PutRequest_Body_Init{
				ObjectId: mo.ObjectId, Signature: mo.Signature, Header: mo.Header}}
			r.MetaHeader = u.meta(ms)
		} else {
			from := (i - 1) * len(s.PutPayload) / s.PutChunks
			to := i * len(s.PutPayload) / s.PutChunks
			r.Body.ObjectPart = &protoobject.PutRequest_Body_Chunk{Chunk: s.PutPayload[from:to]}
			r.MetaHeader = u.meta(ms)
		}
		signAndBreak[*protoobject.PutRequest_Body](u, ms, r,
			func(v *protosession.RequestVerificationHeader) { r.VerifyHeader = v },
			func(m *protosession.RequestMetaHeader) { r.MetaHeader = m },
			func() {
				if in, ok := r.Body.ObjectPart.(*protoobject.PutRequest_Body_Init_); ok {
					h := proto.Clone(in.Init.Header).(*protoobject.Header)
					h.PayloadLength++
					in.Init.Header = h
				} else {
					c := r.Body.ObjectPart.(*protoobject.PutRequest_Body_Chunk)
					c.Chunk = append(slices.Clone(c.Chunk), 0xFF)
				}
			})
		b.Put = append(b.Put, r)
	}
}

// ReplicateRequest builds a valid replication request from the container node
// CnrNode for a fresh object of container ci.
func (u *Universe) ReplicateRequest(ci int, payload []byte, signObject bool) *protoobject.ReplicateRequest {
	owner := u.Users[IDOwner]
	obj := object.New(u.Cnrs[ci].ID, owner.ID)
	obj.SetCreationEpoch(Epoch)
	obj.SetPayload(payload)
	obj.SetPayloadSize(uint64(len(payload)))
	if err := obj.SetVerificationFields(owner.UserSigner()); err != nil {
		panic(err)
	}
	id := obj.GetID()
	sig, err := u.CnrNode.Signer(neofscrypto.ECDSA_SHA512).Sign(id[:])
	if err != nil {
		panic(err)
	}
	return &protoobject.ReplicateRequest{
		Object:     obj.ProtoMessage(),
		Signature:  &refs.Signature{Key: u.CnrNode.Pub, Sign: sig, Scheme: refs.SignatureScheme_ECDSA_SHA512},
		SignObject: signObject,
	}
}

package objsrv

import (
	"context"
	"fmt"
	"io"

	objectsvc "github.com/nspcc-dev/neofs-node/pkg/services/object"
	protoobject "github.com/nspcc-dev/neofs-sdk-go/proto/object"
	iprotobuf "github.com/nspcc-dev/neofs-sdk-go/proto/protobuf"
	protostatus "github.com/nspcc-dev/neofs-sdk-go/proto/status"
	"google.golang.org/grpc/metadata"
	"google.golang.org/protobuf/proto"
)

// Status codes used by the oracles.
const (
	StatusOK               = 0
	StatusMaintenance      = uint32(1024*protostatus.Section_SECTION_FAILURE_COMMON) + uint32(protostatus.CommonFail_NODE_UNDER_MAINTENANCE)
	StatusSignature        = uint32(1024*protostatus.Section_SECTION_FAILURE_COMMON) + uint32(protostatus.CommonFail_SIGNATURE_VERIFICATION_FAIL)
	StatusAccessDenied     = uint32(1024*protostatus.Section_SECTION_OBJECT) + uint32(protostatus.Object_ACCESS_DENIED)
	StatusBadRequest       = uint32(1024*protostatus.Section_SECTION_FAILURE_COMMON) + uint32(protostatus.CommonFail_BAD_REQUEST)
	StatusSessionExpired   = uint32(1024*protostatus.Section_SECTION_SESSION) + uint32(protostatus.Session_TOKEN_EXPIRED)
	StatusObjectNotFound   = uint32(1024*protostatus.Section_SECTION_OBJECT) + uint32(protostatus.Object_OBJECT_NOT_FOUND)
	StatusOutOfRange       = uint32(1024*protostatus.Section_SECTION_OBJECT) + uint32(protostatus.Object_OUT_OF_RANGE)
	StatusIncomplete       = uint32(1)
	statusUnsetPlaceholder = ^uint32(0)
)

// Result is everything observed for one request.
type Result struct {
	// Status is the NeoFS status code of the (last) response carrying one;
	// StatusOK when every response had an OK/absent status.
	Status    uint32
	StatusMsg string
	// Err is the error returned by the handler to the gRPC layer (the client sees a gRPC status).
	Err error
	// Panic is the recovered panic value, if the handler panicked.
	Panic any

	Responses    int  // messages written to the response stream / returned
	HeaderSent   bool // a response carried an object header (GET init part, HEAD header)
	PayloadBytes int  // payload bytes written to the response stream (GET / RANGE chunks)
	SplitInfo    bool
	SearchItems  int
	Tombstone    bool // DELETE response carried a tombstone address
	PutID        bool // PUT response carried an object ID

	Events []Event
}

// Failed reports whether the client was told the request failed: a non-OK
// NeoFS status, a gRPC-level error or a panic (which gRPC turns into a broken stream).
func (r Result) Failed() bool { return r.Status != StatusOK || r.Err != nil || r.Panic != nil }

func (r Result) String() string {
	s := fmt.Sprintf("status=%d %q err=%v responses=%d headerSent=%v payloadBytes=%d", r.Status, r.StatusMsg, r.Err, r.Responses, r.HeaderSent, r.PayloadBytes)
	if r.Panic != nil {
		s += fmt.Sprintf(" PANIC=%v", r.Panic)
	}
	return s + "\nevents:\n" + Format(r.Events)
}

type recorder struct {
	log *Log
	res *Result
}

func (r recorder) status(st *protostatus.Status) {
	if st != nil && st.Code != 0 {
		r.res.Status, r.res.StatusMsg = st.Code, st.Message
	}
}

// decode re-encodes whatever the server handed to the gRPC layer (proto
// message, mem.Buffer or mem.BufferSlice) with the server's codec and parses
// it into dst.
func decode(m any, dst proto.Message) error {
	bs, err := iprotobuf.BufferedCodec{}.Marshal(m)
	if err != nil {
		return fmt.Errorf("encode %T: %w", m, err)
	}
	data := bs.Materialize()
	bs.Free()
	return proto.Unmarshal(data, dst)
}

func (r recorder) get(m any) error {
	var resp protoobject.GetResponse
	if err := decode(m, &resp); err != nil {
		return err
	}
	r.res.Responses++
	r.status(resp.GetMetaHeader().GetStatus())
	switch p := resp.GetBody().GetObjectPart().(type) {
	case *protoobject.GetResponse_Body_Init_:
		r.res.HeaderSent = true
		r.log.Add(KindEffect, "stream.header")
	case *protoobject.GetResponse_Body_Chunk:
		r.res.PayloadBytes += len(p.Chunk)
		r.log.Add(KindEffect, "stream.chunk", len(p.Chunk))
	case *protoobject.GetResponse_Body_SplitInfo:
		r.res.SplitInfo = true
	}
	return nil
}

func (r recorder) rng(m any) error {
	var resp protoobject.GetRangeResponse
	if err := decode(m, &resp); err != nil {
		return err
	}
	r.res.Responses++
	r.status(resp.GetMetaHeader().GetStatus())
	switch p := resp.GetBody().GetRangePart().(type) {
	case *protoobject.GetRangeResponse_Body_Chunk:
		r.res.PayloadBytes += len(p.Chunk)
		r.log.Add(KindEffect, "stream.chunk", len(p.Chunk))
	case *protoobject.GetRangeResponse_Body_SplitInfo:
		r.res.SplitInfo = true
	}
	return nil
}

// baseStream implements the parts of grpc.ServerStream no handler needs.
type baseStream struct{ ctx context.Context }

func (s baseStream) SetHeader(metadata.MD) error  { return nil }
func (s baseStream) SendHeader(metadata.MD) error { return nil }
func (s baseStream) SetTrailer(metadata.MD)       {}
func (s baseStream) Context() context.Context     { return s.ctx }
func (s baseStream) RecvMsg(any) error            { return io.EOF }

type getStream struct {
	baseStream
	rec recorder
}

func (s getStream) Send(m *protoobject.GetResponse) error { return s.rec.get(m) }
func (s getStream) SendMsg(m any) error                   { return s.rec.get(m) }

type rangeStream struct {
	baseStream
	rec recorder
}

func (s rangeStream) Send(m *protoobject.GetRangeResponse) error { return s.rec.rng(m) }
func (s rangeStream) SendMsg(m any) error                        { return s.rec.rng(m) }

type putStream struct {
	baseStream
	rec  recorder
	msgs []*protoobject.PutRequest
	next int
}

func (s *putStream) Recv() (*protoobject.PutRequest, error) {
	if s.next >= len(s.msgs) {
		return nil, io.EOF
	}
	s.next++
	return s.msgs[s.next-1], nil
}

func (s *putStream) SendAndClose(m *protoobject.PutResponse) error {
	s.rec.res.Responses++
	s.rec.status(m.GetMetaHeader().GetStatus())
	s.rec.res.PutID = m.GetBody().GetObjectId() != nil
	return nil
}

func (s *putStream) SendMsg(m any) error {
	var resp protoobject.PutResponse
	if err := decode(m, &resp); err != nil {
		return err
	}
	return s.SendAndClose(&resp)
}

func (e *Env) run(res *Result, f func()) {
	defer func() {
		if p := recover(); p != nil {
			res.Panic = p
		}
		res.Events = e.Log.Events()
	}()
	f()
}

// Invoke resets the log, sends the built request to the server the way the
// gRPC layer of cmd/neofs-node would (Head -> HeadBuffered, SearchV2 ->
// SearchV2Buffered) and returns everything observed.
func (e *Env) Invoke(b *Built) Result {
	srv := e.Server
	if b.Late {
		srv = e.ServerLate
	}
	return e.invokeOn(srv, b)
}

func (e *Env) invokeOn(srv *objectsvc.Server, b *Built) Result {
	e.Log.Reset()
	var res Result
	rec := recorder{log: e.Log, res: &res}
	// like the gRPC server, cancel the call context once the handler returned
	// (streams to the fake remote node are released by it)
	ctx, cancel := context.WithCancel(b.Ctx)
	defer cancel()
	b = &Built{Spec: b.Spec, Ctx: ctx, Late: b.Late, Get: b.Get, Head: b.Head, Range: b.Range, Delete: b.Delete, Search: b.Search, Put: b.Put, DefectMsg: b.DefectMsg}
	e.run(&res, func() {
		switch {
		case b.Get != nil:
			res.Err = srv.Get(b.Get, getStream{baseStream{b.Ctx}, rec})
		case b.Range != nil:
			res.Err = srv.GetRange(b.Range, rangeStream{baseStream{b.Ctx}, rec})
		case b.Head != nil:
			var resp protoobject.HeadResponse
			if err := decode(srv.HeadBuffered(b.Ctx, b.Head), &resp); err != nil {
				panic(fmt.Sprintf("harness: undecodable HEAD response: %v", err))
			}
			res.Responses++
			rec.status(resp.GetMetaHeader().GetStatus())
			switch resp.GetBody().GetHead().(type) {
			case *protoobject.HeadResponse_Body_Header, *protoobject.HeadResponse_Body_ShortHeader:
				res.HeaderSent = true
				e.Log.Add(KindEffect, "response.header")
			case *protoobject.HeadResponse_Body_SplitInfo:
				res.SplitInfo = true
			}
		case b.Delete != nil:
			resp, err := srv.Delete(b.Ctx, b.Delete)
			res.Err = err
			if resp != nil {
				res.Responses++
				rec.status(resp.GetMetaHeader().GetStatus())
				res.Tombstone = resp.GetBody().GetTombstone() != nil
			}
		case b.Search != nil:
			var resp protoobject.SearchV2Response
			if err := decode(srv.SearchV2Buffered(b.Ctx, b.Search), &resp); err != nil {
				panic(fmt.Sprintf("harness: undecodable SEARCH response: %v", err))
			}
			res.Responses++
			rec.status(resp.GetMetaHeader().GetStatus())
			res.SearchItems = len(resp.GetBody().GetResult())
		case b.Put != nil:
			res.Err = srv.Put(&putStream{baseStream: baseStream{b.Ctx}, rec: rec, msgs: b.Put})
		default:
			panic("harness: empty Built")
		}
	})
	return res
}

// InvokeReplicate sends a replication request.
func (e *Env) InvokeReplicate(req *protoobject.ReplicateRequest) Result {
	e.Log.Reset()
	var res Result
	e.run(&res, func() {
		resp, err := e.Server.Replicate(context.Background(), req)
		res.Err = err
		if resp != nil {
			res.Responses++
			if st := resp.GetStatus(); st != nil && st.Code != 0 {
				res.Status, res.StatusMsg = st.Code, st.Message
			}
		}
	})
	return res
}

// Package c19 decides property C19: after a successful Evacuate of read-only
// shards every object that was available is available with identical bytes
// from the engine's REMAINING shards, the source shards are byte-identical,
// and no object's removal or lock status changed.
//
// The remaining shards are judged the hard way: after Evacuate the engine is
// closed and a second engine is opened over the directories of the remaining
// shards only (as after a disk replacement); before/after observations are
// engine-level Get / Head / IsLocked of every address of the universe.
package c19

import (
	"context"
	"fmt"
	"os"
	"path/filepath"
	"sort"
	"strings"
	"testing"

	"github.com/nspcc-dev/neofs-node/pkg/local_object_storage/blobstor/common"
	"github.com/nspcc-dev/neofs-node/pkg/local_object_storage/shard/mode"
	"github.com/nspcc-dev/neofs-node/verifharness/engx"
	"github.com/nspcc-dev/neofs-node/verifharness/ev"
	"github.com/nspcc-dev/neofs-node/verifharness/snap"
	"github.com/nspcc-dev/neofs-node/verifharness/uni"
	"github.com/nspcc-dev/neofs-sdk-go/object"
	oid "github.com/nspcc-dev/neofs-sdk-go/object/id"
	"pgregory.net/rapid"
)

// fpTomb: shards disagreed about an object before the evacuation (one knows
// its tombstone, another still stores it as available; engine reads said
// "already removed" because the shard with the tombstone came first in HRW
// order) and although all remaining shards are healthy the object is served
// again afterwards: (a) the tombstone lived on an evacuated shard and is moved
// to ONE remaining shard (HRW by the tombstone's ID; Put broadcasts
// tombstones) – not the one holding the target; (b) the still-available copy
// lived on an evacuated shard and is copied to a remaining shard that lacks
// the tombstone (a target answering "already removed" is just skipped).
const fpTomb = "C19:removed-object-served-again-after-evacuation"

// fpDeg: Evacuate of a source shard running WITHOUT metabase (degraded
// read-only) lists nothing, moves nothing and still returns success.
const fpDeg = "C19:evacuate-degraded-shard-reports-success-moves-nothing"

const (
	cnr    = 0
	nIDs   = 12
	idECp  = 3 // virtual EC parent
	idSpP  = 4 // virtual split parent
	idSp1  = 5 // first child (v2), no parent header
	idSp2  = 6 // last child (v2), carries the parent header
	idLink = 7
	idEC0  = 8
	idEC1  = 9
	idA0   = 10 // lock or tombstone
	idA1   = 11 // lock or tombstone
)

type putOp struct {
	ID   int   `json:"id"`
	Fail []int `json:"fail,omitempty"` // shards failing blob puts during this Put
}

type kase struct {
	N        int        `json:"n"`
	Hashes   []uint64   `json:"hashes"`
	AddOrder []int      `json:"add_order"`
	Objs     []uni.Spec `json:"objs"`
	Puts     []putOp    `json:"puts"`
	Sources  []int      `json:"sources"`
	// DegSources ⊆ Sources are evacuated in DEGRADED_READ_ONLY mode (no metabase).
	DegSources []int `json:"degraded_sources,omitempty"`
	// Target state of the non-source shards during evacuation: rw, ro, fail.
	Targets map[int]string `json:"targets"`
	FH      bool           `json:"fault_handler"`
	// IgnoreErrors is Evacuate's ignoreErrors flag (documented for READ errors
	// of the source; put failures must still fail or go to the fault handler).
	IgnoreErrors bool `json:"ignore_errors"`
}

func (k kase) String() string {
	var sb strings.Builder
	fmt.Fprintf(&sb, "shards=%d hashes=%x addOrder=%v\n", k.N, k.Hashes, k.AddOrder)
	for _, i := range []int{idA0, idA1} {
		fmt.Fprintf(&sb, "  o%d: %s\n", i, k.Objs[i])
	}
	for _, p := range k.Puts {
		fmt.Fprintf(&sb, "  put o%d (%s) failing shards %v\n", p.ID, k.Objs[p.ID].Kind, p.Fail)
	}
	fmt.Fprintf(&sb, "  evacuate sources=%v (degraded-read-only: %v) targets=%v faultHandler=%v ignoreErrors=%v\n", k.Sources, k.DegSources, k.Targets, k.FH, k.IgnoreErrors)
	return sb.String()
}

func specs(t *rapid.T) []uni.Spec {
	b := func(kind string, id int) uni.Spec {
		return uni.Spec{Kind: kind, Cnr: cnr, ID: id, Exp: -1, Parent: -1, ParentExp: -1, First: -1}
	}
	res := make([]uni.Spec, nIDs)
	for i := 0; i < 3; i++ {
		res[i] = b(uni.Regular, i)
		res[i].PayloadLen = []int{0, 7, 64}[i]
	}
	res[idECp] = b(uni.Regular, idECp) // never stored, only a parent header
	res[idSpP] = b(uni.Regular, idSpP)
	s1 := b(uni.ChildV2, idSp1) // first part: no parent, no first
	s1.PayloadLen = 7
	res[idSp1] = s1
	s2 := b(uni.ChildV2, idSp2)
	s2.Parent, s2.ParentLen, s2.First, s2.PayloadLen, s2.Last = idSpP, 10, idSp1, 3, true
	res[idSp2] = s2
	l := b(uni.Link, idLink)
	l.Parent, l.ParentLen, l.First, l.PayloadLen = idSpP, 10, idSp1, 4
	res[idLink] = l
	for i, id := range []int{idEC0, idEC1} {
		e := b(uni.ECPart, id)
		e.Parent, e.ParentLen, e.RuleIdx, e.PartIdx, e.PayloadLen = idECp, 100, 0, i, 32
		res[id] = e
	}
	for _, id := range []int{idA0, idA1} {
		a := b(uni.Lock, id)
		if rapid.Bool().Draw(t, "assoc-is-tomb") {
			a.Kind = uni.Tombstone
			a.Target = rapid.SampledFrom([]int{0, 1, 2, idSpP, idECp}).Draw(t, "tomb-target")
		} else {
			a.Target = rapid.IntRange(0, 2).Draw(t, "lock-target")
		}
		res[id] = a
	}
	return res
}

func subset(t *rapid.T, n int, lbl string, pAny int) []int {
	var r []int
	if rapid.IntRange(0, 9).Draw(t, lbl+"-any") >= pAny {
		return nil
	}
	for s := 0; s < n; s++ {
		if rapid.Bool().Draw(t, lbl) {
			r = append(r, s)
		}
	}
	return r
}

func gen(t *rapid.T) kase {
	var k kase
	k.N = rapid.IntRange(2, 4).Draw(t, "nshards")
	for len(k.Hashes) < k.N {
		v := rapid.Uint64().Draw(t, "shardhash")
		dup := false
		for _, x := range k.Hashes {
			dup = dup || x == v
		}
		if !dup {
			k.Hashes = append(k.Hashes, v)
		}
	}
	idx := make([]int, k.N)
	for i := range idx {
		idx[i] = i
	}
	k.AddOrder = rapid.Permutation(idx).Draw(t, "addorder")
	k.Objs = specs(t)
	// phase 1: data objects (some shards failing now and then, so objects land
	// off their first HRW shard); phase 2: locks/tombstones, mostly with failing
	// shards (partially present system objects); phase 3: a few more puts.
	data := []int{0, 1, 2, idSp1, idSp2, idLink, idEC0, idEC1}
	for _, id := range rapid.Permutation(data).Draw(t, "dataorder") {
		if rapid.IntRange(0, 9).Draw(t, "putdata") < 7 {
			k.Puts = append(k.Puts, putOp{ID: id, Fail: subset(t, k.N, "putfail", 3)})
		}
	}
	for i, n := 0, rapid.IntRange(1, 4).Draw(t, "nassoc"); i < n; i++ {
		k.Puts = append(k.Puts, putOp{ID: rapid.SampledFrom([]int{idA0, idA1}).Draw(t, "assoc"), Fail: subset(t, k.N, "assocfail", 7)})
	}
	for i, n := 0, rapid.IntRange(0, 3).Draw(t, "nmore"); i < n; i++ {
		k.Puts = append(k.Puts, putOp{ID: rapid.SampledFrom(append(data, idA0, idA1)).Draw(t, "more"), Fail: subset(t, k.N, "putfail", 3)})
	}
	// sources: non-empty; proper subset unless a fault handler is given
	k.FH = rapid.IntRange(0, 3).Draw(t, "fh") == 0
	for len(k.Sources) == 0 {
		k.Sources = nil
		for s := 0; s < k.N; s++ {
			if rapid.IntRange(0, 2).Draw(t, "source") == 0 {
				k.Sources = append(k.Sources, s)
			}
		}
		if len(k.Sources) == k.N && !k.FH {
			k.Sources = k.Sources[:k.N-1]
		}
	}
	if rapid.IntRange(0, 3).Draw(t, "degsource") == 0 {
		k.DegSources = []int{rapid.SampledFrom(k.Sources).Draw(t, "degsrc")}
	}
	k.IgnoreErrors = rapid.Bool().Draw(t, "ignoreerrors")
	// a quarter of the cases: EVERY target refuses puts
	allRefuse := rapid.IntRange(0, 3).Draw(t, "alltargetsrefuse") == 0
	k.Targets = map[int]string{}
	for s := 0; s < k.N; s++ {
		if !contains(k.Sources, s) {
			if allRefuse {
				k.Targets[s] = rapid.SampledFrom([]string{"ro", "fail"}).Draw(t, "target")
			} else {
				k.Targets[s] = rapid.SampledFrom([]string{"rw", "rw", "rw", "ro", "fail"}).Draw(t, "target")
			}
		}
	}
	return k
}

func contains(s []int, v int) bool {
	for _, x := range s {
		if x == v {
			return true
		}
	}
	return false
}

type obs struct {
	cls    string
	obj    *object.Object
	hcls   string
	hdr    *object.Object
	locked bool
	lerr   error
}

func observe(e *engx.Eng, a oid.Address) obs {
	var o obs
	o.cls, o.obj, _ = e.Get(a)
	h, err := e.E.Head(context.Background(), a, false)
	o.hcls, o.hdr = engx.Class(err), h
	o.locked, o.lerr = e.E.IsLocked(context.Background(), a)
	return o
}

func run(t *rapid.T, rec *ev.Recorder, k kase) (labels []string, nontrivial bool) {
	lab := map[string]bool{}
	defer func() {
		for l := range lab {
			labels = append(labels, l)
		}
		sort.Strings(labels)
	}()
	failf := func(format string, a ...any) {
		t.Fatalf("C19 violated: %s\ncase:\n%s", fmt.Sprintf(format, a...), k)
	}
	root, err := os.MkdirTemp("", "c19-")
	if err != nil {
		ev.Inconclusive("C19 tempdir: %v", err)
	}
	defer os.RemoveAll(root)
	sp := engx.Spec{Root: root, AddOrder: k.AddOrder}
	for s := 0; s < k.N; s++ {
		sp.Dirs = append(sp.Dirs, fmt.Sprintf("s%d", s))
		sp.IDs = append(sp.IDs, engx.MkID(s, k.Hashes[s]))
	}
	e, err := engx.Open(sp)
	if err != nil {
		ev.Inconclusive("C19 engine setup: %v", err)
	}
	closed := false
	defer func() {
		if !closed {
			_ = e.Close()
		}
	}()
	ctx := context.Background()
	objs := make([]*object.Object, nIDs)
	for i, s := range k.Objs {
		objs[i] = uni.Build(s)
	}
	addr := func(i int) oid.Address { return uni.Addr(cnr, i) }
	for _, p := range k.Puts {
		for _, s := range p.Fail {
			e.Sh[s].FailPut = true
		}
		_ = e.E.Put(ctx, objs[p.ID], nil)
		for _, s := range p.Fail {
			e.Sh[s].FailPut = false
		}
	}
	// evacuation setup
	var srcIDs []common.ID
	for _, s := range k.Sources {
		m := mode.ReadOnly
		if contains(k.DegSources, s) {
			m = mode.DegradedReadOnly
		}
		if err := e.SetMode(s, m); err != nil {
			ev.Inconclusive("C19 set mode: %v", err)
		}
		srcIDs = append(srcIDs, e.Sh[s].ID)
	}
	badTarget := false
	for s, st := range k.Targets {
		switch st {
		case "ro":
			if err := e.SetMode(s, mode.ReadOnly); err != nil {
				ev.Inconclusive("C19 set mode: %v", err)
			}
			badTarget = true
		case "fail":
			e.Sh[s].FailPut = true
			badTarget = true
		}
	}
	// observations before
	before := make([]obs, nIDs)
	shardCls := make([][]string, nIDs) // per id, per shard
	divergent := make([]bool, nIDs)
	heldBySource := make([]bool, nIDs)
	srcSpecial := false
	for i := 0; i < nIDs; i++ {
		before[i] = observe(e, addr(i))
		var anyOK, anyRemoved bool
		for s := range e.Sh {
			_, err := e.Sh[s].S.Get(addr(i), false)
			c := engx.Class(err)
			shardCls[i] = append(shardCls[i], c)
			anyOK = anyOK || c == engx.OK || c == engx.Split || c == engx.ECParent
			anyRemoved = anyRemoved || c == engx.Removed
			if c == engx.OK && contains(k.Sources, s) && !contains(k.DegSources, s) {
				heldBySource[i] = true
				if k.Objs[i].Kind != uni.Regular {
					srcSpecial = true
				}
			}
		}
		divergent[i] = anyOK && anyRemoved
	}
	// onlyDeg[i]: the blob of i lives on degraded (no metabase) source shards only
	onlyDeg := make([]bool, nIDs)
	for i := 0; i < nIDs; i++ {
		h := e.Holders(addr(i))
		onlyDeg[i] = len(h) > 0
		for _, s := range h {
			onlyDeg[i] = onlyDeg[i] && contains(k.DegSources, s)
		}
	}
	directTarget := make([]bool, nIDs)
	for _, id := range []int{idA0, idA1} {
		if k.Objs[id].Kind == uni.Tombstone && before[id].cls == engx.OK {
			directTarget[k.Objs[id].Target] = true
		}
	}
	var srcDirs []string
	for _, s := range k.Sources {
		srcDirs = append(srcDirs, e.Sh[s].Dir)
	}
	treeBefore := map[string][]snap.Entry{}
	for _, d := range srcDirs {
		tr, err := snap.Tree(d)
		if err != nil {
			ev.Inconclusive("C19 snap: %v", err)
		}
		treeBefore[d] = tr
	}
	handed := map[oid.Address]*object.Object{}
	var fh func(oid.Address, *object.Object) error
	if k.FH {
		fh = func(a oid.Address, o *object.Object) error { handed[a] = o; return nil }
	}
	allRefuse := len(k.Targets) > 0
	for _, st := range k.Targets {
		allRefuse = allRefuse && st != "rw"
	}
	if k.IgnoreErrors {
		lab["ignoreErrors=true"] = true
	}
	if allRefuse {
		lab["allTargetsRefuse"] = true
	}
	if k.IgnoreErrors && allRefuse && !k.FH {
		lab["ignoreErrors=true&allTargetsRefuse"] = true
	}
	n, evErr := e.E.Evacuate(ctx, srcIDs, k.IgnoreErrors, fh)
	checkSources := func(when string) {
		for _, d := range srcDirs {
			tr, err := snap.Tree(d)
			if err != nil {
				ev.Inconclusive("C19 snap: %v", err)
			}
			if diff := snap.Diff(treeBefore[d], tr); diff != "" {
				failf("source shard directory %s changed %s (Evacuate = %d, %v):\n%s", filepath.Base(d), when, n, evErr, diff)
			}
		}
	}
	checkSources("during Evacuate")
	if evErr != nil {
		lab["evacuate-error"] = true
		switch {
		case strings.Contains(evErr.Error(), "could not put object to any shard"):
			lab["evacuate-error:no-target-accepted"] = true
		case engx.Class(evErr) == engx.Removed:
			lab["evacuate-error:listed-object-removed-through-parent"] = true
		default:
			lab["evacuate-error:other:"+engx.Class(evErr)] = true
		}
		return
	}
	lab["evacuate-ok"] = true
	// the recorded class, exactly: Evacuate succeeded although objects living
	// only on a no-metabase source were neither moved nor handed over
	degLeft := false
	for i := 0; i < nIDs; i++ {
		if onlyDeg[i] && handed[addr(i)] == nil {
			moved := false
			for s := range e.Sh {
				moved = moved || (!contains(k.Sources, s) && e.Phys(s, addr(i)))
			}
			degLeft = degLeft || !moved
		}
	}
	if len(k.DegSources) > 0 {
		lab["degraded-source"] = true
	}
	if degLeft {
		if rec.Known(fpDeg) {
			rec.Excluded(1)
			lab["known:"+fpDeg] = true
		} else {
			failf("[class %s] Evacuate of degraded-read-only source shard(s) %v returned (%d, nil) but objects stored only there were not moved", fpDeg, k.DegSources, n)
		}
	}
	if len(handed) > 0 {
		lab["fault-handler-used"] = true
	}
	if err := e.Close(); err != nil {
		ev.Inconclusive("C19 close: %v", err)
	}
	closed = true
	checkSources("by closing the engine")
	if len(k.Sources) == k.N {
		lab["all-shards-evacuated"] = true
		// everything that was available on the shards must have been handed over
		for i := 0; i < nIDs; i++ {
			if heldBySource[i] && !divergent[i] {
				if h := handed[addr(i)]; h == nil || !engx.SameObject(h, objs[i]) {
					failf("all shards evacuated with a fault handler, but stored object o%d (%s) was not handed to it", i, k.Objs[i].Kind)
				}
			}
		}
		return nil, srcSpecial
	}
	// second engine over the remaining shards only
	sp2 := engx.Spec{Root: root, Plain: true}
	var remaining []int
	for s := 0; s < k.N; s++ {
		if !contains(k.Sources, s) {
			sp2.Dirs = append(sp2.Dirs, fmt.Sprintf("s%d", s))
			remaining = append(remaining, s)
		}
	}
	e2, err := engx.Open(sp2)
	if err != nil {
		ev.Inconclusive("C19 second engine: %v", err)
	}
	defer e2.Close()
	// association objects handed to the fault handler excuse status changes of their targets
	excused := map[int]bool{}
	for a := range handed {
		_, i := uni.Index(a)
		switch k.Objs[i].Kind {
		case uni.Tombstone, uni.Lock:
			excused[k.Objs[i].Target] = true
		case uni.ChildV2, uni.Link, uni.ECPart:
			excused[k.Objs[i].Parent] = true
		}
		excused[i] = true
	}
	// nothing is demanded for objects that lived only on a degraded source
	// (class fpDeg above), nor for the targets / parents they describe
	for i := 0; i < nIDs; i++ {
		if !onlyDeg[i] || !degLeft {
			continue
		}
		excused[i] = true
		switch k.Objs[i].Kind {
		case uni.Tombstone, uni.Lock:
			excused[k.Objs[i].Target] = true
		case uni.ChildV2, uni.Link, uni.ECPart:
			if p := k.Objs[i].Parent; p >= 0 {
				excused[p] = true
			}
			if i == idSp1 {
				excused[idSpP] = true
			}
		}
	}
	// children share their parent's removal status
	for i := 0; i < nIDs; i++ {
		if p := k.Objs[i].Parent; p >= 0 && (excused[p] || divergent[p]) {
			excused[i] = excused[i] || excused[p]
			divergent[i] = divergent[i] || divergent[p]
		}
		if i == idSp1 && (excused[idSpP] || divergent[idSpP]) {
			excused[i] = excused[i] || excused[idSpP]
			divergent[i] = divergent[i] || divergent[idSpP]
		}
	}
	for i := 0; i < nIDs; i++ {
		b := before[i]
		a := observe(e2, addr(i))
		desc := fmt.Sprintf("o%d (%s): per-shard before %v, engine before Get=%s Head=%s locked=%v,%v; second engine over shards %v: Get=%s Head=%s locked=%v,%v; Evacuate moved %d",
			i, k.Objs[i].Kind, shardCls[i], b.cls, b.hcls, b.locked, b.lerr, remaining, a.cls, a.hcls, a.locked, a.lerr, n)
		if divergent[i] {
			lab["divergent-address"] = true
		}
		if excused[i] {
			lab["excused(fault-handler-or-degraded-source)"] = true
		}
		switch {
		case excused[i]:
		case divergent[i]:
			// shards disagreed before: the only demand is that a removed object does not come back
			if b.cls == engx.Removed && a.cls == engx.OK {
				// Demanded only where an evacuation could have kept the status without
				// failing: every remaining shard was writable during Evacuate.
				satisfiable := true
				for _, s := range remaining {
					satisfiable = satisfiable && k.Targets[s] == "rw"
				}
				if !satisfiable {
					lab["removed-reappears-some-target-not-writable(not-asserted)"] = true
				} else if rec.Known(fpTomb) {
					rec.Excluded(1)
					lab["known:"+fpTomb] = true
				} else {
					failf("[class %s] object reported removed before evacuation is served again afterwards: %s", fpTomb, desc)
				}
			}
		default:
			shardOK := false
			for _, c := range shardCls[i] {
				shardOK = shardOK || c == engx.OK
			}
			if b.cls == engx.OK && !shardOK {
				// no shard serves it on its own: the engine read came from the
				// ignore-metadata fallback that a degraded shard switches on (the
				// OPEN finding C20:marked-object-served-by-degraded-fallback)
				lab["before-read-served-only-by-degraded-fallback(not-asserted)"] = true
				break
			}
			switch b.cls {
			case engx.OK:
				if a.cls != engx.OK || !engx.SameObject(a.obj, objs[i]) || !engx.SameObject(b.obj, objs[i]) {
					failf("available object is not available with identical bytes from the remaining shards: %s", desc)
				}
				if b.hcls == engx.OK && (a.hcls != engx.OK || !engx.SameHeader(a.hdr, objs[i])) {
					failf("header of an available object changed / is gone: %s", desc)
				}
			case engx.Split, engx.ECParent:
				if a.cls != b.cls {
					failf("parent object status changed: %s", desc)
				}
			case engx.Removed:
				// The direct target of a stored tombstone must stay "already removed";
				// objects removed through their parent may become "not found" when the
				// (inhumed, hence not evacuated) child that linked them to the parent
				// lived on an evacuated shard – unavailable either way.
				if a.cls != engx.Removed && (directTarget[i] || a.cls != engx.NotFound) {
					failf("removal status changed: %s", desc)
				}
			case engx.NotFound:
				if a.cls == engx.OK {
					failf("object that was not available appeared: %s", desc)
				}
			}
		}
		if !excused[i] && b.lerr == nil && a.lerr == nil && a.locked != b.locked {
			failf("lock status changed: %s", desc)
		}
		if !excused[i] && b.lerr == nil && a.lerr != nil {
			failf("IsLocked fails on the remaining shards: %s", desc)
		}
	}
	if badTarget {
		lab["target-ro-or-failing"] = true
	}
	if srcSpecial {
		lab["source-held-system-or-part-object"] = true
	}
	return nil, srcSpecial && badTarget
}

func TestC19Evacuate(t *testing.T) {
	rec := ev.New("C19", "evacuate")
	defer rec.Flush()
	rapid.Check(t, func(t *rapid.T) {
		k := gen(t)
		var (
			labels []string
			nt     bool
		)
		defer func() {
			rec.Case(nt, k.String(), labels...)
			if nt && rec.WantSample() {
				rec.Sample(k)
			}
		}()
		labels, nt = run(t, rec, k)
	})
}

package c19

import (
	"context"
	"fmt"
	"os"
	"testing"

	"github.com/nspcc-dev/neofs-node/verifharness/engx"
	"github.com/nspcc-dev/neofs-node/verifharness/uni"
	"pgregory.net/rapid"
)

func TestDbg(t *testing.T) {
	root, _ := os.MkdirTemp("", "c19dbg")
	defer os.RemoveAll(root)
	e, err := engx.Open(engx.Spec{Root: root, Dirs: []string{"a", "b"}})
	if err != nil {
		t.Fatal(err)
	}
	defer e.Close()
	var sp []uni.Spec
	rapid.Check(t, func(t *rapid.T) { sp = specs(t) })
	for i, s := range sp {
		o := uni.Build(s)
		err := e.E.Put(context.Background(), o, nil)
		fmt.Printf("o%d %s -> %v holders %v\n", i, s, err, e.Holders(o.Address()))
	}
}

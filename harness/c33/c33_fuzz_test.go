package c33

import (
	"testing"

	protosession "github.com/nspcc-dev/neofs-sdk-go/proto/session"
	"google.golang.org/protobuf/proto"
	"pgregory.net/rapid"
)

// FuzzVerificationHeader (thorough tier): coverage-guided mutation of the
// marshalled verification header of deterministic, validly signed requests.
// Oracle: no panic; accepted by the node <=> accepted by the reference rules
// (so an accepted header carries valid signatures of exactly this body / meta
// chain); rejections are SignatureVerification statuses.
func FuzzVerificationHeader(f *testing.F) {
	g := rapid.Custom(genChain)
	var chains []chain
	for i := 1; len(chains) < 24 && i < 200; i++ {
		c := g.Example(i)
		if c.mode == "mixed-legacy-outer" {
			continue
		}
		chains = append(chains, c)
		f.Add(uint8(len(chains)-1), stable(c.req.GetVerifyHeader()))
	}
	f.Add(uint8(0), []byte{})
	f.Fuzz(func(t *testing.T, idx uint8, data []byte) {
		c := chains[int(idx)%len(chains)]
		vh := new(protosession.RequestVerificationHeader)
		if proto.Unmarshal(data, vh) != nil {
			return
		}
		k := c.k
		req := k.mk(k.bodyPM(c.req), c.req.GetMetaHeader(), vh)
		refPlain := refVerify(k.body(req), req.GetMetaHeader(), vh, false)
		refN3 := refVerify(k.body(req), req.GetMetaHeader(), vh, true)
		check := func(name string, err error, want bool) {
			if (err == nil) != want {
				t.Fatalf("%s: accepted=%v (err=%v), reference expects %v; chain %s %s layers=%d signers=%v vh=%x", name, err == nil, err, want, k.name, c.mode, c.layers, c.signers, data)
			}
			if err != nil && !isSigVerification(err) {
				t.Fatalf("%s: rejection is not apistatus.SignatureVerification: %v", name, err)
			}
		}
		check("VerifyRequestSignatures", callNoPanic(t, "VerifyRequestSignatures", func() error { return k.plain(req) }), refPlain)
		check("VerifyRequestSignaturesN3", callNoPanic(t, "VerifyRequestSignaturesN3", func() error { return k.n3(peerCtxs[0].ctx, req, fakeChain{}) }), refN3)
	})
}

// Package c33 decides property C33: a request is treated as authentically
// signed only if every verification layer verifies; the only exemption is the
// one-hop (TTL 1) request without verification header from an authenticated
// peer connection.
//
// Reach: icrypto.VerifyRequestSignatures / ...WithContext / ...N3 and
// GetRequestAuthor on real protobuf requests of several RPCs, signed in 1..3
// layers by the SDK's SignRequestWithBuffer with deterministic signers of all
// ECDSA schemes and an N3 witness signer (fake FS chain script runner).
//
// Oracle:
//   - refVerify: the verification rules of the NeoFS API written out here
//     (layer walk + signature checks implemented with crypto/ecdsa only, no SDK
//     verification code) decide accept / reject for ANY request, including
//     re-signed, layer-dropped and signature-swapped ones;
//   - exemption: accept without signatures iff no verification header, meta
//     header with TTL == 1 and a peer context carrying peerauth.AuthInfo, and
//     only for the ...WithContext / ...N3 entry points;
//   - metamorphic cross-check independent of refVerify: a semantic change of any
//     part covered by a verified signature (body, meta header chain, verification
//     header chain) without re-signing must be rejected; an untouched request
//     signed by the SDK must be accepted.
package c33

import (
	"bytes"
	"context"
	"crypto/ecdsa"
	"crypto/elliptic"
	"crypto/rsa"
	"crypto/sha256"
	"crypto/sha512"
	"crypto/tls"
	"crypto/x509"
	"encoding/base64"
	"errors"
	"fmt"
	"math/big"
	"testing"

	"github.com/nspcc-dev/neo-go/pkg/core/block"
	"github.com/nspcc-dev/neo-go/pkg/core/transaction"
	"github.com/nspcc-dev/neo-go/pkg/crypto/hash"
	"github.com/nspcc-dev/neo-go/pkg/neorpc/result"
	"github.com/nspcc-dev/neo-go/pkg/smartcontract/trigger"
	"github.com/nspcc-dev/neo-go/pkg/vm/stackitem"
	icrypto "github.com/nspcc-dev/neofs-node/internal/crypto"
	"github.com/nspcc-dev/neofs-node/pkg/network/peerauth"
	"github.com/nspcc-dev/neofs-node/verifharness/ev"
	"github.com/nspcc-dev/neofs-node/verifharness/genobj"
	"github.com/nspcc-dev/neofs-node/verifharness/gensign"
	apistatus "github.com/nspcc-dev/neofs-sdk-go/client/status"
	neofscrypto "github.com/nspcc-dev/neofs-sdk-go/crypto"
	protoaccounting "github.com/nspcc-dev/neofs-sdk-go/proto/accounting"
	protonetmap "github.com/nspcc-dev/neofs-sdk-go/proto/netmap"
	protoobject "github.com/nspcc-dev/neofs-sdk-go/proto/object"
	"github.com/nspcc-dev/neofs-sdk-go/proto/refs"
	protosession "github.com/nspcc-dev/neofs-sdk-go/proto/session"
	"github.com/nspcc-dev/neofs-sdk-go/user"
	"google.golang.org/grpc/credentials"
	"google.golang.org/grpc/peer"
	"google.golang.org/protobuf/proto"
	"pgregory.net/rapid"
)

// ---------- fake FS chain for the N3 scheme ----------

// fakeChain stands in for the FS chain call the node delegates N3 witness
// verification to. It accepts exactly the witnesses produced by gensign.N3Signer.
type fakeChain struct{}

func (fakeChain) InvokeContainedScript(tx *transaction.Transaction, header *block.Header, _ *trigger.Type, _ *bool) (*result.Invoke, error) {
	ok := false
	if len(tx.Script) >= sha256.Size && len(tx.Signers) == 1 && header == nil {
		invoc, verif := tx.Script[:sha256.Size], tx.Script[sha256.Size:]
		ok = tx.Signers[0].Account == hash.Hash160(verif) && bytes.Equal(invoc, gensign.N3Invocation(verif, [sha256.Size]byte(tx.Hash())))
	}
	return &result.Invoke{State: "HALT", Stack: []stackitem.Item{stackitem.NewBool(ok)}}, nil
}

// ---------- reference verification (API rules, stdlib crypto) ----------

func stable(m neofscrypto.ProtoMessage) []byte {
	b := make([]byte, m.MarshaledSize())
	m.MarshalStable(b)
	return b
}

func refDecodeKey(b []byte) *ecdsa.PublicKey {
	var x, y *big.Int
	switch {
	case len(b) == 33 && (b[0] == 2 || b[0] == 3):
		x, y = elliptic.UnmarshalCompressed(elliptic.P256(), b)
	case len(b) == 65 && b[0] == 4:
		x, y = elliptic.Unmarshal(elliptic.P256(), b) //nolint:staticcheck
	}
	if x == nil {
		return nil
	}
	return &ecdsa.PublicKey{Curve: elliptic.P256(), X: x, Y: y}
}

// refSigValid: is s a valid signature of data under the scheme it names?
func refSigValid(s *refs.Signature, data []byte, n3 bool) bool {
	if s == nil || len(s.Key) == 0 {
		return false
	}
	if s.Scheme == refs.SignatureScheme_N3 {
		return n3 && bytes.Equal(s.Sign, gensign.N3Invocation(s.Key, sha256.Sum256(data)))
	}
	pub := refDecodeKey(s.Key)
	if pub == nil {
		return false
	}
	rs := func(b []byte) (*big.Int, *big.Int) {
		return new(big.Int).SetBytes(b[:32]), new(big.Int).SetBytes(b[32:64])
	}
	switch s.Scheme {
	case refs.SignatureScheme_ECDSA_SHA512:
		if len(s.Sign) != 65 || s.Sign[0] != 4 {
			return false
		}
		h := sha512.Sum512(data)
		r, ss := rs(s.Sign[1:])
		return ecdsa.Verify(pub, h[:], r, ss)
	case refs.SignatureScheme_ECDSA_RFC6979_SHA256:
		if len(s.Sign) != 64 {
			return false
		}
		h := sha256.Sum256(data)
		r, ss := rs(s.Sign)
		return ecdsa.Verify(pub, h[:], r, ss)
	case refs.SignatureScheme_ECDSA_RFC6979_SHA256_WALLET_CONNECT:
		if len(s.Sign) != 80 {
			return false
		}
		b64 := make([]byte, base64.StdEncoding.EncodedLen(len(data)))
		base64.StdEncoding.Encode(b64, data)
		h := sha256.Sum256(gensign.SaltMessageWalletConnect(b64, s.Sign[64:]))
		r, ss := rs(s.Sign)
		return ecdsa.Verify(pub, h[:], r, ss)
	}
	return false
}

func legacyVersion(m *protosession.RequestMetaHeader) bool {
	v := m.GetVersion()
	return m == nil || v == nil || v.Major < 2 || (v.Major == 2 && v.Minor < 25)
}

// refVerify implements the request verification rules of the NeoFS API.
// Before API 2.25: layer i signs meta header i and verification header i+1 (the
// origin), the innermost layer signs the body, outer layers must not; the meta
// and verification chains have equal length. From API 2.25 on (version of the
// outermost meta header): the outermost layer signs body and meta header,
// origins are not looked at.
func refVerify(body neofscrypto.ProtoMessage, m *protosession.RequestMetaHeader, v *protosession.RequestVerificationHeader, n3 bool) bool {
	if v == nil {
		return false
	}
	if !legacyVersion(m) {
		return refSigValid(v.MetaSignature, stable(m), n3) && refSigValid(v.BodySignature, stable(body), n3)
	}
	// (a missing outermost meta header counts as an empty one)
	for mo, vo := m.GetOrigin(), v.GetOrigin(); ; mo, vo = mo.GetOrigin(), vo.GetOrigin() {
		if (mo == nil) != (vo == nil) {
			return false
		}
		if vo == nil {
			break
		}
	}
	for ; ; m, v = m.Origin, v.Origin {
		if !refSigValid(v.MetaSignature, stable(m), n3) || !refSigValid(v.OriginSignature, stable(v.Origin), n3) {
			return false
		}
		if v.Origin == nil {
			return refSigValid(v.BodySignature, stable(body), n3)
		}
		if v.BodySignature != nil {
			return false
		}
	}
}

// ---------- request kinds ----------

type request interface {
	proto.Message
	GetMetaHeader() *protosession.RequestMetaHeader
	GetVerifyHeader() *protosession.RequestVerificationHeader
}

// kind binds the generic entry points to one concrete request type.
type kind struct {
	name    string
	genBody func(t *rapid.T) proto.Message
	mk      func(body proto.Message, m *protosession.RequestMetaHeader, v *protosession.RequestVerificationHeader) request
	body    func(r request) neofscrypto.ProtoMessage
	bodyPM  func(r request) proto.Message // nil-safe copy source
	sign    func(s neofscrypto.Signer, r request) (*protosession.RequestVerificationHeader, error)
	plain   func(r request) error
	withCtx func(ctx context.Context, r request) error
	n3      func(ctx context.Context, r request, c icrypto.N3ScriptRunner) error
}

type bodyMsg interface {
	neofscrypto.ProtoMessage
	proto.Message
}

func mkKind[B bodyMsg, R interface {
	request
	neofscrypto.SignedRequest[B]
}](name string, gen func(t *rapid.T) B, mk func(B, *protosession.RequestMetaHeader, *protosession.RequestVerificationHeader) R) kind {
	return kind{
		name:    name,
		genBody: func(t *rapid.T) proto.Message { return gen(t) },
		mk: func(b proto.Message, m *protosession.RequestMetaHeader, v *protosession.RequestVerificationHeader) request {
			return mk(b.(B), m, v)
		},
		body:   func(r request) neofscrypto.ProtoMessage { return r.(R).GetBody() },
		bodyPM: func(r request) proto.Message { return r.(R).GetBody() },
		sign: func(s neofscrypto.Signer, r request) (*protosession.RequestVerificationHeader, error) {
			return neofscrypto.SignRequestWithBuffer[B](s, r.(R), nil)
		},
		plain:   func(r request) error { return icrypto.VerifyRequestSignatures[B](r.(R)) },
		withCtx: func(ctx context.Context, r request) error { return icrypto.VerifyRequestSignaturesWithContext[B](ctx, r.(R)) },
		n3: func(ctx context.Context, r request, c icrypto.N3ScriptRunner) error {
			return icrypto.VerifyRequestSignaturesN3[B](ctx, r.(R), c)
		},
	}
}

func genAddress(t *rapid.T) *refs.Address {
	c := genobj.Container(rapid.IntRange(0, genobj.NContainers-1).Draw(t, "cnr"))
	o := genobj.PoolID(rapid.IntRange(0, genobj.NIDs-1).Draw(t, "oid"))
	return &refs.Address{ContainerId: &refs.ContainerID{Value: c[:]}, ObjectId: &refs.ObjectID{Value: o[:]}}
}

var kinds = []kind{
	mkKind("object.Get", func(t *rapid.T) *protoobject.GetRequest_Body {
		return &protoobject.GetRequest_Body{Address: genAddress(t), Raw: rapid.Bool().Draw(t, "raw")}
	}, func(b *protoobject.GetRequest_Body, m *protosession.RequestMetaHeader, v *protosession.RequestVerificationHeader) *protoobject.GetRequest {
		return &protoobject.GetRequest{Body: b, MetaHeader: m, VerifyHeader: v}
	}),
	mkKind("object.Head", func(t *rapid.T) *protoobject.HeadRequest_Body {
		return &protoobject.HeadRequest_Body{Address: genAddress(t), Raw: rapid.Bool().Draw(t, "raw"), MainOnly: rapid.Bool().Draw(t, "main")}
	}, func(b *protoobject.HeadRequest_Body, m *protosession.RequestMetaHeader, v *protosession.RequestVerificationHeader) *protoobject.HeadRequest {
		return &protoobject.HeadRequest{Body: b, MetaHeader: m, VerifyHeader: v}
	}),
	mkKind("object.Delete", func(t *rapid.T) *protoobject.DeleteRequest_Body {
		return &protoobject.DeleteRequest_Body{Address: genAddress(t)}
	}, func(b *protoobject.DeleteRequest_Body, m *protosession.RequestMetaHeader, v *protosession.RequestVerificationHeader) *protoobject.DeleteRequest {
		return &protoobject.DeleteRequest{Body: b, MetaHeader: m, VerifyHeader: v}
	}),
	mkKind("accounting.Balance", func(t *rapid.T) *protoaccounting.BalanceRequest_Body {
		u := gensign.UserID(rapid.IntRange(0, gensign.NKeys-1).Draw(t, "owner"))
		return &protoaccounting.BalanceRequest_Body{OwnerId: &refs.OwnerID{Value: u[:]}}
	}, func(b *protoaccounting.BalanceRequest_Body, m *protosession.RequestMetaHeader, v *protosession.RequestVerificationHeader) *protoaccounting.BalanceRequest {
		return &protoaccounting.BalanceRequest{Body: b, MetaHeader: m, VerifyHeader: v}
	}),
	// empty body: the signed body bytes are empty, like an empty meta header / nil origin
	mkKind("netmap.LocalNodeInfo", func(t *rapid.T) *protonetmap.LocalNodeInfoRequest_Body {
		if rapid.Bool().Draw(t, "nilBody") {
			return nil
		}
		return &protonetmap.LocalNodeInfoRequest_Body{}
	}, func(b *protonetmap.LocalNodeInfoRequest_Body, m *protosession.RequestMetaHeader, v *protosession.RequestVerificationHeader) *protonetmap.LocalNodeInfoRequest {
		return &protonetmap.LocalNodeInfoRequest{Body: b, MetaHeader: m, VerifyHeader: v}
	}),
}

// ---------- peer contexts ----------

type peerCtx struct {
	name     string
	ctx      context.Context
	trusted  bool // AuthInfo is the node's own peerauth.AuthInfo
	plainTLS bool // AuthInfo is an unwrapped credentials.TLSInfo
}

// serverAuthInfo mirrors trustedPeerCredentials.ServerHandshake of
// cmd/neofs-node/mtls.go (package main, not importable): the TLS info is
// upgraded to peerauth.AuthInfo only when the client presented a certificate
// with a supported (P-256 ECDSA) key.
func serverAuthInfo(tlsInfo credentials.TLSInfo) credentials.AuthInfo {
	if len(tlsInfo.State.PeerCertificates) == 0 {
		return tlsInfo
	}
	trusted, err := peerauth.NewAuthInfo(tlsInfo)
	if err != nil {
		return tlsInfo
	}
	return trusted
}

func tlsWith(pub any) credentials.TLSInfo {
	var st tls.ConnectionState
	if pub != nil {
		st.PeerCertificates = []*x509.Certificate{{PublicKey: pub}}
	}
	return credentials.TLSInfo{State: st}
}

// plainAuth is what a non-TLS listener reports (any AuthInfo that is not peerauth.AuthInfo).
type plainAuth struct{}

func (plainAuth) AuthType() string { return "insecure" }

var peerCtxs = func() []peerCtx {
	withPeer := func(ai credentials.AuthInfo) context.Context {
		return peer.NewContext(context.Background(), &peer.Peer{AuthInfo: ai})
	}
	x384, y384 := elliptic.P384().ScalarBaseMult([]byte{7})
	p256a, p256b := &gensign.Key(0).PublicKey, &gensign.Key(3).PublicKey
	p384 := &ecdsa.PublicKey{Curve: elliptic.P384(), X: x384, Y: y384}
	rsaKey := &rsa.PublicKey{N: big.NewInt(3233), E: 17}
	tlsCerts := func(pubs ...any) credentials.TLSInfo {
		var st tls.ConnectionState
		for _, p := range pubs {
			st.PeerCertificates = append(st.PeerCertificates, &x509.Certificate{PublicKey: p})
		}
		return credentials.TLSInfo{State: st}
	}
	genuine, err := peerauth.NewAuthInfo(tlsWith(p256a))
	if err != nil {
		panic(err)
	}
	res := []peerCtx{
		{name: "no-peer", ctx: context.Background()},
		{name: "peer-no-auth", ctx: withPeer(nil)},
		{name: "peer-insecure", ctx: withPeer(plainAuth{})},
		{name: "peer-other-tls-authtype", ctx: withPeer(otherTLSAuth{tlsWith(p256a)})},
		{name: "peer-ptr-to-authinfo", ctx: withPeer(&genuine)},
		// what the node's mTLS credentials (cmd/neofs-node/mtls.go) report
		{name: "tls-no-client-cert", ctx: withPeer(serverAuthInfo(tlsWith(nil)))},
		{name: "tls-p384-cert", ctx: withPeer(serverAuthInfo(tlsWith(p384)))},
		{name: "tls-rsa-cert", ctx: withPeer(serverAuthInfo(tlsWith(rsaKey)))},
		// a listener with standard, unwrapped gRPC TLS credentials: plain credentials.TLSInfo
		// whatever certificate (self-signed, unverified) the client presented. Never authenticated.
		{name: "plainTLSInfo-0certs", ctx: withPeer(tlsCerts()), plainTLS: true},
		{name: "plainTLSInfo-p256", ctx: withPeer(tlsCerts(p256a)), plainTLS: true},
		{name: "plainTLSInfo-p256-other", ctx: withPeer(tlsCerts(p256b)), plainTLS: true},
		{name: "plainTLSInfo-2certs-p256-p256", ctx: withPeer(tlsCerts(p256a, p256b)), plainTLS: true},
		{name: "plainTLSInfo-2certs-rsa-p256", ctx: withPeer(tlsCerts(rsaKey, p256a)), plainTLS: true},
		{name: "plainTLSInfo-p384", ctx: withPeer(tlsCerts(p384)), plainTLS: true},
		{name: "plainTLSInfo-rsa", ctx: withPeer(tlsCerts(rsaKey)), plainTLS: true},
		// genuine: peerauth.AuthInfo, produced only after the node authenticated the peer
		{name: "tls-p256-cert", ctx: withPeer(serverAuthInfo(tlsWith(p256a))), trusted: true},
		{name: "tls-p256-cert-2", ctx: withPeer(serverAuthInfo(tlsWith(p256b))), trusted: true},
		{name: "authinfo-2certs", ctx: withPeer(serverAuthInfo(tlsCerts(p256b, rsaKey))), trusted: true},
	}
	return res
}()

// otherTLSAuth is a foreign credentials.AuthInfo implementation that embeds TLS
// info with a P-256 certificate but is not the node's peerauth.AuthInfo.
type otherTLSAuth struct{ credentials.TLSInfo }

var trustedCtxs, plainTLSCtxs = func() (tr, pl []peerCtx) {
	for _, p := range peerCtxs {
		if p.trusted {
			tr = append(tr, p)
		}
		if p.plainTLS {
			pl = append(pl, p)
		}
	}
	return
}()

func init() {
	// self-check of the harness: trusted <=> the peer's AuthInfo is (by value) the node's own
	// peerauth.AuthInfo; that is the documented rule ("ctx was authenticated during the TLS handshake")
	for _, p := range peerCtxs {
		pr, _ := peer.FromContext(p.ctx)
		isAuth := false
		if pr != nil {
			_, isAuth = pr.AuthInfo.(peerauth.AuthInfo)
		}
		if isAuth != p.trusted {
			panic("harness: peer context " + p.name + " trusted flag mismatch")
		}
		if pr != nil {
			if _, isTLS := pr.AuthInfo.(credentials.TLSInfo); isTLS != (p.plainTLS || p.name == "tls-no-client-cert" || p.name == "tls-p384-cert" || p.name == "tls-rsa-cert") {
				panic("harness: peer context " + p.name + " plain TLS flag mismatch")
			}
		}
	}
	if len(trustedCtxs) == 0 || len(plainTLSCtxs) == 0 {
		panic("harness: empty context class")
	}
}

// ctxLabels: distribution labels of one (context, request) combination.
func ctxLabels(pc peerCtx, ttl1, noHeader bool) []string {
	var l []string
	if pc.plainTLS && ttl1 && noHeader {
		l = append(l, "plainTLSInfo&ttl1&noheader")
	}
	if pc.trusted && ttl1 && noHeader {
		l = append(l, "authinfo&ttl1&noheader")
	}
	return l
}

// ---------- building signed chains ----------

var versions = []*refs.Version{nil, {Major: 2, Minor: 18}, {Major: 2, Minor: 24}, {Major: 1, Minor: 99}, {Major: 2, Minor: 25}, {Major: 2, Minor: 26}, {Major: 3, Minor: 0}}

func genMeta(t *rapid.T, label string, ttl uint32, ver *refs.Version) *protosession.RequestMetaHeader {
	if rapid.IntRange(0, 11).Draw(t, label+"Empty") == 0 && ttl == 0 && ver == nil {
		if rapid.Bool().Draw(t, label+"Nil") {
			return nil
		}
		return &protosession.RequestMetaHeader{}
	}
	m := &protosession.RequestMetaHeader{Ttl: ttl, Epoch: rapid.SampledFrom([]uint64{0, 1, 13, 1 << 40}).Draw(t, label+"Epoch")}
	if ver != nil {
		m.Version = proto.Clone(ver).(*refs.Version)
	}
	if rapid.Bool().Draw(t, label+"Magic") {
		m.MagicNumber = 0x334F454E
	}
	for i, n := 0, rapid.IntRange(0, 2).Draw(t, label+"XH"); i < n; i++ {
		m.XHeaders = append(m.XHeaders, &protosession.XHeader{Key: fmt.Sprintf("x-%d", i), Value: rapid.SampledFrom([]string{"", "v", "value"}).Draw(t, label+"XV")})
	}
	return m
}

type anySigner struct {
	s    neofscrypto.Signer
	desc string
}

func genSigner(t *rapid.T, label string) anySigner {
	if rapid.IntRange(0, 5).Draw(t, label+"N3") == 0 {
		id := rapid.IntRange(0, 2).Draw(t, label+"Acc")
		return anySigner{gensign.N3Signer{ID: id}, fmt.Sprintf("N3#%d", id)}
	}
	k := rapid.IntRange(0, gensign.NKeys-1).Draw(t, label+"Key")
	sc := rapid.SampledFrom(gensign.Schemes).Draw(t, label+"Scheme")
	return anySigner{gensign.New(k, sc), fmt.Sprintf("%v#%d", sc, k)}
}

type chain struct {
	k       kind
	req     request
	layers  int
	mode    string // "legacy", "v2.25", "mixed-legacy-outer"
	hasN3   bool
	signers []string
}

func genChain(t *rapid.T) chain {
	k := kinds[rapid.IntRange(0, len(kinds)-1).Draw(t, "kind")]
	layers := rapid.SampledFrom([]int{1, 1, 2, 2, 3}).Draw(t, "layers")
	modeSel := rapid.SampledFrom([]string{"legacy", "legacy", "v2.25", "mixed"}).Draw(t, "mode")
	legacyVers, newVers := versions[:4], versions[4:]
	pickVer := func(i int, label string) *refs.Version {
		legacy := modeSel == "legacy" || (modeSel == "mixed" && rapid.Bool().Draw(t, label+"Leg"))
		if legacy {
			return rapid.SampledFrom(legacyVers).Draw(t, label)
		}
		return rapid.SampledFrom(newVers).Draw(t, label)
	}
	ttl0 := rapid.SampledFrom([]uint32{0, 1, 2, 3, 5, 1<<32 - 1}).Draw(t, "ttl")
	body := k.genBody(t)
	c := chain{k: k, layers: layers}
	var meta *protosession.RequestMetaHeader
	var vh *protosession.RequestVerificationHeader
	allLegacy, outerLegacy := true, true
	for i := 0; i < layers; i++ {
		ttl := ttl0
		if uint32(i) <= ttl0 {
			ttl = ttl0 - uint32(i)
		}
		ver := pickVer(i, fmt.Sprintf("ver%d", i))
		m := genMeta(t, fmt.Sprintf("meta%d", i), ttl, ver)
		if m == nil && layers > 1 {
			m = &protosession.RequestMetaHeader{} // a nil meta header cannot be an origin of / carry an origin
		}
		if i > 0 {
			m.Origin = meta
		}
		meta = m
		req := k.mk(body, meta, vh)
		s := genSigner(t, fmt.Sprintf("signer%d", i))
		if _, ok := s.s.(gensign.N3Signer); ok {
			c.hasN3 = true
		}
		c.signers = append(c.signers, s.desc)
		var err error
		if vh, err = k.sign(s.s, req); err != nil {
			t.Fatalf("harness: sign: %v", err)
		}
		outerLegacy = legacyVersion(meta)
		allLegacy = allLegacy && outerLegacy
	}
	c.req = k.mk(body, meta, vh)
	switch {
	case allLegacy:
		c.mode = "legacy"
	case !outerLegacy:
		c.mode = "v2.25"
	default:
		c.mode = "mixed-legacy-outer"
	}
	return c
}

// ---------- mutations ----------

// covered says whether the mutation changes (semantically) a part that a
// verified signature covers, without producing new valid signatures.
type mutation struct {
	name    string
	covered bool // must be rejected (metamorphic oracle)
	changed bool // the request differs from the signed one
}

func vhAt(v *protosession.RequestVerificationHeader, depth int) *protosession.RequestVerificationHeader {
	for i := 0; i < depth && v != nil; i++ {
		v = v.Origin
	}
	return v
}

func metaAt(m *protosession.RequestMetaHeader, depth int) *protosession.RequestMetaHeader {
	for i := 0; i < depth && m != nil; i++ {
		m = m.Origin
	}
	return m
}

func slot(v *protosession.RequestVerificationHeader, i int) **refs.Signature {
	switch i {
	case 0:
		return &v.BodySignature
	case 1:
		return &v.MetaSignature
	default:
		return &v.OriginSignature
	}
}

var slotNames = []string{"body", "meta", "origin"}

// flipStable flips one byte of the stable encoding of msg and decodes it back
// into a fresh message of the same type; ok=false if it does not decode or does
// not change the stable encoding (not a semantic change).
func flipStable[M interface {
	proto.Message
	neofscrypto.ProtoMessage
}](t *rapid.T, msg M, label string) (M, bool) {
	var zero M
	b := stable(msg)
	if len(b) == 0 {
		return zero, false
	}
	pos := rapid.IntRange(0, len(b)-1).Draw(t, label+"Pos")
	b[pos] ^= 1 << rapid.IntRange(0, 7).Draw(t, label+"Bit")
	out := msg.ProtoReflect().New().Interface().(M)
	if proto.Unmarshal(b, out) != nil {
		return zero, false
	}
	if bytes.Equal(stable(out), stable(msg)) {
		return zero, false
	}
	return out, true
}

// depthCovered: is verification header layer `depth` looked at by verification?
func depthCovered(c chain, depth int) bool { return c.mode != "v2.25" || depth == 0 }

// mutate applies one drawn mutation to a deep copy of the chain's request.
func mutate(t *rapid.T, c chain) (request, mutation) {
	k := c.k
	orig := c.req
	body := k.bodyPM(orig)
	meta := proto.Clone(orig.GetMetaHeader()).(*protosession.RequestMetaHeader)
	vh := proto.Clone(orig.GetVerifyHeader()).(*protosession.RequestVerificationHeader)
	rebuild := func() request { return k.mk(body, meta, vh) }
	depth := rapid.IntRange(0, c.layers-1).Draw(t, "mutDepth")
	legacy := c.mode != "v2.25"

	// only mutations applicable to this chain are offered (inapplicable draws would be wasted "none" cases)
	names := []string{"none", "none", "sig-flip", "sig-flip", "key-flip", "scheme", "drop-slot", "copy-sig", "foreign-key", "resign-slot",
		"strip-vh", "strip-vh", "strip-vh", "empty-vh", "extra-origin", "vh-flip", "vh-flip"}
	if len(stable(k.body(orig))) > 0 {
		names = append(names, "body-flip", "body-flip")
	}
	if meta != nil {
		names = append(names, "meta-field", "meta-field")
		if len(stable(meta)) > 0 {
			names = append(names, "meta-flip")
		}
	}
	if c.layers > 1 {
		names = append(names, "drop-layer", "drop-layer", "drop-both-layers", "swap-layers", "swap-layers", "copy-sig")
		if legacy {
			names = append(names, "body-sig-on-outer")
		}
	}
	name := rapid.SampledFrom(names).Draw(t, "mutation")
	mu := mutation{name: name}
	switch name {
	case "none":
	case "body-flip":
		switch b := body.(type) {
		case *protoobject.GetRequest_Body:
			if nb, ok := flipStable(t, b, "body"); ok {
				body, mu.covered, mu.changed = nb, true, true
			}
		case *protoobject.HeadRequest_Body:
			if nb, ok := flipStable(t, b, "body"); ok {
				body, mu.covered, mu.changed = nb, true, true
			}
		case *protoobject.DeleteRequest_Body:
			if nb, ok := flipStable(t, b, "body"); ok {
				body, mu.covered, mu.changed = nb, true, true
			}
		case *protoaccounting.BalanceRequest_Body:
			if nb, ok := flipStable(t, b, "body"); ok {
				body, mu.covered, mu.changed = nb, true, true
			}
		}
	case "meta-flip":
		if meta != nil {
			if nm, ok := flipStable(t, meta, "meta"); ok {
				meta, mu.covered, mu.changed = nm, true, true
			}
		}
	case "meta-field":
		if m := metaAt(meta, depth); m != nil {
			before := stable(meta)
			switch rapid.IntRange(0, 4).Draw(t, "metaField") {
			case 0:
				m.Ttl = rapid.SampledFrom([]uint32{0, 1, 2, m.Ttl + 1}).Draw(t, "newTTL")
			case 1:
				m.Epoch++
			case 2:
				m.XHeaders = append(m.XHeaders, &protosession.XHeader{Key: "injected", Value: "1"})
			case 3:
				m.Version = rapid.SampledFrom(versions[1:]).Draw(t, "newVer")
			case 4:
				m.MagicNumber ^= 1
			}
			// the whole meta chain is inside the outermost meta header, which layer 0 signs
			mu.changed = !bytes.Equal(before, stable(meta))
			mu.covered = mu.changed
		}
	case "sig-flip", "key-flip", "scheme":
		v := vhAt(vh, depth)
		si := rapid.IntRange(0, 2).Draw(t, "slot")
		if s := *slot(v, si); s != nil {
			mu.name += ":" + slotNames[si]
			switch name {
			case "sig-flip":
				if len(s.Sign) > 0 {
					s.Sign[rapid.IntRange(0, len(s.Sign)-1).Draw(t, "pos")] ^= 1 << rapid.IntRange(0, 7).Draw(t, "bit")
					mu.changed = true
				}
			case "key-flip":
				if len(s.Key) > 0 {
					s.Key[rapid.IntRange(0, len(s.Key)-1).Draw(t, "pos")] ^= 1 << rapid.IntRange(0, 7).Draw(t, "bit")
					mu.changed = true
				}
			case "scheme":
				ns := rapid.SampledFrom([]refs.SignatureScheme{0, 1, 2, 3, 4, -1, 1000}).Draw(t, "newScheme")
				mu.changed = ns != s.Scheme
				s.Scheme = ns
			}
			// covered unless the slot is not looked at (origin slots / inner layers from 2.25 on)
			mu.covered = mu.changed && depthCovered(c, depth) && (legacy || si != 2)
		}
	case "drop-slot":
		v := vhAt(vh, depth)
		si := rapid.IntRange(0, 2).Draw(t, "slot")
		if *slot(v, si) != nil {
			*slot(v, si) = nil
			mu.name += ":" + slotNames[si]
			mu.changed = true
			mu.covered = depthCovered(c, depth) && (legacy || si != 2)
		}
	case "drop-layer":
		// remove verification layer `depth`, keep the meta chain
		if c.layers > 1 {
			if depth == 0 {
				vh = vh.Origin
			} else {
				vhAt(vh, depth-1).Origin = vhAt(vh, depth).Origin
			}
			mu.changed = true
			mu.covered = legacy || depth == 0
		}
	case "drop-both-layers":
		// peel the outermost hop completely: what remains is the inner request as it was signed
		if c.layers > 1 {
			vh, meta = vh.Origin, meta.Origin
			mu.changed = true // may be valid again (it is the request one hop earlier)
		}
	case "swap-layers":
		if c.layers > 1 {
			d := rapid.IntRange(0, c.layers-2).Draw(t, "swapAt")
			a, b := vhAt(vh, d), vhAt(vh, d+1)
			a.BodySignature, b.BodySignature = b.BodySignature, a.BodySignature
			a.MetaSignature, b.MetaSignature = b.MetaSignature, a.MetaSignature
			a.OriginSignature, b.OriginSignature = b.OriginSignature, a.OriginSignature
			mu.changed = !bytes.Equal(stable(vh), stable(orig.GetVerifyHeader()))
		}
	case "copy-sig":
		// replace a signature by one taken from another slot / layer
		v1 := vhAt(vh, depth)
		v2 := vhAt(vh, rapid.IntRange(0, c.layers-1).Draw(t, "fromDepth"))
		s1, s2 := rapid.IntRange(0, 2).Draw(t, "toSlot"), rapid.IntRange(0, 2).Draw(t, "fromSlot")
		if src := *slot(v2, s2); src != nil {
			*slot(v1, s1) = proto.Clone(src).(*refs.Signature)
			mu.changed = !bytes.Equal(stable(vh), stable(orig.GetVerifyHeader()))
		}
	case "foreign-key":
		// substitute the key by another valid key, signature untouched
		v := vhAt(vh, depth)
		si := rapid.IntRange(0, 2).Draw(t, "slot")
		if s := *slot(v, si); s != nil && s.Scheme != refs.SignatureScheme_N3 {
			nk := gensign.PubBytes(rapid.IntRange(0, gensign.NKeys-1).Draw(t, "newKey"))
			if !bytes.Equal(nk, s.Key) {
				s.Key = nk
				mu.changed = true
				mu.covered = depthCovered(c, depth) && (legacy || si != 2)
			}
		}
	case "resign-slot":
		// a different signer produces a VALID signature of the same data: still authentic
		v := vhAt(vh, depth)
		si := rapid.IntRange(0, 2).Draw(t, "slot")
		if *slot(v, si) != nil {
			var data []byte
			switch si {
			case 0:
				data = stable(k.body(orig))
			case 1:
				data = stable(metaAt(meta, depth))
			default:
				data = stable(v.Origin)
			}
			s := genSigner(t, "resigner")
			sig, err := s.s.Sign(data)
			if err != nil {
				t.Fatalf("harness: %v", err)
			}
			*slot(v, si) = &refs.Signature{Key: neofscrypto.PublicKeyBytes(s.s.Public()), Sign: sig, Scheme: refs.SignatureScheme(s.s.Scheme())}
			mu.name += ":" + slotNames[si]
			mu.changed = true
		}
	case "strip-vh":
		vh = nil
		mu.changed = true
		// TTL / trusted-peer variations: make TTL 1 often
		if meta != nil && rapid.IntRange(0, 2).Draw(t, "forceTTL1") > 0 {
			meta.Ttl = 1
		}
		if rapid.IntRange(0, 9).Draw(t, "nilMeta") == 0 {
			meta = nil
		}
	case "empty-vh":
		vh = &protosession.RequestVerificationHeader{}
		mu.changed, mu.covered = true, true
		if meta != nil && rapid.Bool().Draw(t, "forceTTL1") {
			meta.Ttl = 1
		}
	case "extra-origin":
		// lengthen the verification chain only
		last := vhAt(vh, c.layers-1)
		last.Origin = &protosession.RequestVerificationHeader{MetaSignature: proto.Clone(last.MetaSignature).(*refs.Signature)}
		mu.changed = true
		mu.covered = legacy
	case "body-sig-on-outer":
		if c.layers > 1 && legacy {
			vh.BodySignature = proto.Clone(vhAt(vh, c.layers-1).BodySignature).(*refs.Signature)
			mu.changed, mu.covered = vh.BodySignature != nil, vh.BodySignature != nil
		}
	case "vh-flip":
		if nv, ok := flipStable(t, vh, "vh"); ok {
			vh, mu.changed = nv, true // coverage decided by the reference only
		}
	}
	if !mu.changed {
		mu.name = "none(" + name + ")"
		mu.covered = false
	}
	return rebuild(), mu
}

// ---------- the property ----------

func isSigVerification(err error) bool {
	var st apistatus.SignatureVerification
	return errors.As(err, &st)
}

type fataler interface{ Fatalf(string, ...any) }

func callNoPanic(t fataler, what string, f func() error) (err error) {
	defer func() {
		if p := recover(); p != nil {
			t.Fatalf("PANIC in %s: %v", what, p)
		}
	}()
	return f()
}

func describe(c chain, mu mutation, pc peerCtx, req request) string {
	return fmt.Sprintf("%s layers=%d mode=%s signers=%v mutation=%s ctx=%s ttl=%d hasVH=%v", c.k.name, c.layers, c.mode, c.signers, mu.name, pc.name,
		req.GetMetaHeader().GetTtl(), req.GetVerifyHeader() != nil)
}

func TestC33Chains(t *testing.T) {
	rec := ev.New("C33", "chains")
	defer rec.Flush()
	rapid.Check(t, func(t *rapid.T) {
		c := genChain(t)
		req, mu := mutate(t, c)
		pc := peerCtxs[rapid.IntRange(0, len(peerCtxs)-1).Draw(t, "ctx")]
		if mu.name == "strip-vh" {
			// the exemption decision: bias to the two classes that differ only in the AuthInfo type
			switch rapid.IntRange(0, 3).Draw(t, "ctxClass") {
			case 0:
				pc = trustedCtxs[rapid.IntRange(0, len(trustedCtxs)-1).Draw(t, "trustedIdx")]
			case 1:
				pc = plainTLSCtxs[rapid.IntRange(0, len(plainTLSCtxs)-1).Draw(t, "plainIdx")]
			}
		}
		k := c.k
		body, meta, vh := k.body(req), req.GetMetaHeader(), req.GetVerifyHeader()
		what := describe(c, mu, pc, req)

		exempt := vh == nil && meta != nil && meta.GetTtl() == 1 && pc.trusted
		refPlain := refVerify(body, meta, vh, false)
		refN3 := refVerify(body, meta, vh, true)

		labels := []string{"kind:" + k.name, fmt.Sprintf("layers:%d", c.layers), "mode:" + c.mode, "mut:" + mu.name, "ctx:" + pc.name}
		labels = append(labels, ctxLabels(pc, meta.GetTtl() == 1 && meta != nil, vh == nil)...)
		if c.hasN3 {
			labels = append(labels, "has-n3")
		}
		if exempt {
			labels = append(labels, "exempt")
		}
		if vh == nil && !exempt {
			labels = append(labels, "no-vh-not-exempt")
			if meta.GetTtl() == 1 {
				labels = append(labels, "no-vh-ttl1-untrusted")
			} else if pc.trusted {
				labels = append(labels, "no-vh-trusted-ttl!=1")
			}
		}
		switch {
		case refN3 && !refPlain:
			labels = append(labels, "ref:accept-n3-only")
		case refPlain:
			labels = append(labels, "ref:accept")
		default:
			labels = append(labels, "ref:reject")
		}
		if mu.changed && refN3 {
			labels = append(labels, "changed-but-valid")
		}
		rec.Case(mu.changed || exempt, string(stable(body))+"|"+string(stable(meta))+"|"+string(stable(vh))+"|"+pc.name, labels...)
		if rec.WantSample() {
			rec.Sample(what)
		}

		// harness-independent expectations
		if !mu.changed && c.mode != "mixed-legacy-outer" && !refN3 {
			t.Fatalf("reference rejects an untouched SDK-signed request: %s", what)
		}
		if mu.covered && refN3 {
			t.Fatalf("reference accepts a request whose signed part was changed without re-signing: %s", what)
		}

		check := func(name string, err error, want bool) {
			if (err == nil) != want {
				t.Fatalf("%s: accepted=%v (err=%v), expected accepted=%v\n  %s", name, err == nil, err, want, what)
			}
			if err != nil && !isSigVerification(err) {
				t.Fatalf("%s: rejection is not apistatus.SignatureVerification: %T %v\n  %s", name, err, err, what)
			}
			if mu.covered && err == nil {
				t.Fatalf("%s: accepted a request whose signed part was changed without re-signing\n  %s", name, what)
			}
		}
		errPlain := callNoPanic(t, "VerifyRequestSignatures", func() error { return k.plain(req) })
		check("VerifyRequestSignatures", errPlain, refPlain)
		errCtx := callNoPanic(t, "VerifyRequestSignaturesWithContext", func() error { return k.withCtx(pc.ctx, req) })
		check("VerifyRequestSignaturesWithContext", errCtx, exempt || refPlain)
		errN3 := callNoPanic(t, "VerifyRequestSignaturesN3", func() error { return k.n3(pc.ctx, req, fakeChain{}) })
		check("VerifyRequestSignaturesN3", errN3, exempt || refN3)

		// the author of an accepted (really signed) request is the signer of the outermost body signature
		if errN3 == nil && !exempt {
			var id user.ID
			var pub []byte
			err := callNoPanic(t, "GetRequestAuthor", func() (e error) { id, pub, e = icrypto.GetRequestAuthor(vh); return })
			bs := vh.GetBodySignature()
			switch {
			case bs == nil:
				if err == nil {
					t.Fatalf("GetRequestAuthor returned an author although the outermost layer has no body signature\n  %s", what)
				}
				rec.Label("author:none(outer-layer-without-body-signature)")
			case err != nil:
				t.Fatalf("GetRequestAuthor failed on a verified request: %v\n  %s", err, what)
			default:
				var want user.ID
				if bs.Scheme == refs.SignatureScheme_N3 {
					want = user.NewFromScriptHash(hash.Hash160(bs.Key))
				} else {
					want = user.NewFromECDSAPublicKey(*refDecodeKey(bs.Key))
				}
				if id != want || !bytes.Equal(pub, bs.Key) {
					t.Fatalf("GetRequestAuthor = %s, want %s\n  %s", id, want, what)
				}
				rec.Label("author:ok")
			}
		}
	})
}

// TestC33Exemption enumerates the exemption decision itself: every peer
// context x TTL x {nil, empty, signed} verification header x {nil, set} meta.
func TestC33Exemption(t *testing.T) {
	rec := ev.New("C33", "exemption")
	defer rec.Flush()
	// Exhaustive part (every run, every shard): all peer contexts x TTL x {meta, no meta} for a
	// header-less request. Accepted only by the context-aware entry points, only for TTL == 1 and
	// only when the peer's AuthInfo is the node's own peerauth.AuthInfo.
	for _, pc := range peerCtxs {
		for _, ttl := range []uint32{0, 1, 2, 3, 255, 256, 257, 1<<32 - 1} {
			for _, withMeta := range []bool{true, false} {
				var meta *protosession.RequestMetaHeader
				if withMeta {
					meta = &protosession.RequestMetaHeader{Ttl: ttl, Version: &refs.Version{Major: 2, Minor: 18}}
				}
				k := kinds[0]
				req := k.mk(&protoobject.GetRequest_Body{}, meta, nil)
				want := pc.trusted && withMeta && ttl == 1
				what := fmt.Sprintf("table: ctx=%s ttl=%d meta=%v vh=nil", pc.name, ttl, withMeta)
				rec.Case(true, what, append(ctxLabels(pc, ttl == 1 && withMeta, true), "table")...)
				if err := k.plain(req); err == nil || !isSigVerification(err) {
					t.Fatalf("VerifyRequestSignatures accepted a request without verification header (err=%v): %s", err, what)
				}
				for _, r := range []struct {
					name string
					err  error
				}{
					{"VerifyRequestSignaturesWithContext", k.withCtx(pc.ctx, req)},
					{"VerifyRequestSignaturesN3", k.n3(pc.ctx, req, fakeChain{})},
				} {
					name, err := r.name, r.err
					if (err == nil) != want {
						t.Fatalf("%s: accepted=%v (err=%v), expected accepted=%v: %s", name, err == nil, err, want, what)
					}
					if err != nil && !isSigVerification(err) {
						t.Fatalf("%s: rejection is not apistatus.SignatureVerification: %v: %s", name, err, what)
					}
				}
				if got := peerauth.IsTrustedPeer(pc.ctx); got != pc.trusted {
					t.Fatalf("peerauth.IsTrustedPeer(%s) = %v, want %v", pc.name, got, pc.trusted)
				}
				if key, err := peerauth.PeerPublicKey(pc.ctx); err != nil || (key != nil) != pc.trusted {
					t.Fatalf("peerauth.PeerPublicKey(%s) = %v, %v; a key is expected only for an authenticated peer", pc.name, key, err)
				}
			}
		}
	}
	rec.Set("exemption_table_exhaustive", true)
	rapid.Check(t, func(t *rapid.T) {
		k := kinds[rapid.IntRange(0, len(kinds)-1).Draw(t, "kind")]
		pc := peerCtxs[rapid.IntRange(0, len(peerCtxs)-1).Draw(t, "ctx")]
		ttl := rapid.SampledFrom([]uint32{0, 1, 1, 1, 2, 257, 1<<32 - 1}).Draw(t, "ttl")
		var meta *protosession.RequestMetaHeader
		if rapid.IntRange(0, 7).Draw(t, "metaNil") > 0 {
			meta = genMeta(t, "meta", ttl, rapid.SampledFrom(versions).Draw(t, "ver"))
			if meta == nil {
				meta = &protosession.RequestMetaHeader{}
			}
			meta.Ttl = ttl
			if rapid.IntRange(0, 4).Draw(t, "withOrigin") == 0 {
				meta.Origin = &protosession.RequestMetaHeader{Ttl: rapid.SampledFrom([]uint32{1, 2}).Draw(t, "originTTL")}
			}
		}
		body := k.genBody(t)
		vhKind := rapid.SampledFrom([]string{"nil", "nil", "nil", "empty", "signed", "corrupted", "garbage"}).Draw(t, "vh")
		var vh *protosession.RequestVerificationHeader
		switch vhKind {
		case "empty":
			vh = &protosession.RequestVerificationHeader{}
		case "signed", "corrupted":
			var err error
			if vh, err = k.sign(genSigner(t, "signer").s, k.mk(body, meta, nil)); err != nil {
				t.Fatalf("harness: %v", err)
			}
			if vhKind == "corrupted" {
				sg := vh.MetaSignature.Sign
				sg[rapid.IntRange(0, len(sg)-1).Draw(t, "corruptPos")] ^= 1 << rapid.IntRange(0, 7).Draw(t, "corruptBit")
			}
		case "garbage":
			vh = &protosession.RequestVerificationHeader{BodySignature: &refs.Signature{Key: []byte{1}, Sign: []byte{2}}, MetaSignature: &refs.Signature{}}
		}
		req := k.mk(body, meta, vh)
		exempt := vh == nil && meta != nil && ttl == 1 && pc.trusted
		refPlain := refVerify(k.body(req), meta, vh, false)
		refN3 := refVerify(k.body(req), meta, vh, true)
		what := fmt.Sprintf("%s ctx=%s ttl=%d meta=%v vh=%s", k.name, pc.name, ttl, meta != nil, vhKind)
		labels := []string{"ctx:" + pc.name, "vh:" + vhKind, fmt.Sprintf("ttl1:%v", ttl == 1), fmt.Sprintf("meta:%v", meta != nil)}
		labels = append(labels, ctxLabels(pc, ttl == 1 && meta != nil, vh == nil)...)
		if exempt {
			labels = append(labels, "exempt")
		}
		rec.Case(vh == nil, what+fmt.Sprintf("|%x", stable(meta)), labels...)
		if rec.WantSample() {
			rec.Sample(what)
		}
		if vhKind == "signed" && meta.GetOrigin() == nil && !refN3 {
			t.Fatalf("reference rejects an SDK-signed request: %s", what)
		}
		check := func(name string, err error, want bool) {
			if (err == nil) != want {
				t.Fatalf("%s: accepted=%v (err=%v), expected %v: %s", name, err == nil, err, want, what)
			}
			if err != nil && !isSigVerification(err) {
				t.Fatalf("%s: rejection is not apistatus.SignatureVerification: %v: %s", name, err, what)
			}
		}
		check("VerifyRequestSignatures", callNoPanic(t, "VerifyRequestSignatures", func() error { return k.plain(req) }), refPlain)
		check("VerifyRequestSignaturesWithContext", callNoPanic(t, "WithContext", func() error { return k.withCtx(pc.ctx, req) }), exempt || refPlain)
		check("VerifyRequestSignaturesN3", callNoPanic(t, "N3", func() error { return k.n3(pc.ctx, req, fakeChain{}) }), exempt || refN3)
	})
}

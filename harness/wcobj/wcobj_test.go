package wcobj

import "testing"

func TestObjOfSize(t *testing.T) {
	t.Logf("MinObjSize=%d", MinObjSize)
	miss := 0
	for _, rng := range [][2]int{{MinObjSize, MinObjSize + 600}, {16300, 16500}, {20000, 20010}} {
		for n := rng[0]; n <= rng[1]; n++ {
			if !SizeReachable(n) {
				continue
			}
			func() {
				defer func() {
					if r := recover(); r != nil {
						miss++
						t.Logf("miss %d: %v", n, r)
					}
				}()
				_, _, b := ObjOfSize(2, 3, n)
				if len(b) != n {
					t.Fatalf("size %d != %d", len(b), n)
				}
			}()
		}
	}
	if miss > 0 {
		t.Fatalf("%d unreachable sizes", miss)
	}
}

// Package wcobj holds what the write-cache checks (C16, C17) share: objects of
// an EXACT encoded size (the write-cache accounts len(encoded object)), object
// IDs outside the shared universe, and an independent listing of a write-cache
// directory (os.ReadDir/Lstat only, no FSTree code).
package wcobj

import (
	"fmt"
	"os"
	"path/filepath"
	"strings"

	"github.com/nspcc-dev/neofs-node/verifharness/uni"
	cid "github.com/nspcc-dev/neofs-sdk-go/container/id"
	"github.com/nspcc-dev/neofs-sdk-go/object"
	oid "github.com/nspcc-dev/neofs-sdk-go/object/id"
)

// MinObjSize is the encoded size of a universe object with an empty payload
// (computed once; it is the same for every (container, id) pair because all
// header fields have fixed widths).
var MinObjSize = len(uni.Build(spec(0, 0, 0, "")).Marshal())

// Reach returns the smallest buildable size >= n.
func Reach(n int) int {
	for !SizeReachable(n) {
		n++
	}
	return n
}

func spec(c, i, plen int, pad string) uni.Spec {
	s := uni.Spec{Kind: uni.Regular, Cnr: c, ID: i, Exp: -1, Parent: -1, ParentExp: -1, First: -1, PayloadLen: plen}
	if pad != "" {
		s.Attrs = [][2]string{{"p", pad}}
	}
	return s
}

// SizeReachable reports whether ObjOfSize can build an object of n bytes: the
// empty-payload object, or anything from MinObjSize+5 up (a non-empty payload
// or a padding attribute costs at least 3 bytes; 148..151 are not reachable).
func SizeReachable(n int) bool { return n == MinObjSize || n >= MinObjSize+5 }

// ObjOfSize builds a valid regular object of container c / object index i whose
// canonical binary encoding is EXACTLY n bytes long (n >= MinObjSize). The
// write-cache counts len(data) of the encoded object (writecache/put.go:
// objSz := uint64(len(data))) and on reopen the file size, which is the same
// number because the cache's FSTree stores objects uncompressed and uncombined.
func ObjOfSize(c, i, n int) (oid.Address, *object.Object, []byte) {
	if !SizeReachable(n) {
		panic(fmt.Sprintf("ObjOfSize: %d not reachable (min %d)", n, MinObjSize))
	}
	// protobuf length prefixes make a few exact sizes unreachable by payload
	// length alone; a padding attribute shifts the reachable set.
	for pad := 0; pad < 6; pad++ {
		p := ""
		if pad > 0 {
			p = strings.Repeat("x", pad)
		}
		plen := n - MinObjSize
		for try := 0; try < 8 && plen >= 0; try++ {
			o := uni.Build(spec(c, i, plen, p))
			if i >= uni.NObjects {
				o.SetID(ExtraID(i))
			}
			b := o.Marshal()
			if len(b) == n {
				return o.Address(), o, b
			}
			d := n - len(b)
			if d > 0 && try > 2 {
				break // oscillating around a varint boundary
			}
			plen += d
		}
	}
	panic(fmt.Sprintf("ObjOfSize: cannot build object of %d bytes", n))
}

// ExtraID returns object ID number i >= uni.NObjects outside the shared
// universe. Every object ID is used with ONE container only: real object IDs
// are hashes covering the container ID, and FSTree's combined (batch) file
// format finds entries by object ID alone.
func ExtraID(i int) oid.ID {
	var id oid.ID
	id[0], id[1], id[30], id[31] = 0xee, byte(i>>8), byte(i>>8), byte(i)
	return id
}

// ListCache returns address-string → file size for every object file in the
// cache directory (depth-1 FSTree layout: <root>/<2 chars>/<rest>), measured
// with os.ReadDir/Lstat only.
func ListCache(root string) (map[string]int64, error) {
	res := map[string]int64{}
	top, err := os.ReadDir(root)
	if err != nil {
		return nil, err
	}
	for _, d := range top {
		if !d.IsDir() {
			continue
		}
		sub, err := os.ReadDir(filepath.Join(root, d.Name()))
		if err != nil {
			return nil, err
		}
		for _, f := range sub {
			if f.IsDir() {
				continue
			}
			name := d.Name() + f.Name()
			o, c, ok := strings.Cut(name, ".") // FSTree file name: <object id>.<container id>
			if !ok {
				continue
			}
			var (
				cnr cid.ID
				id  oid.ID
			)
			if cnr.DecodeString(c) != nil || id.DecodeString(o) != nil {
				continue
			}
			fi, err := f.Info()
			if err != nil {
				if os.IsNotExist(err) {
					continue
				}
				return nil, err
			}
			res[oid.NewAddress(cnr, id).EncodeToString()] = fi.Size()
		}
	}
	return res, nil
}

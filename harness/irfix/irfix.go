// Package irfix holds fixtures shared by the inner-ring checks (C35/C37/C38):
// deterministic keys, a fake global alphabet state, and construction of the
// real pkg/morph/client.Client on top of a neoproxy endpoint.
//
// It must not import any pkg/innerring package (in-package tests of those
// packages import it).
package irfix

import (
	"sync/atomic"
	"time"

	"github.com/nspcc-dev/neo-go/pkg/crypto/keys"
	"github.com/nspcc-dev/neo-go/pkg/util"
	"github.com/nspcc-dev/neofs-node/pkg/morph/client"
	"go.uber.org/zap"
)

// Key returns the n-th deterministic private key.
func Key(n byte) *keys.PrivateKey {
	raw := make([]byte, 32)
	for i := range raw {
		raw[i] = n*31 + byte(i)*13 + 5
	}
	k, err := keys.NewPrivateKeyFromBytes(raw)
	if err != nil {
		panic(err)
	}
	return k
}

// Hash160 returns a deterministic non-zero script hash.
func Hash160(n byte) util.Uint160 {
	var h util.Uint160
	for i := range h {
		h[i] = n + byte(i)
	}
	return h
}

// State is the harness-owned view of the node's membership: what the global
// state (innerring.Server) would answer to the processors.
//
// Index < 0 means "not an alphabet member". A failed index lookup is, by
// Server.AlphabetIndex/IsAlphabet, reported to processors as -1 / false as
// well; LookupFailed only tags the case.
type State struct {
	Index        atomic.Int32
	LookupFailed atomic.Bool
	Asked        atomic.Int32 // number of membership questions
}

func (s *State) IsAlphabet() bool {
	s.Asked.Add(1)
	return !s.LookupFailed.Load() && s.Index.Load() >= 0
}

func (s *State) AlphabetIndex() int {
	s.Asked.Add(1)
	if s.LookupFailed.Load() {
		return -1
	}
	return int(s.Index.Load())
}

// Set configures the state: idx < 0 non member; failed = lookup error.
func (s *State) Set(idx int, failed bool) {
	s.Index.Store(int32(idx))
	s.LookupFailed.Store(failed)
	s.Asked.Store(0)
}

// Epoch is a trivial EpochState.
type Epoch struct {
	V   atomic.Uint64
	Dur atomic.Uint64
}

func (e *Epoch) SetEpochDuration(v uint64)    { e.Dur.Store(v) }
func (e *Epoch) EpochDuration() time.Duration { return time.Duration(e.Dur.Load()) * time.Second }

func (e *Epoch) EpochCounter() uint64     { return e.V.Load() }
func (e *Epoch) SetEpochCounter(v uint64) { e.V.Store(v) }

// NewClient connects the real morph client to the (proxy) endpoint. With
// notary != nil notary support is enabled with the given proxy contract and
// alphabet list source (no chain reads needed).
func NewClient(url string, key *keys.PrivateKey, proxy *util.Uint160, alphabet func() (keys.PublicKeys, error)) (*client.Client, error) {
	c, err := client.New(key,
		client.WithEndpoints([]string{url}),
		client.WithLogger(zap.NewNop()),
		client.WithReconnectionRetries(1),
	)
	if err != nil {
		return nil, err
	}
	if alphabet == nil {
		// chain mode: witness scope limited to the NeoFS contracts group like
		// innerring.New does after (auto)deployment
		if err = c.InitFSChainScope(); err != nil {
			c.Close()
			return nil, err
		}
	}
	if proxy != nil {
		opts := []client.NotaryOption{client.WithProxyContract(*proxy)}
		if alphabet != nil { // nil: the live committee of the chain, as in production
			opts = append(opts, client.WithAlphabetSource(alphabet))
		}
		err = c.EnableNotarySupport(opts...)
		if err != nil {
			c.Close()
			return nil, err
		}
	}
	return c, nil
}

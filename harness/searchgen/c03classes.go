package searchgen

import (
	"github.com/mr-tron/base58"
	"github.com/nspcc-dev/neofs-node/verifharness/refsearch"
)

// Fingerprints of the C03 findings (classes of queries, decided by construction
// from the query shape alone). The C03 check excuses a failing case of a class
// only when the class is listed as an OPEN known finding AND the failure has the
// class's symptom (see OmissionOnly); the C04 checks do not generate queries of
// an open class, so that C04 failures are about merging only.
// Fixed and therefore no longer classes: NOT_PRESENT on the primary attribute
// (3a7a52b), split ID as a secondary attribute of objects without one (f866085).
const (
	FpPrimaryEarlyStop = "C03:primary-second-filter-stops-scan"
	FpBinaryPrefixSeek = "C03:binary-primary-prefix-seek"
	FpMixedPrimary     = "C03:mixed-numeric-and-string-filters-on-primary"
	FpBase58FullLen    = "C03:base58-prefix-decoding-to-full-length"
)

// C03Classes returns the finding classes query q belongs to.
func C03Classes(view []refsearch.Obj, q refsearch.Query) []string {
	var r []string
	if len(q.Attrs) > 0 && len(q.Filters) > 1 && !refsearch.IDOrdered(q) {
		f0 := q.Filters[0]
		early, mixed := false, false
		for _, f := range q.Filters[1:] {
			if f.Key != f0.Key {
				continue
			}
			switch {
			case f.Op == refsearch.OpAbsent:
				// evaluated correctly since 3a7a52b
			case refsearch.IsNumeric(f.Op) != refsearch.IsNumeric(f0.Op):
				mixed = true
			case f.Op != refsearch.OpNE:
				early = true
			}
		}
		if early {
			r = append(r, FpPrimaryEarlyStop)
		}
		if mixed {
			r = append(r, FpMixedPrimary)
		}
	}
	if len(q.Attrs) > 0 && len(q.Filters) > 0 {
		f := q.Filters[0]
		if f.Op == refsearch.OpPrefix && f.Val != "" {
			switch f.Key {
			case refsearch.KOwner, refsearch.KParent, refsearch.KFirst, refsearch.KAssociate:
				r = append(r, FpBinaryPrefixSeek)
			}
		}
	}
	for _, f := range q.Filters {
		if f.Op != refsearch.OpPrefix {
			continue
		}
		want := 0
		switch f.Key {
		case refsearch.KOwner:
			want = 25
		case refsearch.KParent, refsearch.KFirst, refsearch.KAssociate:
			want = 32
		}
		if b, _ := base58.Decode(f.Val); want > 0 && len(b) == want {
			full := false
			for _, o := range view {
				if s, ok := o.Str(f.Key); ok && s == f.Val {
					full = true
				}
			}
			if !full {
				r = append(r, FpBase58FullLen)
			}
		}
	}
	return r
}

// OmissionOnly reports whether the only symptom of the class is that matching
// objects are missing from the result (no extra items, no wrong order or
// attributes, no errors).
func OmissionOnly(class string) bool {
	switch class {
	case FpPrimaryEarlyStop, FpBinaryPrefixSeek, FpBase58FullLen:
		return true
	}
	return false
}

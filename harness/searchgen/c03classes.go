package searchgen

import (
	"github.com/mr-tron/base58"
	"github.com/nspcc-dev/neofs-node/verifharness/refsearch"
)

// Fingerprints of the C03 findings (classes of queries, decided by construction
// from the query alone). The C03 check skips a failing case of a class only
// when the class is listed as an OPEN known finding; the C04 checks never
// generate such queries, so that C04 failures are about merging only.
const (
	FpPrimaryEarlyStop = "C03:primary-second-filter-stops-scan"
	FpBinaryPrefixSeek = "C03:binary-primary-prefix-seek"
	FpSplitIDMissing   = "C03:missing-splitid-attribute-fails-search"
	FpAbsentPanic      = "C03:not-present-on-primary-attribute-panics"
	FpMixedPrimary     = "C03:mixed-numeric-and-string-filters-on-primary"
	FpBase58FullLen    = "C03:base58-prefix-decoding-to-full-length"
)

// C03Classes returns the finding classes query q belongs to.
func C03Classes(view []refsearch.Obj, q refsearch.Query) []string {
	var r []string
	if len(q.Attrs) > 0 && len(q.Filters) > 1 && !refsearch.IDOrdered(q) {
		f0 := q.Filters[0]
		early, mixed, absent := false, false, false
		for _, f := range q.Filters[1:] {
			if f.Key != f0.Key {
				continue
			}
			switch {
			case f.Op == refsearch.OpAbsent:
				absent = true
			case refsearch.IsNumeric(f.Op) != refsearch.IsNumeric(f0.Op):
				mixed = true
			case f.Op != refsearch.OpNE:
				early = true
			}
		}
		if early {
			r = append(r, FpPrimaryEarlyStop)
		}
		if mixed {
			r = append(r, FpMixedPrimary)
		}
		if absent {
			r = append(r, FpAbsentPanic)
		}
	}
	if len(q.Attrs) > 0 && len(q.Filters) > 0 {
		f := q.Filters[0]
		if f.Op == refsearch.OpPrefix && f.Val != "" {
			switch f.Key {
			case refsearch.KOwner, refsearch.KParent, refsearch.KFirst, refsearch.KAssociate:
				r = append(r, FpBinaryPrefixSeek)
			}
		}
	}
	for _, f := range q.Filters {
		if f.Op != refsearch.OpPrefix {
			continue
		}
		want := 0
		switch f.Key {
		case refsearch.KOwner:
			want = 25
		case refsearch.KParent, refsearch.KFirst, refsearch.KAssociate:
			want = 32
		}
		if b, _ := base58.Decode(f.Val); want > 0 && len(b) == want {
			full := false
			for _, o := range view {
				if s, ok := o.Str(f.Key); ok && s == f.Val {
					full = true
				}
			}
			if !full {
				r = append(r, FpBase58FullLen)
			}
		}
	}
	for i, a := range q.Attrs {
		if i > 0 && a == refsearch.KSplitID {
			r = append(r, FpSplitIDMissing)
			break
		}
	}
	return r
}

// Package searchgen generates search corpora and queries for C03/C04: a set of
// uni objects (extended to 20 stored IDs + 2 IDs that exist only as split/EC
// parents) with colliding user attribute values, simple unambiguous removal
// forms (tombstoned by a tombstone object, garbage-marked, expired by epoch,
// expired-but-locked), and queries over user and system attributes with all
// matchers.
//
// Corpus.View() is the reference description (refsearch.Obj list incl.
// availability) computed from the Specs only – nothing here calls the code
// under test.
package searchgen

import (
	"fmt"
	"math/big"
	"strings"

	"github.com/nspcc-dev/neofs-node/verifharness/genint"
	"github.com/nspcc-dev/neofs-node/verifharness/refsearch"
	"github.com/nspcc-dev/neofs-node/verifharness/uni"
	"github.com/nspcc-dev/neofs-sdk-go/object"
	oid "github.com/nspcc-dev/neofs-sdk-go/object/id"
	"pgregory.net/rapid"
)

// Extended ID space: 0..11 = uni.OID(k); 12..23 = uni.OID(k-12) with byte 16 set.
// Base IDs 3 and 4 are reserved for parents that are known only from headers
// carried by children. They are chosen so that their raw byte order (o3 < o4)
// and the order of their Base58 strings (43 vs 44 characters: "8.." > "2..")
// disagree, which makes merging by split.parent sensitive to text comparison.
const (
	NExt       = 24
	ParentA    = 3
	ParentB    = 4
	maxTargets = 10 // tombstone / lock targets are base IDs 0..9
)

// StoredIDs lists the extended indexes usable for stored objects.
var StoredIDs = func() []int {
	var r []int
	for k := 0; k < NExt; k++ {
		if k%12 != ParentA && k%12 != ParentB {
			r = append(r, k)
		}
	}
	return r
}()

// ExtID returns the object ID of extended index k.
func ExtID(k int) oid.ID {
	id := uni.OID(k % 12)
	if k >= 12 {
		id[16] = 0x01
	}
	return id
}

// Fates of a stored object.
const (
	FateNone          = ""
	FateTombstoned    = "tombstoned"
	FateGarbage       = "garbage"
	FateExpired       = "expired"
	FateExpiredLocked = "expired+locked"
	FateLocked        = "locked"
	FateDeleted       = "deleted" // physically removed (DB.Delete / Shard.Delete) after the puts and marks
)

// Corpus is a generated object set of one container.
type Corpus struct {
	Cnr   int    `json:"cnr"`
	Epoch uint64 `json:"epoch"`
	// Specs in put order. Spec.ID is an EXTENDED index; Target/Parent/First are base indexes.
	Specs []uni.Spec `json:"specs"`
	// Garbage lists positions in Specs that get a (default) garbage mark after all puts.
	Garbage []int `json:"garbage,omitempty"`
	// Deleted lists positions in Specs that are PHYSICALLY deleted (as GC does) after
	// the puts and garbage marks; never tombstones, locks or locked objects.
	Deleted []int `json:"deleted,omitempty"`
}

// IsDeleted reports whether Specs[pos] is physically deleted.
func (c *Corpus) IsDeleted(pos int) bool {
	for _, d := range c.Deleted {
		if d == pos {
			return true
		}
	}
	return false
}

// Build constructs the object of s (extended ID aware).
func Build(s uni.Spec) *object.Object {
	b := s
	b.ID = s.ID % 12
	o := uni.Build(b)
	o.SetID(ExtID(s.ID))
	return o
}

// tombstonedBy returns whether position pos has a tombstone anywhere in the corpus.
func (c *Corpus) fate(pos int) string {
	s := c.Specs[pos]
	if s.Kind == uni.Tombstone || s.Kind == uni.Lock {
		return FateNone
	}
	ts, lk := false, false
	if s.ID < 12 {
		for _, x := range c.Specs {
			if (x.Kind == uni.Tombstone || x.Kind == uni.Lock) && x.Target == s.ID {
				ts = ts || x.Kind == uni.Tombstone
				lk = lk || x.Kind == uni.Lock
			}
		}
	}
	garb := false
	for _, g := range c.Garbage {
		garb = garb || g == pos
	}
	exp := s.Exp >= 0 && c.Epoch > uint64(s.Exp)
	switch {
	case c.IsDeleted(pos):
		return FateDeleted
	case ts:
		return FateTombstoned
	case garb:
		return FateGarbage
	case exp && lk:
		return FateExpiredLocked
	case exp:
		return FateExpired
	case lk:
		return FateLocked
	}
	return FateNone
}

// TombstonedBefore reports whether a tombstone for Specs[pos] is put before it
// (then the put of the object itself is expected to be refused).
func (c *Corpus) TombstonedBefore(pos int) bool {
	s := c.Specs[pos]
	if s.ID >= 12 || s.Kind == uni.Tombstone || s.Kind == uni.Lock {
		return false
	}
	for _, x := range c.Specs[:pos] {
		if x.Kind == uni.Tombstone && x.Target == s.ID {
			return true
		}
	}
	return false
}

// Available reports the reference availability of Specs[pos] at c.Epoch.
func (c *Corpus) Available(pos int) bool {
	switch c.fate(pos) {
	case FateTombstoned, FateGarbage, FateExpired, FateDeleted:
		return false
	}
	return true
}

// ViewOf returns the reference description of the sub-corpus made of the
// given positions (nil = all): stored objects plus parents known from headers.
// Availability always takes the WHOLE corpus into account for tombstones and
// locks (they are broadcast), but parents appear only if one of the selected
// children carries the header.
func (c *Corpus) ViewOf(positions []int) []refsearch.Obj {
	if positions == nil {
		for i := range c.Specs {
			positions = append(positions, i)
		}
	}
	var res []refsearch.Obj
	seenPar := map[int]bool{}
	seen := map[int]bool{}
	// a parent known from headers is indexed while at least one of its (selected)
	// children is still stored: the metabase drops it with its last child
	childLeft := map[int]bool{}
	for _, pos := range positions {
		if s := c.Specs[pos]; s.Parent >= 0 && s.Kind != uni.Regular && !c.IsDeleted(pos) {
			childLeft[s.Parent] = true
		}
	}
	for _, pos := range positions {
		s := c.Specs[pos]
		if seen[s.ID] {
			continue
		}
		seen[s.ID] = true
		o := Build(s)
		if par := o.Parent(); par != nil && !par.GetID().IsZero() && !seenPar[s.Parent] {
			seenPar[s.Parent] = true
			res = append(res, refsearch.FromObject(par, false, childLeft[s.Parent]))
		}
		// objects that were never indexed (tombstone came first) or are deleted are
		// kept in the view as unavailable: queries draw their values from them too
		res = append(res, refsearch.FromObject(o, true, c.Available(pos)))
	}
	return res
}

// View is ViewOf(all).
func (c *Corpus) View() []refsearch.Obj { return c.ViewOf(nil) }

// User attribute keys.
const (
	KeyA  = "A"
	KeyN  = "N"
	KeyAB = "AB"
	KeyZ  = "Z" // never set
)

var strPool = []string{"a", "ab", "abc", "abd", "b", "a b", "a\x01", "a\xff", "\xff", "1e3", "+", "-", "1.0", " 1", "0x10",
	"--1", "++5", "٣", "v2", "N", "REGULAR", "1 ", "0_0"}

func intPool() []string {
	max := genint.MaxAbs.String()
	over := new(big.Int).Add(genint.MaxAbs, big.NewInt(1)).String()
	return []string{"0", "-0", "+0", "1", "-1", "+5", "5", "007", "-007", "9", "10", "11", "-10",
		"18446744073709551615", "18446744073709551616", "-18446744073709551616", "+18446744073709551615",
		max, "-" + max, "+" + max, over, "-" + over, "00" + max}
}

// longInts are in-range integers spelled with more than 78 characters (sign,
// leading zeros) and their neighbours.
func longInts() []string {
	max := genint.MaxAbs.String()
	maxm1 := new(big.Int).Sub(genint.MaxAbs, big.NewInt(1)).String()
	return []string{"-" + max, "-" + maxm1, "+" + max, "+" + maxm1, "0" + max, "00" + maxm1, "-0" + max,
		"-" + max[:77] + "0", "+000000000000000000000000000000000000000000000000000000000000000000000000000000005",
		"-000000000000000000000000000000000000000000000000000000000000000000000000000000017"}
}

func intString() *rapid.Generator[string] {
	return rapid.Custom(func(t *rapid.T) string {
		if rapid.IntRange(0, 2).Draw(t, "ipool") > 0 {
			return rapid.SampledFrom(intPool()).Draw(t, "int")
		}
		x := genint.Boundary(true).Draw(t, "bint")
		s := x.String()
		switch rapid.IntRange(0, 5).Draw(t, "spell") {
		case 0:
			if x.Sign() >= 0 {
				s = "+" + s
			}
		case 1:
			if x.Sign() >= 0 {
				s = "0" + s
			} else {
				s = "-0" + s[1:]
			}
		}
		return s
	})
}

// GenOpts tunes Gen.
type GenOpts struct {
	// MaxObjects bounds the number of data objects (default 14).
	MaxObjects int
	// NoRemovals disables tombstones, garbage marks, expiry and locks.
	NoRemovals bool
	// MoreAssociates adds extra tombstone / lock objects (for C04's associate primary).
	MoreAssociates bool
	// DeleteOnlyRegular restricts physical deletion to plain regular objects. C04
	// needs it: the metabase drops a parent known from headers together with its
	// last stored child, so after deleting children the holders of a distributed
	// corpus can legitimately disagree with a single store holding the union (the
	// union keeps the parent as long as ANY child is left anywhere, although the
	// child that carried the header is gone from every holder).
	DeleteOnlyRegular bool
}

// Gen draws a corpus.
func Gen(o GenOpts) *rapid.Generator[Corpus] {
	maxObj := o.MaxObjects
	if maxObj <= 0 {
		maxObj = 14
	}
	return rapid.Custom(func(t *rapid.T) Corpus {
		c := Corpus{Cnr: rapid.IntRange(0, uni.NContainers-1).Draw(t, "cnr")}
		c.Epoch = uint64(rapid.IntRange(1, 5).Draw(t, "epoch"))
		perm := rapid.Permutation(StoredIDs).Draw(t, "ids")
		// reserve two base IDs that are never stored: targets of tombstones (absent[0])
		// and of locks (absent[1]) of absent objects
		var ids, absent []int
		for _, k := range perm {
			if k < maxTargets && len(absent) < 2 {
				absent = append(absent, k)
				continue
			}
			ids = append(ids, k)
		}
		n := rapid.IntRange(2, maxObj).Draw(t, "n")
		next := 0
		take := func() (int, bool) {
			if next >= len(ids) {
				return 0, false
			}
			next++
			return ids[next-1], true
		}
		// small per-corpus value pools => collisions
		ns := rapid.IntRange(1, 4).Draw(t, "nstr")
		ni := rapid.IntRange(1, 4).Draw(t, "nint")
		var poolS, poolI []string
		for i := 0; i < ns; i++ {
			poolS = append(poolS, rapid.SampledFrom(strPool).Draw(t, "sval"))
		}
		for i := 0; i < ni; i++ {
			poolI = append(poolI, intString().Draw(t, "ival"))
		}
		val := func(pInt int, lbl string) string {
			if rapid.IntRange(0, 9).Draw(t, lbl+"-isint") < pInt {
				return rapid.SampledFrom(poolI).Draw(t, lbl)
			}
			return rapid.SampledFrom(poolS).Draw(t, lbl)
		}
		attrs := func() [][2]string {
			var a [][2]string
			if rapid.IntRange(0, 9).Draw(t, "hasA") < 7 {
				a = append(a, [2]string{KeyA, val(2, "A")})
			}
			if rapid.IntRange(0, 9).Draw(t, "hasN") < 7 {
				a = append(a, [2]string{KeyN, val(8, "N")})
			}
			if rapid.IntRange(0, 9).Draw(t, "hasAB") < 4 {
				a = append(a, [2]string{KeyAB, val(5, "AB")})
			}
			return a
		}
		parOwner := [2]int{rapid.IntRange(0, 1).Draw(t, "parAowner"), rapid.IntRange(0, 1).Draw(t, "parBowner")}
		parLen := [2]int{rapid.SampledFrom([]int{0, 10, 100}).Draw(t, "parAlen"), rapid.SampledFrom([]int{0, 10, 100}).Draw(t, "parBlen")}
		var extra []uni.Spec
		for i := 0; i < n; i++ {
			id, ok := take()
			if !ok {
				break
			}
			kind := rapid.SampledFrom([]string{uni.Regular, uni.Regular, uni.Regular, uni.Regular, uni.Regular,
				uni.ChildV1, uni.ChildV2, uni.Link, uni.ECPart}).Draw(t, "kind")
			s := uni.Spec{Kind: kind, Cnr: c.Cnr, ID: id, Exp: -1, Parent: -1, ParentExp: -1, First: -1}
			s.Owner = rapid.IntRange(0, uni.NOwners-1).Draw(t, "owner")
			s.CreationEpoch = rapid.IntRange(0, 2).Draw(t, "cepoch")
			s.PayloadLen = rapid.SampledFrom([]int{0, 0, 1, 7, 32}).Draw(t, "len")
			s.Attrs = attrs()
			if kind != uni.Regular {
				p := rapid.IntRange(0, 1).Draw(t, "parent")
				s.Parent = [2]int{ParentA, ParentB}[p]
				s.Owner = parOwner[p]
				s.ParentLen = parLen[p]
				switch kind {
				case uni.ChildV1:
					s.Split = rapid.IntRange(0, 2).Draw(t, "split")
					s.NoParentHeader = rapid.IntRange(0, 3).Draw(t, "noph") == 0
				case uni.ChildV2:
					s.First = rapid.IntRange(0, 11).Draw(t, "first")
					s.NoParentHeader = rapid.IntRange(0, 3).Draw(t, "noph") == 0
				case uni.Link:
					s.First = rapid.IntRange(0, 11).Draw(t, "first")
				case uni.ECPart:
					s.RuleIdx = rapid.IntRange(0, 1).Draw(t, "rule")
					s.PartIdx = rapid.IntRange(0, 3).Draw(t, "part")
				}
			}
			fate := FateNone
			if !o.NoRemovals {
				fates := []string{FateNone, FateNone, FateNone, FateNone, FateGarbage, FateExpired}
				if kind == uni.Regular && id < maxTargets {
					fates = append(fates, FateTombstoned, FateTombstoned, FateExpiredLocked, FateLocked)
				}
				fate = rapid.SampledFrom(fates).Draw(t, "fate")
			}
			// expiration: unexpired objects may still carry a future expiration epoch
			if rapid.IntRange(0, 3).Draw(t, "hasexp") == 0 {
				s.Exp = int(c.Epoch) + rapid.IntRange(0, 3).Draw(t, "expfuture")
			}
			switch fate {
			case FateExpired, FateExpiredLocked:
				s.Exp = rapid.IntRange(0, int(c.Epoch)-1).Draw(t, "exppast")
			}
			deleted := !o.NoRemovals && fate != FateExpiredLocked && fate != FateLocked && rapid.IntRange(0, 3).Draw(t, "deleted") == 0
			if o.DeleteOnlyRegular && kind != uni.Regular {
				deleted = false
			}
			if deleted && rapid.Bool().Draw(t, "longint") {
				// integers whose spelling is longer than 78 characters on objects that get deleted
				key := rapid.SampledFrom([]string{KeyN, KeyN, KeyA, KeyAB}).Draw(t, "longkey")
				v := rapid.SampledFrom(longInts()).Draw(t, "longval")
				found := false
				for i := range s.Attrs {
					if s.Attrs[i][0] == key {
						s.Attrs[i][1] = v
						found = true
					}
				}
				if !found {
					s.Attrs = append(s.Attrs, [2]string{key, v})
				}
			}
			c.Specs = append(c.Specs, s)
			if deleted {
				c.Deleted = append(c.Deleted, len(c.Specs)-1)
			}
			mk := func(kind string) {
				xid, ok := take()
				if !ok {
					return
				}
				x := uni.Spec{Kind: kind, Cnr: c.Cnr, ID: xid, Exp: -1, Parent: -1, ParentExp: -1, First: -1, Target: id}
				x.Owner = rapid.IntRange(0, uni.NOwners-1).Draw(t, "xowner")
				x.CreationEpoch = rapid.IntRange(0, 2).Draw(t, "xcepoch")
				x.Attrs = attrs()
				extra = append(extra, x)
			}
			switch fate {
			case FateTombstoned:
				mk(uni.Tombstone)
			case FateExpiredLocked, FateLocked:
				mk(uni.Lock)
			case FateGarbage:
				c.Garbage = append(c.Garbage, len(c.Specs)-1)
			}
		}
		// tombstones / locks of objects that are not stored
		nAbs := rapid.IntRange(0, 2).Draw(t, "nabsent")
		if o.MoreAssociates {
			nAbs += 2
		}
		for i := 0; i < nAbs; i++ {
			xid, ok := take()
			if !ok {
				break
			}
			kind := rapid.SampledFrom([]string{uni.Tombstone, uni.Lock}).Draw(t, "abskind")
			tgt := absent[0]
			if kind == uni.Lock {
				tgt = absent[1]
			}
			x := uni.Spec{Kind: kind, Cnr: c.Cnr, ID: xid, Exp: -1, Parent: -1, ParentExp: -1, First: -1, Target: tgt}
			x.Owner = rapid.IntRange(0, uni.NOwners-1).Draw(t, "aowner")
			x.Attrs = attrs()
			extra = append(extra, x)
		}
		// interleave tombstones/locks at random positions, remember garbage by ID
		garbIDs := map[int]bool{}
		for _, g := range c.Garbage {
			garbIDs[c.Specs[g].ID] = true
		}
		delIDs := map[int]bool{}
		for _, d := range c.Deleted {
			delIDs[c.Specs[d].ID] = true
		}
		for _, x := range extra {
			pos := rapid.IntRange(0, len(c.Specs)).Draw(t, "xpos")
			c.Specs = append(c.Specs[:pos], append([]uni.Spec{x}, c.Specs[pos:]...)...)
		}
		c.Garbage, c.Deleted = nil, nil
		for i, s := range c.Specs {
			if garbIDs[s.ID] {
				c.Garbage = append(c.Garbage, i)
			}
			if delIDs[s.ID] {
				c.Deleted = append(c.Deleted, i)
			}
		}
		return c
	})
}

// Keys that queries are drawn over.
var (
	UserKeys   = []string{KeyA, KeyN, KeyAB, KeyZ, object.AttributeExpirationEpoch, "__NEOFS__EC_PART_IDX"}
	SystemKeys = []string{refsearch.KOwner, refsearch.KChecksum, refsearch.KSplitID, refsearch.KParent, refsearch.KFirst,
		refsearch.KAssociate, refsearch.KType, refsearch.KVersion, refsearch.KCreation, refsearch.KPayload,
		refsearch.KRoot, refsearch.KPhy}
)

// PrimaryKinds are the classes of primary attributes C04 must cover.
var PrimaryKinds = []string{refsearch.KOwner, refsearch.KChecksum, refsearch.KSplitID, refsearch.KParent, refsearch.KFirst,
	refsearch.KAssociate, KeyN, KeyA}

func storedValues(view []refsearch.Obj, key string) []string {
	seen := map[string]bool{}
	var r []string
	for _, o := range view {
		if s, ok := o.Str(key); ok && !seen[s] {
			seen[s] = true
			r = append(r, s)
		}
	}
	return r
}

var otherValues = map[string][]string{
	refsearch.KOwner:     {refsearch.APIString(refsearch.KOwner, func() []byte { u := uni.Owner(0); u[5] ^= 0xff; return u[:] }())},
	refsearch.KChecksum:  {strings.Repeat("ab", 32), strings.Repeat("00", 32)},
	refsearch.KSplitID:   {"8b69e76d-5e95-4639-8213-46786c41ab73"},
	refsearch.KParent:    {ExtID(23).EncodeToString()},
	refsearch.KFirst:     {ExtID(22).EncodeToString()},
	refsearch.KAssociate: {ExtID(21).EncodeToString()},
	refsearch.KType:      {"REGULAR", "TOMBSTONE", "LOCK", "LINK", "STORAGE_GROUP", "R", "L", "T"},
	refsearch.KVersion:   {"v2", "v2.", "v1.0", "v"},
}

// randomValue draws a value for (key, op) from / near the stored values,
// without regard to any particular object.
func randomValue(t *rapid.T, view []refsearch.Obj, key string, op object.SearchMatchType, lbl string) string {
	stored := storedValues(view, key)
	if refsearch.IsNumeric(op) {
		var ints []*big.Int
		for _, s := range stored {
			if x, ok := genint.RefParse(s); ok {
				ints = append(ints, x)
			}
		}
		k := rapid.IntRange(0, 49).Draw(t, lbl+"-nsrc")
		switch {
		case k == 0:
			return rapid.SampledFrom([]string{"text", "1.5", "", "1e3", "++1", "0x1", " 1"}).Draw(t, lbl+"-junk")
		case k == 1:
			over := new(big.Int).Add(genint.MaxAbs, big.NewInt(int64(rapid.IntRange(1, 2).Draw(t, lbl+"-over"))))
			if rapid.Bool().Draw(t, lbl+"-neg") {
				over.Neg(over)
			}
			return over.String()
		case k <= 9:
			s := intString().Draw(t, lbl+"-any")
			if _, ok := genint.RefParse(s); !ok {
				s = "0"
			}
			return s
		case len(ints) == 0:
			return rapid.SampledFrom([]string{"0", "1", "-1", "2", "10"}).Draw(t, lbl+"-small")
		}
		return nearInt(t, rapid.SampledFrom(ints).Draw(t, lbl+"-near"), rapid.IntRange(-1, 1).Draw(t, lbl+"-delta"), lbl)
	}
	k := rapid.IntRange(0, 9).Draw(t, lbl+"-ssrc")
	if len(stored) > 0 && k <= 6 {
		s := rapid.SampledFrom(stored).Draw(t, lbl+"-stored")
		switch {
		case k <= 3:
			return s
		case k <= 5:
			return cutPrefix(t, key, s, lbl)
		default:
			return s + rapid.SampledFrom([]string{"x", "0", "\xff", "1"}).Draw(t, lbl+"-ext")
		}
	}
	if ov := otherValues[key]; len(ov) > 0 && k <= 8 {
		return rapid.SampledFrom(ov).Draw(t, lbl+"-other")
	}
	if refsearch.IsBinary(key) {
		return rapid.SampledFrom([]string{"", "zzz", "N", "1", "0l", "ab", "a"}).Draw(t, lbl+"-bjunk")
	}
	return rapid.SampledFrom(append([]string{"", "zz"}, strPool...)).Draw(t, lbl+"-sjunk")
}

func nearInt(t *rapid.T, base *big.Int, delta int, lbl string) string {
	x := new(big.Int).Add(base, big.NewInt(int64(delta)))
	if !genint.InRange(x) {
		if x.Sign() > 0 {
			x.Set(genint.MaxAbs)
		} else {
			x.Set(genint.MinVal)
		}
	}
	s := x.String()
	switch rapid.IntRange(0, 7).Draw(t, lbl+"-spell") {
	case 0:
		if x.Sign() >= 0 {
			s = "+" + s
		}
	case 1:
		if x.Sign() >= 0 {
			s = "00" + s
		} else {
			s = "-0" + s[1:]
		}
	}
	return s
}

func cutPrefix(t *rapid.T, key, s, lbl string) string {
	cut := rapid.IntRange(0, len(s)).Draw(t, lbl+"-cut")
	if key == refsearch.KChecksum && rapid.IntRange(0, 3).Draw(t, lbl+"-even") > 0 {
		cut &^= 1
	}
	return s[:cut]
}

// witnessValue draws a value for (key, op) that object w (which has key) satisfies.
func witnessValue(t *rapid.T, view []refsearch.Obj, w refsearch.Obj, key string, op object.SearchMatchType, lbl string) string {
	s, _ := w.Str(key)
	switch op {
	case refsearch.OpEQ:
		return s
	case refsearch.OpPrefix:
		return cutPrefix(t, key, s, lbl)
	case refsearch.OpNE:
		v := randomValue(t, view, key, refsearch.OpNE, lbl)
		if v == s {
			v += "x"
		}
		return v
	}
	x, ok := w.Int(key)
	if !ok {
		return randomValue(t, view, key, op, lbl)
	}
	d := rapid.SampledFrom([]int{0, 1, 1, 2, 1000}).Draw(t, lbl+"-wd")
	switch op {
	case refsearch.OpGT:
		if d == 0 {
			d = 1
		}
		return nearInt(t, x, -d, lbl)
	case refsearch.OpGE:
		return nearInt(t, x, -d, lbl)
	case refsearch.OpLT:
		if d == 0 {
			d = 1
		}
		return nearInt(t, x, d, lbl)
	default:
		return nearInt(t, x, d, lbl)
	}
}

var (
	strOps = []object.SearchMatchType{refsearch.OpEQ, refsearch.OpNE, refsearch.OpPrefix}
	numOps = []object.SearchMatchType{refsearch.OpGT, refsearch.OpGE, refsearch.OpLT, refsearch.OpLE}
)

// drawFilter draws a filter over key. With a witness, the filter is (most of
// the time) one the witness satisfies.
func drawFilter(t *rapid.T, view []refsearch.Obj, w *refsearch.Obj, key string, lbl string) refsearch.Filter {
	if refsearch.IsFlag(key) {
		return refsearch.Filter{Key: key}
	}
	user := !strings.HasPrefix(key, "$Object:")
	follow := w != nil && rapid.IntRange(0, 9).Draw(t, lbl+"-follow") < 8
	if follow {
		_, has := w.Stored[key]
		if !has {
			if user {
				return refsearch.Filter{Key: key, Op: refsearch.OpAbsent}
			}
			follow = false
		}
	}
	var op object.SearchMatchType
	if follow {
		_, isInt := w.Int(key)
		if isInt && rapid.IntRange(0, 9).Draw(t, lbl+"-num") < 6 {
			op = rapid.SampledFrom(numOps).Draw(t, lbl+"-nop")
		} else {
			op = rapid.SampledFrom(strOps).Draw(t, lbl+"-sop")
		}
		return refsearch.Filter{Key: key, Op: op, Val: witnessValue(t, view, *w, key, op, lbl)}
	}
	ops := append(append([]object.SearchMatchType{}, strOps...), numOps...)
	if user {
		ops = append(ops, refsearch.OpAbsent)
	}
	if numericKey(key) && rapid.Bool().Draw(t, lbl+"-numbias") {
		op = rapid.SampledFrom(numOps).Draw(t, lbl+"-nop")
	} else {
		op = rapid.SampledFrom(ops).Draw(t, lbl+"-op")
	}
	f := refsearch.Filter{Key: key, Op: op}
	if op != refsearch.OpAbsent {
		f.Val = randomValue(t, view, key, op, lbl)
	}
	return f
}

func numericKey(key string) bool {
	switch key {
	case KeyN, KeyAB, refsearch.KCreation, refsearch.KPayload, object.AttributeExpirationEpoch, "__NEOFS__EC_PART_IDX":
		return true
	}
	return false
}

// QueryOpts tunes GenQuery.
type QueryOpts struct {
	// Primary forces the key of the 1st filter ("" = draw).
	Primary string
	// WantAttrs forces requested attributes to be non-empty.
	WantAttrs bool
	// MaxFilters (default 4).
	MaxFilters int
	// Wide biases the 1st filter towards ones matching many objects (C04).
	Wide bool
}

func keysOf(w refsearch.Obj, all []string) []string {
	var r []string
	for _, k := range all {
		if _, ok := w.Stored[k]; ok {
			r = append(r, k)
		}
	}
	return r
}

// GenQuery draws a query whose values are taken from / near the corpus view.
// Most queries are built around a witness object (an available object of the
// view) so that conjunctions are satisfiable.
func GenQuery(view []refsearch.Obj, o QueryOpts) *rapid.Generator[refsearch.Query] {
	maxF := o.MaxFilters
	if maxF <= 0 {
		maxF = 4
	}
	all := append(append([]string{}, UserKeys...), SystemKeys...)
	var avail []refsearch.Obj
	for _, x := range view {
		if x.Available {
			avail = append(avail, x)
		}
	}
	return rapid.Custom(func(t *rapid.T) refsearch.Query {
		var q refsearch.Query
		nf := rapid.SampledFrom([]int{0, 1, 1, 1, 1, 1, 1, 2, 2, 2, 2, 2, 2, 3, 3, 3, 3, 4, 4, 4}).Draw(t, "nfilters")
		if nf > maxF {
			nf = maxF
		}
		if o.Primary != "" && nf == 0 {
			nf = 1
		}
		if nf == 0 {
			return q
		}
		var w *refsearch.Obj
		if len(avail) > 0 && rapid.IntRange(0, 9).Draw(t, "haswitness") < 8 {
			x := rapid.SampledFrom(avail).Draw(t, "witness")
			w = &x
		}
		pickKey := func(lbl string) string {
			if w != nil && rapid.IntRange(0, 9).Draw(t, lbl+"-wkey") < 8 {
				return rapid.SampledFrom(keysOf(*w, all)).Draw(t, lbl)
			}
			return rapid.SampledFrom(all).Draw(t, lbl)
		}
		prim := o.Primary
		if prim == "" {
			prim = pickKey("primkey")
		}
		var f0 refsearch.Filter
		wide := o.Wide && !refsearch.IsFlag(prim) && rapid.IntRange(0, 9).Draw(t, "wide") < 7
		if wide {
			// match-many filters: prefix "", != junk, numeric >= min / <= max
			switch k := rapid.IntRange(0, 6).Draw(t, "widekind"); {
			case k <= 2 && (!refsearch.IsBinary(prim) || prim == refsearch.KChecksum):
				f0 = refsearch.Filter{Key: prim, Op: refsearch.OpPrefix, Val: ""}
			case k <= 4 || !numericKey(prim):
				f0 = refsearch.Filter{Key: prim, Op: refsearch.OpNE, Val: rapid.SampledFrom([]string{"", "zzz"}).Draw(t, "neval")}
			case k == 5:
				f0 = refsearch.Filter{Key: prim, Op: refsearch.OpGE, Val: genint.MinVal.String()}
			default:
				f0 = refsearch.Filter{Key: prim, Op: refsearch.OpLE, Val: genint.MaxAbs.String()}
			}
		} else {
			f0 = drawFilter(t, view, w, prim, "f0")
		}
		q.Filters = append(q.Filters, f0)
		for i := 1; i < nf; i++ {
			key := prim
			if rapid.IntRange(0, 9).Draw(t, fmt.Sprintf("f%d-same", i)) >= 4 {
				key = pickKey(fmt.Sprintf("f%d-key", i))
			}
			q.Filters = append(q.Filters, drawFilter(t, view, w, key, fmt.Sprintf("f%d", i)))
		}
		if o.WantAttrs || rapid.IntRange(0, 9).Draw(t, "hasattrs") < 7 {
			q.Attrs = []string{prim}
			na := rapid.SampledFrom([]int{0, 0, 1, 1, 2}).Draw(t, "nattrs")
			for i := 0; i < na; i++ {
				q.Attrs = append(q.Attrs, rapid.SampledFrom(all).Draw(t, "attr"))
			}
		}
		return q
	})
}

package uni_test

import (
	"os"
	"path/filepath"
	"testing"

	objectcore "github.com/nspcc-dev/neofs-node/pkg/core/object"
	"github.com/nspcc-dev/neofs-node/verifharness/stor"
	"github.com/nspcc-dev/neofs-node/verifharness/uni"
	"pgregory.net/rapid"
)

// Every generated object is valid for the metadata layer and can be encoded;
// regular ones can be put into a metabase.
func TestSpecsAreValid(t *testing.T) {
	dir := t.TempDir()
	n := 0
	rapid.Check(t, func(t *rapid.T) {
		s := uni.SpecGen(uni.GenOpts{AttrPool: [][2]string{{"a", "1"}, {"b", "x"}}}).Draw(t, "spec")
		o := uni.Build(s)
		if err := objectcore.VerifyHeaderForMetadata(*o); err != nil {
			t.Fatalf("%s: %v", s, err)
		}
		if len(o.Marshal()) == 0 {
			t.Fatal("empty encoding")
		}
		n++
		p := filepath.Join(dir, "m")
		os.Remove(p)
		db, err := stor.OpenMeta(p, &stor.Epoch{})
		if err != nil {
			t.Fatal(err)
		}
		defer db.Close()
		if err := db.Put(o); err != nil && s.Kind == uni.Regular && s.Exp != 0 {
			t.Fatalf("put %s: %v", s, err)
		}
	})
}

// Package uni is the small dense universe shared by the storage checks
// (C01–C09, C14–C20, C42–C47): a few fixed container IDs, a dozen fixed object
// IDs per container, two owners, epochs 0..10, and constructors of VALID
// objects for the metabase/shard/engine level (they pass
// objectcore.VerifyHeaderForMetadata; IDs are fixed, not content-derived –
// storage layers below the object service do not re-derive IDs).
//
// IDs are chosen so that raw byte order, base58 string order and HRW order
// disagree (some start with 0x00, some differ only in the last byte).
//
// A Spec is a plain JSON-able description of one object; Build(Spec) is a pure
// function, so Specs serve as fingerprints / evidence samples, and models can
// be written over Specs without touching SDK objects.
package uni

import (
	"crypto/sha256"
	"fmt"
	"strconv"

	iec "github.com/nspcc-dev/neofs-node/internal/ec"
	"github.com/nspcc-dev/neofs-sdk-go/checksum"
	cid "github.com/nspcc-dev/neofs-sdk-go/container/id"
	"github.com/nspcc-dev/neofs-sdk-go/object"
	oid "github.com/nspcc-dev/neofs-sdk-go/object/id"
	"github.com/nspcc-dev/neofs-sdk-go/user"
	"github.com/nspcc-dev/neofs-sdk-go/version"
	"pgregory.net/rapid"
)

const (
	// NContainers / NObjects / NOwners are the universe sizes.
	NContainers = 3
	NObjects    = 12
	NOwners     = 2
	// MaxEpoch is the largest epoch used by generators.
	MaxEpoch = 10
)

var (
	containers [NContainers]cid.ID
	objects    [NObjects]oid.ID
	owners     [NOwners]user.ID
	splitIDs   [3]*object.SplitID
)

func init() {
	// containers adjacent in byte order; the first starts with a zero byte
	containers[0] = cid.ID{0x00, 0x01, 0xfe}
	containers[1] = cid.ID{0x00, 0x01, 0xff}
	containers[2] = cid.ID{0x80}
	for i := range containers {
		containers[i][31] = byte(0x10 + i)
	}
	firsts := []byte{0x00, 0x00, 0x01, 0x02, 0x11, 0x7f, 0x80, 0x80, 0xc3, 0xfe, 0xff, 0xff}
	for i := range objects {
		objects[i][0] = firsts[i]
		objects[i][15] = byte(0xa0 - i) // breaks monotonicity in the middle
		objects[i][31] = byte(i + 1)
	}
	owners[0] = user.NewFromScriptHash([20]byte{0xa1, 1, 2, 3})
	owners[1] = user.NewFromScriptHash([20]byte{0x01, 9, 9, 9})
	for i := range splitIDs {
		var u [16]byte
		u[0], u[6], u[8], u[15] = byte(0x30+i), 0x40, 0x80, byte(i+1) // valid UUIDv4 layout
		splitIDs[i] = object.NewSplitIDFromV2(u[:])
	}
}

// Cnr returns container i of the universe.
func Cnr(i int) cid.ID { return containers[i%NContainers] }

// OID returns object ID i of the universe.
func OID(i int) oid.ID { return objects[i%NObjects] }

// Owner returns owner i.
func Owner(i int) user.ID { return owners[i%NOwners] }

// SplitID returns split ID variant i.
func SplitID(i int) *object.SplitID { return splitIDs[i%len(splitIDs)] }

// Addr returns the address (container c, object i).
func Addr(c, i int) oid.Address { return oid.NewAddress(Cnr(c), OID(i)) }

// Index returns the universe indexes of an address (-1 if outside).
func Index(a oid.Address) (c, i int) {
	c, i = -1, -1
	for k := range containers {
		if containers[k] == a.Container() {
			c = k
		}
	}
	for k := range objects {
		if objects[k] == a.Object() {
			i = k
		}
	}
	return
}

// Kinds of objects a Spec can describe.
const (
	Regular   = "regular"
	Tombstone = "tombstone"
	Lock      = "lock"
	Link      = "link"
	ChildV1   = "child-v1" // size-split child of split scheme v1 (split ID) carrying the parent header
	ChildV2   = "child-v2" // size-split child of scheme v2 (first ID) carrying the parent header
	ECPart    = "ec-part"  // EC part carrying the parent header
)

// Spec describes one object of the universe. -1 means "unset" for index fields.
type Spec struct {
	Kind  string `json:"kind"`
	Cnr   int    `json:"cnr"`
	ID    int    `json:"id"`
	Owner int    `json:"owner,omitempty"`
	// Exp is the expiration epoch attribute (-1: none).
	Exp int `json:"exp"`
	// Target is the associated object for Tombstone/Lock.
	Target int `json:"target,omitempty"`
	// Parent is the parent object index for ChildV1/ChildV2/ECPart/Link (-1 none).
	Parent int `json:"parent,omitempty"`
	// ParentExp is the expiration epoch in the parent header (-1 none).
	ParentExp int `json:"parent_exp,omitempty"`
	// ParentLen is the parent's payload length.
	ParentLen int `json:"parent_len,omitempty"`
	// First is the first-part ID index for ChildV2/Link (-1: this object IS the first part).
	First int `json:"first,omitempty"`
	// Split is the split ID variant for ChildV1.
	Split int `json:"split,omitempty"`
	// Last marks the last child (v1: carries parent header; v2: carries parent header).
	Last bool `json:"last,omitempty"`
	// RuleIdx/PartIdx for ECPart.
	RuleIdx int `json:"rule_idx,omitempty"`
	PartIdx int `json:"part_idx,omitempty"`
	// PayloadLen is the payload length (payload bytes are a pure function of ID and length).
	PayloadLen int `json:"len"`
	// Attrs are extra user attributes (key, value).
	Attrs [][2]string `json:"attrs,omitempty"`
	// CreationEpoch of the object.
	CreationEpoch int `json:"cepoch,omitempty"`
	// NoParentHeader: child carries only the parent ID, not the parent header (non-last v1/v2 children).
	NoParentHeader bool `json:"no_parent_header,omitempty"`
}

// String renders the spec compactly for fingerprints and failure messages.
func (s Spec) String() string {
	r := fmt.Sprintf("%s c%d/o%d len=%d", s.Kind, s.Cnr, s.ID, s.PayloadLen)
	if s.Exp >= 0 {
		r += fmt.Sprintf(" exp=%d", s.Exp)
	}
	switch s.Kind {
	case Tombstone, Lock:
		r += fmt.Sprintf(" ->o%d", s.Target)
	case ChildV1, ChildV2, ECPart, Link:
		r += fmt.Sprintf(" parent=o%d(pexp=%d)", s.Parent, s.ParentExp)
		if s.Kind == ChildV2 || s.Kind == Link {
			r += fmt.Sprintf(" first=%d", s.First)
		}
		if s.Kind == ChildV1 {
			r += fmt.Sprintf(" split=%d", s.Split)
		}
		if s.Kind == ECPart {
			r += fmt.Sprintf(" rule=%d part=%d", s.RuleIdx, s.PartIdx)
		}
		if s.NoParentHeader {
			r += " noPH"
		}
	}
	for _, a := range s.Attrs {
		r += fmt.Sprintf(" %s=%q", a[0], a[1])
	}
	return r
}

// Payload returns the deterministic payload of (container c, object i, length n).
func Payload(c, i, n int) []byte {
	b := make([]byte, n)
	for k := range b {
		b[k] = byte(k*7 + i*31 + c*101 + 3)
	}
	return b
}

func base(c, i, owner int) *object.Object {
	o := object.New(Cnr(c), Owner(owner))
	o.SetID(OID(i))
	v := version.Current()
	o.SetVersion(&v)
	return o
}

func setPayload(o *object.Object, p []byte) {
	o.SetPayload(p)
	o.SetPayloadSize(uint64(len(p)))
	o.SetPayloadChecksum(checksum.NewSHA256(sha256.Sum256(p)))
}

func addAttr(o *object.Object, k, v string) {
	o.SetAttributes(append(o.Attributes(), object.NewAttribute(k, v))...)
}

// ParentHeader builds the header (no payload) of parent object p in container c.
func ParentHeader(c, p, owner, exp, plen int) *object.Object {
	par := base(c, p, owner)
	par.SetPayloadSize(uint64(plen))
	par.SetPayloadChecksum(checksum.NewSHA256(sha256.Sum256(Payload(c, p, plen))))
	if exp >= 0 {
		addAttr(par, object.AttributeExpirationEpoch, strconv.Itoa(exp))
	}
	return par
}

// Build constructs the object described by s. It is a pure function.
func Build(s Spec) *object.Object {
	o := base(s.Cnr, s.ID, s.Owner)
	o.SetCreationEpoch(uint64(s.CreationEpoch))
	switch s.Kind {
	case Tombstone:
		setPayload(o, nil)
		o.AssociateDeleted(OID(s.Target))
	case Lock:
		setPayload(o, nil)
		o.AssociateLocked(OID(s.Target))
	case Link:
		setPayload(o, Payload(s.Cnr, s.ID, s.PayloadLen))
		o.SetType(object.TypeLink)
		if s.First >= 0 {
			o.SetFirstID(OID(s.First))
		}
		if s.Parent >= 0 {
			o.SetParent(ParentHeader(s.Cnr, s.Parent, s.Owner, s.ParentExp, s.ParentLen))
			o.SetParentID(OID(s.Parent))
		}
	case ChildV1:
		setPayload(o, Payload(s.Cnr, s.ID, s.PayloadLen))
		o.SetSplitID(SplitID(s.Split))
		if s.Parent >= 0 {
			if !s.NoParentHeader {
				o.SetParent(ParentHeader(s.Cnr, s.Parent, s.Owner, s.ParentExp, s.ParentLen))
			}
			o.SetParentID(OID(s.Parent))
		}
	case ChildV2:
		setPayload(o, Payload(s.Cnr, s.ID, s.PayloadLen))
		if s.First >= 0 {
			o.SetFirstID(OID(s.First))
		}
		if s.Parent >= 0 {
			if !s.NoParentHeader {
				o.SetParent(ParentHeader(s.Cnr, s.Parent, s.Owner, s.ParentExp, s.ParentLen))
			}
			o.SetParentID(OID(s.Parent))
		}
	case ECPart:
		setPayload(o, Payload(s.Cnr, s.ID, s.PayloadLen))
		o.SetParent(ParentHeader(s.Cnr, s.Parent, s.Owner, s.ParentExp, s.ParentLen))
		o.SetParentID(OID(s.Parent))
		addAttr(o, iec.AttributeRuleIdx, strconv.Itoa(s.RuleIdx))
		addAttr(o, iec.AttributePartIdx, strconv.Itoa(s.PartIdx))
	default: // Regular
		setPayload(o, Payload(s.Cnr, s.ID, s.PayloadLen))
	}
	if s.Exp >= 0 {
		addAttr(o, object.AttributeExpirationEpoch, strconv.Itoa(s.Exp))
	}
	for _, a := range s.Attrs {
		addAttr(o, a[0], a[1])
	}
	return o
}

// GenOpts tunes SpecGen.
type GenOpts struct {
	// Kinds to draw from (default: all).
	Kinds []string
	// Containers / Objects limit the index ranges (default: whole universe).
	Containers, Objects int
	// MaxLen of payloads (default 64).
	MaxLen int
	// AttrPool is a pool of (key,value) pairs to draw 0..2 attributes from (default none).
	AttrPool [][2]string
}

// SpecGen draws a Spec. Relations (targets, parents) are drawn inside the
// universe, so they may refer to absent objects, objects of other kinds, or the
// object itself is avoided (Target/Parent != ID).
func SpecGen(o GenOpts) *rapid.Generator[Spec] {
	kinds := o.Kinds
	if len(kinds) == 0 {
		kinds = []string{Regular, Regular, Regular, Tombstone, Lock, Link, ChildV1, ChildV2, ECPart}
	}
	nc, no := o.Containers, o.Objects
	if nc <= 0 || nc > NContainers {
		nc = NContainers
	}
	if no <= 0 || no > NObjects {
		no = NObjects
	}
	maxLen := o.MaxLen
	if maxLen <= 0 {
		maxLen = 64
	}
	return rapid.Custom(func(t *rapid.T) Spec {
		s := Spec{Kind: rapid.SampledFrom(kinds).Draw(t, "kind"), Exp: -1, Parent: -1, ParentExp: -1, First: -1}
		s.Cnr = rapid.IntRange(0, nc-1).Draw(t, "cnr")
		s.ID = rapid.IntRange(0, no-1).Draw(t, "id")
		s.Owner = rapid.IntRange(0, NOwners-1).Draw(t, "owner")
		other := func(lbl string) int {
			v := rapid.IntRange(0, no-2).Draw(t, lbl)
			if v >= s.ID {
				v++
			}
			return v
		}
		exp := func(lbl string) int {
			if rapid.IntRange(0, 2).Draw(t, lbl+"-has") == 0 {
				return -1
			}
			return rapid.IntRange(0, MaxEpoch).Draw(t, lbl)
		}
		s.Exp = exp("exp")
		switch s.Kind {
		case Tombstone, Lock:
			s.Target = other("target")
		case Link:
			s.Parent = other("parent")
			s.ParentExp = exp("pexp")
			s.First = other("first")
			s.PayloadLen = rapid.IntRange(0, 8).Draw(t, "len")
		case ChildV1:
			s.Parent = other("parent")
			s.ParentExp = exp("pexp")
			s.Split = rapid.IntRange(0, 2).Draw(t, "split")
			s.NoParentHeader = rapid.IntRange(0, 3).Draw(t, "noph") == 0
		case ChildV2:
			s.Parent = other("parent")
			s.ParentExp = exp("pexp")
			if rapid.Bool().Draw(t, "hasfirst") {
				s.First = other("first")
			}
			s.NoParentHeader = rapid.IntRange(0, 3).Draw(t, "noph") == 0
		case ECPart:
			s.Parent = other("parent")
			s.ParentExp = exp("pexp")
			s.RuleIdx = rapid.IntRange(0, 1).Draw(t, "rule")
			s.PartIdx = rapid.IntRange(0, 3).Draw(t, "part")
		}
		if s.Kind != Tombstone && s.Kind != Lock && s.Kind != Link {
			s.PayloadLen = rapid.SampledFrom([]int{0, 1, 7, 32, maxLen}).Draw(t, "len")
		}
		if s.Parent >= 0 {
			s.ParentLen = rapid.SampledFrom([]int{0, 10, 100}).Draw(t, "plen")
		}
		if len(o.AttrPool) > 0 {
			n := rapid.IntRange(0, 2).Draw(t, "nattrs")
			seen := map[string]bool{}
			for k := 0; k < n; k++ {
				a := rapid.SampledFrom(o.AttrPool).Draw(t, "attr")
				if !seen[a[0]] {
					seen[a[0]] = true
					s.Attrs = append(s.Attrs, a)
				}
			}
		}
		return s
	})
}

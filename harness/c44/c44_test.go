// Package c44 decides property C44: garbage collection eventually removes
// everything that should be removed.
//
// Reach: a REAL shard (TestC44Shard; expired-objects callback wired the way the
// engine wires it) or a REAL two-shard engine (TestC44Engine; the engine's own
// processExpiredObjects), GC remover batch size 1..5, background GC off; GC
// passes and new-epoch events are driven synchronously through the export
// shims VerifGCPass / VerifNewEpoch.
//
// Generate: a history of puts (regular objects with/without expiration, LOCKs
// and TOMBSTONEs – always with an expiration, as the object service demands –
// on present or absent targets), forced marks (default / redundant), container
// removals, epoch advances and a few interleaved GC passes. Every object ID is
// put at most once, so the reference expectation is exact:
//
//	Gone  – put was rejected, or the object has an expiration, or a tombstone for
//	        it was accepted while/after it was stored, or it was force-marked,
//	        or its container was removed;
//	Stay  – accepted, none of the above;
//	Unknown – stored after an earlier tombstone / mark for the then absent ID
//	        (not asserted).
//
// Oracle (fixed point = sound "eventually"): phase A announces an epoch beyond
// every expiration and runs GC passes until 3 consecutive passes change
// neither the blob/write-cache directory digest nor the metadata view vector;
// phase B keeps advancing the epoch by one with one pass per shard until 3
// consecutive rounds change nothing. After phase B every Gone object must have
// no blob (Get with skipMeta) and no metadata (Exists ignoring expiration is
// (false,nil); absent from List; raw metabase ObjectStatus is empty after
// close), every removed container must be absent from ListContainers, and
// every Stay object must still be readable byte-exact. A GC pass is a function
// of (state, epoch) and later epochs expire nothing new, so a leftover at the
// fixed point is a genuine "never".
// Additionally ("stall" rule): the state reached in phase A must already be
// complete – the remover ticks independently of epochs and gc.go records an
// epoch as processed only when an expired scan found nothing, so needing a NEW
// epoch to continue means collection stopped with work left.
package c44

import (
	"bytes"
	"context"
	"crypto/sha256"
	"errors"
	"fmt"
	"os"
	"sort"
	"strconv"
	"strings"
	"testing"

	"github.com/nspcc-dev/neofs-node/pkg/local_object_storage/blobstor/fstree"
	meta "github.com/nspcc-dev/neofs-node/pkg/local_object_storage/metabase"
	"github.com/nspcc-dev/neofs-node/pkg/local_object_storage/shard"
	iec "github.com/nspcc-dev/neofs-node/internal/ec"
	"github.com/nspcc-dev/neofs-node/pkg/local_object_storage/blobstor/common"
	"github.com/nspcc-dev/neofs-node/verifharness/bubble"
	"github.com/nspcc-dev/neofs-node/verifharness/ev"
	"github.com/nspcc-dev/neofs-node/verifharness/faultstore"
	"github.com/nspcc-dev/neofs-node/verifharness/snap"
	"github.com/nspcc-dev/neofs-node/verifharness/stor"
	"github.com/nspcc-dev/neofs-node/verifharness/uni"
	"github.com/nspcc-dev/neofs-sdk-go/checksum"
	apistatus "github.com/nspcc-dev/neofs-sdk-go/client/status"
	cid "github.com/nspcc-dev/neofs-sdk-go/container/id"
	"github.com/nspcc-dev/neofs-sdk-go/object"
	oid "github.com/nspcc-dev/neofs-sdk-go/object/id"
	"github.com/nspcc-dev/neofs-sdk-go/version"
	"pgregory.net/rapid"
)

const (
	nCnr   = 3
	perCnr = 12
	maxExp = 9

	// ids of the one size-split (v2) chain per container; the parent is virtual
	partFirst, partMiddle, partLast, chainParent = 9, 10, 11, 12
	kindPart                                     = "part"

	// ids of the one EC object per container: three EC parts and the virtual
	// parent, whose ID sorts either before (ecLo) or after (ecHi) its parts
	ecLo, ecPart0, ecPartN, ecHi = 13, 14, 16, 17
	kindEC                      = "ec-part"

	// fpLatePart: a middle part (tied to its parent only through the first-part
	// ID) stored after the parent's tombstone reads as removed but gets no garbage
	// mark and is never collected (reported by builder-list, reproduced here).
	fpLatePart  = "C44:split-part-put-after-parent-tombstone-never-collected"
	whyLatePart = "split part stored after its parent's tombstone, reads as removed"

	// fpStuckParent: a parent header (non-physical record written together with the
	// last split part) that carries a stale garbage mark – left by an earlier,
	// meanwhile collected tombstone for the then unknown parent – can never be
	// deleted (deleteMetadata bails out with errNonPhy before dropping the mark), so
	// GetGarbage returns it on every pass; with a small batch all later garbage of
	// the shard starves.
	fpStuckParent = "C44:garbage-marked-split-parent-header-blocks-gc"
)

// id is an object of the C44 universe: container c, index i (IDs are never
// shared between containers).
type id struct{ c, i int }

func (k id) String() string { return fmt.Sprintf("c%d/o%d", k.c, k.i) }
func (k id) oid() oid.ID {
	var o oid.ID
	o[0], o[1], o[31] = byte(0x40+k.c), byte(k.i*17+1), byte(k.i+1)
	if k.i >= ecLo {
		o[1] = byte(0xe0 + (k.i-ecLo)*4) // after every other ID of the container, in index order
	}
	return o
}
func (k id) addr() oid.Address { return oid.NewAddress(uni.Cnr(k.c), k.oid()) }

type spec struct {
	kind   string // uni.Regular / uni.Lock / uni.Tombstone
	id     id
	exp    int // -1 none
	target int
	plen   int
}

func (s spec) String() string {
	r := fmt.Sprintf("%s %s", s.kind, s.id)
	if s.exp >= 0 {
		r += fmt.Sprintf(" exp=%d", s.exp)
	}
	if s.kind != uni.Regular {
		r += fmt.Sprintf(" ->o%d", s.target)
	}
	return r
}

func payload(s spec) []byte {
	b := make([]byte, s.plen)
	for k := range b {
		b[k] = byte(k*5 + s.id.i*13 + s.id.c*71 + 1)
	}
	return b
}

func build(s spec) *object.Object {
	o := object.New(uni.Cnr(s.id.c), uni.Owner(0))
	o.SetID(s.id.oid())
	v := version.Current()
	o.SetVersion(&v)
	var p []byte
	switch s.kind {
	case kindEC:
		p = payload(s)
		par := object.New(uni.Cnr(s.id.c), uni.Owner(0))
		par.SetID(id{s.id.c, s.target}.oid())
		par.SetVersion(&v)
		par.SetPayloadSize(21)
		par.SetPayloadChecksum(checksum.NewSHA256(sha256.Sum256([]byte("ec-whole"))))
		o.SetParent(par)
		o.SetParentID(par.GetID())
		o.SetAttributes(
			object.NewAttribute(iec.AttributeRuleIdx, "0"),
			object.NewAttribute(iec.AttributePartIdx, strconv.Itoa(s.id.i-ecPart0)),
		)
	case kindPart:
		p = payload(s)
		if s.id.i != partFirst {
			o.SetFirstID(id{s.id.c, partFirst}.oid())
		}
		if s.id.i == partLast {
			par := object.New(uni.Cnr(s.id.c), uni.Owner(0))
			par.SetID(id{s.id.c, chainParent}.oid())
			par.SetVersion(&v)
			par.SetPayloadSize(27)
			par.SetPayloadChecksum(checksum.NewSHA256(sha256.Sum256([]byte("whole"))))
			o.SetParent(par)
			o.SetParentID(par.GetID())
		}
	case uni.Lock:
		o.AssociateLocked(id{s.id.c, s.target}.oid())
	case uni.Tombstone:
		o.AssociateDeleted(id{s.id.c, s.target}.oid())
	default:
		p = payload(s)
	}
	o.SetPayload(p)
	o.SetPayloadSize(uint64(len(p)))
	o.SetPayloadChecksum(checksum.NewSHA256(sha256.Sum256(p)))
	if s.exp >= 0 {
		// append: the association of LOCK/TOMBSTONE lives in the attributes too
		o.SetAttributes(append(o.Attributes(), object.NewAttribute(object.AttributeExpirationEpoch, strconv.Itoa(s.exp)))...)
	}
	return o
}

const (
	expGone = iota + 1
	expStay
	expUnknown
)

type mobj struct {
	spec     spec
	accepted bool
	expect   int
	why      string
}

// store abstracts shard vs engine.
type store interface {
	put(*object.Object) error
	mark(oid.Address, meta.GarbageMark) error
	rmContainer(cid.ID) error
	shards() []*shard.Shard
	get(oid.Address) (*object.Object, error)
	dirs() []string
	close() error
}

// ---- single shard

type shardStore struct {
	sh  *shard.Shard
	dir string
}

func (s *shardStore) expired(addrs []oid.Address) {
	for _, a := range addrs {
		if locked, err := s.sh.IsLocked(a); err == nil && locked {
			continue
		}
		ex, err := s.sh.Exists(a, true)
		if err != nil || !ex {
			continue
		}
		_ = s.sh.Delete(a.Container(), []oid.ID{a.Object()})
	}
}

func (s *shardStore) put(o *object.Object) error {
	ex, err := s.sh.Exists(o.Address(), false)
	if err != nil {
		return err
	}
	if ex {
		return nil
	}
	return s.sh.Put(o, nil)
}
func (s *shardStore) mark(a oid.Address, m meta.GarbageMark) error {
	return s.sh.MarkGarbage(a.Container(), []oid.ID{a.Object()}, m)
}
func (s *shardStore) rmContainer(c cid.ID) error            { return s.sh.InhumeContainer(c) }
func (s *shardStore) shards() []*shard.Shard                 { return []*shard.Shard{s.sh} }
func (s *shardStore) get(a oid.Address) (*object.Object, error) { return s.sh.Get(a, false) }
func (s *shardStore) dirs() []string                         { return []string{s.dir} }
func (s *shardStore) close() error                           { return s.sh.Close() }

// ---- engine

type engineStore struct {
	e    *stor.Engine
	list []*shard.Shard
	dd   []string
}

func (s *engineStore) put(o *object.Object) error { return s.e.E.Put(context.Background(), o, nil) }
func (s *engineStore) mark(a oid.Address, m meta.GarbageMark) error {
	return s.e.E.Delete(context.Background(), a, m)
}
func (s *engineStore) rmContainer(c cid.ID) error {
	return s.e.E.InhumeContainer(context.Background(), c)
}
func (s *engineStore) shards() []*shard.Shard { return s.list }
func (s *engineStore) get(a oid.Address) (*object.Object, error) {
	return s.e.E.Get(context.Background(), a)
}
func (s *engineStore) dirs() []string { return s.dd }
func (s *engineStore) close() error   { return s.e.E.Close() }

type world struct {
	t     *rapid.T
	rec   *ev.Recorder
	st    store
	ep    *stor.Epoch
	epoch uint64
	batch int
	wc    bool
	objs  map[id]*mobj
	// pre[id]: a tombstone / mark hit the ID while it was not stored
	pre     map[id]bool
	rmCnr   map[int]bool
	ops     []string
	garbage int
	// chainTomb[c]: a tombstone for the chain parent of container c was accepted
	chainTomb map[int]bool
	latePart  bool
	// EC object: parent ID sorts before its parts when ecParentFirst; ecGone[c]: the
	// parent was tombstoned / force-marked; ecRace: that happened with the parent
	// first, a small batch and at least `batch` parts stored (parent and parts
	// necessarily land in different GC batches)
	ecParentFirst bool
	ecGone        map[int]bool
	ecRace        bool
	blobs     []*faultstore.Store
	// raced: a GC pass ran inside the write-cache flush window (class of fpFlushRace)
	raced bool
}

// fpFlushRace: write-cache flush vs Shard delete leaves an orphan blob.
const fpFlushRace = "C44:flush-vs-delete-orphan-blob"

func (w *world) logf(f string, a ...any) { w.ops = append(w.ops, fmt.Sprintf(f, a...)) }

// stuckParents lists chain parents that GetGarbage keeps returning although
// they are parent headers (class fpStuckParent).
func (w *world) stuckParents() []string {
	var res []string
	for n, sh := range w.st.shards() {
		bins, err := sh.VerifGetGarbage(1000)
		if err != nil {
			ev.Inconclusive("get garbage: %v", err)
		}
		for _, bin := range bins {
			for c := 0; c < nCnr; c++ {
				if bin.Container != uni.Cnr(c) {
					continue
				}
				for _, p := range []id{{c, chainParent}, {c, ecLo}, {c, ecHi}} {
					for _, o := range bin.Objects {
						if o != p.oid() {
							continue
						}
						if st, _ := sh.VerifMetaStatus(p.addr()); len(st.HeaderIndex) > 0 {
							res = append(res, fmt.Sprintf("shard %d: parent header %s state=%v is returned by GetGarbage on every pass", n, p, st.State))
						}
					}
				}
			}
		}
	}
	return res
}

func (w *world) debugGarbage() string {
	if os.Getenv("C44_DEBUG") == "" {
		return ""
	}
	var b strings.Builder
	for n, d := range w.st.dirs() {
		_ = n
		_ = d
	}
	for n, sh := range w.st.shards() {
		bins, err := sh.VerifGetGarbage(100)
		fmt.Fprintf(&b, "\nshard %d garbage (err=%v):", n, err)
		for _, bin := range bins {
			fmt.Fprintf(&b, " [%s:", bin.Container)
			for _, o := range bin.Objects {
				st, _ := sh.VerifMetaStatus(oid.NewAddress(bin.Container, o))
				fmt.Fprintf(&b, " %s{state=%v hdr=", o, st.State)
				for _, h := range st.HeaderIndex {
					fmt.Fprintf(&b, "%s=%x;", h.K, h.V)
				}
				b.WriteString("}")
			}
			b.WriteString("]")
		}
	}
	return b.String()
}

func (w *world) fail(f string, a ...any) {
	f += w.debugGarbage()
	w.t.Fatalf("%s\nconfig: batch=%d write-cache=%v shards=%d\nhistory:\n  %s", fmt.Sprintf(f, a...), w.batch, w.wc, len(w.st.shards()), strings.Join(w.ops, "\n  "))
}

func errShort(err error) string {
	switch {
	case err == nil:
		return "ok"
	case errors.Is(err, apistatus.ErrObjectLocked):
		return "ObjectLocked"
	case errors.Is(err, apistatus.ErrObjectAlreadyRemoved):
		return "AlreadyRemoved"
	case errors.Is(err, apistatus.ErrLockNonRegularObject):
		return "LockNonRegular"
	case errors.Is(err, apistatus.ErrObjectNotFound):
		return "NotFound"
	}
	s := err.Error()
	if len(s) > 90 {
		s = s[:90] + "…"
	}
	return "err(" + s + ")"
}

func (w *world) setGone(m *mobj, why string) {
	if m.expect == expUnknown {
		return
	}
	if m.expect != expGone {
		w.garbage++
	}
	m.expect, m.why = expGone, why
}

func (w *world) freshID(c int) (id, bool) {
	var free []int
	for i := 0; i < partFirst; i++ {
		if _, used := w.objs[id{c, i}]; !used {
			free = append(free, i)
		}
	}
	if len(free) == 0 {
		return id{}, false
	}
	return id{c, rapid.SampledFrom(free).Draw(w.t, "fresh")}, true
}

func (w *world) liveCnr() int {
	var cs []int
	for c := 0; c < nCnr; c++ {
		if !w.rmCnr[c] {
			cs = append(cs, c)
		}
	}
	if len(cs) == 0 {
		w.t.Skip("all containers removed")
	}
	return rapid.SampledFrom(cs).Draw(w.t, "cnr")
}

func (w *world) acceptedIn(c int, kind string) []int {
	var r []int
	for i := 0; i < perCnr; i++ {
		if m := w.objs[id{c, i}]; m != nil && m.accepted && (kind == "" || m.spec.kind == kind) {
			r = append(r, i)
		}
	}
	return r
}

func (w *world) expNear() int {
	lo := int(w.epoch) - 1
	if lo < 0 {
		lo = 0
	}
	hi := int(w.epoch) + 3
	if hi > maxExp {
		hi = maxExp
	}
	if lo > hi {
		lo = hi
	}
	return rapid.IntRange(lo, hi).Draw(w.t, "exp")
}

func (w *world) actPut(kind string) {
	t := w.t
	c := w.liveCnr()
	k, ok := w.freshID(c)
	if !ok {
		t.Skip("container full")
	}
	s := spec{kind: kind, id: k, exp: -1}
	switch kind {
	case uni.Regular:
		if rapid.IntRange(0, 9).Draw(t, "has-exp") < 6 {
			s.exp = w.expNear()
		}
		s.plen = rapid.SampledFrom([]int{0, 1, 9, 40}).Draw(t, "len")
	default:
		s.exp = w.expNear() // the object service rejects system objects without expiration
		cands := w.acceptedIn(c, uni.Regular)
		if len(cands) > 0 && rapid.IntRange(0, 9).Draw(t, "tgt-known") < 8 {
			s.target = rapid.SampledFrom(cands).Draw(t, "tgt")
		} else {
			s.target = rapid.IntRange(0, perCnr-1).Draw(t, "tgt-any")
			if s.target == k.i {
				s.target = (s.target + 1) % perCnr
			}
		}
	}
	m := &mobj{spec: s}
	w.objs[k] = m
	err := w.st.put(build(s))
	w.logf("put %s @%d -> %s", s, w.epoch, errShort(err))
	if err != nil {
		m.expect, m.why = expGone, "put rejected"
		return
	}
	m.accepted = true
	m.expect = expStay
	if w.pre[k] {
		m.expect, m.why = expUnknown, "stored after a tombstone/mark for the absent ID"
	}
	if s.exp >= 0 {
		w.setGone(m, "has expiration")
	}
	if kind == uni.Tombstone {
		tk := id{c, s.target}
		if tm := w.objs[tk]; tm != nil && tm.accepted {
			w.setGone(tm, "tombstoned by "+k.String())
		} else if tm == nil {
			w.pre[tk] = true
		}
	}
}

// actPart stores one part of the container's split chain (incremental puts in
// any order, also after the parent was tombstoned).
func (w *world) actPart() {
	t := w.t
	c := w.liveCnr()
	var free []int
	for _, i := range []int{partFirst, partMiddle, partLast} {
		if _, used := w.objs[id{c, i}]; !used {
			free = append(free, i)
		}
	}
	if len(free) == 0 {
		t.Skip("chain complete")
	}
	k := id{c, rapid.SampledFrom(free).Draw(t, "part")}
	if w.chainTomb[c] && k.i == partMiddle && ev.IsOpen("C44", fpLatePart) {
		w.rec.Known(fpLatePart) // records the occurrence: the driver prints the KNOWN-FINDING line
		w.rec.Excluded(1)
		t.Skip("known finding: " + fpLatePart)
	}
	if w.chainTomb[c] && k.i == partLast && ev.IsOpen("C44", fpStuckParent) {
		w.rec.Known(fpStuckParent) // records the occurrence: the driver prints the KNOWN-FINDING line
		w.rec.Excluded(1)
		t.Skip("known finding: " + fpStuckParent)
	}
	s := spec{kind: kindPart, id: k, exp: -1, plen: 9}
	m := &mobj{spec: s}
	w.objs[k] = m
	err := w.st.put(build(s))
	w.logf("put part %s (%s) @%d -> %s", k, map[int]string{partFirst: "first", partMiddle: "middle: first-ID only", partLast: "last: parent header"}[k.i], w.epoch, errShort(err))
	if err != nil {
		m.expect, m.why = expGone, "put rejected"
		return
	}
	m.accepted = true
	m.expect = expStay
	if w.pre[k] {
		m.expect, m.why = expUnknown, "stored after a tombstone/mark for the absent ID"
		return
	}
	if w.chainTomb[c] {
		// the shard decides: if it reports the part as removed, it must also collect it
		removed := false
		for _, sh := range w.st.shards() {
			if _, err := sh.Exists(k.addr(), false); errors.Is(err, apistatus.ErrObjectAlreadyRemoved) {
				removed = true
			}
		}
		if removed {
			w.setGone(m, whyLatePart)
			w.latePart = true
		} else {
			m.expect, m.why = expUnknown, "part stored after the parent's tombstone, chain no longer discoverable"
		}
	}
}

// actChainTomb tombstones the (virtual) parent of the container's split chain.
func (w *world) actChainTomb() {
	t := w.t
	c := w.liveCnr()
	k, ok := w.freshID(c)
	if !ok {
		t.Skip("container full")
	}
	s := spec{kind: uni.Tombstone, id: k, exp: w.expNear(), target: chainParent}
	m := &mobj{spec: s}
	w.objs[k] = m
	err := w.st.put(build(s))
	w.logf("put %s (chain parent) @%d -> %s", s, w.epoch, errShort(err))
	if err != nil {
		m.expect, m.why = expGone, "put rejected"
		return
	}
	m.accepted = true
	w.setGone(m, "has expiration")
	// the shard finds the parts through the stored last part (it carries the parent
	// ID); with several shards the parts may live on different shards (no LINK
	// object is generated here), so nothing is claimed then
	discoverable := false
	if l := w.objs[id{c, partLast}]; l != nil && l.accepted && l.expect == expStay && len(w.st.shards()) == 1 {
		discoverable = true
	}
	first := !w.chainTomb[c]
	w.chainTomb[c] = true
	for _, i := range []int{partFirst, partMiddle, partLast} {
		pm := w.objs[id{c, i}]
		if pm == nil || !pm.accepted {
			continue
		}
		if discoverable {
			w.setGone(pm, "parent tombstoned by "+k.String())
		} else if first && pm.expect == expStay {
			pm.expect, pm.why = expUnknown, "parent tombstoned while the chain was not discoverable"
		}
	}
}

func (w *world) ecParent() int {
	if w.ecParentFirst {
		return ecLo
	}
	return ecHi
}

// actECPart stores one EC part (it carries the parent header, like real EC parts).
func (w *world) actECPart() {
	t := w.t
	c := w.liveCnr()
	var free []int
	for i := ecPart0; i <= ecPartN; i++ {
		if _, used := w.objs[id{c, i}]; !used {
			free = append(free, i)
		}
	}
	if len(free) == 0 {
		t.Skip("EC object complete")
	}
	if w.ecGone[c] {
		// a part arriving after its parent was tombstoned / marked: either rejected or
		// the stale-garbage-mark-on-a-parent-header class; not what this unit is about
		if ev.IsOpen("C44", fpStuckParent) {
			w.rec.Known(fpStuckParent)
			w.rec.Excluded(1)
		}
		t.Skip("EC parent already removed")
	}
	k := id{c, rapid.SampledFrom(free).Draw(t, "ec-part")}
	s := spec{kind: kindEC, id: k, exp: -1, plen: 9, target: w.ecParent()}
	m := &mobj{spec: s}
	w.objs[k] = m
	err := w.st.put(build(s))
	w.logf("put EC part %s (parent o%d) @%d -> %s", k, s.target, w.epoch, errShort(err))
	if err != nil {
		m.expect, m.why = expGone, "put rejected"
		return
	}
	m.accepted = true
	m.expect = expStay
	if w.pre[k] {
		m.expect, m.why = expUnknown, "stored after a tombstone/mark for the absent ID"
	}
}

// actECRemove tombstones or force-marks the EC parent: the shard marks the
// parent and all stored parts; when GC later deletes the PARENT address, the
// metabase removes the remaining parts with it and the shard must drop their blobs.
func (w *world) actECRemove() {
	t := w.t
	c := w.liveCnr()
	stored := 0
	for i := ecPart0; i <= ecPartN; i++ {
		if m := w.objs[id{c, i}]; m != nil && m.accepted && m.expect != expGone {
			stored++
		}
	}
	if stored == 0 {
		t.Skip("no EC parts stored")
	}
	par := id{c, w.ecParent()}
	why := ""
	if rapid.Bool().Draw(t, "by-mark") {
		err := w.st.mark(par.addr(), meta.GarbageMarkDefault)
		w.logf("mark EC parent %s @%d -> %s", par, w.epoch, errShort(err))
		if err != nil {
			return
		}
		why = "EC parent force-marked"
	} else {
		k, ok := w.freshID(c)
		if !ok {
			t.Skip("container full")
		}
		s := spec{kind: uni.Tombstone, id: k, exp: w.expNear(), target: w.ecParent()}
		m := &mobj{spec: s}
		w.objs[k] = m
		err := w.st.put(build(s))
		w.logf("put %s (EC parent) @%d -> %s", s, w.epoch, errShort(err))
		if err != nil {
			m.expect, m.why = expGone, "put rejected"
			return
		}
		m.accepted = true
		w.setGone(m, "has expiration")
		why = "EC parent tombstoned by " + k.String()
	}
	if !w.ecGone[c] && w.ecParentFirst && stored >= w.batch {
		w.ecRace = true
	}
	w.ecGone[c] = true
	for i := ecPart0; i <= ecPartN; i++ {
		if m := w.objs[id{c, i}]; m != nil && m.accepted {
			w.setGone(m, why)
		}
	}
}

func (w *world) actMark() {
	t := w.t
	c := w.liveCnr()
	cands := w.acceptedIn(c, "")
	if len(cands) == 0 {
		t.Skip("nothing to mark")
	}
	k := id{c, rapid.SampledFrom(cands).Draw(t, "id")}
	mark := meta.GarbageMarkDefault
	if rapid.Bool().Draw(t, "redundant") {
		mark = meta.GarbageMarkRedundant
	}
	err := w.st.mark(k.addr(), mark)
	w.logf("mark %s mark=%d @%d -> %s", k, mark, w.epoch, errShort(err))
	if err != nil {
		// the engine refuses to mark e.g. a LOCK through some paths; nothing was marked
		return
	}
	w.setGone(w.objs[k], "force-marked")
}

func (w *world) actRmContainer() {
	t := w.t
	if len(w.rmCnr) >= 2 {
		t.Skip("keep one container")
	}
	c := w.liveCnr()
	if err := w.st.rmContainer(uni.Cnr(c)); err != nil {
		w.fail("container removal failed: %v", err)
	}
	w.rmCnr[c] = true
	w.logf("remove container c%d @%d", c, w.epoch)
	for k, m := range w.objs {
		if k.c == c && m.accepted {
			// also the Unknown ones: nothing of a removed container may stay
			if m.expect != expGone {
				w.garbage++
			}
			m.expect, m.why = expGone, "container removed"
		}
	}
}

func (w *world) notify() {
	w.ep.Set(w.epoch)
	for _, sh := range w.st.shards() {
		sh.VerifNewEpoch(w.epoch)
	}
}

func (w *world) actEpoch() {
	if w.epoch >= maxExp {
		w.t.Skip("epoch limit of the history phase")
	}
	w.epoch++
	w.notify()
	w.logf("epoch -> %d", w.epoch)
}

func (w *world) gcPass() {
	for _, sh := range w.st.shards() {
		sh.VerifGCPass()
	}
}

func (w *world) actGC() {
	w.gcPass()
	w.logf("gc pass @%d", w.epoch)
}

// actFlush flushes the write-cache explicitly (background flushing is driven
// by a 1 s ticker which never fires on the bubble's fake clock). With racing
// set, one GC pass runs inside the flush window: after the flush has read the
// first object from the cache and before it writes it to the blobstor.
func (w *world) actFlush(racing bool) {
	if !w.wc {
		w.t.Skip("no write-cache")
	}
	if racing {
		if ev.IsOpen("C44", fpFlushRace) {
			w.rec.Known(fpFlushRace) // records the occurrence: the driver prints the KNOWN-FINDING line
			w.rec.Excluded(1)
			w.t.Skip("known finding: " + fpFlushRace)
		}
		fired := false
		for _, b := range w.blobs {
			b.SetBefore(func(m string, _ []oid.Address) {
				if (m == "Put" || m == "PutBatch") && !fired {
					fired = true
					w.gcPass()
				}
			})
		}
		defer func() {
			for _, b := range w.blobs {
				b.SetBefore(nil)
			}
			if fired {
				w.raced = true
			}
		}()
	}
	for n, sh := range w.st.shards() {
		if err := sh.FlushWriteCache(false); err != nil {
			w.fail("flush of shard %d failed: %v", n, err)
		}
	}
	if racing {
		w.logf("flush write-cache with a GC pass inside the flush window @%d", w.epoch)
	} else {
		w.logf("flush write-cache @%d", w.epoch)
	}
}

// view is the observable state: directory digest + metadata view vector.
func (w *world) view() string {
	var roots []string
	for _, d := range w.st.dirs() {
		roots = append(roots, stor.BlobDir(d), stor.WCDir(d))
	}
	var ex []string
	for _, r := range roots {
		if _, err := os.Stat(r); err == nil {
			ex = append(ex, r)
		}
	}
	dg, err := snap.Digest(ex...)
	if err != nil {
		ev.Inconclusive("digest: %v", err)
	}
	var b strings.Builder
	b.WriteString(dg)
	for _, sh := range w.st.shards() {
		for c := 0; c < nCnr; c++ {
			for i := 0; i <= ecHi; i++ {
				exs, err := sh.Exists(id{c, i}.addr(), true)
				fmt.Fprintf(&b, "|%v:%s", exs, errShort(err))
			}
		}
		l, _ := sh.ListContainers()
		fmt.Fprintf(&b, "#%d", len(l))
		// everything a GC pass could still work on (garbage marks of IDs that were
		// never stored, empty dead containers, ...) is part of the view
		bins, err := sh.VerifGetGarbage(10000)
		if err != nil {
			ev.Inconclusive("get garbage: %v", err)
		}
		for _, bin := range bins {
			fmt.Fprintf(&b, "{%s:%d", bin.Container, len(bin.Objects))
			for _, o := range bin.Objects {
				b.WriteString(" " + o.EncodeToString()[:6])
			}
			b.WriteString("}")
		}
	}
	return b.String()
}

// leftovers lists what contradicts the expectation right now.
func (w *world) leftovers() []string {
	var bad []string
	keys := make([]id, 0, len(w.objs))
	for k := range w.objs {
		keys = append(keys, k)
	}
	sort.Slice(keys, func(a, b int) bool {
		if keys[a].c != keys[b].c {
			return keys[a].c < keys[b].c
		}
		return keys[a].i < keys[b].i
	})
	for _, k := range keys {
		m := w.objs[k]
		a := k.addr()
		switch m.expect {
		case expGone:
			for n, sh := range w.st.shards() {
				if _, err := sh.Get(a, true); err == nil {
					bad = append(bad, fmt.Sprintf("%s (%s; %s): blob still stored on shard %d", k, m.spec, m.why, n))
				}
				if ex, err := sh.Exists(a, true); ex || err != nil {
					// a removed-but-not-yet-dropped container reports NotFound for everything inside
					bad = append(bad, fmt.Sprintf("%s (%s; %s): metadata left on shard %d: Exists=%v %s", k, m.spec, m.why, n, ex, errShort(err)))
				}
				lst, err := sh.List()
				if err != nil {
					ev.Inconclusive("list: %v", err)
				}
				for _, x := range lst {
					if x == a {
						bad = append(bad, fmt.Sprintf("%s (%s; %s): still listed by shard %d", k, m.spec, m.why, n))
					}
				}
			}
		case expStay:
			got, err := w.st.get(a)
			if err != nil {
				bad = append(bad, fmt.Sprintf("%s (%s) must stay but Get fails: %s", k, m.spec, errShort(err)))
			} else if !bytes.Equal(got.Payload(), payload(m.spec)) {
				bad = append(bad, fmt.Sprintf("%s (%s) must stay but reads back differently", k, m.spec))
			}
		}
	}
	for c := range w.rmCnr {
		for n, sh := range w.st.shards() {
			l, err := sh.ListContainers()
			if err != nil {
				ev.Inconclusive("list containers: %v", err)
			}
			for _, x := range l {
				if x == uni.Cnr(c) {
					bad = append(bad, fmt.Sprintf("removed container c%d is still known to shard %d", c, n))
				}
			}
		}
	}
	sort.Strings(bad)
	return bad
}

// quiesce runs step until 3 consecutive steps leave the view unchanged.
func (w *world) quiesce(what string, step func()) int {
	bound := 40 + 4*(nCnr*perCnr)/w.batch
	same, rounds := 0, 0
	prev := w.view()
	for same < 3 {
		if rounds > bound {
			ev.Inconclusive("C44: %s did not reach a fixed point within %d rounds (batch %d); history: %s", what, bound, w.batch, strings.Join(w.ops, "; "))
		}
		step()
		rounds++
		cur := w.view()
		if cur == prev {
			same++
		} else {
			same = 0
		}
		prev = cur
	}
	return rounds
}

func (w *world) rawMetaCheck() {
	// after close: the raw metabase must know nothing about Gone objects
	for n, d := range w.st.dirs() {
		db, err := stor.OpenMeta(stor.MetaPath(d), w.ep)
		if err != nil {
			ev.Inconclusive("reopen metabase: %v", err)
		}
		for k, m := range w.objs {
			if m.expect != expGone {
				continue
			}
			st, err := db.ObjectStatus(k.addr())
			if err != nil {
				_ = db.Close()
				ev.Inconclusive("object status: %v", err)
			}
			if len(st.HeaderIndex) != 0 || len(st.State) != 0 {
				_ = db.Close()
				w.fail("never removed: raw metabase of shard %d still has %s (%s; %s): %d header index entries, state %v", n, k, m.spec, m.why, len(st.HeaderIndex), st.State)
			}
		}
		_ = db.Close()
	}
}

func run(t *rapid.T, rec *ev.Recorder, engineMode bool) {
	dir, err := os.MkdirTemp("", "c44")
	if err != nil {
		ev.Inconclusive("mkdtemp: %v", err)
	}
	defer os.RemoveAll(dir)
	w := &world{t: t, rec: rec, ep: &stor.Epoch{}, objs: map[id]*mobj{}, pre: map[id]bool{}, rmCnr: map[int]bool{}, chainTomb: map[int]bool{}, ecGone: map[int]bool{}}
	w.batch = rapid.SampledFrom([]int{1, 1, 2, 2, 3, 3, 4, 5}).Draw(t, "batch")
	w.ecParentFirst = rapid.IntRange(0, 2).Draw(t, "ec-parent-first") != 0
	w.wc = rapid.IntRange(0, 3).Draw(t, "write-cache") == 0
	fsto := []fstree.Option{fstree.WithCombinedWriteInterval(200_000)} // 0.2 ms
	if w.wc {
		// the flush path must not wait for a batching timer while holding the cache's
		// mode lock (a mutex waiter would freeze the bubble's fake clock, see HARNESS.md)
		fsto = []fstree.Option{fstree.WithCombinedCountLimit(1)}
	}
	blob := func(d string) common.Storage {
		fs := faultstore.New(stor.FSTree(stor.BlobDir(d), fsto...))
		w.blobs = append(w.blobs, fs)
		return fs
	}
	if engineMode {
		cfg := func(n int) stor.ShardCfg {
			d := fmt.Sprintf("%s/s%d", dir, n)
			return stor.ShardCfg{Dir: d, Epoch: w.ep, WriteCache: w.wc, RemoverBatch: w.batch, Blob: blob(d)}
		}
		e, err := stor.OpenEngine([]stor.ShardCfg{cfg(0), cfg(1)})
		if err != nil {
			ev.Inconclusive("open engine: %v", err)
		}
		es := &engineStore{e: e, dd: []string{dir + "/s0", dir + "/s1"}}
		m := e.E.VerifShards()
		ids := make([]string, 0, len(m))
		for k := range m {
			ids = append(ids, k)
		}
		sort.Strings(ids)
		for _, k := range ids {
			es.list = append(es.list, m[k])
		}
		w.st = es
	} else {
		ss := &shardStore{dir: dir}
		sh, err := stor.OpenShard(stor.ShardCfg{Dir: dir, Epoch: w.ep, WriteCache: w.wc, RemoverBatch: w.batch, Blob: blob(dir),
			Extra: []shard.Option{shard.WithExpiredObjectsCallback(ss.expired)}})
		if err != nil {
			ev.Inconclusive("open shard: %v", err)
		}
		ss.sh = sh
		w.st = ss
	}
	closed := false
	defer func() {
		if !closed {
			_ = w.st.close()
		}
	}()

	var (
		stalled   []string
		roundsA   int
		roundsB   int
		finished  bool
		knownHit  bool
		labels    []string
		maxVolume int
	)
	defer func() {
		nontrivial := finished && maxVolume > w.batch
		labels = append(labels, fmt.Sprintf("batch-%d", w.batch))
		if w.wc {
			labels = append(labels, "write-cache")
		}
		if len(w.rmCnr) > 0 {
			labels = append(labels, "container-removed")
		}
		if w.raced {
			labels = append(labels, "gc-inside-flush-window")
		}
		if knownHit {
			labels = append(labels, "known-finding-hit")
		}
		if len(w.chainTomb) > 0 {
			labels = append(labels, "split-chain-tombstoned")
		}
		if w.latePart {
			labels = append(labels, "part-after-parent-tombstone")
		}
		if len(w.ecGone) > 0 {
			labels = append(labels, "ec-parent-removed")
		}
		if w.ecRace {
			labels = append(labels, "ec-parent-before-parts&small-batch")
		}
		if nontrivial {
			labels = append(labels, "garbage>batch")
		}
		rec.Case(nontrivial, strings.Join(w.ops, ";")+fmt.Sprintf("|b%d", w.batch), labels...)
		if nontrivial && rec.WantSample() {
			rec.Sample(map[string]any{"batch": w.batch, "engine": engineMode, "ops": w.ops, "rounds_fixed_epoch": roundsA, "rounds_advancing": roundsB})
		}
	}()

	t.Repeat(map[string]func(*rapid.T){
		"put-regular":   func(*rapid.T) { w.actPut(uni.Regular) },
		"put-regular2":  func(*rapid.T) { w.actPut(uni.Regular) },
		"put-regular3":  func(*rapid.T) { w.actPut(uni.Regular) },
		"put-lock":      func(*rapid.T) { w.actPut(uni.Lock) },
		"put-tombstone": func(*rapid.T) { w.actPut(uni.Tombstone) },
		"put-tombston2": func(*rapid.T) { w.actPut(uni.Tombstone) },
		"mark":          func(*rapid.T) { w.actMark() },
		"put-part":      func(*rapid.T) { w.actPart() },
		"put-ec":        func(*rapid.T) { w.actECPart() },
		"put-ec2":       func(*rapid.T) { w.actECPart() },
		"ec-remove": func(t *rapid.T) {
			if rapid.IntRange(0, 1).Draw(t, "really") != 0 {
				t.Skip("sometimes")
			}
			w.actECRemove()
		},
		"chain-tomb": func(t *rapid.T) {
			if rapid.IntRange(0, 1).Draw(t, "really") != 0 {
				t.Skip("sometimes")
			}
			w.actChainTomb()
		},
		"rm-container": func(t *rapid.T) {
			if rapid.IntRange(0, 3).Draw(t, "really") != 0 {
				t.Skip("rarely")
			}
			w.actRmContainer()
		},
		"epoch":      func(*rapid.T) { w.actEpoch() },
		"flush":      func(*rapid.T) { w.actFlush(false) },
		"flush-race": func(*rapid.T) { w.actFlush(true) },
		"gc": func(t *rapid.T) {
			if rapid.IntRange(0, 1).Draw(t, "really") != 0 {
				t.Skip("sometimes")
			}
			w.actGC()
		},
	})

	seen := map[string]bool{}
	for _, m := range w.objs {
		if m.accepted && m.expect == expGone {
			maxVolume++
		}
		if m.expect == expUnknown {
			seen["has-unknown"] = true
		}
		if m.spec.kind == uni.Lock && m.accepted {
			seen["has-lock"] = true
			if tm := w.objs[id{m.spec.id.c, m.spec.target}]; tm != nil && tm.accepted && tm.spec.exp >= 0 && tm.spec.exp < m.spec.exp {
				seen["lock-outlives-expired-target"] = true
			}
		}
		if m.spec.kind == uni.Tombstone && m.accepted {
			seen["has-tombstone"] = true
		}
		if m.why == "force-marked" {
			seen["has-forced-mark"] = true
		}
	}
	for _, l := range []string{"has-unknown", "has-lock", "lock-outlives-expired-target", "has-tombstone", "has-forced-mark"} {
		if seen[l] {
			labels = append(labels, l)
		}
	}

	// phase A: one epoch beyond every expiration, GC passes only
	if w.epoch <= maxExp {
		w.epoch = maxExp + 1
	} else {
		w.epoch++
	}
	w.notify()
	w.logf("FINAL epoch -> %d, GC passes until quiescent", w.epoch)
	roundsA = w.quiesce("phase A (fixed epoch)", w.gcPass)
	stalled = w.leftovers()
	stallDebug := ""
	if len(stalled) > 0 {
		stallDebug = w.debugGarbage()
	}
	// phase B: epochs keep advancing
	roundsB = w.quiesce("phase B (advancing epochs)", func() {
		w.epoch++
		w.notify()
		w.gcPass()
	})
	w.logf("quiescent: %d passes at the fixed epoch, %d more (epoch+1, pass) rounds", roundsA, roundsB)
	if bad := w.leftovers(); len(bad) > 0 {
		if stuck := w.stuckParents(); len(stuck) > 0 {
			if w.rec.Known(fpStuckParent) {
				knownHit = true
				return
			}
			w.fail("GC blocked by a garbage-marked parent header [%s]:\n  %s\nleft behind:\n  %s", fpStuckParent, strings.Join(stuck, "\n  "), strings.Join(bad, "\n  "))
		}
		if w.latePart {
			only := true
			for _, b := range bad {
				if !strings.Contains(b, whyLatePart) {
					only = false
				}
			}
			if only && w.rec.Known(fpLatePart) {
				knownHit = true
				return
			}
			if only {
				w.fail("never removed [%s]:\n  %s", fpLatePart, strings.Join(bad, "\n  "))
			}
		}
		if w.raced {
			onlyBlobs := true
			for _, b := range bad {
				if !strings.Contains(b, "blob still stored") {
					onlyBlobs = false
				}
			}
			if onlyBlobs && w.rec.Known(fpFlushRace) {
				// known open finding: count it and stop judging this history
				knownHit = true
				return
			}
			if onlyBlobs {
				w.fail("orphan blobs after a GC pass ran inside the write-cache flush window [%s]:\n  %s", fpFlushRace, strings.Join(bad, "\n  "))
			}
		}
		w.fail("never removed / wrongly removed at the fixed point (epoch %d beyond every expiration, 3 rounds without change):\n  %s", w.epoch, strings.Join(bad, "\n  "))
	}
	if len(stalled) > 0 {
		labels = append(labels, "stalled-at-fixed-epoch")
		w.fail("GC stalled at a fixed epoch: after %d passes at epoch %d (3 without change) removable objects were left and were only collected after NEW epochs arrived:\n  %s%s", roundsA, maxExp+1, strings.Join(stalled, "\n  "), stallDebug)
	}
	if err := w.st.close(); err != nil {
		w.fail("close: %v", err)
	}
	closed = true
	w.rawMetaCheck()
	finished = true
}

func TestC44Shard(t *testing.T) {
	rec := ev.New("C44", "shard")
	defer rec.Flush()
	bubble.Check(t, func(t *rapid.T) { run(t, rec, false) })
}

func TestC44Engine(t *testing.T) {
	rec := ev.New("C44", "engine")
	defer rec.Flush()
	bubble.Check(t, func(t *rapid.T) { run(t, rec, true) })
}

// Package c43 decides property C43: after any sequence of mode changes,
// including ones where a component fails to switch, the operations a shard
// accepts and rejects match the mode it reports, and returning to read-write
// restores full service with all previously stored objects intact.
//
// Each generated case runs a REAL shard (faultstore-wrapped FSTree blobstor,
// bbolt metabase, with or without write-cache) in a testing/synctest bubble and
// performs 3..9 steps "SetMode(target) under an injected transient fault, then
// 0..4 operations", followed by a final SetMode(READ_WRITE) on a healthy
// environment (retried once) and a full read-back / service check.
//
// Faults (all transient: the environment is healthy again as soon as SetMode
// returns; what remains is the divergence between the components):
//
//	blob-close / blob-open / blob-init : the blobstor's Close / Open / Init fails once
//	meta : the metabase file cannot be opened (swapped for 8 KiB of zeros, the
//	       real file is put back afterwards)
//	wc   : the write-cache directory cannot be opened (path swapped for a regular
//	       file; tests run as root, so permission tricks do not work)
//
// Oracle (safety direction only, docs/shard-modes.md: after a failed switch
// "the mode of some components can be different", but "all mode changing
// operations are idempotent"). Let M = GetMode() after a step and lastOK = the
// last SetMode returned nil:
//
//	(0) SetMode == nil  =>  GetMode() == requested mode; nothing ever panics;
//	(1) M read-only  =>  every modifying request fails; and, unless a switch
//	    heading to a writable mode failed since the last successful switch (its
//	    already switched components, e.g. the write-cache flusher, are writable),
//	    the shard directory (blob/, meta, wc/) is byte-identical before and after
//	    the step's operations and sleeps;
//	(2) M == READ_WRITE and lastOK  =>  Put / Get / Delete / MarkGarbage /
//	    FlushWriteCache work; M == DEGRADED and lastOK => Put works;
//	(3) lastOK (any mode)  =>  every acknowledged, not removed object is readable
//	    byte-identically (objects acknowledged in DEGRADED mode: from the blob level);
//	(4) after the final successful SetMode(READ_WRITE): (3), a new Put works, the
//	    write-cache can be flushed and every object is then in the blob storage,
//	    Delete works.
//
// Not asserted: that operations succeed between a failed switch and the next
// successful one; what GetMode reports after a failed switch; Delete/MarkGarbage
// in DEGRADED mode (docs and code disagree).
package c43

import (
	"bytes"
	"crypto/sha256"
	"encoding/hex"
	"errors"
	"fmt"
	"io/fs"
	"os"
	"path/filepath"
	"runtime"
	"runtime/debug"
	"strings"
	"testing"
	"testing/synctest"
	"time"

	"github.com/nspcc-dev/bbolt"
	berrors "github.com/nspcc-dev/bbolt/errors"
	"github.com/nspcc-dev/neofs-node/pkg/local_object_storage/blobstor/fstree"
	meta "github.com/nspcc-dev/neofs-node/pkg/local_object_storage/metabase"
	"github.com/nspcc-dev/neofs-node/pkg/local_object_storage/shard/mode"
	"github.com/nspcc-dev/neofs-node/pkg/local_object_storage/writecache"
	"github.com/nspcc-dev/neofs-node/verifharness/bubble"
	"github.com/nspcc-dev/neofs-node/verifharness/c14/shmodes"
	"github.com/nspcc-dev/neofs-node/verifharness/ev"
	"github.com/nspcc-dev/neofs-node/verifharness/faultstore"
	"github.com/nspcc-dev/neofs-node/verifharness/snap"
	"github.com/nspcc-dev/neofs-node/verifharness/stor"
	"github.com/nspcc-dev/neofs-node/verifharness/uni"
	oid "github.com/nspcc-dev/neofs-sdk-go/object/id"
	"pgregory.net/rapid"
)

var modes = []mode.Mode{mode.ReadWrite, mode.ReadOnly, mode.Degraded, mode.DegradedReadOnly}

var modeShort = map[mode.Mode]string{mode.ReadWrite: "RW", mode.ReadOnly: "RO", mode.Degraded: "DEG", mode.DegradedReadOnly: "DRO"}

const (
	fNone      = "none"
	fBlobClose = "blob-close"
	fBlobOpen  = "blob-open"
	fBlobInit  = "blob-init"
	fMeta      = "meta"
	fWC        = "wc"
)

// object states of the reference model
const (
	stAcked    = "acked"     // acknowledged with the metabase: Get(addr, false) must work
	stBlobOnly = "blob-only" // acknowledged in DEGRADED mode: blob-level read must work
	stMaybe    = "maybe"     // a failed request touched it: nothing demanded
	stGone     = "gone"      // deleted / marked: nothing demanded
)

type obj struct {
	addr  oid.Address
	spec  uni.Spec
	bytes []byte
	state string
}

func noSyncBolt() *bbolt.Options {
	o := *bbolt.DefaultOptions
	o.NoSync = true
	// File-lock timeout: without one bbolt.Open retries flock forever (50 ms
	// sleeps) when a handle of the same file leaked, which would hang the case
	// instead of failing SetMode. Any value <= 50 ms makes the first contended
	// attempt return ErrTimeout without sleeping (no dependence on fake time,
	// which cannot advance while e.g. the GC goroutine waits for the shard mutex
	// held by SetMode). Inside one process the lock is never contended unless a
	// handle leaked, so the value cannot cause a false alarm.
	o.Timeout = time.Millisecond
	return &o
}

// tree is snap.Tree with whole-file reads (small files).
func tree(root string) ([]snap.Entry, error) {
	var res []snap.Entry
	err := filepath.WalkDir(root, func(p string, d fs.DirEntry, err error) error {
		if err != nil {
			return err
		}
		if p == root {
			return nil
		}
		info, err := d.Info()
		if err != nil {
			return err
		}
		rel, _ := filepath.Rel(root, p)
		e := snap.Entry{Path: rel, Mode: info.Mode() & (fs.ModeType | fs.ModePerm)}
		if info.Mode().IsRegular() {
			b, err := os.ReadFile(p)
			if err != nil {
				return err
			}
			h := sha256.Sum256(b)
			e.Size, e.Sum = int64(len(b)), hex.EncodeToString(h[:])
		}
		res = append(res, e)
		return nil
	})
	return res, err
}

// settle lets background jobs that wait for a (fake-time) timer in the middle of
// an operation - e.g. a GC pass inside a bbolt batch (MaxBatchDelay) while
// holding the shard's read lock - run to completion. synctest.Wait alone returns
// while such a job is parked on its timer, and a following SetMode would block on
// the mutex forever: a goroutine waiting for a mutex is not "durably blocked", so
// fake time could never advance. Three rounds: a job started by a ticker firing
// at the very end of one round finishes in the next.
func settle() {
	for i := 0; i < 3; i++ {
		time.Sleep(7 * time.Millisecond)
		synctest.Wait()
	}
}

func TestC43ModeSwitches(t *testing.T) {
	rec := ev.New("C43", "mode-switches")
	defer rec.Flush()
	if missing, stale := shmodes.Unclassified(); len(missing) > 0 || len(stale) > 0 {
		ev.Inconclusive("C43: method set of *shard.Shard changed: unclassified %v, vanished %v (harness/c14/shmodes)", missing, stale)
	}
	bubble.Check(t, func(t *rapid.T) { runCase(t, rec) })
}

func runCase(t *rapid.T, rec *ev.Recorder) {
	withWC := rapid.Bool().Draw(t, "write-cache")
	var (
		hist       []string
		labels     []string
		nontrivial bool
	)
	if withWC {
		labels = append(labels, "write-cache")
	} else {
		labels = append(labels, "no-write-cache")
	}
	logf := func(f string, a ...any) { hist = append(hist, fmt.Sprintf(f, a...)) }
	defer func() {
		rec.Case(nontrivial, strings.Join(hist, ";"), labels...)
		if nontrivial && rec.WantSample() {
			rec.Sample(map[string]any{"write_cache": withWC, "history": hist})
		}
	}()
	fail := func(f string, a ...any) {
		t.Fatalf("C43 violation: %s\nwrite-cache=%v\nhistory:\n  %s", fmt.Sprintf(f, a...), withWC, strings.Join(hist, "\n  "))
	}
	defer func() {
		if p := recover(); p != nil {
			if re, ok := p.(runtime.Error); ok {
				fail("panic: %v\n%s", re, debug.Stack())
			}
			panic(p)
		}
	}()

	dir, err := os.MkdirTemp("", "c43")
	if err != nil {
		ev.Inconclusive("mkdtemp: %v", err)
	}
	defer os.RemoveAll(dir)
	metaPath, wcDir := stor.MetaPath(dir), stor.WCDir(dir)

	// CombinedCountLimit(1): no batching timers inside the blobstor (they cannot
	// fire while the case goroutine waits on a mutex in a synctest bubble) and no
	// combined files indexed by object ID only (HARNESS.md pitfall; object IDs
	// are unique per case here anyway).
	inner := stor.FSTree(stor.BlobDir(dir), fstree.WithCombinedCountLimit(1), fstree.WithNoSync(true))
	blob := faultstore.New(inner)
	sh, err := stor.OpenShard(stor.ShardCfg{Dir: dir, Epoch: &stor.Epoch{}, WriteCache: withWC, Blob: blob,
		WCOpts:     []writecache.Option{writecache.WithNoSync(true), writecache.WithFlushWorkersCount(4)},
		MetaOpts:   []meta.Option{meta.WithBoltDBOptions(noSyncBolt())},
		GCInterval: time.Second})
	if err != nil {
		ev.Inconclusive("open shard: %v", err)
	}
	defer sh.Close()

	// ---------- model ----------
	var objs []*obj
	nextID := 0
	newObj := func() *obj {
		if nextID >= uni.NObjects {
			return nil
		}
		// one object ID is used once per case (in any container)
		s := uni.Spec{Kind: uni.Regular, Cnr: nextID % uni.NContainers, ID: nextID, Exp: -1, Parent: -1, ParentExp: -1, First: -1,
			PayloadLen: []int{0, 1, 7, 32, 64}[nextID%5]}
		nextID++
		o := uni.Build(s)
		ob := &obj{addr: o.Address(), spec: s, bytes: o.Marshal(), state: stMaybe}
		objs = append(objs, ob)
		return ob
	}
	pick := func(lbl string, states ...string) *obj {
		var c []*obj
		for _, o := range objs {
			for _, s := range states {
				if o.state == s {
					c = append(c, o)
				}
			}
		}
		if len(c) == 0 {
			return nil
		}
		return c[rapid.IntRange(0, len(c)-1).Draw(t, lbl)]
	}
	name := func(o *obj) string { return fmt.Sprintf("c%d/o%d", o.spec.Cnr, o.spec.ID) }

	lastOK, lastTarget, writableDrift := true, mode.ReadWrite, false

	// readable checks oracle (3) for one object
	readable := func(o *obj, when string) {
		var (
			got []byte
			err error
		)
		switch o.state {
		case stAcked:
			r, e := sh.Get(o.addr, false)
			if err = e; e == nil {
				got = r.Marshal()
			}
		case stBlobOnly:
			r, e := sh.Get(o.addr, true)
			if err = e; e == nil {
				got = r.Marshal()
			}
		default:
			return
		}
		if err != nil {
			fail("%s: %s object %s is not readable in reported mode %s: %v", when, o.state, name(o), sh.GetMode(), err)
		}
		if !bytes.Equal(got, o.bytes) {
			fail("%s: %s object %s read back with different bytes in mode %s", when, o.state, name(o), sh.GetMode())
		}
	}

	// ---------- operations ----------
	doPut := func() {
		o := newObj()
		if o == nil {
			return
		}
		m := sh.GetMode()
		err := sh.Put(uni.Build(o.spec), nil)
		logf("put %s in %s -> %v", name(o), modeShort[m], err)
		switch {
		case m.ReadOnly():
			if err == nil {
				fail("Put %s accepted while the shard reports %s", name(o), m)
			}
			o.state = stGone // never stored; a rejected put must not leave it behind (snapshot oracle)
		case err == nil && m.NoMetabase():
			o.state = stBlobOnly
		case err == nil:
			o.state = stAcked
		case lastOK:
			fail("Put %s failed in mode %s although the last SetMode succeeded: %v", name(o), m, err)
		default:
			o.state = stMaybe
		}
	}
	doGet := func() {
		o := pick("get", stAcked, stBlobOnly, stMaybe, stGone)
		if o == nil {
			return
		}
		if lastOK {
			logf("get %s (%s)", name(o), o.state)
			readable(o, "get")
			return
		}
		_, err := sh.Get(o.addr, false) // must not panic
		logf("get %s (%s, after failed switch) -> %v", name(o), o.state, err)
	}
	removal := func(kind string) {
		o := pick(kind, stAcked)
		if o == nil {
			return
		}
		m := sh.GetMode()
		var err error
		if kind == "delete" {
			err = sh.Delete(o.addr.Container(), []oid.ID{o.addr.Object()})
		} else {
			err = sh.MarkGarbage(o.addr.Container(), []oid.ID{o.addr.Object()}, meta.GarbageMarkDefault)
		}
		logf("%s %s in %s -> %v", kind, name(o), modeShort[m], err)
		switch {
		case m.ReadOnly():
			if err == nil {
				fail("%s %s accepted while the shard reports %s", kind, name(o), m)
			}
			if !shmodes.IsShardModeErr(err) {
				o.state = stMaybe
			}
		case err == nil:
			o.state = stGone
			if kind == "delete" {
				if _, gerr := sh.Get(o.addr, false); gerr == nil && lastOK {
					fail("object %s still readable after a successful Delete in mode %s", name(o), m)
				}
			}
		case m == mode.ReadWrite && lastOK:
			fail("%s %s failed in READ_WRITE although the last SetMode succeeded: %v", kind, name(o), err)
		case shmodes.IsShardModeErr(err):
			// rejected before anything was touched
		default:
			o.state = stMaybe
		}
	}
	doFlush := func() {
		m := sh.GetMode()
		err := sh.FlushWriteCache(false)
		logf("flush in %s -> %v", modeShort[m], err)
		switch {
		case m.ReadOnly() && err == nil:
			fail("FlushWriteCache accepted while the shard reports %s", m)
		case m == mode.ReadWrite && lastOK && withWC && err != nil:
			fail("FlushWriteCache failed in READ_WRITE although the last SetMode succeeded: %v", err)
		}
	}
	doSleep := func() {
		d := rapid.IntRange(1, 3).Draw(t, "sleep")
		time.Sleep(time.Duration(d) * time.Second)
		synctest.Wait()
		logf("sleep %ds", d)
	}

	// ---------- fault injection ----------
	inject := func(f string) (undo func()) {
		undo = func() {}
		switch f {
		case fBlobClose, fBlobOpen, fBlobInit:
			method := map[string]string{fBlobClose: "Close", fBlobOpen: "Open", fBlobInit: "Init"}[f]
			fired := false
			blob.SetFail(func(m string, _ []oid.Address) error {
				if m == method && !fired {
					fired = true
					return faultstore.ErrInjected
				}
				return nil
			})
			undo = func() { blob.SetFail(nil) }
		case fMeta:
			if err := os.Rename(metaPath, metaPath+".saved"); err != nil {
				ev.Inconclusive("meta swap: %v", err)
			}
			if err := os.WriteFile(metaPath, make([]byte, 8192), 0o600); err != nil {
				ev.Inconclusive("meta swap: %v", err)
			}
			undo = func() {
				if err := os.Remove(metaPath); err != nil {
					ev.Inconclusive("meta restore: %v", err)
				}
				if err := os.Rename(metaPath+".saved", metaPath); err != nil {
					ev.Inconclusive("meta restore: %v", err)
				}
			}
		case fWC:
			if err := os.Rename(wcDir, wcDir+".away"); err != nil {
				ev.Inconclusive("wc swap: %v", err)
			}
			if err := os.WriteFile(wcDir, []byte("not a directory"), 0o600); err != nil {
				ev.Inconclusive("wc swap: %v", err)
			}
			undo = func() {
				if err := os.Remove(wcDir); err != nil {
					ev.Inconclusive("wc restore: %v", err)
				}
				if err := os.Rename(wcDir+".away", wcDir); err != nil {
					ev.Inconclusive("wc restore: %v", err)
				}
			}
		}
		return undo
	}
	faults := []string{fNone, fNone, fBlobClose, fBlobOpen, fBlobInit, fBlobInit, fMeta, fMeta}
	if withWC {
		faults = append(faults, fWC, fWC)
	}

	setMode := func(target mode.Mode, f string) error {
		settle()
		prev := sh.GetMode()
		undo := inject(f)
		err := sh.SetMode(target)
		undo()
		m := sh.GetMode()
		logf("SETMODE %s->%s fault=%s -> %v (reports %s)", modeShort[prev], modeShort[target], f, err, modeShort[m])
		if err == nil && m != target {
			fail("SetMode(%s) returned nil but GetMode() == %s", target, m)
		}
		if errors.Is(err, berrors.ErrTimeout) {
			fail("SetMode(%s) cannot lock the metabase file: an earlier mode switch leaked an open handle of it (the shard cannot change its mode any more): %v", target, err)
		}
		lastOK, lastTarget = err == nil, target
		switch {
		case err == nil:
			writableDrift = false
		case !target.ReadOnly():
			// components switched before the failing one are already writable
			// (e.g. the write-cache flushes again) until a later switch succeeds
			writableDrift = true
		}
		return err
	}

	// ---------- warm-up in read-write ----------
	nWarm := rapid.IntRange(1, 4).Draw(t, "warmup")
	for i := 0; i < nWarm; i++ {
		doPut()
		if rapid.IntRange(0, 3).Draw(t, "warm-sleep") == 0 {
			doSleep()
		}
	}

	// ---------- steps ----------
	var (
		failedSwitches, opsAfterFailure int
		failedThenRevert                bool
	)
	nSteps := rapid.IntRange(3, 9).Draw(t, "steps")
	for i := 0; i < nSteps; i++ {
		target := rapid.SampledFrom(modes).Draw(t, "target")
		f := rapid.SampledFrom(faults).Draw(t, "fault")
		prev, prevOK := sh.GetMode(), lastOK
		err := setMode(target, f)
		labels = append(labels, "to:"+modeShort[target])
		if err != nil {
			failedSwitches++
			labels = append(labels, "failed-by:"+f, fmt.Sprintf("failed:%s->%s", modeShort[prev], modeShort[target]))
			// f == fNone: a refused switch, e.g. READ_ONLY -> degraded modes with a
			// non-empty write-cache (the cache cannot be flushed into the read-only
			// blobstor) – the property does not demand that a switch succeeds
		} else if f != fNone {
			labels = append(labels, "fault-inert:"+f)
		}
		if !prevOK && target == prev {
			failedThenRevert = true
		}

		m := sh.GetMode()
		frozen := m.ReadOnly() && !writableDrift
		var before []snap.Entry
		if frozen {
			synctest.Wait()
			if before, err = tree(dir); err != nil {
				ev.Inconclusive("snapshot: %v", err)
			}
		}
		if lastOK {
			// oracle (3): everything acknowledged is readable in the reported mode
			for _, o := range objs {
				readable(o, "after SetMode("+modeShort[target]+")")
			}
		}
		nOps := rapid.IntRange(0, 4).Draw(t, "ops")
		for k := 0; k < nOps; k++ {
			if !lastOK {
				opsAfterFailure++
			}
			switch op := rapid.IntRange(0, 9).Draw(t, "op"); {
			case op < 3:
				doPut()
			case op < 5:
				doGet()
			case op < 6:
				removal("delete")
			case op < 7:
				removal("mark")
			case op < 8:
				doFlush()
			default:
				doSleep()
			}
		}
		if frozen {
			synctest.Wait()
			after, err := tree(dir)
			if err != nil {
				ev.Inconclusive("snapshot: %v", err)
			}
			if d := snap.Diff(before, after); d != "" {
				fail("persisted state changed while the shard reports %s (last SetMode(%s) ok=%v):\n%s", m, lastTarget, lastOK, d)
			}
		}
	}

	// ---------- final: back to read-write on a healthy environment ----------
	if err := setMode(mode.ReadWrite, fNone); err != nil {
		labels = append(labels, "final-retry")
		if err = setMode(mode.ReadWrite, fNone); err != nil {
			fail("cannot return to READ_WRITE on a healthy environment (2 attempts): %v", err)
		}
	}
	for _, o := range objs {
		readable(o, "final read-back")
	}
	doPut()
	if withWC {
		doFlush()
		doSleep()
		for _, o := range objs {
			if o.state != stAcked && o.state != stBlobOnly {
				continue
			}
			got, err := inner.GetBytes(o.addr)
			if err != nil {
				fail("final: %s object %s is not in the blob storage after a successful FlushWriteCache: %v", o.state, name(o), err)
			}
			if !bytes.Equal(got, o.bytes) {
				fail("final: %s object %s has different bytes in the blob storage", o.state, name(o))
			}
		}
	}
	for _, o := range objs {
		readable(o, "final read-back after flush")
	}
	removal("delete")
	removal("mark")
	sh.VerifGCPass()
	for _, o := range objs {
		readable(o, "final read-back after delete+gc")
	}

	acked := 0
	for _, o := range objs {
		if o.state == stAcked || o.state == stBlobOnly {
			acked++
		}
	}
	if failedSwitches > 0 {
		labels = append(labels, "has-failed-switch")
	}
	if failedThenRevert {
		labels = append(labels, "failed-then-revert")
	}
	if opsAfterFailure > 0 {
		labels = append(labels, "ops-in-diverged-state")
	}
	nontrivial = failedSwitches > 0 && opsAfterFailure > 0 && acked > 0
}

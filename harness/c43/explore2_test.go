package c43

import (
	"fmt"
	"os"
	"testing"

	"github.com/nspcc-dev/neofs-node/pkg/local_object_storage/shard/mode"
	"github.com/nspcc-dev/neofs-node/verifharness/stor"
	"github.com/nspcc-dev/neofs-node/verifharness/uni"
)

func TestExplore2(t *testing.T) {
	dir, _ := os.MkdirTemp("", "x")
	defer os.RemoveAll(dir)
	sh, err := stor.OpenShard(stor.ShardCfg{Dir: dir})
	if err != nil {
		t.Fatal(err)
	}
	defer sh.Close()
	o := uni.Build(uni.Spec{Kind: uni.Regular, Cnr: 0, ID: 1, Exp: -1, PayloadLen: 10})
	fmt.Println("put", sh.Put(o, nil))
	mp := stor.MetaPath(dir)
	os.Rename(mp, mp+".saved")
	os.WriteFile(mp, make([]byte, 8192), 0o600)
	fmt.Println("setmode RO (meta file unreadable):", sh.SetMode(mode.ReadOnly), sh.GetMode())
	os.Rename(mp+".saved", mp)
	fmt.Println("retry setmode RO (file healthy again):", sh.SetMode(mode.ReadOnly), sh.GetMode())
	func() {
		defer func() { fmt.Println("recovered:", recover()) }()
		_, err = sh.Get(o.Address(), false)
		fmt.Println("get1", err)
	}()
	fmt.Println("setmode RW:", sh.SetMode(mode.ReadWrite), sh.GetMode())
	_, err = sh.Get(o.Address(), false)
	fmt.Println("get1", err)

	// RO -> RW failing at metabase
	fmt.Println("setmode RO:", sh.SetMode(mode.ReadOnly), sh.GetMode())
	os.Rename(mp, mp+".saved")
	os.WriteFile(mp, make([]byte, 8192), 0o600)
	fmt.Println("setmode RW (meta file unreadable):", sh.SetMode(mode.ReadWrite), sh.GetMode())
	os.Rename(mp+".saved", mp)
	func() {
		defer func() { fmt.Println("recovered:", recover()) }()
		_, err = sh.Get(o.Address(), false)
		fmt.Println("get1", err)
	}()
	fmt.Println("retry setmode RW:", sh.SetMode(mode.ReadWrite), sh.GetMode())
	_, err = sh.Get(o.Address(), false)
	fmt.Println("get1", err)
}

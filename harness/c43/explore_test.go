package c43

import (
	"fmt"
	"os"
	"testing"

	"github.com/nspcc-dev/neofs-node/pkg/local_object_storage/shard/mode"
	"github.com/nspcc-dev/neofs-node/verifharness/faultstore"
	"github.com/nspcc-dev/neofs-node/verifharness/stor"
	"github.com/nspcc-dev/neofs-node/verifharness/uni"
	oid "github.com/nspcc-dev/neofs-sdk-go/object/id"
)

func TestExploreBlobOpenFail(t *testing.T) {
	for _, wc := range []bool{false, true} {
		dir, _ := os.MkdirTemp("", "x")
		defer os.RemoveAll(dir)
		fs := faultstore.New(stor.FSTree(stor.BlobDir(dir)))
		sh, err := stor.OpenShard(stor.ShardCfg{Dir: dir, Blob: fs, WriteCache: wc})
		if err != nil {
			t.Fatal(err)
		}
		o := uni.Build(uni.Spec{Kind: uni.Regular, Cnr: 0, ID: 1, Exp: -1, PayloadLen: 10})
		fmt.Println("put", sh.Put(o, nil))
		fs.SetFail(func(m string, _ []oid.Address) error {
			if m == "Open" {
				return faultstore.ErrInjected
			}
			return nil
		})
		fmt.Println("setmode RO:", sh.SetMode(mode.ReadOnly), sh.GetMode())
		fs.SetFail(nil)
		fmt.Println("setmode RW:", sh.SetMode(mode.ReadWrite), sh.GetMode())
		o2 := uni.Build(uni.Spec{Kind: uni.Regular, Cnr: 0, ID: 2, Exp: -1, PayloadLen: 10})
		fmt.Println("put2", sh.Put(o2, nil))
		_, err = sh.Get(o.Address(), false)
		fmt.Println("get1", err)
		fmt.Println("flush", sh.FlushWriteCache(false))
		fmt.Println("del", sh.Delete(o.Address().Container(), []oid.ID{o.Address().Object()}))
		_, err = fs.Storage.Get(o.Address())
		fmt.Println("blob get after delete:", err)
		sh.Close()
	}
}

func TestExploreMetaFail(t *testing.T) {
	dir, _ := os.MkdirTemp("", "x")
	defer os.RemoveAll(dir)
	fs := faultstore.New(stor.FSTree(stor.BlobDir(dir)))
	sh, err := stor.OpenShard(stor.ShardCfg{Dir: dir, Blob: fs, WriteCache: true})
	if err != nil {
		t.Fatal(err)
	}
	defer sh.Close()
	o := uni.Build(uni.Spec{Kind: uni.Regular, Cnr: 0, ID: 1, Exp: -1, PayloadLen: 10})
	fmt.Println("put", sh.Put(o, nil))
	fs.SetBefore(func(m string, _ []oid.Address) {
		if m == "Close" {
			os.Rename(stor.MetaPath(dir), stor.MetaPath(dir)+".saved")
			os.WriteFile(stor.MetaPath(dir), make([]byte, 8192), 0o600)
		}
	})
	fmt.Println("setmode RO:", sh.SetMode(mode.ReadOnly), sh.GetMode())
	fs.SetBefore(nil)
	func() {
		defer func() { fmt.Println("recovered:", recover()) }()
		_, err = sh.Get(o.Address(), false)
		fmt.Println("get1", err)
	}()
	os.Rename(stor.MetaPath(dir)+".saved", stor.MetaPath(dir))
	fmt.Println("setmode RW:", sh.SetMode(mode.ReadWrite), sh.GetMode())
	_, err = sh.Get(o.Address(), false)
	fmt.Println("get1", err)
	o2 := uni.Build(uni.Spec{Kind: uni.Regular, Cnr: 0, ID: 2, Exp: -1, PayloadLen: 10})
	fmt.Println("put2", sh.Put(o2, nil))
	fmt.Println("flush", sh.FlushWriteCache(false))
}

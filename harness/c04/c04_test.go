// Package c04 decides property C04: a search merged over several shards (engine)
// or several nodes (Server.ProcessSearch = MergeSearchResults + CalculateCursor)
// and its continuation cursor behave like one search over the union.
//
// Three reaches:
//   - TestC04Engine: real engine.StorageEngine with 1-4 real shards, objects put
//     directly into chosen shards with overlapping copies, engine.Search paged
//     with the returned cursor fed back (Base64) through PreprocessSearchQuery;
//     reference = ONE metabase holding the union (single page).
//   - TestC04Nodes: the multi-node merge path of Server.ProcessSearch re-enacted
//     over 2-4 real metabases ("nodes"): local search on every node,
//     objectcore.MergeSearchResults, objectcore.CalculateCursor, attribute
//     stripping rules of the server; same reference.
//   - TestC04MergePure: MergeSearchResults + CalculateCursor over generated sorted
//     sets without any database; nodes are simulated by the reference order
//     (refsearch.IndexKey), so many more cases run.
//
// Queries that belong to a C03 finding class (single-shard defects) are never
// generated here, so that a failure is about merging only.
package c04

import (
	"bytes"
	"context"
	"encoding/base64"
	"encoding/json"
	"errors"
	"fmt"
	"os"
	"sort"
	"strings"
	"testing"

	objectcore "github.com/nspcc-dev/neofs-node/pkg/core/object"
	meta "github.com/nspcc-dev/neofs-node/pkg/local_object_storage/metabase"
	"github.com/nspcc-dev/neofs-node/pkg/local_object_storage/shard"
	"github.com/nspcc-dev/neofs-node/verifharness/ev"
	"github.com/nspcc-dev/neofs-node/verifharness/refsearch"
	"github.com/nspcc-dev/neofs-node/verifharness/searchgen"
	"github.com/nspcc-dev/neofs-node/verifharness/stor"
	"github.com/nspcc-dev/neofs-node/verifharness/uni"
	"github.com/nspcc-dev/neofs-sdk-go/client"
	apistatus "github.com/nspcc-dev/neofs-sdk-go/client/status"
	cid "github.com/nspcc-dev/neofs-sdk-go/container/id"
	"github.com/nspcc-dev/neofs-sdk-go/object"
	oid "github.com/nspcc-dev/neofs-sdk-go/object/id"
	"pgregory.net/rapid"
)

// store is anything objects can be put into.
type store struct {
	put  func(*object.Object) error
	mark func(cid.ID, []oid.ID) error
	del  func(cid.ID, []oid.ID) error
}

func dbStore(db *meta.DB) store {
	return store{put: db.Put, mark: func(c cid.ID, ids []oid.ID) error {
		_, err := db.MarkGarbage(c, ids, meta.GarbageMarkDefault)
		return err
	}, del: func(c cid.ID, ids []oid.ID) error {
		_, _, err := db.Delete(c, ids)
		return err
	}}
}

func shardStore(sh *shard.Shard) store {
	return store{put: func(o *object.Object) error { return sh.Put(o, nil) },
		mark: func(c cid.ID, ids []oid.ID) error { return sh.MarkGarbage(c, ids, meta.GarbageMarkDefault) },
		del:  sh.Delete}
}

// loadPositions stores the given corpus positions (in corpus order).
func loadPositions(st store, c *searchgen.Corpus, positions []int) {
	cnr := uni.Cnr(c.Cnr)
	var garb, del []oid.ID
	for _, i := range positions {
		if c.IsDeleted(i) {
			del = append(del, searchgen.ExtID(c.Specs[i].ID))
		}
		s := c.Specs[i]
		err := st.put(searchgen.Build(s))
		if c.TombstonedBefore(i) {
			if !errors.Is(err, apistatus.ErrObjectAlreadyRemoved) {
				ev.Inconclusive("put of %v after its tombstone: %v (expected already removed)", s, err)
			}
			continue
		}
		if err != nil {
			ev.Inconclusive("harness: put %v failed: %v", s, err)
		}
		for _, g := range c.Garbage {
			if g == i {
				garb = append(garb, searchgen.ExtID(s.ID))
			}
		}
	}
	if len(garb) > 0 {
		if err := st.mark(cnr, garb); err != nil {
			ev.Inconclusive("harness: mark garbage: %v", err)
		}
	}
	if len(del) > 0 {
		if err := st.del(cnr, del); err != nil {
			ev.Inconclusive("harness: delete: %v", err)
		}
	}
}

// assignment draws, for k holders, the set of corpus positions each one stores:
// tombstones and locks go everywhere (they are broadcast by the engine / placed
// on every container node), other objects go to a random non-empty subset.
func assignment(t *rapid.T, c *searchgen.Corpus, k int) [][]int {
	res := make([][]int, k)
	for i, s := range c.Specs {
		if s.Kind == uni.Tombstone || s.Kind == uni.Lock || k == 1 {
			for h := 0; h < k; h++ {
				res[h] = append(res[h], i)
			}
			continue
		}
		mask := rapid.IntRange(1, 1<<k-1).Draw(t, fmt.Sprintf("holders%d", i))
		if rapid.IntRange(0, 2).Draw(t, fmt.Sprintf("single%d", i)) == 0 {
			mask = 1 << rapid.IntRange(0, k-1).Draw(t, fmt.Sprintf("holder%d", i))
		}
		for h := 0; h < k; h++ {
			if mask&(1<<h) != 0 {
				res[h] = append(res[h], i)
			}
		}
	}
	return res
}

type searchFn func(ofs []objectcore.SearchFilter, attrs []string, cur *objectcore.SearchCursor, count uint16) ([]client.SearchResultItem, []byte, error)

type pageErr struct {
	page   int
	cursor string
	err    error
	prep   bool
}

func safe(f searchFn, ofs []objectcore.SearchFilter, attrs []string, cur *objectcore.SearchCursor, count uint16) (items []client.SearchResultItem, next []byte, err error) {
	defer func() {
		if r := recover(); r != nil {
			err = fmt.Errorf("PANIC in search: %v", r)
		}
	}()
	return f(ofs, attrs, cur, count)
}

// paginate pages through f with PreprocessSearchQuery(fs, attrs, cursor) before every page.
func paginate(f searchFn, q refsearch.Query, attrs []string, p uint16, maxPages int) ([]refsearch.Item, int, *pageErr) {
	var all []refsearch.Item
	cursor := ""
	fs := q.SDK()
	for page := 0; ; page++ {
		if page > maxPages {
			return all, page, &pageErr{page: page, cursor: cursor, err: errors.New("listing does not terminate")}
		}
		ofs, cur, err := objectcore.PreprocessSearchQuery(fs, attrs, cursor)
		if err != nil {
			return all, page, &pageErr{page: page, cursor: cursor, err: err, prep: true}
		}
		items, next, err := safe(f, ofs, attrs, cur, p)
		if err != nil {
			return all, page, &pageErr{page: page, cursor: cursor, err: err}
		}
		if len(items) > int(p) {
			return all, page, &pageErr{page: page, cursor: cursor, err: fmt.Errorf("page of %d items exceeds count %d", len(items), p)}
		}
		for _, it := range items {
			all = append(all, refsearch.Item{ID: it.ID, Attrs: it.Attributes})
		}
		if len(next) == 0 {
			return all, page + 1, nil
		}
		if len(items) == 0 {
			return all, page, &pageErr{page: page, cursor: cursor, err: errors.New("empty page with a continuation cursor")}
		}
		cursor = base64.StdEncoding.EncodeToString(next)
	}
}

func fmtItems(v []refsearch.Item) string {
	var b strings.Builder
	for i, it := range v {
		fmt.Fprintf(&b, "\n    %2d %s %q", i, idName(it.ID), it.Attrs)
	}
	return b.String()
}

func idName(id oid.ID) string {
	for k := 0; k < searchgen.NExt; k++ {
		if searchgen.ExtID(k) == id {
			return fmt.Sprintf("o%-2d(%02x..%02x)", k, id[0], id[31])
		}
	}
	return fmt.Sprintf("%x", id[:])
}

func diffItems(exp, got []refsearch.Item, cmpAttrs bool) string {
	if len(exp) != len(got) {
		return fmt.Sprintf("expected %d items, got %d", len(exp), len(got))
	}
	for i := range exp {
		if exp[i].ID != got[i].ID {
			return fmt.Sprintf("item %d: expected %s, got %s", i, idName(exp[i].ID), idName(got[i].ID))
		}
		if !cmpAttrs {
			continue
		}
		if len(got[i].Attrs) != len(exp[i].Attrs) {
			return fmt.Sprintf("item %d: %d attributes returned, expected %d", i, len(got[i].Attrs), len(exp[i].Attrs))
		}
		for k := range exp[i].Attrs {
			if exp[i].Attrs[k] != got[i].Attrs[k] {
				return fmt.Sprintf("item %d attribute %d: expected %q, got %q", i, k, exp[i].Attrs[k], got[i].Attrs[k])
			}
		}
	}
	return ""
}

// openC03 reports whether q has the shape of an OPEN single-shard (C03) finding.
func openC03(view []refsearch.Obj, q refsearch.Query) bool {
	for _, cls := range searchgen.C03Classes(view, q) {
		if ev.IsOpen("C03", cls) {
			return true
		}
	}
	return false
}

// drawQuery draws a query for C04: primary attribute cycles over all kinds,
// biased to match many objects; queries of C03 finding classes are redrawn.
func drawQuery(t *rapid.T, rec *ev.Recorder, view []refsearch.Obj, lbl string, wantAttrs bool) (refsearch.Query, string) {
	for try := 0; ; try++ {
		kind := rapid.SampledFrom(append([]string{"", "", "unfiltered"}, searchgen.PrimaryKinds...)).Draw(t, lbl+"-primkind")
		var q refsearch.Query
		if kind != "unfiltered" {
			q = searchgen.GenQuery(view, searchgen.QueryOpts{Primary: kind, WantAttrs: wantAttrs || rapid.IntRange(0, 9).Draw(t, lbl+"-attrs") < 6,
				MaxFilters: 3, Wide: true}).Draw(t, lbl)
		}
		if openC03(view, q) && try < 20 {
			rec.Excluded(1)
			continue
		}
		if refsearch.Check(q) != refsearch.Valid && try < 20 {
			continue
		}
		if kind == "" {
			kind = "unfiltered"
			if len(q.Filters) > 0 {
				kind = q.Filters[0].Key
			}
		}
		return q, kind
	}
}

// reference returns the complete result of q over the union metabase in one page.
func reference(db *meta.DB, cnr cid.ID, q refsearch.Query, attrs []string) ([]refsearch.Item, error) {
	ofs, cur, err := objectcore.PreprocessSearchQuery(q.SDK(), attrs, "")
	if err != nil {
		return nil, err
	}
	items, next, err := safe(func(ofs []objectcore.SearchFilter, attrs []string, cur *objectcore.SearchCursor, count uint16) ([]client.SearchResultItem, []byte, error) {
		return db.Search(cnr, ofs, attrs, cur, count)
	}, ofs, attrs, cur, 1000)
	if err != nil {
		return nil, err
	}
	if len(next) != 0 {
		return nil, errors.New("reference search did not fit one page")
	}
	res := make([]refsearch.Item, len(items))
	for i := range items {
		res[i] = refsearch.Item{ID: items[i].ID, Attrs: items[i].Attributes}
	}
	return res, nil
}

func openUnion(c *searchgen.Corpus, ep *stor.Epoch) (*meta.DB, func()) {
	dir, err := os.MkdirTemp("", "c04ref")
	if err != nil {
		ev.Inconclusive("tmp: %v", err)
	}
	db, err := stor.OpenMeta(dir+"/meta", ep)
	if err != nil {
		ev.Inconclusive("open reference metabase: %v", err)
	}
	var all []int
	for i := range c.Specs {
		all = append(all, i)
	}
	loadPositions(dbStore(db), c, all)
	return db, func() { _ = db.Close(); os.RemoveAll(dir) }
}

// caseStats computes the non-triviality ingredients.
func caseStats(c *searchgen.Corpus, asg [][]int, ref []refsearch.Item) (holdersWithMatches int, dupMatches int) {
	matched := map[oid.ID]bool{}
	for _, it := range ref {
		matched[it.ID] = true
	}
	cnt := map[oid.ID]int{}
	for _, pos := range asg {
		has := false
		for _, v := range c.ViewOf(pos) {
			if matched[v.ID] {
				has = true
				cnt[v.ID]++
			}
		}
		if has {
			holdersWithMatches++
		}
	}
	for _, n := range cnt {
		if n > 1 {
			dupMatches++
		}
	}
	return
}

type mergedRun struct {
	name    string
	k       int
	search  func(q refsearch.Query) (searchFn, []string, bool) // returns page function, effective attrs, strip attributes in comparison
	asg     [][]int
	corpus  *searchgen.Corpus
	cjs     []byte
	union   *meta.DB
	view    []refsearch.Obj
	queries int
}

func (m *mergedRun) run(t *rapid.T, rec *ev.Recorder) {
	cnr := uni.Cnr(m.corpus.Cnr)
	for qi := 0; qi < m.queries; qi++ {
		q, kind := drawQuery(t, rec, m.view, fmt.Sprintf("q%d", qi), false)
		f, attrs, stripped := m.search(q)
		qe := q
		qe.Attrs = attrs
		if openC03(m.view, qe) {
			// the effective (forced) attributes put the query into a single-shard finding class
			rec.Excluded(1)
			continue
		}
		ref, err := reference(m.union, cnr, q, attrs)
		if err != nil {
			if errors.Is(err, objectcore.ErrUnreachableQuery) {
				rec.Label("unreachable")
				continue
			}
			rec.Label("reference-rejected")
			continue
		}
		sizes := []int{1, 1, 2, 2, 3, len(ref) - 1, len(ref), len(ref) + 1, 5}
		np := rapid.IntRange(1, 2).Draw(t, "npages")
		for pi := 0; pi < np; pi++ {
			p := rapid.SampledFrom(sizes).Draw(t, "page")
			if p < 1 {
				p = 1
			}
			hm, dup := caseStats(m.corpus, m.asg, ref)
			multiPage := len(ref) > p
			nontrivial := hm >= 2 && dup >= 1 && multiPage
			labels := []string{"primary-" + kind, fmt.Sprintf("holders-%d", m.k)}
			if len(attrs) == 0 {
				labels = append(labels, "id-ordered")
			} else if len(q.Filters) > 0 && len(q.Attrs) == 0 {
				labels = append(labels, "attributeless-forced-primary")
			}
			if multiPage {
				labels = append(labels, "multi-page")
			}
			if dup >= 1 {
				labels = append(labels, "dup-across-holders")
			}
			if hm >= 2 {
				labels = append(labels, "matches-on->=2-holders")
			}
			if len(ref) == 0 {
				labels = append(labels, "matches-0")
			}
			tie := false
			if len(attrs) > 0 && len(q.Filters) > 0 {
				for i := 1; i < len(ref); i++ {
					if i%p == 0 && len(ref[i].Attrs) > 0 && ref[i].Attrs[0] == ref[i-1].Attrs[0] {
						tie = true
					}
				}
			}
			if tie {
				labels = append(labels, "page-break-on-equal-primary")
			}
			asgJS, _ := json.Marshal(m.asg)
			rec.Case(nontrivial, fmt.Sprintf("%s|%s|%s|%s|%d", m.name, m.cjs, asgJS, q, p), labels...)
			if nontrivial && rec.WantSample() {
				rec.Sample(map[string]any{"reach": m.name, "corpus": m.corpus, "holders": m.asg, "query": q, "page": p, "matches": len(ref)})
			}
			got, pages, perr := paginate(f, q, attrs, uint16(p), len(ref)+3)
			if perr != nil {
				what := "search failed"
				if perr.prep {
					what = "cursor returned by the node was NOT ACCEPTED by PreprocessSearchQuery"
				}
				t.Fatalf("[%s] %s: page %d (cursor %q, count %d): %v\nquery: %s (effective attrs %q)\nholders: %s\ncorpus: %s\nunion result:%s\ngot so far:%s",
					m.name, what, perr.page, perr.cursor, p, perr.err, q, attrs, asgJS, m.cjs, fmtItems(ref), fmtItems(got))
			}
			if d := diffItems(ref, got, !stripped); d != "" {
				t.Fatalf("[%s] merged listing differs from the search over the union: %s\nquery: %s (effective attrs %q)\npage size %d (%d pages), %d holders\nholders: %s\ncorpus: %s\nunion result:%s\nmerged:%s",
					m.name, d, q, attrs, p, pages, m.k, asgJS, m.cjs, fmtItems(ref), fmtItems(got))
			}
			if stripped {
				for i := range got {
					if len(got[i].Attrs) != 0 {
						t.Fatalf("[%s] attributes returned although none requested: %q", m.name, got[i].Attrs)
					}
				}
			}
		}
	}
}

func TestC04Engine(t *testing.T) {
	rec := ev.New("C04", "engine")
	defer rec.Flush()
	rapid.Check(t, func(t *rapid.T) {
		c := searchgen.Gen(searchgen.GenOpts{MoreAssociates: true, DeleteOnlyRegular: true}).Draw(t, "corpus")
		k := rapid.SampledFrom([]int{1, 2, 2, 3, 3, 4}).Draw(t, "shards")
		asg := assignment(t, &c, k)
		ep := &stor.Epoch{}
		dir, err := os.MkdirTemp("", "c04eng")
		if err != nil {
			ev.Inconclusive("tmp: %v", err)
		}
		defer os.RemoveAll(dir)
		cfgs := make([]stor.ShardCfg, k)
		for i := range cfgs {
			cfgs[i] = stor.ShardCfg{Dir: fmt.Sprintf("%s/s%d", dir, i), Epoch: ep}
		}
		eng, err := stor.OpenEngine(cfgs)
		if err != nil {
			ev.Inconclusive("open engine: %v", err)
		}
		defer eng.E.Close()
		shards := eng.E.VerifShards()
		if len(shards) != k {
			ev.Inconclusive("engine has %d shards, want %d", len(shards), k)
		}
		for i, id := range eng.IDs {
			sh := shards[id.String()]
			if sh == nil {
				ev.Inconclusive("shard %s not found", id)
			}
			loadPositions(shardStore(sh), &c, asg[i])
		}
		union, closeUnion := openUnion(&c, ep)
		defer closeUnion()
		ep.Set(c.Epoch)
		cnr := uni.Cnr(c.Cnr)
		cjs, _ := json.Marshal(c)
		m := &mergedRun{name: "engine", k: k, asg: asg, corpus: &c, cjs: cjs, union: union, view: c.View(), queries: 8}
		m.search = func(q refsearch.Query) (searchFn, []string, bool) {
			return func(ofs []objectcore.SearchFilter, attrs []string, cur *objectcore.SearchCursor, count uint16) ([]client.SearchResultItem, []byte, error) {
				return eng.E.Search(context.Background(), cnr, ofs, attrs, cur, count)
			}, q.Attrs, false
		}
		m.run(t, rec)
	})
}

// processSearch re-enacts the default (multi-node) branch of
// Server.ProcessSearch for already preprocessed arguments: node 0 is the local
// node (engine search result as is), the others are remote nodes whose
// responses went through the localOnly branch of the same function (attributes
// stripped for attribute-less K=V queries).
func processSearch(nodes []*meta.DB, cnr cid.ID, q refsearch.Query, body []string, ofs []objectcore.SearchFilter, attrs []string,
	cursor *objectcore.SearchCursor, count uint16) ([]client.SearchResultItem, []byte, error) {
	filteredAttributeless := len(body) == 0 && len(q.Filters) > 0
	fs := q.SDK()
	firstEQ := len(q.Filters) > 0 && q.Filters[0].Op == object.MatchStringEqual
	var sets [][]client.SearchResultItem
	var mores []bool
	for i, n := range nodes {
		set, crsr, err := n.Search(cnr, ofs, attrs, cursor, count)
		if err != nil {
			return nil, nil, fmt.Errorf("node %d: %w", i, err)
		}
		if i > 0 && filteredAttributeless && firstEQ {
			for j := range set {
				set[j].Attributes = nil
			}
		}
		sets = append(sets, set)
		mores = append(mores, crsr != nil)
	}
	var (
		firstAttr   string
		firstFilter *object.SearchFilter
	)
	if len(attrs) > 0 {
		firstFilter = &ofs[0].SearchFilter
		if !firstEQ {
			firstAttr = fs[0].Header()
		}
	}
	cmpInt := firstAttr != "" && objectcore.IsIntegerSearchOp(fs[0].Operation())
	res, more, err := objectcore.MergeSearchResults(count, firstAttr, cmpInt, sets, mores)
	if err != nil {
		return nil, nil, fmt.Errorf("merge results from container nodes: %w", err)
	}
	var newCursor []byte
	if more {
		if filteredAttributeless && firstEQ {
			res[len(res)-1].Attributes = []string{q.Filters[0].Val}
		}
		if newCursor, err = objectcore.CalculateCursor(firstFilter, res[len(res)-1]); err != nil {
			return nil, nil, fmt.Errorf("recalculate cursor: %w", err)
		}
	}
	if filteredAttributeless {
		for i := range res {
			res[i].Attributes = nil
		}
	}
	return res, newCursor, nil
}

func TestC04Nodes(t *testing.T) {
	rec := ev.New("C04", "nodes")
	defer rec.Flush()
	rapid.Check(t, func(t *rapid.T) {
		c := searchgen.Gen(searchgen.GenOpts{MoreAssociates: true, DeleteOnlyRegular: true}).Draw(t, "corpus")
		k := rapid.SampledFrom([]int{2, 2, 3, 3, 4}).Draw(t, "nodes")
		asg := assignment(t, &c, k)
		ep := &stor.Epoch{}
		dir, err := os.MkdirTemp("", "c04nodes")
		if err != nil {
			ev.Inconclusive("tmp: %v", err)
		}
		defer os.RemoveAll(dir)
		nodes := make([]*meta.DB, k)
		for i := range nodes {
			db, err := stor.OpenMeta(fmt.Sprintf("%s/n%d", dir, i), ep)
			if err != nil {
				ev.Inconclusive("open node metabase: %v", err)
			}
			defer db.Close()
			nodes[i] = db
			loadPositions(dbStore(db), &c, asg[i])
		}
		union, closeUnion := openUnion(&c, ep)
		defer closeUnion()
		ep.Set(c.Epoch)
		cnr := uni.Cnr(c.Cnr)
		cjs, _ := json.Marshal(c)
		m := &mergedRun{name: "nodes", k: k, asg: asg, corpus: &c, cjs: cjs, union: union, view: c.View(), queries: 10}
		m.search = func(q refsearch.Query) (searchFn, []string, bool) {
			attrs := q.Attrs
			stripped := false
			if len(q.Attrs) == 0 && len(q.Filters) > 0 {
				attrs = []string{q.Filters[0].Key}
				stripped = true
			}
			body := q.Attrs
			return func(ofs []objectcore.SearchFilter, attrs []string, cur *objectcore.SearchCursor, count uint16) ([]client.SearchResultItem, []byte, error) {
				return processSearch(nodes, cnr, q, body, ofs, attrs, cur, count)
			}, attrs, stripped
		}
		m.run(t, rec)
	})
}

// ---- pure merge test ----

type simNode struct {
	items []refsearch.Item // in reference order
	keys  [][]byte         // reference index keys (parallel)
}

// after returns the node's items positioned after the cursor key (bbolt Seek
// semantics: first key >= cursor, skipping an exact hit).
func (n *simNode) after(cursor []byte) []refsearch.Item {
	if cursor == nil {
		return n.items
	}
	i := sort.Search(len(n.keys), func(i int) bool { return bytes.Compare(n.keys[i], cursor) >= 0 })
	if i < len(n.keys) && bytes.Equal(n.keys[i], cursor) {
		i++
	}
	return n.items[i:]
}

func TestC04MergePure(t *testing.T) {
	rec := ev.New("C04", "merge-pure")
	defer rec.Flush()
	rapid.Check(t, func(t *rapid.T) {
		c := searchgen.Gen(searchgen.GenOpts{MoreAssociates: true, DeleteOnlyRegular: true}).Draw(t, "corpus")
		view := c.View()
		k := rapid.SampledFrom([]int{2, 2, 3, 3, 4}).Draw(t, "nodes")
		asg := assignment(t, &c, k)
		cjs, _ := json.Marshal(c)
		asgJS, _ := json.Marshal(asg)
		byID := map[oid.ID]refsearch.Obj{}
		for _, o := range view {
			byID[o.ID] = o
		}
		for qi := 0; qi < 6; qi++ {
			q, kind := drawQuery(t, rec, view, fmt.Sprintf("q%d", qi), true)
			if len(q.Filters) > 0 && len(q.Attrs) == 0 {
				q.Attrs = []string{q.Filters[0].Key}
			}
			if openC03(view, q) {
				rec.Excluded(1)
				continue
			}
			union := refsearch.Search(view, q)
			nodes := make([]*simNode, k)
			for h := range nodes {
				nodes[h] = &simNode{}
				for _, it := range refsearch.Search(c.ViewOf(asg[h]), q) {
					nodes[h].items = append(nodes[h].items, it)
					nodes[h].keys = append(nodes[h].keys, refsearch.IndexKey(byID[it.ID], q))
				}
			}
			p := rapid.SampledFrom([]int{1, 1, 2, 2, 3, 5, len(union), len(union) + 1}).Draw(t, "page")
			if p < 1 {
				p = 1
			}
			firstAttr := ""
			var firstFilter *object.SearchFilter
			fs := q.SDK()
			useEQShortcut := rapid.Bool().Draw(t, "server-eq-shortcut")
			if len(q.Attrs) > 0 && len(q.Filters) > 0 {
				firstFilter = &fs[0]
				firstAttr = q.Filters[0].Key
				if useEQShortcut && q.Filters[0].Op == object.MatchStringEqual {
					firstAttr = ""
				}
			}
			cmpInt := firstAttr != "" && refsearch.IsNumeric(q.Filters[0].Op)
			multiPage := len(union) > p
			dup := 0
			cnt := map[oid.ID]int{}
			hm := 0
			for _, n := range nodes {
				if len(n.items) > 0 {
					hm++
				}
				for _, it := range n.items {
					cnt[it.ID]++
				}
			}
			for _, v := range cnt {
				if v > 1 {
					dup++
				}
			}
			labels := []string{"primary-" + kind}
			if multiPage {
				labels = append(labels, "multi-page")
			}
			rec.Case(hm >= 2 && dup >= 1 && multiPage, fmt.Sprintf("pure|%s|%s|%s|%d", cjs, asgJS, q, p), labels...)
			fail := func(format string, a ...any) {
				t.Fatalf("[merge-pure] "+format+"\nquery: %s\npage %d, nodes %s\ncorpus: %s\nunion:%s", append(a, q, p, asgJS, cjs, fmtItems(union))...)
			}
			var cursor []byte
			var got []refsearch.Item
			ok := true
			for page := 0; ok; page++ {
				if page > len(union)+3 {
					fail("listing does not terminate")
					ok = false
					break
				}
				var sets [][]client.SearchResultItem
				var mores []bool
				for _, n := range nodes {
					rest := n.after(cursor)
					m := len(rest) > p
					if m {
						rest = rest[:p]
					}
					set := make([]client.SearchResultItem, len(rest))
					for i, it := range rest {
						set[i] = client.SearchResultItem{ID: it.ID, Attributes: append([]string(nil), it.Attrs...)}
					}
					sets = append(sets, set)
					mores = append(mores, m)
				}
				res, more, err := objectcore.MergeSearchResults(uint16(p), firstAttr, cmpInt, sets, mores)
				if err != nil {
					fail("MergeSearchResults: %v", err)
					ok = false
					break
				}
				for _, it := range res {
					got = append(got, refsearch.Item{ID: it.ID, Attrs: it.Attributes})
				}
				if !more {
					break
				}
				if len(res) == 0 {
					fail("more=true with an empty page")
					ok = false
					break
				}
				cur, err := objectcore.CalculateCursor(firstFilter, res[len(res)-1])
				if err != nil {
					fail("CalculateCursor: %v", err)
					ok = false
					break
				}
				// the cursor must be accepted by the public validator ...
				if _, _, err := objectcore.PreprocessSearchQuery(fs, q.Attrs, base64.StdEncoding.EncodeToString(cur)); err != nil {
					fail("cursor %x not accepted: %v", cur, err)
					ok = false
					break
				}
				cursor = cur
			}
			if !ok {
				continue
			}
			if d := diffItems(union, got, true); d != "" {
				fail("merged listing differs from union: %s\nmerged:%s", d, fmtItems(got))
			}
		}
	})
}

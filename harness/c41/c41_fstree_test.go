package c41

import (
	"bytes"
	"io"
	"os"
	"testing"
	"time"

	"github.com/klauspost/compress/zstd"
	iobject "github.com/nspcc-dev/neofs-node/internal/object"
	"github.com/nspcc-dev/neofs-node/pkg/local_object_storage/blobstor/common"
	"github.com/nspcc-dev/neofs-node/pkg/local_object_storage/blobstor/fstree"
	"github.com/nspcc-dev/neofs-node/verifharness/ev"
	"github.com/nspcc-dev/neofs-node/verifharness/genobj"
	oid "github.com/nspcc-dev/neofs-sdk-go/object/id"
	"pgregory.net/rapid"
)

// TestC41FSTree: the header-only read paths of FSTree (Head, ReadHeader,
// ReadObject, GetStream – all built on the wire fast paths) agree with the
// full read (Get / GetBytes) and with full decoding of the stored bytes, for
// objects stored singly, in a combined (batch) file, and zstd-compressed.
// (Property C10 owns the map semantics of FSTree; here only header/full agreement.)
func TestC41FSTree(t *testing.T) {
	rec := ev.New("C41", "fstree")
	defer rec.Flush()
	root, err := os.MkdirTemp("", "c41-fstree-")
	if err != nil {
		ev.Inconclusive("mkdtemp: %v", err)
	}
	defer os.RemoveAll(root)
	enc, err := zstd.NewWriter(nil)
	if err != nil {
		ev.Inconclusive("zstd: %v", err)
	}
	mk := func(sub string, opts ...fstree.Option) *fstree.FSTree {
		f := fstree.New(append([]fstree.Option{fstree.WithPath(root + "/" + sub), fstree.WithDepth(2), fstree.WithNoSync(true)}, opts...)...)
		if err := f.Open(false); err != nil {
			ev.Inconclusive("fstree open: %v", err)
		}
		if err := f.Init(common.ID{}); err != nil {
			ev.Inconclusive("fstree init: %v", err)
		}
		return f
	}
	// combined: small objects go to combined-format files (even a single Put);
	// plain: one file per object.
	trees := map[string]*fstree.FSTree{
		"combined": mk("c", fstree.WithCombinedWriteInterval(20*time.Microsecond)),
		"plain":    mk("p", fstree.WithCombinedCountLimit(1)),
	}
	defer trees["combined"].Close()
	defer trees["plain"].Close()

	rapid.Check(t, func(t *rapid.T) {
		layout := rapid.SampledFrom([]string{"combined", "combined", "plain"}).Draw(t, "layout")
		fst := trees[layout]
		n := 1
		batch := rapid.IntRange(0, 3).Draw(t, "batch") == 0
		if batch {
			n = rapid.IntRange(1, 4).Draw(t, "batchN")
		}
		type stored struct {
			addr oid.Address
			e    []byte
			r    *ref
			kind string
			zst  bool
		}
		var objs []stored
		seen := map[oid.Address]bool{}
		for i := 0; i < n; i++ {
			g := genobj.WithKind(genobj.Opts{}).Draw(t, "obj")
			obj := g.Obj
			if obj.GetID().IsZero() {
				obj.SetID(genobj.PoolID(i)) // stored objects always have an address
			}
			addr := obj.Address()
			if seen[addr] {
				continue
			}
			seen[addr] = true
			e := obj.Marshal()
			r, err := mkRef(e)
			if err != nil {
				t.Fatalf("harness: %v", err)
			}
			objs = append(objs, stored{addr: addr, e: e, r: r, kind: g.Kind, zst: rapid.IntRange(0, 3).Draw(t, "zstd") == 0})
		}
		defer func() {
			for _, o := range objs {
				_ = fst.Delete(o.addr)
			}
		}()
		raw := func(o stored) []byte {
			if o.zst {
				return enc.EncodeAll(o.e, nil)
			}
			return o.e
		}
		if batch {
			m := map[oid.Address][]byte{}
			for _, o := range objs {
				m[o.addr] = raw(o)
			}
			if err := fst.PutBatch(m); err != nil {
				t.Fatalf("PutBatch: %v", err)
			}
		} else if err := fst.Put(objs[0].addr, raw(objs[0])); err != nil {
			t.Fatalf("Put: %v", err)
		}

		for _, o := range objs {
			labels := []string{"kind:" + o.kind, "layout:" + layout}
			if batch {
				labels = append(labels, "batch")
			} else {
				labels = append(labels, "single")
			}
			if o.zst {
				labels = append(labels, "zstd")
			}
			big := len(raw(o)) >= iobject.NonPayloadFieldsBufferLength
			if big {
				labels = append(labels, "streamed(>=20K)")
			}
			rec.Case(big || o.zst || batch || o.r.hasSplit, fp(o.e[:min(len(o.e), o.r.npEnd+16)]), labels...)
			if rec.WantSample() {
				rec.Sample(map[string]any{"labels": labels, "len": len(o.e), "stored": len(raw(o))})
			}
			wantHdr := o.r.full.CutPayload().Marshal()

			full, err := fst.GetBytes(o.addr)
			if err != nil {
				t.Fatalf("GetBytes: %v", err)
			}
			if !bytes.Equal(full, o.e) {
				t.Fatalf("GetBytes returned %d bytes, stored object has %d", len(full), len(o.e))
			}

			hdr, err := fst.Head(o.addr)
			if err != nil {
				t.Fatalf("Head: %v (labels %v, len %d)", err, labels, len(o.e))
			}
			if !bytes.Equal(hdr.Marshal(), wantHdr) {
				t.Fatalf("Head differs from the fully decoded object without payload (labels %v)", labels)
			}

			shdr, rd, err := fst.GetStream(o.addr)
			if err != nil {
				t.Fatalf("GetStream: %v (labels %v)", err, labels)
			}
			pld, rerr := io.ReadAll(rd)
			_ = rd.Close()
			if rerr != nil {
				t.Fatalf("GetStream read: %v", rerr)
			}
			if !bytes.Equal(shdr.Marshal(), wantHdr) || !bytes.Equal(pld, o.r.full.Payload()) {
				t.Fatalf("GetStream header/payload differ from full decoding (labels %v, payload %d vs %d)", labels, len(pld), len(o.r.full.Payload()))
			}

			buf := make([]byte, 2*iobject.NonPayloadFieldsBufferLength)
			nh, err := fst.ReadHeader(o.addr, buf)
			if err != nil {
				t.Fatalf("ReadHeader: %v (labels %v)", err, labels)
			}
			if nh > len(o.e) || !bytes.Equal(buf[:nh], o.e[:nh]) {
				t.Fatalf("ReadHeader bytes are not a prefix of the stored object (n=%d, labels %v)", nh, labels)
			}
			if nh < o.r.npEnd {
				t.Fatalf("ReadHeader returned %d bytes, the header ends at %d (labels %v)", nh, o.r.npEnd, labels)
			}
			// callers immediately feed the prefix to the fast paths
			checkNPB(t, o.r, nh)
			checkParentTop(t, o.r, nh)
			if nh == len(o.e) || nh >= o.r.pldFrom {
				checkExtract(t, o.r, nh)
			}

			buf2 := make([]byte, 2*iobject.NonPayloadFieldsBufferLength)
			no, stream, err := fst.ReadObject(o.addr, buf2)
			if err != nil {
				t.Fatalf("ReadObject: %v (labels %v)", err, labels)
			}
			tail, rerr := io.ReadAll(stream)
			_ = stream.Close()
			if rerr != nil {
				t.Fatalf("ReadObject stream: %v", rerr)
			}
			if got := append(append([]byte(nil), buf2[:no]...), tail...); !bytes.Equal(got, o.e) {
				t.Fatalf("ReadObject prefix+stream = %d bytes differ from stored object (%d bytes, labels %v)", len(got), len(o.e), labels)
			}
		}
	})
}

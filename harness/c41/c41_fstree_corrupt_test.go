package c41

import (
	"bytes"
	"encoding/binary"
	"fmt"
	"io"
	"os"
	"path/filepath"
	"testing"

	"github.com/klauspost/compress/zstd"
	iobject "github.com/nspcc-dev/neofs-node/internal/object"
	"github.com/nspcc-dev/neofs-node/pkg/local_object_storage/blobstor/common"
	"github.com/nspcc-dev/neofs-node/pkg/local_object_storage/blobstor/fstree"
	"github.com/nspcc-dev/neofs-node/verifharness/ev"
	"github.com/nspcc-dev/neofs-node/verifharness/genobj"
	"github.com/nspcc-dev/neofs-sdk-go/object"
	oid "github.com/nspcc-dev/neofs-sdk-go/object/id"
	"pgregory.net/rapid"
)

// History: this test found "Head/ReadHeader/ReadObject/GetStream dereference a
// nil stream when the combined-file entry of the requested object has length 0"
// (fixed in the repository by 3a6cd6b, known_findings.json
// C41:fstree-head-nil-stream-on-zero-length-combined-entry). The class is
// generated and asserted like any other.
const (
	combPrefixLen = 2 + oid.Size + 4
)

func combEntry(id oid.ID, l uint32, data []byte) []byte {
	b := []byte{0x7f, 0}
	b = append(b, id[:]...)
	b = binary.BigEndian.AppendUint32(b, l)
	return append(b, data...)
}

// targetEntry walks the file as a combined file (the way the readers do: skip
// `length` bytes after every foreign entry) and returns the claimed length of
// the first entry for id.
func targetEntry(file []byte, id oid.ID) (found bool, l uint32) {
	off := uint64(0)
	for uint64(len(file)) >= off+combPrefixLen && file[off] == 0x7f && file[off+1] == 0 {
		l := binary.BigEndian.Uint32(file[off+2+oid.Size:])
		if bytes.Equal(file[off+2:off+2+oid.Size], id[:]) {
			return true, l
		}
		off += combPrefixLen + uint64(l)
	}
	return false, 0
}

// maxClaimedLen: the full readers (Get/GetBytes) allocate the claimed entry
// length before reading (up to 4 GiB for a damaged length field). That is
// outside C41 (and would exhaust the shared machine), so full reads are skipped
// for such files; the header-only readers are still exercised.
const maxClaimedLen = 8 << 20

// TestC41FSTreeCorrupt: stored files with damaged bytes (combined-file
// prefixes, lengths, zstd frames, object bytes, truncation). The header-only
// readers must return normally (value or error) and, whenever they and the full
// reader both succeed, return the same bytes / the same header.
func TestC41FSTreeCorrupt(t *testing.T) {
	rec := ev.New("C41", "fstree-corrupt")
	defer rec.Flush()
	root, err := os.MkdirTemp("", "c41-fstree-corrupt-")
	if err != nil {
		ev.Inconclusive("mkdtemp: %v", err)
	}
	defer os.RemoveAll(root)
	enc, err := zstd.NewWriter(nil)
	if err != nil {
		ev.Inconclusive("zstd: %v", err)
	}
	fst := fstree.New(fstree.WithPath(root), fstree.WithDepth(1), fstree.WithNoSync(true))
	if err := fst.Open(false); err != nil {
		ev.Inconclusive("fstree open: %v", err)
	}
	if err := fst.Init(common.ID{}); err != nil {
		ev.Inconclusive("fstree init: %v", err)
	}
	defer fst.Close()

	rapid.Check(t, func(t *rapid.T) {
		obj := genobj.Object(genobj.Opts{MaxPayload: rapid.SampledFrom([]int{200, 200, 30000}).Draw(t, "maxPld")}).Draw(t, "obj")
		if obj.GetID().IsZero() {
			obj.SetID(genobj.PoolID(0))
		}
		addr := obj.Address()
		id := addr.Object()
		e := obj.Marshal()
		stored := e
		labels := []string{}
		if rapid.IntRange(0, 3).Draw(t, "zstd") == 0 {
			stored = enc.EncodeAll(e, nil)
			labels = append(labels, "zstd")
		}
		// layout: plain file or combined file with the target at position 0..2
		var file []byte
		hot := 64 // where mutations concentrate
		if rapid.IntRange(0, 2).Draw(t, "combined") > 0 {
			labels = append(labels, "combined")
			before := rapid.IntRange(0, 2).Draw(t, "before")
			for i := 0; i < before; i++ {
				other := genobj.Fill(uint64(i)+1, rapid.SampledFrom([]int{1, 50, 3000, 21000}).Draw(t, "otherLen"))
				file = append(file, combEntry(genobj.PoolID(5+i), uint32(len(other)), other)...)
			}
			hot = len(file) + combPrefixLen + 40
			l := uint32(len(stored))
			switch rapid.IntRange(0, 7).Draw(t, "lenLie") {
			case 0:
				l = rapid.SampledFrom([]uint32{0, 1, l - 1, l + 1, 1 << 20, 1 << 31, 1<<32 - 1, 20480, 20479}).Draw(t, "badLen")
				labels = append(labels, "length-lie")
			}
			file = append(file, combEntry(id, l, stored)...)
			if rapid.Bool().Draw(t, "after") {
				file = append(file, combEntry(genobj.PoolID(9), 3, []byte{1, 2, 3})...)
			}
		} else {
			labels = append(labels, "plain")
			file = append(file, stored...)
		}
		if rapid.IntRange(0, 4).Draw(t, "mutate") > 0 {
			file = mutateBytes(t, file, min(hot, len(file)))
			labels = append(labels, "mutated")
		}
		if len(file) == 0 {
			file = []byte{0}
		}
		found, claimed := targetEntry(file, id)
		zl := found && claimed == 0
		skipFull := found && claimed > maxClaimedLen
		if skipFull {
			labels = append(labels, "huge-claimed-length(full-read-skipped)")
		}
		if zl {
			labels = append(labels, "zero-length-target-entry")
		}
		changed := !bytes.Equal(file, stored)
		rec.Case(changed, fp(file[:min(len(file), 2048)]), labels...)
		if rec.WantSample() {
			rec.Sample(map[string]any{"labels": labels, "len": len(file), "head": fmt.Sprintf("%x", file[:min(len(file), 48)])})
		}

		s := id.EncodeToString() + "." + addr.Container().EncodeToString()
		p := filepath.Join(root, s[:1], s[1:])
		if err := os.MkdirAll(filepath.Dir(p), 0o700); err != nil {
			ev.Inconclusive("mkdir: %v", err)
		}
		if err := os.WriteFile(p, file, 0o600); err != nil {
			ev.Inconclusive("write: %v", err)
		}
		defer os.Remove(p)

		guard := func(what string, f func()) (panicked bool) {
			defer func() {
				if r := recover(); r != nil {
					panicked = true
					t.Fatalf("PANIC in %s: %v; labels %v; file (%d bytes) %x", what, r, labels, len(file), clip(file))
				}
			}()
			f()
			return false
		}

		var full []byte
		var fullErr error
		if skipFull {
			fullErr = fmt.Errorf("skipped")
		} else {
			guard("GetBytes", func() { full, fullErr = fst.GetBytes(addr) })
			guard("Get", func() { _, _ = fst.Get(addr) })
		}
		_, canonical := canonicalObject(full)
		if fullErr == nil {
			labels = append(labels, "full-ok")
		}

		var hdr *object.Object
		var hErr error
		guard("Head", func() { hdr, hErr = fst.Head(addr) })
		if hErr == nil && hdr == nil {
			t.Fatalf("Head returned neither a header nor an error; labels %v file %x", labels, clip(file))
		}
		if fullErr == nil && canonical {
			// the file still holds a canonical object: header-only read must work and agree
			var o object.Object
			_ = o.Unmarshal(full)
			if hErr != nil {
				t.Fatalf("Head failed (%v) although GetBytes returns a canonical object; labels %v file %x", hErr, labels, clip(file))
			}
			if !bytes.Equal(hdr.Marshal(), o.CutPayload().Marshal()) {
				t.Fatalf("Head differs from Get on a canonical stored object; labels %v file %x", labels, clip(file))
			}
			rec.Label("corrupt:still-canonical")
		}

		var shdr *object.Object
		var rd io.ReadCloser
		var sErr error
		guard("GetStream", func() { shdr, rd, sErr = fst.GetStream(addr) })
		if sErr == nil && rd != nil {
			var pld []byte
			var rErr error
			guard("GetStream.Read", func() { pld, rErr = io.ReadAll(rd); _ = rd.Close() })
			if rErr == nil && fullErr == nil && canonical {
				var o object.Object
				_ = o.Unmarshal(full)
				if !bytes.Equal(shdr.Marshal(), o.CutPayload().Marshal()) || !bytes.Equal(pld, o.Payload()) {
					t.Fatalf("GetStream differs from Get on a canonical stored object; labels %v file %x", labels, clip(file))
				}
			}
		}

		buf := make([]byte, 2*iobject.NonPayloadFieldsBufferLength)
		var n int
		var stream io.ReadCloser
		var oErr error
		guard("ReadObject", func() { n, stream, oErr = fst.ReadObject(addr, buf) })
		if oErr == nil && stream != nil {
			var tail []byte
			var rErr error
			guard("ReadObject.Read", func() { tail, rErr = io.ReadAll(stream); _ = stream.Close() })
			if rErr == nil && fullErr == nil {
				if got := append(append([]byte(nil), buf[:n]...), tail...); !bytes.Equal(got, full) {
					t.Fatalf("ReadObject prefix+stream (%d bytes) differs from GetBytes (%d bytes); labels %v file %x", len(got), len(full), labels, clip(file))
				}
				rec.Label("corrupt:readobject-vs-getbytes-compared")
			}
		}
		buf2 := make([]byte, 2*iobject.NonPayloadFieldsBufferLength)
		var nh int
		var rhErr error
		guard("ReadHeader", func() { nh, rhErr = fst.ReadHeader(addr, buf2) })
		if rhErr == nil && fullErr == nil && (nh > len(full) || !bytes.Equal(buf2[:nh], full[:nh])) {
			t.Fatalf("ReadHeader bytes are not a prefix of GetBytes; labels %v file %x", labels, clip(file))
		}
		if rhErr == nil {
			// callers feed the prefix straight into the wire fast paths
			checkArbitrary(t, buf2[:nh], doBounds)
		}
	})
}

// Package c41 decides property C41: the fast header parsers of
// internal/object/wire.go (and FSTree Head/ReadHeader built on them) agree with
// full decoding of the object and never panic on malformed input.
//
// Oracle (reference side is written here with protowire only, it does not call
// the code under test or the SDK seekers):
//   - canonical encodings E = obj.Marshal(): the header object returned by the
//     fast path re-marshals to exactly the non-payload bytes of E, the payload
//     prefix is a prefix of the payload, field bounds equal the positions found
//     by an independent protowire walk, parent bounds rebuild the parent object,
//     payload length / type equal the decoded header's;
//   - every prefix E[:c] (what callers really pass: the first N bytes of a
//     stored object): the result is decided by cases from the field layout of E
//     – success with the same values when everything the function has to look
//     at lies inside the prefix, success with "missing" when the prefix ends on
//     a field boundary before the wanted field, error when the cut is inside a
//     field the function must traverse; never a panic, never different values;
//   - arbitrary bytes (mutations, protowire-built reordered / repeated / alien
//     fields): returns normally; reported bounds lie inside the buffer and
//     delimit a LEN field with the right number; a success on a canonical input
//     agrees with full decoding.
package c41

import (
	"bytes"
	"fmt"
	"io"
	"testing"

	iobject "github.com/nspcc-dev/neofs-node/internal/object"
	"github.com/nspcc-dev/neofs-node/verifharness/ev"
	"github.com/nspcc-dev/neofs-node/verifharness/genobj"
	"github.com/nspcc-dev/neofs-sdk-go/object"
	iprotobuf "github.com/nspcc-dev/neofs-sdk-go/proto/protobuf"
	"google.golang.org/protobuf/encoding/protowire"
	"pgregory.net/rapid"
)

// ---------- independent reference walk ----------

type field struct {
	num               protowire.Number
	typ               protowire.Type
	start, vfrom, end int    // tag start, value start (after tag and length), end
	u                 uint64 // varint value
}

// walk splits b into its fields with protowire only. ok=false if b is not a
// well-formed sequence of fields.
func walk(b []byte) (fs []field, ok bool) {
	off := 0
	for off < len(b) {
		num, typ, n := protowire.ConsumeTag(b[off:])
		if n < 0 {
			return fs, false
		}
		f := field{num: num, typ: typ, start: off}
		off += n
		switch typ {
		case protowire.BytesType:
			l, m := protowire.ConsumeVarint(b[off:])
			if m < 0 || l > uint64(len(b)-off-m) {
				return fs, false
			}
			f.vfrom = off + m
			f.end = f.vfrom + int(l)
		case protowire.VarintType:
			v, m := protowire.ConsumeVarint(b[off:])
			if m < 0 {
				return fs, false
			}
			f.u, f.vfrom, f.end = v, off, off+m
		default:
			m := protowire.ConsumeFieldValue(num, typ, b[off:])
			if m < 0 {
				return fs, false
			}
			f.vfrom, f.end = off, off+m
		}
		off = f.end
		fs = append(fs, f)
	}
	return fs, true
}

func find(fs []field, num protowire.Number) (field, bool) {
	for _, f := range fs {
		if f.num == num {
			return f, true
		}
	}
	return field{}, false
}

func (f field) bounds(base int) iprotobuf.FieldBounds {
	return iprotobuf.FieldBounds{From: base + f.start, ValueFrom: base + f.vfrom, To: base + f.end}
}

// ref is the layout of one canonical encoding.
type ref struct {
	e    []byte
	top  []field
	full object.Object
	// non-payload end (end of the last of fields 1..3) and payload value start
	npEnd, pldFrom int
	hasPld         bool
	hasHdr         bool
	hf             field   // header field in e
	h              []byte  // header bytes
	hfs            []field // header fields
	hasSplit       bool
	sf             field // split field in h
	// parent bounds relative to h (zero if absent)
	pid, psig, phdr iprotobuf.FieldBounds
}

func mkRef(e []byte) (*ref, error) {
	r := &ref{e: e}
	var ok bool
	if r.top, ok = walk(e); !ok {
		return nil, fmt.Errorf("reference walk failed on a canonical encoding")
	}
	if err := r.full.Unmarshal(e); err != nil {
		return nil, fmt.Errorf("full decoding failed: %w", err)
	}
	var prev protowire.Number
	for _, f := range r.top {
		if f.num <= prev || f.num > 4 || f.typ != protowire.BytesType {
			return nil, fmt.Errorf("not canonical: field %d after %d", f.num, prev)
		}
		prev = f.num
		if f.num == 4 {
			r.hasPld, r.pldFrom = true, f.vfrom
		} else {
			r.npEnd = f.end
		}
		if f.num == 3 {
			r.hasHdr, r.hf = true, f
			r.h = e[f.vfrom:f.end]
		}
	}
	if r.hasHdr {
		if r.hfs, ok = walk(r.h); !ok {
			return nil, fmt.Errorf("reference walk failed on header")
		}
		if r.sf, r.hasSplit = find(r.hfs, 11); r.hasSplit {
			s := r.h[r.sf.vfrom:r.sf.end]
			sfs, ok := walk(s)
			if !ok {
				return nil, fmt.Errorf("reference walk failed on split header")
			}
			if f, ok := find(sfs, 1); ok {
				r.pid = f.bounds(r.sf.vfrom)
			}
			if f, ok := find(sfs, 3); ok {
				r.psig = f.bounds(r.sf.vfrom)
			}
			if f, ok := find(sfs, 4); ok {
				r.phdr = f.bounds(r.sf.vfrom)
			}
		}
	}
	return r, nil
}

func shift(f iprotobuf.FieldBounds, d int) iprotobuf.FieldBounds {
	if f == (iprotobuf.FieldBounds{}) {
		return f
	}
	return iprotobuf.FieldBounds{From: f.From + d, ValueFrom: f.ValueFrom + d, To: f.To + d}
}

// seek outcome of "walk fields in ascending order until number n" over the
// prefix [:c] of a canonical message with fields fs.
type seekRes int

const (
	seekMissing seekRes = iota
	seekFound           // field fully inside the prefix
	seekErr
)

func seekRef(fs []field, n protowire.Number, c int) (seekRes, field) {
	for _, f := range fs {
		if c == f.start {
			return seekMissing, field{}
		}
		if c < f.start { // cannot happen: previous field would have caught it
			return seekErr, field{}
		}
		if f.num == n {
			if c >= f.end {
				return seekFound, f
			}
			return seekErr, field{}
		}
		tagLen := protowire.SizeVarint(protowire.EncodeTag(f.num, f.typ))
		if f.num > n {
			if c >= f.start+tagLen {
				return seekMissing, field{}
			}
			return seekErr, field{}
		}
		if c < f.end {
			return seekErr, field{}
		}
	}
	return seekMissing, field{}
}

// ---------- calling the code under test without letting a panic escape unnoticed ----------

func noPanic(t interface{ Fatalf(string, ...any) }, what string, in []byte, f func()) {
	defer func() {
		if p := recover(); p != nil {
			t.Fatalf("PANIC in %s on %d-byte input %x: %v", what, len(in), clip(in), p)
		}
	}()
	f()
}

func clip(b []byte) []byte {
	if len(b) > 200 {
		return b[:200]
	}
	return b
}

// saneBounds: a non-missing FieldBounds must delimit a LEN field with number num inside buf.
func saneBounds(buf []byte, f iprotobuf.FieldBounds, num protowire.Number) error {
	if f == (iprotobuf.FieldBounds{}) {
		return nil
	}
	if f.From < 0 || f.From > f.ValueFrom || f.ValueFrom > f.To || f.To > len(buf) {
		return fmt.Errorf("bounds %+v outside buffer of %d bytes", f, len(buf))
	}
	if f.IsMissing() {
		return fmt.Errorf("non-zero bounds %+v report missing", f)
	}
	n, typ, tl := protowire.ConsumeTag(buf[f.From:])
	if tl < 0 || n != num || typ != protowire.BytesType {
		return fmt.Errorf("bounds %+v: tag at From is (%d,%d), want (%d,LEN)", f, n, typ, num)
	}
	l, ll := protowire.ConsumeVarint(buf[f.From+tl:])
	if ll < 0 || f.ValueFrom != f.From+tl+ll || uint64(f.To-f.ValueFrom) != l {
		return fmt.Errorf("bounds %+v inconsistent with length prefix %d", f, l)
	}
	return nil
}

type fataler interface {
	Fatalf(string, ...any)
}

// ---------- exact oracles on a prefix of a canonical encoding ----------

// expectExtract is the reference outcome of ExtractHeaderAndPayload(E[:c]):
// error, or header == E[:hdrEnd] and payload prefix == E[restFrom:c].
func expectExtract(r *ref, c int) (wantErr bool, hdrEnd, restFrom int) {
	if c == 0 {
		return true, 0, 0
	}
	for _, f := range r.top {
		switch {
		case c == f.start: // prefix ends on a field boundary: a shorter well-formed message
			return false, f.start, c
		case f.num == 4:
			if c >= f.vfrom {
				return false, f.start, f.vfrom
			}
			return true, 0, 0 // inside payload tag / length
		case c < f.end:
			return true, 0, 0
		}
	}
	return false, c, c // whole message, no payload field
}

// checkExtract: iobject.ExtractHeaderAndPayload(E[:c]).
func checkExtract(t fataler, r *ref, c int) (outcome string) {
	p := r.e[:c]
	var hdr *object.Object
	var rest []byte
	var err error
	noPanic(t, "ExtractHeaderAndPayload", p, func() { hdr, rest, err = iobject.ExtractHeaderAndPayload(p) })
	wantErr, wantHdrEnd, wantRestFrom := expectExtract(r, c)
	if wantErr {
		if err == nil {
			t.Fatalf("ExtractHeaderAndPayload(E[:%d]) succeeded, cut is inside a field (len(E)=%d, layout %v)", c, len(r.e), r.top)
		}
		return "err"
	}
	if err != nil {
		t.Fatalf("ExtractHeaderAndPayload(E[:%d]) failed: %v (len(E)=%d, layout %v)", c, err, len(r.e), r.top)
	}
	if got := hdr.Marshal(); !bytes.Equal(got, r.e[:wantHdrEnd]) {
		t.Fatalf("ExtractHeaderAndPayload(E[:%d]): header re-marshals to %d bytes != E[:%d]", c, len(got), wantHdrEnd)
	}
	if len(hdr.Payload()) != 0 {
		t.Fatalf("ExtractHeaderAndPayload(E[:%d]): header object carries payload", c)
	}
	if !bytes.Equal(rest, r.e[wantRestFrom:c]) {
		t.Fatalf("ExtractHeaderAndPayload(E[:%d]): payload prefix %d bytes, want E[%d:%d]", c, len(rest), wantRestFrom, c)
	}
	if wantHdrEnd == r.npEnd {
		if want := r.full.CutPayload().Marshal(); !bytes.Equal(hdr.Marshal(), want) {
			t.Fatalf("ExtractHeaderAndPayload(E[:%d]): header differs from fully decoded object without payload", c)
		}
		return "ok-full"
	}
	return "ok-partial"
}

// checkNPB: iobject.GetNonPayloadFieldBounds(E[:c]).
func checkNPB(t fataler, r *ref, c int) string {
	p := r.e[:c]
	var idf, sigf, hdrf iprotobuf.FieldBounds
	var err error
	noPanic(t, "GetNonPayloadFieldBounds", p, func() { idf, sigf, hdrf, err = iobject.GetNonPayloadFieldBounds(p) })
	var want [4]iprotobuf.FieldBounds
	wantErr := c == 0
	if !wantErr {
	loop:
		for _, f := range r.top {
			switch {
			case c == f.start:
				break loop
			case f.num > 3:
				break loop // tag is one byte and c > f.start
			case c < f.end:
				wantErr = true
				break loop
			}
			want[f.num] = f.bounds(0)
			if f.num == 3 {
				break
			}
		}
	}
	if wantErr {
		if err == nil {
			t.Fatalf("GetNonPayloadFieldBounds(E[:%d]) succeeded (%+v %+v %+v), cut is inside a field (layout %v)", c, idf, sigf, hdrf, r.top)
		}
		return "err"
	}
	if err != nil {
		t.Fatalf("GetNonPayloadFieldBounds(E[:%d]) failed: %v (layout %v)", c, err, r.top)
	}
	if idf != want[1] || sigf != want[2] || hdrf != want[3] {
		t.Fatalf("GetNonPayloadFieldBounds(E[:%d]) = %+v %+v %+v, reference %+v %+v %+v", c, idf, sigf, hdrf, want[1], want[2], want[3])
	}
	if c >= r.npEnd {
		return "ok-full"
	}
	return "ok-partial"
}

// checkParentTop: iobject.GetParentNonPayloadFieldBounds(E[:c]).
func checkParentTop(t fataler, r *ref, c int) string {
	p := r.e[:c]
	var idf, sigf, hdrf iprotobuf.FieldBounds
	var err error
	noPanic(t, "GetParentNonPayloadFieldBounds", p, func() { idf, sigf, hdrf, err = iobject.GetParentNonPayloadFieldBounds(p) })
	var wid, wsig, whdr iprotobuf.FieldBounds
	wantErr := c == 0
	res := "ok-missing"
	if !wantErr {
		switch st, f := seekRef(r.top, 3, c); st {
		case seekErr:
			wantErr = true
		case seekFound:
			wid, wsig, whdr = shift(r.pid, f.vfrom), shift(r.psig, f.vfrom), shift(r.phdr, f.vfrom)
			res = "ok-full"
		}
	}
	if wantErr {
		if err == nil {
			t.Fatalf("GetParentNonPayloadFieldBounds(E[:%d]) succeeded, cut is inside a traversed field (layout %v)", c, r.top)
		}
		return "err"
	}
	if err != nil {
		t.Fatalf("GetParentNonPayloadFieldBounds(E[:%d]) failed: %v (layout %v)", c, err, r.top)
	}
	if idf != wid || sigf != wsig || hdrf != whdr {
		t.Fatalf("GetParentNonPayloadFieldBounds(E[:%d]) = %+v %+v %+v, reference %+v %+v %+v", c, idf, sigf, hdrf, wid, wsig, whdr)
	}
	return res
}

// checkHeaderFns: the three functions working on header bytes, on H[:d].
func checkHeaderFns(t fataler, r *ref, d int) string {
	p := r.h[:d]
	out := "ok"
	// parent bounds
	{
		var idf, sigf, hdrf iprotobuf.FieldBounds
		var err error
		noPanic(t, "GetParentNonPayloadFieldBoundsHeader", p, func() { idf, sigf, hdrf, err = iobject.GetParentNonPayloadFieldBoundsHeader(p) })
		var wid, wsig, whdr iprotobuf.FieldBounds
		wantErr := d == 0
		if !wantErr {
			switch st, _ := seekRef(r.hfs, 11, d); st {
			case seekErr:
				wantErr = true
			case seekFound:
				wid, wsig, whdr = r.pid, r.psig, r.phdr
			}
		}
		if wantErr != (err != nil) {
			t.Fatalf("GetParentNonPayloadFieldBoundsHeader(H[:%d]) err=%v, reference wantErr=%v (header layout %v)", d, err, wantErr, r.hfs)
		}
		if err == nil && (idf != wid || sigf != wsig || hdrf != whdr) {
			t.Fatalf("GetParentNonPayloadFieldBoundsHeader(H[:%d]) = %+v %+v %+v, reference %+v %+v %+v", d, idf, sigf, hdrf, wid, wsig, whdr)
		}
		if err != nil {
			out = "err"
		}
	}
	// payload length
	{
		var v uint64
		var err error
		noPanic(t, "GetPayloadLengthHeader", p, func() { v, err = iobject.GetPayloadLengthHeader(p) })
		var want uint64
		wantErr := false
		switch st, f := seekRef(r.hfs, 5, d); st {
		case seekErr:
			wantErr = true
		case seekFound:
			want = f.u
		}
		if wantErr != (err != nil) || v != want {
			t.Fatalf("GetPayloadLengthHeader(H[:%d]) = %d, %v; reference %d, wantErr=%v (header layout %v)", d, v, err, want, wantErr, r.hfs)
		}
		if d == len(r.h) && v != r.full.PayloadSize() {
			t.Fatalf("GetPayloadLengthHeader = %d, decoded header says %d", v, r.full.PayloadSize())
		}
	}
	// type
	{
		var v object.Type
		var err error
		noPanic(t, "GetTypeHeader", p, func() { v, err = iobject.GetTypeHeader(p) })
		var want object.Type
		wantErr := false
		switch st, f := seekRef(r.hfs, 7, d); st {
		case seekErr:
			wantErr = true
		case seekFound:
			want = object.Type(f.u)
		}
		if wantErr != (err != nil) || v != want {
			t.Fatalf("GetTypeHeader(H[:%d]) = %d, %v; reference %d, wantErr=%v (header layout %v)", d, v, err, want, wantErr, r.hfs)
		}
		if d == len(r.h) && v != r.full.Type() {
			t.Fatalf("GetTypeHeader = %v, decoded header says %v", v, r.full.Type())
		}
	}
	return out
}

// checkWhole: everything that is only defined on the complete encoding.
func checkWhole(t fataler, r *ref, obj *object.Object) {
	e := r.e
	// field slices equal the re-marshalled parts of the fully decoded object
	idf, sigf, hdrf, err := iobject.GetNonPayloadFieldBounds(e)
	if err != nil {
		t.Fatalf("GetNonPayloadFieldBounds(E): %v", err)
	}
	m := r.full.ProtoMessage()
	eq := func(what string, f iprotobuf.FieldBounds, present bool, enc func() []byte) {
		if present == f.IsMissing() {
			t.Fatalf("%s: present in decoded object = %v, bounds %+v", what, present, f)
		}
		if present && !bytes.Equal(e[f.ValueFrom:f.To], enc()) {
			t.Fatalf("%s: bytes in bounds differ from the re-marshalled decoded field", what)
		}
	}
	eq("ID", idf, m.ObjectId != nil, func() []byte { return r.full.GetID().Marshal() })
	eq("signature", sigf, m.Signature != nil, func() []byte { return r.full.Signature().Marshal() })
	eq("header", hdrf, m.Header != nil, func() []byte { b := make([]byte, m.Header.MarshaledSize()); m.Header.MarshalStable(b); return b })

	// parent: the three parent fields re-tagged as 1,2,3 are the parent's encoding
	pid, psig, phdr, err := iobject.GetParentNonPayloadFieldBounds(e)
	if err != nil {
		t.Fatalf("GetParentNonPayloadFieldBounds(E): %v", err)
	}
	sp := m.GetHeader().GetSplit()
	if (sp.GetParent() != nil) == pid.IsMissing() || (sp.GetParentSignature() != nil) == psig.IsMissing() || (sp.GetParentHeader() != nil) == phdr.IsMissing() {
		t.Fatalf("parent fields presence: decoded (%v,%v,%v) vs bounds %+v %+v %+v", sp.GetParent() != nil, sp.GetParentSignature() != nil, sp.GetParentHeader() != nil, pid, psig, phdr)
	}
	if sp.GetParentHeader() != nil {
		var rebuilt []byte
		if !pid.IsMissing() {
			rebuilt = append(rebuilt, e[pid.From:pid.To]...)
		}
		if !psig.IsMissing() {
			rebuilt = append(rebuilt, iprotobuf.TagBytes2)
			rebuilt = append(rebuilt, e[psig.From+1:psig.To]...)
		}
		rebuilt = append(rebuilt, iprotobuf.TagBytes3)
		rebuilt = append(rebuilt, e[phdr.From+1:phdr.To]...)
		par := r.full.Parent()
		// (compare after decoding: an all-zero parent header is encoded as an empty
		// field inside the split header but omitted by Object.Marshal)
		var reb object.Object
		if err := reb.Unmarshal(rebuilt); err != nil {
			t.Fatalf("parent rebuilt from bounds does not decode: %v", err)
		}
		if got, want := reb.Marshal(), par.Marshal(); !bytes.Equal(got, want) {
			t.Fatalf("parent rebuilt from bounds (%d bytes) differs from decoded parent's encoding (%d bytes)", len(got), len(want))
		}
		// parent header fields through the header readers
		ph := e[phdr.ValueFrom:phdr.To]
		if v, err := iobject.GetPayloadLengthHeader(ph); err != nil || v != par.PayloadSize() {
			t.Fatalf("GetPayloadLengthHeader(parent header) = %d, %v; decoded %d", v, err, par.PayloadSize())
		}
		if v, err := iobject.GetTypeHeader(ph); err != nil || v != par.Type() {
			t.Fatalf("GetTypeHeader(parent header) = %v, %v; decoded %v", v, err, par.Type())
		}
	}

	// WriteWithoutPayload: the non-payload bytes plus payload tag and length
	var w bytes.Buffer
	var werr error
	noPanic(t, "WriteWithoutPayload", e, func() { werr = iobject.WriteWithoutPayload(&w, *obj) })
	if werr != nil {
		t.Fatalf("WriteWithoutPayload: %v", werr)
	}
	wantW := append([]byte(nil), e[:r.npEnd]...)
	if obj.PayloadSize() != 0 {
		wantW = protowire.AppendTag(wantW, 4, protowire.BytesType)
		wantW = protowire.AppendVarint(wantW, obj.PayloadSize())
	}
	if !bytes.Equal(w.Bytes(), wantW) {
		t.Fatalf("WriteWithoutPayload wrote %d bytes, want non-payload fields + payload tag/len (%d bytes)", w.Len(), len(wantW))
	}
	if w.Len() > 0 {
		hdr, rest, err := iobject.ExtractHeaderAndPayload(w.Bytes())
		if err != nil || len(rest) != 0 || !bytes.Equal(hdr.Marshal(), e[:r.npEnd]) {
			t.Fatalf("ExtractHeaderAndPayload(WriteWithoutPayload(obj)): err=%v rest=%d", err, len(rest))
		}
	}
}

// readPrefixWindow is the number of bytes ReadHeaderPrefix looks at.
const readPrefixWindow = object.MaxHeaderLen

type chunkReader struct {
	b    []byte
	step int
}

func (r *chunkReader) Read(p []byte) (int, error) {
	if len(r.b) == 0 {
		return 0, io.EOF
	}
	n := min(len(p), r.step, len(r.b))
	copy(p, r.b[:n])
	r.b = r.b[n:]
	return n, nil
}

// checkReadHeaderPrefix: ReadHeaderPrefix(reader over E) behaves as
// ExtractHeaderAndPayload(E[:min(len(E), MaxHeaderLen)]).
func checkReadHeaderPrefix(t fataler, rec *ev.Recorder, r *ref, step int) {
	c := min(len(r.e), readPrefixWindow)
	var hdr *object.Object
	var rest []byte
	var err error
	noPanic(t, "ReadHeaderPrefix", r.e, func() { hdr, rest, err = iobject.ReadHeaderPrefix(&chunkReader{b: r.e, step: step}) })
	wantErr, hdrEnd, restFrom := expectExtract(r, c)
	if wantErr {
		// Only possible when the non-payload part (ID + signature + header <= MaxHeaderLen)
		// plus the payload tag/len does not fit the MaxHeaderLen window the function reads.
		if c == len(r.e) {
			t.Fatalf("harness: reference expects an error for a complete short encoding")
		}
		rec.Label("readprefix:nonpayload-exceeds-window")
		if err == nil {
			t.Fatalf("ReadHeaderPrefix succeeded although the window of %d bytes ends inside a field (non-payload part ends at %d)", readPrefixWindow, r.npEnd)
		}
		return
	}
	if err != nil {
		t.Fatalf("ReadHeaderPrefix failed: %v (non-payload part ends at %d, len(E)=%d)", err, r.npEnd, len(r.e))
	}
	if !bytes.Equal(hdr.Marshal(), r.e[:hdrEnd]) {
		t.Fatalf("ReadHeaderPrefix: header differs from fully decoded object without payload")
	}
	if hdrEnd != r.npEnd {
		t.Fatalf("harness: ReadHeaderPrefix window ends between non-payload fields")
	}
	wantRest := r.e[restFrom:c]
	if !bytes.Equal(rest, wantRest) {
		t.Fatalf("ReadHeaderPrefix: payload prefix %d bytes, want %d", len(rest), len(wantRest))
	}
}

// ---------- tests ----------

func fp(e []byte) string { return string(e) }

// TestC41Valid: complete canonical encodings and the prefixes real callers pass
// (first 16 KiB / 20 KiB / 40 KiB of the stored bytes).
func TestC41Valid(t *testing.T) {
	rec := ev.New("C41", "valid")
	defer rec.Flush()
	rapid.Check(t, func(t *rapid.T) {
		g := genobj.WithKind(genobj.Opts{UnknownTypes: true}).Draw(t, "obj")
		e := g.Obj.Marshal()
		r, err := mkRef(e)
		if err != nil {
			t.Fatalf("harness: %v", err)
		}
		labels := append(genobj.Describe(g.Obj), "kind:"+g.Kind)
		nontriv := r.hasSplit || len(e) > iobject.NonPayloadFieldsBufferLength || g.Obj.HeaderLen() >= 16000 || !r.hasPld
		rec.Case(nontriv, fp(e[:min(len(e), r.npEnd+16)]), labels...)
		if rec.WantSample() {
			rec.Sample(map[string]any{"kind": g.Kind, "len": len(e), "nonPayloadEnd": r.npEnd, "labels": labels})
		}
		checkWhole(t, r, g.Obj)
		for _, c := range []int{len(e), iobject.NonPayloadFieldsBufferLength, 2 * iobject.NonPayloadFieldsBufferLength, object.MaxHeaderLen} {
			c = min(c, len(e))
			checkExtract(t, r, c)
			checkNPB(t, r, c)
			checkParentTop(t, r, c)
		}
		if r.hasHdr {
			checkHeaderFns(t, r, len(r.h))
		}
		checkReadHeaderPrefix(t, rec, r, rapid.SampledFrom([]int{1, 7, 4096, 1 << 20}).Draw(t, "readStep"))
	})
}

// TestC41Truncation: every truncation point of small encodings; for large ones
// every point of the non-payload part is still covered in thorough, sampled in quick.
func TestC41Truncation(t *testing.T) {
	rec := ev.New("C41", "truncation")
	defer rec.Flush()
	rapid.Check(t, func(t *rapid.T) {
		small := rapid.IntRange(0, 3).Draw(t, "small") > 0
		g := genobj.WithKind(genobj.Opts{SmallOnly: small, UnknownTypes: true}).Draw(t, "obj")
		e := g.Obj.Marshal()
		r, err := mkRef(e)
		if err != nil {
			t.Fatalf("harness: %v", err)
		}
		var cuts []int
		every := len(e) <= 2048 || (ev.Thorough() && r.npEnd <= 4096)
		if every {
			for c := 0; c <= min(len(e), r.npEnd+300); c++ {
				cuts = append(cuts, c)
			}
			cuts = append(cuts, len(e))
		} else {
			// all field boundaries ±2 plus random points
			for _, f := range r.top {
				for _, b := range []int{f.start, f.vfrom, f.end} {
					for d := -2; d <= 2; d++ {
						if c := b + d; c >= 0 && c <= len(e) {
							cuts = append(cuts, c)
						}
					}
				}
			}
			for i := 0; i < 40; i++ {
				cuts = append(cuts, rapid.IntRange(0, len(e)).Draw(t, "cut"))
			}
		}
		out := map[string]int{}
		for _, c := range cuts {
			out["extract:"+checkExtract(t, r, c)]++
			out["bounds:"+checkNPB(t, r, c)]++
			out["parent:"+checkParentTop(t, r, c)]++
		}
		if r.hasHdr {
			var hc []int
			if every || len(r.h) <= 2048 {
				for d := 0; d <= len(r.h); d++ {
					hc = append(hc, d)
				}
			} else {
				for _, f := range r.hfs {
					for _, b := range []int{f.start, f.vfrom, f.end} {
						for d := -1; d <= 1; d++ {
							if c := b + d; c >= 0 && c <= len(r.h) {
								hc = append(hc, c)
							}
						}
					}
				}
				for i := 0; i < 40; i++ {
					hc = append(hc, rapid.IntRange(0, len(r.h)).Draw(t, "hcut"))
				}
			}
			for _, d := range hc {
				out["hdrfns:"+checkHeaderFns(t, r, d)]++
			}
		}
		labels := []string{"kind:" + g.Kind}
		if every {
			labels = append(labels, "all-cuts")
		} else {
			labels = append(labels, "sampled-cuts")
		}
		if r.hasSplit {
			labels = append(labels, "has-split")
		}
		// non-trivial: at least one cut of every outcome class was exercised
		nontriv := out["extract:err"] > 0 && out["extract:ok-partial"] > 0 && out["extract:ok-full"] > 0 && out["bounds:err"] > 0
		rec.Case(nontriv, fp(e[:min(len(e), r.npEnd+16)]), labels...)
		for k, v := range out {
			rec.LabelN("cut-"+k, int64(v))
		}
		if rec.WantSample() {
			rec.Sample(map[string]any{"kind": g.Kind, "len": len(e), "cuts": len(cuts), "outcomes": out})
		}
	})
}

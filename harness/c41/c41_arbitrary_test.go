package c41

import (
	"bytes"
	"fmt"
	"testing"

	iobject "github.com/nspcc-dev/neofs-node/internal/object"
	"github.com/nspcc-dev/neofs-node/verifharness/ev"
	"github.com/nspcc-dev/neofs-node/verifharness/genobj"
	"github.com/nspcc-dev/neofs-sdk-go/object"
	iprotobuf "github.com/nspcc-dev/neofs-sdk-go/proto/protobuf"
	"google.golang.org/protobuf/encoding/protowire"
	"pgregory.net/rapid"
)

// ---------- oracle for arbitrary bytes ----------

// topShape classifies data by an independent walk.
type topShape struct {
	wellFormed bool // sequence of complete fields
	onlyObject bool // only LEN fields 1..4, each at most once, payload (if any) last
	ascending  bool
	fs         []field
}

func shapeOf(data []byte) topShape {
	var s topShape
	s.fs, s.wellFormed = walk(data)
	if !s.wellFormed {
		return s
	}
	s.onlyObject, s.ascending = true, true
	seen := map[protowire.Number]bool{}
	var prev protowire.Number
	for i, f := range s.fs {
		if f.num < 1 || f.num > 4 || f.typ != protowire.BytesType || seen[f.num] {
			s.onlyObject = false
		}
		if f.num == 4 && i != len(s.fs)-1 {
			s.onlyObject = false
		}
		if f.num < prev {
			s.ascending = false
		}
		seen[f.num] = true
		prev = f.num
	}
	return s
}

// canonicalObject reports whether data is exactly what the SDK would marshal.
func canonicalObject(data []byte) (*object.Object, bool) {
	if len(data) == 0 {
		return nil, false
	}
	var o object.Object
	if o.Unmarshal(data) != nil {
		return nil, false
	}
	if !bytes.Equal(o.Marshal(), data) {
		return nil, false
	}
	return &o, true
}

const (
	doExtract = 1 << iota
	doBounds
	doHeader
	doAll = doExtract | doBounds | doHeader
)

// checkArbitrary applies every oracle that is valid for ANY byte string and
// returns classification labels. which selects the function group (fuzz targets
// exercise one group each).
func checkArbitrary(t fataler, data []byte, which int) []string {
	var labels []string
	sh := shapeOf(data)

	if which&doExtract != 0 {
		var hdr *object.Object
		var rest []byte
		var err error
		noPanic(t, "ExtractHeaderAndPayload", data, func() { hdr, rest, err = iobject.ExtractHeaderAndPayload(data) })
		if err == nil {
			labels = append(labels, "extract-ok")
			if hdr == nil {
				t.Fatalf("ExtractHeaderAndPayload: nil header without error on %x", clip(data))
			}
			if len(rest) > len(data) || !bytes.Equal(rest, data[len(data)-len(rest):]) {
				t.Fatalf("ExtractHeaderAndPayload: payload prefix is not a suffix of the input %x", clip(data))
			}
			if len(hdr.Payload()) != 0 {
				t.Fatalf("ExtractHeaderAndPayload: header object carries payload")
			}
			// (Not asserted: that the returned header survives Marshal/Unmarshal. The SDK codec
			// itself is not idempotent on damaged input - e.g. a session token with an empty
			// lifetime message decodes but is re-encoded without it - and that is the same for
			// full decoding, so it says nothing about fast-path agreement.)
		} else {
			labels = append(labels, "extract-err")
			if hdr != nil || rest != nil {
				t.Fatalf("ExtractHeaderAndPayload: value returned together with error %v", err)
			}
		}
		// Unambiguous protobuf (fields 1..4 once each, payload last, any order of 1..3):
		// full decoding and the fast path must agree completely.
		if sh.wellFormed && sh.onlyObject && len(data) > 0 {
			var full object.Object
			ferr := full.Unmarshal(data)
			if (ferr == nil) != (err == nil) {
				t.Fatalf("ExtractHeaderAndPayload err=%v but full decoding err=%v on unambiguous input %x", err, ferr, clip(data))
			}
			if err == nil {
				if !bytes.Equal(hdr.Marshal(), full.CutPayload().Marshal()) {
					t.Fatalf("ExtractHeaderAndPayload header differs from full decoding on unambiguous input %x", clip(data))
				}
				if !bytes.Equal(rest, full.Payload()) {
					t.Fatalf("ExtractHeaderAndPayload payload differs from full decoding on unambiguous input %x", clip(data))
				}
			}
			labels = append(labels, "unambiguous")
			if !sh.ascending {
				labels = append(labels, "unambiguous-unordered")
			}
		}
	}

	if which&doBounds != 0 {
		var idf, sigf, hdrf iprotobuf.FieldBounds
		var err error
		noPanic(t, "GetNonPayloadFieldBounds", data, func() { idf, sigf, hdrf, err = iobject.GetNonPayloadFieldBounds(data) })
		if err == nil {
			labels = append(labels, "bounds-ok")
			for i, f := range []iprotobuf.FieldBounds{idf, sigf, hdrf} {
				if e := saneBounds(data, f, protowire.Number(i+1)); e != nil {
					t.Fatalf("GetNonPayloadFieldBounds(%x): %v", clip(data), e)
				}
			}
			last := 0
			for _, f := range []iprotobuf.FieldBounds{idf, sigf, hdrf} {
				if f != (iprotobuf.FieldBounds{}) {
					if f.From < last {
						t.Fatalf("GetNonPayloadFieldBounds(%x): fields overlap / not ascending: %+v %+v %+v", clip(data), idf, sigf, hdrf)
					}
					last = f.To
				}
			}
			// well-formed, ascending input: must be the reference positions
			if sh.wellFormed && sh.onlyObject && sh.ascending {
				for i, got := range []iprotobuf.FieldBounds{idf, sigf, hdrf} {
					var want iprotobuf.FieldBounds
					if f, ok := find(sh.fs, protowire.Number(i+1)); ok {
						want = f.bounds(0)
					}
					if got != want {
						t.Fatalf("GetNonPayloadFieldBounds(%x): field %d bounds %+v, reference %+v", clip(data), i+1, got, want)
					}
				}
			}
		} else {
			labels = append(labels, "bounds-err")
			if sh.wellFormed && sh.onlyObject && sh.ascending && len(data) > 0 {
				t.Fatalf("GetNonPayloadFieldBounds failed on well-formed ascending input %x: %v", clip(data), err)
			}
		}
		var pid, psig, phdr iprotobuf.FieldBounds
		noPanic(t, "GetParentNonPayloadFieldBounds", data, func() { pid, psig, phdr, err = iobject.GetParentNonPayloadFieldBounds(data) })
		if err == nil {
			labels = append(labels, "parent-ok")
			for _, c := range []struct {
				f iprotobuf.FieldBounds
				n protowire.Number
			}{{pid, 1}, {psig, 3}, {phdr, 4}} {
				if e := saneBounds(data, c.f, c.n); e != nil {
					t.Fatalf("GetParentNonPayloadFieldBounds(%x): %v", clip(data), e)
				}
			}
		}
	}

	if which&doHeader != 0 {
		var pid, psig, phdr iprotobuf.FieldBounds
		var err error
		noPanic(t, "GetParentNonPayloadFieldBoundsHeader", data, func() { pid, psig, phdr, err = iobject.GetParentNonPayloadFieldBoundsHeader(data) })
		if err == nil {
			labels = append(labels, "hparent-ok")
			for _, c := range []struct {
				f iprotobuf.FieldBounds
				n protowire.Number
			}{{pid, 1}, {psig, 3}, {phdr, 4}} {
				if e := saneBounds(data, c.f, c.n); e != nil {
					t.Fatalf("GetParentNonPayloadFieldBoundsHeader(%x): %v", clip(data), e)
				}
			}
		}
		// scalar readers: on a well-formed ascending field sequence the value is the
		// first field with that number (or 0 when absent), as protowire sees it.
		hfs, wf := walk(data)
		asc := wf
		var prev protowire.Number
		for _, f := range hfs {
			if f.num < prev {
				asc = false
			}
			prev = f.num
			if !f.num.IsValid() || f.typ == protowire.StartGroupType || f.typ == protowire.EndGroupType {
				asc = false // the fast path rejects these while skipping
			}
		}
		var pl uint64
		noPanic(t, "GetPayloadLengthHeader", data, func() { pl, err = iobject.GetPayloadLengthHeader(data) })
		if asc {
			f, ok := find(hfs, 5)
			switch {
			case !ok:
				if err != nil || pl != 0 {
					t.Fatalf("GetPayloadLengthHeader(%x) = %d, %v; field absent in a well-formed ascending message", clip(data), pl, err)
				}
			case f.typ == protowire.VarintType:
				if err != nil || pl != f.u {
					t.Fatalf("GetPayloadLengthHeader(%x) = %d, %v; reference %d", clip(data), pl, err, f.u)
				}
			default:
				if err == nil {
					t.Fatalf("GetPayloadLengthHeader(%x) accepted wire type %d", clip(data), f.typ)
				}
			}
			labels = append(labels, "hdr-ascending")
		}
		var ty object.Type
		noPanic(t, "GetTypeHeader", data, func() { ty, err = iobject.GetTypeHeader(data) })
		if asc {
			f, ok := find(hfs, 7)
			switch {
			case !ok:
				if err != nil || ty != 0 {
					t.Fatalf("GetTypeHeader(%x) = %d, %v; field absent in a well-formed ascending message", clip(data), ty, err)
				}
			case f.typ == protowire.VarintType && f.u <= 1<<31-1:
				if err != nil || uint64(ty) != f.u {
					t.Fatalf("GetTypeHeader(%x) = %d, %v; reference %d", clip(data), ty, err, f.u)
				}
			default:
				if err == nil {
					t.Fatalf("GetTypeHeader(%x) accepted type %d value %d", clip(data), f.typ, f.u)
				}
			}
		}
		if err == nil && ty < 0 {
			t.Fatalf("GetTypeHeader(%x) returned negative type %d", clip(data), ty)
		}
	}

	// exactly canonical: the complete agreement oracle applies
	if o, ok := canonicalObject(data); ok {
		r, err := mkRef(data)
		if err != nil {
			t.Fatalf("harness: canonical input but %v", err)
		}
		labels = append(labels, "canonical")
		if which&doExtract != 0 {
			checkExtract(t, r, len(data))
		}
		if which&doBounds != 0 {
			checkNPB(t, r, len(data))
			checkParentTop(t, r, len(data))
			checkWhole(t, r, o)
		}
		if which&doHeader != 0 && r.hasHdr {
			checkHeaderFns(t, r, len(r.h))
		}
	}
	return labels
}

// ---------- generators of non-valid input ----------

type item struct {
	raw []byte // complete field bytes
}

func lenField(num protowire.Number, v []byte) []byte {
	b := protowire.AppendTag(nil, num, protowire.BytesType)
	return protowire.AppendBytes(b, v)
}

// nonMinimalVarint encodes v with extra continuation bytes.
func nonMinimalVarint(v uint64, extra int) []byte {
	b := protowire.AppendVarint(nil, v)
	for i := 0; i < extra; i++ {
		b[len(b)-1] |= 0x80
		b = append(b, 0)
	}
	return b
}

var alienNums = []uint64{0, 5, 6, 15, 16, 2047, 1<<29 - 1, 1 << 29, 1<<32 - 1, 1 << 40}

func genAlienField(t *rapid.T) []byte {
	num := rapid.SampledFrom(alienNums).Draw(t, "alienNum")
	if rapid.IntRange(0, 3).Draw(t, "alienKnownNum") == 0 {
		num = uint64(rapid.IntRange(1, 4).Draw(t, "num"))
	}
	typ := uint64(rapid.IntRange(0, 7).Draw(t, "alienType"))
	b := protowire.AppendVarint(nil, num<<3|typ)
	switch typ {
	case 0:
		b = append(b, nonMinimalVarint(rapid.Uint64().Draw(t, "v"), rapid.IntRange(0, 10).Draw(t, "vExtra"))...)
	case 1:
		b = append(b, make([]byte, rapid.SampledFrom([]int{8, 8, 8, 7, 0}).Draw(t, "fx64"))...)
	case 2:
		n := rapid.IntRange(0, 40).Draw(t, "alienLen")
		claim := uint64(n)
		if rapid.IntRange(0, 4).Draw(t, "lie") == 0 {
			claim = rapid.SampledFrom([]uint64{uint64(n) + 1, 1 << 31, 1<<63 - 1, 1 << 63, 1<<64 - 1}).Draw(t, "claim")
		}
		b = protowire.AppendVarint(b, claim)
		b = append(b, genobj.Fill(uint64(n), n)...)
	case 5:
		b = append(b, make([]byte, rapid.SampledFrom([]int{4, 4, 4, 3, 0}).Draw(t, "fx32"))...)
	}
	return b
}

// genNonCanonical builds a message from the parts of a valid encoding with
// protowire: permuted, repeated, dropped and alien fields at the given level.
func genNonCanonical(t *rapid.T, canonical []byte, label string) []byte {
	fs, _ := walk(canonical)
	var items [][]byte
	for _, f := range fs {
		items = append(items, canonical[f.start:f.end])
	}
	n := rapid.IntRange(0, len(items)+3).Draw(t, label+"N")
	var out []byte
	for i := 0; i < n; i++ {
		switch k := rapid.IntRange(0, 9).Draw(t, label+"Pick"); {
		case k <= 6 && len(items) > 0:
			it := items[rapid.IntRange(0, len(items)-1).Draw(t, label+"Idx")]
			if rapid.IntRange(0, 9).Draw(t, label+"NonMin") == 0 {
				// same field, tag / length re-encoded non-minimally
				f, _ := walk(it)
				if len(f) == 1 && f[0].typ == protowire.BytesType {
					b := nonMinimalVarint(protowire.EncodeTag(f[0].num, f[0].typ), rapid.IntRange(0, 2).Draw(t, label+"TagExtra"))
					b = append(b, nonMinimalVarint(uint64(f[0].end-f[0].vfrom), rapid.IntRange(0, 3).Draw(t, label+"LenExtra"))...)
					it = append(b, it[f[0].vfrom:]...)
				}
			}
			out = append(out, it...)
		case k == 7:
			out = append(out, lenField(protowire.Number(rapid.IntRange(1, 12).Draw(t, label+"EmptyNum")), nil)...)
		default:
			out = append(out, genAlienField(t)...)
		}
	}
	return out
}

// mutateBytes applies 1..3 byte-level mutations biased to the first `hot` bytes.
func mutateBytes(t *rapid.T, in []byte, hot int) []byte {
	b := append([]byte(nil), in...)
	n := rapid.IntRange(1, 3).Draw(t, "mutN")
	for i := 0; i < n && len(b) > 0; i++ {
		lim := len(b)
		if hot > 0 && hot < lim && rapid.IntRange(0, 9).Draw(t, "mutHot") > 0 {
			lim = hot
		}
		pos := rapid.IntRange(0, lim-1).Draw(t, "mutPos")
		if rapid.IntRange(0, 2).Draw(t, "mutEarly") == 0 {
			pos = min(pos, rapid.IntRange(0, min(lim-1, 8)).Draw(t, "mutPosEarly"))
		}
		switch rapid.IntRange(0, 6).Draw(t, "mutKind") {
		case 0:
			b[pos] ^= 1 << rapid.IntRange(0, 7).Draw(t, "bit")
		case 1:
			b[pos] = rapid.Byte().Draw(t, "byte")
		case 2:
			b[pos] = rapid.SampledFrom([]byte{0, 0x7f, 0x80, 0xff, 0x0a, 0x12, 0x1a, 0x22, 0x02, 0x08}).Draw(t, "special")
		case 3:
			b = append(b[:pos], b[pos+1:]...)
		case 4:
			b = append(b[:pos], append([]byte{rapid.Byte().Draw(t, "ins")}, b[pos:]...)...)
		case 5:
			b = b[:pos]
		case 6:
			// blow up a varint: set continuation bits on a run
			for j := pos; j < min(len(b), pos+rapid.IntRange(1, 11).Draw(t, "run")); j++ {
				b[j] |= 0x80
			}
		}
	}
	return b
}

// TestC41Malformed: byte mutations of valid encodings (object level and header level).
func TestC41Malformed(t *testing.T) {
	rec := ev.New("C41", "malformed")
	defer rec.Flush()
	rapid.Check(t, func(t *rapid.T) {
		obj := genobj.Object(genobj.Opts{MaxPayload: 300, UnknownTypes: true, NoBigHeaders: rapid.IntRange(0, 9).Draw(t, "big") > 0}).Draw(t, "obj")
		e := obj.Marshal()
		r, err := mkRef(e)
		if err != nil {
			t.Fatalf("harness: %v", err)
		}
		var data []byte
		var labels []string
		if r.hasHdr && rapid.IntRange(0, 2).Draw(t, "level") == 0 {
			data = mutateBytes(t, r.h, 0)
			labels = checkArbitrary(t, data, doHeader)
			labels = append(labels, "level:header")
		} else {
			data = mutateBytes(t, e, r.npEnd+3)
			labels = checkArbitrary(t, data, doAll)
			labels = append(labels, "level:object")
		}
		changed := !bytes.Equal(data, e) && !bytes.Equal(data, r.h)
		rec.Case(changed, fp(data[:min(len(data), 4096)]), labels...)
		if rec.WantSample() {
			rec.Sample(map[string]any{"len": len(data), "labels": labels, "head": fmt.Sprintf("%x", data[:min(len(data), 48)])})
		}
	})
}

// TestC41NonCanonical: protowire-built messages with reordered / repeated /
// dropped / alien fields at object, header and split level.
func TestC41NonCanonical(t *testing.T) {
	rec := ev.New("C41", "noncanonical")
	defer rec.Flush()
	rapid.Check(t, func(t *rapid.T) {
		obj := genobj.Object(genobj.Opts{MaxPayload: 100, NoBigHeaders: true, UnknownTypes: true}).Draw(t, "obj")
		e := obj.Marshal()
		r, err := mkRef(e)
		if err != nil {
			t.Fatalf("harness: %v", err)
		}
		level := rapid.SampledFrom([]string{"object", "object", "header", "header-in-object", "split-in-object"}).Draw(t, "level")
		if !r.hasHdr {
			level = "object"
		}
		if level == "split-in-object" && !r.hasSplit {
			level = "header-in-object"
		}
		var data []byte
		var labels []string
		wrap := func(h []byte) []byte {
			// put the rebuilt header back between the original ID / signature and payload
			var out []byte
			for _, f := range r.top {
				if f.num == 3 {
					out = append(out, lenField(3, h)...)
				} else {
					out = append(out, e[f.start:f.end]...)
				}
			}
			return out
		}
		switch level {
		case "object":
			data = genNonCanonical(t, e, "top")
			labels = checkArbitrary(t, data, doAll)
		case "header":
			data = genNonCanonical(t, r.h, "hdr")
			labels = checkArbitrary(t, data, doHeader)
		case "header-in-object":
			h := genNonCanonical(t, r.h, "hdr")
			data = wrap(h)
			labels = checkArbitrary(t, data, doAll)
			labels = append(labels, checkArbitrary(t, h, doHeader)...)
		case "split-in-object":
			s := genNonCanonical(t, r.h[r.sf.vfrom:r.sf.end], "split")
			var h []byte
			for _, f := range r.hfs {
				if f.num == 11 {
					h = append(h, lenField(11, s)...)
				} else {
					h = append(h, r.h[f.start:f.end]...)
				}
			}
			data = wrap(h)
			labels = checkArbitrary(t, data, doAll)
			labels = append(labels, checkArbitrary(t, h, doHeader)...)
		}
		labels = append(labels, "level:"+level)
		rec.Case(!bytes.Equal(data, e), fp(data[:min(len(data), 4096)]), labels...)
		if rec.WantSample() {
			rec.Sample(map[string]any{"level": level, "len": len(data), "labels": labels, "head": fmt.Sprintf("%x", data[:min(len(data), 48)])})
		}
	})
}

// ---------- native fuzz targets (thorough tier) ----------

func fuzzSeeds(f *testing.F, header bool) {
	g := genobj.Object(genobj.Opts{MaxPayload: 64, NoBigHeaders: true, UnknownTypes: true})
	for i := 0; i < 48; i++ {
		e := g.Example(i + 1).Marshal()
		r, err := mkRef(e)
		if err != nil {
			f.Fatalf("harness: %v", err)
		}
		b := e
		if header {
			if !r.hasHdr {
				continue
			}
			b = r.h
		}
		f.Add(b)
		if i%4 == 0 && len(b) > 3 {
			f.Add(b[:len(b)/2])
			f.Add(b[:len(b)-1])
		}
	}
	f.Add([]byte{})
	f.Add([]byte{0x02, 0x00})             // field number 0
	f.Add([]byte{0x1a, 0x02, 0x5a, 0x00}) // header with empty split
	f.Add([]byte{0x22, 0x80})             // truncated payload length
}

// FuzzExtract: ExtractHeaderAndPayload never panics; a success returns a suffix
// of the input and a self-consistent header; on unambiguous / canonical input
// it equals full decoding.
func FuzzExtract(f *testing.F) {
	fuzzSeeds(f, false)
	f.Fuzz(func(t *testing.T, data []byte) { checkArbitrary(t, data, doExtract) })
}

// FuzzBounds: GetNonPayloadFieldBounds / GetParentNonPayloadFieldBounds never
// panic; reported bounds delimit the right LEN fields inside the buffer; on
// well-formed ascending input they equal the reference walk.
func FuzzBounds(f *testing.F) {
	fuzzSeeds(f, false)
	f.Fuzz(func(t *testing.T, data []byte) { checkArbitrary(t, data, doBounds) })
}

// FuzzHeaderFields: GetPayloadLengthHeader / GetTypeHeader /
// GetParentNonPayloadFieldBoundsHeader on header bytes.
func FuzzHeaderFields(f *testing.F) {
	fuzzSeeds(f, true)
	f.Fuzz(func(t *testing.T, data []byte) { checkArbitrary(t, data, doHeader) })
}

package c28

import (
	"flag"
	"fmt"
	"os"
	"strconv"
	"testing"

	"github.com/nspcc-dev/neofs-node/verifharness/ev"
	"pgregory.net/rapid"
)

// caseBudget returns how many of the -rapid.checks iterations a slower test
// really evaluates (1/div of them, at least 300): all C28 tests run in one unit
// with one checks value, the server-level tests cost 1-2 ms per case. Skipped
// iterations return before drawing anything and are not counted as evaluations.
func caseBudget(div int) int {
	n := 100
	if f := flag.Lookup("rapid.checks"); f != nil {
		if v, err := strconv.Atoi(f.Value.String()); err == nil {
			n = v
		}
	}
	return max(n/div, min(n, 300))
}

func caseLabels(c caseSpec, ref refResult) []string {
	ls := []string{"req-" + c.Req, "role-" + ref.Role, "ref-why-" + ref.Why}
	if ref.Allow {
		ls = append(ls, "ref-allow")
	} else {
		ls = append(ls, "ref-deny")
	}
	if ref.Op != c.Req {
		ls = append(ls, "tombstone-put-as-delete")
	}
	if c.Req == kPut && c.Obj.Type == "TOMBSTONE" && ref.Op == kPut {
		ls = append(ls, "tombstone-replication-as-put")
	}
	if c.Bearer != nil {
		ls = append(ls, "bearer-"+c.Bearer.Kind)
		if ref.UsedBearer {
			ls = append(ls, "bearer-table-used")
		} else if ref.EACLConsulted {
			ls = append(ls, "bearer-ignored-by-mask")
		}
	}
	if ref.EACLConsulted {
		ls = append(ls, "eacl-consulted")
		if ref.MatchedRecord {
			ls = append(ls, "eacl-record-matched")
		}
		if ref.NeedsObject {
			ls = append(ls, "eacl-object-filter-evaluated")
		}
	}
	if c.Req == kPut && refSticky(c.Mask) {
		ls = append(ls, "sticky-put")
	}
	if c.Requester == c.Owner && (contains(c.IR, c.Requester) || contains(c.CN, c.Requester)) {
		ls = append(ls, "owner-is-also-system-key")
	}
	if contains(c.IR, c.Requester) && contains(c.CN, c.Requester) && c.Requester != c.Owner {
		ls = append(ls, "ir-is-also-container-node")
	}
	return ls
}

// nontrivial implements the rule of DESIGN.md §4 C28: extendable ACL with at
// least one matching record, or a bearer token present, or a put to a sticky
// container.
func nontrivial(c caseSpec, ref refResult) bool {
	return ref.MatchedRecord || c.Bearer != nil || (c.Req == kPut && refSticky(c.Mask))
}

func TestC28Decision(t *testing.T) {
	rec := ev.New("C28", "decision")
	defer rec.Flush()
	s := newSUT()
	rapid.Check(t, func(t *rapid.T) {
		c := genCase(t, false)
		ref := refDecide(c)
		rec.Case(nontrivial(c, ref), c.String(), caseLabels(c, ref)...)
		if rec.WantSample() && ref.MatchedRecord {
			rec.Sample(map[string]any{"case": c, "expected_allow": ref.Allow, "decided_by": ref.Why})
		}

		s.configure(c)
		req := buildRequest(c)
		got := s.composed(c, req)
		rec.Label("sut-stage-" + got.Stage)
		if got.Allow == ref.Allow {
			return
		}
		kind := "over-restrictive (reference allows, node denies)"
		if got.Allow {
			kind = "PROPERTY VIOLATED: request served although the rules deny it"
		}
		t.Fatalf("%s\ncase: %s\nreference: allow=%v decided by %s (role %s, op %s, bearer table used=%v)\nnode: allow=%v at stage %s err=%v",
			kind, c, ref.Allow, ref.Why, ref.Role, ref.Op, ref.UsedBearer, got.Allow, got.Stage, got.Err)
	})
}

// TestC28BasicBits compares Checker.CheckBasicACL / StickyBitCheck for all 7
// operations (including HASH which has no request handler any more) and all 4
// roles on random masks with the bit layout of the specification.
func TestC28BasicBits(t *testing.T) {
	rec := ev.New("C28", "basicbits")
	defer rec.Flush()
	s := newSUT()
	rapid.Check(t, func(t *rapid.T) {
		mask := rapid.Uint32().Draw(t, "mask")
		if rapid.IntRange(0, 7).Draw(t, "preset?") == 0 {
			mask = rapid.SampledFrom(presets).Draw(t, "preset")
		}
		requester := rapid.IntRange(0, nKeys-1).Draw(t, "requester")
		objOwner := rapid.IntRange(0, nKeys-1).Draw(t, "obj-owner")
		if rapid.Bool().Draw(t, "own") {
			objOwner = requester
		}
		rec.Case(refSticky(mask), fmt.Sprintf("%08x/%d/%d", mask, requester, objOwner))
		for _, op := range allOps {
			for _, role := range []string{"owner", "container", "ir", "others"} {
				got := s.directBasic(mask, op, role, requester)
				if want := refBasicAllowed(mask, op, role); got != want {
					t.Fatalf("CheckBasicACL(mask=%08x op=%s role=%s) = %v, specification bit says %v", mask, op, role, got, want)
				}
			}
		}
		for _, role := range []string{"owner", "container", "ir", "others"} {
			got := s.directSticky(mask, role, requester, objOwner)
			want := role == "container" || !refSticky(mask) || objOwner == requester
			if got != want {
				t.Fatalf("StickyBitCheck(mask=%08x role=%s requester=%d objOwner=%d) = %v, want %v", mask, role, requester, objOwner, got, want)
			}
		}
	})
}

// TestC28Server sends the same generated cases through the real object.Server
// (real ACL service and checker behind it, fake storage handlers) and compares
// the response status with the reference: ACCESS_DENIED iff the reference
// denies. For GET/HEAD whose decision needs the stored object's header the
// fake handler has no object to return, so only "allowed by the reference =>
// not denied before the handler" is asserted (the second stage is covered by
// TestC28Decision).
func TestC28Server(t *testing.T) {
	rec := ev.New("C28", "server")
	defer rec.Flush()
	s := newServerSUT()
	budget, iter, failing := caseBudget(2), 0, false
	rapid.Check(t, func(t *rapid.T) {
		if !failing { // never skip once a case has failed: rapid re-runs the function to shrink it
			if iter++; iter > budget {
				return
			}
		}
		defer func() {
			if t.Failed() {
				failing = true
			}
		}()
		c := genCase(t, false)
		ref := refDecide(c)
		twoStage := (c.Req == kGet || c.Req == kHead) && ref.NeedsObject
		labels := append(caseLabels(c, ref), map[bool]string{true: "srv-needs-stored-header", false: "srv-decided-on-request"}[twoStage])
		rec.Case(nontrivial(c, ref), c.String(), labels...)

		s.configure(c)
		got, err := s.serve(buildRequest(c))
		if err != nil {
			t.Fatalf("server returned a transport error: %v\ncase: %s", err, c)
		}
		denied := got.Code == codeAccessDenied
		rec.Label(fmt.Sprintf("srv-code-%d", got.Code))
		if denied && len(got.Reached) > 0 {
			t.Fatalf("PROPERTY VIOLATED: ACCESS_DENIED returned but backend %v was reached\ncase: %s", got.Reached, c)
		}
		switch {
		case ref.Allow:
			if denied {
				t.Fatalf("over-restrictive (reference allows, server denies): status %d %q\ncase: %s\nreference decided by %s (role %s, op %s)",
					got.Code, got.Message, c, ref.Why, ref.Role, ref.Op)
			}
			if len(got.Reached) == 0 {
				t.Fatalf("reference allows, server did not deny but no backend was reached: status %d %q\ncase: %s", got.Code, got.Message, c)
			}
		case twoStage:
			rec.Label("srv-deny-needs-stored-header-unasserted")
		default:
			if !denied {
				t.Fatalf("PROPERTY VIOLATED: request served although the rules deny it: status %d %q reached %v\ncase: %s\nreference: deny by %s (role %s, op %s, bearer table used=%v)",
					got.Code, got.Message, got.Reached, c, ref.Why, ref.Role, ref.Op, ref.UsedBearer)
			}
		}
	})
}

// TestC28ServerStored drives GET and HEAD of really stored objects through the
// real object.Server backed by the real Get service over a local storage
// engine, so that the server itself performs its second eACL stage on the
// header it has read (binary / message forms as the code chooses). Two
// configurations: the ACL checker sees the same engine (the decision is made on
// the request from the local header) or an empty one (the header becomes known
// only after the handler has read it). Denied <=> ACCESS_DENIED and neither
// header nor payload sent; allowed <=> OK and the header is returned.
func TestC28ServerStored(t *testing.T) {
	rec := ev.New("C28", "serverstored")
	defer rec.Flush()
	dir, err := os.MkdirTemp("", "c28-engine-")
	if err != nil {
		ev.Inconclusive("temp dir: %v", err)
	}
	defer os.RemoveAll(dir)
	e, err := newStoredEngine(dir)
	if err != nil {
		ev.Inconclusive("storage engine with the object catalogue: %v", err)
	}
	defer e.Close()
	suts := map[bool]*srvSUT{false: newStoredServerSUT(e, false), true: newStoredServerSUT(e, true)}
	budget, iter, failing := caseBudget(4), 0, false
	rapid.Check(t, func(t *rapid.T) {
		if !failing { // never skip once a case has failed: rapid re-runs the function to shrink it
			if iter++; iter > budget {
				return
			}
		}
		defer func() {
			if t.Failed() {
				failing = true
			}
		}()
		c := genCase(t, true)
		aclLocal := rapid.Bool().Draw(t, "acl-checker-sees-local-object")
		ref := refDecide(c)
		labels := append(caseLabels(c, ref), map[bool]string{true: "acl-local-header", false: "acl-header-after-read"}[aclLocal])
		rec.Case(nontrivial(c, ref), fmt.Sprintf("%v|%s", aclLocal, c), labels...)

		s := suts[aclLocal]
		s.configure(c)
		got, err := s.serveStored(buildRequest(c))
		if err != nil {
			t.Fatalf("server returned a transport error: %v\ncase: %s", err, c)
		}
		rec.Label(fmt.Sprintf("srv-code-%d", got.Code))
		// "not served": a failure status and no object data. After a denial in the
		// second stage the status is not always ACCESS_DENIED (a denial raised while
		// the local storage streams the object surfaces as "object not found"); the
		// property speaks about serving, so only that is asserted.
		refused := got.Code != 0 && !got.GotHeader
		if !ref.Allow && refused && got.Code != codeAccessDenied {
			rec.Label(fmt.Sprintf("denied-reported-as-code-%d", got.Code))
		}
		switch {
		case got.Code != 0 && got.GotHeader:
			t.Fatalf("PROPERTY VIOLATED: failure status %d %q but object data was sent before\ncase: %s", got.Code, got.Message, c)
		case ref.Allow && got.Code == codeAccessDenied:
			t.Fatalf("over-restrictive (reference allows, server denies): %q\ncase: %s\nreference decided by %s (role %s)", got.Message, c, ref.Why, ref.Role)
		case ref.Allow && (got.Code != 0 || !got.GotHeader):
			t.Fatalf("reference allows but the stored object was not returned: status %d %q header=%v\ncase: %s", got.Code, got.Message, got.GotHeader, c)
		case !ref.Allow && !refused:
			t.Fatalf("PROPERTY VIOLATED: request served although the rules deny it: status %d %q header sent=%v (acl checker sees local object: %v)\ncase: %s\nreference: deny by %s (role %s, bearer table used=%v)",
				got.Code, got.Message, got.GotHeader, aclLocal, c, ref.Why, ref.Role, ref.UsedBearer)
		}
	})
}

// Package c28 decides property C28: object access decisions follow basic ACL,
// sticky bit, eACL and bearer rules.
//
// The case description (caseSpec) is plain data; the reference decision
// (ref_test.go) works on that data only and never calls neofs-node code. The
// system under test is driven two ways from the same case: the real ACL
// service + checker composed in the order of the server handlers
// (sut_test.go) and the real object.Server with fake handlers (server_test.go).
package c28

import (
	"encoding/json"
	"fmt"
	"sort"

	"pgregory.net/rapid"
)

const (
	nKeys    = 6
	curEpoch = 10

	fpBinXHdr = "C28:binary-header-recheck-drops-xheaders"
)

// request kinds (RPCs served by the object server)
const (
	kGet    = "GET"
	kHead   = "HEAD"
	kPut    = "PUT"
	kDelete = "DELETE"
	kSearch = "SEARCH"
	kRange  = "RANGE"
	kHash   = "HASH" // no handler any more; only used by the basic-bit test and in eACL records
)

var reqKinds = []string{kGet, kHead, kPut, kDelete, kSearch, kRange}
var allOps = []string{kGet, kHead, kPut, kDelete, kSearch, kRange, kHash}

// well-known object header keys (NeoFS API, acl/types.proto)
const (
	hCID   = "$Object:containerID"
	hOID   = "$Object:objectID"
	hOwner = "$Object:ownerID"
	hType  = "$Object:objectType"
	hEpoch = "$Object:creationEpoch"
	hSize  = "$Object:payloadLength"
)

type filterSpec struct {
	From string `json:"from"` // "req" | "obj"
	Key  string `json:"key"`
	M    string `json:"m"` // EQ NE NP GT GE LT LE
	Val  string `json:"val"`
}

type targetSpec struct {
	Role string `json:"role,omitempty"` // by-role target: user | others | system | unspec
	Keys []int  `json:"keys,omitempty"` // by-subject target: public keys of pool members
	Accs []int  `json:"accs,omitempty"` // by-subject target: accounts of pool members
}

type recordSpec struct {
	Deny    bool         `json:"deny"`
	Op      string       `json:"op"`
	Targets []targetSpec `json:"targets"`
	Filters []filterSpec `json:"filters,omitempty"`
}

type tableSpec struct {
	Cnr     int          `json:"cnr"` // 0 unset, 1 requested container, 2 another container
	Records []recordSpec `json:"records"`
}

type bearerSpec struct {
	Kind     string    `json:"kind"`
	Issuer   int       `json:"issuer"`
	ForUser  int       `json:"for_user"` // -1: any
	Iat      uint64    `json:"iat"`
	Nbf      uint64    `json:"nbf"`
	Exp      uint64    `json:"exp"`
	Tampered bool      `json:"tampered,omitempty"`
	Table    tableSpec `json:"table"`
}

type objSpec struct {
	Owner int         `json:"owner"`
	Type  string      `json:"type"` // REGULAR | TOMBSTONE
	Epoch uint64      `json:"epoch"`
	Size  uint64      `json:"size"`
	Attrs [][2]string `json:"attrs,omitempty"`
	HasID bool        `json:"has_id"` // PUT only: object ID present in the init part
}

type caseSpec struct {
	Mask      uint32      `json:"mask"`
	Req       string      `json:"req"`
	TTL       uint32      `json:"ttl"`
	Owner     int         `json:"owner"`
	Requester int         `json:"requester"`
	IR        []int       `json:"ir"`
	CN        []int       `json:"cn"`
	XH        [][2]string `json:"xh,omitempty"`
	Obj       objSpec     `json:"obj"` // PUT: object being saved; GET/HEAD: stored object returned by the node
	Stored    *tableSpec  `json:"stored,omitempty"`
	Bearer    *bearerSpec `json:"bearer,omitempty"`
	RespForm  int         `json:"resp_form"` // GET/HEAD: how the stored header reaches the 2nd eACL stage (message / binary)
	Cat       int         `json:"cat"`       // -1, or index of the really stored catalogue object that is requested (TestC28ServerStored)
}

func (c caseSpec) String() string {
	b, _ := json.Marshal(c)
	return fmt.Sprintf("mask=%08x %s", c.Mask, b)
}

func contains(s []int, x int) bool {
	for _, v := range s {
		if v == x {
			return true
		}
	}
	return false
}

// ---------- generators ----------

var presets = []uint32{0x1C8C8CCC, 0x0C8C8CCC, 0x1FBF8CFF, 0x0FBF8CFF, 0x1FBFBFFF, 0x0FBFBFFF, 0x1FBF9FFF, 0x0FBF9FFF}

var valuePool = []string{"a", "b", "10", "7", "-3", ""}
var xhKeys = []string{"xk1", "xk2"}
var attrKeys = []string{"ak1", "ak2"}
var matchers = []string{"EQ", "NE", "NP", "GT", "GE", "LT", "LE"}

func genSubset(t *rapid.T, label string, must, mustNot int) []int {
	var res []int
	bits := rapid.IntRange(0, 1<<nKeys-1).Draw(t, label)
	// thin the set: AND of two draws keeps ~25% of the keys
	bits &= rapid.IntRange(0, 1<<nKeys-1).Draw(t, label+"2")
	for i := 0; i < nKeys; i++ {
		in := bits>>i&1 == 1
		if i == must {
			in = true
		}
		if i == mustNot {
			in = false
		}
		if in {
			res = append(res, i)
		}
	}
	return res
}

func genKV(t *rapid.T, label string, keys []string, vals []string) [][2]string {
	var res [][2]string
	for _, k := range keys {
		if rapid.IntRange(0, 2).Draw(t, label+"-has-"+k) == 0 {
			continue
		}
		res = append(res, [2]string{k, rapid.SampledFrom(vals).Draw(t, label+"-val-"+k)})
	}
	return res
}

func opIdx(op string) uint {
	for i, o := range allOps {
		if o == op {
			return uint(i)
		}
	}
	panic("bad op " + op)
}

func genFilter(t *rapid.T, recOp string, reqOID string) filterSpec {
	type kind int
	const (
		fReq kind = iota
		fCID
		fOID
		fOwner
		fType
		fEpoch
		fSize
		fAttr
	)
	kinds := []kind{fReq, fReq}
	switch recOp {
	case kRange, kDelete, kHash:
		kinds = append(kinds, fCID, fOID)
	case kSearch:
		kinds = append(kinds, fCID)
	default: // GET HEAD PUT: whole object header is available to the node
		kinds = append(kinds, fCID, fOID, fOwner, fOwner, fType, fEpoch, fSize, fAttr, fAttr)
	}
	switch rapid.SampledFrom(kinds).Draw(t, "fkind") {
	case fReq:
		return filterSpec{From: "req", Key: rapid.SampledFrom([]string{"xk1", "xk2", "xk3"}).Draw(t, "fkey"),
			M: rapid.SampledFrom(matchers).Draw(t, "fm"), Val: rapid.SampledFrom(valuePool).Draw(t, "fval")}
	case fCID:
		return filterSpec{From: "obj", Key: hCID, M: rapid.SampledFrom([]string{"EQ", "EQ", "NE"}).Draw(t, "fm"),
			Val: cidStr(rapid.IntRange(1, 2).Draw(t, "fcid"))}
	case fOID:
		return filterSpec{From: "obj", Key: hOID, M: rapid.SampledFrom([]string{"EQ", "NE", "NP"}).Draw(t, "fm"),
			Val: rapid.SampledFrom([]string{reqOID, oidStr(2)}).Draw(t, "foid")}
	case fOwner:
		return filterSpec{From: "obj", Key: hOwner, M: rapid.SampledFrom([]string{"EQ", "NE"}).Draw(t, "fm"),
			Val: userStr(rapid.IntRange(0, nKeys-1).Draw(t, "fowner"))}
	case fType:
		return filterSpec{From: "obj", Key: hType, M: rapid.SampledFrom([]string{"EQ", "NE"}).Draw(t, "fm"),
			Val: rapid.SampledFrom([]string{"REGULAR", "TOMBSTONE"}).Draw(t, "ftype")}
	case fEpoch:
		return filterSpec{From: "obj", Key: hEpoch, M: rapid.SampledFrom([]string{"EQ", "GT", "GE", "LT", "LE"}).Draw(t, "fm"),
			Val: rapid.SampledFrom([]string{"0", "5", "10", "11", "x"}).Draw(t, "fval")}
	case fSize:
		return filterSpec{From: "obj", Key: hSize, M: rapid.SampledFrom([]string{"EQ", "GT", "GE", "LT", "LE"}).Draw(t, "fm"),
			Val: rapid.SampledFrom([]string{"0", "100", "1024"}).Draw(t, "fval")}
	default:
		return filterSpec{From: "obj", Key: rapid.SampledFrom([]string{"ak1", "ak2", "ak3"}).Draw(t, "fkey"),
			M: rapid.SampledFrom(matchers).Draw(t, "fm"), Val: rapid.SampledFrom(valuePool).Draw(t, "fval")}
	}
}

func genTarget(t *rapid.T, requester int) targetSpec {
	switch rapid.IntRange(0, 9).Draw(t, "tkind") {
	case 0, 1, 2:
		return targetSpec{Role: "others"}
	case 3, 4:
		return targetSpec{Role: "user"}
	case 5:
		return targetSpec{Role: rapid.SampledFrom([]string{"system", "unspec"}).Draw(t, "trole")}
	case 6, 7:
		ks := []int{rapid.IntRange(0, nKeys-1).Draw(t, "tkey")}
		if rapid.Bool().Draw(t, "tkey-req") {
			ks = append(ks, requester)
		}
		return targetSpec{Keys: ks}
	default:
		as := []int{rapid.IntRange(0, nKeys-1).Draw(t, "tacc")}
		if rapid.Bool().Draw(t, "tacc-req") {
			as = append(as, requester)
		}
		ts := targetSpec{Accs: as}
		if rapid.IntRange(0, 3).Draw(t, "tacc-mixed") == 0 {
			ts.Keys = []int{rapid.IntRange(0, nKeys-1).Draw(t, "tkey")}
		}
		return ts
	}
}

func genTable(t *rapid.T, label string, focusOp string, requester int, reqOID string) tableSpec {
	var tb tableSpec
	n := rapid.IntRange(0, 5).Draw(t, label+"-nrec")
	for i := 0; i < n; i++ {
		var r recordSpec
		r.Deny = rapid.IntRange(0, 2).Draw(t, "deny") != 0
		if rapid.IntRange(0, 9).Draw(t, "op-focus") < 7 {
			r.Op = focusOp
		} else {
			r.Op = rapid.SampledFrom(allOps).Draw(t, "op")
		}
		nt := rapid.IntRange(1, 2).Draw(t, "ntargets")
		for j := 0; j < nt; j++ {
			r.Targets = append(r.Targets, genTarget(t, requester))
		}
		nf := rapid.SampledFrom([]int{0, 0, 1, 1, 2}).Draw(t, "nfilters")
		for j := 0; j < nf; j++ {
			r.Filters = append(r.Filters, genFilter(t, r.Op, reqOID))
		}
		tb.Records = append(tb.Records, r)
	}
	return tb
}

func genMask(t *rapid.T, req, effOp string) uint32 {
	m := genMaskBase(t, effOp)
	if req == kPut { // the sticky bit only matters for puts: make both values common there
		switch rapid.IntRange(0, 3).Draw(t, "put-sticky") {
		case 0, 1:
			m |= 1 << 29
		case 2:
			m &^= 1 << 29
		}
	}
	return m
}

func genMaskBase(t *rapid.T, effOp string) uint32 {
	switch k := rapid.IntRange(0, 9).Draw(t, "mask-kind"); {
	case k == 0:
		return rapid.SampledFrom(presets).Draw(t, "preset")
	case k <= 2:
		return rapid.Uint32().Draw(t, "mask")
	default:
		// biased towards reaching the later stages: extendable, op bit of the role set
		m := rapid.Uint32().Draw(t, "mask")
		m &^= 1 << 28
		if rapid.IntRange(0, 9).Draw(t, "mask-allow") < 9 {
			i := opIdx(effOp)
			m |= 1<<(4*i+1) | 1<<(4*i+2) | 1<<(4*i+3)
		}
		if rapid.IntRange(0, 3).Draw(t, "mask-sticky") != 0 {
			m &^= 1 << 29
		}
		return m
	}
}

// genCase generates a case. With stored set, the case is a local (TTL 1) GET or
// HEAD of one of the catalogue objects kept in a real storage engine.
func genCase(t *rapid.T, stored bool) caseSpec {
	var c caseSpec
	c.Cat = -1

	c.Req = rapid.SampledFrom(reqKinds).Draw(t, "req")
	c.TTL = uint32(rapid.IntRange(1, 2).Draw(t, "ttl"))
	if stored {
		c.Req = rapid.SampledFrom([]string{kGet, kHead}).Draw(t, "stored-req")
		c.TTL = 1
		c.Cat = rapid.IntRange(0, len(catalogue)-1).Draw(t, "catalogue-object")
	}
	c.Owner = rapid.IntRange(0, nKeys-1).Draw(t, "owner")
	roleClass := rapid.SampledFrom([]string{"owner", "owner", "owner", "others", "others", "others", "others", "ir", "container", "container"}).Draw(t, "role-class")
	if roleClass == "owner" {
		c.Requester = c.Owner
		c.IR = genSubset(t, "ir", -1, -1)
		c.CN = genSubset(t, "cn", -1, -1)
	} else {
		c.Requester = (c.Owner + rapid.IntRange(1, nKeys-1).Draw(t, "requester-off")) % nKeys
		switch roleClass {
		case "ir":
			c.IR = genSubset(t, "ir", c.Requester, -1)
			c.CN = genSubset(t, "cn", -1, -1)
		case "container":
			c.IR = genSubset(t, "ir", -1, c.Requester)
			c.CN = genSubset(t, "cn", c.Requester, -1)
		default:
			c.IR = genSubset(t, "ir", -1, c.Requester)
			c.CN = genSubset(t, "cn", -1, c.Requester)
		}
	}
	c.XH = genKV(t, "xh", xhKeys, valuePool)

	// object: being put, or stored one for GET/HEAD
	c.Obj.Type = "REGULAR"
	if c.Req == kPut && rapid.IntRange(0, 4).Draw(t, "tombstone") == 0 {
		c.Obj.Type = "TOMBSTONE"
	}
	if rapid.IntRange(0, 2).Draw(t, "obj-owner-is-requester") != 0 || (c.Req != kPut && rapid.Bool().Draw(t, "obj-owner-is-requester2")) {
		c.Obj.Owner = c.Requester
	} else {
		c.Obj.Owner = rapid.IntRange(0, nKeys-1).Draw(t, "obj-owner")
	}
	c.Obj.Epoch = rapid.SampledFrom([]uint64{0, 5, 10, 11}).Draw(t, "obj-epoch")
	c.Obj.Size = rapid.SampledFrom([]uint64{0, 100, 1024}).Draw(t, "obj-size")
	c.Obj.Attrs = genKV(t, "attr", attrKeys, valuePool[:5]) // object attributes must have a value
	c.Obj.HasID = rapid.IntRange(0, 3).Draw(t, "obj-has-id") != 0
	c.RespForm = rapid.IntRange(0, 1).Draw(t, "resp-form")
	if stored {
		c.Obj = catalogue[c.Cat]
	}

	effOp := refEffectiveOp(c, refRole(c))
	c.Mask = genMask(t, c.Req, effOp)

	if rapid.IntRange(0, 4).Draw(t, "has-stored") != 0 {
		tb := genTable(t, "stored", effOp, c.Requester, reqOIDStr(c))
		tb.Cnr = 1
		c.Stored = &tb
	}

	if rapid.IntRange(0, 9).Draw(t, "has-bearer") < 4 {
		b := &bearerSpec{Issuer: c.Owner, ForUser: -1, Iat: 1, Nbf: 1, Exp: 100}
		b.Table = genTable(t, "bearer", effOp, c.Requester, reqOIDStr(c))
		b.Table.Cnr = rapid.SampledFrom([]int{0, 1, 1}).Draw(t, "bearer-cnr")
		if rapid.Bool().Draw(t, "bearer-for-requester") {
			b.ForUser = c.Requester
		}
		b.Kind = rapid.SampledFrom([]string{"valid", "valid", "valid", "valid", "valid", "valid",
			"non-owner-issuer", "other-container", "other-user", "expired", "not-yet-valid", "issued-in-future", "tampered",
			"edge-exp", "edge-nbf"}).Draw(t, "bearer-kind")
		switch b.Kind {
		case "non-owner-issuer":
			b.Issuer = (c.Owner + rapid.IntRange(1, nKeys-1).Draw(t, "issuer-off")) % nKeys
		case "other-container":
			b.Table.Cnr = 2
		case "other-user":
			b.ForUser = (c.Requester + rapid.IntRange(1, nKeys-1).Draw(t, "foruser-off")) % nKeys
		case "expired":
			b.Exp = uint64(rapid.IntRange(1, curEpoch-1).Draw(t, "exp"))
		case "not-yet-valid":
			b.Nbf = uint64(rapid.IntRange(curEpoch+1, curEpoch+5).Draw(t, "nbf"))
		case "issued-in-future":
			b.Iat = uint64(rapid.IntRange(curEpoch+1, curEpoch+5).Draw(t, "iat"))
		case "tampered":
			b.Tampered = true
		case "edge-exp":
			b.Exp = curEpoch
		case "edge-nbf":
			b.Nbf, b.Iat = curEpoch, curEpoch
		}
		// make the bearer bit of the effective operation mostly set, so that the token matters
		if rapid.IntRange(0, 3).Draw(t, "bearer-bit") != 0 {
			c.Mask |= 1 << (4 * opIdx(effOp))
		} else {
			c.Mask &^= 1 << (4 * opIdx(effOp))
		}
		c.Bearer = b
	}
	sort.Ints(c.IR)
	sort.Ints(c.CN)
	return c
}

package c28

import (
	"context"
	"crypto/sha256"
	"errors"
	"fmt"
	"time"

	"github.com/nspcc-dev/neo-go/pkg/core/block"
	"github.com/nspcc-dev/neo-go/pkg/core/transaction"
	"github.com/nspcc-dev/neo-go/pkg/crypto/keys"
	"github.com/nspcc-dev/neo-go/pkg/neorpc/result"
	"github.com/nspcc-dev/neo-go/pkg/smartcontract/trigger"
	"github.com/nspcc-dev/neo-go/pkg/util"
	isessions "github.com/nspcc-dev/neofs-node/internal/sessions"
	"github.com/nspcc-dev/neofs-node/pkg/local_object_storage/engine"
	"github.com/nspcc-dev/neofs-node/pkg/services/object/acl"
	aclsvc "github.com/nspcc-dev/neofs-node/pkg/services/object/acl/v2"
	"github.com/nspcc-dev/neofs-node/pkg/services/object/common"
	"github.com/nspcc-dev/neofs-sdk-go/bearer"
	apistatus "github.com/nspcc-dev/neofs-sdk-go/client/status"
	"github.com/nspcc-dev/neofs-sdk-go/container"
	basicacl "github.com/nspcc-dev/neofs-sdk-go/container/acl"
	cid "github.com/nspcc-dev/neofs-sdk-go/container/id"
	neofscrypto "github.com/nspcc-dev/neofs-sdk-go/crypto"
	"github.com/nspcc-dev/neofs-sdk-go/eacl"
	"github.com/nspcc-dev/neofs-sdk-go/netmap"
	"github.com/nspcc-dev/neofs-sdk-go/object"
	oid "github.com/nspcc-dev/neofs-sdk-go/object/id"
	protoobject "github.com/nspcc-dev/neofs-sdk-go/proto/object"
	"github.com/nspcc-dev/neofs-sdk-go/proto/refs"
	protosession "github.com/nspcc-dev/neofs-sdk-go/proto/session"
	"github.com/nspcc-dev/neofs-sdk-go/user"
	"go.uber.org/zap"
)

// ---------- deterministic universe ----------

type party struct {
	key    *keys.PrivateKey
	pub    []byte
	id     user.ID
	signer user.Signer
}

var (
	pool [nKeys]party
	cids [3]cid.ID // [1] requested container, [2] another one
	oids [3]oid.ID
)

func init() {
	for i := range pool {
		h := sha256.Sum256([]byte(fmt.Sprintf("verif C28 party %d", i)))
		k, err := keys.NewPrivateKeyFromBytes(h[:])
		if err != nil {
			panic(err)
		}
		pool[i].key = k
		pool[i].pub = k.PublicKey().Bytes()
		pool[i].signer = user.NewAutoIDSignerRFC6979(k.PrivateKey)
		pool[i].id = pool[i].signer.UserID()
	}
	for i := 1; i <= 2; i++ {
		cids[i] = cid.ID(sha256.Sum256([]byte(fmt.Sprintf("verif C28 container %d", i))))
		oids[i] = oid.ID(sha256.Sum256([]byte(fmt.Sprintf("verif C28 object %d", i))))
	}
}

// reqOID is the ID of the requested object (PUT: of the object being saved).
func reqOID(c caseSpec) oid.ID {
	if c.Cat >= 0 {
		return catalogueID(c.Cat)
	}
	return oids[1]
}
func reqOIDStr(c caseSpec) string { return reqOID(c).EncodeToString() }

func cidStr(i int) string  { return cids[i].EncodeToString() }
func oidStr(i int) string  { return oids[i].EncodeToString() }
func userStr(i int) string { return pool[i].id.EncodeToString() }

// ---------- fakes of the node's environment ----------

type fakeFSChain struct{ cn map[cid.ID][][]byte }

func (x *fakeFSChain) InvokeContainedScript(*transaction.Transaction, *block.Header, *trigger.Type, *bool) (*result.Invoke, error) {
	return nil, errors.New("N3 witnesses are not used by the C28 harness")
}
func (x *fakeFSChain) InContainerInLastTwoEpochs(id cid.ID, pub []byte) (bool, error) {
	for _, k := range x.cn[id] {
		if string(k) == string(pub) {
			return true, nil
		}
	}
	return false, nil
}
func (x *fakeFSChain) HasUserInNNS(string, util.Uint160) (bool, error) { return false, nil }

type fakeIR struct{ keys [][]byte }

func (x *fakeIR) InnerRingKeys() [][]byte { return x.keys }

type fakeTime struct{}

func (fakeTime) Now() time.Time { return time.Unix(1_700_000_000, 0) }

type fakeContainers struct {
	m map[cid.ID]container.Container
}

func (x *fakeContainers) Get(id cid.ID) (container.Container, error) {
	c, ok := x.m[id]
	if !ok {
		return container.Container{}, apistatus.ErrContainerNotFound
	}
	return c, nil
}

type fakeNetmapper struct{}

func (fakeNetmapper) GetNetMapByEpoch(uint64) (*netmap.NetMap, error) {
	return nil, errors.New("unused")
}
func (fakeNetmapper) GetEpochBlockByTime(uint32) (uint32, error) { return 0, errors.New("unused") }
func (fakeNetmapper) Epoch() (uint64, error)                     { return curEpoch, nil }
func (fakeNetmapper) NetMap() (*netmap.NetMap, error)            { return nil, errors.New("unused") }
func (fakeNetmapper) ServerInContainer(cid.ID) (bool, error)     { return true, nil }
func (fakeNetmapper) GetEpochBlock(uint64) (uint32, error)       { return 0, errors.New("unused") }

type fakeEACLs struct{ m map[cid.ID]eacl.Table }

func (x *fakeEACLs) GetEACL(id cid.ID) (eacl.Table, error) {
	t, ok := x.m[id]
	if !ok {
		return eacl.Table{}, apistatus.ErrEACLNotFound
	}
	return t, nil
}

type fakeHeaders struct{}

func (fakeHeaders) Head(context.Context, oid.Address) (*object.Object, error) {
	return nil, apistatus.ErrObjectNotFound
}

// sut is the real ACL machinery of the node on top of the fakes.
type sut struct {
	svc     aclsvc.Service
	checker *acl.Checker
	fs      *fakeFSChain
	ir      *fakeIR
	cnrs    *fakeContainers
	eacls   *fakeEACLs
}

func newSUT() *sut {
	s := &sut{fs: &fakeFSChain{}, ir: &fakeIR{}, cnrs: &fakeContainers{}, eacls: &fakeEACLs{}}
	s.svc = aclsvc.New(s.fs, isessions.NewObjectSessionsCache(4),
		aclsvc.WithContainerSource(s.cnrs),
		aclsvc.WithNetmapper(fakeNetmapper{}),
		aclsvc.WithIRFetcher(s.ir),
		aclsvc.WithTimeProvider(fakeTime{}),
		aclsvc.WithLogger(zap.NewNop()),
	)
	s.checker = acl.NewChecker(new(acl.CheckerPrm).
		SetLocalStorage(engine.New()). // empty engine: no object is stored locally
		SetValidator(eacl.NewValidator()).
		SetEACLSource(s.eacls).
		SetHeaderSource(fakeHeaders{}))
	return s
}

func pubs(idx []int) [][]byte {
	res := make([][]byte, 0, len(idx))
	for _, i := range idx {
		res = append(res, pool[i].pub)
	}
	return res
}

func buildTable(ts tableSpec) eacl.Table {
	rs := make([]eacl.Record, 0, len(ts.Records))
	for _, r := range ts.Records {
		a := eacl.ActionAllow
		if r.Deny {
			a = eacl.ActionDeny
		}
		var tgs []eacl.Target
		for _, t := range r.Targets {
			if len(t.Keys) > 0 || len(t.Accs) > 0 {
				var subjs [][]byte
				for _, k := range t.Keys {
					subjs = append(subjs, pool[k].pub)
				}
				for _, a := range t.Accs {
					subjs = append(subjs, pool[a].id[:])
				}
				var tg eacl.Target
				tg.SetRawSubjects(subjs)
				tgs = append(tgs, tg)
				continue
			}
			role := map[string]eacl.Role{"user": eacl.RoleUser, "others": eacl.RoleOthers, "system": eacl.RoleSystem, "unspec": eacl.RoleUnspecified}[t.Role]
			tgs = append(tgs, eacl.NewTargetByRole(role))
		}
		var fs []eacl.Filter
		for _, f := range r.Filters {
			from := eacl.HeaderFromRequest
			if f.From == "obj" {
				from = eacl.HeaderFromObject
			}
			m := map[string]eacl.Match{"EQ": eacl.MatchStringEqual, "NE": eacl.MatchStringNotEqual, "NP": eacl.MatchNotPresent,
				"GT": eacl.MatchNumGT, "GE": eacl.MatchNumGE, "LT": eacl.MatchNumLT, "LE": eacl.MatchNumLE}[f.M]
			fs = append(fs, eacl.ConstructFilter(from, f.Key, m, f.Val))
		}
		rs = append(rs, eacl.ConstructRecord(a, eacl.Operation(opIdx(r.Op)+1), tgs, fs...))
	}
	if ts.Cnr != 0 {
		return eacl.NewTableForContainer(cids[ts.Cnr], rs)
	}
	return eacl.ConstructTable(rs)
}

func buildBearer(b *bearerSpec) bearer.Token {
	var bt bearer.Token
	bt.SetEACLTable(buildTable(b.Table))
	if b.ForUser >= 0 {
		bt.ForUser(pool[b.ForUser].id)
	}
	bt.SetIat(b.Iat)
	bt.SetNbf(b.Nbf)
	bt.SetExp(b.Exp)
	if err := bt.Sign(pool[b.Issuer].signer); err != nil {
		panic(err)
	}
	if b.Tampered {
		bt.SetExp(b.Exp + 1) // body changed after signing
	}
	return bt
}

// configure loads the case's chain state into the fakes.
func (s *sut) configure(c caseSpec) {
	var cnr container.Container
	cnr.SetOwner(pool[c.Owner].id)
	var b basicacl.Basic
	b.FromBits(c.Mask)
	cnr.SetBasicACL(b)
	var rd netmap.ReplicaDescriptor
	rd.SetNumberOfObjects(1)
	var pp netmap.PlacementPolicy
	pp.SetReplicas([]netmap.ReplicaDescriptor{rd})
	cnr.SetPlacementPolicy(pp)
	var other container.Container
	other.SetOwner(pool[(c.Owner+1)%nKeys].id)
	other.SetBasicACL(b)
	s.cnrs.m = map[cid.ID]container.Container{cids[1]: cnr, cids[2]: other}
	s.ir.keys = pubs(c.IR)
	s.fs.cn = map[cid.ID][][]byte{cids[1]: pubs(c.CN)}
	s.eacls.m = map[cid.ID]eacl.Table{}
	if c.Stored != nil {
		s.eacls.m[cids[1]] = buildTable(*c.Stored)
	}
}

func objectHeader(c caseSpec) *protoobject.Header {
	h := &protoobject.Header{
		ContainerId:   cids[1].ProtoMessage(),
		OwnerId:       pool[c.Obj.Owner].id.ProtoMessage(),
		CreationEpoch: c.Obj.Epoch,
		PayloadLength: c.Obj.Size,
	}
	if c.Obj.Type == "TOMBSTONE" {
		h.ObjectType = protoobject.ObjectType_TOMBSTONE
	}
	for _, kv := range c.Obj.Attrs {
		h.Attributes = append(h.Attributes, &protoobject.Header_Attribute{Key: kv[0], Value: kv[1]})
	}
	return h
}

func metaHeader(c caseSpec) *protosession.RequestMetaHeader {
	m := &protosession.RequestMetaHeader{Ttl: c.TTL}
	for _, kv := range c.XH {
		m.XHeaders = append(m.XHeaders, &protosession.XHeader{Key: kv[0], Value: kv[1]})
	}
	if c.Bearer != nil {
		bt := buildBearer(c.Bearer)
		m.BearerToken = bt.ProtoMessage()
	}
	return m
}

func address(c caseSpec) *refs.Address {
	return &refs.Address{ContainerId: cids[1].ProtoMessage(), ObjectId: reqOID(c).ProtoMessage()}
}

func mustSign[B neofscrypto.ProtoMessage](signer neofscrypto.Signer, r neofscrypto.SignedRequest[B]) *protosession.RequestVerificationHeader {
	vh, err := neofscrypto.SignRequestWithBuffer(signer, r, nil)
	if err != nil {
		panic(err)
	}
	return vh
}

// buildRequest returns the signed request of the case (one of the six request types).
func buildRequest(c caseSpec) any {
	signer := pool[c.Requester].signer
	meta := metaHeader(c)
	switch c.Req {
	case kGet:
		r := &protoobject.GetRequest{Body: &protoobject.GetRequest_Body{Address: address(c)}, MetaHeader: meta}
		r.VerifyHeader = mustSign(signer, r)
		return r
	case kHead:
		r := &protoobject.HeadRequest{Body: &protoobject.HeadRequest_Body{Address: address(c)}, MetaHeader: meta}
		r.VerifyHeader = mustSign(signer, r)
		return r
	case kDelete:
		r := &protoobject.DeleteRequest{Body: &protoobject.DeleteRequest_Body{Address: address(c)}, MetaHeader: meta}
		r.VerifyHeader = mustSign(signer, r)
		return r
	case kRange:
		r := &protoobject.GetRangeRequest{Body: &protoobject.GetRangeRequest_Body{Address: address(c), Range: &protoobject.Range{Length: 1}}, MetaHeader: meta}
		r.VerifyHeader = mustSign(signer, r)
		return r
	case kSearch:
		r := &protoobject.SearchV2Request{Body: &protoobject.SearchV2Request_Body{ContainerId: cids[1].ProtoMessage(), Version: 1, Count: 1}, MetaHeader: meta}
		r.VerifyHeader = mustSign(signer, r)
		return r
	case kPut:
		init := &protoobject.PutRequest_Body_Init{Header: objectHeader(c)}
		if c.Obj.HasID {
			init.ObjectId = reqOID(c).ProtoMessage()
		}
		r := &protoobject.PutRequest{Body: &protoobject.PutRequest_Body{ObjectPart: &protoobject.PutRequest_Body_Init_{Init: init}}, MetaHeader: meta}
		r.VerifyHeader = mustSign(signer, r)
		return r
	}
	panic("bad request kind " + c.Req)
}

type sutResult struct {
	Allow bool
	Stage string
	Err   error
}

// composed runs the decision exactly in the order of the server handlers
// (pkg/services/object/server.go): bearer token message verification
// (_handleRequestMetaHeader) -> *RequestToInfo -> CheckBasicACL ->
// StickyBitCheck (Put only) -> CheckEACL on the request, ErrNotMatched being
// "follow basic ACL"; for Get/Head a not-matched request stage is followed by
// CheckEACL on the header read from the storage.
func (s *sut) composed(c caseSpec, req any) sutResult {
	ctx := context.Background()
	var tokens common.RequestTokens
	meta := req.(interface {
		GetMetaHeader() *protosession.RequestMetaHeader
	}).GetMetaHeader()
	if meta.BearerToken != nil {
		tok, err := s.svc.VerifyBearerTokenMessage(meta.BearerToken)
		if err != nil {
			return sutResult{false, "bearer-verify", err}
		}
		tokens.Bearer = &tok
	}

	var (
		info     aclsvc.RequestInfo
		err      error
		objOwner user.ID
		objID    = reqOID(c)
	)
	switch r := req.(type) {
	case *protoobject.GetRequest:
		info, err = s.svc.GetRequestToInfo(ctx, r, cids[1], tokens)
	case *protoobject.HeadRequest:
		info, err = s.svc.HeadRequestToInfo(ctx, r, cids[1], tokens)
	case *protoobject.DeleteRequest:
		info, err = s.svc.DeleteRequestToInfo(ctx, r, cids[1], tokens)
	case *protoobject.GetRangeRequest:
		info, err = s.svc.RangeRequestToInfo(ctx, r, cids[1], tokens)
	case *protoobject.SearchV2Request:
		info, err = s.svc.SearchV2RequestToInfo(ctx, r, cids[1], tokens)
		objID = oid.ID{}
	case *protoobject.PutRequest:
		init := r.Body.ObjectPart.(*protoobject.PutRequest_Body_Init_).Init
		op := basicacl.OpObjectPut
		if init.Header.GetObjectType() == protoobject.ObjectType_TOMBSTONE {
			op = basicacl.OpObjectDelete
		}
		if init.ObjectId == nil {
			objID = oid.ID{}
		}
		info, objOwner, err = s.svc.PutRequestToInfo(ctx, r, init, cids[1], op, tokens)
	}
	if err != nil {
		return sutResult{false, "request-info", err}
	}
	if !s.checker.CheckBasicACL(info) {
		return sutResult{false, "basic", nil}
	}
	if c.Req == kPut && !s.checker.StickyBitCheck(info, objOwner) {
		return sutResult{false, "sticky", nil}
	}
	err = s.checker.CheckEACL(ctx, req, cids[1], objID, info)
	if err == nil {
		return sutResult{true, "request-stage", nil}
	}
	if !errors.Is(err, aclsvc.ErrNotMatched) {
		return sutResult{false, "eacl-request-stage", err}
	}
	if c.Req != kGet && c.Req != kHead {
		return sutResult{true, "request-stage-not-matched", nil}
	}
	// the handler has read the object: re-check with its header
	hdr := objectHeader(c)
	var msg any
	switch {
	case c.RespForm == 1:
		b := make([]byte, hdr.MarshaledSize())
		hdr.MarshalStable(b)
		msg = b
	case c.Req == kGet:
		msg = &protoobject.GetResponse{Body: &protoobject.GetResponse_Body{ObjectPart: &protoobject.GetResponse_Body_Init_{
			Init: &protoobject.GetResponse_Body_Init{ObjectId: reqOID(c).ProtoMessage(), Header: hdr}}}}
	default:
		msg = &protoobject.HeadResponse{Body: &protoobject.HeadResponse_Body{Head: &protoobject.HeadResponse_Body_Header{
			Header: &protoobject.HeaderWithSignature{Header: hdr}}}}
	}
	err = s.checker.CheckEACL(ctx, msg, cids[1], objID, info)
	if err != nil && !errors.Is(err, aclsvc.ErrNotMatched) {
		return sutResult{false, "eacl-response-stage", err}
	}
	return sutResult{true, "response-stage", nil}
}

func roleOf(role string) basicacl.Role {
	switch role {
	case "owner":
		return basicacl.RoleOwner
	case "container":
		return basicacl.RoleContainer
	case "ir":
		return basicacl.RoleInnerRing
	}
	return basicacl.RoleOthers
}

func directInfo(mask uint32, op, role string, requester int) aclsvc.RequestInfo {
	var cnr container.Container
	var b basicacl.Basic
	b.FromBits(mask)
	cnr.SetBasicACL(b)
	id := pool[requester].id
	return aclsvc.RequestInfo{RequestRole: roleOf(role), Operation: basicacl.Op(opIdx(op) + 1), Container: cnr,
		SenderKey: pool[requester].pub, SenderAccount: &id}
}

func (s *sut) directBasic(mask uint32, op, role string, requester int) bool {
	return s.checker.CheckBasicACL(directInfo(mask, op, role, requester))
}

func (s *sut) directSticky(mask uint32, role string, requester, objOwner int) bool {
	return s.checker.StickyBitCheck(directInfo(mask, kPut, role, requester), pool[objOwner].id)
}

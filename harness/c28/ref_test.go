package c28

import (
	"math/big"
	"strconv"
)

// Independent reference decision for C28, written from the property statement
// and the NeoFS ACL specification (basic ACL bit layout, roles, sticky bit,
// extended ACL table selection and record matching). It works on caseSpec data
// only (identities are compared as indices into the key pool / as the canonical
// strings of container, object and user IDs) and never calls neofs-node.

type refResult struct {
	Allow bool
	Why   string // stage that decided
	// MatchedRecord: an eACL record matched (the decision came from a record)
	MatchedRecord bool
	// EACLConsulted: an eACL table was evaluated (extendable, non-system role, table exists)
	EACLConsulted bool
	// UsedBearer: the evaluated table was the bearer token's one
	UsedBearer bool
	// NeedsObject: before reaching the decision a record applicable to the
	// requester had a filter over object headers (for GET/HEAD the node can
	// evaluate it only after it has read the object)
	NeedsObject bool
	Role        string
	Op          string
}

func refRole(c caseSpec) string {
	switch {
	case c.Requester == c.Owner:
		return "owner"
	case contains(c.IR, c.Requester):
		return "ir"
	case contains(c.CN, c.Requester):
		return "container"
	}
	return "others"
}

// refEffectiveOp: saving a tombstone is a removal, except for intra-container
// replication (container node, TTL 1) which stays a PUT.
func refEffectiveOp(c caseSpec, role string) string {
	if c.Req == kPut && c.Obj.Type == "TOMBSTONE" && !(role == "container" && c.TTL == 1) {
		return kDelete
	}
	return c.Req
}

func refBasicAllowed(mask uint32, op, role string) bool {
	var bit uint
	switch role {
	case "ir": // audit operations only, not configurable
		return op == kGet || op == kHead || op == kSearch || op == kHash
	case "container":
		if op == kGet || op == kHead || op == kPut || op == kSearch || op == kHash {
			return true // replication operations are always allowed to container nodes
		}
		bit = 2
	case "owner":
		bit = 3
	default:
		bit = 1
	}
	return mask>>(4*opIdx(op)+bit)&1 == 1
}

func refBearerBit(mask uint32, op string) bool { return mask>>(4*opIdx(op))&1 == 1 }
func refFinal(mask uint32) bool                { return mask>>28&1 == 1 }
func refSticky(mask uint32) bool               { return mask>>29&1 == 1 }

func refBearerValid(c caseSpec) (bool, string) {
	b := c.Bearer
	if !(b.Nbf <= curEpoch && b.Iat <= curEpoch && b.Exp >= curEpoch) {
		return false, "bearer-lifetime"
	}
	if b.Tampered {
		return false, "bearer-signature"
	}
	if b.Issuer != c.Owner {
		return false, "bearer-issuer"
	}
	if b.Table.Cnr == 2 {
		return false, "bearer-container"
	}
	if b.ForUser >= 0 && b.ForUser != c.Requester {
		return false, "bearer-user"
	}
	return true, ""
}

type hdrs map[string][]string

func refRequestHeaders(c caseSpec) hdrs {
	h := hdrs{}
	for _, kv := range c.XH {
		h[kv[0]] = append(h[kv[0]], kv[1])
	}
	return h
}

// refObjectHeaders returns the object headers that exist for the request
// according to the API: the whole header for PUT (from the request) and for
// GET/HEAD (from the stored object), the address only for RANGE/DELETE, the
// container for SEARCH.
func refObjectHeaders(c caseSpec) hdrs {
	h := hdrs{hCID: {cidStr(1)}}
	switch c.Req {
	case kSearch:
		return h
	case kRange, kDelete:
		h[hOID] = []string{reqOIDStr(c)}
		return h
	case kPut:
		if c.Obj.HasID {
			h[hOID] = []string{reqOIDStr(c)}
		}
	default:
		h[hOID] = []string{reqOIDStr(c)}
	}
	h[hOwner] = []string{userStr(c.Obj.Owner)}
	h[hType] = []string{c.Obj.Type}
	h[hEpoch] = []string{strconv.FormatUint(c.Obj.Epoch, 10)}
	h[hSize] = []string{strconv.FormatUint(c.Obj.Size, 10)}
	for _, kv := range c.Obj.Attrs {
		h[kv[0]] = append(h[kv[0]], kv[1])
	}
	return h
}

func refFilterMatches(f filterSpec, h hdrs) bool {
	vals, present := h[f.Key]
	switch f.M {
	case "NP":
		return !present
	case "EQ", "NE":
		for _, v := range vals {
			if (v == f.Val) == (f.M == "EQ") {
				return true
			}
		}
		return false
	}
	fv, ok := new(big.Int).SetString(f.Val, 10)
	if !ok {
		return false // malformed numeric rule never matches
	}
	for _, v := range vals {
		hv, ok := new(big.Int).SetString(v, 10)
		if !ok {
			continue
		}
		cmp := hv.Cmp(fv)
		switch f.M {
		case "GT":
			ok = cmp > 0
		case "GE":
			ok = cmp >= 0
		case "LT":
			ok = cmp < 0
		case "LE":
			ok = cmp <= 0
		}
		if ok {
			return true
		}
	}
	return false
}

func refTargetMatches(ts []targetSpec, role string, requester int) bool {
	eaclRole := "others"
	if role == "owner" {
		eaclRole = "user"
	}
	for _, t := range ts {
		if len(t.Keys) > 0 || len(t.Accs) > 0 {
			if contains(t.Keys, requester) || contains(t.Accs, requester) {
				return true
			}
			continue
		}
		if t.Role == eaclRole { // "system" and "unspec" never describe a user or a stranger
			return true
		}
	}
	return false
}

func refDecide(c caseSpec) refResult {
	role := refRole(c)
	op := refEffectiveOp(c, role)
	res := refResult{Role: role, Op: op}
	deny := func(why string) refResult { res.Allow, res.Why = false, why; return res }
	allow := func(why string) refResult { res.Allow, res.Why = true, why; return res }

	// a request carrying a bearer token that is not valid for it is rejected
	if c.Bearer != nil {
		if ok, why := refBearerValid(c); !ok {
			return deny(why)
		}
	}
	if !refBasicAllowed(c.Mask, op, role) {
		return deny("basic")
	}
	if c.Req == kPut && role != "container" && refSticky(c.Mask) && c.Obj.Owner != c.Requester {
		return deny("sticky")
	}
	if refFinal(c.Mask) {
		return allow("final")
	}
	if role == "ir" || role == "container" {
		return allow("system-role")
	}
	table := c.Stored
	if c.Bearer != nil && refBearerBit(c.Mask, op) {
		table = &c.Bearer.Table
		res.UsedBearer = true
	}
	if table == nil {
		return allow("no-eacl")
	}
	res.EACLConsulted = true
	rh, oh := refRequestHeaders(c), refObjectHeaders(c)
	for _, r := range table.Records {
		if r.Op != op || !refTargetMatches(r.Targets, role, c.Requester) {
			continue
		}
		all := true
		for _, f := range r.Filters {
			h := rh
			if f.From == "obj" {
				h = oh
				res.NeedsObject = true
			}
			if !refFilterMatches(f, h) {
				all = false
			}
		}
		if all {
			res.MatchedRecord = true
			if r.Deny {
				return deny("eacl-record")
			}
			return allow("eacl-record")
		}
	}
	return allow("eacl-no-match")
}

package c28

import (
	"context"
	"crypto/ecdsa"
	"errors"
	"fmt"
	"io"

	"github.com/nspcc-dev/neo-go/pkg/core/block"
	"github.com/nspcc-dev/neo-go/pkg/core/transaction"
	"github.com/nspcc-dev/neo-go/pkg/neorpc/result"
	"github.com/nspcc-dev/neo-go/pkg/smartcontract/trigger"
	iec "github.com/nspcc-dev/neofs-node/internal/ec"
	clientcore "github.com/nspcc-dev/neofs-node/pkg/core/client"
	objectcore "github.com/nspcc-dev/neofs-node/pkg/core/object"
	objectsvc "github.com/nspcc-dev/neofs-node/pkg/services/object"
	deletesvc "github.com/nspcc-dev/neofs-node/pkg/services/object/delete"
	getsvc "github.com/nspcc-dev/neofs-node/pkg/services/object/get"
	putsvc "github.com/nspcc-dev/neofs-node/pkg/services/object/put"
	objutil "github.com/nspcc-dev/neofs-node/pkg/services/object/util"
	"github.com/nspcc-dev/neofs-sdk-go/client"
	apistatus "github.com/nspcc-dev/neofs-sdk-go/client/status"
	"github.com/nspcc-dev/neofs-sdk-go/container"
	cid "github.com/nspcc-dev/neofs-sdk-go/container/id"
	"github.com/nspcc-dev/neofs-sdk-go/netmap"
	"github.com/nspcc-dev/neofs-sdk-go/object"
	protoobject "github.com/nspcc-dev/neofs-sdk-go/proto/object"
	protostatus "github.com/nspcc-dev/neofs-sdk-go/proto/status"
	sessionv2 "github.com/nspcc-dev/neofs-sdk-go/session/v2"
	"github.com/nspcc-dev/neofs-sdk-go/stat"
	"github.com/nspcc-dev/neofs-sdk-go/user"
	"go.uber.org/zap"
	"google.golang.org/grpc"
	"google.golang.org/grpc/metadata"
	"time"
)

const codeAccessDenied = 2048 // SECTION_OBJECT*1024 + ACCESS_DENIED

// reach records which backend the server touched after the access decision.
type reach struct{ hits []string }

func (r *reach) hit(s string) { r.hits = append(r.hits, s) }

type fakeHandlers struct {
	r   *reach
	put *putsvc.Service
}

func (h fakeHandlers) Get(context.Context, getsvc.Prm) error {
	h.r.hit("get")
	return apistatus.ErrObjectNotFound
}
func (h fakeHandlers) Head(context.Context, getsvc.HeadPrm) error {
	h.r.hit("head")
	return apistatus.ErrObjectNotFound
}
func (h fakeHandlers) Delete(context.Context, deletesvc.Prm) error {
	h.r.hit("delete")
	return apistatus.ErrObjectNotFound
}
func (h fakeHandlers) GetRange(context.Context, getsvc.RangePrm) error {
	h.r.hit("range")
	return apistatus.ErrObjectNotFound
}
func (h fakeHandlers) Put(ctx context.Context) (*putsvc.Streamer, error) { return h.put.Put(ctx) }

// put backend: the payment check is the first dependency consulted by
// Streamer.Init after the local key; the container source then fails the
// initialisation cleanly.
type fakePayments struct{ r *reach }

func (p fakePayments) UnpaidSince(cid.ID) (int64, error) { p.r.hit("put"); return -1, nil }

type failingContainers struct{}

func (failingContainers) Get(cid.ID) (container.Container, error) {
	return container.Container{}, errors.New("C28 harness: put backend stops here")
}

type srvFSChain struct {
	cnrs *fakeContainers
	fs   *fakeFSChain
	r    *reach
}

func (x srvFSChain) Get(id cid.ID) (container.Container, error) { return x.cnrs.Get(id) }
func (x srvFSChain) CurrentEpoch() uint64                       { return curEpoch }
func (x srvFSChain) CurrentBlock() uint32                       { return 1000 }
func (x srvFSChain) CurrentEpochDuration() uint64               { return 240 }
func (x srvFSChain) InvokeContainedScript(tx *transaction.Transaction, h *block.Header, t *trigger.Type, b *bool) (*result.Invoke, error) {
	return x.fs.InvokeContainedScript(tx, h, t, b)
}
func (x srvFSChain) ForEachContainerNodePublicKey(id cid.ID, f func([]byte) bool) error {
	for _, k := range x.fs.cn[id] {
		if !f(k) {
			break
		}
	}
	return nil
}
func (x srvFSChain) ForEachContainerNodePublicKeyInLastTwoEpochs(id cid.ID, f func([]byte) bool) error {
	return x.ForEachContainerNodePublicKey(id, f)
}
func (x srvFSChain) SelectContainerNodes(cid.ID) ([][]netmap.NodeInfo, []uint, []iec.Rule, error) {
	x.r.hit("select-nodes") // SEARCH with TTL>1 starts its work here
	return nil, nil, nil, errors.New("C28 harness: no network map")
}
func (x srvFSChain) IsOwnPublicKey([]byte) bool      { return false }
func (x srvFSChain) LocalNodeUnderMaintenance() bool { return false }

type srvStorage struct{ r *reach }

func (s srvStorage) GetSessionPrivateKey(user.ID) (ecdsa.PrivateKey, error) {
	return ecdsa.PrivateKey{}, apistatus.ErrSessionTokenNotFound
}
func (s srvStorage) GetSessionV2PrivateKey([]sessionv2.Target) (ecdsa.PrivateKey, error) {
	return ecdsa.PrivateKey{}, apistatus.ErrSessionTokenNotFound
}
func (s srvStorage) VerifyAndStoreObjectLocally(context.Context, object.Object) error {
	s.r.hit("store")
	return errors.New("unexpected")
}
func (s srvStorage) SearchObjects(context.Context, cid.ID, []objectcore.SearchFilter, []string, *objectcore.SearchCursor, uint16) ([]client.SearchResultItem, []byte, error) {
	s.r.hit("search")
	return nil, nil, nil
}

type nopMetrics struct{}

func (nopMetrics) HandleOpExecResult(stat.Method, bool, time.Duration) {}
func (nopMetrics) AddPutPayload(int)                                   {}
func (nopMetrics) AddGetPayload(int)                                   {}

type noClients struct{}

func (noClients) Get(context.Context, netmap.NodeInfo) (clientcore.MultiAddressClient, error) {
	return nil, errors.New("C28 harness: no remote nodes")
}

// gRPC stream fakes
type baseStream struct{}

func (baseStream) SetHeader(metadata.MD) error  { return nil }
func (baseStream) SendHeader(metadata.MD) error { return nil }
func (baseStream) SetTrailer(metadata.MD)       {}
func (baseStream) Context() context.Context     { return context.Background() }
func (baseStream) SendMsg(any) error            { return errors.New("C28 harness: unexpected SendMsg") }
func (baseStream) RecvMsg(any) error            { return errors.New("C28 harness: unexpected RecvMsg") }

var _ grpc.ServerStream = baseStream{}

type getStreamFake struct {
	baseStream
	resps []*protoobject.GetResponse
}

func (s *getStreamFake) Send(r *protoobject.GetResponse) error {
	s.resps = append(s.resps, r)
	return nil
}

type rangeStreamFake struct {
	baseStream
	resps []*protoobject.GetRangeResponse
}

func (s *rangeStreamFake) Send(r *protoobject.GetRangeResponse) error {
	s.resps = append(s.resps, r)
	return nil
}

type putStreamFake struct {
	baseStream
	reqs []*protoobject.PutRequest
	resp *protoobject.PutResponse
}

func (s *putStreamFake) Recv() (*protoobject.PutRequest, error) {
	if len(s.reqs) == 0 {
		return nil, io.EOF
	}
	r := s.reqs[0]
	s.reqs = s.reqs[1:]
	return r, nil
}
func (s *putStreamFake) SendAndClose(r *protoobject.PutResponse) error { s.resp = r; return nil }

type srvSUT struct {
	*sut
	r   *reach
	srv *objectsvc.Server
}

func newServerSUT() *srvSUT {
	s := &srvSUT{sut: newSUT(), r: &reach{}}
	nodeKey := pool[nKeys-1].key.PrivateKey // the serving node's key; never used as a requester-relevant identity
	put := putsvc.NewService(nil, nil, nil, nil, fakePayments{s.r},
		putsvc.WithKeyStorage(objutil.NewKeyStorage(&nodeKey, nil, nil)),
		putsvc.WithContainerSource(failingContainers{}),
		putsvc.WithLogger(zap.NewNop()),
	)
	s.srv = objectsvc.New(fakeHandlers{r: s.r, put: put}, srvFSChain{cnrs: s.cnrs, fs: s.fs, r: s.r}, srvStorage{s.r}, nil,
		nodeKey, nopMetrics{}, s.checker, &s.svc, noClients{}, zap.NewNop())
	return s
}

type srvResult struct {
	Code    uint32
	Message string
	Reached []string
}

func statusOf(st *protostatus.Status) (uint32, string) { return st.GetCode(), st.GetMessage() }

// serve sends the request through the real object server and returns the
// response status together with the backends reached.
func (s *srvSUT) serve(req any) (res srvResult, err error) {
	s.r.hits = nil
	ctx := context.Background()
	switch r := req.(type) {
	case *protoobject.GetRequest:
		st := &getStreamFake{}
		if err = s.srv.Get(r, st); err != nil {
			return res, err
		}
		if len(st.resps) != 1 {
			return res, fmt.Errorf("GET: %d responses", len(st.resps))
		}
		res.Code, res.Message = statusOf(st.resps[0].GetMetaHeader().GetStatus())
	case *protoobject.GetRangeRequest:
		st := &rangeStreamFake{}
		if err = s.srv.GetRange(r, st); err != nil {
			return res, err
		}
		if len(st.resps) != 1 {
			return res, fmt.Errorf("RANGE: %d responses", len(st.resps))
		}
		res.Code, res.Message = statusOf(st.resps[0].GetMetaHeader().GetStatus())
	case *protoobject.HeadRequest:
		resp, ok := s.srv.HeadBuffered(ctx, r).(*protoobject.HeadResponse)
		if !ok {
			return res, errors.New("HEAD: buffered response although the handler found nothing")
		}
		res.Code, res.Message = statusOf(resp.GetMetaHeader().GetStatus())
	case *protoobject.DeleteRequest:
		resp, e := s.srv.Delete(ctx, r)
		if e != nil {
			return res, e
		}
		res.Code, res.Message = statusOf(resp.GetMetaHeader().GetStatus())
	case *protoobject.SearchV2Request:
		resp, ok := s.srv.SearchV2Buffered(ctx, r).(*protoobject.SearchV2Response)
		if !ok {
			return res, errors.New("SEARCH: unexpected buffered response")
		}
		res.Code, res.Message = statusOf(resp.GetMetaHeader().GetStatus())
	case *protoobject.PutRequest:
		st := &putStreamFake{reqs: []*protoobject.PutRequest{r}}
		if err = s.srv.Put(st); err != nil {
			return res, err
		}
		if st.resp == nil {
			return res, errors.New("PUT: no response")
		}
		res.Code, res.Message = statusOf(st.resp.GetMetaHeader().GetStatus())
	default:
		return res, fmt.Errorf("unexpected request %T", req)
	}
	res.Reached = append([]string(nil), s.r.hits...)
	return res, nil
}

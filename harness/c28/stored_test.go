package c28

import (
	"context"
	"crypto/sha256"
	"errors"
	"fmt"
	"path/filepath"

	iec "github.com/nspcc-dev/neofs-node/internal/ec"
	"github.com/nspcc-dev/neofs-node/pkg/local_object_storage/blobstor/fstree"
	"github.com/nspcc-dev/neofs-node/pkg/local_object_storage/engine"
	meta "github.com/nspcc-dev/neofs-node/pkg/local_object_storage/metabase"
	"github.com/nspcc-dev/neofs-node/pkg/local_object_storage/shard"
	objectsvc "github.com/nspcc-dev/neofs-node/pkg/services/object"
	"github.com/nspcc-dev/neofs-node/pkg/services/object/acl"
	getsvc "github.com/nspcc-dev/neofs-node/pkg/services/object/get"
	putsvc "github.com/nspcc-dev/neofs-node/pkg/services/object/put"
	objutil "github.com/nspcc-dev/neofs-node/pkg/services/object/util"
	"github.com/nspcc-dev/neofs-sdk-go/checksum"
	"github.com/nspcc-dev/neofs-sdk-go/eacl"
	"github.com/nspcc-dev/neofs-sdk-go/netmap"
	"github.com/nspcc-dev/neofs-sdk-go/object"
	oid "github.com/nspcc-dev/neofs-sdk-go/object/id"
	protoobject "github.com/nspcc-dev/neofs-sdk-go/proto/object"
	"github.com/nspcc-dev/neofs-sdk-go/version"
	"go.uber.org/zap"
	"google.golang.org/grpc/mem"
	"google.golang.org/protobuf/proto"
)

// catalogue of objects really stored in a local storage engine; GET/HEAD cases
// of TestC28ServerStored request one of them, so that the object server reads
// a real header and runs its second eACL stage itself.
var catalogue = func() []objSpec {
	var res []objSpec
	attrs := [][][2]string{nil, {{"ak1", "a"}}, {{"ak1", "10"}, {"ak2", "b"}}, {{"ak2", "7"}}}
	i := 0
	for _, owner := range []int{0, 1, 2} {
		for _, epoch := range []uint64{0, 10, 11} {
			res = append(res, objSpec{Owner: owner, Type: "REGULAR", Epoch: epoch, Size: []uint64{0, 100, 1024}[i%3], Attrs: attrs[i%4], HasID: true})
			i++
		}
	}
	return res
}()

func catalogueID(k int) oid.ID {
	if k == 0 {
		return oids[1]
	}
	return oid.ID(sha256.Sum256([]byte(fmt.Sprintf("verif C28 stored object %d", k))))
}

func storedObject(k int) *object.Object {
	sp := catalogue[k]
	var o object.Object
	ver := version.Current()
	o.SetVersion(&ver)
	o.SetContainerID(cids[1])
	o.SetOwner(pool[sp.Owner].id)
	o.SetCreationEpoch(sp.Epoch)
	o.SetType(object.TypeRegular)
	payload := make([]byte, sp.Size)
	for i := range payload {
		payload[i] = byte(i)
	}
	o.SetPayload(payload)
	o.SetPayloadSize(sp.Size)
	o.SetPayloadChecksum(checksum.NewSHA256(sha256.Sum256(payload)))
	var as []object.Attribute
	for _, kv := range sp.Attrs {
		as = append(as, object.NewAttribute(kv[0], kv[1]))
	}
	o.SetAttributes(as...)
	o.SetID(catalogueID(k))
	return &o
}

type epochState struct{}

func (epochState) CurrentEpoch() uint64 { return curEpoch }

func newStoredEngine(dir string) (*engine.StorageEngine, error) {
	e := engine.New(engine.WithLogger(zap.NewNop()))
	_, err := e.AddShard(
		shard.WithLogger(zap.NewNop()),
		shard.WithBlobstor(fstree.New(fstree.WithPath(filepath.Join(dir, "fstree")))),
		shard.WithMetaBaseOptions(meta.WithPath(filepath.Join(dir, "metabase")), meta.WithEpochState(epochState{})),
	)
	if err != nil {
		return nil, err
	}
	if err = e.Init(); err != nil {
		return nil, err
	}
	for k := range catalogue {
		if err = e.Put(context.Background(), storedObject(k), nil); err != nil {
			return nil, fmt.Errorf("put catalogue object %d: %w", k, err)
		}
	}
	return e, nil
}

type getNet struct{}

func (getNet) GetNodesForObject(oid.Address) ([][]netmap.NodeInfo, []uint, []iec.Rule, error) {
	return nil, nil, nil, errors.New("C28 harness: no network map")
}
func (getNet) IsLocalNodePublicKey([]byte) bool { return false }

// storedHandlers serve Get/Head from the real Get service over the engine.
type storedHandlers struct {
	fakeHandlers
	get *getsvc.Service
}

func (h storedHandlers) Get(ctx context.Context, p getsvc.Prm) error {
	h.r.hit("get")
	return h.get.Get(ctx, p)
}
func (h storedHandlers) Head(ctx context.Context, p getsvc.HeadPrm) error {
	h.r.hit("head")
	return h.get.Head(ctx, p)
}

// newStoredServerSUT: aclLocal tells whether the ACL checker shares the engine
// with the Get service (the node holds the object: eACL is decided on the
// request using the local header) or has an empty one (the header becomes known
// to the ACL code only when the handler has read it: second stage).
func newStoredServerSUT(e *engine.StorageEngine, aclLocal bool) *srvSUT {
	s := &srvSUT{sut: newSUT(), r: &reach{}}
	if aclLocal {
		s.checker = acl.NewChecker(new(acl.CheckerPrm).SetLocalStorage(e).SetValidator(eacl.NewValidator()).
			SetEACLSource(s.eacls).SetHeaderSource(fakeHeaders{}))
	}
	nodeKey := pool[nKeys-1].key.PrivateKey
	ks := objutil.NewKeyStorage(&nodeKey, nil, nil)
	put := putsvc.NewService(nil, nil, nil, nil, fakePayments{s.r},
		putsvc.WithKeyStorage(ks), putsvc.WithContainerSource(failingContainers{}), putsvc.WithLogger(zap.NewNop()))
	get := getsvc.New(getNet{}, getsvc.WithLocalStorageEngine(e), getsvc.WithKeyStorage(ks), getsvc.WithLogger(zap.NewNop()))
	s.srv = objectsvc.New(storedHandlers{fakeHandlers{r: s.r, put: put}, get}, srvFSChain{cnrs: s.cnrs, fs: s.fs, r: s.r}, srvStorage{s.r}, nil,
		nodeKey, nopMetrics{}, s.checker, &s.svc, noClients{}, zap.NewNop())
	return s
}

type storedResult struct {
	Code      uint32
	Message   string
	GotHeader bool // the object's header (or payload) was sent to the client
}

func decodeBuffer(b any) ([]byte, bool) {
	switch v := b.(type) {
	case mem.BufferSlice:
		return v.Materialize(), true
	case mem.Buffer:
		return append([]byte(nil), v.ReadOnlyData()...), true
	}
	return nil, false
}

type getStreamStored struct {
	baseStream
	resps []*protoobject.GetResponse
	err   error
}

func (s *getStreamStored) Send(r *protoobject.GetResponse) error {
	s.resps = append(s.resps, r)
	return nil
}
func (s *getStreamStored) SendMsg(m any) error {
	if r, ok := m.(*protoobject.GetResponse); ok {
		s.resps = append(s.resps, r)
		return nil
	}
	data, ok := decodeBuffer(m)
	if !ok {
		s.err = fmt.Errorf("unexpected message type %T", m)
		return s.err
	}
	var r protoobject.GetResponse
	if err := proto.Unmarshal(data, &r); err != nil {
		s.err = fmt.Errorf("undecodable GET response buffer: %w", err)
		return s.err
	}
	s.resps = append(s.resps, &r)
	return nil
}

func (s *srvSUT) serveStored(req any) (res storedResult, err error) {
	s.r.hits = nil
	switch r := req.(type) {
	case *protoobject.GetRequest:
		st := &getStreamStored{}
		if err = s.srv.Get(r, st); err != nil {
			return res, err
		}
		if st.err != nil {
			return res, st.err
		}
		if len(st.resps) == 0 {
			return res, errors.New("GET: no responses")
		}
		for _, m := range st.resps {
			if c := m.GetMetaHeader().GetStatus().GetCode(); c != 0 {
				res.Code, res.Message = c, m.GetMetaHeader().GetStatus().GetMessage()
			}
			switch m.GetBody().GetObjectPart().(type) {
			case *protoobject.GetResponse_Body_Init_, *protoobject.GetResponse_Body_Chunk:
				res.GotHeader = true
			}
		}
	case *protoobject.HeadRequest:
		out := s.srv.HeadBuffered(context.Background(), r)
		resp, ok := out.(*protoobject.HeadResponse)
		if !ok {
			data, ok := decodeBuffer(out)
			if !ok {
				return res, fmt.Errorf("HEAD: unexpected result type %T", out)
			}
			if b, ok := out.(mem.Buffer); ok {
				b.Free()
			}
			resp = new(protoobject.HeadResponse)
			if err = proto.Unmarshal(data, resp); err != nil {
				return res, fmt.Errorf("HEAD: undecodable response buffer: %w", err)
			}
		}
		res.Code, res.Message = statusOf(resp.GetMetaHeader().GetStatus())
		res.GotHeader = resp.GetBody().GetHeader() != nil || resp.GetBody().GetShortHeader() != nil
	default:
		return res, fmt.Errorf("unexpected request %T", req)
	}
	return res, nil
}

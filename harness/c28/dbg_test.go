package c28

import (
	"os"
	"testing"
)

func TestDbgStored(t *testing.T) {
	dir, _ := os.MkdirTemp("", "c28-engine-")
	defer os.RemoveAll(dir)
	e, err := newStoredEngine(dir)
	if err != nil {
		t.Fatal(err)
	}
	defer e.Close()
	for _, local := range []bool{false, true} {
		s := newStoredServerSUT(e, local)
		for _, req := range []string{kGet, kHead} {
			c := caseSpec{Mask: 0x1FBFBFFF, Req: req, TTL: 1, Owner: 0, Requester: 0, Cat: 3, Obj: catalogue[3]}
			s.configure(c)
			got, err := s.serveStored(buildRequest(c))
			t.Logf("local=%v %s: %+v err=%v reached=%v", local, req, got, err, s.r.hits)
		}
	}
}

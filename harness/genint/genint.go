// Package genint holds boundary-biased generators of integers and of
// decimal-looking strings plus the math/big reference used by C05 (and C03).
// It depends on rapid and the standard library only.
package genint

import (
	"math/big"
	"regexp"
	"strings"

	"pgregory.net/rapid"
)

var (
	one = big.NewInt(1)
	// MaxAbs is 2^256-1.
	MaxAbs = new(big.Int).Sub(new(big.Int).Lsh(one, 256), one)
	// MinVal is -(2^256-1).
	MinVal = new(big.Int).Neg(MaxAbs)
	// Grammar is the one grammar every reader of decimal integers must implement.
	Grammar = regexp.MustCompile(`^[+-]?[0-9]+$`)
)

// InRange reports whether x is in [-(2^256-1), 2^256-1].
func InRange(x *big.Int) bool { return x.CmpAbs(MaxAbs) <= 0 }

// RefParse is the reference reader: ok iff s matches Grammar and is in range.
func RefParse(s string) (*big.Int, bool) {
	if !Grammar.MatchString(s) {
		return nil, false
	}
	x, ok := new(big.Int).SetString(strings.TrimPrefix(s, "+"), 10)
	if !ok || !InRange(x) {
		return nil, false
	}
	return x, true
}

// RefParseAnyLen parses by Grammar only (no range limit).
func RefParseAnyLen(s string) (*big.Int, bool) {
	if !Grammar.MatchString(s) {
		return nil, false
	}
	x, ok := new(big.Int).SetString(strings.TrimPrefix(s, "+"), 10)
	return x, ok
}

// RefEncode is the reference 33-byte order-preserving encoding: sign byte
// (0 negative, 1 non-negative) then 32 big-endian magnitude bytes, inverted
// for negatives.
func RefEncode(x *big.Int) [33]byte {
	var out [33]byte
	x.FillBytes(out[1:]) // uses |x|
	if x.Sign() < 0 {
		for i := 1; i < 33; i++ {
			out[i] = ^out[i]
		}
	} else {
		out[0] = 1
	}
	return out
}

// Boundary draws an integer biased to sign / limb / range boundaries. With
// allowOut it also yields values just outside the supported range.
func Boundary(allowOut bool) *rapid.Generator[*big.Int] {
	return rapid.Custom(func(t *rapid.T) *big.Int {
		var x *big.Int
		switch rapid.IntRange(0, 6).Draw(t, "kind") {
		case 0: // tiny
			x = big.NewInt(int64(rapid.IntRange(-3, 3).Draw(t, "tiny")))
		case 1, 2: // ±(2^k + d)
			k := rapid.SampledFrom([]uint{0, 1, 7, 8, 9, 31, 32, 33, 62, 63, 64, 65, 127, 128, 129, 191, 192, 193, 254, 255, 256}).Draw(t, "k")
			x = new(big.Int).Lsh(one, k)
			x.Add(x, big.NewInt(int64(rapid.IntRange(-2, 2).Draw(t, "d"))))
			if rapid.Bool().Draw(t, "neg") {
				x.Neg(x)
			}
		case 3: // 10^k + d (digit-count boundaries: 19/20 digits matter for ParseUint fast paths)
			k := rapid.IntRange(0, 78).Draw(t, "p10")
			x = new(big.Int).Exp(big.NewInt(10), big.NewInt(int64(k)), nil)
			x.Add(x, big.NewInt(int64(rapid.IntRange(-2, 2).Draw(t, "d"))))
			if rapid.Bool().Draw(t, "neg") {
				x.Neg(x)
			}
		case 4: // uniform bytes of random length
			n := rapid.IntRange(0, 32).Draw(t, "nbytes")
			b := rapid.SliceOfN(rapid.Byte(), n, n).Draw(t, "bytes")
			x = new(big.Int).SetBytes(b)
			if rapid.Bool().Draw(t, "neg") {
				x.Neg(x)
			}
		case 5: // near the range limits
			x = new(big.Int).Set(MaxAbs)
			x.Add(x, big.NewInt(int64(rapid.IntRange(-3, 3).Draw(t, "d"))))
			if rapid.Bool().Draw(t, "neg") {
				x.Neg(x)
			}
		default: // int64-ish
			x = big.NewInt(rapid.Int64().Draw(t, "i64"))
		}
		if !allowOut && !InRange(x) {
			if x.Sign() < 0 {
				x = new(big.Int).Set(MinVal)
			} else {
				x = new(big.Int).Set(MaxAbs)
			}
		}
		return x
	})
}

// Pair draws (a, b) where b is often close to a (a±δ) so that comparisons
// straddle boundaries.
func Pair() *rapid.Generator[[2]*big.Int] {
	return rapid.Custom(func(t *rapid.T) [2]*big.Int {
		a := Boundary(false).Draw(t, "a")
		var b *big.Int
		switch rapid.IntRange(0, 3).Draw(t, "rel") {
		case 0:
			b = Boundary(false).Draw(t, "b")
		case 1:
			b = new(big.Int).Add(a, big.NewInt(int64(rapid.IntRange(-2, 2).Draw(t, "delta"))))
		case 2:
			b = new(big.Int).Neg(a)
		default:
			// flip one bit
			k := rapid.IntRange(0, 255).Draw(t, "bit")
			b = new(big.Int).Set(a)
			ab := new(big.Int).Abs(a)
			ab.SetBit(ab, k, ab.Bit(k)^1)
			if a.Sign() < 0 {
				ab.Neg(ab)
			}
			b = ab
		}
		if !InRange(b) {
			b = new(big.Int).Set(a)
		}
		return [2]*big.Int{a, b}
	})
}

// DecimalLike draws strings that are integers in varied spellings or near
// misses of the grammar.
func DecimalLike() *rapid.Generator[string] {
	return rapid.Custom(func(t *rapid.T) string {
		switch rapid.IntRange(0, 5).Draw(t, "skind") {
		case 0: // canonical
			return Boundary(true).Draw(t, "x").String()
		case 1: // sign prefix(es) + leading zeros + digits
			signs := rapid.SampledFrom([]string{"", "+", "-", "++", "+-", "-+", "--", "+ ", " -", "−"}).Draw(t, "signs")
			zeros := strings.Repeat("0", rapid.IntRange(0, 4).Draw(t, "zeros"))
			x := Boundary(true).Draw(t, "x")
			return signs + zeros + new(big.Int).Abs(x).String()
		case 2: // free alphabet
			return rapid.StringOfN(rapid.RuneFrom([]rune("+-0123456789_xe. ٣")), 0, 12, -1).Draw(t, "free")
		case 3: // valid digits with one inserted noise rune
			x := Boundary(true).Draw(t, "x").String()
			pos := rapid.IntRange(0, len(x)).Draw(t, "pos")
			noise := rapid.SampledFrom([]string{"_", " ", "+", "-", ".", "e", "x", "\x00", "٣", "a", ""}).Draw(t, "noise")
			return x[:pos] + noise + x[pos:]
		case 4: // long digit runs (up to 90 digits)
			n := rapid.IntRange(70, 90).Draw(t, "n")
			s := rapid.StringOfN(rapid.RuneFrom([]rune("0123456789")), n, n, -1).Draw(t, "digits")
			return rapid.SampledFrom([]string{"", "+", "-"}).Draw(t, "sign") + s
		default:
			return rapid.SampledFrom([]string{"", "+", "-", "0", "-0", "+0", "00", "-00", "0x10", "1e3", "1.0", " 1", "1 ", "1_000",
				"115792089237316195423570985008687907853269984665640564039457584007913129639935",
				"115792089237316195423570985008687907853269984665640564039457584007913129639936",
				"-115792089237316195423570985008687907853269984665640564039457584007913129639935",
				"-115792089237316195423570985008687907853269984665640564039457584007913129639936",
				"18446744073709551615", "18446744073709551616", "99999999999999999999", "100000000000000000000"}).Draw(t, "const")
		}
	})
}

// NearMiss reports whether s is "almost" an integer: contains a digit and
// fails the grammar, or has a sign/leading zeros.
func NearMiss(s string) bool {
	hasDigit := strings.ContainsAny(s, "0123456789")
	if !hasDigit {
		return false
	}
	if !Grammar.MatchString(s) {
		return true
	}
	return s[0] == '+' || s[0] == '-' || (len(s) > 1 && s[0] == '0')
}

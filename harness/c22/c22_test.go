// Package c22 decides property C22 for internal/ec.NodeSequenceForPart: the
// node order of an EC part lists every node index exactly once; with at least
// as many nodes as parts every part starts at the node with its own index (so
// distinct parts start at distinct nodes).
//
// TestC22Exhaustive enumerates the whole stated domain (total parts 1..32,
// node count 0..128, every part index): 68 112 triples. TestC22Sampled draws
// larger totals / node counts with rapid.
package c22

import (
	"fmt"
	"testing"

	iec "github.com/nspcc-dev/neofs-node/internal/ec"
	"github.com/nspcc-dev/neofs-node/verifharness/ev"
	"pgregory.net/rapid"
)

// collect drains the sequence, guarding against a runaway iterator.
func collect(partIdx, total, nodes int) ([]int, error) {
	var out []int
	for i := range iec.NodeSequenceForPart(partIdx, total, nodes) {
		out = append(out, i)
		if len(out) > nodes+total+8 {
			return out, fmt.Errorf("sequence longer than %d elements for %d nodes", len(out)-1, nodes)
		}
	}
	return out, nil
}

// checkRule checks all parts of one (total, nodes) pair; returns "" if OK.
func checkRule(total, nodes int) string {
	seenFirst := make(map[int]int, total)
	seen := make([]int, nodes)
	for partIdx := range total {
		seq, err := collect(partIdx, total, nodes)
		if err != nil {
			return fmt.Sprintf("part=%d total=%d nodes=%d: %v (prefix %v)", partIdx, total, nodes, err, seq)
		}
		if len(seq) != nodes {
			return fmt.Sprintf("part=%d total=%d nodes=%d: %d elements, want %d: %v", partIdx, total, nodes, len(seq), nodes, seq)
		}
		clear(seen)
		for pos, i := range seq {
			if i < 0 || i >= nodes {
				return fmt.Sprintf("part=%d total=%d nodes=%d: element #%d = %d is not a node index: %v", partIdx, total, nodes, pos, i, seq)
			}
			seen[i]++
			if seen[i] > 1 {
				return fmt.Sprintf("part=%d total=%d nodes=%d: node %d listed twice: %v", partIdx, total, nodes, i, seq)
			}
		}
		// len == nodes, all in range, no duplicates  =>  permutation of 0..nodes-1
		if nodes >= total {
			if seq[0] != partIdx {
				return fmt.Sprintf("part=%d total=%d nodes=%d: starts at node %d, want its own index: %v", partIdx, total, nodes, seq[0], seq)
			}
			if other, ok := seenFirst[seq[0]]; ok {
				return fmt.Sprintf("total=%d nodes=%d: parts %d and %d both start at node %d", total, nodes, other, partIdx, seq[0])
			}
			seenFirst[seq[0]] = partIdx
		}
		// stopping early yields a prefix of the same order (callers break out on success)
		if nodes > 1 {
			stop := 1 + (partIdx+total+nodes)%(nodes-1)
			var pre []int
			for i := range iec.NodeSequenceForPart(partIdx, total, nodes) {
				pre = append(pre, i)
				if len(pre) == stop {
					break
				}
			}
			for j := range pre {
				if pre[j] != seq[j] {
					return fmt.Sprintf("part=%d total=%d nodes=%d: prefix of length %d differs from full order: %v vs %v", partIdx, total, nodes, stop, pre, seq)
				}
			}
		}
	}
	return ""
}

const (
	maxTotal = 32
	maxNodes = 128
)

func TestC22Exhaustive(t *testing.T) {
	rec := ev.New("C22", "exhaustive")
	defer rec.Flush()
	k, n := ev.Shard()
	idx := 0
	for total := 1; total <= maxTotal; total++ {
		for nodes := 0; nodes <= maxNodes; nodes++ {
			idx++
			if idx%n != k {
				continue
			}
			if msg := checkRule(total, nodes); msg != "" {
				t.Fatalf("%s", msg)
			}
			lbl := "nodes<total"
			if nodes >= total {
				lbl = "nodes>=total"
			}
			if nodes > 0 && nodes%total != 0 {
				lbl += ",ragged"
			}
			for partIdx := range total {
				// non-trivial: there is something to order (>= 2 nodes) and more than one part
				rec.Case(nodes >= 2 && total >= 2, fmt.Sprintf("%d/%d/%d", partIdx, total, nodes), lbl)
			}
			if rec.WantSample() && nodes >= 5 && total >= 3 && nodes%total != 0 {
				seq, _ := collect(total-1, total, nodes)
				rec.Sample(map[string]any{"part": total - 1, "total": total, "nodes": nodes, "order": seq})
			}
		}
	}
	// every shard enumerates its residue class of the (total, nodes) grid completely
	rec.Set("exhaustive", true)
	rec.Set("exhaustive_domain", "partIdx < total, total in 1..32, nodes in 0..128 (68112 triples over all shards)")
}

func TestC22Sampled(t *testing.T) {
	rec := ev.New("C22", "sampled")
	defer rec.Flush()
	rapid.Check(t, func(t *rapid.T) {
		total := rapid.IntRange(33, 64).Draw(t, "total")
		var nodes int
		switch rapid.IntRange(0, 3).Draw(t, "kind") {
		case 0: // around multiples of total
			nodes = total*rapid.IntRange(0, 6).Draw(t, "m") + rapid.IntRange(-2, 2).Draw(t, "d")
			if nodes < 0 {
				nodes = 0
			}
		case 1:
			nodes = rapid.IntRange(0, total).Draw(t, "few")
		default:
			nodes = rapid.IntRange(0, 512).Draw(t, "nodes")
		}
		lbl := "nodes<total"
		if nodes >= total {
			lbl = "nodes>=total"
		}
		rec.Case(nodes >= 2, fmt.Sprintf("%d/%d", total, nodes), lbl)
		if msg := checkRule(total, nodes); msg != "" {
			t.Fatalf("%s", msg)
		}
	})
}

// Package c06 decides property C06: listing physical objects page by page with
// the returned cursor (metabase, shard and engine level, any page size, any
// start cursor) yields every available physical object exactly once, in
// ascending (container, object) order, then reports the end of the listing;
// objects held by several shards appear once with all holder shards; objects
// marked for removal and objects of removed containers are never listed.
//
// The expectation is computed by a tiny model over the generated world (it
// never calls into the listing code):
//
//	listed(shard s, object a)  <=>  a was put on s
//	                              ∧ no tombstone object targeting a was put on s
//	                              ∧ a was not marked with GarbageMarkDefault on s
//	                              ∧ a's container was not removed (InhumeContainer / DeleteContainer)
//
// Objects marked with GarbageMarkRedundant stay listed: "Redundant objects
// remain readable until they are physically removed by GC" (doc of
// meta.DB.MarkGarbage / engine.Delete) – they are still available objects,
// and the policer relies on seeing them with all their ShardIDs.
package c06

import (
	"encoding/json"
	"fmt"
	"slices"
	"sort"

	iec "github.com/nspcc-dev/neofs-node/internal/ec"
	"github.com/nspcc-dev/neofs-node/verifharness/uni"
	cid "github.com/nspcc-dev/neofs-sdk-go/container/id"
	"github.com/nspcc-dev/neofs-sdk-go/object"
	oid "github.com/nspcc-dev/neofs-sdk-go/object/id"
	"pgregory.net/rapid"
)

// nCnr containers, adjacent in byte order where possible; the first starts
// with a zero byte, the last is the maximal ID.
const nCnr = 5

var cnrs [nCnr]cid.ID

// ghost containers never hold objects; they are used as start cursor positions
// below, between and above the real ones.
var ghosts [4]cid.ID

func init() {
	cnrs[0] = cid.ID{0x00, 0x01, 0xfe}
	cnrs[0][31] = 0x10
	cnrs[1] = cid.ID{0x00, 0x01, 0xfe}
	cnrs[1][31] = 0x11 // differs from cnrs[0] in the last byte only
	cnrs[2] = cid.ID{0x00, 0x01, 0xff}
	cnrs[3] = cid.ID{0x80}
	for i := range cnrs[4] {
		cnrs[4][i] = 0xff
	}
	ghosts[0] = cid.ID{0x00, 0x00, 0x01} // below all
	ghosts[1] = cid.ID{0x00, 0x01, 0xfe}
	ghosts[1][30] = 0x01                 // above cnrs[1], below cnrs[2]
	ghosts[2] = cid.ID{0x7f, 0xff}       // between 2 and 3
	ghosts[3] = cid.ID{0xff, 0xff, 0xfe} // between 3 and 4
}

// Removal forms.
const (
	rmTomb      = "tombstone"      // a TOMBSTONE object targeting the object is put (on all shards, as the engine broadcasts)
	rmDefault   = "mark-default"   // MarkGarbage(GarbageMarkDefault) on every holder shard (as engine.Delete does)
	rmRedundant = "mark-redundant" // MarkGarbage(GarbageMarkRedundant) on some holder shards: stays listed
)

// Container removal forms.
const (
	crInhume = "inhume-container"
	crDelete = "delete-container"
)

// Obj is one stored physical object.
type Obj struct {
	Cnr    int      `json:"cnr"` // index into cnrs
	Spec   uni.Spec `json:"spec"`
	Shards []int    `json:"shards"` // holder shards (engine level), sorted, non-empty
}

// Removal is one object removal operation.
type Removal struct {
	Form string `json:"form"`
	Cnr  int    `json:"cnr"`
	ID   int    `json:"id"`                 // target object index
	Tomb int    `json:"tomb,omitempty"`     // own ID of the tombstone object (rmTomb)
	On   []int  `json:"on,omitempty"`       // shards (rmRedundant)
	Via  bool   `json:"via_engine"`         // engine level: go through the engine API instead of the shards
	Exp  int    `json:"tomb_exp,omitempty"` // expiration attribute of the tombstone object
}

// CnrRemoval removes a whole container.
type CnrRemoval struct {
	Form string `json:"form"`
	Cnr  int    `json:"cnr"`
}

// World is a generated case.
type World struct {
	NShards  int          `json:"nshards"`
	Objs     []Obj        `json:"objs"`
	Removals []Removal    `json:"removals"`
	CnrRm    []CnrRemoval `json:"cnr_removals"`
	Attrs    []string     `json:"attrs"` // attributes requested from the listing
}

func (w World) String() string {
	b, _ := json.Marshal(w)
	return string(b)
}

var attrSets = [][]string{
	nil,
	nil,
	{iec.AttributeRuleIdx, iec.AttributePartIdx, object.FilterParentID}, // what the policer asks for
	{"k", "kk"},
	{"kk", "missing", "k"},
	{object.FilterParentID},
}

var attrPool = [][2]string{{"k", "v"}, {"k", "kk"}, {"kk", "v2"}, {"kk", "k"}, {"k", "0"}, {"kkk", "x"}}

func subset(t *rapid.T, n int, label string, nonEmpty bool) []int {
	var r []int
	mask := rapid.IntRange(0, 1<<n-1).Draw(t, label)
	for i := 0; i < n; i++ {
		if mask&(1<<i) != 0 {
			r = append(r, i)
		}
	}
	if len(r) == 0 && nonEmpty {
		r = []int{rapid.IntRange(0, n-1).Draw(t, label+"-one")}
	}
	return r
}

// genWorld draws a world with up to maxShards shards.
func genWorld(t *rapid.T, maxShards int) World {
	var w World
	w.NShards = rapid.IntRange(1, maxShards).Draw(t, "nshards")
	useCnr := subset(t, nCnr, "containers", true)
	w.Attrs = rapid.SampledFrom(attrSets).Draw(t, "attrs")

	// per container: a permutation of the 12 universe IDs; the last two are
	// reserved for parents (never physical), then physical objects, then
	// tombstones, the rest stays unused (absent targets).
	type cstate struct {
		perm     []int
		phys     []int // non-tombstone physical object IDs
		nextFree int
	}
	states := map[int]*cstate{}
	budget := 30
	for _, c := range useCnr {
		perm := rapid.Permutation([]int{0, 1, 2, 3, 4, 5, 6, 7, 8, 9, 10, 11}).Draw(t, fmt.Sprintf("perm%d", c))
		st := &cstate{perm: perm}
		states[c] = st
		parents := perm[10:]
		n := rapid.IntRange(0, min(8, budget)).Draw(t, fmt.Sprintf("n%d", c))
		budget -= n
		for k := 0; k < n; k++ {
			id := perm[k]
			kind := rapid.SampledFrom([]string{uni.Regular, uni.Regular, uni.Regular, uni.ChildV2, uni.ECPart, uni.Link}).Draw(t, "kind")
			s := uni.Spec{Kind: kind, Cnr: 0, ID: id, Exp: -1, Parent: -1, ParentExp: -1, First: -1,
				Owner: rapid.IntRange(0, 1).Draw(t, "owner"), PayloadLen: rapid.SampledFrom([]int{0, 1, 9}).Draw(t, "len")}
			if rapid.IntRange(0, 3).Draw(t, "hasexp") == 0 {
				s.Exp = rapid.IntRange(0, 10).Draw(t, "exp") // never expired: the epoch stays 0
			}
			switch kind {
			case uni.ChildV2:
				s.Parent = rapid.SampledFrom(parents).Draw(t, "parent")
				s.ParentLen = 10
				s.NoParentHeader = rapid.IntRange(0, 3).Draw(t, "noph") == 0
				if rapid.Bool().Draw(t, "hasfirst") {
					s.First = perm[rapid.IntRange(0, 9).Draw(t, "first")]
					if s.First == id {
						s.First = -1
					}
				}
			case uni.ECPart:
				s.Parent = rapid.SampledFrom(parents).Draw(t, "parent")
				s.ParentLen = 10
				s.RuleIdx = rapid.IntRange(0, 1).Draw(t, "rule")
				s.PartIdx = rapid.IntRange(0, 3).Draw(t, "part")
			case uni.Link:
				s.Parent = rapid.SampledFrom(parents).Draw(t, "parent")
				s.ParentLen = 10
				s.First = perm[rapid.IntRange(0, 9).Draw(t, "first")]
				if s.First == id {
					s.First = -1
				}
			}
			na := rapid.IntRange(0, 2).Draw(t, "nattrs")
			seen := map[string]bool{}
			for j := 0; j < na; j++ {
				a := rapid.SampledFrom(attrPool).Draw(t, "attr")
				if !seen[a[0]] {
					seen[a[0]] = true
					s.Attrs = append(s.Attrs, a)
				}
			}
			var holders []int
			if w.NShards > 1 && rapid.IntRange(0, 2).Draw(t, "multi") > 0 {
				holders = subset(t, w.NShards, "holders", true)
			} else {
				holders = []int{rapid.IntRange(0, w.NShards-1).Draw(t, "holder")}
			}
			w.Objs = append(w.Objs, Obj{Cnr: c, Spec: s, Shards: holders})
			st.phys = append(st.phys, id)
		}
		st.nextFree = n
	}

	nr := rapid.IntRange(0, 6).Draw(t, "nremovals")
	for k := 0; k < nr; k++ {
		c := rapid.SampledFrom(useCnr).Draw(t, "rm-cnr")
		st := states[c]
		r := Removal{Cnr: c, Form: rapid.SampledFrom([]string{rmTomb, rmTomb, rmDefault, rmDefault, rmRedundant}).Draw(t, "form")}
		if len(st.phys) > 0 && rapid.IntRange(0, 5).Draw(t, "present-target") > 0 {
			r.ID = rapid.SampledFrom(st.phys).Draw(t, "target")
		} else {
			r.ID = st.perm[9] // absent target: never becomes an object
		}
		r.Via = rapid.Bool().Draw(t, "via-engine")
		switch r.Form {
		case rmTomb:
			if st.nextFree > 8 { // perm[9] stays unused
				continue
			}
			r.Tomb = st.perm[st.nextFree]
			st.nextFree++
			r.Exp = -1
			if rapid.Bool().Draw(t, "tomb-has-exp") {
				r.Exp = rapid.IntRange(0, 10).Draw(t, "tomb-exp")
			}
		case rmRedundant:
			r.On = subset(t, w.NShards, "redundant-on", true)
		}
		w.Removals = append(w.Removals, r)
	}

	ncr := rapid.SampledFrom([]int{0, 0, 0, 1, 1, 2}).Draw(t, "ncnrrm")
	for k := 0; k < ncr; k++ {
		w.CnrRm = append(w.CnrRm, CnrRemoval{
			Form: rapid.SampledFrom([]string{crInhume, crDelete}).Draw(t, "cr-form"),
			Cnr:  rapid.IntRange(0, nCnr-1).Draw(t, "cr-cnr"), // may be a container without any object
		})
	}
	return w
}

// relocate moves o (and its parent header) into container c.
func relocate(o *object.Object, c cid.ID) *object.Object {
	if p := o.Parent(); p != nil {
		p.SetContainerID(c)
		o.SetParent(p)
	}
	o.SetContainerID(c)
	return o
}

func (o Obj) build() *object.Object { return relocate(uni.Build(o.Spec), cnrs[o.Cnr]) }

func (o Obj) addr() oid.Address { return oid.NewAddress(cnrs[o.Cnr], uni.OID(o.Spec.ID)) }

func (r Removal) target() oid.Address { return oid.NewAddress(cnrs[r.Cnr], uni.OID(r.ID)) }

func (r Removal) tombSpec() uni.Spec {
	return uni.Spec{Kind: uni.Tombstone, ID: r.Tomb, Target: r.ID, Exp: r.Exp, Parent: -1, ParentExp: -1, First: -1}
}

func (r Removal) tombstone() *object.Object { return relocate(uni.Build(r.tombSpec()), cnrs[r.Cnr]) }

// Item is what the model expects the listing to return for one address.
type Item struct {
	Addr   oid.Address
	Type   object.Type
	Attrs  []string // values of World.Attrs
	Shards []int    // shards where the object is listed (engine level)
	// Stored-but-unlisted neighbours etc. are derived separately.
}

func specType(s uni.Spec) object.Type {
	switch s.Kind {
	case uni.Tombstone:
		return object.TypeTombstone
	case uni.Link:
		return object.TypeLink
	case uni.Lock:
		return object.TypeLock
	}
	return object.TypeRegular
}

func specAttr(s uni.Spec, key string) string {
	switch key {
	case iec.AttributeRuleIdx:
		if s.Kind == uni.ECPart {
			return fmt.Sprint(s.RuleIdx)
		}
	case iec.AttributePartIdx:
		if s.Kind == uni.ECPart {
			return fmt.Sprint(s.PartIdx)
		}
	case object.FilterParentID:
		if s.Parent >= 0 {
			id := uni.OID(s.Parent)
			return string(id[:])
		}
	}
	for _, a := range s.Attrs {
		if a[0] == key {
			return a[1]
		}
	}
	return ""
}

// Expect is the model's answer for a world.
type Expect struct {
	Listed []Item        // ascending
	Stored []oid.Address // every physically stored address (listed or not), ascending
}

// expect computes the expected listing. single=true collapses all shards into
// one (metabase / shard level: every object and every mark lands on the one DB).
func expect(w World, single bool) Expect {
	removedCnr := map[int]bool{}
	for _, cr := range w.CnrRm {
		removedCnr[cr.Cnr] = true
	}
	gone := map[oid.Address]bool{} // tombstoned or default-marked (on every holder)
	for _, r := range w.Removals {
		if r.Form == rmTomb || r.Form == rmDefault {
			gone[r.target()] = true
		}
	}
	all := make([]int, w.NShards)
	for i := range all {
		all[i] = i
	}
	var e Expect
	add := func(cnr int, s uni.Spec, holders []int) {
		a := oid.NewAddress(cnrs[cnr], uni.OID(s.ID))
		e.Stored = append(e.Stored, a)
		if removedCnr[cnr] || gone[a] {
			return
		}
		it := Item{Addr: a, Type: specType(s), Shards: holders}
		if single {
			it.Shards = []int{0}
		}
		for _, k := range w.Attrs {
			it.Attrs = append(it.Attrs, specAttr(s, k))
		}
		e.Listed = append(e.Listed, it)
	}
	for _, o := range w.Objs {
		add(o.Cnr, o.Spec, o.Shards)
	}
	for _, r := range w.Removals {
		if r.Form == rmTomb {
			add(r.Cnr, r.tombSpec(), all)
		}
	}
	sort.Slice(e.Listed, func(i, j int) bool { return e.Listed[i].Addr.Compare(e.Listed[j].Addr) < 0 })
	slices.SortFunc(e.Stored, func(a, b oid.Address) int { return a.Compare(b) })
	return e
}

// classify returns the labels of the world and whether it is non-trivial by the
// rule of DESIGN.md: since every page size 1..N+1 is tried, a page break falls
// on every position; the case is non-trivial when some position is a container
// boundary, a multi-shard object, or adjacent to a stored-but-unlisted object.
func classify(w World, e Expect, single bool) (bool, []string) {
	var labels []string
	listed := map[oid.Address]bool{}
	cnrBoundary, multi := false, false
	for i, it := range e.Listed {
		listed[it.Addr] = true
		if i > 0 && e.Listed[i-1].Addr.Container() != it.Addr.Container() {
			cnrBoundary = true
		}
		if len(it.Shards) > 1 {
			multi = true
		}
	}
	adjacent := false
	for i, a := range e.Stored {
		if listed[a] {
			continue
		}
		if i > 0 && listed[e.Stored[i-1]] || i+1 < len(e.Stored) && listed[e.Stored[i+1]] {
			adjacent = true
		}
	}
	removedBetween := false
	for _, cr := range w.CnrRm {
		lo, hi := false, false
		for _, it := range e.Listed {
			switch c := it.Addr.Container().Compare(cnrs[cr.Cnr]); {
			case c < 0:
				lo = true
			case c > 0:
				hi = true
			}
		}
		if lo && hi {
			removedBetween = true
		}
	}
	if cnrBoundary {
		labels = append(labels, "break-on-container-boundary")
	}
	if multi && !single {
		labels = append(labels, "break-on-multi-shard-object")
	}
	if adjacent {
		labels = append(labels, "break-adjacent-to-removed")
	}
	if removedBetween {
		labels = append(labels, "removed-container-between-listed")
	}
	if len(e.Listed) == 0 {
		labels = append(labels, "nothing-listed")
	}
	if len(w.Attrs) > 0 {
		labels = append(labels, "with-attrs")
	}
	for _, r := range w.Removals {
		labels = append(labels, "rm-"+r.Form)
	}
	for _, cr := range w.CnrRm {
		labels = append(labels, "rm-"+cr.Form)
	}
	labels = slices.Compact(sorted(labels))
	return cnrBoundary || (multi && !single) || adjacent || removedBetween, labels
}

func sorted(s []string) []string { sort.Strings(s); return s }

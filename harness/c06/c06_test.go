package c06

import (
	"context"
	"errors"
	"fmt"
	"os"
	"path/filepath"
	"slices"
	"sort"
	"strings"
	"testing"
	"time"

	"github.com/nspcc-dev/bbolt"

	objectcore "github.com/nspcc-dev/neofs-node/pkg/core/object"
	"github.com/nspcc-dev/neofs-node/pkg/local_object_storage/blobstor/fstree"
	"github.com/nspcc-dev/neofs-node/pkg/local_object_storage/engine"
	meta "github.com/nspcc-dev/neofs-node/pkg/local_object_storage/metabase"
	"github.com/nspcc-dev/neofs-node/pkg/local_object_storage/shard"
	"github.com/nspcc-dev/neofs-node/verifharness/ev"
	"github.com/nspcc-dev/neofs-node/verifharness/stor"
	"github.com/nspcc-dev/neofs-node/verifharness/uni"
	cid "github.com/nspcc-dev/neofs-sdk-go/container/id"
	oid "github.com/nspcc-dev/neofs-sdk-go/object/id"
	"pgregory.net/rapid"
)

type listed = objectcore.AddressWithAttributes

// lister abstracts the three levels. C is the level's cursor struct.
type lister[C any] struct {
	list      func(count int, cur *C, attrs ...string) ([]listed, *C, error)
	newCursor func(cid.ID, oid.ID) *C
	// shardIdx maps a reported shard ID to the shard index (engine level only).
	shardIdx map[string]int
}

// start is a start position: nil cursor or NewCursor(cnr, obj).
type start struct {
	isNil bool
	cnr   cid.ID
	obj   oid.ID
	what  string
}

func (s start) String() string {
	if s.isNil {
		return "nil"
	}
	return fmt.Sprintf("%s(%x../%x..%x)", s.what, s.cnr[:3], s.obj[:1], s.obj[31:])
}

func fmtAddr(a oid.Address) string {
	c, o := a.Container(), a.Object()
	ci := -1
	for i := range cnrs {
		if cnrs[i] == c {
			ci = i
		}
	}
	_, oi := uni.Index(a)
	return fmt.Sprintf("c%d/o%d", ci, oi) + fmt.Sprintf("[%x]", o[:1])
}

func fmtItems(it []Item) string {
	var b strings.Builder
	for i := range it {
		fmt.Fprintf(&b, " %s%v", fmtAddr(it[i].Addr), it[i].Shards)
	}
	return b.String()
}

// genStarts draws the start positions of one case.
func genStarts(t *rapid.T, e Expect) []start {
	res := []start{{isNil: true}}
	n := rapid.IntRange(1, 4).Draw(t, "nstarts")
	for k := 0; k < n; k++ {
		var s start
		switch rapid.IntRange(0, 5).Draw(t, "start-kind") {
		case 0:
			if len(e.Listed) > 0 {
				a := rapid.SampledFrom(e.Listed).Draw(t, "start-listed").Addr
				s = start{cnr: a.Container(), obj: a.Object(), what: "listed"}
				break
			}
			fallthrough
		case 1:
			if len(e.Stored) > 0 {
				a := rapid.SampledFrom(e.Stored).Draw(t, "start-stored")
				s = start{cnr: a.Container(), obj: a.Object(), what: "stored"}
				break
			}
			fallthrough
		case 2: // any universe address in a real container (present or not, parent IDs included)
			s = start{cnr: cnrs[rapid.IntRange(0, nCnr-1).Draw(t, "start-cnr")], obj: uni.OID(rapid.IntRange(0, 11).Draw(t, "start-oid")), what: "universe"}
		case 3: // extreme object IDs
			s = start{cnr: cnrs[rapid.IntRange(0, nCnr-1).Draw(t, "start-cnr")], what: "extreme"}
			switch rapid.IntRange(0, 2).Draw(t, "start-ext") {
			case 0: // zero object ID: everything in the container and after
			case 1:
				s.obj[31] = 1
			case 2:
				for i := range s.obj {
					s.obj[i] = 0xff
				}
			}
		default: // container that holds nothing
			s = start{cnr: ghosts[rapid.IntRange(0, len(ghosts)-1).Draw(t, "start-ghost")], obj: uni.OID(rapid.IntRange(0, 11).Draw(t, "start-oid")), what: "ghost"}
		}
		res = append(res, s)
	}
	return res
}

// checkListing runs the oracle for every start position and every page size.
func checkListing[C any](t *rapid.T, l lister[C], w World, e Expect, starts []start, rec *ev.Recorder) {
	for _, st := range starts {
		var want []Item
		for _, it := range e.Listed {
			if st.isNil || it.Addr.Compare(oid.NewAddress(st.cnr, st.obj)) > 0 {
				want = append(want, it)
			}
		}
		n := len(want)
		for ps := 1; ps <= n+1; ps++ {
			var cur *C
			if !st.isNil {
				cur = l.newCursor(st.cnr, st.obj)
			}
			var got []listed
			calls, ended := 0, false
			for calls < n+3 {
				calls++
				res, next, err := l.list(ps, cur, w.Attrs...)
				if err != nil {
					if errors.Is(err, meta.ErrEndOfListing) {
						ended = true
						break
					}
					t.Fatalf("start=%v page=%d call %d: unexpected error %v", st, ps, calls, err)
				}
				if len(res) > ps {
					t.Fatalf("start=%v page=%d call %d: %d items returned, more than the page size", st, ps, calls, len(res))
				}
				for i := range res { // copy: the implementation may reuse buffers between calls
					c := res[i]
					c.Attributes = slices.Clone(c.Attributes)
					c.ShardIDs = slices.Clone(c.ShardIDs)
					got = append(got, c)
				}
				if next == nil {
					t.Fatalf("start=%v page=%d call %d: nil cursor returned with a non-empty page", st, ps, calls)
				}
				cur = next
			}
			if !ended {
				t.Fatalf("start=%v page=%d: end of listing not reported after %d calls (expected %d objects)", st, ps, calls, n)
			}
			rec.Label("iterations")
			compare(t, l.shardIdx, w, st, ps, want, got)
		}
	}
}

func compare(t *rapid.T, shardIdx map[string]int, w World, st start, ps int, want []Item, got []listed) {
	fail := func(format string, a ...any) {
		var g strings.Builder
		for i := range got {
			fmt.Fprintf(&g, " %s", fmtAddr(got[i].Address))
		}
		t.Fatalf("start=%v page=%d: %s\n expected:%s\n got:     %s", st, ps, fmt.Sprintf(format, a...), fmtItems(want), g.String())
	}
	for i := range got {
		if i > 0 {
			switch c := got[i-1].Address.Compare(got[i].Address); {
			case c == 0:
				fail("%s listed twice", fmtAddr(got[i].Address))
			case c > 0:
				fail("%s listed after %s: not ascending", fmtAddr(got[i].Address), fmtAddr(got[i-1].Address))
			}
		}
	}
	for i := 0; i < len(want) || i < len(got); i++ {
		switch {
		case i >= len(got):
			fail("%s is missing", fmtAddr(want[i].Addr))
		case i >= len(want):
			fail("%s must not be listed", fmtAddr(got[i].Address))
		case want[i].Addr != got[i].Address:
			if want[i].Addr.Compare(got[i].Address) < 0 {
				fail("%s is missing", fmtAddr(want[i].Addr))
			}
			fail("%s must not be listed", fmtAddr(got[i].Address))
		}
		wi, gi := want[i], got[i]
		if wi.Type != gi.Type {
			fail("%s has type %v, listed with %v", fmtAddr(wi.Addr), wi.Type, gi.Type)
		}
		if len(w.Attrs) > 0 && !slices.Equal(wi.Attrs, gi.Attributes) {
			fail("%s attributes %q: expected %q, listed %q", fmtAddr(wi.Addr), w.Attrs, wi.Attrs, gi.Attributes)
		}
		if shardIdx != nil {
			var gs []int
			for _, id := range gi.ShardIDs {
				k, ok := shardIdx[id]
				if !ok {
					fail("%s listed with unknown shard ID %q", fmtAddr(wi.Addr), id)
				}
				gs = append(gs, k)
			}
			sort.Ints(gs) // order of ShardIDs is not asserted
			if !slices.Equal(gs, wi.Shards) {
				fail("%s is held by shards %v, listed with %v", fmtAddr(wi.Addr), wi.Shards, gs)
			}
		}
	}
}

func record(rec *ev.Recorder, w World, e Expect, single bool) {
	nt, labels := classify(w, e, single)
	rec.Case(nt, w.String(), labels...)
	if nt && rec.WantSample() {
		rec.Sample(w)
	}
}

// fastBolt keeps bbolt from re-mapping the file while it grows (munmap is
// expensive on a busy many-core machine) and from syncing a tmpfs file.
// Neither changes what the metabase stores or lists.
func fastBolt() meta.Option {
	return meta.WithBoltDBOptions(&bbolt.Options{Timeout: time.Second, InitialMmapSize: 4 << 20, NoSync: true, NoGrowSync: true})
}

// The worlds reuse one object ID in several containers (that is what stresses
// the cursor at container boundaries). FSTree "combined" files index members
// by object ID only, so they are switched off (HARNESS.md pitfall); no
// write-cache is configured for the same reason. The listing itself never
// reads blobs.
var noCombined = []fstree.Option{fstree.WithCombinedCountLimit(1)}

// repeat runs k independent worlds per rapid case: the three levels differ a
// lot in cost per world while the driver passes one -rapid.checks per unit.
func repeat(k int, one func(*rapid.T)) func(*rapid.T) {
	return func(t *rapid.T) {
		for i := 0; i < k; i++ {
			one(t)
		}
	}
}

func must(t *rapid.T, what string, err error) {
	if err != nil {
		t.Fatalf("setup: %s: %v", what, err)
	}
}

// ---- metabase level ----

func TestC06Meta(t *testing.T) {
	rec := ev.New("C06", "meta")
	defer rec.Flush()
	rapid.Check(t, repeat(6, func(t *rapid.T) {
		w := genWorld(t, 1)
		e := expect(w, true)
		starts := genStarts(t, e)
		record(rec, w, e, true)

		dir, err := os.MkdirTemp("", "c06m")
		if err != nil {
			ev.Inconclusive("mkdtemp: %v", err)
		}
		defer os.RemoveAll(dir)
		db, err := stor.OpenMeta(filepath.Join(dir, "meta"), &stor.Epoch{}, fastBolt())
		must(t, "open metabase", err)
		defer db.Close()

		for _, o := range w.Objs {
			must(t, "put "+o.Spec.String(), db.Put(o.build()))
		}
		for _, r := range w.Removals {
			switch r.Form {
			case rmTomb:
				must(t, "put tombstone", db.Put(r.tombstone()))
			case rmDefault:
				_, err := db.MarkGarbage(cnrs[r.Cnr], []oid.ID{uni.OID(r.ID)}, meta.GarbageMarkDefault)
				must(t, "mark default", err)
			case rmRedundant:
				_, err := db.MarkGarbage(cnrs[r.Cnr], []oid.ID{uni.OID(r.ID)}, meta.GarbageMarkRedundant)
				must(t, "mark redundant", err)
			}
		}
		for _, cr := range w.CnrRm {
			switch cr.Form {
			case crInhume:
				_, err := db.InhumeContainer(cnrs[cr.Cnr])
				must(t, "inhume container", err)
			case crDelete:
				must(t, "delete container", db.DeleteContainer(cnrs[cr.Cnr]))
			}
		}
		checkListing(t, lister[meta.Cursor]{
			list:      db.ListWithCursor,
			newCursor: meta.NewCursor,
		}, w, e, starts, rec)
	}))
}

// ---- shard level ----

func TestC06Shard(t *testing.T) {
	rec := ev.New("C06", "shard")
	defer rec.Flush()
	rapid.Check(t, repeat(2, func(t *rapid.T) {
		w := genWorld(t, 1)
		e := expect(w, true)
		starts := genStarts(t, e)
		record(rec, w, e, true)

		dir, err := os.MkdirTemp("", "c06s")
		if err != nil {
			ev.Inconclusive("mkdtemp: %v", err)
		}
		defer os.RemoveAll(dir)
		sh, err := stor.OpenShard(stor.ShardCfg{Dir: dir, Epoch: &stor.Epoch{}, MetaOpts: []meta.Option{fastBolt()}, FSTOpts: noCombined})
		must(t, "open shard", err)
		defer sh.Close()

		applyToShards(t, w, []*shard.Shard{sh}, nil)
		for _, cr := range w.CnrRm {
			switch cr.Form {
			case crInhume:
				must(t, "inhume container", sh.InhumeContainer(cnrs[cr.Cnr]))
			case crDelete:
				must(t, "delete container", sh.DeleteContainer(context.Background(), cnrs[cr.Cnr]))
			}
		}
		checkListing(t, lister[shard.Cursor]{
			list:      sh.ListWithCursor,
			newCursor: shard.NewCursor,
		}, w, e, starts, rec)
	}))
}

// applyToShards stores the objects on their holder shards and applies the
// object removals the way the engine spreads them: tombstones to every shard,
// default marks to every holder, redundant marks to the chosen shards. With
// eng != nil, removals flagged Via go through the engine API itself.
func applyToShards(t *rapid.T, w World, shs []*shard.Shard, eng *engine.StorageEngine) {
	holders := map[oid.Address][]int{}
	for _, o := range w.Objs {
		obj := o.build()
		for _, s := range o.Shards {
			must(t, fmt.Sprintf("put %s on shard %d", o.Spec.String(), s), shs[s].Put(obj, nil))
		}
		holders[o.addr()] = o.Shards
	}
	ctx := context.Background()
	for _, r := range w.Removals {
		c, id := cnrs[r.Cnr], uni.OID(r.ID)
		hs, present := holders[r.target()]
		if !present { // absent target: the engine would try every shard
			hs = nil
			for i := range shs {
				hs = append(hs, i)
			}
		}
		switch r.Form {
		case rmTomb:
			ts := r.tombstone()
			if eng != nil && r.Via {
				must(t, "engine put tombstone", eng.Put(ctx, ts, nil))
				continue
			}
			for i := range shs {
				must(t, fmt.Sprintf("put tombstone on shard %d", i), shs[i].Put(ts, nil))
			}
		case rmDefault:
			if eng != nil && r.Via {
				must(t, "engine delete", eng.Delete(ctx, r.target(), engine.GarbageMarkDefault))
				continue
			}
			for _, i := range hs {
				must(t, "mark default", shs[i].MarkGarbage(c, []oid.ID{id}, meta.GarbageMarkDefault))
			}
		case rmRedundant:
			if eng != nil && r.Via {
				var ids []string
				for _, i := range hs {
					ids = append(ids, shs[i].ID().String())
				}
				must(t, "engine delete redundant copies", eng.DeleteRedundantCopies(ctx, r.target(), ids))
				continue
			}
			for _, i := range r.On {
				if i < len(shs) {
					must(t, "mark redundant", shs[i].MarkGarbage(c, []oid.ID{id}, meta.GarbageMarkRedundant))
				}
			}
		}
	}
}

// ---- engine level ----

func TestC06Engine(t *testing.T) {
	rec := ev.New("C06", "engine")
	defer rec.Flush()
	rapid.Check(t, repeat(1, func(t *rapid.T) {
		w := genWorld(t, 4)
		e := expect(w, false)
		starts := genStarts(t, e)
		record(rec, w, e, false)
		rec.Label(fmt.Sprintf("shards-%d", w.NShards))

		dir, err := os.MkdirTemp("", "c06e")
		if err != nil {
			ev.Inconclusive("mkdtemp: %v", err)
		}
		defer os.RemoveAll(dir)
		ep := &stor.Epoch{}
		var cfgs []stor.ShardCfg
		for i := 0; i < w.NShards; i++ {
			cfgs = append(cfgs, stor.ShardCfg{Dir: filepath.Join(dir, fmt.Sprint(i)), Epoch: ep, MetaOpts: []meta.Option{fastBolt()}, FSTOpts: noCombined})
		}
		en, err := stor.OpenEngine(cfgs)
		must(t, "open engine", err)
		defer en.E.Close()

		byID := en.E.VerifShards()
		shs := make([]*shard.Shard, w.NShards)
		idx := map[string]int{}
		for i, id := range en.IDs {
			shs[i] = byID[id.String()]
			if shs[i] == nil {
				t.Fatalf("setup: shard %s not found in the engine", id)
			}
			idx[id.String()] = i
		}
		applyToShards(t, w, shs, en.E)
		ctx := context.Background()
		for _, cr := range w.CnrRm {
			switch cr.Form {
			case crInhume:
				must(t, "inhume container", en.E.InhumeContainer(ctx, cnrs[cr.Cnr]))
			case crDelete:
				must(t, "delete container", en.E.DeleteContainer(ctx, cnrs[cr.Cnr]))
			}
		}
		checkListing(t, lister[engine.Cursor]{
			list: func(count int, cur *engine.Cursor, attrs ...string) ([]listed, *engine.Cursor, error) {
				return en.E.ListWithCursor(ctx, uint32(count), cur, attrs...)
			},
			newCursor: engine.NewCursor,
			shardIdx:  idx,
		}, w, e, starts, rec)
	}))
}

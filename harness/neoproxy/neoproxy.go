// Package neoproxy is a recording Neo JSON-RPC websocket endpoint for the
// inner-ring checks (C35/C37/C38). The real pkg/morph/client.Client connects
// to it like to any Neo RPC node. Every request is logged (method + raw
// params, in arrival order), so a test can assert "this handler made no RPC at
// all" or "no write RPC" (sendrawtransaction / submitnotaryrequest).
//
// Two modes:
//
//   - NewStub(): no chain behind it. getversion / getnativecontracts are
//     answered so that the client can be constructed; every other call is
//     logged and answered with an RPC error. Enough for the direction
//     "a non-alphabet node must not act": whatever the handler tries is seen.
//   - New(upstreamWS): transparent full-duplex relay to a real RPC server
//     (responses and subscription notifications flow back untouched); with
//     SwallowWrites(true) write RPCs are logged and answered locally with a
//     success result instead of being relayed.
//
// The package imports only neo-go and gorilla/websocket, so in-package
// (overlay) tests of any neofs-node package may import it.
package neoproxy

import (
	"encoding/base64"
	"encoding/json"
	"fmt"
	"net"
	"net/http"
	"strings"
	"sync"

	"github.com/gorilla/websocket"
	"github.com/nspcc-dev/neo-go/pkg/core/transaction"
	"github.com/nspcc-dev/neo-go/pkg/crypto/hash"
	"github.com/nspcc-dev/neo-go/pkg/network/payload"
)

// Call is one logged JSON-RPC request.
type Call struct {
	Conn   int // connection number (one per morph client)
	Method string
	Params []json.RawMessage
}

// IsWrite tells whether the call changes (or tries to change) chain state.
func (c Call) IsWrite() bool {
	return c.Method == "sendrawtransaction" || c.Method == "submitnotaryrequest"
}

// Tx decodes the transaction of a sendrawtransaction call.
func (c Call) Tx() (*transaction.Transaction, error) {
	if c.Method != "sendrawtransaction" || len(c.Params) == 0 {
		return nil, fmt.Errorf("not a sendrawtransaction call: %s", c.Method)
	}
	var s string
	if err := json.Unmarshal(c.Params[0], &s); err != nil {
		return nil, err
	}
	b, err := base64.StdEncoding.DecodeString(s)
	if err != nil {
		return nil, err
	}
	return transaction.NewTransactionFromBytes(b)
}

// NotaryRequest decodes the payload of a submitnotaryrequest call.
func (c Call) NotaryRequest() (*payload.P2PNotaryRequest, error) {
	if c.Method != "submitnotaryrequest" || len(c.Params) == 0 {
		return nil, fmt.Errorf("not a submitnotaryrequest call: %s", c.Method)
	}
	var s string
	if err := json.Unmarshal(c.Params[0], &s); err != nil {
		return nil, err
	}
	b, err := base64.StdEncoding.DecodeString(s)
	if err != nil {
		return nil, err
	}
	return payload.NewP2PNotaryRequestFromBytes(b)
}

// Proxy is the recording endpoint.
type Proxy struct {
	// URL is the websocket URL to give to client.WithEndpoints.
	URL string

	upstream string

	mu      sync.Mutex
	calls   []Call
	nConn   int
	swallow bool
	fail    map[string]string // method -> error message (answered locally)

	lis  net.Listener
	srv  *http.Server
	wg   sync.WaitGroup
	cmu  sync.Mutex
	open map[*websocket.Conn]struct{}
}

type rpcReq struct {
	JSONRPC string            `json:"jsonrpc"`
	Method  string            `json:"method"`
	Params  []json.RawMessage `json:"params"`
	ID      json.RawMessage   `json:"id"`
}

type rpcErr struct {
	Code    int    `json:"code"`
	Message string `json:"message"`
	Data    string `json:"data,omitempty"`
}

type rpcResp struct {
	JSONRPC string          `json:"jsonrpc"`
	ID      json.RawMessage `json:"id"`
	Result  any             `json:"result,omitempty"`
	Error   *rpcErr         `json:"error,omitempty"`
}

// NewStub starts a proxy without a chain behind it.
func NewStub() (*Proxy, error) { return start("") }

// New starts a proxy relaying to the websocket RPC endpoint upstreamWS
// (ws://host:port/ws).
func New(upstreamWS string) (*Proxy, error) { return start(upstreamWS) }

func start(upstream string) (*Proxy, error) {
	lis, err := net.Listen("tcp", "127.0.0.1:0")
	if err != nil {
		return nil, err
	}
	p := &Proxy{
		URL:      "ws://" + lis.Addr().String() + "/ws",
		upstream: upstream,
		lis:      lis,
		fail:     map[string]string{},
		open:     map[*websocket.Conn]struct{}{},
	}
	mux := http.NewServeMux()
	mux.HandleFunc("/ws", p.serveWS)
	p.srv = &http.Server{Handler: mux}
	go func() { _ = p.srv.Serve(lis) }()
	return p, nil
}

// Close stops the proxy and all relayed connections.
func (p *Proxy) Close() {
	_ = p.srv.Close()
	p.cmu.Lock()
	for c := range p.open {
		_ = c.Close()
	}
	p.cmu.Unlock()
	p.wg.Wait()
}

// SwallowWrites makes the proxy answer write RPCs itself (success) instead of
// relaying them. In stub mode writes are always answered with success=false
// unless SwallowWrites(true) is set.
func (p *Proxy) SwallowWrites(on bool) {
	p.mu.Lock()
	p.swallow = on
	p.mu.Unlock()
}

// FailMethod makes the proxy answer the method with an RPC error itself
// (msg == "" removes the rule).
func (p *Proxy) FailMethod(method, msg string) {
	p.mu.Lock()
	if msg == "" {
		delete(p.fail, method)
	} else {
		p.fail[method] = msg
	}
	p.mu.Unlock()
}

// FailInvoke makes the proxy answer `invokefunction` calls of the given
// contract method (any contract) with an RPC error itself (msg == "" removes
// the rule): a read fault at one particular chain read.
func (p *Proxy) FailInvoke(contractMethod, msg string) {
	p.FailMethod("invokefunction:"+contractMethod, msg)
}

// Reset forgets the log.
func (p *Proxy) Reset() {
	p.mu.Lock()
	p.calls = nil
	p.mu.Unlock()
}

// Calls returns a copy of the log.
func (p *Proxy) Calls() []Call {
	p.mu.Lock()
	defer p.mu.Unlock()
	return append([]Call(nil), p.calls...)
}

// Writes returns the logged write calls.
func (p *Proxy) Writes() []Call {
	var res []Call
	for _, c := range p.Calls() {
		if c.IsWrite() {
			res = append(res, c)
		}
	}
	return res
}

// Methods returns the logged method names in order (for messages).
func (p *Proxy) Methods() []string {
	var res []string
	for _, c := range p.Calls() {
		res = append(res, c.Method)
	}
	return res
}

// Describe renders calls compactly: method(first param prefix).
func Describe(calls []Call) string {
	var sb strings.Builder
	for i, c := range calls {
		if i > 0 {
			sb.WriteString(", ")
		}
		sb.WriteString(c.Method)
		if len(c.Params) > 1 && (c.Method == "invokefunction") {
			sb.WriteString("(" + strings.Trim(string(c.Params[1]), `"`) + ")")
		}
	}
	return sb.String()
}

var upgrader = websocket.Upgrader{CheckOrigin: func(*http.Request) bool { return true }}

func (p *Proxy) serveWS(w http.ResponseWriter, r *http.Request) {
	cli, err := upgrader.Upgrade(w, r, nil)
	if err != nil {
		return
	}
	p.wg.Add(1)
	defer p.wg.Done()
	p.track(cli, true)
	defer p.track(cli, false)
	defer cli.Close()

	p.mu.Lock()
	p.nConn++
	connNo := p.nConn
	p.mu.Unlock()

	var (
		wmu sync.Mutex // serialises writes to cli
		up  *websocket.Conn
	)
	send := func(v any) {
		wmu.Lock()
		_ = cli.WriteJSON(v)
		wmu.Unlock()
	}
	if p.upstream != "" {
		up, _, err = websocket.DefaultDialer.Dial(p.upstream, nil)
		if err != nil {
			return
		}
		p.track(up, true)
		defer p.track(up, false)
		defer up.Close()
		go func() { // upstream -> client
			for {
				mt, data, err := up.ReadMessage()
				if err != nil {
					_ = cli.Close()
					return
				}
				wmu.Lock()
				err = cli.WriteMessage(mt, data)
				wmu.Unlock()
				if err != nil {
					return
				}
			}
		}()
	}

	for {
		mt, data, err := cli.ReadMessage()
		if err != nil {
			return
		}
		var req rpcReq
		if json.Unmarshal(data, &req) != nil || req.Method == "" {
			if up != nil {
				_ = up.WriteMessage(mt, data)
			}
			continue
		}
		p.mu.Lock()
		p.calls = append(p.calls, Call{Conn: connNo, Method: req.Method, Params: req.Params})
		swallow := p.swallow
		failMsg, failing := p.fail[req.Method]
		if !failing && req.Method == "invokefunction" && len(req.Params) > 1 {
			var cm string
			if json.Unmarshal(req.Params[1], &cm) == nil {
				failMsg, failing = p.fail["invokefunction:"+cm]
			}
		}
		p.mu.Unlock()

		isWrite := req.Method == "sendrawtransaction" || req.Method == "submitnotaryrequest"
		switch {
		case failing:
			send(rpcResp{JSONRPC: "2.0", ID: req.ID, Error: &rpcErr{Code: -32603, Message: failMsg}})
		case isWrite && swallow:
			send(rpcResp{JSONRPC: "2.0", ID: req.ID, Result: map[string]string{"hash": "0x" + writeHash(req)}})
		case up != nil:
			if err := up.WriteMessage(mt, data); err != nil {
				return
			}
		default:
			send(p.stubAnswer(req))
		}
	}
}

func (p *Proxy) track(c *websocket.Conn, add bool) {
	p.cmu.Lock()
	if add {
		p.open[c] = struct{}{}
	} else {
		delete(p.open, c)
	}
	p.cmu.Unlock()
}

// writeHash: the hash a real node would report (tx hash / payload hash);
// falls back to the hash of the raw parameter.
func writeHash(req rpcReq) string {
	c := Call{Method: req.Method, Params: req.Params}
	if tx, err := c.Tx(); err == nil {
		return tx.Hash().StringLE()
	}
	if nr, err := c.NotaryRequest(); err == nil {
		return nr.FallbackTransaction.Hash().StringLE()
	}
	var raw []byte
	if len(req.Params) > 0 {
		raw = req.Params[0]
	}
	return hash.Sha256(raw).StringLE()
}

// StubMagic is the network magic reported by the stub.
const StubMagic = 0x56455249 // "VERI"

func (p *Proxy) stubAnswer(req rpcReq) rpcResp {
	r := rpcResp{JSONRPC: "2.0", ID: req.ID}
	switch req.Method {
	case "getversion":
		r.Result = map[string]any{
			"tcpport": 0, "nonce": 1, "useragent": "/verif-stub/",
			"rpc": map[string]any{"maxiteratorresultitems": 100, "sessionenabled": false},
			"protocol": map[string]any{
				"addressversion": 53, "network": StubMagic, "msperblock": 1000,
				"maxtraceableblocks": 2102400, "maxvaliduntilblockincrement": 5760,
				"maxtransactionsperblock": 512, "memorypoolmaxtransactions": 50000,
				"validatorscount": 1, "initialgasdistribution": 5200000000000000,
				"hardforks": []any{}, "standbycommittee": []string{}, "seedlist": []string{},
				"p2psigextensions": true,
			},
		}
	case "getnativecontracts":
		r.Result = []any{}
	default:
		r.Error = &rpcErr{Code: -32603, Message: "verif stub: no chain behind this endpoint", Data: req.Method}
	}
	return r
}

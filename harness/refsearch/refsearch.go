// Package refsearch is the naive reference implementation of NeoFS object
// search (SearchV2 semantics) used as the oracle of C03 (and as the corpus
// description of C04). It is written from the API documentation (neofs-api
// SearchFilter / SearchV2 comments, neofs-sdk-go Client.SearchObjects doc) and
// the property text; it never calls into pkg/core/object, the metabase or
// internal/signed256. Integers are math/big values parsed by the one grammar
// ^[+-]?[0-9]+$ within ±(2^256-1) (genint.RefParse).
//
// An object is described by Obj: its ID, whether it is available, and the map
// attribute -> STORED value (raw bytes for binary header fields: owner 25
// bytes, payload checksum 32 bytes, split ID 16 bytes, parent / first /
// associated object 32 bytes; everything else is the attribute string). The
// API (string) form is derived by APIString: Base58 for owner and object IDs,
// lower-case hex for the checksum, canonical UUID text for the split ID.
package refsearch

import (
	"bytes"
	"encoding/hex"
	"fmt"
	"math/big"
	"sort"
	"strconv"
	"strings"

	"github.com/mr-tron/base58"
	"github.com/nspcc-dev/neofs-node/verifharness/genint"
	"github.com/nspcc-dev/neofs-sdk-go/object"
	oid "github.com/nspcc-dev/neofs-sdk-go/object/id"
	"github.com/nspcc-dev/neofs-sdk-go/version"
)

// Attribute names (API).
const (
	KVersion   = "$Object:version"
	KOwner     = "$Object:ownerID"
	KType      = "$Object:objectType"
	KCreation  = "$Object:creationEpoch"
	KPayload   = "$Object:payloadLength"
	KChecksum  = "$Object:payloadHash"
	KSplitID   = "$Object:split.splitID"
	KFirst     = "$Object:split.first"
	KParent    = "$Object:split.parent"
	KRoot      = "$Object:ROOT"
	KPhy       = "$Object:PHY"
	KAssociate = "__NEOFS__ASSOCIATE"

	reserved = "$Object:"
)

// Matchers (numeric values of the API enum).
const (
	OpUnspecified = object.MatchUnspecified
	OpEQ          = object.MatchStringEqual
	OpNE          = object.MatchStringNotEqual
	OpAbsent      = object.MatchNotPresent
	OpPrefix      = object.MatchCommonPrefix
	OpGT          = object.MatchNumGT
	OpGE          = object.MatchNumGE
	OpLT          = object.MatchNumLT
	OpLE          = object.MatchNumLE
)

// IsNumeric reports whether op is one of the four numeric matchers.
func IsNumeric(op object.SearchMatchType) bool {
	return op == OpGT || op == OpGE || op == OpLT || op == OpLE
}

// IsFlag reports whether key is one of the property aliases ROOT / PHY.
func IsFlag(key string) bool { return key == KRoot || key == KPhy }

// IsBinary reports whether values of key are stored in raw binary form.
func IsBinary(key string) bool {
	switch key {
	case KOwner, KChecksum, KSplitID, KFirst, KParent, KAssociate:
		return true
	}
	return false
}

// Obj is one searchable (indexed) object.
type Obj struct {
	ID        oid.ID
	Available bool
	Stored    map[string][]byte
}

// APIString converts a stored value into the string form of the API.
func APIString(key string, stored []byte) string {
	switch key {
	case KOwner, KFirst, KParent, KAssociate:
		return base58.Encode(stored)
	case KChecksum:
		return hex.EncodeToString(stored)
	case KSplitID:
		if len(stored) != 16 {
			return fmt.Sprintf("<bad split ID %x>", stored)
		}
		return fmt.Sprintf("%x-%x-%x-%x-%x", stored[0:4], stored[4:6], stored[6:8], stored[8:10], stored[10:16])
	}
	return string(stored)
}

// Str returns the API string of attribute key of o (ok=false when absent).
func (o Obj) Str(key string) (string, bool) {
	v, ok := o.Stored[key]
	if !ok {
		return "", false
	}
	return APIString(key, v), true
}

// Int returns the integer value of attribute key (ok=false when the attribute
// is absent or its value is not an in-range integer by the one grammar).
func (o Obj) Int(key string) (*big.Int, bool) {
	s, ok := o.Str(key)
	if !ok {
		return nil, false
	}
	return genint.RefParse(s)
}

// FromObject derives the searchable view of a stored header. phy says whether
// the object is stored physically (false for parents known only from the
// headers carried by their children). root is computed here from the API
// definition: a REGULAR object that is not a part of a split / EC hierarchy.
func FromObject(o *object.Object, phy, available bool) Obj {
	st := map[string][]byte{}
	var ver version.Version
	if v := o.Version(); v != nil {
		ver = *v
	}
	st[KVersion] = []byte(fmt.Sprintf("v%d.%d", ver.Major(), ver.Minor()))
	ow := o.Owner()
	st[KOwner] = append([]byte(nil), ow[:]...)
	st[KType] = []byte(o.Type().String())
	st[KCreation] = []byte(strconv.FormatUint(o.CreationEpoch(), 10))
	st[KPayload] = []byte(strconv.FormatUint(o.PayloadSize(), 10))
	if cs, ok := o.PayloadChecksum(); ok {
		st[KChecksum] = append([]byte(nil), cs.Value()...)
	}
	part := false
	if sid := o.SplitID(); sid != nil {
		st[KSplitID] = append([]byte(nil), sid.ToV2()...)
		part = true
	}
	if f := o.GetFirstID(); !f.IsZero() {
		st[KFirst] = append([]byte(nil), f[:]...)
		part = true
	}
	if p := o.GetParentID(); !p.IsZero() {
		st[KParent] = append([]byte(nil), p[:]...)
		part = true
	}
	if o.Parent() != nil {
		part = true
	}
	if !part && o.Type() == object.TypeRegular {
		st[KRoot] = []byte("1")
	}
	if phy {
		st[KPhy] = []byte("1")
	}
	for _, a := range o.Attributes() {
		k, v := a.Key(), a.Value()
		if k == KAssociate {
			var id oid.ID
			if err := id.DecodeString(v); err != nil {
				panic("refsearch: bad associate value " + v)
			}
			st[k] = append([]byte(nil), id[:]...)
			continue
		}
		if _, dup := st[k]; dup {
			panic("refsearch: duplicated attribute " + k)
		}
		st[k] = []byte(v)
	}
	return Obj{ID: o.GetID(), Available: available, Stored: st}
}

// Filter is one search filter.
type Filter struct {
	Key string                 `json:"k"`
	Op  object.SearchMatchType `json:"op"`
	Val string                 `json:"v"`
}

func (f Filter) String() string { return fmt.Sprintf("%s %s %q", f.Key, f.Op, f.Val) }

// Query is filters + requested attributes.
type Query struct {
	Filters []Filter `json:"filters"`
	Attrs   []string `json:"attrs"`
}

func (q Query) String() string {
	var b strings.Builder
	for i, f := range q.Filters {
		if i > 0 {
			b.WriteString(" AND ")
		}
		b.WriteString(f.String())
	}
	fmt.Fprintf(&b, " RETURN %q", q.Attrs)
	return b.String()
}

// SDK converts the filters into the SDK type.
func (q Query) SDK() object.SearchFilters {
	var fs object.SearchFilters
	for _, f := range q.Filters {
		fs.AddFilter(f.Key, f.Val, f.Op)
	}
	return fs
}

// Item is one result element.
type Item struct {
	ID    oid.ID
	Attrs []string
}

// Verdict of the static query check.
type Verdict int

const (
	// Valid query: must be accepted and evaluated.
	Valid Verdict = iota
	// BadNumeric: a numeric filter whose value is not an in-range integer; must be rejected.
	BadNumeric
	// Undefined: behaviour is not defined by the API (NOT_PRESENT on a "$Object:" key,
	// unknown matcher); nothing is asserted.
	Undefined
)

// Check classifies q statically.
func Check(q Query) Verdict {
	v := Valid
	for _, f := range q.Filters {
		if IsFlag(f.Key) {
			if f.Op == OpAbsent {
				v = Undefined
			}
			continue
		}
		switch {
		case f.Op == OpAbsent:
			if strings.HasPrefix(f.Key, reserved) {
				v = Undefined
			}
		case IsNumeric(f.Op):
			if _, ok := genint.RefParse(f.Val); !ok {
				return BadNumeric
			}
		case f.Op == OpEQ, f.Op == OpNE, f.Op == OpPrefix:
		default:
			v = Undefined
		}
	}
	return v
}

// NumericPrimary reports whether results of q are ordered numerically.
func NumericPrimary(q Query) bool {
	return len(q.Attrs) > 0 && len(q.Filters) > 0 && !IsFlag(q.Filters[0].Key) && IsNumeric(q.Filters[0].Op)
}

// IDOrdered reports whether results of q are ordered by ID only.
func IDOrdered(q Query) bool {
	return len(q.Attrs) == 0 || len(q.Filters) == 0 || (!IsFlag(q.Filters[0].Key) && q.Filters[0].Op == OpAbsent)
}

// Matches reports whether o satisfies filter f (availability not considered).
func Matches(o Obj, f Filter) bool {
	if IsFlag(f.Key) {
		_, has := o.Stored[f.Key]
		return has && f.Op != OpAbsent
	}
	s, has := o.Str(f.Key)
	switch {
	case f.Op == OpAbsent:
		return !has
	case !has:
		return false
	case f.Op == OpEQ:
		return s == f.Val
	case f.Op == OpNE:
		return s != f.Val
	case f.Op == OpPrefix:
		return strings.HasPrefix(s, f.Val)
	case IsNumeric(f.Op):
		x, ok := genint.RefParse(s)
		if !ok {
			return false
		}
		y, ok := genint.RefParse(f.Val)
		if !ok {
			return false
		}
		c := x.Cmp(y)
		switch f.Op {
		case OpGT:
			return c > 0
		case OpGE:
			return c >= 0
		case OpLT:
			return c < 0
		default:
			return c <= 0
		}
	}
	return false
}

// MatchesAll reports whether o is available and satisfies every filter of q.
func MatchesAll(o Obj, q Query) bool {
	if !o.Available {
		return false
	}
	for _, f := range q.Filters {
		if !Matches(o, f) {
			return false
		}
	}
	return true
}

// Search returns the complete expected result of q over objs in the
// documented order: by the 1st requested attribute (numerically when the 1st
// filter is numeric, else byte-wise on the stored value) and then by ID; by ID
// only when no attributes are requested.
func Search(objs []Obj, q Query) []Item {
	var sel []Obj
	seen := map[oid.ID]bool{}
	for _, o := range objs {
		if seen[o.ID] || !MatchesAll(o, q) {
			continue
		}
		seen[o.ID] = true
		sel = append(sel, o)
	}
	num := NumericPrimary(q)
	byID := IDOrdered(q)
	var prim string
	if !byID {
		prim = q.Attrs[0]
	}
	sort.SliceStable(sel, func(i, j int) bool {
		a, b := sel[i], sel[j]
		if !byID {
			var c int
			if num {
				x, _ := a.Int(prim)
				y, _ := b.Int(prim)
				c = x.Cmp(y)
			} else {
				c = bytes.Compare(a.Stored[prim], b.Stored[prim])
			}
			if c != 0 {
				return c < 0
			}
		}
		return bytes.Compare(a.ID[:], b.ID[:]) < 0
	})
	res := make([]Item, len(sel))
	for i, o := range sel {
		res[i].ID = o.ID
		if len(q.Filters) == 0 {
			continue
		}
		res[i].Attrs = make([]string, len(q.Attrs))
		for k, a := range q.Attrs {
			if k == 0 && num {
				x, _ := o.Int(a)
				res[i].Attrs[k] = x.String()
				continue
			}
			res[i].Attrs[k], _ = o.Str(a)
		}
	}
	return res
}

// IndexKey returns the position of (o, primary attribute) in the documented
// order as a comparable byte string: value bytes, separator, ID for string
// order; 33-byte order-preserving integer, ID for numeric order; ID alone for
// ID order. It is used only to check that a continuation cursor sorts between
// the last returned item and the next one.
func IndexKey(o Obj, q Query) []byte {
	if IDOrdered(q) {
		return append([]byte(nil), o.ID[:]...)
	}
	prim := q.Attrs[0]
	var b []byte
	b = append(b, prim...)
	b = append(b, 0)
	if NumericPrimary(q) {
		x, _ := o.Int(prim)
		enc := genint.RefEncode(x)
		b = append(b, enc[:]...)
	} else {
		b = append(b, o.Stored[prim]...)
		b = append(b, 0)
	}
	return append(b, o.ID[:]...)
}

// Package c37 decides property C37 on a real chain (harness/irchain): the
// container processor, built with its public constructor over the real morph
// client behind a recording proxy, receives container creation / removal /
// eACL / attribute requests with valid or forged owner credentials.
//
// Oracle (safety, asserted): an approval is recorded (submitnotaryrequest that
// carries the request's main transaction)  =>  the reference authorisation
// predicate, computed from the generation recipe, holds: alphabet state, owner
// authorised the operation (direct RFC 6979 signature of the exact payload by
// the owner key, or a v1 session token issued and signed by the owner, for this
// verb and container, valid at the current epoch, with the payload signed by
// the session key), placement policy acceptable, only permitted system
// attributes, eACL allowed by the basic ACL and not touching the system role.
// Completeness (predicate holds => approved exactly once) is counted and
// reported separately (label "completeness-miss"), and asserted only as a
// non-vacuity self check.
package c37

import (
	"crypto/sha256"
	"fmt"
	"os"
	"strings"
	"sync"
	"testing"
	"time"

	"github.com/google/uuid"
	"github.com/nspcc-dev/neo-go/pkg/crypto/keys"
	fschaincontracts "github.com/nspcc-dev/neofs-node/pkg/morph/contracts"
	"github.com/nspcc-dev/neofs-node/pkg/morph/event"
	cntEvent "github.com/nspcc-dev/neofs-node/pkg/morph/event/container"
	"github.com/nspcc-dev/neofs-node/verifharness/ev"
	"github.com/nspcc-dev/neofs-node/verifharness/irchain"
	"github.com/nspcc-dev/neofs-node/verifharness/irfix"
	"github.com/nspcc-dev/neofs-node/verifharness/irsetup"
	"github.com/nspcc-dev/neofs-node/verifharness/neoproxy"
	sdkclient "github.com/nspcc-dev/neofs-sdk-go/client"
	"github.com/nspcc-dev/neofs-sdk-go/container"
	"github.com/nspcc-dev/neofs-sdk-go/container/acl"
	cid "github.com/nspcc-dev/neofs-sdk-go/container/id"
	neofscrypto "github.com/nspcc-dev/neofs-sdk-go/crypto"
	neofsecdsa "github.com/nspcc-dev/neofs-sdk-go/crypto/ecdsa"
	"github.com/nspcc-dev/neofs-sdk-go/eacl"
	"github.com/nspcc-dev/neofs-sdk-go/netmap"
	"github.com/nspcc-dev/neofs-sdk-go/session"
	"github.com/nspcc-dev/neofs-sdk-go/user"
	"pgregory.net/rapid"
)

const chainEpoch = 1

// placement policies; validity is decided by neofs-sdk-go PlacementPolicy.Verify (trusted reference),
// the invalid ones fail it in different ways.
var (
	validPolicies   = []string{"REP 1", "REP 1", "REP 2 IN X CBF 1 SELECT 2 FROM * AS X", "EC 2/1", "REP 1 EC 2/1"}
	invalidPolicies = []string{
		"REP 1 IN MISSING",  // REP rule refers to a selector that does not exist
		"REP 9",             // more than 8 object replicas
		"REP 2 CBF 40",      // more than 64 nodes in the set
		"EC 2/1 IN MISSING", // EC rule with a missing selector
		"REP 1 IN X REP 1 IN NOPE CBF 1 SELECT 1 FROM * AS X", // second rule's selector missing
	}
)

var (
	owners     = []*keys.PrivateKey{irfix.Key(100), irfix.Key(101)}
	stranger   = irfix.Key(102)
	sessionKey = irfix.Key(103)
	otherKey   = irfix.Key(104)

	once     sync.Once
	world    *irchain.World
	worldErr error

	// containers on chain
	stored []storedCnr
)

type storedCnr struct {
	name       string
	cnr        container.Container
	id         cid.ID
	owner      int
	extendable bool
}

func userOf(k *keys.PrivateKey) user.ID { return user.NewFromECDSAPublicKey(k.PrivateKey.PublicKey) }

func mkContainer(owner *keys.PrivateKey, basic acl.Basic, policy string, attrs [][2]string, nonceSalt byte) (container.Container, error) {
	var c container.Container
	c.Init()
	c.SetOwner(userOf(owner))
	c.SetBasicACL(basic)
	var p netmap.PlacementPolicy
	if err := p.DecodeString(policy); err != nil {
		return c, err
	}
	c.SetPlacementPolicy(p)
	c.SetAttribute("salt", fmt.Sprint(nonceSalt))
	for _, a := range attrs {
		c.SetAttribute(a[0], a[1])
	}
	return c, nil
}

func getWorld() *irchain.World {
	once.Do(func() {
		world, worldErr = irchain.NewWorld(true, func(w *irchain.World) error {
			if err := w.Admin.Invoke(w.Contracts.Netmap, "newEpoch", nil, chainEpoch); err != nil {
				return err
			}
			if err := w.Admin.Invoke(w.Contracts.Netmap, "setConfig", nil, []byte("verif-1"), []byte("ContainerFee"), 0); err != nil {
				return err
			}
			for i, d := range []struct {
				name  string
				owner int
				basic acl.Basic
			}{{"O0-extendable", 0, acl.PublicRWExtended}, {"O0-final", 0, acl.PublicRW}, {"O1-extendable", 1, acl.PublicRWExtended}} {
				c, err := mkContainer(owners[d.owner], d.basic, "REP 1", nil, byte(200+i))
				if err != nil {
					return err
				}
				if err := w.Admin.Invoke(w.Contracts.Container, "create", nil, c.Marshal(), []byte{}, []byte{}, []byte{}, "", "", false); err != nil {
					return fmt.Errorf("create %s: %w", d.name, err)
				}
				stored = append(stored, storedCnr{name: d.name, cnr: c, id: cid.NewFromMarshalledContainer(c.Marshal()), owner: d.owner, extendable: d.basic.Extendable()})
			}
			return nil
		})
	})
	if worldErr != nil {
		fmt.Println("VERIF-INCONCLUSIVE: cannot start the local FS chain:", worldErr)
		os.Exit(3)
	}
	return world
}

// auth is the generated credential recipe.
type auth struct {
	Mode string // "direct", "session"
	// direct
	Signer   string // "owner", "stranger", "other-owner"
	DataFlip bool   // signature made over other data
	SigFlip  bool   // signature bytes corrupted
	// session v1
	Issuer        string // "owner", "stranger"
	TokSigner     string // "issuer", "other" (token claims issuer but is signed by another key)
	TokCorrupt    bool
	Verb          string // "match", "other"
	Bind          string // "this", "other", "any"
	Iat, Nbf, Exp uint64
	DataSigner    string // "session-key", "other"
}

func genAuth(t *rapid.T) auth {
	var a auth
	valid := rapid.IntRange(0, 2).Draw(t, "authMostlyValid") > 0 // 2/3 start from a valid recipe and break <= 1 thing
	a.Mode = rapid.SampledFrom([]string{"direct", "session"}).Draw(t, "authMode")
	a.Signer, a.Issuer, a.TokSigner, a.Verb, a.Bind, a.DataSigner = "owner", "owner", "issuer", "match", "this", "session-key"
	a.Iat, a.Nbf, a.Exp = chainEpoch, chainEpoch, chainEpoch
	if a.Mode == "session" {
		a.Bind = rapid.SampledFrom([]string{"this", "any"}).Draw(t, "bind")
		a.Iat = uint64(rapid.IntRange(0, chainEpoch).Draw(t, "iat"))
		a.Nbf = uint64(rapid.IntRange(0, chainEpoch).Draw(t, "nbf"))
		a.Exp = uint64(rapid.IntRange(chainEpoch, chainEpoch+2).Draw(t, "exp"))
	}
	nBreak := 0
	if !valid {
		nBreak = rapid.IntRange(1, 2).Draw(t, "breaks")
	} else if rapid.IntRange(0, 3).Draw(t, "breakOne") == 0 {
		nBreak = 1
	}
	for i := 0; i < nBreak; i++ {
		if a.Mode == "direct" {
			switch rapid.SampledFrom([]string{"signer", "data", "sig"}).Draw(t, "break") {
			case "signer":
				a.Signer = rapid.SampledFrom([]string{"stranger", "other-owner"}).Draw(t, "signer")
			case "data":
				a.DataFlip = true
			case "sig":
				a.SigFlip = true
			}
			continue
		}
		switch rapid.SampledFrom([]string{"issuer", "tok-signer", "tok-corrupt", "verb", "bind", "iat", "nbf", "exp", "data-signer", "data", "sig"}).Draw(t, "break") {
		case "issuer":
			a.Issuer = "stranger"
		case "tok-signer":
			a.TokSigner = "other"
		case "tok-corrupt":
			a.TokCorrupt = true
		case "verb":
			a.Verb = "other"
		case "bind":
			a.Bind = "other"
		case "iat":
			a.Iat = chainEpoch + 1
		case "nbf":
			a.Nbf = chainEpoch + 1
		case "exp":
			a.Exp = chainEpoch - 1
		case "data-signer":
			a.DataSigner = "other"
		case "data":
			a.DataFlip = true
		case "sig":
			a.SigFlip = true
		}
	}
	return a
}

// build makes (invocation script, verification script, session token) for the
// payload and tells whether the owner authorised the operation.
func (a auth) build(ownerIdx int, verb session.ContainerVerb, cnrID *cid.ID, payload []byte) (invoc, verif, tok []byte, authorised bool) {
	owner := owners[ownerIdx]
	data := payload
	if a.DataFlip {
		data = append(append([]byte{}, payload...), 0x01)
	}
	flip := func(sig []byte) []byte {
		if a.SigFlip && len(sig) > 10 {
			sig = append([]byte{}, sig...)
			sig[10] ^= 0x04
		}
		return sig
	}
	if a.Mode == "direct" {
		k := owner
		switch a.Signer {
		case "stranger":
			k = stranger
		case "other-owner":
			k = owners[1-ownerIdx]
		}
		return flip(k.Sign(data)), k.PublicKey().Bytes(), nil, a.Signer == "owner" && !a.DataFlip && !a.SigFlip
	}
	var st session.Container
	sum := sha256.Sum256(payload)
	var sid uuid.UUID
	copy(sid[:], sum[:16])
	sid[6] = (sid[6] & 0x0f) | 0x40 // version 4
	sid[8] = (sid[8] & 0x3f) | 0x80
	st.SetID(sid)
	st.SetAuthKey((*neofsecdsa.PublicKey)(&sessionKey.PrivateKey.PublicKey))
	v := verb
	if a.Verb == "other" {
		v = session.VerbContainerDelete
		if verb == session.VerbContainerDelete {
			v = session.VerbContainerSetEACL
		}
	}
	st.ForVerb(v)
	boundOK := true
	switch a.Bind {
	case "this":
		if cnrID != nil {
			st.ApplyOnlyTo(*cnrID)
		}
	case "other":
		other := cid.ID(sha256.Sum256([]byte("some other container")))
		st.ApplyOnlyTo(other)
		boundOK = cnrID == nil // creation requests are not bound to a container ID
	}
	st.SetIat(a.Iat)
	st.SetNbf(a.Nbf)
	st.SetExp(a.Exp)
	issuerKey := owner
	if a.Issuer == "stranger" {
		issuerKey = stranger
	}
	if a.TokSigner == "issuer" {
		if err := st.Sign(user.NewAutoIDSigner(issuerKey.PrivateKey)); err != nil {
			panic(err)
		}
	} else {
		st.SetIssuer(userOf(issuerKey))
		if err := st.SetSignature(neofsecdsa.Signer(otherKey.PrivateKey)); err != nil {
			panic(err)
		}
	}
	if a.TokCorrupt {
		sig, _ := st.Signature()
		val := append([]byte{}, sig.Value()...)
		val[len(val)/2] ^= 0x10
		st.AttachSignature(neofscrypto.NewSignatureFromRawKey(sig.Scheme(), sig.PublicKeyBytes(), val))
	}
	dk := sessionKey
	if a.DataSigner == "other" {
		dk = otherKey
	}
	lifetimeOK := a.Iat <= chainEpoch && a.Nbf <= chainEpoch && a.Exp >= chainEpoch
	ok := a.Issuer == "owner" && a.TokSigner == "issuer" && !a.TokCorrupt && a.Verb == "match" && boundOK && lifetimeOK &&
		a.DataSigner == "session-key" && !a.DataFlip && !a.SigFlip
	return flip(dk.Sign(data)), nil, st.Marshal(), ok
}

// genRecords draws 1-3 eACL records; the system role may appear nowhere, as
// the only target of a record, or next to other targets, in any record.
func genRecords(t *rapid.T) ([]eacl.Record, bool) {
	n := rapid.IntRange(1, 3).Draw(t, "eaclRecords")
	sysAt := -1
	if rapid.IntRange(0, 2).Draw(t, "eaclWithSystem") == 0 {
		sysAt = rapid.IntRange(0, n-1).Draw(t, "eaclSystemRecord")
	}
	var recs []eacl.Record
	for i := 0; i < n; i++ {
		var ts []eacl.Target
		for j, k := 0, rapid.IntRange(1, 3).Draw(t, "eaclTargets"); j < k; j++ {
			ts = append(ts, eacl.NewTargetByRole(rapid.SampledFrom([]eacl.Role{eacl.RoleOthers, eacl.RoleUser}).Draw(t, "eaclRole")))
		}
		if i == sysAt {
			pos := rapid.IntRange(0, len(ts)).Draw(t, "eaclSystemPos")
			if rapid.Bool().Draw(t, "eaclSystemSole") {
				ts = []eacl.Target{eacl.NewTargetByRole(eacl.RoleSystem)}
			} else {
				ts = append(ts[:pos], append([]eacl.Target{eacl.NewTargetByRole(eacl.RoleSystem)}, ts[pos:]...)...)
			}
		}
		op := rapid.SampledFrom([]eacl.Operation{eacl.OperationPut, eacl.OperationGet, eacl.OperationDelete}).Draw(t, "eaclOp")
		recs = append(recs, eacl.ConstructRecord(eacl.ActionDeny, op, ts))
	}
	return recs, sysAt >= 0
}

func (a auth) label() string {
	if a.Mode == "direct" {
		return fmt.Sprintf("direct:%s%s%s", a.Signer, map[bool]string{true: "+data", false: ""}[a.DataFlip], map[bool]string{true: "+sig", false: ""}[a.SigFlip])
	}
	var bad []string
	for k, v := range map[string]bool{"issuer": a.Issuer != "owner", "tok-signer": a.TokSigner != "issuer", "tok-corrupt": a.TokCorrupt, "verb": a.Verb != "match",
		"bind": a.Bind == "other", "iat": a.Iat > chainEpoch, "nbf": a.Nbf > chainEpoch, "exp": a.Exp < chainEpoch, "data-signer": a.DataSigner != "session-key", "data": a.DataFlip, "sig": a.SigFlip} {
		if v {
			bad = append(bad, k)
		}
	}
	if len(bad) == 0 {
		return "session:valid"
	}
	if len(bad) > 1 {
		return "session:several-faults"
	}
	return "session:bad-" + bad[0]
}

func TestC37(t *testing.T) {
	rec := ev.New("C37", "container-requests")
	defer rec.Flush()
	// harness table self check (policy validity is the SDK's verdict)
	for _, ps := range append(append([]string{}, validPolicies...), invalidPolicies...) {
		var p netmap.PlacementPolicy
		if err := p.DecodeString(ps); err != nil {
			t.Fatalf("harness: policy %q does not decode: %v", ps, err)
		}
		bad := false
		for _, x := range invalidPolicies {
			bad = bad || x == ps
		}
		if (p.Verify() != nil) != bad {
			t.Fatalf("harness: policy %q: SDK Verify says %v, table says invalid=%v", ps, p.Verify(), bad)
		}
	}
	w := getWorld()
	// two inner ring configurations on the same chain: chain metadata feature off / on
	type side struct {
		env   *irsetup.Env
		proxy *neoproxy.Proxy
		calls map[string]func(event.Event)
	}
	metaProxy, metaEnv, err := w.NewEnvWith(irchain.CommitteeKey(), func(o *irsetup.Options) { o.MetaEnabled = true })
	if err != nil {
		ev.Inconclusive("cannot attach the meta-enabled processors: %v", err)
	}
	defer metaProxy.Close()
	defer metaEnv.Close()
	sides := map[bool]*side{false: {env: w.Member, proxy: w.MemberProxy}, true: {env: metaEnv, proxy: metaProxy}}
	for _, sd := range sides {
		hs, err := sd.env.Handlers()
		if err != nil {
			ev.Inconclusive("%v", err)
		}
		sd.calls = map[string]func(event.Event){}
		for _, n := range []string{"put", "putNamed", "create", "createV2", "remove", "putEACL", "setAttribute", "removeAttribute"} {
			for _, h := range hs {
				if h.Proc == "container" && h.Name == n {
					sd.calls[n] = h.Call
				}
			}
			if sd.calls[n] == nil {
				ev.Inconclusive("container handler %s is not registered", n)
			}
		}
	}
	approvals, misses, reachedInvalidPolicy := 0, 0, 0

	rapid.Check(t, func(t *rapid.T) {
		kind := rapid.SampledFrom([]string{"put", "putNamed", "create", "createV2", "createV2+eACL", "remove", "putEACL", "setAttribute", "removeAttribute"}).Draw(t, "kind")
		metaOn := rapid.Bool().Draw(t, "chainMetaFeature")
		env, proxy, calls := sides[metaOn].env, sides[metaOn].proxy, sides[metaOn].calls
		mode := rapid.SampledFrom([]string{"member", "member", "member", "member", "non-member", "lookup-error"}).Draw(t, "state")
		a := genAuth(t)
		height, err := w.Admin.Height()
		if err != nil {
			t.Fatalf("harness: %v", err)
		}
		nonce := rapid.Uint32().Draw(t, "nonce")
		vub := height + 2
		mk := func(method string, args ...any) irsetup.Request {
			r, err := irsetup.NewRequest(env.Signers, env.C.Container, method, nonce, vub, args...)
			if err != nil {
				t.Fatalf("harness: %v", err)
			}
			return r
		}

		var (
			evn                  event.Event
			req                  irsetup.Request
			contentOK            = true
			why                  []string
			authOK               bool
			call                 = calls[strings.TrimSuffix(kind, "+eACL")]
			extraLabels          []string
			policyInvalidUnnamed bool
		)
		eaclPart := func(cnrID cid.ID, ownerIdx int, extendable bool) (*cntEvent.PutContainerEACLRequest, []byte, bool, bool) {
			recs, hasSystem := genRecords(t)
			tcid := cnrID
			if rapid.IntRange(0, 5).Draw(t, "eaclOtherCID") == 0 {
				tcid = stored[2].id
			}
			tb := eacl.NewTableForContainer(tcid, recs)
			raw := tb.Marshal()
			ea := genAuth(t)
			inv, ver, tok, ok := ea.build(ownerIdx, session.VerbContainerSetEACL, &cnrID, raw)
			p := &cntEvent.PutContainerEACLRequest{PutContainerEACLParams: fschaincontracts.PutContainerEACLParams{EACL: raw, InvocationScript: inv, VerificationScript: ver, SessionToken: tok}}
			content := !hasSystem && extendable && tcid == cnrID
			return p, raw, ok, content
		}

		switch kind {
		case "put", "putNamed", "create", "createV2", "createV2+eACL":
			ownerIdx := rapid.IntRange(0, 1).Draw(t, "owner")
			basic := rapid.SampledFrom([]acl.Basic{acl.PublicRWExtended, acl.PublicRW, acl.Private}).Draw(t, "basicACL")
			// placement policy: validity is a dimension of its own (independent of entry point and naming)
			policy := rapid.SampledFrom(validPolicies).Draw(t, "policy")
			if rapid.IntRange(0, 2).Draw(t, "invalidPolicy") == 0 {
				policy = rapid.SampledFrom(invalidPolicies).Draw(t, "badPolicy")
			}
			// naming: requests through putNamed / create may carry a domain that must match the container's
			naming := "unnamed"
			switch kind {
			case "putNamed":
				naming = rapid.SampledFrom([]string{"named-match", "named-match", "named-mismatch-name", "named-mismatch-zone"}).Draw(t, "naming")
			case "create":
				naming = rapid.SampledFrom([]string{"unnamed", "unnamed", "named-match", "named-mismatch-name"}).Draw(t, "naming")
			}
			// 0-4 attributes in generated order: user, permitted system, forbidden system, chain-meta
			var attrs [][2]string
			var attrKinds []string
			used := map[string]bool{}
			for i, n := 0, rapid.SampledFrom([]int{0, 0, 1, 1, 2, 3, 4}).Draw(t, "nAttrs"); i < n; i++ {
				ak := rapid.SampledFrom([]string{"user", "lock-until", "forbidden-system", "forbidden-system", "meta", "meta"}).Draw(t, "attr")
				var kv [2]string
				switch ak {
				case "user":
					kv = [2]string{rapid.SampledFrom([]string{"Purpose", "Owner", "Zone"}).Draw(t, "userAttr"), "test"}
				case "lock-until":
					kv = [2]string{"__NEOFS__LOCK_UNTIL", fmt.Sprint(time.Now().Add(time.Hour).Unix())}
				case "forbidden-system":
					kv = [2]string{"__NEOFS__" + rapid.SampledFrom([]string{"FOO", "NAMEX", "name", "METAINFO_CONSISTENCY2"}).Draw(t, "sysAttr"), "x"}
				case "meta":
					kv = [2]string{"__NEOFS__METAINFO_CONSISTENCY", rapid.SampledFrom([]string{"strict", "optimistic"}).Draw(t, "metaPolicy")}
				}
				if used[kv[0]] {
					continue
				}
				used[kv[0]] = true
				attrs = append(attrs, kv)
				attrKinds = append(attrKinds, ak)
			}
			metaAt, forbiddenAfterMeta := -1, false
			for i, ak := range attrKinds {
				switch ak {
				case "forbidden-system":
					contentOK = false
					why = append(why, "forbidden system attribute")
					if metaAt >= 0 {
						forbiddenAfterMeta = true
					}
				case "meta":
					metaAt = i
					if !metaOn {
						contentOK = false
						why = append(why, "meta attribute with the feature off")
					}
				}
			}
			attrLabel := "attrs:" + strings.Join(attrKinds, ",")
			if len(attrKinds) == 0 {
				attrLabel = "attrs:none"
			}
			extraLabels = append(extraLabels, map[bool]string{true: "meta-feature-on", false: "meta-feature-off"}[metaOn])
			if forbiddenAfterMeta && metaOn {
				extraLabels = append(extraLabels, "forbidden-system-attr-after-accepted-meta-attr")
			}
			_ = attrLabel
			if policy == "REP 1 EC 2/1" {
				contentOK = false
				why = append(why, "REP+EC policy")
			}
			c, err := mkContainer(owners[ownerIdx], basic, policy, attrs, byte(nonce))
			if err != nil {
				t.Fatalf("harness: policy %q: %v", policy, err)
			}
			policyValid := c.PlacementPolicy().Verify() == nil // neofs-sdk-go is the trusted reference for policy validity
			if !policyValid {
				contentOK = false
				why = append(why, "invalid placement policy")
			}
			argName, argZone := "", ""
			if naming != "unnamed" || rapid.IntRange(0, 4).Draw(t, "domainAttrsAnyway") == 0 {
				var d container.Domain
				d.SetName(fmt.Sprintf("cnr-%d", nonce%1000))
				d.SetZone("container")
				c.WriteDomain(d)
				if naming != "unnamed" {
					argName, argZone = d.Name(), d.Zone()
				}
			}
			switch naming {
			case "named-mismatch-name":
				argName += "x"
				contentOK = false
				why = append(why, "domain name differs")
			case "named-mismatch-zone":
				argZone = "other"
				contentOK = false
				why = append(why, "domain zone differs")
			}
			extraLabels = append(extraLabels, naming, map[bool]string{true: "policy-valid", false: "policy-invalid"}[policyValid])
			policyInvalidUnnamed = !policyValid && naming == "unnamed"
			raw := c.Marshal()
			id := cid.NewFromMarshalledContainer(raw)
			inv, ver, tok, ok := a.build(ownerIdx, session.VerbContainerPut, nil, raw)
			authOK = ok
			switch kind {
			case "put":
				pub := ver
				if pub == nil {
					pub = []byte{}
				}
				tk := tok
				if tk == nil {
					tk = []byte{}
				}
				req = mk(cntEvent.PutNotaryEvent, raw, inv, pub, tk)
				evn, err = cntEvent.ParsePutNotary(req.Ev)
				if err != nil {
					t.Fatalf("harness: %v", err)
				}
			case "putNamed":
				pub := ver
				if pub == nil {
					pub = []byte{}
				}
				tk := tok
				if tk == nil {
					tk = []byte{}
				}
				req = mk(cntEvent.PutNamedNotaryEvent, raw, inv, pub, tk, argName, argZone)
				evn, err = cntEvent.ParsePutNamedNotary(req.Ev)
				if err != nil {
					t.Fatalf("harness: %v", err)
				}
			case "create":
				req = mk(fschaincontracts.CreateContainerMethod, raw, inv, ver, tok, argName, argZone, false)
				evn = cntEvent.CreateContainerRequest{MainTransaction: *req.Req.MainTransaction, CreateContainerParams: fschaincontracts.CreateContainerParams{Container: raw, InvocationScript: inv, VerificationScript: ver, SessionToken: tok, DomainName: argName, DomainZone: argZone}}
			default:
				req = mk(fschaincontracts.CreateContainerV2Method, irsetup.ContainerStruct(c), inv, ver, tok)
				r := cntEvent.CreateContainerV2Request{MainTransaction: *req.Req.MainTransaction, Container: *irsetup.ContainerStruct(c), InvocationScript: inv, VerificationScript: ver, SessionToken: tok}
				if kind == "createV2+eACL" {
					p, _, eok, econtent := eaclPart(id, ownerIdx, basic.Extendable())
					r.EACLTable = p
					if !eok {
						authOK = false
					}
					if !econtent {
						contentOK = false
						why = append(why, "eACL part not acceptable")
					}
				}
				evn = r
			}
		case "remove":
			sc := stored[rapid.IntRange(0, len(stored)-1).Draw(t, "container")]
			id := sc.id
			missing := rapid.IntRange(0, 7).Draw(t, "missingContainer") == 0
			ownerIdx := sc.owner
			if missing {
				id = cid.ID(sha256.Sum256([]byte{byte(nonce), 1}))
				contentOK = false
				why = append(why, "no such container")
			}
			inv, ver, tok, ok := a.build(ownerIdx, session.VerbContainerDelete, &id, id[:])
			authOK = ok
			req = mk(fschaincontracts.RemoveContainerMethod, id[:], inv, ver, tok)
			evn = cntEvent.RemoveContainerRequest{MainTransaction: *req.Req.MainTransaction, RemoveContainerParams: fschaincontracts.RemoveContainerParams{ID: id[:], InvocationScript: inv, VerificationScript: ver, SessionToken: tok}}
		case "putEACL":
			sc := stored[rapid.IntRange(0, len(stored)-1).Draw(t, "container")]
			recs, hasSystem := genRecords(t)
			raw := eacl.NewTableForContainer(sc.id, recs).Marshal()
			if hasSystem {
				contentOK = false
				why = append(why, "system role target")
			}
			if !sc.extendable {
				contentOK = false
				why = append(why, "basic ACL not extendable")
			}
			id := sc.id
			inv, ver, tok, ok := a.build(sc.owner, session.VerbContainerSetEACL, &id, raw)
			authOK = ok
			req = mk(fschaincontracts.PutContainerEACLMethod, raw, inv, ver, tok)
			evn = cntEvent.PutContainerEACLRequest{MainTransaction: *req.Req.MainTransaction, PutContainerEACLParams: fschaincontracts.PutContainerEACLParams{EACL: raw, InvocationScript: inv, VerificationScript: ver, SessionToken: tok}}
		case "setAttribute", "removeAttribute":
			sc := stored[rapid.IntRange(0, len(stored)-1).Draw(t, "container")]
			id := sc.id
			expired := rapid.IntRange(0, 5).Draw(t, "requestExpired") == 0
			until := time.Now().Add(time.Hour).Unix()
			if expired {
				until = time.Now().Add(-time.Hour).Unix()
				contentOK = false
				why = append(why, "request validity passed")
			}
			attr := rapid.SampledFrom([]string{"CORS", "__NEOFS__LOCK_UNTIL", "Purpose"}).Draw(t, "attribute")
			if kind == "setAttribute" {
				val := "v"
				payload := sdkclient.GetSignedSetContainerAttributeParameters(sdkclient.SetContainerAttributeParameters{ID: id, Attribute: attr, Value: val, ValidUntil: time.Unix(until, 0)})
				inv, ver, tok, ok := a.build(sc.owner, session.VerbContainerSetAttribute, &id, payload)
				authOK = ok
				req = mk(fschaincontracts.SetContainerAttributeMethod, id[:], attr, val, until, inv, ver, tok)
				evn = cntEvent.SetAttributeRequest{MainTransaction: *req.Req.MainTransaction, ID: id[:], Attribute: attr, Value: val, ValidUntil: until, InvocationScript: inv, VerificationScript: ver, SessionToken: tok}
			} else {
				payload := sdkclient.GetSignedRemoveContainerAttributeParameters(sdkclient.RemoveContainerAttributeParameters{ID: id, Attribute: attr, ValidUntil: time.Unix(until, 0)})
				inv, ver, tok, ok := a.build(sc.owner, session.VerbContainerRemoveAttribute, &id, payload)
				authOK = ok
				req = mk(fschaincontracts.RemoveContainerAttributeMethod, id[:], attr, until, inv, ver, tok)
				evn = cntEvent.RemoveAttributeRequest{MainTransaction: *req.Req.MainTransaction, ID: id[:], Attribute: attr, ValidUntil: until, InvocationScript: inv, VerificationScript: ver, SessionToken: tok}
			}
		}

		env.F.State.Set(map[bool]int{true: 0, false: -1}[mode == "member"], mode == "lookup-error")
		env.WaitIdle()
		env.Dropped()
		proxy.Reset()
		for {
			call(evn)
			if !env.WaitIdleTimeout(2 * time.Minute) {
				ev.Inconclusive("container handler did not finish within 2 minutes: %s", neoproxy.Describe(proxy.Calls()))
			}
			if !env.Dropped() {
				break
			}
		}
		logs := append([]string{}, env.LastLogs...)

		approved, foreign := 0, 0
		for _, wr := range proxy.Writes() {
			nr, err := wr.NotaryRequest()
			if err != nil {
				t.Fatalf("unexpected write %s", wr.Method)
			}
			if nr.MainTransaction.Hash() == req.Req.MainTransaction.Hash() {
				approved++
			} else {
				foreign++
			}
		}
		member := mode == "member"
		want := member && authOK && contentOK
		labels := append([]string{kind, mode, a.label()}, extraLabels...)
		if policyInvalidUnnamed && authOK && member {
			labels = append(labels, "unnamed&invalid-policy&authorised")
			reachedInvalidPolicy++
		}
		if !contentOK {
			labels = append(labels, "content-unacceptable")
		}
		if want {
			labels = append(labels, "approval-expected:"+kind)
		}
		if approved > 0 {
			labels = append(labels, "approved:"+kind)
			approvals++
		}
		if want && approved != 1 {
			labels = append(labels, "completeness-miss")
			misses++
			t.Logf("completeness miss (not a property violation): %s %s expected approval, got %d; logs: %v", kind, a.label(), approved, logs)
		}
		// non-trivial: alphabet state and exactly one thing decides (valid, or a single fault)
		nontrivial := member && (want || (authOK != contentOK) || strings.Contains(a.label(), "bad-") || strings.HasPrefix(a.label(), "direct:") && a.label() != "direct:owner" && contentOK)
		rec.Case(nontrivial, fmt.Sprintf("%s|%s|%+v|%v|%d", kind, mode, a, why, nonce), labels...)
		if rec.WantSample() {
			rec.Sample(map[string]any{"kind": kind, "state": mode, "auth": a, "content_faults": why, "approved": approved})
		}

		if approved > 0 && !want {
			t.Fatalf("container request APPROVED although it must not be: kind=%s state=%s owner-authorised=%v (%s) content acceptable=%v %v\nauth recipe %+v", kind, mode, authOK, a.label(), contentOK, why, a)
		}
		if approved > 1 {
			t.Fatalf("request approved %d times", approved)
		}
		if foreign > 0 && !(want && approved == 1) {
			t.Fatalf("%d notary request(s) for other main transactions sent while the request itself was not approved", foreign)
		}
	})
	rec.Set("approvals", approvals)
	rec.Set("completeness_misses", misses)
	rec.Set("unnamed_invalid_policy_authorised", reachedInvalidPolicy)
	if reachedInvalidPolicy == 0 && os.Getenv("VERIF_TIER") != "" {
		t.Fatalf("generator self check: the class unnamed&invalid-policy&authorised was not reached in this run")
	}
	if approvals == 0 {
		t.Fatalf("non-vacuity self check: no request was approved in this run")
	}
}

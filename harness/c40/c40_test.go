// Package c40 decides property C40 for pkg/timers.EpochTimers: after each
// Reset every new-epoch handler fires exactly once, at the first UpdateTime
// whose block time reaches the end of the epoch; every sub-epoch handler fires
// exactly once at the first UpdateTime that reaches its fraction of the epoch;
// nothing fires again until the next Reset.
//
// Oracle: a reference model of obligations (written from the statement and the
// doc comments of Reset / UpdateTime / SubEpochTick, it does not look at the
// done flags): Reset(l, d) replaces the obligation set by
// {epoch @ l+d, sub_i @ l + floor(d*mul_i/div_i)}; UpdateTime(t) discharges
// every open obligation with due <= t. The per-handler invocation counters of
// the real timers are compared with the model after every event.
//
// Domain: histories start with a Reset (the statement speaks about behaviour
// after each reset; before the first one the timers are armed at time 0);
// sub-epoch fractions are within the epoch (mul <= div, div > 0) - a "tick" at
// more than 1/1 of the epoch is never reached before the next epoch by
// definition and is not part of the statement; no uint64 overflow in l+d and
// d*mul.
package c40

import (
	"fmt"
	"strings"
	"testing"

	"github.com/nspcc-dev/neofs-node/pkg/timers"
	"github.com/nspcc-dev/neofs-node/verifharness/ev"
	"pgregory.net/rapid"
)

type frac struct{ mul, div uint32 }

type event struct {
	reset bool
	t     uint64 // block time (UpdateTime) or last tick time (Reset)
	dur   uint64
}

func (e event) String() string {
	if e.reset {
		return fmt.Sprintf("Reset(%d,%d)", e.t, e.dur)
	}
	return fmt.Sprintf("UpdateTime(%d)", e.t)
}

func histString(h []event) string {
	var sb strings.Builder
	for i, e := range h {
		if i > 0 {
			sb.WriteByte(' ')
		}
		sb.WriteString(e.String())
	}
	return sb.String()
}

// model of obligations.
type model struct {
	fr       []frac
	armed    bool
	epochDue uint64
	epochOn  bool // obligation open
	subDue   []uint64
	subOn    []bool
	// expected invocation counts
	epochCnt uint64 // per epoch handler (all handlers share the obligation)
	subCnt   []uint64
}

func newModel(fr []frac) *model {
	return &model{fr: fr, subDue: make([]uint64, len(fr)), subOn: make([]bool, len(fr)), subCnt: make([]uint64, len(fr))}
}

func (m *model) apply(e event) {
	if e.reset {
		m.armed = true
		m.epochDue, m.epochOn = e.t+e.dur, true
		for i, f := range m.fr {
			m.subDue[i] = e.t + e.dur*uint64(f.mul)/uint64(f.div)
			m.subOn[i] = true
		}
		return
	}
	if m.epochOn && e.t >= m.epochDue {
		m.epochOn = false
		m.epochCnt++
	}
	for i := range m.fr {
		if m.subOn[i] && e.t >= m.subDue[i] {
			m.subOn[i] = false
			m.subCnt[i]++
		}
	}
}

// stats of a history, for the non-triviality rule and labels.
type stats struct {
	fired            bool // some obligation was discharged
	refireOpp        bool // an UpdateTime at/after a due time whose obligation was already discharged (at-most-once is exercised)
	resetMidEpoch    bool // Reset while the epoch obligation was still open
	resetAfterFire   bool // Reset after the epoch tick fired (re-arming is exercised)
	nonMonotonic     bool // an UpdateTime with a smaller time than an earlier one
	subBeforeEpoch   bool // a sub tick discharged in an earlier UpdateTime than its epoch tick
	jumpOverAll      bool // a single UpdateTime discharged epoch and sub ticks together
	resets, updates  int
	lastUpd          uint64
	seenUpd          bool
	subFiredThisEpoc bool
}

// run drives the real timers and the model with the same history and compares
// counters after every event. Returns "" or a failure description.
func run(nEpoch int, fr []frac, h []event, st *stats) string {
	epochCnt := make([]uint64, nEpoch)
	subCnt := make([]uint64, len(fr))
	var ticks timers.EpochTicks
	for i := range nEpoch {
		ticks.NewEpochTicks = append(ticks.NewEpochTicks, func() { epochCnt[i]++ })
	}
	for i, f := range fr {
		ticks.DeltaTicks = append(ticks.DeltaTicks, timers.SubEpochTick{Tick: func() { subCnt[i]++ }, EpochMul: f.mul, EpochDiv: f.div})
	}
	et := timers.NewTimers(ticks)
	m := newModel(fr)
	for step, e := range h {
		// statistics (from the model, before applying)
		if e.reset {
			st.resets++
			if step > 0 {
				if m.epochOn {
					st.resetMidEpoch = true
				} else {
					st.resetAfterFire = true
				}
			}
			st.subFiredThisEpoc = false
		} else {
			st.updates++
			if st.seenUpd && e.t < st.lastUpd {
				st.nonMonotonic = true
			}
			st.seenUpd, st.lastUpd = true, e.t
			if !m.epochOn && e.t >= m.epochDue {
				st.refireOpp = true
			}
			for i := range fr {
				if !m.subOn[i] && e.t >= m.subDue[i] {
					st.refireOpp = true
				}
			}
			epochNow := m.epochOn && e.t >= m.epochDue
			subNow := false
			for i := range fr {
				if m.subOn[i] && e.t >= m.subDue[i] {
					subNow = true
				}
			}
			if epochNow || subNow {
				st.fired = true
			}
			if subNow && !epochNow {
				st.subFiredThisEpoc = true
			}
			if epochNow && subNow {
				st.jumpOverAll = true
			}
			if epochNow && st.subFiredThisEpoc {
				st.subBeforeEpoch = true
			}
		}

		m.apply(e)
		if e.reset {
			et.Reset(e.t, e.dur)
		} else {
			et.UpdateTime(e.t)
		}

		for i := range epochCnt {
			if epochCnt[i] != m.epochCnt {
				return fmt.Sprintf("after event #%d %s: new-epoch handler #%d fired %d times in total, expected %d (epoch end %d)\nhistory: %s\nsub ticks: %v",
					step, e, i, epochCnt[i], m.epochCnt, m.epochDue, histString(h[:step+1]), fr)
			}
		}
		for i := range subCnt {
			if subCnt[i] != m.subCnt[i] {
				return fmt.Sprintf("after event #%d %s: sub-epoch handler #%d (%d/%d, due %d) fired %d times in total, expected %d\nhistory: %s\nsub ticks: %v",
					step, e, i, fr[i].mul, fr[i].div, m.subDue[i], subCnt[i], m.subCnt[i], histString(h[:step+1]), fr)
			}
		}
	}
	return ""
}

func (st *stats) nontrivial() bool {
	// something fired, and afterwards the history gave the timers an opportunity to
	// misbehave: another qualifying block time, or a re-arming reset
	return st.fired && (st.refireOpp || st.resetAfterFire || st.resetMidEpoch)
}

func (st *stats) labels() []string {
	var l []string
	add := func(b bool, s string) {
		if b {
			l = append(l, s)
		}
	}
	add(st.fired, "fired")
	add(st.refireOpp, "refire-opportunity")
	add(st.resetMidEpoch, "reset-mid-epoch")
	add(st.resetAfterFire, "reset-after-fire")
	add(st.nonMonotonic, "non-monotonic-time")
	add(st.subBeforeEpoch, "sub-tick-in-earlier-block-than-epoch-tick")
	add(st.jumpOverAll, "one-block-discharges-epoch+sub")
	add(st.resets >= 2, "resets>=2")
	return l
}

// ---- exhaustive part --------------------------------------------------------

// Reduced alphabet of the enumeration: 6 resets and 13 block times.
var (
	exResetAt  = []uint64{0, 5}
	exResetDur = []uint64{1, 4, 6}
	exMaxTime  = uint64(12)
	// all fractions at once: the handlers are independent obligations
	exFracs = []frac{{1, 2}, {1, 3}, {2, 3}, {3, 4}, {1, 1}, {0, 1}}
	exLen   = 5
)

func exAlphabet() (resets, all []event) {
	for _, l := range exResetAt {
		for _, d := range exResetDur {
			resets = append(resets, event{reset: true, t: l, dur: d})
		}
	}
	all = append(all, resets...)
	for t := uint64(0); t <= exMaxTime; t++ {
		all = append(all, event{t: t})
	}
	return
}

// TestC40Exhaustive enumerates every history of length 1..5 over the reduced
// alphabet that starts with a Reset (6*(1+19+19^2+19^3+19^4) = 825 366
// histories), with 2 new-epoch handlers and all six sub-epoch fractions.
func TestC40Exhaustive(t *testing.T) {
	rec := ev.New("C40", "exhaustive")
	defer rec.Flush()
	k, n := ev.Shard()
	resets, all := exAlphabet()
	h := make([]event, 0, exLen)
	var total int64
	var rec1 func(depth int)
	visit := func() {
		var st stats
		if msg := run(2, exFracs, h, &st); msg != "" {
			t.Fatalf("%s", msg)
		}
		total++
		nt := st.nontrivial()
		if nt {
			rec.Case(true, histString(h), st.labels()...)
		} else {
			rec.CaseN(1, st.labels()...)
		}
		if nt && st.nonMonotonic && st.resetMidEpoch && len(h) == exLen && rec.WantSample() {
			rec.Sample(histString(h))
		}
	}
	rec1 = func(depth int) {
		visit()
		if depth == exLen {
			return
		}
		for _, e := range all {
			h = append(h, e)
			rec1(depth + 1)
			h = h[:len(h)-1]
		}
	}
	// partition by (first, second) event: 6*19 = 114 subtrees + the 6 length-1 histories
	idx := 0
	for _, r := range resets {
		h = append(h[:0], r)
		idx++
		if idx%n == k {
			visit()
		}
		for _, e := range all {
			idx++
			if idx%n != k {
				continue
			}
			h = append(h[:1], e)
			rec1(2)
		}
	}
	rec.Set("exhaustive", true)
	rec.Set("exhaustive_domain", fmt.Sprintf("all histories of length 1..%d starting with a Reset over {Reset(l,d): l in %v, d in %v} + {UpdateTime(t): t in 0..%d}; 2 new-epoch handlers, sub ticks %v (825366 histories over all shards)",
		exLen, exResetAt, exResetDur, exMaxTime, exFracs))
}

// ---- rapid part -------------------------------------------------------------

var fracPool = []frac{{1, 2}, {1, 3}, {2, 3}, {3, 4}, {1, 1}, {0, 1}, {1, 4}, {5, 7}, {2, 2}, {1, 100}, {99, 100}}

func TestC40Histories(t *testing.T) {
	rec := ev.New("C40", "histories")
	defer rec.Flush()
	rapid.Check(t, func(t *rapid.T) {
		nEpoch := rapid.IntRange(0, 2).Draw(t, "epochHandlers")
		fr := rapid.SliceOfN(rapid.SampledFrom(fracPool), 0, 3).Draw(t, "fractions")
		if nEpoch == 0 && len(fr) == 0 {
			nEpoch = 1
		}
		maxLen := 8
		if ev.Thorough() {
			maxLen = 14
		}
		n := rapid.IntRange(1, maxLen).Draw(t, "len")
		h := make([]event, 0, n)
		for i := range n {
			if i == 0 || rapid.IntRange(0, 3).Draw(t, "isReset") == 0 {
				h = append(h, event{reset: true, t: rapid.Uint64Range(0, 24).Draw(t, "l"), dur: rapid.Uint64Range(1, 8).Draw(t, "dur")})
			} else {
				h = append(h, event{t: rapid.Uint64Range(0, 24).Draw(t, "t")})
			}
		}
		var st stats
		msg := run(nEpoch, fr, h, &st)
		rec.Case(st.nontrivial(), fmt.Sprintf("%d|%v|%s", nEpoch, fr, histString(h)), append(st.labels(), fmt.Sprintf("subticks=%d", len(fr)), fmt.Sprintf("epochHandlers=%d", nEpoch))...)
		if st.nontrivial() && rec.WantSample() {
			rec.Sample(map[string]any{"epochHandlers": nEpoch, "fractions": fmt.Sprint(fr), "history": histString(h)})
		}
		if msg != "" {
			t.Fatalf("%s", msg)
		}
	})
}

// TestC40Realistic uses the magnitudes of the real callers: millisecond block
// timestamps around 1.7e12, epoch durations of seconds..hours in ms, block
// times advancing by roughly a block interval with occasional steps back, and
// fractions as built by the storage node (mul = offset in ms, div = duration in
// ms) and by the inner ring (small mul/div).
func TestC40Realistic(t *testing.T) {
	rec := ev.New("C40", "realistic")
	defer rec.Flush()
	rapid.Check(t, func(t *rapid.T) {
		const base = uint64(1_700_000_000_000)
		dur := rapid.SampledFrom([]uint64{1000, 15_000, 240_000, 3_600_000, 86_400_000}).Draw(t, "dur")
		block := rapid.SampledFrom([]uint64{100, 1000, 15_000}).Draw(t, "blockInterval")
		nEpoch := rapid.IntRange(0, 2).Draw(t, "epochHandlers")
		nf := rapid.IntRange(0, 3).Draw(t, "nfr")
		if nEpoch == 0 && nf == 0 {
			nf = 1
		}
		fr := make([]frac, nf)
		for i := range fr {
			if rapid.Bool().Draw(t, "snStyle") {
				fr[i] = frac{uint32(rapid.Uint64Range(0, dur).Draw(t, "mulMs")), uint32(dur)}
			} else {
				fr[i] = rapid.SampledFrom(fracPool).Draw(t, "f")
			}
		}
		n := rapid.IntRange(2, 24).Draw(t, "len")
		h := []event{{reset: true, t: base, dur: dur}}
		now, lastReset := base, base
		for len(h) < n {
			switch rapid.IntRange(0, 9).Draw(t, "kind") {
			case 0: // new epoch event in the current block
				h = append(h, event{reset: true, t: now, dur: dur})
				lastReset = now
			case 1: // reset to an older block (lastTick looked up by height)
				back := rapid.Uint64Range(0, 3).Draw(t, "back") * block
				h = append(h, event{reset: true, t: now - min(back, now-base), dur: dur})
				lastReset = h[len(h)-1].t
			case 2: // block with an older timestamp (re-delivery)
				h = append(h, event{t: now - min(now-base, rapid.Uint64Range(0, 2*block).Draw(t, "older"))})
			case 3: // jump close to / over the epoch end
				now = lastReset + dur + uint64(int64(rapid.IntRange(-2, 2).Draw(t, "d")))
				h = append(h, event{t: now})
			case 4: // jump close to a sub tick
				if len(fr) > 0 {
					f := fr[rapid.IntRange(0, len(fr)-1).Draw(t, "which")]
					now = lastReset + dur*uint64(f.mul)/uint64(f.div) + uint64(int64(rapid.IntRange(-1, 1).Draw(t, "d")))
					if now < base {
						now = base
					}
				}
				h = append(h, event{t: now})
			default: // next block(s)
				now += block*rapid.Uint64Range(1, 4).Draw(t, "blocks") + rapid.Uint64Range(0, 20).Draw(t, "jitter")
				h = append(h, event{t: now})
			}
		}
		var st stats
		msg := run(nEpoch, fr, h, &st)
		rec.Case(st.nontrivial(), fmt.Sprintf("%d|%v|%s", nEpoch, fr, histString(h)), append(st.labels(), "realistic")...)
		if msg != "" {
			t.Fatalf("%s", msg)
		}
	})
}

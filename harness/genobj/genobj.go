// Package genobj is the shared rapid generator of valid neofs-sdk-go
// object.Object values for the /verif property tests.
//
// What "valid" means here: the object is something a NeoFS client / node can
// legitimately produce with the SDK – it survives Marshal/Unmarshal unchanged,
// its payload checksum matches the payload, and when it carries an ID and/or a
// signature they are the correct ones (CalculateID / Sign by a fixed test
// key). Format rules that only the node's FormatValidator knows (attribute
// limits, expiration, token checks) are NOT guaranteed unless stated below.
//
// Coverage of the generator (see Describe for the label names):
//   - all object types: REGULAR, TOMBSTONE (API 2.18+ __NEOFS__ASSOCIATE form
//     and legacy payload form), STORAGE_GROUP, LOCK (both forms), LINK (V2
//     payload form and V1 children-in-header form), optionally unknown types;
//   - split relations: none, V1 child (split ID), V2 first / middle / last
//     child (first ID), EC part (EC attributes + parent header); children may
//     carry a parent header with or without parent ID and parent signature;
//   - with / without ID, with / without signature, in all three ECDSA schemes;
//   - attributes from a colliding pool (prefixes of each other, decimal
//     integers, unicode, long values), unique keys; optional padding attribute
//     that drives the header length to the varint / object.MaxHeaderLen edges;
//   - payload 0..Opts.MaxPayload (default 64 KiB) with sizes biased to the
//     buffer boundaries of the node (16 KiB header limit, 20 KiB prefix
//     buffer), content expanded deterministically from a drawn seed;
//   - optional V1 session token, optional homomorphic hash, version nil /
//     current / other.
//
// Determinism: every choice comes from rapid draws, keys are the fixed keys of
// package gensign and signatures use its deterministic signers, so a case is a
// pure function of the draws (no crypto/rand, no time, no map order).
//
// Imports: rapid, neofs-sdk-go (+ google/uuid, gensign). No neofs-node storage
// packages, so every check can depend on it.
package genobj

import (
	"crypto/sha256"
	"fmt"
	"strconv"

	"github.com/google/uuid"
	"github.com/nspcc-dev/neofs-node/verifharness/gensign"
	"github.com/nspcc-dev/neofs-sdk-go/checksum"
	cid "github.com/nspcc-dev/neofs-sdk-go/container/id"
	neofscrypto "github.com/nspcc-dev/neofs-sdk-go/crypto"
	neofsecdsa "github.com/nspcc-dev/neofs-sdk-go/crypto/ecdsa"
	"github.com/nspcc-dev/neofs-sdk-go/object"
	oid "github.com/nspcc-dev/neofs-sdk-go/object/id"
	"github.com/nspcc-dev/neofs-sdk-go/session"
	"github.com/nspcc-dev/neofs-sdk-go/version"
	"pgregory.net/rapid"
)

// Opts tunes the generator. The zero value gives the full mix.
type Opts struct {
	// MaxPayload bounds the payload length; 0 means 64 KiB.
	MaxPayload int
	// SmallOnly restricts payloads to <= 64 bytes and disables header padding
	// (for exhaustive per-byte work on the encoding).
	SmallOnly bool
	// NoBigHeaders disables the padding attribute that drives the header
	// length towards object.MaxHeaderLen.
	NoBigHeaders bool
	// UnknownTypes allows object types outside the five defined ones.
	UnknownTypes bool
	// AlwaysVerified forces ID + signature on the object (and on parents that
	// are complete), so CheckVerificationFields passes.
	AlwaysVerified bool
	// NoSession disables session tokens in headers.
	NoSession bool
}

// NContainers is the size of the fixed container pool.
const NContainers = 3

// NIDs is the size of the fixed object ID pool used for relations.
const NIDs = 12

var (
	containers [NContainers]cid.ID
	idPool     [NIDs]oid.ID
)

func init() {
	for i := range containers {
		containers[i] = cid.ID(sha256.Sum256([]byte(fmt.Sprintf("verif-cnr-%d", i))))
	}
	for i := range idPool {
		idPool[i] = oid.ID(sha256.Sum256([]byte(fmt.Sprintf("verif-obj-%d", i))))
	}
}

// Container returns fixed container ID #i.
func Container(i int) cid.ID { return containers[i] }

// PoolID returns fixed object ID #i of the relation pool.
func PoolID(i int) oid.ID { return idPool[i] }

// Fill expands (seed, n) into n deterministic pseudo-random bytes (xorshift64*).
// Rapid draws only the seed, which keeps large payloads cheap to generate and
// shrink.
func Fill(seed uint64, n int) []byte {
	b := make([]byte, n)
	x := seed*0x9E3779B97F4A7C15 + 0x2545F4914F6CDD1D
	if x == 0 {
		x = 1
	}
	for i := 0; i < n; i += 8 {
		x ^= x >> 12
		x ^= x << 25
		x ^= x >> 27
		v := x * 0x2545F4914F6CDD1D
		for j := 0; j < 8 && i+j < n; j++ {
			b[i+j] = byte(v >> (8 * j))
		}
	}
	return b
}

// PayloadLen draws a payload length in [0, max] biased to the boundaries the
// node cares about.
func PayloadLen(max int) *rapid.Generator[int] {
	edges := []int{0, 1, 2, 7, 64, 100, 127, 128, 129, 1000, 4095, 4096, 4097, 16383, 16384, 16385,
		20479, 20480, 20481, 40959, 40960, 40961, 65535, 65536}
	var ok []int
	for _, e := range edges {
		if e <= max {
			ok = append(ok, e)
		}
	}
	return rapid.Custom(func(t *rapid.T) int {
		switch rapid.IntRange(0, 9).Draw(t, "pldClass") {
		case 0, 1:
			return 0
		case 2, 3, 4:
			return rapid.IntRange(0, min(max, 300)).Draw(t, "pldSmall")
		case 5, 6, 7:
			e := rapid.SampledFrom(ok).Draw(t, "pldEdge")
			d := rapid.IntRange(-3, 3).Draw(t, "pldDelta")
			return min(max, maxInt(0, e+d))
		default:
			return rapid.IntRange(0, max).Draw(t, "pldAny")
		}
	})
}

func maxInt(a, b int) int {
	if a > b {
		return a
	}
	return b
}

// AnyID draws an object ID: mostly from the fixed pool, sometimes arbitrary
// non-zero bytes.
func AnyID() *rapid.Generator[oid.ID] {
	return rapid.Custom(func(t *rapid.T) oid.ID {
		if rapid.IntRange(0, 4).Draw(t, "idKind") > 0 {
			return idPool[rapid.IntRange(0, NIDs-1).Draw(t, "idIdx")]
		}
		var id oid.ID
		copy(id[:], Fill(rapid.Uint64().Draw(t, "idSeed"), 32))
		id[0] |= 1
		return id
	})
}

func v4(seed uint64) uuid.UUID {
	var u uuid.UUID
	copy(u[:], Fill(seed, 16))
	u[6] = (u[6] & 0x0f) | 0x40
	u[8] = (u[8] & 0x3f) | 0x80
	return u
}

var attrKeys = []string{"FileName", "FilePath", "Timestamp", "ContentType", "a", "ab", "abc", "abd", "A", "k", "k1", "k10", "k2",
	"ключ", "key with spaces", "0", "-1", "zzz", "x-user-attr"}

var attrVals = []string{"0", "1", "-1", "+5", "007", "1e3", "18446744073709551615", "18446744073709551616",
	"-115792089237316195423570985008687907853269984665640564039457584007913129639935", "v", "va", "val", "значение",
	"a/b/c.txt", "text/plain", " ", "\x00"}

var epochs = []uint64{0, 1, 2, 10, 127, 128, 300, 16383, 16384, 1<<32 - 1, 1 << 32, 1<<63 - 1, 1 << 63, 1<<64 - 1}

func genAttrs(t *rapid.T, label string, maxN int) []object.Attribute {
	n := rapid.IntRange(0, maxN).Draw(t, label+"N")
	var res []object.Attribute
	seen := map[string]bool{}
	for i := 0; i < n; i++ {
		k := rapid.SampledFrom(attrKeys).Draw(t, label+"K")
		if seen[k] {
			continue
		}
		seen[k] = true
		var v string
		if rapid.IntRange(0, 9).Draw(t, label+"VLong") == 0 {
			v = string(Fill(uint64(i)+7, rapid.IntRange(100, 700).Draw(t, label+"VLen")))
			v = strconv.QuoteToASCII(v) // valid UTF-8, still long
		} else {
			v = rapid.SampledFrom(attrVals).Draw(t, label+"V")
		}
		res = append(res, object.NewAttribute(k, v))
	}
	if rapid.IntRange(0, 5).Draw(t, label+"Exp") == 0 {
		e := rapid.SampledFrom(epochs).Draw(t, label+"ExpV")
		res = append(res, object.NewAttribute(object.AttributeExpirationEpoch, strconv.FormatUint(e, 10)))
	}
	return res
}

func genVersion(t *rapid.T, o *object.Object, label string) {
	switch rapid.IntRange(0, 9).Draw(t, label) {
	case 0:
		o.SetVersion(nil)
	case 1:
		v := version.New(2, 17)
		o.SetVersion(&v)
	case 2:
		v := version.New(rapid.Uint32().Draw(t, label+"Mj"), rapid.Uint32().Draw(t, label+"Mn"))
		o.SetVersion(&v)
	default:
		v := version.Current()
		o.SetVersion(&v)
	}
}

// padHeader adds attribute "pad" so that o.HeaderLen() becomes target (when
// reachable: target must exceed the current length by at least ~12 bytes).
func padHeader(o *object.Object, target int) {
	cur := o.HeaderLen()
	need := target - cur
	if need < 12 {
		return
	}
	base := o.Attributes()
	set := func(n int) int {
		if n < 1 {
			n = 1
		}
		v := make([]byte, n)
		for i := range v {
			v[i] = 'p'
		}
		o.SetAttributes(append(append([]object.Attribute(nil), base...), object.NewAttribute("pad", string(v)))...)
		return o.HeaderLen()
	}
	n := need - 10
	for i := 0; i < 6; i++ {
		got := set(n)
		if got == target {
			return
		}
		n -= got - target
	}
}

var hdrTargets = []int{127, 128, 129, 255, 256, 4095, 4096, 16000, 16100, 16200, 16250, 16300, 16380, 16381, 16382, 16383, object.MaxHeaderLen}

// genParent draws a parent (root) object header. complete: with ID (and
// usually signature); otherwise an unfinished parent (first child of a V2 split).
func genParent(t *rapid.T, o Opts, cnr cid.ID, ownerKey int, complete bool) *object.Object {
	p := object.New(cnr, gensign.UserID(ownerKey))
	genVersion(t, p, "parVer")
	p.SetCreationEpoch(rapid.SampledFrom(epochs).Draw(t, "parEpoch"))
	p.SetType(object.TypeRegular)
	p.SetAttributes(genAttrs(t, "parAttr", 4)...)
	total := rapid.Uint64Range(0, 1<<34).Draw(t, "parLen")
	p.SetPayloadSize(total)
	if complete || rapid.Bool().Draw(t, "parHasSum") {
		p.SetPayloadChecksum(checksum.NewSHA256(sha256.Sum256(Fill(total, 16))))
	}
	if !o.SmallOnly && !o.NoBigHeaders && rapid.IntRange(0, 11).Draw(t, "parPad") == 0 {
		padHeader(p, rapid.SampledFrom([]int{127, 128, 129, 1000, 8000}).Draw(t, "parPadTo"))
	}
	if complete {
		if err := p.CalculateAndSetID(); err != nil {
			panic(err)
		}
		if o.AlwaysVerified || rapid.IntRange(0, 5).Draw(t, "parSig") > 0 {
			s := gensign.AnySigner().Draw(t, "parSigner")
			if err := p.Sign(s); err != nil {
				panic(err)
			}
		}
	}
	return p
}

// Kinds of generated objects (value of the "kind:" label).
var Kinds = []string{"regular", "tombstone", "tombstone-legacy", "lock", "lock-legacy", "storagegroup",
	"link-v2", "link-v1", "child-v1", "child-v1-last", "child-v2-first", "child-v2-mid", "child-v2-last", "ec-part", "header-only"}

// Object returns the generator described in the package comment.
func Object(o Opts) *rapid.Generator[*object.Object] {
	return rapid.Custom(func(t *rapid.T) *object.Object { obj, _ := draw(t, o); return obj })
}

// Gen is a generated object together with the kind (one of Kinds) it was built as.
type Gen struct {
	Obj  *object.Object
	Kind string
}

// WithKind is Object that also reports the kind, for distribution labels.
func WithKind(o Opts) *rapid.Generator[Gen] {
	return rapid.Custom(func(t *rapid.T) Gen { obj, k := draw(t, o); return Gen{Obj: obj, Kind: k} })
}

func draw(t *rapid.T, o Opts) (*object.Object, string) {
	maxPld := o.MaxPayload
	if maxPld == 0 {
		maxPld = 64 << 10
	}
	if o.SmallOnly && maxPld > 64 {
		maxPld = 64
	}
	cnr := containers[rapid.IntRange(0, NContainers-1).Draw(t, "cnr")]
	ownerKey := rapid.IntRange(0, gensign.NKeys-1).Draw(t, "owner")
	obj := object.New(cnr, gensign.UserID(ownerKey))
	genVersion(t, obj, "ver")
	obj.SetCreationEpoch(rapid.SampledFrom(epochs).Draw(t, "epoch"))
	attrs := genAttrs(t, "attr", 5)

	kind := rapid.SampledFrom(append([]string{"regular", "regular", "regular"}, Kinds...)).Draw(t, "kind")
	pldLen := PayloadLen(maxPld).Draw(t, "pldLen")
	pldSeed := rapid.Uint64().Draw(t, "pldSeed")
	var payload []byte
	hdrOnly := false

	switch kind {
	case "regular":
		obj.SetType(object.TypeRegular)
		payload = Fill(pldSeed, pldLen)
	case "header-only":
		// header of a stored object as HEAD returns it: payload length set, payload cut
		obj.SetType(object.TypeRegular)
		payload = Fill(pldSeed, pldLen)
		hdrOnly = true
	case "storagegroup":
		obj.SetType(object.TypeStorageGroup)
		payload = Fill(pldSeed, min(pldLen, 300))
	case "tombstone":
		obj.SetAttributes(attrs...)
		obj.AssociateDeleted(AnyID().Draw(t, "assoc"))
		attrs = obj.Attributes()
	case "lock":
		obj.SetAttributes(attrs...)
		obj.AssociateLocked(AnyID().Draw(t, "assoc"))
		attrs = obj.Attributes()
	case "tombstone-legacy":
		obj.SetType(object.TypeTombstone)
		var ts object.Tombstone
		n := rapid.IntRange(1, 5).Draw(t, "members")
		ids := make([]oid.ID, n)
		for i := range ids {
			ids[i] = AnyID().Draw(t, "member")
		}
		ts.SetMembers(ids)
		payload = ts.Marshal()
	case "lock-legacy":
		obj.SetType(object.TypeLock)
		var l object.Lock
		n := rapid.IntRange(1, 5).Draw(t, "members")
		ids := make([]oid.ID, n)
		for i := range ids {
			ids[i] = AnyID().Draw(t, "member")
		}
		l.WriteMembers(ids)
		payload = l.Marshal()
	case "link-v2":
		obj.SetType(object.TypeLink)
		n := rapid.IntRange(1, 40).Draw(t, "children")
		ms := make([]object.MeasuredObject, n)
		for i := range ms {
			ms[i].SetObjectID(AnyID().Draw(t, "child"))
			ms[i].SetObjectSize(rapid.Uint32().Draw(t, "childSize"))
		}
		var l object.Link
		l.SetObjects(ms)
		payload = l.Marshal()
		obj.SetParent(genParent(t, o, cnr, ownerKey, true))
		obj.SetFirstID(AnyID().Draw(t, "first"))
	case "link-v1":
		obj.SetType(object.TypeRegular)
		n := rapid.IntRange(1, 40).Draw(t, "children")
		ids := make([]oid.ID, n)
		for i := range ids {
			ids[i] = AnyID().Draw(t, "child")
		}
		obj.SetParent(genParent(t, o, cnr, ownerKey, true))
		obj.SetChildren(ids...)
		obj.SetSplitID(object.NewSplitIDFromV2(uuidBytes(rapid.Uint64().Draw(t, "splitID"))))
	case "child-v1", "child-v1-last":
		obj.SetType(object.TypeRegular)
		payload = Fill(pldSeed, pldLen)
		obj.SetSplitID(object.NewSplitIDFromV2(uuidBytes(rapid.Uint64().Draw(t, "splitID"))))
		if kind == "child-v1-last" {
			obj.SetParent(genParent(t, o, cnr, ownerKey, true))
			obj.SetPreviousID(AnyID().Draw(t, "prev"))
		} else if rapid.Bool().Draw(t, "hasPrev") {
			obj.SetPreviousID(AnyID().Draw(t, "prev"))
		}
	case "child-v2-first":
		obj.SetType(object.TypeRegular)
		payload = Fill(pldSeed, pldLen)
		obj.SetParent(genParent(t, o, cnr, ownerKey, false))
	case "child-v2-mid":
		obj.SetType(object.TypeRegular)
		payload = Fill(pldSeed, pldLen)
		obj.SetFirstID(AnyID().Draw(t, "first"))
		obj.SetPreviousID(AnyID().Draw(t, "prev"))
	case "child-v2-last":
		obj.SetType(object.TypeRegular)
		payload = Fill(pldSeed, pldLen)
		obj.SetFirstID(AnyID().Draw(t, "first"))
		obj.SetPreviousID(AnyID().Draw(t, "prev"))
		obj.SetParent(genParent(t, o, cnr, ownerKey, true))
	case "ec-part":
		obj.SetType(object.TypeRegular)
		payload = Fill(pldSeed, pldLen)
		obj.SetParent(genParent(t, o, cnr, ownerKey, true))
		attrs = append(attrs,
			object.NewAttribute(object.AttributeECRuleIndex, strconv.Itoa(rapid.IntRange(0, 3).Draw(t, "ecRule"))),
			object.NewAttribute(object.AttributeECPartIndex, strconv.Itoa(rapid.IntRange(0, 15).Draw(t, "ecPart"))))
	}
	if o.UnknownTypes && rapid.IntRange(0, 19).Draw(t, "unkType") == 0 {
		obj.SetType(object.Type(rapid.Int32Range(5, 1<<31-1).Draw(t, "typ")))
	}
	obj.SetAttributes(attrs...)

	if !o.NoSession && rapid.IntRange(0, 9).Draw(t, "session") == 0 {
		var tok session.Object
		tok.ForVerb(session.VerbObjectPut)
		tok.BindContainer(cnr)
		tok.SetID(v4(rapid.Uint64().Draw(t, "sessID")))
		tok.SetAuthKey((*neofsecdsa.PublicKeyRFC6979)(&gensign.Key(rapid.IntRange(0, gensign.NKeys-1).Draw(t, "sessKey")).PublicKey))
		tok.SetIat(1)
		tok.SetNbf(2)
		tok.SetExp(rapid.SampledFrom(epochs).Draw(t, "sessExp"))
		if err := tok.Sign(gensign.New(ownerKey, neofscrypto.ECDSA_DETERMINISTIC_SHA256)); err != nil {
			panic(err)
		}
		obj.SetSessionToken(&tok)
	}

	obj.SetPayload(payload)
	obj.SetPayloadSize(uint64(len(payload)))
	switch rapid.IntRange(0, 9).Draw(t, "sum") {
	case 0: // no checksum at all (allowed by the codec; format validator rejects later)
	default:
		obj.CalculateAndSetPayloadChecksum()
	}
	if rapid.IntRange(0, 5).Draw(t, "homo") == 0 {
		obj.SetPayloadHomomorphicHash(checksum.New(checksum.TillichZemor, Fill(pldSeed^0x5a, 64))) //nolint:staticcheck
	}
	if o.AlwaysVerified {
		obj.CalculateAndSetPayloadChecksum()
	}

	if !o.SmallOnly && !o.NoBigHeaders && rapid.IntRange(0, 7).Draw(t, "pad") == 0 {
		padHeader(obj, rapid.SampledFrom(hdrTargets).Draw(t, "padTo"))
	}

	auth := rapid.IntRange(0, 9).Draw(t, "auth")
	if o.AlwaysVerified {
		auth = 9
	}
	switch {
	case auth == 0: // neither ID nor signature (object under construction)
	case auth == 1: // ID only
		if err := obj.CalculateAndSetID(); err != nil {
			panic(err)
		}
	default:
		if err := obj.CalculateAndSetID(); err != nil {
			panic(err)
		}
		if err := obj.Sign(gensign.AnySigner().Draw(t, "signer")); err != nil {
			panic(err)
		}
	}
	if hdrOnly {
		obj = obj.CutPayload()
	}
	return obj, kind
}

func uuidBytes(seed uint64) []byte { u := v4(seed); return u[:] }

// Describe returns distribution labels of a generated (or any) object; it
// reads the proto message only, so it is safe on decoded foreign input.
func Describe(obj *object.Object) []string {
	m := obj.ProtoMessage()
	var l []string
	h := m.GetHeader()
	if ty := object.Type(h.GetObjectType()); ty >= 0 && ty <= object.TypeLink {
		l = append(l, "type:"+ty.String())
	} else {
		l = append(l, "type:unknown")
	}
	if m.ObjectId != nil {
		l = append(l, "has-id")
	} else {
		l = append(l, "no-id")
	}
	if m.Signature != nil {
		l = append(l, "sig:"+neofscrypto.Scheme(m.Signature.Scheme).String())
	} else {
		l = append(l, "no-sig")
	}
	if h == nil {
		l = append(l, "no-header")
	}
	sp := h.GetSplit()
	switch {
	case sp == nil:
		l = append(l, "split:none")
	default:
		if len(sp.SplitId) > 0 {
			l = append(l, "split:v1")
		} else {
			l = append(l, "split:v2")
		}
		if sp.ParentHeader != nil {
			l = append(l, "parent-hdr")
			if sp.Parent != nil {
				l = append(l, "parent-id")
			} else {
				l = append(l, "parent-no-id")
			}
			if sp.ParentSignature != nil {
				l = append(l, "parent-sig")
			} else {
				l = append(l, "parent-no-sig")
			}
		}
		if sp.Previous != nil {
			l = append(l, "split-prev")
		}
		if len(sp.Children) > 0 {
			l = append(l, "split-children")
		}
		if sp.First != nil {
			l = append(l, "split-first")
		}
	}
	if h.GetSessionToken() != nil {
		l = append(l, "session-v1")
	}
	if len(h.GetAttributes()) > 0 {
		l = append(l, "attrs")
	}
	n := len(m.Payload)
	switch {
	case n == 0 && h.GetPayloadLength() > 0:
		l = append(l, "payload:cut")
	case n == 0:
		l = append(l, "payload:0")
	case n < 128:
		l = append(l, "payload:<128")
	case n < 16<<10:
		l = append(l, "payload:<16K")
	case n < 20<<10:
		l = append(l, "payload:16K..20K")
	case n < 40<<10:
		l = append(l, "payload:20K..40K")
	default:
		l = append(l, "payload:>=40K")
	}
	hl := obj.HeaderLen()
	switch {
	case hl < 128:
		l = append(l, "hdr:<128")
	case hl < 16000:
		l = append(l, "hdr:<16000")
	case hl <= object.MaxHeaderLen:
		l = append(l, "hdr:16000..max")
	default:
		l = append(l, "hdr:>max")
	}
	return l
}

package genobj_test

import (
	"bytes"
	"testing"

	"github.com/nspcc-dev/neofs-node/verifharness/genobj"
	"github.com/nspcc-dev/neofs-sdk-go/object"
	"pgregory.net/rapid"
)

// Self-check of the generator: what it calls "valid" really holds.
func TestGeneratedObjectsAreValid(t *testing.T) {
	kinds := map[string]int{}
	rapid.Check(t, func(t *rapid.T) {
		g := genobj.WithKind(genobj.Opts{UnknownTypes: true}).Draw(t, "obj")
		obj := g.Obj
		kinds[g.Kind]++
		b := obj.Marshal()
		var back object.Object
		if err := back.Unmarshal(b); err != nil {
			t.Fatalf("unmarshal: %v", err)
		}
		if !bytes.Equal(back.Marshal(), b) {
			t.Fatalf("marshal is not stable")
		}
		if !obj.GetID().IsZero() {
			if err := obj.VerifyID(); err != nil {
				t.Fatalf("ID: %v", err)
			}
		}
		if obj.Signature() != nil && !obj.VerifySignature() {
			t.Fatalf("signature does not verify")
		}
		if _, ok := obj.PayloadChecksum(); ok && g.Kind != "header-only" {
			if err := obj.VerifyPayloadChecksum(); err != nil {
				t.Fatalf("checksum: %v", err)
			}
		}
		if par := obj.Parent(); par != nil {
			if !par.GetID().IsZero() {
				if err := par.VerifyID(); err != nil {
					t.Fatalf("parent ID: %v", err)
				}
			}
			if par.Signature() != nil && !par.VerifySignature() {
				t.Fatalf("parent signature does not verify")
			}
		}
		if obj.HeaderLen() > object.MaxHeaderLen {
			t.Fatalf("header too long: %d", obj.HeaderLen())
		}
		_ = genobj.Describe(obj)
	})
	for _, k := range genobj.Kinds {
		if kinds[k] == 0 {
			t.Errorf("kind %s never generated", k)
		}
	}
	t.Log(kinds)
}

func TestVerified(t *testing.T) {
	rapid.Check(t, func(t *rapid.T) {
		obj := genobj.Object(genobj.Opts{AlwaysVerified: true, MaxPayload: 1000}).Draw(t, "obj")
		if len(obj.Payload()) == 0 && obj.PayloadSize() > 0 {
			return // header-only form
		}
		if err := obj.CheckVerificationFields(); err != nil {
			t.Fatal(err)
		}
	})
}

// Package engx builds storage engines for the engine-level checks (C08, C19,
// C20): every shard sits on a faultstore-wrapped FSTree, shard IDs are chosen
// by the caller (pre-seeded into the FSTree descriptor, so the HRW order of
// shards for an object is a function of generated values, not of uuid
// randomness), the order of AddShard calls is chosen by the caller (Go's
// iteration over the engine's small shard map is a random ROTATION of the
// insertion order, so all visiting orders of broadcasts are only reachable by
// also permuting insertions), and all blob-storage calls of all shards are
// logged with one global sequence number (observed visiting order).
//
// Nothing here draws random values.
package engx

import (
	"bytes"
	"context"
	"encoding/binary"
	"errors"
	"fmt"
	"path/filepath"
	"sync"
	"time"

	"github.com/nspcc-dev/bbolt"
	"github.com/nspcc-dev/hrw/v2"
	ierrors "github.com/nspcc-dev/neofs-node/internal/errors"
	"github.com/nspcc-dev/neofs-node/pkg/local_object_storage/blobstor/common"
	"github.com/nspcc-dev/neofs-node/pkg/local_object_storage/blobstor/fstree"
	"github.com/nspcc-dev/neofs-node/pkg/local_object_storage/engine"
	meta "github.com/nspcc-dev/neofs-node/pkg/local_object_storage/metabase"
	"github.com/nspcc-dev/neofs-node/pkg/local_object_storage/shard"
	"github.com/nspcc-dev/neofs-node/pkg/local_object_storage/shard/mode"
	"github.com/nspcc-dev/neofs-node/verifharness/faultstore"
	"github.com/nspcc-dev/neofs-node/verifharness/stor"
	apistatus "github.com/nspcc-dev/neofs-sdk-go/client/status"
	"github.com/nspcc-dev/neofs-sdk-go/object"
	oid "github.com/nspcc-dev/neofs-sdk-go/object/id"
)

// MkID builds a shard ID whose HRW hash (first 8 bytes, big endian) is h and
// whose tail identifies slot k (IDs of different slots never collide).
func MkID(k int, h uint64) common.ID {
	var raw [common.IDSize]byte
	binary.BigEndian.PutUint64(raw[:8], h)
	raw[8] = 0x40 // looks like a v4 uuid, irrelevant for the node
	raw[15] = byte(k + 1)
	id, err := common.NewIDFromBytes(raw[:])
	if err != nil {
		panic(err)
	}
	return id
}

// SeedShardID writes the FSTree descriptor of the (new) shard directory dir
// so that the shard gets the given ID when opened by the engine.
func SeedShardID(dir string, id common.ID) error {
	t := stor.FSTree(stor.BlobDir(dir))
	if err := t.Open(false); err != nil {
		return err
	}
	if err := t.Init(id); err != nil {
		return err
	}
	return t.Close()
}

// Call is one blob-storage call of some shard.
type Call struct {
	Seq    int
	Shard  int // slot index
	Method string
	Addr   oid.Address
	Err    error
}

// Sh is one shard slot of an Eng.
type Sh struct {
	K   int
	Dir string
	ID  common.ID
	FS  *faultstore.Store
	// FailPut / FailRead / FailExists are consulted by the store's Fail hook
	// (toggled by the tests between engine calls only).
	FailPut, FailRead, FailExists bool
	// ReadErr is returned for failed reads (default faultstore.ErrInjected).
	ReadErr error
	S       *shard.Shard
	// Detached: the shard was removed from the running engine (Detach); its
	// directory stays and may be attached again (Reattach).
	Detached bool
}

// Eng is an engine over slots Sh[0..n).
type Eng struct {
	E  *engine.StorageEngine
	Sh []*Sh
	Ep *stor.Epoch

	mu    sync.Mutex
	seq   int
	calls []Call
	// LogCalls enables the global call log.
	LogCalls bool
}

// Spec describes the engine to open.
type Spec struct {
	Root string
	// Dirs are shard directory names under Root (slot order); IDs the shard IDs
	// to seed for NEW directories (ignored when the descriptor exists already).
	Dirs []string
	IDs  []common.ID
	// AddOrder is the order of AddShard calls (slot indexes); nil = 0..n-1.
	AddOrder []int
	Epoch    *stor.Epoch
	// Plain opens the shards on bare FSTrees (no faultstore).
	Plain bool
	EOpts []engine.Option
}

// fstOpts: no fsync and no 10 ms write batching (the engine-level checks do
// not depend on the blob file layout; C10/C12 cover it).
var fstOpts = []fstree.Option{fstree.WithNoSync(true), fstree.WithCombinedCountLimit(1)}

var readMethods = map[string]bool{"Get": true, "GetBytes": true, "GetStream": true, "GetRangeStream": true, "Head": true,
	"ReadHeader": true, "ReadObject": true, "ReadPayloadRange": true, "ReadObjectParts": true}

func (e *Eng) newSlot(k int, dir string, id common.ID, plain bool) (*Sh, stor.ShardCfg, error) {
	s := &Sh{K: k, Dir: dir, ID: id}
	if !id.IsZero() {
		if err := SeedShardID(dir, id); err != nil {
			return nil, stor.ShardCfg{}, err
		}
	}
	// bbolt tuning only (no durability is needed on per-case temp dirs; a large
	// initial mapping avoids the munmap/mmap cycle on every file growth).
	cfg := stor.ShardCfg{Dir: dir, Epoch: e.Ep, FSTOpts: fstOpts, MetaOpts: []meta.Option{meta.WithBoltDBOptions(&bbolt.Options{
		NoSync: true, NoGrowSync: true, NoFreelistSync: true, InitialMmapSize: 1 << 20, Timeout: 5 * time.Second})}}
	if !plain {
		s.FS = faultstore.New(stor.FSTree(stor.BlobDir(dir), fstOpts...))
		s.FS.Fail = func(m string, _ []oid.Address) error {
			switch {
			case (m == "Put" || m == "PutBatch") && s.FailPut:
				return faultstore.ErrInjected
			case m == "Exists" && s.FailExists:
				return faultstore.ErrInjected
			case readMethods[m] && s.FailRead:
				if s.ReadErr != nil {
					return s.ReadErr
				}
				return faultstore.ErrInjected
			}
			return nil
		}
		s.FS.After = func(m string, addrs []oid.Address, err error) {
			if !e.LogCalls || len(addrs) != 1 {
				return
			}
			e.mu.Lock()
			e.seq++
			e.calls = append(e.calls, Call{Seq: e.seq, Shard: k, Method: m, Addr: addrs[0], Err: err})
			e.mu.Unlock()
		}
		cfg.Blob = s.FS
	}
	return s, cfg, nil
}

// Open builds the engine.
func Open(sp Spec) (*Eng, error) {
	ep := sp.Epoch
	if ep == nil {
		ep = &stor.Epoch{}
	}
	res := &Eng{Ep: ep}
	n := len(sp.Dirs)
	cfgs := make([]stor.ShardCfg, n)
	for k := 0; k < n; k++ {
		var id common.ID
		if k < len(sp.IDs) {
			id = sp.IDs[k]
		}
		s, cfg, err := res.newSlot(k, filepath.Join(sp.Root, sp.Dirs[k]), id, sp.Plain)
		if err != nil {
			return nil, err
		}
		res.Sh = append(res.Sh, s)
		cfgs[k] = cfg
	}
	order := sp.AddOrder
	if order == nil {
		for k := 0; k < n; k++ {
			order = append(order, k)
		}
	}
	ocfgs := make([]stor.ShardCfg, 0, n)
	for _, k := range order {
		ocfgs = append(ocfgs, cfgs[k])
	}
	se, err := stor.OpenEngine(ocfgs, sp.EOpts...)
	if err != nil {
		return nil, err
	}
	res.E = se.E
	shs := se.E.VerifShards()
	for i, k := range order {
		res.Sh[k].ID = se.IDs[i]
		res.Sh[k].S = shs[se.IDs[i].String()]
		if res.Sh[k].S == nil {
			_ = se.E.Close()
			return nil, fmt.Errorf("engx: shard %s not found in engine", se.IDs[i])
		}
	}
	return res, nil
}

// AddShard adds one more shard (new slot) to a running engine.
func (e *Eng) AddShard(dir string, id common.ID) (*Sh, error) {
	k := len(e.Sh)
	s, cfg, err := e.newSlot(k, dir, id, false)
	if err != nil {
		return nil, err
	}
	got, err := e.E.AddShard(stor.ShardOpts(cfg)...)
	if err != nil {
		return nil, err
	}
	s.ID = got
	s.S = e.E.VerifShards()[got.String()]
	e.Sh = append(e.Sh, s)
	return s, nil
}

// Detach removes slot k from the running engine (the engine closes the shard),
// as a configuration reload without that shard does.
func (e *Eng) Detach(k int) {
	e.E.VerifRemoveShards(e.Sh[k].ID.String())
	e.Sh[k].Detached = true
}

// Reattach adds the directory of the detached slot k to the running engine
// again (fresh storage objects, read-write mode, no injected faults).
func (e *Eng) Reattach(k int) error {
	old := e.Sh[k]
	s, cfg, err := e.newSlot(k, old.Dir, common.ID{}, false)
	if err != nil {
		return err
	}
	got, err := e.E.AddShard(stor.ShardOpts(cfg)...)
	if err != nil {
		return err
	}
	s.ID = got
	s.S = e.E.VerifShards()[got.String()]
	e.Sh[k] = s
	return nil
}

// Close closes the engine.
func (e *Eng) Close() error { return e.E.Close() }

// TakeCalls returns and resets the global call log.
func (e *Eng) TakeCalls() []Call {
	e.mu.Lock()
	defer e.mu.Unlock()
	c := e.calls
	e.calls = nil
	return c
}

// SetMode sets the mode of slot k.
func (e *Eng) SetMode(k int, m mode.Mode) error { return e.E.SetShardMode(e.Sh[k].ID, m, false) }

// Mode returns the current mode of slot k.
func (e *Eng) Mode(k int) mode.Mode { return e.Sh[k].S.GetMode() }

// SetEpoch sets the epoch source and delivers the new-epoch event to every
// shard synchronously.
func (e *Eng) SetEpoch(v uint64) {
	e.Ep.Set(v)
	for _, s := range e.Sh {
		if !s.Detached {
			s.S.VerifNewEpoch(v)
		}
	}
}

// GC runs one GC pass on slot k.
func (e *Eng) GC(k int) { e.Sh[k].S.VerifGCPass() }

// Phys reports whether slot k physically holds addr in its blob storage
// (bypasses modes and injected faults).
func (e *Eng) Phys(k int, a oid.Address) bool {
	s := e.Sh[k]
	var (
		ok  bool
		err error
	)
	if s.FS != nil {
		ok, err = s.FS.Storage.Exists(a)
	} else {
		_, err = s.S.GetBytes(a)
		ok = err == nil
	}
	return err == nil && ok
}

// Holders returns the slots physically holding addr.
func (e *Eng) Holders(a oid.Address) []int {
	var r []int
	for k := range e.Sh {
		if !e.Sh[k].Detached && e.Phys(k, a) {
			r = append(r, k)
		}
	}
	return r
}

// HRW returns the slot indexes in the engine's HRW order for object id
// (recomputed from shard IDs with the same library the engine uses).
func (e *Eng) HRW(id oid.ID) []int {
	return hrwOrder(e.Sh, id)
}

// Read result classes.
const (
	OK       = "ok"
	NotFound = "notfound"
	Removed  = "removed"
	Split    = "splitinfo"
	ECParent = "ecparts"
	Other    = "error"
)

// Class classifies a read error.
func Class(err error) string {
	var si *object.SplitInfoError
	switch {
	case err == nil:
		return OK
	case errors.Is(err, apistatus.ErrObjectAlreadyRemoved):
		return Removed
	case errors.As(err, &si):
		return Split
	case errors.Is(err, ierrors.ErrParentObject):
		return ECParent
	case errors.Is(err, apistatus.ErrObjectNotFound):
		return NotFound
	}
	return Other
}

// Get reads addr through the engine and classifies the result.
func (e *Eng) Get(a oid.Address) (string, *object.Object, error) {
	o, err := e.E.Get(context.Background(), a)
	return Class(err), o, err
}

// SameObject reports whether got equals want byte for byte.
func SameObject(got, want *object.Object) bool {
	if got == nil || want == nil {
		return got == want
	}
	return bytes.Equal(got.Marshal(), want.Marshal())
}

// SameHeader reports whether got (a header) equals want's header.
func SameHeader(got, want *object.Object) bool {
	if got == nil || want == nil {
		return got == want
	}
	return bytes.Equal(got.CutPayload().Marshal(), want.CutPayload().Marshal())
}

// ModeName is a short mode name.
func ModeName(m mode.Mode) string {
	switch m {
	case mode.ReadWrite:
		return "rw"
	case mode.ReadOnly:
		return "ro"
	case mode.Degraded:
		return "deg"
	case mode.DegradedReadOnly:
		return "degro"
	}
	return m.String()
}

type hrwShard struct {
	k int
	h uint64
}

func (s hrwShard) Hash() uint64 { return s.h }

type hrwObj oid.ID

func (o hrwObj) Hash() uint64 { return binary.BigEndian.Uint64(o[:8]) }

func hrwOrder(shs []*Sh, id oid.ID) []int {
	v := make([]hrwShard, 0, len(shs))
	for i, s := range shs {
		if !s.Detached {
			v = append(v, hrwShard{k: i, h: s.ID.Hash()})
		}
	}
	hrw.Sort(v, hrwObj(id))
	r := make([]int, len(v))
	for i := range v {
		r[i] = v[i].k
	}
	return r
}

// Package c46 decides property C46: restoring a shard dump stores exactly the
// objects the dump contains, with identical bytes, however the reader splits
// the stream, and corrupted records are reported or skipped as requested.
//
// Oracles: (A) the dump, parsed by an independent reader of the documented
// framing ("NEOF", then little-endian uint32 length + object binary), holds
// exactly the source shard's objects; (B) restore through a full-read reader
// gives counts and contents that follow from the dump records; (C) metamorphic:
// restore through a reader with generated short reads gives the same counts
// and contents as the full-read restore.
package c46

import (
	"bytes"
	"crypto/sha256"
	"encoding/binary"
	"errors"
	"fmt"
	"io"
	"os"
	"path/filepath"
	"sort"
	"strings"
	"testing"
	"time"

	"github.com/nspcc-dev/neofs-node/pkg/local_object_storage/blobstor/fstree"
	"github.com/nspcc-dev/neofs-node/pkg/local_object_storage/shard"
	"github.com/nspcc-dev/neofs-node/pkg/local_object_storage/shard/mode"
	"github.com/nspcc-dev/neofs-node/verifharness/ev"
	"github.com/nspcc-dev/neofs-node/verifharness/stor"
	"github.com/nspcc-dev/neofs-node/verifharness/uni"
	apistatus "github.com/nspcc-dev/neofs-sdk-go/client/status"
	"github.com/nspcc-dev/neofs-sdk-go/checksum"
	"github.com/nspcc-dev/neofs-sdk-go/object"
	oid "github.com/nspcc-dev/neofs-sdk-go/object/id"
	"pgregory.net/rapid"
)

func fatalEnv(format string, a ...any) { ev.Inconclusive("C46 harness: "+format, a...) }

// ---------- objects ----------

func payload(seed, n int) []byte {
	b := make([]byte, n+8)
	x := uint64(seed+1)*0x9E3779B97F4A7C15 ^ uint64(n)<<20
	for i := 0; i < n; i += 8 {
		x ^= x << 13
		x ^= x >> 7
		x ^= x << 17
		binary.LittleEndian.PutUint64(b[i:], x)
	}
	return b[:n]
}

// Spec describes one object of a case. Every object has its own object ID
// (FSTree combined files index their members by object ID only, so an ID is
// never reused across containers within a case).
type Spec struct {
	K      int    `json:"k"`   // object ID index 0..maxObjs-1
	Cnr    int    `json:"cnr"` // uni container index
	Kind   string `json:"kind"`
	Target int    `json:"target,omitempty"` // K of the associated object (tombstone / lock)
	Len    int    `json:"len,omitempty"`
}

func (s Spec) String() string {
	if s.Kind == uni.Regular {
		return fmt.Sprintf("regular c%d/k%d len=%d", s.Cnr, s.K, s.Len)
	}
	return fmt.Sprintf("%s c%d/k%d ->k%d", s.Kind, s.Cnr, s.K, s.Target)
}

const maxObjs = 40

func myOID(k int) oid.ID {
	var id oid.ID
	id[0] = byte(k*37 + 1)
	id[13] = byte(200 - k)
	id[31] = byte(k + 1)
	return id
}

func build(s Spec) *object.Object {
	o := uni.Build(uni.Spec{Kind: uni.Regular, Cnr: s.Cnr, ID: 0, Exp: -1, Parent: -1, ParentExp: -1, First: -1})
	o.SetID(myOID(s.K))
	var p []byte
	if s.Kind == uni.Regular {
		p = payload(s.K, s.Len)
	}
	o.SetPayload(p)
	o.SetPayloadSize(uint64(len(p)))
	o.SetPayloadChecksum(checksum.NewSHA256(sha256.Sum256(p)))
	switch s.Kind {
	case uni.Tombstone:
		o.AssociateDeleted(myOID(s.Target))
	case uni.Lock:
		o.AssociateLocked(myOID(s.Target))
	}
	return o
}

var sizes = []int{0, 1, 100, 1000, 4096, 20000, 65536}

type world struct {
	special bool
	specs   []Spec
}

func genWorld(t *rapid.T) world {
	var w world
	w.special = rapid.IntRange(0, 3).Draw(t, "special") == 0
	maxN := 12
	if ev.Thorough() {
		maxN = maxObjs
	}
	n := rapid.IntRange(0, maxN).Draw(t, "nobj")
	if rapid.IntRange(0, 9).Draw(t, "many") == 0 {
		n = rapid.IntRange(maxN, maxObjs).Draw(t, "nobj-many")
	}
	ks := rapid.Permutation(seq(maxObjs)).Draw(t, "ks")
	absent := ks[n:] // IDs of objects that are never stored
	ks = ks[:n]
	var regular []int // indexes into w.specs of regular objects
	targeted := map[int]bool{}
	for i, k := range ks {
		sp := Spec{K: k, Cnr: rapid.IntRange(0, uni.NContainers-1).Draw(t, "cnr"), Kind: uni.Regular}
		if w.special && i > 0 && rapid.IntRange(0, 2).Draw(t, "assoc") == 0 {
			// tombstone or lock for an earlier regular object (same container) or for an absent ID;
			// an object is the target of at most one association
			kind := rapid.SampledFrom([]string{uni.Tombstone, uni.Lock}).Draw(t, "akind")
			target := -1
			for _, ri := range regular {
				r := w.specs[ri]
				if !targeted[r.K] && rapid.Bool().Draw(t, "pick") {
					target, sp.Cnr = r.K, r.Cnr
					break
				}
			}
			if target < 0 && len(absent) > 0 {
				target, absent = absent[0], absent[1:]
			}
			if target >= 0 {
				targeted[target] = true
				sp.Kind, sp.Target = kind, target
				w.specs = append(w.specs, sp)
				continue
			}
		}
		sp.Len = rapid.SampledFrom(sizes).Draw(t, "size")
		if rapid.IntRange(0, 3).Draw(t, "oddsize") == 0 {
			sp.Len = rapid.IntRange(0, 70000).Draw(t, "len")
		}
		regular = append(regular, len(w.specs))
		w.specs = append(w.specs, sp)
	}
	return w
}

// ---------- dump format (independent reader/writer of the documented framing) ----------

type record struct {
	start int // offset of the length field in the dump
	data  []byte
}

func parseDump(b []byte) ([]record, error) {
	if len(b) < 4 || string(b[:4]) != "NEOF" {
		return nil, errors.New("no NEOF magic")
	}
	var recs []record
	p := 4
	for p < len(b) {
		if len(b)-p < 4 {
			return nil, fmt.Errorf("truncated length field at %d", p)
		}
		n := int(binary.LittleEndian.Uint32(b[p:]))
		if len(b)-p-4 < n {
			return nil, fmt.Errorf("truncated record at %d: %d of %d bytes", p, len(b)-p-4, n)
		}
		recs = append(recs, record{start: p, data: b[p+4 : p+4+n]})
		p += 4 + n
	}
	return recs, nil
}

// ---------- scripted reader ----------

type script struct {
	Kind    string `json:"kind"`
	Chunks  []int  `json:"chunks,omitempty"`
	Cuts    []int  `json:"cuts,omitempty"` // absolute offsets at which a read must stop
	DataErr bool   `json:"data_err"`       // deliver the final bytes together with io.EOF
}

type scriptedReader struct {
	b   []byte
	pos int
	s   script
	i   int
	ci  int
}

func (r *scriptedReader) Read(p []byte) (int, error) {
	if r.pos >= len(r.b) {
		return 0, io.EOF
	}
	if len(p) == 0 {
		return 0, nil
	}
	n := len(p)
	switch r.s.Kind {
	case "one-byte":
		n = 1
	case "half":
		n = (len(p) + 1) / 2
	case "chunks":
		if len(r.s.Chunks) > 0 {
			n = min(n, r.s.Chunks[r.i%len(r.s.Chunks)])
			r.i++
		}
	}
	for r.ci < len(r.s.Cuts) && r.s.Cuts[r.ci] <= r.pos {
		r.ci++
	}
	if r.ci < len(r.s.Cuts) {
		n = min(n, r.s.Cuts[r.ci]-r.pos)
	}
	n = min(n, len(r.b)-r.pos)
	copy(p, r.b[r.pos:r.pos+n])
	r.pos += n
	if r.pos == len(r.b) && r.s.DataErr {
		return n, io.EOF
	}
	return n, nil
}

// splitsBody reports whether the script can deliver a record body in more than
// one Read (or the last body together with EOF).
func (s script) splitsBody() bool { return s.Kind != "len-split" || s.DataErr }

func genScript(t *rapid.T, recs []record, total int) script {
	kinds := []string{"one-byte", "chunks", "len-split", "body-split", "half", "full"}
	s := script{Kind: rapid.SampledFrom(kinds).Draw(t, "reader")}
	s.DataErr = rapid.IntRange(0, 2).Draw(t, "dataErr") == 0
	switch s.Kind {
	case "chunks":
		s.Chunks = rapid.SliceOfN(rapid.SampledFrom([]int{1, 2, 3, 4, 5, 7, 64, 512, 4096, 65536}), 1, 5).Draw(t, "chunks")
	case "len-split":
		s.Cuts = lenCuts(t, recs)
	case "body-split":
		for i, r := range recs {
			if len(r.data) >= 2 {
				k := rapid.IntRange(1, len(r.data)-1).Draw(t, fmt.Sprintf("cut%d", i))
				s.Cuts = append(s.Cuts, r.start+4+k)
			}
		}
	case "full":
		s.DataErr = true // plain full reads are the baseline already
	}
	return s
}

func lenCuts(t *rapid.T, recs []record) []int {
	cuts := []int{rapid.IntRange(1, 3).Draw(t, "magic-cut")}
	for i, r := range recs {
		cuts = append(cuts, r.start+rapid.IntRange(1, 3).Draw(t, fmt.Sprintf("lcut%d", i)))
	}
	return cuts
}

// ---------- shards ----------

func openShard(dir string, wc bool) *shard.Shard {
	// the combined-file writer of FSTree delays every small Put by its write interval (10 ms by default)
	s, err := stor.OpenShard(stor.ShardCfg{Dir: dir, WriteCache: wc,
		FSTOpts: []fstree.Option{fstree.WithCombinedWriteInterval(200 * time.Microsecond)}})
	if err != nil {
		fatalEnv("open shard: %v", err)
	}
	return s
}

// physical lists the objects physically stored under a shard dir (write-cache first, then blob storage).
func physical(dir string) map[oid.Address][]byte {
	res := map[oid.Address][]byte{}
	for _, d := range []string{stor.WCDir(dir), stor.BlobDir(dir)} {
		if _, err := os.Stat(d); err != nil {
			continue
		}
		t := fstree.New(fstree.WithPath(d), fstree.WithDepth(1))
		_ = t.Open(true)
		err := t.Iterate(func(a oid.Address, b []byte) error {
			if _, ok := res[a]; !ok {
				res[a] = bytes.Clone(b)
			}
			return nil
		}, nil)
		if err != nil {
			fatalEnv("iterate %s: %v", d, err)
		}
	}
	return res
}

type restoreResult struct {
	ok, failed int
	err        error
	phys       map[oid.Address][]byte
	// get[addr] = "ok" (bytes equal to phys), "removed", "notfound", or error text
	get map[oid.Address]string
}

func restore(dir string, wc bool, r io.Reader, ignoreErrors bool, addrs []oid.Address) restoreResult {
	sh := openShard(dir, wc)
	var res restoreResult
	res.ok, res.failed, res.err = sh.Restore(r, ignoreErrors)
	res.get = map[oid.Address]string{}
	for _, a := range addrs {
		o, err := sh.Get(a, false)
		switch {
		case err == nil:
			res.get[a] = "ok:" + fmt.Sprintf("%x", sha256.Sum256(o.Marshal()))
		case errors.Is(err, apistatus.ErrObjectAlreadyRemoved):
			res.get[a] = "removed"
		case errors.Is(err, apistatus.ErrObjectNotFound):
			res.get[a] = "notfound"
		default:
			res.get[a] = "error: " + err.Error()
		}
	}
	if err := sh.Close(); err != nil {
		fatalEnv("close: %v", err)
	}
	res.phys = physical(dir)
	return res
}

func (r restoreResult) summary() string {
	var ks []string
	for a, b := range r.phys {
		ks = append(ks, fmt.Sprintf("%s=%x", a.Object().EncodeToString()[:6], sha256.Sum256(b))[:24])
	}
	sort.Strings(ks)
	return fmt.Sprintf("ok=%d failed=%d err=%v stored=%d %v", r.ok, r.failed, r.err, len(r.phys), ks)
}

func diffResults(a, b restoreResult) string {
	if a.ok != b.ok || a.failed != b.failed || (a.err == nil) != (b.err == nil) {
		return fmt.Sprintf("counts/errors differ: (ok=%d failed=%d err=%v) vs (ok=%d failed=%d err=%v)", a.ok, a.failed, a.err, b.ok, b.failed, b.err)
	}
	if len(a.phys) != len(b.phys) {
		return fmt.Sprintf("stored object counts differ: %d vs %d", len(a.phys), len(b.phys))
	}
	for k, v := range a.phys {
		w, ok := b.phys[k]
		if !ok {
			return fmt.Sprintf("object %s stored by one restore only", k)
		}
		if !bytes.Equal(v, w) {
			return fmt.Sprintf("object %s stored with different bytes (%d vs %d bytes)", k, len(v), len(w))
		}
	}
	for k, v := range a.get {
		if b.get[k] != v {
			return fmt.Sprintf("Get(%s): %q vs %q", k, v, b.get[k])
		}
	}
	return ""
}

// ---------- the property ----------

func TestC46DumpRestore(t *testing.T) {
	rec := ev.New("C46", "dumprestore")
	defer rec.Flush()
	rapid.Check(t, func(t *rapid.T) {
		w := genWorld(t)
		srcWC := rapid.Bool().Draw(t, "srcWC")
		srcFlush := rapid.Bool().Draw(t, "srcFlush")
		dstWC := rapid.Bool().Draw(t, "dstWC")
		ignoreErrors := rapid.Bool().Draw(t, "ignoreErrors")

		dir, err := os.MkdirTemp("", "c46-")
		if err != nil {
			fatalEnv("mkdtemp: %v", err)
		}
		defer os.RemoveAll(dir)

		// --- source shard
		src := openShard(filepath.Join(dir, "src"), srcWC)
		want := map[oid.Address][]byte{}
		refusedSrc := map[oid.Address][]byte{}
		for i, s := range w.specs {
			o := build(s)
			if err := src.Put(o, nil); err != nil {
				if s.Kind == uni.Regular {
					src.Close()
					fatalEnv("put %s: %v", s, err)
				}
				// refused association (e.g. target state): not part of the source contents; Shard.Put rolls the
				// blob back, but a concurrent write-cache flush may leave it behind (not this property's business)
				refusedSrc[o.Address()] = o.Marshal()
				continue
			}
			want[o.Address()] = o.Marshal()
			if srcWC && srcFlush && i == len(w.specs)/2 {
				if err := src.FlushWriteCache(false); err != nil {
					fatalEnv("flush: %v", err)
				}
			}
		}
		if err := src.SetMode(mode.ReadOnly); err != nil {
			fatalEnv("set mode: %v", err)
		}
		var buf bytes.Buffer
		n, err := src.Dump(&buf, false)
		_ = src.Close()
		if err != nil {
			t.Fatalf("Dump of %d objects failed: %v", len(want), err)
		}
		dump := buf.Bytes()

		// --- oracle A: the dump holds exactly the source objects
		recs, err := parseDump(dump)
		if err != nil {
			t.Fatalf("dump does not follow the documented framing: %v", err)
		}
		if n != len(recs) {
			t.Fatalf("Dump reported %d objects, stream holds %d records", n, len(recs))
		}
		seen := map[oid.Address]bool{}
		for i, r := range recs {
			var o object.Object
			if err := o.Unmarshal(r.data); err != nil {
				t.Fatalf("dump record %d is not an object: %v", i, err)
			}
			a := o.Address()
			if seen[a] {
				// possible when the mode switch caught the write-cache between "flushed to the blob
				// storage" and "removed from the cache"; harmless for restore (identical bytes are checked below)
				rec.Label("dump-duplicate-record")
			}
			seen[a] = true
			if rb, ok := refusedSrc[a]; ok && bytes.Equal(rb, r.data) {
				rec.Label("dump-holds-refused-object")
				delete(seen, a)
				continue
			}
			if wb, ok := want[a]; !ok {
				t.Fatalf("dump holds object %s that was never stored", a)
			} else if !bytes.Equal(wb, r.data) {
				t.Fatalf("dump record of %s differs from the stored binary (%d vs %d bytes)", a, len(r.data), len(wb))
			}
		}
		if len(seen) != len(want) {
			t.Fatalf("dump holds %d of %d stored objects", len(seen), len(want))
		}

		// --- corruption of some records
		dump2 := bytes.Clone(dump)
		nCorrupt := 0
		corrupted := map[int]string{}
		if len(recs) > 0 && rapid.IntRange(0, 2).Draw(t, "corrupt") == 0 {
			k := rapid.IntRange(1, min(3, len(recs))).Draw(t, "ncorrupt")
			for _, idx := range rapid.Permutation(seq(len(recs))).Draw(t, "corrupt-idx")[:k] {
				r := recs[idx]
				kind := rapid.SampledFrom([]string{"bad-tag", "bad-tag", "flip-payload"}).Draw(t, "ckind")
				body := dump2[r.start+4 : r.start+4+len(r.data)]
				switch kind {
				case "bad-tag":
					body[0] = 0x0f // field 1, wire type 7: not decodable
				case "flip-payload":
					if exKind(r.data) != object.TypeRegular || len(body) < 600 {
						continue
					}
					body[len(body)-1-rapid.IntRange(0, 100).Draw(t, "flip-at")] ^= 0xff
				}
				corrupted[idx] = kind
			}
		}
		recs2, err := parseDump(dump2)
		if err != nil {
			fatalEnv("corrupted dump unparsable: %v", err)
		}

		// --- expectation from the (possibly corrupted) records
		type expRec struct {
			valid bool
			obj   object.Object
		}
		exps := make([]expRec, len(recs2))
		for i, r := range recs2 {
			exps[i].valid = exps[i].obj.Unmarshal(r.data) == nil
			if !exps[i].valid {
				nCorrupt++
			} else if corrupted[i] == "bad-tag" {
				fatalEnv("bad-tag corruption still decodes")
			}
		}
		wantOK, wantFailed, wantErr := 0, 0, false
		expectPhys := map[oid.Address][]byte{}
		optionalPhys := map[oid.Address][]byte{}
		tombstoned := map[oid.Address]bool{}
		var addrs []oid.Address
		for i, e := range exps {
			if !e.valid {
				if !ignoreErrors {
					wantErr = true
					break
				}
				wantFailed++
				continue
			}
			wantOK++
			a := e.obj.Address()
			addrs = append(addrs, a)
			if tombstoned[a] {
				// refused as already removed, documented as ignored. Shard.Put rolls the stored bytes back; a
				// write-cache flush racing with the rollback may leave them behind, which is tolerated here
				if _, ok := expectPhys[a]; !ok {
					optionalPhys[a] = recs2[i].data
				}
				continue
			}
			expectPhys[a] = recs2[i].data
			if e.obj.Type() == object.TypeTombstone {
				tombstoned[oid.NewAddress(a.Container(), e.obj.AssociatedObject())] = true
			}
		}

		check := func(name string, r restoreResult) string {
			if (r.err != nil) != wantErr {
				return fmt.Sprintf("%s: error %v, expected error=%v", name, r.err, wantErr)
			}
			if r.ok != wantOK || r.failed != wantFailed {
				return fmt.Sprintf("%s: counts (ok=%d, failed=%d), expected (%d, %d) for %d records of which %d undecodable, ignoreErrors=%v",
					name, r.ok, r.failed, wantOK, wantFailed, len(recs2), nCorrupt, ignoreErrors)
			}
			for a, got := range r.phys {
				if _, ok := expectPhys[a]; ok {
					continue
				}
				if ob, ok := optionalPhys[a]; ok && bytes.Equal(ob, got) {
					rec.Label("refused-object-left-behind")
					continue
				}
				return fmt.Sprintf("%s: object %s (%d bytes) is stored but must not be", name, a, len(got))
			}
			for a, b := range expectPhys {
				got, ok := r.phys[a]
				if !ok {
					return fmt.Sprintf("%s: object %s of the dump is not stored", name, a)
				}
				if !bytes.Equal(got, b) {
					return fmt.Sprintf("%s: object %s stored with %d bytes differing from the dump record (%d bytes)", name, a, len(got), len(b))
				}
				st := r.get[a]
				if tombstoned[a] {
					if st != "removed" {
						return fmt.Sprintf("%s: Get(%s) of a tombstoned object = %s", name, a, st)
					}
				} else if !strings.HasPrefix(st, "ok:") || st != "ok:"+fmt.Sprintf("%x", sha256.Sum256(b)) {
					return fmt.Sprintf("%s: Get(%s) = %s, expected the dump record", name, a, st)
				}
			}
			return ""
		}

		// --- restore with full reads
		full := restore(filepath.Join(dir, "full"), dstWC, bytes.NewReader(dump2), ignoreErrors, addrs)
		if msg := check("full-read restore", full); msg != "" {
			rec.Set("failure_message", msg)
			rec.Flush()
			t.Fatalf("%s\n  world: %v", msg, w.specs)
		}

		// --- restore with generated short reads
		sc := genScript(t, recs2, len(dump2))
		chunked := restore(filepath.Join(dir, "chunked"), dstWC, &scriptedReader{b: dump2, s: sc}, ignoreErrors, addrs)

		lbls := []string{"reader-" + sc.Kind}
		if sc.DataErr {
			lbls = append(lbls, "reader-data+EOF")
		}
		if w.special {
			lbls = append(lbls, "class-special")
		} else {
			lbls = append(lbls, "class-regular")
		}
		if srcWC {
			lbls = append(lbls, "src-writecache")
		}
		if dstWC {
			lbls = append(lbls, "dst-writecache")
		}
		if nCorrupt > 0 {
			lbls = append(lbls, "has-undecodable", fmt.Sprintf("ignoreErrors-%v", ignoreErrors))
		}
		for _, k := range corrupted {
			lbls = append(lbls, "corrupt-"+k)
		}
		if len(recs) == 0 {
			lbls = append(lbls, "empty-dump")
		}
		if len(recs) >= 20 {
			lbls = append(lbls, "records>=20")
		}
		nontrivial := len(recs) > 0 && sc.splitsBody()
		rec.Case(nontrivial, fmt.Sprintf("%v|%+v|%v|%v|%v", w.specs, sc, corrupted, ignoreErrors, dstWC), lbls...)
		if rec.WantSample() {
			rec.Sample(map[string]any{"specs": fmt.Sprint(w.specs), "reader": sc, "corrupted": fmt.Sprint(corrupted), "ignoreErrors": ignoreErrors})
		}

		msg := check("short-read restore", chunked)
		if msg == "" {
			for a := range optionalPhys {
				delete(full.phys, a)
				delete(chunked.phys, a)
			}
			if d := diffResults(full, chunked); d != "" {
				msg = "full-read and short-read restores differ: " + d
			}
		}
		if msg != "" {
			rec.Set("failure_message", msg)
			rec.Flush()
			t.Fatalf("%s\n  reader: %+v\n  dump: %d bytes, %d records (sizes %v)\n  full-read restore: %s\n  short-read restore: %s\n  world: %v",
				msg, sc, len(dump2), len(recs2), recSizes(recs2), full.summary(), chunked.summary(), w.specs)
		}
	})
}

func exKind(b []byte) object.Type {
	var o object.Object
	if o.Unmarshal(b) != nil {
		return 255
	}
	return o.Type()
}

func seq(n int) []int {
	r := make([]int, n)
	for i := range r {
		r[i] = i
	}
	return r
}

func recSizes(rs []record) []int {
	var r []int
	for _, x := range rs {
		r = append(r, len(x.data))
	}
	return r
}

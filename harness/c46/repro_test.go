package c46

import (
	"bytes"
	"os"
	"path/filepath"
	"testing"
	"testing/iotest"

	"github.com/nspcc-dev/neofs-node/pkg/local_object_storage/shard/mode"
	"github.com/nspcc-dev/neofs-node/verifharness/uni"
)

// TestC46ReproShortRead is the minimal reproduction of finding
// C46:restore-short-read (fixed in /repo c2e03dd); plain regression test, not part of the check's units:
// ./vgo test -run TestC46ReproShortRead -v ./c46/
func TestC46ReproShortRead(t *testing.T) {
	dir, _ := os.MkdirTemp("", "c46-repro-")
	defer os.RemoveAll(dir)
	src := openShard(filepath.Join(dir, "src"), false)
	o := build(Spec{Kind: uni.Regular, Len: 100})
	if err := src.Put(o, nil); err != nil {
		t.Fatal(err)
	}
	_ = src.SetMode(mode.ReadOnly)
	var buf bytes.Buffer
	if _, err := src.Dump(&buf, false); err != nil {
		t.Fatal(err)
	}
	_ = src.Close()
	for name, mk := range map[string]func() *restoreResult{
		"full":      func() *restoreResult { r := restore(filepath.Join(dir, "a"), false, bytes.NewReader(buf.Bytes()), false, nil); return &r },
		"one-byte":  func() *restoreResult { r := restore(filepath.Join(dir, "b"), false, iotest.OneByteReader(bytes.NewReader(buf.Bytes())), false, nil); return &r },
		"half":      func() *restoreResult { r := restore(filepath.Join(dir, "c"), false, iotest.HalfReader(bytes.NewReader(buf.Bytes())), false, nil); return &r },
		"data+EOF":  func() *restoreResult { r := restore(filepath.Join(dir, "d"), false, iotest.DataErrReader(bytes.NewReader(buf.Bytes())), false, nil); return &r },
	} {
		r := mk()
		t.Logf("%-9s ok=%d failed=%d err=%v stored=%d", name, r.ok, r.failed, r.err, len(r.phys))
		if r.ok != 1 || r.failed != 0 || r.err != nil || len(r.phys) != 1 {
			t.Errorf("%s reader: expected ok=1 failed=0 err=nil stored=1", name)
		}
	}
}

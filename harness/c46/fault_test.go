package c46

import (
	"bytes"
	"fmt"
	"os"
	"path/filepath"
	"sync"
	"testing"
	"time"

	"github.com/nspcc-dev/neofs-node/pkg/local_object_storage/blobstor/common"
	"github.com/nspcc-dev/neofs-node/pkg/local_object_storage/blobstor/fstree"
	"github.com/nspcc-dev/neofs-node/pkg/local_object_storage/shard/mode"
	"github.com/nspcc-dev/neofs-node/verifharness/ev"
	"github.com/nspcc-dev/neofs-node/verifharness/faultstore"
	"github.com/nspcc-dev/neofs-node/verifharness/stor"
	"github.com/nspcc-dev/neofs-node/verifharness/uni"
	"github.com/nspcc-dev/neofs-sdk-go/object"
	oid "github.com/nspcc-dev/neofs-sdk-go/object/id"
	"pgregory.net/rapid"
)

// TestC46FaultyTarget: the destination shard's blob storage starts refusing
// writes in the middle of the restore (disk full: common.ErrNoSpace, possibly
// wrapped; or a plain I/O error; from the k-th Put on, for the k-th Put only,
// or for big objects only). Oracle: the count Restore reports as restored
// equals the number of dump records that are really stored and readable
// afterwards – never "reported restored but absent" – whatever error it returns.
func TestC46FaultyTarget(t *testing.T) {
	rec := ev.New("C46", "faultytarget")
	defer rec.Flush()
	rapid.Check(t, func(t *rapid.T) {
		n := rapid.IntRange(1, 12).Draw(t, "nobj")
		ks := rapid.Permutation(seq(maxObjs)).Draw(t, "ks")[:n]
		var specs []Spec
		for _, k := range ks {
			specs = append(specs, Spec{K: k, Cnr: rapid.IntRange(0, uni.NContainers-1).Draw(t, "cnr"), Kind: uni.Regular,
				Len: rapid.SampledFrom([]int{0, 1, 100, 4096, 20000}).Draw(t, "size")})
		}
		errKind := rapid.SampledFrom([]string{"no-space", "no-space-wrapped", "read-only", "io"}).Draw(t, "err")
		mode_ := rapid.SampledFrom([]string{"from-k", "only-k", "big-only"}).Draw(t, "fault")
		k := rapid.IntRange(0, n).Draw(t, "k") // number of Puts that succeed first (k = n: no fault)
		ignoreErrors := rapid.Bool().Draw(t, "ignoreErrors")
		short := rapid.Bool().Draw(t, "shortReads")

		dir, err := os.MkdirTemp("", "c46f-")
		if err != nil {
			fatalEnv("mkdtemp: %v", err)
		}
		defer os.RemoveAll(dir)

		src := openShard(filepath.Join(dir, "src"), false)
		for _, s := range specs {
			if err := src.Put(build(s), nil); err != nil {
				fatalEnv("put: %v", err)
			}
		}
		if err := src.SetMode(mode.ReadOnly); err != nil {
			fatalEnv("mode: %v", err)
		}
		var buf bytes.Buffer
		if _, err := src.Dump(&buf, false); err != nil {
			t.Fatalf("dump: %v", err)
		}
		_ = src.Close()
		recs, err := parseDump(buf.Bytes())
		if err != nil || len(recs) != n {
			t.Fatalf("dump: %d records of %d, parse error %v", len(recs), n, err)
		}

		var injected error
		switch errKind {
		case "no-space":
			injected = common.ErrNoSpace
		case "no-space-wrapped":
			injected = fmt.Errorf("write object data into file: %w", common.ErrNoSpace)
		case "read-only":
			injected = common.ErrReadOnly
		default:
			injected = faultstore.ErrInjected
		}
		dstDir := filepath.Join(dir, "dst")
		fs := faultstore.New(stor.FSTree(stor.BlobDir(dstDir), fstree.WithCombinedWriteInterval(200*time.Microsecond)))
		var mu sync.Mutex
		puts, refused := 0, 0
		sizeOf := map[oid.Address]int{}
		for _, r := range recs {
			var o object.Object
			if err := o.Unmarshal(r.data); err != nil {
				fatalEnv("record: %v", err)
			}
			sizeOf[o.Address()] = len(r.data)
		}
		fs.SetFail(func(m string, addrs []oid.Address) error {
			if m != "Put" && m != "PutBatch" {
				return nil
			}
			mu.Lock()
			defer mu.Unlock()
			i := puts
			puts++
			fail := false
			switch mode_ {
			case "from-k":
				fail = i >= k
			case "only-k":
				fail = i == k
			case "big-only":
				fail = i >= k && len(addrs) > 0 && sizeOf[addrs[0]] > 1000
			}
			if fail {
				refused++
				return injected
			}
			return nil
		})
		dst, err := stor.OpenShard(stor.ShardCfg{Dir: dstDir, Blob: fs})
		if err != nil {
			fatalEnv("open dst: %v", err)
		}
		var rd = &scriptedReader{b: buf.Bytes(), s: script{Kind: "full"}}
		if short {
			rd.s = script{Kind: "chunks", Chunks: []int{3, 1, 4096, 7}}
		}
		count, failed, rerr := dst.Restore(rd, ignoreErrors)

		fs.SetFail(nil)
		stored := 0
		var missing []string
		for _, r := range recs {
			var o object.Object
			_ = o.Unmarshal(r.data)
			got, err := dst.Get(o.Address(), false)
			if err == nil && bytes.Equal(got.Marshal(), r.data) {
				stored++
			} else {
				missing = append(missing, fmt.Sprintf("%s(%v)", o.Address().Object().EncodeToString()[:6], err))
			}
		}
		_ = dst.Close()

		mu.Lock()
		nRefused := refused
		mu.Unlock()
		lbls := []string{"err-" + errKind, "fault-" + mode_}
		if nRefused > 0 {
			lbls = append(lbls, "fault-fired")
		} else {
			lbls = append(lbls, "fault-not-reached")
		}
		if rerr != nil {
			lbls = append(lbls, "restore-returned-error")
		}
		rec.Case(nRefused > 0, fmt.Sprintf("%v|%s|%s|%d|%v|%v", specs, errKind, mode_, k, ignoreErrors, short), lbls...)
		if rec.WantSample() {
			rec.Sample(map[string]any{"objects": fmt.Sprint(specs), "error": errKind, "fault": mode_, "k": k, "ignoreErrors": ignoreErrors})
		}

		desc := fmt.Sprintf("%d records; blob storage refused %d Put(s) with %q (fault %s, first %d Puts succeed), ignoreErrors=%v: Restore = (restored=%d, failed=%d, err=%v); really stored and readable: %d; missing: %v",
			n, nRefused, injected, mode_, k, ignoreErrors, count, failed, rerr, stored, missing)
		if count != stored {
			t.Fatalf("restored count differs from what is really stored: %s", desc)
		}
		if failed != 0 {
			t.Fatalf("undecodable records reported for an intact dump: %s", desc)
		}
		if nRefused == 0 && (rerr != nil || stored != n) {
			t.Fatalf("healthy target: %s", desc)
		}
	})
}

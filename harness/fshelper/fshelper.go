// Package fshelper is the FSTree workload interpreter shared by the syscall
// injection checks C12 (crash points) and C13 (failing file-system calls).
//
// Helper side (Main): the re-executed test binary opens an existing FSTree
// exactly as configured in the JSON Spec, marks "start", executes the workload
// (sequential worker on the locked main thread and/or concurrent workers),
// then probe puts, Close, and records every operation's outcome with pwrite64
// into a fixed-record result file (pwrite64 is not in the traced/injected
// syscall set, so acknowledgements never shift inject counters and survive a
// SIGKILL as soon as the call returned).
//
// Test side: Prepare creates the tree and the spec file, ReadResults decodes
// the records, Verify reopens the tree the way a starting node does and checks
// the stored bytes.
package fshelper

import (
	"bytes"
	"encoding/json"
	"errors"
	"fmt"
	"os"
	"runtime"
	"strings"
	"sync"
	"sync/atomic"
	"syscall"
	"time"

	"github.com/nspcc-dev/neofs-node/pkg/local_object_storage/blobstor/common"
	"github.com/nspcc-dev/neofs-node/pkg/local_object_storage/blobstor/fstree"
	"github.com/nspcc-dev/neofs-node/verifharness/fsobj"
	"github.com/nspcc-dev/neofs-node/verifharness/sysinject"
	apistatus "github.com/nspcc-dev/neofs-sdk-go/client/status"
	oid "github.com/nspcc-dev/neofs-sdk-go/object/id"
)

// Mode is the sysinject helper mode handled by Main.
const Mode = "fstree-workload"

// Exit codes of the helper.
const (
	ExitOK       = 0
	ExitHarness  = 90 // the helper could not even start the workload (harness problem)
	ExitWatchdog = 97 // no operation finished for Spec.WatchdogMs: goroutine dump on stderr
)

// Op kinds.
const (
	OpPut      = "put"      // FSTree.Put of Objs[0]
	OpBatch    = "batch"    // caller-ordered PutBatch twin (VerifPutBatchOrdered) of Objs
	OpBatchMap = "batchmap" // FSTree.PutBatch(map) of Objs
	OpDelete   = "delete"   // FSTree.Delete of Objs[0]
)

// Op is one storage operation of the workload.
type Op struct {
	Kind string `json:"k"`
	Objs []int  `json:"o"`
}

func (o Op) String() string { return fmt.Sprintf("%s%v", o.Kind, o.Objs) }

// Phase is a set of workers started together; the next phase starts when all are done.
// A phase with one worker runs on the helper's main goroutine (locked to the main thread).
type Phase struct {
	Workers [][]Op `json:"w"`
}

// Spec is the helper input.
type Spec struct {
	Root       string       `json:"root"`
	Depth      int          `json:"depth"`
	CntLim     int          `json:"cnt"`
	SizeLim    int          `json:"size"`
	Thr        int          `json:"thr"`
	IntervalUs int          `json:"interval_us"`
	NoSync     bool         `json:"nosync"`
	Generic    bool         `json:"generic"`
	Objects    []fsobj.Spec `json:"objects"`
	Phases     []Phase      `json:"phases"`
	Probes     []int        `json:"probes"` // objects Put one by one after the workload ("storage still works")
	OpMarks    bool         `json:"op_marks"`
	LockWorker bool         `json:"lock_workers"` // concurrent workers pin their threads too
	WatchdogMs int          `json:"watchdog_ms"`
	// Pad makes the main thread issue Pad dummy fdatasync(-1)/close(-1) calls before "start". strace counts
	// inject ordinals per thread: with the padding, ordinals <= Pad of these two syscalls can only be reached by
	// OTHER threads (the batch sync timer), ordinals > Pad only by the main thread, so both kinds of instances
	// are addressable separately.
	Pad        int    `json:"pad"`
	ResultPath string `json:"result"`
}

func (s *Spec) String() string {
	w := "linux"
	if s.Generic {
		w = "generic"
	}
	return fmt.Sprintf("depth=%d cnt=%d size=%d thr=%d nosync=%v writer=%s", s.Depth, s.CntLim, s.SizeLim, s.Thr, s.NoSync, w)
}

// NumOps returns the number of result records (workload ops + probes).
func (s *Spec) NumOps() int {
	n := 0
	for _, p := range s.Phases {
		for _, w := range p.Workers {
			n += len(w)
		}
	}
	return n + len(s.Probes)
}

// FlatOps lists all operations in record order (phases, workers, ops; then probes as puts).
func (s *Spec) FlatOps() []Op {
	var r []Op
	for _, p := range s.Phases {
		for _, w := range p.Workers {
			r = append(r, w...)
		}
	}
	for _, i := range s.Probes {
		r = append(r, Op{Kind: OpPut, Objs: []int{i}})
	}
	return r
}

// Open opens the tree of the spec the way the node does at start.
func (s *Spec) Open(readOnly bool) (*fstree.FSTree, error) {
	tr := fstree.New(
		fstree.WithPath(s.Root),
		fstree.WithDepth(uint64(s.Depth)),
		fstree.WithNoSync(s.NoSync),
		fstree.WithCombinedCountLimit(s.CntLim),
		fstree.WithCombinedSizeLimit(s.SizeLim),
		fstree.WithCombinedSizeThreshold(s.Thr),
		fstree.WithCombinedWriteInterval(time.Duration(s.IntervalUs)*time.Microsecond),
	)
	if err := tr.Open(readOnly); err != nil {
		return nil, fmt.Errorf("open: %w", err)
	}
	if err := tr.Init(common.ID{}); err != nil {
		return nil, fmt.Errorf("init: %w", err)
	}
	if s.Generic && !readOnly {
		tr.VerifUseGenericWriter()
	}
	return tr, nil
}

// Universe builds all objects of the spec.
func (s *Spec) Universe() []*fsobj.Obj {
	r := make([]*fsobj.Obj, len(s.Objects))
	for i := range s.Objects {
		r[i] = fsobj.Make(s.Objects[i])
	}
	return r
}

// ---------------------------------------------------------------- result file

const recSize = 128

// Record states.
const (
	StNone    = 0
	StStarted = 1
	StOK      = 2
	StErr     = 3
)

// Record is the outcome of one operation.
type Record struct {
	State byte
	Err   string
}

// Results is the decoded result file.
type Results struct {
	Ops      []Record
	Finished bool // the helper reached its normal end (after Close)
	CloseErr string
}

type resultFile struct {
	f *os.File
}

func (r *resultFile) put(idx int, state byte, msg string) {
	var b [recSize]byte
	b[0] = state
	copy(b[1:], msg)
	// WriteAt = pwrite64: not traced, not injected
	_, _ = r.f.WriteAt(b[:], int64(idx)*recSize)
}

// ReadResults decodes the result file written by the helper.
func ReadResults(path string, nops int) (*Results, error) {
	b, err := os.ReadFile(path)
	if err != nil {
		return nil, err
	}
	res := &Results{Ops: make([]Record, nops)}
	get := func(i int) Record {
		off := i * recSize
		if off+recSize > len(b) {
			return Record{}
		}
		r := b[off : off+recSize]
		return Record{State: r[0], Err: strings.TrimRight(string(r[1:]), "\x00")}
	}
	for i := 0; i < nops; i++ {
		res.Ops[i] = get(i)
	}
	fin := get(nops)
	res.Finished = fin.State == StOK || fin.State == StErr
	if fin.State == StErr {
		res.CloseErr = fin.Err
	}
	return res, nil
}

// ---------------------------------------------------------------- helper side

func init() { sysinject.LockMainThread() }

// Main is the helper entry point; it never returns.
func Main() {
	os.Exit(run())
}

func run() int {
	raw, err := os.ReadFile(sysinject.SpecPath())
	if err != nil {
		fmt.Fprintln(os.Stderr, "fshelper: read spec:", err)
		return ExitHarness
	}
	var s Spec
	if err := json.Unmarshal(raw, &s); err != nil {
		fmt.Fprintln(os.Stderr, "fshelper: decode spec:", err)
		return ExitHarness
	}
	objs := s.Universe()
	rf, err := os.OpenFile(s.ResultPath, os.O_RDWR|os.O_CREATE, 0o644)
	if err != nil {
		fmt.Fprintln(os.Stderr, "fshelper: result file:", err)
		return ExitHarness
	}
	res := &resultFile{f: rf}
	tr, err := s.Open(false)
	if err != nil {
		fmt.Fprintln(os.Stderr, "fshelper: open tree:", err)
		return ExitHarness
	}

	var progress atomic.Int64
	if s.WatchdogMs > 0 {
		go watchdog(&progress, time.Duration(s.WatchdogMs)*time.Millisecond)
	}

	exec := func(idx int, op Op) {
		if s.OpMarks {
			sysinject.Mark(fmt.Sprintf("op-%d-begin", idx))
		}
		res.put(idx, StStarted, "")
		var err error
		switch op.Kind {
		case OpPut:
			o := objs[op.Objs[0]]
			err = tr.Put(o.Addr, o.Stored)
		case OpBatch:
			addrs := make([]oid.Address, len(op.Objs))
			datas := make([][]byte, len(op.Objs))
			for k, i := range op.Objs {
				addrs[k], datas[k] = objs[i].Addr, objs[i].Stored
			}
			err = tr.VerifPutBatchOrdered(addrs, datas)
		case OpBatchMap:
			m := make(map[oid.Address][]byte, len(op.Objs))
			for _, i := range op.Objs {
				m[objs[i].Addr] = objs[i].Stored
			}
			err = tr.PutBatch(m)
		case OpDelete:
			err = tr.Delete(objs[op.Objs[0]].Addr)
		default:
			err = fmt.Errorf("fshelper: unknown op %q", op.Kind)
		}
		if err != nil {
			res.put(idx, StErr, err.Error())
		} else {
			res.put(idx, StOK, "")
		}
		if s.OpMarks {
			sysinject.Mark(fmt.Sprintf("op-%d-end", idx))
		}
		progress.Add(1)
	}

	for i := 0; i < s.Pad; i++ {
		_ = syscall.Fdatasync(-1)
		_ = syscall.Close(-1)
	}
	sysinject.Mark("start")
	idx := 0
	for _, ph := range s.Phases {
		if len(ph.Workers) == 1 {
			for _, op := range ph.Workers[0] {
				exec(idx, op)
				idx++
			}
			continue
		}
		var wg sync.WaitGroup
		for _, w := range ph.Workers {
			base := idx
			idx += len(w)
			wg.Add(1)
			go func() {
				defer wg.Done()
				if s.LockWorker {
					runtime.LockOSThread()
					defer runtime.UnlockOSThread()
				}
				for k, op := range w {
					exec(base+k, op)
				}
			}()
		}
		wg.Wait()
	}
	sysinject.Mark("workload-done")
	for k, i := range s.Probes {
		sysinject.Mark(fmt.Sprintf("probe-%d", k))
		exec(idx, Op{Kind: OpPut, Objs: []int{i}})
		idx++
	}
	sysinject.Mark("probes-done")
	err = tr.Close()
	sysinject.Mark("closed")
	if err != nil {
		res.put(idx, StErr, err.Error())
	} else {
		res.put(idx, StOK, "")
	}
	return ExitOK
}

func watchdog(progress *atomic.Int64, limit time.Duration) {
	last := progress.Load()
	lastChange := time.Now()
	for {
		time.Sleep(50 * time.Millisecond)
		if v := progress.Load(); v != last {
			last, lastChange = v, time.Now()
			continue
		}
		if time.Since(lastChange) > limit {
			buf := make([]byte, 1<<20)
			n := runtime.Stack(buf, true)
			fmt.Fprintf(os.Stderr, "fshelper: WATCHDOG: no operation finished for %v after %d completed operations\n%s\n", limit, last, buf[:n])
			os.Exit(ExitWatchdog)
		}
	}
}

// ---------------------------------------------------------------- test side

// Prepare creates root (an initialised, empty tree holding the objects of pre, written in-process and
// untraced), writes the spec next to it and returns the spec path.
func Prepare(s *Spec, dir string, pre []int) (string, error) {
	s.Root = dir + "/tree"
	s.ResultPath = dir + "/result"
	if err := os.MkdirAll(s.Root, 0o755); err != nil {
		return "", err
	}
	tr, err := s.Open(false)
	if err != nil {
		return "", err
	}
	objs := s.Universe()
	for _, i := range pre {
		if err := tr.Put(objs[i].Addr, objs[i].Stored); err != nil {
			_ = tr.Close()
			return "", fmt.Errorf("pre-put #%d: %w", i, err)
		}
	}
	if err := tr.Close(); err != nil {
		return "", err
	}
	b, err := json.Marshal(s)
	if err != nil {
		return "", err
	}
	p := dir + "/spec.json"
	return p, os.WriteFile(p, b, 0o644)
}

// Violation describes a failed storage check.
type Violation struct{ Msg string }

func (v *Violation) Error() string { return v.Msg }

func violf(format string, a ...any) error { return &Violation{Msg: fmt.Sprintf(format, a...)} }

// VerifyOpts selects what Verify demands.
type VerifyOpts struct {
	MustHave   map[int]string // object index -> why it must be readable (e.g. "op 3 put[2] reported success")
	CleanUpTmp bool           // additionally run CleanUpTmp and compare again
	RePut      bool           // finally re-Put every object of the universe: must succeed and be readable
}

// Verify opens the tree as a starting node does (New, Open(false), Init) and checks:
//   - every MustHave object is returned by GetBytes with exactly its bytes;
//   - every object GetBytes / Iterate return has exactly ITS OWN bytes (never partial, never foreign);
//   - Iterate succeeds, yields only addresses of the universe, each at most once, and everything Exists
//     reports is also iterated (leftover temporary files never show up, nothing is hidden);
//   - optionally the same after CleanUpTmp, and that the restarted node can store every object again.
//
// A *Violation error is a property violation, any other error a harness problem.
func Verify(s *Spec, objs []*fsobj.Obj, o VerifyOpts) error {
	tr, err := s.Open(false)
	if err != nil {
		return violf("restarted node cannot open the tree: %v", err)
	}
	defer tr.Close()
	byAddr := make(map[oid.Address]int, len(objs))
	for i, ob := range objs {
		byAddr[ob.Addr] = i
	}
	check := func(stage string) error {
		present := map[int]bool{}
		for i, ob := range objs {
			b, err := tr.GetBytes(ob.Addr)
			switch {
			case err == nil:
				if !bytes.Equal(b, ob.Plain) {
					return violf("%s: GetBytes(#%d) returns %d bytes that are not the object's own %d bytes (first diff at %d)%s",
						stage, i, len(b), len(ob.Plain), firstDiff(b, ob.Plain), whose(b, objs))
				}
				present[i] = true
			case errors.Is(err, apistatus.ErrObjectNotFound):
				if why, ok := o.MustHave[i]; ok {
					return violf("%s: object #%d is not found although %s", stage, i, why)
				}
			default:
				if why, ok := o.MustHave[i]; ok {
					return violf("%s: GetBytes(#%d) fails (%v) although %s", stage, i, err, why)
				}
				return violf("%s: GetBytes(#%d) fails with %v: the address is exposed with unreadable content", stage, i, err)
			}
			if present[i] {
				if _, err := tr.Get(ob.Addr); err != nil {
					return violf("%s: Get(#%d): %v", stage, i, err)
				}
				h, err := tr.Head(ob.Addr)
				if err != nil {
					return violf("%s: Head(#%d): %v", stage, i, err)
				}
				if !bytes.Equal(h.Marshal(), ob.Header) {
					return violf("%s: Head(#%d) returns a different header", stage, i)
				}
			}
		}
		seen := map[int]int{}
		var iterViol error
		err := tr.Iterate(func(a oid.Address, data []byte) error {
			i, ok := byAddr[a]
			if !ok {
				iterViol = violf("%s: Iterate yields %s which was never written", stage, a)
				return iterViol
			}
			seen[i]++
			if !bytes.Equal(data, objs[i].Plain) {
				iterViol = violf("%s: Iterate yields #%d with %d bytes that are not its own %d bytes%s", stage, i, len(data), len(objs[i].Plain), whose(data, objs))
				return iterViol
			}
			return nil
		}, nil)
		if iterViol != nil {
			return iterViol
		}
		if err != nil {
			return violf("%s: Iterate fails: %v", stage, err)
		}
		for i := range objs {
			if seen[i] > 1 {
				return violf("%s: Iterate yields #%d %d times", stage, i, seen[i])
			}
			if present[i] != (seen[i] == 1) {
				return violf("%s: object #%d readable=%v but iterated %d times", stage, i, present[i], seen[i])
			}
		}
		return nil
	}
	if err := check("after restart"); err != nil {
		return err
	}
	if o.CleanUpTmp {
		if err := tr.CleanUpTmp(); err != nil {
			return violf("CleanUpTmp: %v", err)
		}
		if err := check("after CleanUpTmp"); err != nil {
			return err
		}
	}
	if o.RePut {
		for i, ob := range objs {
			if err := tr.Put(ob.Addr, ob.Stored); err != nil {
				return violf("restarted node cannot store #%d again: %v", i, err)
			}
		}
		if o.MustHave == nil {
			o.MustHave = map[int]string{}
		}
		all := map[int]string{}
		for i := range objs {
			all[i] = "it was stored again after the restart"
		}
		saved := o.MustHave
		o.MustHave = all
		err := check("after re-put")
		o.MustHave = saved
		if err != nil {
			return err
		}
	}
	return nil
}

func firstDiff(a, b []byte) int {
	n := min(len(a), len(b))
	for i := 0; i < n; i++ {
		if a[i] != b[i] {
			return i
		}
	}
	return n
}

func whose(b []byte, objs []*fsobj.Obj) string {
	for i, o := range objs {
		if bytes.Equal(b, o.Plain) {
			return fmt.Sprintf(" – they are object #%d's bytes", i)
		}
		if len(b) > 0 && len(b) < len(o.Plain) && bytes.HasPrefix(o.Plain, b) {
			return fmt.Sprintf(" – a %d-byte prefix of object #%d", len(b), i)
		}
	}
	return ""
}

// ---------------------------------------------------------------- one traced run (test side)

// Run is one prepared + executed helper run.
type Run struct {
	Spec    *Spec
	Dir     string
	Trace   *sysinject.Result
	Results *Results
}

// Cleanup removes the run's directory.
func (r *Run) Cleanup() {
	if r != nil && r.Dir != "" {
		_ = os.RemoveAll(r.Dir)
	}
}

// Execute prepares a fresh tree (with the objects of pre stored), runs the helper under strace with the given
// injections and decodes its result file. The error is a harness problem, never a helper failure.
func Execute(s Spec, pre []int, inj []sysinject.Inject, timeout time.Duration) (*Run, error) {
	dir, err := os.MkdirTemp("", "fsrun-")
	if err != nil {
		return nil, err
	}
	r := &Run{Spec: &s, Dir: dir}
	specPath, err := Prepare(&s, dir, pre)
	if err != nil {
		r.Cleanup()
		return nil, fmt.Errorf("prepare: %w", err)
	}
	r.Trace, err = sysinject.Exec(sysinject.Cmd{Mode: Mode, SpecPath: specPath, Injects: inj, WorkDir: dir, Timeout: timeout})
	if err != nil {
		r.Cleanup()
		return nil, err
	}
	r.Results, err = ReadResults(s.ResultPath, s.NumOps())
	if err != nil {
		r.Results = &Results{Ops: make([]Record, s.NumOps())}
	}
	return r, nil
}

// UnderRoot reports whether a traced event addresses the tree of the run: its fd annotation or one of its path
// arguments lies under Spec.Root, or it is a linkat from /proc/self/fd/N (the O_TMPFILE link idiom).
func (r *Run) UnderRoot(e sysinject.Event) bool {
	if p := e.FdPath(); p != "" && strings.HasPrefix(p, r.Spec.Root) {
		return true
	}
	for _, p := range e.Paths() {
		if strings.HasPrefix(p, r.Spec.Root) {
			return true
		}
	}
	return false
}

// ---------------------------------------------------------------- wall-clock budget (never a verdict)

// Budget bounds the number of helper runs of one test function by wall-clock time (env VERIF_BUDGET_S,
// else def): enumerations stop early and say so in the evidence instead of running into the driver's
// timeout on a loaded machine. It only ever reduces coverage; it never decides an outcome.
type Budget struct {
	start time.Time
	limit time.Duration
}

// NewBudget starts the clock. share scales the configured budget (tests sharing one unit split it).
func NewBudget(def time.Duration, share float64) *Budget {
	lim := def
	if v := os.Getenv("VERIF_BUDGET_S"); v != "" {
		var s float64
		if _, err := fmt.Sscanf(v, "%g", &s); err == nil && s > 0 {
			lim = time.Duration(s * float64(time.Second))
		}
	}
	return &Budget{start: time.Now(), limit: time.Duration(float64(lim) * share)}
}

// Exceeded reports whether the budget is used up.
func (b *Budget) Exceeded() bool { return time.Since(b.start) > b.limit }

// Package c16 decides property C16: an object written through the shard's
// write-cache stays readable (identical bytes) from the moment Shard.Put
// returned nil until it is deleted – under background flush batches, explicit
// flushes, blocked ("slow") and failing blob storage, mode switches and
// restarts – and once it left the cache it is in the blob storage with
// identical bytes.
//
// Reach: a real shard.Shard (metabase + write-cache + FSTree blob storage
// wrapped by faultstore) per case inside a testing/synctest bubble. The blob
// storage can be made to fail Put/PutBatch and to BLOCK them on a channel that
// the schedule releases later: a blocked flush has read the object from the
// cache and not yet written it, which opens the read-vs-flush window
// deterministically.
//
// Oracle: model = address → bytes of every object whose Put returned nil and
// that was not deleted since. Every Get / GetStream of a model address – by
// the schedule itself and by reader goroutines running during clock advances,
// releases and explicit flushes – must succeed with identical bytes. After a
// successful switch to a degraded (no-metabase) mode and at the end of the
// case every model object that is not in the cache directory must be in the
// main FSTree, byte-identical.
package c16

import (
	"bytes"
	"fmt"
	"io"
	"os"
	"runtime"
	"runtime/debug"
	"sort"
	"strings"
	"sync"
	"testing"
	"testing/synctest"
	"time"

	"github.com/nspcc-dev/neofs-node/pkg/local_object_storage/blobstor/fstree"
	"github.com/nspcc-dev/neofs-node/pkg/local_object_storage/shard"
	"github.com/nspcc-dev/neofs-node/pkg/local_object_storage/shard/mode"
	"github.com/nspcc-dev/neofs-node/pkg/local_object_storage/writecache"
	"github.com/nspcc-dev/neofs-node/verifharness/bubble"
	"github.com/nspcc-dev/neofs-node/verifharness/ev"
	"github.com/nspcc-dev/neofs-node/verifharness/faultstore"
	"github.com/nspcc-dev/neofs-node/verifharness/stor"
	"github.com/nspcc-dev/neofs-node/verifharness/uni"
	"github.com/nspcc-dev/neofs-node/verifharness/wcobj"
	"github.com/nspcc-dev/neofs-sdk-go/object"
	oid "github.com/nspcc-dev/neofs-sdk-go/object/id"
	"pgregory.net/rapid"
)

const nObj = 8 // container 0, object 0..7 (every object ID used with one container only)

type step struct {
	Op string // put get stream del adv outage failon failoff block release pulse rif flush mode reopen
	I  int
	A  []int
	N  int
	B  bool
	M  mode.Mode
}

func (s step) String() string {
	switch s.Op {
	case "put", "get", "stream", "del":
		return fmt.Sprintf("%s(%d)", s.Op, s.I)
	case "adv", "outage":
		return fmt.Sprintf("%s(%ds)", s.Op, s.N)
	case "rif":
		return fmt.Sprintf("rif(put%v,reput=%d)", s.A, s.I)
	case "flush":
		return fmt.Sprintf("flush(ignoreErrors=%v)", s.B)
	case "mode":
		return fmt.Sprintf("mode(%v)", s.M)
	}
	return s.Op
}

type cfg struct {
	Thr, BatchCount, BatchSize, Workers, M, Readers int
	Sizes                                           [nObj]int
}

func (c cfg) String() string {
	return fmt.Sprintf("thr=%d bcount=%d bsize=%d workers=%d M=%d readers=%d sizes=%v", c.Thr, c.BatchCount, c.BatchSize, c.Workers, c.M, c.Readers, c.Sizes)
}

func genCfg(t *rapid.T) cfg {
	var c cfg
	c.Thr = rapid.SampledFrom([]int{300, 600}).Draw(t, "thr")
	c.BatchCount = rapid.SampledFrom([]int{2, 3, 128}).Draw(t, "bcount")
	c.BatchSize = rapid.SampledFrom([]int{0, 2*c.Thr + 100}).Draw(t, "bsize")
	c.Workers = rapid.SampledFrom([]int{1, 1, 2, 20}).Draw(t, "workers")
	// mostly everything fits; sometimes the cache is too small and puts fall back to the blob storage
	c.M = rapid.SampledFrom([]int{1 << 20, 1 << 20, 1 << 20, 1500, 700}).Draw(t, "M")
	c.Readers = rapid.IntRange(1, 3).Draw(t, "readers")
	for i := range c.Sizes {
		if rapid.IntRange(0, 4).Draw(t, "small") < 3 {
			c.Sizes[i] = rapid.OneOf(rapid.IntRange(wcobj.MinObjSize, c.Thr), rapid.Just(c.Thr), rapid.Just(c.Thr-1)).Draw(t, "size")
			c.Sizes[i] = min(wcobj.Reach(c.Sizes[i]), c.Thr)
		} else {
			c.Sizes[i] = rapid.OneOf(rapid.Just(c.Thr+1), rapid.IntRange(c.Thr+1, 3*c.Thr)).Draw(t, "size")
		}
	}
	return c
}

var modes = []mode.Mode{mode.ReadWrite, mode.ReadOnly, mode.DegradedReadOnly}

func genSteps(t *rapid.T, c cfg) []step {
	n := rapid.IntRange(5, 25).Draw(t, "nsteps")
	faulty := rapid.IntRange(0, 2).Draw(t, "faulty") > 0
	ops := []string{"put", "put", "put", "put", "get", "stream", "del", "adv", "adv", "adv", "block", "block", "release", "pulse", "rif", "rif", "flush", "mode", "mode", "reopen"}
	if faulty {
		ops = append(ops, "outage", "outage", "failon", "failoff")
	}
	res := make([]step, 0, n)
	for len(res) < n {
		s := step{Op: rapid.SampledFrom(ops).Draw(t, "op")}
		switch s.Op {
		case "put", "get", "stream", "del":
			s.I = rapid.IntRange(0, nObj-1).Draw(t, "i")
		case "rif":
			// re-put of a batch member during an in-flight batch flush: put a few
			// objects, let the scheduler build batches with the blob storage
			// blocked (with fewer workers than batches a later batch waits at the
			// hand-over, unread), delete one, let the flusher advance by one
			// blocked call, put it again, release
			// (only batched, i.e. small, objects matter; take them when there are enough)
			pool := make([]int, 0, nObj)
			for i, sz := range c.Sizes {
				if sz <= c.Thr {
					pool = append(pool, i)
				}
			}
			if len(pool) < 3 {
				pool = []int{0, 1, 2, 3, 4, 5, 6, 7}
			}
			s.A = rapid.SliceOfNDistinct(rapid.SampledFrom(pool), 3, 6, rapid.ID[int]).Draw(t, "set")
			s.I = rapid.SampledFrom(s.A).Draw(t, "i")
		case "adv":
			s.N = rapid.OneOf(rapid.IntRange(1, 3), rapid.IntRange(1, 12)).Draw(t, "n")
		case "outage":
			s.N = rapid.OneOf(rapid.IntRange(1, 12), rapid.IntRange(13, 40)).Draw(t, "n")
		case "flush":
			s.B = rapid.Bool().Draw(t, "ignoreErrors")
		case "mode":
			s.M = rapid.SampledFrom(modes).Draw(t, "mode")
		}
		res = append(res, s)
	}
	return res
}

// faults is shared with the faultstore hooks (called from flush workers).
type faults struct {
	mu       sync.Mutex
	failing  bool
	gate     chan struct{}
	direct   bool // the schedule's own Shard.Put is running: its blob Put must not block on the gate
	blocked  int
	parked   [][]oid.Address     // addresses of the PutBatch calls parked at the current gate
	inflight map[oid.Address]int // address is inside a blob Put/PutBatch right now
	flushSeq map[oid.Address]int // number of blob Put/PutBatch calls started for the address
}

type obj struct {
	o    *object.Object
	addr oid.Address
	bin  []byte
}

type env struct {
	t      *rapid.T
	c      cfg
	dir    string
	main   *fstree.FSTree
	fs     *faultstore.Store
	sh     *shard.Shard
	mode   mode.Mode
	f      *faults
	objs   [nObj]obj
	live   map[oid.Address][]byte
	labels map[string]bool
	trace  []string

	// readers
	rmu          sync.Mutex
	rerr         string
	overlaps     int
	reads        int
	modeNonEmpty bool
	everPut      bool
}

func (e *env) label(l string) { e.labels[l] = true }

func (e *env) logf(format string, a ...any) {
	e.trace = append(e.trace, fmt.Sprintf("%s  %s", time.Now().Format("04:05.000"), fmt.Sprintf(format, a...)))
}

func (e *env) fatalf(format string, a ...any) {
	e.t.Fatalf("%s\nconfig: %s\ntrace:\n  %s", fmt.Sprintf(format, a...), e.c, strings.Join(e.trace, "\n  "))
}

func short(a oid.Address) string {
	c, i := uni.Index(a)
	return fmt.Sprintf("c%d/o%d", c, i)
}

func sleepToPhase(ms int) {
	now := time.Now()
	target := now.Truncate(time.Second).Add(time.Duration(ms) * time.Millisecond)
	if target.Before(now) {
		target = target.Add(time.Second)
	}
	if d := target.Sub(now); d > 0 {
		time.Sleep(d)
	}
}

func (e *env) openShard() {
	// No combined-write timer in the blob FSTree: storage calls take no fake time.
	e.main = stor.FSTree(stor.BlobDir(e.dir), fstree.WithCombinedCountLimit(1))
	e.fs = faultstore.New(e.main)
	e.installHooks()
	wcOpts := []writecache.Option{
		writecache.WithMaxCacheSize(uint64(e.c.M)),
		writecache.WithFlushWorkersCount(e.c.Workers),
		writecache.WithMaxFlushBatchThreshold(uint64(e.c.Thr)),
		writecache.WithMaxFlushBatchCount(e.c.BatchCount),
	}
	if e.c.BatchSize > 0 {
		wcOpts = append(wcOpts, writecache.WithMaxFlushBatchSize(uint64(e.c.BatchSize)))
	}
	sleepToPhase(0) // the flush scheduler ticks on whole fake seconds
	sh, err := stor.OpenShard(stor.ShardCfg{Dir: e.dir, Epoch: &stor.Epoch{}, WriteCache: true, WCOpts: wcOpts, Blob: e.fs})
	if err != nil {
		e.fatalf("open shard: %v", err)
	}
	e.sh = sh
	e.mode = sh.GetMode()
	if e.mode != mode.ReadWrite {
		e.fatalf("shard opened in mode %v", e.mode)
	}
	sleepToPhase(500) // the harness acts half-way between ticks
	synctest.Wait()
}

func isPut(m string) bool { return m == "Put" || m == "PutBatch" }

func (e *env) installHooks() {
	f := e.f
	e.fs.SetFail(func(m string, _ []oid.Address) error {
		if !isPut(m) {
			return nil
		}
		f.mu.Lock()
		defer f.mu.Unlock()
		if f.failing {
			return faultstore.ErrInjected
		}
		return nil
	})
	e.fs.SetBefore(func(m string, addrs []oid.Address) {
		if !isPut(m) {
			return
		}
		f.mu.Lock()
		for _, a := range addrs {
			f.inflight[a]++
			f.flushSeq[a]++
		}
		g := f.gate
		if f.direct {
			g = nil
		}
		if g != nil {
			f.blocked++
			if m == "PutBatch" {
				f.parked = append(f.parked, addrs)
			}
		}
		f.mu.Unlock()
		if g != nil {
			<-g
		}
	})
	e.fs.SetAfter(func(m string, addrs []oid.Address, _ error) {
		if !isPut(m) {
			return
		}
		f.mu.Lock()
		for _, a := range addrs {
			f.inflight[a]--
		}
		f.mu.Unlock()
	})
}

func (e *env) setFailing(v bool) { e.f.mu.Lock(); e.f.failing = v; e.f.mu.Unlock() }
func (e *env) isFailing() bool   { e.f.mu.Lock(); defer e.f.mu.Unlock(); return e.f.failing }
func (e *env) gated() bool       { e.f.mu.Lock(); defer e.f.mu.Unlock(); return e.f.gate != nil }

func (e *env) block() {
	e.f.mu.Lock()
	if e.f.gate == nil {
		e.f.gate = make(chan struct{})
	}
	e.f.mu.Unlock()
}

func (e *env) openGate() {
	e.f.mu.Lock()
	g := e.f.gate
	e.f.gate = nil
	if e.f.blocked > 0 {
		e.labels["released-blocked-flush"] = true
	}
	e.f.blocked = 0
	e.f.parked = nil
	e.f.mu.Unlock()
	if g != nil {
		close(g)
	}
}

// pulse lets the calls that are parked at the gate proceed and parks the next
// ones: the flusher advances by one blocked blob call per worker.
func (e *env) pulse() {
	e.f.mu.Lock()
	g := e.f.gate
	if g != nil {
		e.f.gate = make(chan struct{})
		if e.f.blocked > 0 {
			e.labels["released-blocked-flush"] = true
		}
		e.f.blocked = 0
		e.f.parked = nil
	}
	e.f.mu.Unlock()
	if g != nil {
		close(g)
	}
	synctest.Wait()
}

func (e *env) flushState(a oid.Address) (inflight bool, seq int) {
	e.f.mu.Lock()
	defer e.f.mu.Unlock()
	return e.f.inflight[a] > 0, e.f.flushSeq[a]
}

// read performs one Get or GetStream of a model address and returns a
// description of the violation ("" if fine) and whether the read overlapped a
// flush (blob Put/PutBatch) of that address.
func (e *env) read(a oid.Address, want []byte, stream bool) (string, bool) {
	in0, seq0 := e.flushState(a)
	var (
		got *object.Object
		err error
	)
	if stream {
		var rc io.ReadCloser
		got, rc, err = e.sh.GetStream(a, false)
		if err == nil {
			var pl []byte
			pl, err = io.ReadAll(rc)
			_ = rc.Close()
			if err == nil {
				got = got.CutPayload()
				got.SetPayload(pl)
			}
		}
	} else {
		got, err = e.sh.Get(a, false)
	}
	in1, seq1 := e.flushState(a)
	overlap := in0 || in1 || seq0 != seq1
	what := "Get"
	if stream {
		what = "GetStream"
	}
	if err != nil {
		return fmt.Sprintf("%s(%s) of an object that was put successfully and not deleted failed: %v (flush of it in progress: %v)", what, short(a), err, overlap), overlap
	}
	if b := got.Marshal(); !bytes.Equal(b, want) {
		return fmt.Sprintf("%s(%s) returned different bytes (%d vs %d)", what, short(a), len(b), len(want)), overlap
	}
	return "", overlap
}

func (e *env) sortedLive() []oid.Address {
	as := make([]oid.Address, 0, len(e.live))
	for a := range e.live {
		as = append(as, a)
	}
	sort.Slice(as, func(i, j int) bool { return as[i].EncodeToString() < as[j].EncodeToString() })
	return as
}

// readAll reads every model object once from the schedule's goroutine.
func (e *env) readAll(when string) {
	for k, a := range e.sortedLive() {
		msg, ov := e.read(a, e.live[a], k%2 == 1)
		if ov {
			e.overlaps++
		}
		e.reads++
		if msg != "" {
			e.fatalf("%s: %s", when, msg)
		}
	}
}

// withReaders runs f while reader goroutines keep reading all model objects
// (first two passes back to back – real parallelism with f –, then every 500 ms
// of fake time, which includes the scheduler's tick instants).
func (e *env) withReaders(f func()) {
	addrs := e.sortedLive()
	if len(addrs) == 0 {
		f()
		return
	}
	want := make(map[oid.Address][]byte, len(addrs))
	for _, a := range addrs {
		want[a] = e.live[a]
	}
	stop := make(chan struct{})
	var wg sync.WaitGroup
	for r := 0; r < e.c.Readers; r++ {
		wg.Add(1)
		go func() {
			defer wg.Done()
			for pass := 0; ; pass++ {
				for k := range addrs {
					a := addrs[(k+r)%len(addrs)]
					msg, ov := e.read(a, want[a], (k+r+pass)%2 == 1)
					e.rmu.Lock()
					e.reads++
					if ov {
						e.overlaps++
					}
					if msg != "" && e.rerr == "" {
						e.rerr = fmt.Sprintf("concurrent reader %d at %s: %s", r, time.Now().Format("04:05.000"), msg)
					}
					e.rmu.Unlock()
				}
				if pass < 2 {
					select {
					case <-stop:
						return
					default:
						continue
					}
				}
				select {
				case <-stop:
					return
				case <-time.After(500 * time.Millisecond):
				}
			}
		}()
	}
	func() {
		defer func() { close(stop); wg.Wait() }() // also when f fails (panics)
		f()
	}()
	synctest.Wait()
	e.rmu.Lock()
	msg := e.rerr
	e.rmu.Unlock()
	if msg != "" {
		e.fatalf("%s", msg)
	}
}

func (e *env) cacheList() map[string]int64 {
	m, err := wcobj.ListCache(stor.WCDir(e.dir))
	if err != nil {
		ev.Inconclusive("C16: cannot list the cache dir: %v", err)
	}
	return m
}

func (e *env) advance(sec int) {
	for i := 0; i < sec; i++ {
		time.Sleep(time.Second)
		synctest.Wait()
	}
}

// release opens the gate and lets the released flushes finish.
func (e *env) release() {
	e.openGate()
	synctest.Wait()
}

// inBlob checks that every model object that is not (any more) in the cache
// directory is in the main FSTree with identical bytes; all=true demands it of
// every model object.
func (e *env) inBlob(when string, all bool) {
	cached := e.cacheList()
	for _, a := range e.sortedLive() {
		if _, ok := cached[a.EncodeToString()]; ok && !all {
			continue
		}
		got, err := e.main.GetBytes(a)
		if err != nil {
			e.fatalf("%s: object %s (put successfully, not deleted) is not in the blob storage: %v (in cache dir: %v)", when, short(a), err, cached[a.EncodeToString()] > 0)
		}
		if !bytes.Equal(got, e.live[a]) {
			e.fatalf("%s: object %s differs in the blob storage (%d vs %d bytes)", when, short(a), len(got), len(e.live[a]))
		}
	}
}

func (e *env) setMode(m mode.Mode) {
	// a blocked flush holds the cache's mode lock: release first (reads during
	// an in-progress SetMode are not asserted)
	e.release()
	nonEmpty := len(e.cacheList()) > 0
	err := e.sh.SetMode(m)
	e.logf("SetMode(%v) -> %v (cache non-empty before: %v)", m, err, nonEmpty)
	if err != nil {
		// A refused mode switch is not C16's business (e.g. READ_ONLY →
		// DEGRADED_READ_ONLY with a non-empty cache is refused: the cache cannot
		// flush into the read-only blob storage); readability is checked after
		// every step anyway. Follow the mode the shard reports.
		e.label(fmt.Sprintf("setmode-refused:%v->%v", e.mode, m))
		e.mode = e.sh.GetMode()
		return
	}
	if nonEmpty && m != e.mode {
		e.modeNonEmpty = true
		e.label("mode-switch-with-cached:" + m.String())
	}
	e.mode = m
	if m.NoMetabase() {
		// SetMode flushes before entering a no-metabase mode
		e.inBlob(fmt.Sprintf("after SetMode(%v)", m), true)
	}
}

func (e *env) reopen() {
	e.release()
	if err := e.sh.Close(); err != nil {
		e.fatalf("shard Close: %v", err)
	}
	synctest.Wait()
	e.openShard()
	e.logf("reopened")
}

func (e *env) run(s step) {
	switch s.Op {
	case "put":
		o := e.objs[s.I]
		e.f.mu.Lock()
		e.f.direct = true
		e.f.mu.Unlock()
		err := e.sh.Put(o.o, nil)
		e.f.mu.Lock()
		e.f.direct = false
		e.f.mu.Unlock()
		_, cached := e.cacheList()[o.addr.EncodeToString()]
		e.logf("put %s size=%d -> %v (in cache dir: %v)", short(o.addr), len(o.bin), err, cached)
		if err == nil {
			if _, was := e.live[o.addr]; was {
				e.label("reput-live")
			}
			e.live[o.addr] = o.bin
			e.everPut = true
			if cached {
				e.label("put-through-cache")
			} else {
				e.label("put-bypassed-cache")
			}
		} else if !e.mode.ReadOnly() && !e.isFailing() {
			// not a C16 matter (the property is conditional on a successful put); measured
			e.label("put-failed-with-healthy-storage")
		}
	case "get", "stream":
		a := e.objs[s.I].addr
		want, ok := e.live[a]
		if !ok {
			return
		}
		msg, ov := e.read(a, want, s.Op == "stream")
		e.reads++
		if ov {
			e.overlaps++
		}
		if msg != "" {
			e.fatalf("%s", msg)
		}
	case "del":
		a := e.objs[s.I].addr
		if !e.everPut {
			// Shard.Delete is only called by GC / put rollback for objects the
			// metabase knows; with no metabase bucket of the container at all it
			// panics (delete.go: res[len(addrs):]) – reported as an aside, not C16.
			e.label("del-skipped-nothing-put")
			return
		}
		err := e.sh.Delete(a.Container(), []oid.ID{a.Object()})
		e.logf("del %s -> %v", short(a), err)
		if err == nil {
			delete(e.live, a)
		} else if e.mode == mode.ReadWrite {
			// whether the delete took effect is unknown: stop asserting this address
			delete(e.live, a)
			e.label("delete-failed-in-rw")
		}
	case "adv":
		e.withReaders(func() { e.advance(s.N) })
	case "outage":
		e.setFailing(true)
		e.withReaders(func() { e.advance(s.N) })
		e.setFailing(false)
	case "failon":
		e.setFailing(true)
	case "failoff":
		e.setFailing(false)
	case "block":
		e.block()
	case "release":
		e.withReaders(func() { e.release() })
	case "pulse":
		e.withReaders(func() { e.pulse() })
	case "rif":
		for _, j := range s.A {
			if _, ok := e.live[e.objs[j].addr]; !ok {
				e.run(step{Op: "put", I: j})
			}
		}
		target := e.objs[s.I].addr
		_, cachedBefore := e.cacheList()[target.EncodeToString()]
		e.block()
		e.withReaders(func() { e.advance(1) }) // one scheduler round against the blocked blob storage
		e.run(step{Op: "del", I: s.I})
		e.pulse()
		// candidate of the class: the object was cached when the round started and
		// a batch that does not carry it is now parked inside PutBatch
		e.f.mu.Lock()
		cand := false
		for _, b := range e.f.parked {
			has := false
			for _, a := range b {
				has = has || a == target
			}
			cand = cand || !has
		}
		e.f.mu.Unlock()
		if cand && cachedBefore {
			e.label("reput-during-parked-batch-flush")
		}
		e.run(step{Op: "put", I: s.I})
		e.readAll("rif: after re-put, batch flush parked")
		e.withReaders(func() { e.release() })
	case "flush":
		e.withReaders(func() {
			done := make(chan error, 1)
			go func() { done <- e.sh.FlushWriteCache(s.B) }()
			if e.gated() {
				// the explicit flush blocks inside the blob Put of its first
				// object; let the readers look at that state, then release
				synctest.Wait()
				time.Sleep(300 * time.Millisecond)
				e.f.mu.Lock()
				if e.f.blocked > 0 {
					e.labels["explicit-flush-while-gated"] = true
				}
				e.f.mu.Unlock()
				e.openGate()
			}
			err := <-done
			synctest.Wait()
			e.logf("flush(ignoreErrors=%v) -> %v", s.B, err)
			if err != nil && !e.mode.ReadOnly() && !e.isFailing() {
				e.label("explicit-flush-failed-with-healthy-storage") // measured, not asserted
			}
		})
		sleepToPhase(500)
	case "mode":
		e.setMode(s.M)
	case "reopen":
		e.reopen()
		e.label("reopen")
	}
}

func TestC16(t *testing.T) {
	rec := ev.New("C16", "shard-writecache")
	defer rec.Flush()
	// Draws happen outside the synctest bubble (see c17): only the execution
	// runs inside bubble.Run.
	tt := t
	rapid.Check(t, func(t *rapid.T) {
		c := genCfg(t)
		steps := genSteps(t, c)
		bubble.Run(tt, func() { runCase(t, rec, c, steps) })
	})
}

func runCase(t *rapid.T, rec *ev.Recorder, c cfg, steps []step) {
	defer func() {
		if r := recover(); r != nil {
			if re, ok := r.(runtime.Error); ok {
				// a harness bug or a panic of the code under test, not a verdict of the oracle: show where
				t.Logf("runtime error: %v\n%s", re, debug.Stack())
			}
			panic(r)
		}
	}()
	{
		dir, err := os.MkdirTemp("", "c16")
		if err != nil {
			ev.Inconclusive("C16: mkdtemp: %v", err)
		}
		defer os.RemoveAll(dir)

		e := &env{t: t, c: c, dir: dir, live: map[oid.Address][]byte{}, labels: map[string]bool{},
			f: &faults{inflight: map[oid.Address]int{}, flushSeq: map[oid.Address]int{}}}
		for i := range e.objs {
			a, o, b := wcobj.ObjOfSize(0, i, c.Sizes[i])
			e.objs[i] = obj{o, a, b}
		}
		names := make([]string, len(steps))
		for i, s := range steps {
			names[i] = s.String()
		}
		fp := c.String() + " | " + strings.Join(names, " ")
		defer func() {
			e.rmu.Lock()
			ov, reads := e.overlaps, e.reads
			e.rmu.Unlock()
			if ov > 0 {
				e.label("read-overlapped-flush")
			}
			if reads > 0 {
				e.label("has-reads")
			}
			ls := make([]string, 0, len(e.labels))
			for l := range e.labels {
				ls = append(ls, l)
			}
			sort.Strings(ls)
			rec.Case(ov > 0 || e.modeNonEmpty, fp, ls...)
			rec.LabelN("reads", int64(reads))
			rec.LabelN("reads-overlapping-flush", int64(ov))
			if rec.WantSample() {
				rec.Sample(map[string]any{"config": c.String(), "steps": names, "labels": ls})
			}
		}()

		e.openShard()
		closed := false
		defer func() {
			if !closed {
				e.openGate()
				_ = e.sh.Close()
			}
		}()

		for _, s := range steps {
			e.logf("-- %s", s)
			e.run(s)
			// every step boundary: all model objects readable
			e.readAll("after " + s.String())
		}

		// quiescence: healthy storage, read-write, until the cache dir is empty
		// or unchanged for 3 ticks
		e.setFailing(false)
		e.release()
		if e.mode != mode.ReadWrite {
			e.setMode(mode.ReadWrite)
		}
		e.withReaders(func() {
			last, stable := "", 0
			for sec := 0; sec < 60; sec++ {
				m := e.cacheList()
				if len(m) == 0 {
					break
				}
				ks := make([]string, 0, len(m))
				for k := range m {
					ks = append(ks, k)
				}
				sort.Strings(ks)
				if l := strings.Join(ks, ","); l == last {
					stable++
				} else {
					last, stable = l, 0
				}
				if stable >= 14 { // > error back-off: this is C17's business, not asserted here
					e.label("cache-not-drained")
					break
				}
				e.advance(1)
			}
		})
		e.logf("quiescent")
		e.readAll("at quiescence")
		e.inBlob("at quiescence", false)
		if err := e.sh.Close(); err != nil {
			e.fatalf("final Close: %v", err)
		}
		closed = true
	}
}

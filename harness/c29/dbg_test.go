package c29

import (
	"fmt"
	"testing"

	"github.com/nspcc-dev/neofs-node/verifharness/objsrv"
	"pgregory.net/rapid"
)

func TestDbg(t *testing.T) {
	env := newEnv(t)
	seen := map[string]bool{}
	rapid.Check(t, func(t *rapid.T) {
		s := objsrv.GenSpec(t, objsrv.AllDefects())
		k := s.Defect.String()
		if s.Op == objsrv.OpPut {
			k += "/put"
		}
		if seen[k] {
			return
		}
		seen[k] = true
		res := env.Invoke(env.U.Build(s))
		fmt.Println("=====", s)
		fmt.Println(res)
	})
}

package c29

import (
	"fmt"
	"testing"

	"github.com/nspcc-dev/neofs-node/verifharness/objsrv"
)

func TestSmoke(t *testing.T) {
	env, err := objsrv.NewEnv(t.TempDir())
	if err != nil {
		t.Fatal(err)
	}
	defer env.Close()
	infos, probs := objsrv.Methods()
	fmt.Println(infos, probs)
	for op := objsrv.Op(0); op < objsrv.NumOps; op++ {
		for _, req := range []int{objsrv.IDOwner, objsrv.IDOther} {
			for _, ttl := range []uint32{1, 2} {
				s := objsrv.Normalize(objsrv.Spec{Op: op, Cnr: objsrv.CnrOpen, Obj: objsrv.ObjPlain, Requester: req, Version: 3, TTL: ttl,
					SearchCount: 5, SearchFilters: [][2]string{{"a", "b"}}, SearchAttrs: 1, PutPayload: []byte("hello world"), PutChunks: 2, RangeLen: 10, RangeOff: 3})
				r := env.Invoke(env.U.Build(s))
				fmt.Println(s)
				fmt.Println(r)
			}
		}
	}
}

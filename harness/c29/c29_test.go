// Package c29 decides property C29: every object service call verifies the
// request signatures, validates its tokens and applies the access checks
// before it reads, writes or forwards any object data; a request failing any of
// these checks gets an error status and causes no storage or network effect;
// no payload byte is sent before the eACL was evaluated against the object's
// header.
//
// The server under test is the real object.Server built by harness/objsrv with
// recording dependencies. Oracle = the ordered event log of one request.
package c29

import (
	"fmt"
	"os"
	"strings"
	"testing"

	"github.com/nspcc-dev/neofs-node/verifharness/ev"
	"github.com/nspcc-dev/neofs-node/verifharness/objsrv"
	"pgregory.net/rapid"
)

func newEnv(t *testing.T) *objsrv.Env {
	dir, err := os.MkdirTemp("", "c29-")
	if err != nil {
		ev.Inconclusive("temp dir: %v", err)
	}
	t.Cleanup(func() { os.RemoveAll(dir) })
	env, err := objsrv.NewEnv(dir)
	if err != nil {
		ev.Inconclusive("cannot build the object server harness: %v", err)
	}
	t.Cleanup(env.Close)
	if _, problems := objsrv.Methods(); len(problems) > 0 {
		ev.Inconclusive("object service methods not covered by the harness: %s", strings.Join(problems, "; "))
	}
	return env
}

// expectedEffect is the effect a valid request of the op must show (it proves
// that the harness is able to observe the op's effects).
func expectedEffect(op objsrv.Op) string {
	switch op {
	case objsrv.OpGet:
		return "handler.Get"
	case objsrv.OpHead:
		return "handler.Head"
	case objsrv.OpRange:
		return "handler.GetRange"
	case objsrv.OpDelete:
		return "handler.Delete"
	case objsrv.OpSearch:
		return "storage.SearchObjects"
	}
	return "put.init"
}

func labels(s objsrv.Spec) []string {
	l := []string{"op:" + s.Op.String(), "defect:" + s.Defect.String(),
		fmt.Sprintf("scheme:%d", s.Scheme), fmt.Sprintf("api:%d.%d", objsrv.Versions[s.Version][0], objsrv.Versions[s.Version][1]),
		fmt.Sprintf("ttl:%d", s.TTL), fmt.Sprintf("cnr:%d", s.Cnr)}
	if s.Trusted {
		l = append(l, "trusted-peer")
	}
	if s.Late {
		l = append(l, "late-header")
	}
	if s.TLSPeer {
		l = append(l, "tls-peer-with-header")
		if s.Defect.IsSignature() && s.TTL == 1 {
			l = append(l, "tls-peer-ttl1-broken-header:"+s.Op.String())
		}
	}
	if s.Session != objsrv.SessionNone {
		l = append(l, fmt.Sprintf("session:v%d", s.Session))
	}
	if s.Bearer {
		l = append(l, "bearer")
	}
	return l
}

// TestC29Methods enumerates the service methods by reflection: unknown methods
// make the check inconclusive (done in newEnv); deprecated / replaced stubs
// must answer "unimplemented" (or refuse to run at all) without any effect,
// even for a valid signed request.
func TestC29Methods(t *testing.T) {
	rec := ev.New("C29", "methods")
	defer rec.Flush()
	env := newEnv(t)
	infos, _ := objsrv.Methods()
	var names []string
	for _, m := range infos {
		names = append(names, fmt.Sprintf("%s:%d", m.Name, m.Class))
		if m.Class != objsrv.ClassStub {
			rec.Case(false, m.Name, "method-class:"+fmt.Sprint(m.Class))
			continue
		}
		for ci := range objsrv.NumContainers {
			for _, who := range []int{objsrv.IDOwner, objsrv.IDOther} {
				hs := objsrv.Normalize(objsrv.Spec{Op: objsrv.OpHead, Cnr: ci, Requester: who, Version: 3, TTL: 2})
				ss := objsrv.Normalize(objsrv.Spec{Op: objsrv.OpSearch, Cnr: ci, Requester: who, Version: 3, TTL: 2, SearchCount: 10})
				res, unimpl := env.InvokeStub(m.Name, env.U.Build(hs).Head, env.U.Build(ss).Search)
				rec.Case(true, fmt.Sprintf("%s/%d/%d", m.Name, ci, who), "stub:"+m.Name)
				if !unimpl && res.Panic == nil {
					t.Fatalf("stub %s neither unimplemented nor refusing: %v", m.Name, res)
				}
				if bad := objsrv.OfKind(res.Events, objsrv.KindEffect, objsrv.KindACLRead); len(bad) > 0 {
					t.Fatalf("stub %s caused effects:\n%s", m.Name, objsrv.Format(bad))
				}
			}
		}
	}
	rec.Set("methods", names)
	rec.Set("exhaustive", false)
}

// checkDefect is the oracle for a request with exactly one defect.
func checkDefect(t *rapid.T, s objsrv.Spec, b *objsrv.Built, res objsrv.Result) {
	fail := func(format string, a ...any) {
		t.Fatalf("C29 violated: %s\nrequest: %v\nresult: %v", fmt.Sprintf(format, a...), s, res)
	}
	if res.Panic != nil {
		fail("handler panicked: %v", res.Panic)
	}
	if !res.Failed() {
		fail("request with defect %v was not refused", s.Defect)
	}
	effects := objsrv.OfKind(res.Events, objsrv.KindEffect)
	switch {
	case s.Defect == objsrv.DefEACLHeader || s.Defect == objsrv.DefEACLHeaderRemote:
		// the header has to be read to evaluate the rule; nothing of the object may reach the client
		for _, e := range effects {
			if strings.HasPrefix(e.What, "stream.") || strings.HasPrefix(e.What, "response.") || strings.HasPrefix(e.What, "put.") ||
				strings.HasPrefix(e.What, "storage.") || e.What == "handler.Delete" {
				fail("object data left the node although the header-time eACL check denies: %v", e)
			}
		}
		if res.HeaderSent || res.PayloadBytes != 0 {
			fail("header sent=%v, %d payload bytes sent before/despite the header-time denial", res.HeaderSent, res.PayloadBytes)
		}
	case s.Op == objsrv.OpPut && b.DefectMsg > 0:
		// the init message was valid and was processed; the broken chunk message
		// must stop the stream: nothing is stored, nobody is dialled
		for _, e := range effects {
			if e.What != "put.init" {
				fail("effect after a PUT chunk message (#%d) with a bad signature: %v", b.DefectMsg, e)
			}
		}
	default:
		if len(effects) > 0 {
			fail("refused request caused effects:\n%s", objsrv.Format(effects))
		}
	}
}

func TestC29Defects(t *testing.T) {
	rec := ev.New("C29", "defects")
	defer rec.Flush()
	env := newEnv(t)
	defects := objsrv.AllDefects()
	rapid.Check(t, func(t *rapid.T) {
		s := objsrv.GenSpec(t, defects)
		if s.Defect == objsrv.DefNone { // not applicable to the drawn op and normalised away
			rec.Case(false, s.Fingerprint(), "defect-normalised-away")
			return
		}
		rec.Case(true, s.Fingerprint(), labels(s)...)
		b := env.U.Build(s)
		res := env.Invoke(b)
		if rec.WantSample() {
			rec.Sample(map[string]any{"request": s.String(), "status": res.Status, "message": res.StatusMsg, "events": res.Events})
		}
		rec.Label(fmt.Sprintf("status:%d", res.Status))
		checkDefect(t, s, b, res)
	})
}

var mandatoryChecks = []string{"reqinfo", "basic-acl", "eacl-request"}

// checkValid is the oracle for a valid request: the op's effect is observable,
// and every authorisation step ran (successfully) before the first effect.
func checkValid(t *rapid.T, s objsrv.Spec, res objsrv.Result) { checkValidHist(t, s, res, true) }

// checkValidHist is checkValid for a request inside a series: when it is not
// the first request (firstReq == false), a valid request that is refused without
// effect is not a C29 violation (and not a harness problem either: an earlier
// request of the series may have poisoned a cache); it is only reported.
func checkValidHist(t *rapid.T, s objsrv.Spec, res objsrv.Result, firstReq bool) bool {
	fail := func(format string, a ...any) {
		t.Fatalf("C29 violated: %s\nrequest: %v\nresult: %v", fmt.Sprintf(format, a...), s, res)
	}
	if res.Panic != nil {
		fail("handler panicked: %v", res.Panic)
	}
	evs := res.Events
	if !objsrv.HasWhat(objsrv.OfKind(evs, objsrv.KindEffect), expectedEffect(s.Op)) {
		if !firstReq {
			if res.Panic != nil || len(objsrv.OfKind(evs, objsrv.KindEffect)) > 0 && !res.Failed() {
				fail("valid request of a series neither shows its effect nor is refused cleanly")
			}
			return false
		}
		// not a violation of C29: the harness built a request it believes valid and cannot observe its effect
		ev.Inconclusive("a request built as valid shows no %q effect: %v\n%v", expectedEffect(s.Op), s, res)
	}
	first := objsrv.FirstIndex(evs, objsrv.KindEffect)
	need := append([]string(nil), mandatoryChecks...)
	if s.Op == objsrv.OpPut {
		need = append(need, "sticky")
	}
	switch s.Session {
	case objsrv.SessionV1:
		need = append(need, "token.session-v1")
	case objsrv.SessionV2:
		need = append(need, "token.session-v2")
	}
	if s.Bearer {
		need = append(need, "token.bearer")
	}
	if s.Scheme == objsrv.SchemeN3 {
		need = append(need, "sig-n3")
	}
	for _, n := range need {
		found := false
		for i, e := range evs[:first] {
			if e.Kind == objsrv.KindCheck && e.What == n {
				found = true
				ok := e.Detail == "ok" || e.Detail == "true" || (n == "eacl-request" && e.Detail == "err: no matching rule")
				if !ok {
					fail("check %q (event %d) did not pass but effects followed", n, i)
				}
			}
		}
		if !found {
			fail("effect %v happened before check %q ran", evs[first], n)
		}
	}
	// header-time clause: when the request-time eACL evaluation was inconclusive
	// (no matching rule yet, headers missing), nothing of the object may be sent
	// before the eACL was evaluated against the header.
	if s.Op == objsrv.OpGet || s.Op == objsrv.OpHead {
		inconclusive := false
		for _, e := range evs {
			if e.Kind == objsrv.KindCheck && e.What == "eacl-request" && e.Detail == "err: no matching rule" {
				inconclusive = true
			}
		}
		if inconclusive {
			sawHeaderCheck := false
			for _, e := range evs {
				if e.Kind == objsrv.KindCheck && e.What == "eacl-header" {
					sawHeaderCheck = true
				}
				if e.Kind == objsrv.KindEffect && (strings.HasPrefix(e.What, "stream.") || strings.HasPrefix(e.What, "response.")) && !sawHeaderCheck {
					fail("%v sent before the eACL was evaluated against the object header", e)
				}
			}
		}
	}
	return true
}

func nontrivialValid(s objsrv.Spec) bool {
	return s.Session != objsrv.SessionNone || s.Bearer || s.Trusted || s.Late || s.Scheme == objsrv.SchemeN3 || s.TTL > 1 ||
		s.Cnr != objsrv.CnrOpen || s.Op == objsrv.OpPut
}

func TestC29Valid(t *testing.T) {
	rec := ev.New("C29", "valid")
	defer rec.Flush()
	env := newEnv(t)
	rapid.Check(t, func(t *rapid.T) {
		s := objsrv.GenSpec(t, []objsrv.Defect{objsrv.DefNone})
		rec.Case(nontrivialValid(s), s.Fingerprint(), labels(s)...)
		res := env.Invoke(env.U.Build(s))
		if rec.WantSample() {
			rec.Sample(map[string]any{"request": s.String(), "status": res.Status, "events": res.Events})
		}
		rec.Label(fmt.Sprintf("status:%d", res.Status))
		if res.PayloadBytes > 0 {
			rec.Label("payload-sent")
		}
		for _, e := range res.Events {
			if e.What == "eacl-header" {
				rec.Label("header-time-eacl-evaluated")
				break
			}
		}
		if objsrv.HasWhat(res.Events, "remote.dial") {
			rec.Label("remote-dial-observed")
		}
		checkValid(t, s, res)
	})
}

// TestC29Sequences: the oracle of a single request must hold independently of
// history. Series of 2-6 requests run against ONE long-lived server / ACL
// service instance (caches of token checks included): the first request is a
// valid one carrying a bearer and/or session token; later steps are the same
// request again, the same request with a forged token (byte-identical token
// body, foreign / flipped / empty / misplaced signature), the same request
// with a corrupted verification header, or an epoch tick (caches dropped the
// way cmd/neofs-node does on a new epoch).
func TestC29Sequences(t *testing.T) {
	rec := ev.New("C29", "sequences")
	defer rec.Flush()
	env := newEnv(t)
	sigDefects := []objsrv.Defect{objsrv.DefBodySigFlip, objsrv.DefMetaSigFlip, objsrv.DefNoBodySig, objsrv.DefKeySwap, objsrv.DefBodyChanged, objsrv.DefMetaChanged}
	rapid.Check(t, func(t *rapid.T) {
		env.TickEpoch() // every series starts with empty caches
		base := objsrv.GenSpec(t, []objsrv.Defect{objsrv.DefNone})
		switch rapid.IntRange(0, 2).Draw(t, "tokenKind") {
		case 0:
			base.Bearer = true
		case 1:
			if base.Op == objsrv.OpPut {
				base.Op = objsrv.OpDelete
			}
			base.Trusted = false
			base.Session = rapid.IntRange(objsrv.SessionV1, objsrv.SessionV2).Draw(t, "sessionKind")
		default:
			base.Bearer = true
			if base.Op != objsrv.OpPut && !base.Trusted {
				base.Session = rapid.IntRange(objsrv.SessionV1, objsrv.SessionV2).Draw(t, "sessionKind")
			}
		}
		base = objsrv.Normalize(base)
		n := rapid.IntRange(1, 5).Draw(t, "steps")
		var hist []string
		lbl := map[string]bool{}
		validSinceTick := true // the genuine tokens were accepted since the last cache drop
		step := func(s objsrv.Spec, first bool) {
			b := env.U.Build(s)
			res := env.Invoke(b)
			hist = append(hist, fmt.Sprintf("%v -> status %d", s.Defect, res.Status))
			defer func() {
				if t.Failed() {
					t.Logf("series so far: %v", hist)
				}
			}()
			if s.Defect == objsrv.DefNone {
				if !checkValidHist(t, s, res, first) {
					lbl["valid-refused-after-history"] = true
				}
				return
			}
			checkDefect(t, s, b, res)
		}
		step(base, true)
		sb0, bb0 := env.U.TokenBodies(base)
		for i := 0; i < n; i++ {
			switch k := rapid.IntRange(0, 9).Draw(t, "step"); {
			case k == 0:
				env.TickEpoch()
				validSinceTick = false
				hist = append(hist, "epoch tick")
				lbl["epoch-tick"] = true
			case k <= 2:
				step(base, false)
				validSinceTick = true
				lbl["original-again"] = true
			case k <= 5 && base.Bearer, k <= 8 && base.Session == objsrv.SessionNone:
				f := base
				f.Defect, f.ForgeKind = objsrv.DefBearerForgedSig, rapid.IntRange(0, 3).Draw(t, "forgeKind")
				f = objsrv.Normalize(f)
				if _, bb := env.U.TokenBodies(f); string(bb) != string(bb0) || len(bb) == 0 {
					ev.Inconclusive("forged bearer token does not keep the body of the genuine one: %v vs %v", f, base)
				}
				step(f, false)
				if validSinceTick {
					lbl["forged-after-valid:bearer"] = true
				}
				lbl[fmt.Sprintf("forge-kind:%d", f.ForgeKind)] = true
			case k <= 8:
				f := base
				f.Defect, f.ForgeKind = objsrv.DefSessionForgedSig, rapid.IntRange(0, 3).Draw(t, "forgeKind")
				f = objsrv.Normalize(f)
				if sb, _ := env.U.TokenBodies(f); string(sb) != string(sb0) || len(sb) == 0 {
					ev.Inconclusive("forged session token does not keep the body of the genuine one: %v vs %v", f, base)
				}
				step(f, false)
				if validSinceTick {
					lbl[fmt.Sprintf("forged-after-valid:session-v%d", base.Session)] = true
					lbl["forged-after-valid:session"] = true
				}
				lbl[fmt.Sprintf("forge-kind:%d", f.ForgeKind)] = true
			default:
				if base.Trusted {
					continue // no verification header to corrupt
				}
				f := base
				f.Defect = rapid.SampledFrom(sigDefects).Draw(t, "sigDefect")
				f = objsrv.Normalize(f)
				step(f, false)
				lbl["corrupted-verify-header-after-valid"] = true
			}
		}
		var ls []string
		for l := range lbl {
			ls = append(ls, l)
		}
		ls = append(ls, "op:"+base.Op.String(), fmt.Sprintf("series-len:%d", len(hist)))
		rec.Case(true, base.Fingerprint()+"|"+fmt.Sprint(hist), ls...)
		if rec.WantSample() {
			rec.Sample(map[string]any{"base": base.String(), "series": hist})
		}
	})
}

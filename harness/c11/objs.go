package c11

import (
	"crypto/sha256"
	"encoding/binary"
	"fmt"
	"strings"
	"sync"

	"github.com/klauspost/compress/zstd"
	objectwire "github.com/nspcc-dev/neofs-node/internal/object"
	"github.com/nspcc-dev/neofs-node/verifharness/uni"
	"github.com/nspcc-dev/neofs-sdk-go/checksum"
	"github.com/nspcc-dev/neofs-sdk-go/object"
	oid "github.com/nspcc-dev/neofs-sdk-go/object/id"
	"google.golang.org/protobuf/encoding/protowire"
)

// hdrBuf is the length of the storage's first read (objectwire.NonPayloadFieldsBufferLength).
const hdrBuf = objectwire.NonPayloadFieldsBufferLength

// ObjSpec describes one stored object of a case (JSON-able, pure input of mkObj).
type ObjSpec struct {
	ID         int  `json:"id"`   // uni object index
	Cnr        int  `json:"cnr"`  // uni container index
	Len        int  `json:"len"`  // payload length
	AttrLen    int  `json:"attr"` // length of one big attribute value (header size knob)
	Compress   bool `json:"z"`    // legacy stored form: zstd(binary)
	Repetitive bool `json:"rep"`  // compressible payload (still position-unique)
}

func (s ObjSpec) String() string {
	return fmt.Sprintf("{o%d len=%d attr=%d z=%v rep=%v}", s.ID, s.Len, s.AttrLen, s.Compress, s.Repetitive)
}

// Obj is a built object with everything the oracle needs.
type Obj struct {
	Spec    ObjSpec
	Addr    oid.Address
	O       *object.Object
	Bin     []byte // canonical binary
	Stored  []byte // bytes handed to raw FSTree Put (Bin or zstd(Bin))
	Payload []byte
	HdrBin  []byte // value of the header field inside Bin
	HdrObj  []byte // CutPayload().Marshal()
	// P is the payload index of the first byte outside the first hdrBuf bytes of
	// Bin (>= Len when the whole object fits the first read).
	P int64
}

// payloadBytes is position-unique (no short period), optionally compressible.
func payloadBytes(id, n int, repetitive bool) []byte {
	b := make([]byte, n+8)
	if repetitive {
		for i := 0; i < n; i += 8 {
			binary.LittleEndian.PutUint64(b[i:], uint64(i/8)|uint64(id+1)<<56)
		}
		return b[:n]
	}
	x := uint64(id+1)*0x9E3779B97F4A7C15 ^ uint64(n)<<17
	for i := 0; i < n; i += 8 {
		x ^= x << 13
		x ^= x >> 7
		x ^= x << 17
		binary.LittleEndian.PutUint64(b[i:], x)
	}
	return b[:n]
}

func varintLen(v uint64) int { return protowire.SizeVarint(v) }

// hdrPartLen returns len(binary) of the object with the given attr length and an empty payload.
func hdrPartLen(s ObjSpec) int {
	s.Len = 0
	return len(build(s).Marshal())
}

func build(s ObjSpec) *object.Object {
	us := uni.Spec{Kind: uni.Regular, Cnr: s.Cnr, ID: s.ID, Exp: -1, Parent: -1, ParentExp: -1, First: -1}
	if s.AttrLen > 0 {
		us.Attrs = [][2]string{{"big", strings.Repeat("v", s.AttrLen)}}
	}
	o := uni.Build(us)
	p := payloadBytes(s.ID, s.Len, s.Repetitive)
	o.SetPayload(p)
	o.SetPayloadSize(uint64(len(p)))
	o.SetPayloadChecksum(checksum.NewSHA256(sha256.Sum256(p)))
	return o
}

var (
	encOnce sync.Once
	enc     *zstd.Encoder
)

func compress(b []byte) []byte {
	encOnce.Do(func() {
		var err error
		enc, err = zstd.NewWriter(nil, zstd.WithEncoderConcurrency(1))
		if err != nil {
			panic(err)
		}
	})
	return enc.EncodeAll(b, nil)
}

// MkObj builds the object of a spec.
func MkObj(s ObjSpec) *Obj {
	o := build(s)
	r := &Obj{Spec: s, O: o, Addr: o.Address(), Bin: o.Marshal(), Payload: o.Payload()}
	r.Stored = r.Bin
	if s.Compress {
		r.Stored = compress(r.Bin)
	}
	r.HdrObj = o.CutPayload().Marshal()
	// independent top-level scan of the binary for the header field (3)
	b := r.Bin
	for len(b) > 0 {
		num, typ, n := protowire.ConsumeTag(b)
		if n < 0 || typ != protowire.BytesType {
			panic("unexpected object binary")
		}
		v, m := protowire.ConsumeBytes(b[n:])
		if m < 0 {
			panic("unexpected object binary")
		}
		if num == 3 {
			r.HdrBin = v
		}
		b = b[n+m:]
	}
	start := len(r.Bin) - len(r.Payload)
	r.P = int64(hdrBuf - start)
	return r
}

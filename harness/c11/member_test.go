package c11

import (
	"bytes"
	"context"
	"encoding/binary"
	"fmt"
	"io"
	"os"
	"path/filepath"
	"testing"

	"github.com/nspcc-dev/neofs-node/pkg/local_object_storage/blobstor/common"
	"github.com/nspcc-dev/neofs-node/verifharness/ev"
	"github.com/nspcc-dev/neofs-node/verifharness/stor"
	"github.com/nspcc-dev/neofs-sdk-go/object"
	oid "github.com/nspcc-dev/neofs-sdk-go/object/id"
)

// specWithStoredLen searches the payload length for which the STORED form of the
// object (binary, or zstd frame when z) is exactly total bytes long.
func specWithStoredLen(id, attr, total int, z, rep bool) (ObjSpec, bool) {
	s := ObjSpec{ID: id, AttrLen: attr, Compress: z, Repetitive: rep && !z}
	stored := func(l int) int {
		s.Len = l
		o := build(s)
		if z {
			return len(compress(o.Marshal()))
		}
		return len(o.Marshal())
	}
	l := total - hdrPartLen(s) - 8
	if l < 1 {
		return s, false
	}
	for i := 0; i < 12; i++ { // stored size grows by one per payload byte except at varint steps
		cur := stored(l)
		if cur == total {
			return s, true
		}
		l += total - cur
		if l < 1 {
			return s, false
		}
	}
	for d := -6; d <= 6; d++ {
		if l+d >= 1 && stored(l+d) == total {
			return s, true
		}
	}
	return s, false
}

// member is one entry of a combined file.
type member struct {
	id  oid.ID
	len int
}

// combinedLayout parses the physical file of addr under an FSTree root of depth 1
// following the documented layout: [0x7F 0x00 OID(32) len(4, BE)] data ...
func combinedLayout(root string, addr oid.Address) ([]member, bool) {
	s := addr.Object().EncodeToString() + "." + addr.Container().EncodeToString()
	b, err := os.ReadFile(filepath.Join(root, s[:1], s[1:]))
	if err != nil {
		fatalEnv("read object file: %v", err)
	}
	var ms []member
	for p := 0; p < len(b); {
		if len(b)-p < 38 || b[p] != 0x7f || b[p+1] != 0 {
			return nil, false
		}
		n := int(binary.BigEndian.Uint32(b[p+34:]))
		ms = append(ms, member{id: oid.ID(b[p+2 : p+34]), len: n})
		p += 38 + n
	}
	return ms, true
}

// rebatch rewrites the blob files of objs in dir as ONE combined file (what a
// write-cache batch flush / batched put produces).
func rebatch(dir string, objs []*Obj) {
	raw := rawTree(dir)
	batch := map[oid.Address][]byte{}
	for _, o := range objs {
		if err := raw.Delete(o.Addr); err != nil {
			fatalEnv("delete blob file: %v", err)
		}
		batch[o.Addr] = o.Stored
	}
	t, err := stor.OpenFSTree(dir)
	if err != nil {
		fatalEnv("reopen blob dir: %v", err)
	}
	if err := t.PutBatch(batch); err != nil {
		fatalEnv("PutBatch: %v", err)
	}
	_ = t.Close()
}

func memberRanges(L uint64, P int64) []Rng {
	m := common.PayloadRangeModeNone
	ol, bd, fr, sf := common.PayloadRangeModeOffsetLength, common.PayloadRangeModeBounds, common.PayloadRangeModeFrom, common.PayloadRangeModeSuffix
	huge := ^uint64(0)
	rs := []Rng{{Mode: m}, {ol, 0, 0}, {ol, 0, L}, {ol, 1, L - 1}, {ol, L - 1, 1}, {ol, 0, L + 1}, {ol, L / 2, L - L/2},
		{fr, 0, 0}, {fr, 1, 0}, {fr, L - 1, 0}, {fr, L / 2, 0}, {fr, L, 0},
		{sf, 1, 0}, {sf, L, 0}, {sf, L + 5, 0}, {sf, L - 1, 0}, {sf, huge, 0},
		{bd, 0, L - 1}, {bd, 0, L}, {bd, 0, huge}, {bd, 1, huge}, {bd, L - 1, huge}, {bd, L / 2, L + 7}}
	if P > 1 && uint64(P) < L {
		p := uint64(P)
		rs = append(rs, Rng{ol, p - 1, L - p + 1}, Rng{ol, p, L - p}, Rng{fr, p, 0}, Rng{fr, p - 1, 0}, Rng{sf, L - p, 0}, Rng{sf, L - p + 1, 0}, Rng{bd, p, huge}, Rng{bd, p - 1, L + 1})
	}
	return rs
}

// TestC11CombinedMember builds, by construction, combined files whose members have a
// stored size of exactly k*NonPayloadFieldsBufferLength (and ±1), so that at
// least two such members are NOT the last entry of their file, in an FSTree, a shard
// and an engine, and compares full, tail, suffix and clipped ranges of every
// member with the payload-slice reference; every stream must end exactly at the
// end of the range (foreign bytes of the following members are a violation).
func TestC11CombinedMember(t *testing.T) {
	rec := ev.New("C11", "member")
	defer rec.Flush()
	k, n := ev.Shard()
	type cfg struct {
		total, attr int
		z           bool
	}
	var cfgs []cfg
	for _, total := range []int{hdrBuf, hdrBuf - 1, hdrBuf + 1, 2 * hdrBuf, 2*hdrBuf - 1, 2*hdrBuf + 1} {
		for _, attr := range []int{0, 4000} {
			cfgs = append(cfgs, cfg{total, attr, false})
		}
	}
	cfgs = append(cfgs, cfg{hdrBuf, 100, true}, cfg{hdrBuf + 1, 100, true})
	variants := []variant{
		{bufLen: 2 * hdrBuf},
		{readHeader: true, intercept: true, skipMeta: true, bufLen: 2 * hdrBuf, chunks: []int{1, 7, hdrBuf}},
		{readHeader: true, bufLen: 64 << 10, chunks: []int{hdrBuf - 1}},
		{intercept: true, bufLen: 128 << 10, chunks: []int{3, 1 << 20}},
	}
	for ci, c := range cfgs {
		if ci%n != k {
			continue
		}
		func() {
			var objs []*Obj
			for id := 0; id < 3; id++ {
				s, ok := specWithStoredLen(id, c.attr, c.total, c.z, id == 1)
				if !ok {
					if c.z {
						rec.Label("zstd-exact-size-not-constructible")
						return
					}
					fatalEnv("no payload length gives a %d-byte binary (attr %d)", c.total, c.attr)
				}
				o := MkObj(s)
				if len(o.Stored) != c.total {
					fatalEnv("stored size %d, wanted %d", len(o.Stored), c.total)
				}
				objs = append(objs, o)
			}
			if len(objs) < 3 {
				return
			}
			objs = append(objs, MkObj(ObjSpec{ID: 3, Len: 100})) // an ordinary small neighbour
			dir, err := os.MkdirTemp("", "c11m-")
			if err != nil {
				fatalEnv("mkdtemp: %v", err)
			}
			defer os.RemoveAll(dir)

			// FSTree: one PutBatch
			fsDir := filepath.Join(dir, "fs")
			fst, err := stor.OpenFSTree(fsDir)
			if err != nil {
				fatalEnv("open fstree: %v", err)
			}
			defer fst.Close()
			batch := map[oid.Address][]byte{}
			for _, o := range objs {
				batch[o.Addr] = o.Stored
			}
			if err := fst.PutBatch(batch); err != nil {
				fatalEnv("PutBatch: %v", err)
			}
			// shard and one-shard engine: objects put normally, then their blob files re-batched into one combined file
			shDir := filepath.Join(dir, "shard")
			sh, err := stor.OpenShard(stor.ShardCfg{Dir: shDir})
			if err != nil {
				fatalEnv("open shard: %v", err)
			}
			defer sh.Close()
			putAll(objs, func(o *Obj) error { return sh.Put(o.O, nil) }, "shard")
			rebatch(stor.BlobDir(shDir), objs)
			engDir := filepath.Join(dir, "eng")
			eng, err := stor.OpenEngine([]stor.ShardCfg{{Dir: engDir}})
			if err != nil {
				fatalEnv("open engine: %v", err)
			}
			defer eng.E.Close()
			putAll(objs, func(o *Obj) error { return eng.E.Put(context.Background(), o.O, nil) }, "engine")
			rebatch(stor.BlobDir(engDir), objs)

			roots := map[string]string{"fstree-combined": fsDir, "shard": stor.BlobDir(shDir), "engine": stor.BlobDir(engDir)}
			layers := []layer{storageLayer("fstree-combined", fst), shardLayer("shard", sh), engineLayer("engine", eng.E)}
			sizeLbl := fmt.Sprintf("member=%d", c.total)
			switch c.total {
			case hdrBuf:
				sizeLbl = "member=bufsize"
			case 2 * hdrBuf:
				sizeLbl = "member=2*bufsize"
			case hdrBuf - 1, hdrBuf + 1:
				sizeLbl = fmt.Sprintf("member=bufsize%+d", c.total-hdrBuf)
			case 2*hdrBuf - 1, 2*hdrBuf + 1:
				sizeLbl = fmt.Sprintf("member=2*bufsize%+d", c.total-2*hdrBuf)
			}
			form := "plain"
			if c.z {
				form = "zstd"
			}
			for _, l := range layers {
				nonLastBoundary := 0
				for _, o := range objs {
					ms, ok := combinedLayout(roots[l.name], o.Addr)
					if !ok || len(ms) != len(objs) {
						fatalEnv("%s: object %s is not in a %d-member combined file (%v)", l.name, o.Spec, len(objs), ms)
					}
					pos := -1
					for i, m := range ms {
						if m.id == o.Addr.Object() {
							pos = i
							if m.len != len(o.Stored) {
								fatalEnv("member length %d, stored %d", m.len, len(o.Stored))
							}
						}
					}
					last := pos == len(ms)-1
					boundary := len(o.Stored) == c.total
					if boundary && !last {
						nonLastBoundary++
					}
					posLbl := "member-last"
					if !last {
						posLbl = "member-not-last"
					}
					L := uint64(len(o.Payload))
					for _, r := range memberRanges(L, o.P) {
						for vi, v := range variants {
							for _, a := range l.apis {
								if !a.allModes && r.Mode != common.PayloadRangeModeOffsetLength {
									continue
								}
								rec.Case(boundary && !last, fmt.Sprintf("%s|%s|%d|%s|%s|%s|%s|v%d", sizeLbl, form, c.attr, posLbl, r, l.name, a.name, vi),
									sizeLbl, posLbl, "form-"+form, "q:"+l.name+"/"+a.name)
								if msg := verify(o, r, a.call(o, r, v)); msg != "" {
									t.Fatalf("%s.%s(%s) on a %d-byte %s member (%s) at position %d of a %d-member combined file %v [object %s, P=%d, variant %+v]:\n  %s",
										l.name, a.name, r, len(o.Stored), form, sizeLbl, pos, len(ms), ms, o.Spec, o.P, v, msg)
								}
							}
						}
					}
				}
				if nonLastBoundary < 2 {
					fatalEnv("%s: only %d boundary-sized members are not last", l.name, nonLastBoundary)
				}
			}
			// whole-object streams: header + exactly payloadLen bytes, then EOF
			for _, o := range objs {
				type gs struct {
					name string
					f    func() (*object.Object, io.ReadCloser, error)
				}
				for _, g := range []gs{
					{"fstree-combined.GetStream", func() (*object.Object, io.ReadCloser, error) { return fst.GetStream(o.Addr) }},
					{"shard.GetStream", func() (*object.Object, io.ReadCloser, error) { return sh.GetStream(o.Addr, false) }},
					{"engine.GetStream", func() (*object.Object, io.ReadCloser, error) { return eng.E.GetStream(context.Background(), o.Addr) }},
				} {
					rec.Label("q:" + g.name)
					hdr, s, err := g.f()
					if err != nil {
						t.Fatalf("%s of a %d-byte %s member %s: %v", g.name, len(o.Stored), form, o.Spec, err)
					}
					b, err := readAll(s, []int{1, hdrBuf})
					_ = s.Close()
					if err != nil {
						t.Fatalf("%s of a %d-byte %s member %s: read: %v", g.name, len(o.Stored), form, o.Spec, err)
					}
					if d := firstDiff(b, o.Payload); d >= 0 {
						t.Fatalf("%s of a %d-byte %s member %s: stream gives %s, payload is %s (first difference at %d)", g.name, len(o.Stored), form, o.Spec, short(b), short(o.Payload), d)
					}
					if !bytes.Equal(hdr.Marshal(), o.HdrObj) {
						t.Fatalf("%s of member %s: header differs", g.name, o.Spec)
					}
				}
				if b, err := fst.GetBytes(o.Addr); err != nil || !bytes.Equal(b, o.Bin) {
					t.Fatalf("fstree-combined.GetBytes of member %s: %d bytes, err %v; binary has %d bytes", o.Spec, len(b), err, len(o.Bin))
				}
			}
		}()
	}
	rec.Set("member_sizes_by_construction", "3 members of stored size T in one combined file (>=2 not last), T in {1,2}x20480 and ±1, attr 0/4000, plain; T=20480,20481 zstd")
}

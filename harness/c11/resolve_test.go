package c11

import (
	"errors"
	"strconv"
	"testing"

	"github.com/nspcc-dev/neofs-node/pkg/local_object_storage/blobstor/common"
	"github.com/nspcc-dev/neofs-node/verifharness/ev"
	apistatus "github.com/nspcc-dev/neofs-sdk-go/client/status"
)

// operand domain of the exhaustive part: 0..70 and the three overflow corners.
func operands() []uint64 {
	v := make([]uint64, 0, 74)
	for i := uint64(0); i <= 70; i++ {
		v = append(v, i)
	}
	return append(v, 1<<63-1, 1<<63, ^uint64(0))
}

// TestC11ResolveExhaustive enumerates payload length 0..64 x 5 modes x
// first,second in 0..70 ∪ {2^63-1, 2^63, 2^64-1} and compares
// PayloadRange.Resolve / Resolved with the big.Int reference.
func TestC11ResolveExhaustive(t *testing.T) {
	rec := ev.New("C11", "resolve")
	defer rec.Flush()
	k, n := ev.Shard()
	ops := operands()
	modes := []common.PayloadRangeMode{common.PayloadRangeModeNone, common.PayloadRangeModeOffsetLength,
		common.PayloadRangeModeBounds, common.PayloadRangeModeFrom, common.PayloadRangeModeSuffix}
	for L := uint64(0); L <= 64; L++ {
		if int(L)%n != k {
			continue
		}
		for _, m := range modes {
			for _, a := range ops {
				for _, b := range ops {
					r := Rng{Mode: m, First: a, Second: b}
					wOff, wLn, wOOR := Ref(r, L)
					cls := boundaryClass(r, L, -1)
					lbl := "mode-" + modeNames[m]
					if wOOR {
						rec.Case(cls != "", modeNames[m]+"|"+cls+"|oor", lbl, "ref-oor")
					} else {
						rec.Case(cls != "", modeNames[m]+"|"+cls+"|ok", lbl, "ref-ok")
					}
					off, ln, err := r.PR().Resolve(L)
					desc := func() string {
						return r.String() + " on payload length " + strconv.FormatUint(L, 10)
					}
					if wOOR {
						if !errors.Is(err, apistatus.ErrObjectOutOfRange) {
							t.Fatalf("Resolve %s: reference says out of range, got off=%d len=%d err=%v", desc(), off, ln, err)
						}
						if _, err2 := r.PR().Resolved(L); !errors.Is(err2, apistatus.ErrObjectOutOfRange) {
							t.Fatalf("Resolved %s: reference says out of range, got err=%v", desc(), err2)
						}
						continue
					}
					if err != nil {
						t.Fatalf("Resolve %s: reference gives [%d,+%d), got error %v", desc(), wOff, wLn, err)
					}
					if off != wOff || ln != wLn {
						t.Fatalf("Resolve %s = (off=%d,len=%d), reference (off=%d,len=%d)", desc(), off, ln, wOff, wLn)
					}
					// callers (get service) replace the range by its resolved form and
					// hand that to the storage, which resolves again: must be a fixpoint
					rr, err := r.PR().Resolved(L)
					if err != nil {
						t.Fatalf("Resolved %s: %v", desc(), err)
					}
					off2, ln2, err := rr.Resolve(L)
					if err != nil || off2 != wOff || ln2 != wLn {
						t.Fatalf("Resolved(%s)=%+v re-resolves to (off=%d,len=%d,err=%v), reference (off=%d,len=%d)",
							desc(), rr, off2, ln2, err, wOff, wLn)
					}
				}
			}
		}
	}
	rec.Set("exhaustive", true)
	rec.Set("domain", "payloadLen 0..64 x modes{none,offlen,bounds,from,suffix} x first,second in 0..70 ∪ {2^63-1,2^63,2^64-1}")
}

// Package c11 decides property C11 (payload range reads): an independent
// math/big reference of the range resolution rules, an exhaustive enumeration
// of common.PayloadRange.Resolve against it, and a differential check of every
// storage layer (FSTree plain / combined / zstd-compressed files, write-cache,
// shard, engine) on real stored objects.
package c11

import (
	"fmt"
	"math/big"

	"github.com/nspcc-dev/neofs-node/pkg/local_object_storage/blobstor/common"
)

// Rng is a range request: a mode and its (up to) two operands.
type Rng struct {
	Mode   common.PayloadRangeMode
	First  uint64
	Second uint64
}

func (r Rng) PR() common.PayloadRange {
	return common.PayloadRange{First: r.First, Second: r.Second, Mode: r.Mode}
}

var modeNames = [...]string{"none", "offlen", "bounds", "from", "suffix"}

func (r Rng) String() string {
	switch r.Mode {
	case common.PayloadRangeModeNone:
		return "none"
	case common.PayloadRangeModeOffsetLength:
		return fmt.Sprintf("offlen(off=%d,len=%d)", r.First, r.Second)
	case common.PayloadRangeModeBounds:
		return fmt.Sprintf("bounds(first=%d,last=%d)", r.First, r.Second)
	case common.PayloadRangeModeFrom:
		return fmt.Sprintf("from(%d)", r.First)
	case common.PayloadRangeModeSuffix:
		return fmt.Sprintf("suffix(%d)", r.First)
	}
	return fmt.Sprintf("mode%d(%d,%d)", r.Mode, r.First, r.Second)
}

// Ref is the reference resolution written from the property statement and the
// documented rules (DESIGN.md §4 C11) in arbitrary precision:
//
//	none            -> whole payload
//	offlen (0,0)    -> whole payload; (off!=0, 0) -> out of range;
//	                   else [off, off+len) must lie inside the payload
//	bounds          -> first>last or first>=L -> out of range; last clipped to L-1
//	from            -> first>=L -> out of range; [first, L)
//	suffix          -> 0 -> out of range; last min(n, L) bytes
//
// It returns (off, ln) of the slice, or oor=true.
func Ref(r Rng, payloadLen uint64) (off, ln uint64, oor bool) {
	L := new(big.Int).SetUint64(payloadLen)
	a := new(big.Int).SetUint64(r.First)
	b := new(big.Int).SetUint64(r.Second)
	one := big.NewInt(1)
	switch r.Mode {
	case common.PayloadRangeModeNone:
		return 0, payloadLen, false
	case common.PayloadRangeModeOffsetLength:
		if b.Sign() == 0 {
			if a.Sign() != 0 {
				return 0, 0, true
			}
			return 0, payloadLen, false
		}
		end := new(big.Int).Add(a, b)
		if end.Cmp(L) > 0 {
			return 0, 0, true
		}
		return r.First, r.Second, false
	case common.PayloadRangeModeBounds:
		if a.Cmp(b) > 0 || a.Cmp(L) >= 0 {
			return 0, 0, true
		}
		last := new(big.Int).Sub(L, one)
		if b.Cmp(last) < 0 {
			last = b
		}
		n := new(big.Int).Sub(last, a)
		n.Add(n, one)
		return r.First, n.Uint64(), false
	case common.PayloadRangeModeFrom:
		if a.Cmp(L) >= 0 {
			return 0, 0, true
		}
		return r.First, new(big.Int).Sub(L, a).Uint64(), false
	case common.PayloadRangeModeSuffix:
		if a.Sign() == 0 {
			return 0, 0, true
		}
		n := a
		if L.Cmp(a) < 0 {
			n = L
		}
		return new(big.Int).Sub(L, n).Uint64(), n.Uint64(), false
	}
	panic("unknown mode")
}

// boundaryClass names the boundary a range touches relative to payload length L
// and the buffered-prefix boundary P (P<0: not applicable). Empty string = none.
func boundaryClass(r Rng, L uint64, P int64) string {
	const huge = uint64(1) << 62
	cls := ""
	add := func(s string) {
		if cls == "" {
			cls = s
		} else if len(cls) < 40 {
			cls += "+" + s
		}
	}
	near := func(v, x uint64) bool { return v == x || v+1 == x || (x != ^uint64(0) && v == x+1) }
	a, b := r.First, r.Second
	switch r.Mode {
	case common.PayloadRangeModeNone:
		if L == 0 {
			add("empty")
		}
		return cls
	case common.PayloadRangeModeOffsetLength:
		if a == 0 && b == 0 {
			add("zero-zero")
		} else if b == 0 {
			add("zero-len")
		}
		if a == 0 && b != 0 {
			add("first-byte")
		}
		if a >= huge || b >= huge {
			add("huge")
			if a+b < a {
				add("wraps")
			}
		} else {
			if near(a+b, L) {
				add("end@L")
			}
			if near(a, L) {
				add("off@L")
			}
			if P >= 0 && near(a, uint64(P)) {
				add("off@P")
			}
			if P >= 0 && b != 0 && near(a+b, uint64(P)) {
				add("end@P")
			}
		}
	case common.PayloadRangeModeBounds:
		if a == b {
			add("single")
		}
		if a > b {
			add("inverted")
		}
		if a == 0 {
			add("first-byte")
		}
		if a >= huge || b >= huge {
			add("huge")
		}
		if a < huge && near(a, L) {
			add("first@L")
		}
		if b < huge && near(b+1, L) {
			add("last@L")
		}
		if P >= 0 && a < huge && near(a, uint64(P)) {
			add("first@P")
		}
		if P >= 0 && b < huge && near(b+1, uint64(P)) {
			add("last@P")
		}
	case common.PayloadRangeModeFrom:
		if a == 0 {
			add("first-byte")
		}
		if a >= huge {
			add("huge")
		} else {
			if near(a, L) {
				add("first@L")
			}
			if P >= 0 && near(a, uint64(P)) {
				add("first@P")
			}
		}
	case common.PayloadRangeModeSuffix:
		if a == 0 {
			add("zero")
		}
		if a >= huge {
			add("huge")
		} else {
			if near(a, L) {
				add("n@L")
			}
			if a == 1 {
				add("last-byte")
			}
			if P >= 0 && a <= L && near(L-a, uint64(P)) {
				add("start@P")
			}
		}
	}
	if L == 0 {
		add("empty")
	}
	return cls
}

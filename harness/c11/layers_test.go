package c11

import (
	"bytes"
	"context"
	"errors"
	"fmt"
	"io"
	"os"
	"path/filepath"
	"strings"
	"testing"

	"github.com/nspcc-dev/neofs-node/pkg/local_object_storage/blobstor/common"
	"github.com/nspcc-dev/neofs-node/pkg/local_object_storage/blobstor/fstree"
	"github.com/nspcc-dev/neofs-node/pkg/local_object_storage/engine"
	"github.com/nspcc-dev/neofs-node/pkg/local_object_storage/shard"
	"github.com/nspcc-dev/neofs-node/pkg/local_object_storage/writecache"
	"github.com/nspcc-dev/neofs-node/verifharness/ev"
	"github.com/nspcc-dev/neofs-node/verifharness/stor"
	apistatus "github.com/nspcc-dev/neofs-sdk-go/client/status"
	"github.com/nspcc-dev/neofs-sdk-go/object"
	oid "github.com/nspcc-dev/neofs-sdk-go/object/id"
	"go.uber.org/zap"
	"pgregory.net/rapid"
)

// ---------- generators ----------

var attrLens = []int{0, 0, 100, 4000, 15000}

func genObjSpec(t *rapid.T, id int) ObjSpec {
	s := ObjSpec{ID: id, Cnr: 0}
	s.AttrLen = rapid.SampledFrom(attrLens).Draw(t, "attr")
	s.Compress = rapid.IntRange(0, 2).Draw(t, "z") == 0
	s.Repetitive = rapid.Bool().Draw(t, "rep")
	hp := hdrPartLen(s)
	// payload index of the first byte beyond the k-th hdrBuf of the binary, for a payload of about that size
	boundary := func(total int) int {
		l := total - hp - 1 - 2
		if l >= 1<<14 {
			l--
		}
		if l < 0 {
			l = 0
		}
		return l
	}
	p1, p2 := boundary(hdrBuf), boundary(2*hdrBuf)
	switch rapid.IntRange(0, 9).Draw(t, "lencls") {
	case 0:
		s.Len = rapid.IntRange(0, 3).Draw(t, "len")
	case 1:
		s.Len = rapid.IntRange(4, 64).Draw(t, "len")
	case 2, 3: // binary length around the first read (small-file vs streamed path)
		s.Len = p1 + rapid.IntRange(-2, 2).Draw(t, "d")
	case 4: // binary length around twice the first read (ReadObject buffer)
		s.Len = p2 + rapid.IntRange(-2, 2).Draw(t, "d")
	case 5:
		s.Len = rapid.IntRange(65, max(66, p1)).Draw(t, "len")
	case 6:
		s.Len = rapid.SampledFrom([]int{16383, 16384, 32768, 65536, 100 << 10}).Draw(t, "len")
	case 7, 8: // legacy compressed file smaller than the first read that decompresses to more than the callers' buffers
		s.Compress, s.Repetitive = true, true
		s.Len = rapid.IntRange(2*hdrBuf, 100<<10).Draw(t, "len")
	default:
		s.Len = rapid.IntRange(p1, 100<<10).Draw(t, "len")
	}
	if s.Len < 0 {
		s.Len = 0
	}
	return s
}

func genRng(t *rapid.T, L uint64, P int64) Rng {
	anchors := []uint64{0, 1, 2, L / 2, L, L + 1, 1<<63 - 1, 1 << 63, ^uint64(0), ^uint64(0) - L + 1, 1<<63 - L}
	if L >= 1 {
		anchors = append(anchors, L-1)
	}
	if L >= 2 {
		anchors = append(anchors, L-2)
	}
	if P > 0 {
		anchors = append(anchors, uint64(P-1), uint64(P), uint64(P+1))
		// the same boundary for the callers' 2*hdrBuf (and larger) buffers of ReadObject/ReadObjectParts
		for _, p2 := range []uint64{uint64(P) + hdrBuf, uint64(P) + hdrBuf + 1, uint64(P) + (64<<10 - hdrBuf), uint64(P) + (128<<10 - hdrBuf)} {
			anchors = append(anchors, p2-1, p2, p2+1, p2+57)
		}
	}
	pos := func(lbl string) uint64 {
		switch rapid.IntRange(0, 4).Draw(t, lbl+"-k") {
		case 0:
			return rapid.Uint64Range(0, L+2).Draw(t, lbl)
		case 1: // beyond what a 2*hdrBuf buffer holds
			if P > 0 && L > uint64(P)+hdrBuf+1 {
				return rapid.Uint64Range(uint64(P)+hdrBuf+1, L).Draw(t, lbl)
			}
			return rapid.Uint64Range(0, L+2).Draw(t, lbl)
		default:
			return rapid.SampledFrom(anchors).Draw(t, lbl)
		}
	}
	r := Rng{Mode: common.PayloadRangeMode(rapid.IntRange(0, 4).Draw(t, "mode"))}
	switch r.Mode {
	case common.PayloadRangeModeOffsetLength:
		r.First = pos("off")
		switch rapid.IntRange(0, 5).Draw(t, "len-k") {
		case 0:
			r.Second = pos("len")
		case 1:
			r.Second = 0
		case 2: // ends at the prefix boundary +-1
			if P > 0 && uint64(P) > r.First {
				r.Second = uint64(P) - r.First + uint64(rapid.IntRange(0, 2).Draw(t, "d")) - 1
			} else {
				r.Second = 1
			}
		default: // ends at the payload end +-1
			if L >= r.First {
				r.Second = L - r.First + uint64(rapid.IntRange(0, 2).Draw(t, "d")) - 1
				if L-r.First == 0 && r.Second > 2 {
					r.Second = 1
				}
			} else {
				r.Second = pos("len")
			}
		}
	case common.PayloadRangeModeBounds:
		r.First = pos("first")
		switch rapid.IntRange(0, 3).Draw(t, "last-k") {
		case 0:
			r.Second = pos("last")
		case 1:
			r.Second = r.First
		default:
			d := rapid.Uint64Range(0, L+2).Draw(t, "span")
			r.Second = r.First + d
			if r.Second < r.First {
				r.Second = ^uint64(0)
			}
		}
	case common.PayloadRangeModeFrom, common.PayloadRangeModeSuffix:
		r.First = pos("first")
		if r.Mode == common.PayloadRangeModeSuffix && P > 0 && L > uint64(P) && rapid.IntRange(0, 2).Draw(t, "sfx-p") == 0 {
			r.First = L - uint64(P) + uint64(rapid.IntRange(0, 2).Draw(t, "d")) - 1 // suffix starting at the prefix boundary
		}
	}
	return r
}

// variant holds the per-query API knobs.
type variant struct {
	readHeader bool
	intercept  bool
	skipMeta   bool
	bufLen     int
	chunks     []int
}

func genVariant(t *rapid.T) variant {
	return variant{
		readHeader: rapid.Bool().Draw(t, "readHeader"),
		intercept:  rapid.Bool().Draw(t, "intercept"),
		skipMeta:   rapid.Bool().Draw(t, "skipMeta"),
		bufLen:     rapid.SampledFrom([]int{2 * hdrBuf, 2*hdrBuf + 1, 64 << 10, 128 << 10}).Draw(t, "bufLen"),
		chunks: rapid.SliceOfN(rapid.SampledFrom([]int{1, 2, 3, 7, 100, 512, 4096, hdrBuf - 1, hdrBuf, hdrBuf + 1, 1 << 20}), 0, 5).
			Draw(t, "chunks"),
	}
}

// ---------- reading ----------

// readAll drains r using the generated chunk sizes first, then 32 KiB reads.
func readAll(r io.Reader, chunks []int) ([]byte, error) {
	var out []byte
	buf := make([]byte, 32<<10)
	idle := 0
	for i := 0; ; i++ {
		c := 32 << 10
		if i < len(chunks) {
			c = chunks[i]
		}
		if c > len(buf) {
			buf = make([]byte, c)
		}
		n, err := r.Read(buf[:c])
		if n < 0 || n > c {
			return out, fmt.Errorf("Read returned n=%d for a %d-byte buffer", n, c)
		}
		out = append(out, buf[:n]...)
		if err == io.EOF {
			return out, nil
		}
		if err != nil {
			return out, err
		}
		if n == 0 {
			if idle++; idle > 1000 {
				return out, errors.New("stream makes no progress (1000 reads of 0 bytes, nil error)")
			}
		} else {
			idle = 0
		}
		if len(out) > 1<<22 {
			return out, errors.New("stream longer than 4 MiB")
		}
	}
}

// outcome of one API call.
type outcome struct {
	err        error
	data       []byte // payload bytes returned (range APIs) or object binary (full=true)
	full       bool   // data is buf[:n] + rest of the object binary
	hdr        *object.Object
	hdrAsked   bool
	pldLen     uint64
	pldLenSet  bool
	intercepts [][]byte
}

type api struct {
	name     string
	allModes bool // false: offset-length only
	call     func(o *Obj, r Rng, v variant) outcome
}

type layer struct {
	name string
	apis []api
}

func interceptor(v variant, out *outcome) func([]byte) error {
	if !v.intercept {
		return nil
	}
	return func(b []byte) error {
		out.intercepts = append(out.intercepts, bytes.Clone(b))
		return nil
	}
}

func finishStream(out *outcome, s io.ReadCloser, err error, v variant) {
	if err != nil {
		out.err = err
		if s != nil {
			out.err = fmt.Errorf("non-nil stream returned together with error: %w", err)
			_ = s.Close()
		}
		return
	}
	if s == nil {
		out.err = errors.New("nil stream without error")
		return
	}
	out.data, out.err = readAll(s, v.chunks)
	_ = s.Close()
}

// partial mirrors the documented ReadObjectParts rule: a set, non-full range yields range bytes only.
func partial(r Rng) bool {
	switch r.Mode {
	case common.PayloadRangeModeNone:
		return false
	case common.PayloadRangeModeOffsetLength:
		return !(r.First == 0 && r.Second == 0)
	case common.PayloadRangeModeFrom:
		return r.First != 0
	}
	return true
}

func finishParts(out *outcome, buf []byte, n int, s io.ReadCloser, err error, r Rng, v variant) {
	out.full = !partial(r)
	if err != nil {
		out.err = err
		return
	}
	if s == nil {
		out.err = errors.New("nil stream without error")
		return
	}
	rest, err := readAll(s, v.chunks)
	_ = s.Close()
	if err != nil {
		out.err = err
		return
	}
	if n < 0 || n > len(buf) {
		out.err = fmt.Errorf("n=%d outside buffer of %d", n, len(buf))
		return
	}
	if partial(r) {
		out.data = rest
		return
	}
	out.data = append(bytes.Clone(buf[:n]), rest...)
}

type rangeStorage interface {
	GetRangeStream(oid.Address, common.PayloadRange, bool) (*object.Object, uint64, io.ReadCloser, error)
	ReadPayloadRange(oid.Address, uint64, uint64, []byte, func([]byte) error) (io.ReadCloser, error)
	ReadObjectParts([]byte, oid.Address, common.PayloadRange, func([]byte) error) (int, io.ReadCloser, error)
}

func storageLayer(name string, st rangeStorage) layer {
	return layer{name: name, apis: []api{
		{"GetRangeStream", true, func(o *Obj, r Rng, v variant) (out outcome) {
			hdr, pl, s, err := st.GetRangeStream(o.Addr, r.PR(), v.readHeader)
			out.hdr, out.hdrAsked, out.pldLen, out.pldLenSet = hdr, v.readHeader, pl, err == nil
			finishStream(&out, s, err, v)
			return
		}},
		{"ReadPayloadRange", false, func(o *Obj, r Rng, v variant) (out outcome) {
			s, err := st.ReadPayloadRange(o.Addr, r.First, r.Second, make([]byte, v.bufLen), interceptor(v, &out))
			finishStream(&out, s, err, v)
			return
		}},
		{"ReadObjectParts", true, func(o *Obj, r Rng, v variant) (out outcome) {
			buf := make([]byte, v.bufLen)
			n, s, err := st.ReadObjectParts(buf, o.Addr, r.PR(), interceptor(v, &out))
			finishParts(&out, buf, n, s, err, r, v)
			return
		}},
	}}
}

func shardLayer(name string, sh *shard.Shard) layer {
	return layer{name: name, apis: []api{
		{"GetRangeStream", true, func(o *Obj, r Rng, v variant) (out outcome) {
			hdr, pl, s, err := sh.GetRangeStream(o.Addr.Container(), o.Addr.Object(), r.PR(), v.readHeader)
			out.hdr, out.hdrAsked, out.pldLen, out.pldLenSet = hdr, v.readHeader, pl, err == nil
			finishStream(&out, s, err, v)
			return
		}},
		{"ReadRange", false, func(o *Obj, r Rng, v variant) (out outcome) {
			s, err := sh.ReadRange(o.Addr.Container(), o.Addr.Object(), r.First, r.Second, make([]byte, v.bufLen), interceptor(v, &out))
			finishStream(&out, s, err, v)
			return
		}},
		{"GetRangeStreamWithMetadataLookup", true, func(o *Obj, r Rng, v variant) (out outcome) {
			hdr, s, err := sh.GetRangeStreamWithMetadataLookup(o.Addr, r.PR(), v.readHeader, v.skipMeta)
			out.hdr, out.hdrAsked = hdr, v.readHeader
			finishStream(&out, s, err, v)
			return
		}},
		{"ReadObject", true, func(o *Obj, r Rng, v variant) (out outcome) {
			buf := make([]byte, v.bufLen)
			n, s, err := sh.ReadObject(o.Addr, v.skipMeta, r.PR(), buf, interceptor(v, &out))
			finishParts(&out, buf, n, s, err, r, v)
			return
		}},
		{"ReadPayloadRange", false, func(o *Obj, r Rng, v variant) (out outcome) {
			s, err := sh.ReadPayloadRange(o.Addr, r.First, r.Second, v.skipMeta, make([]byte, v.bufLen))
			finishStream(&out, s, err, v)
			return
		}},
	}}
}

func engineLayer(name string, e *engine.StorageEngine) layer {
	ctx := context.Background()
	return layer{name: name, apis: []api{
		{"GetRange", false, func(o *Obj, r Rng, v variant) (out outcome) {
			out.data, out.err = e.GetRange(ctx, o.Addr, r.First, r.Second)
			return
		}},
		{"GetRangeStream", true, func(o *Obj, r Rng, v variant) (out outcome) {
			hdr, s, err := e.GetRangeStream(ctx, o.Addr, r.PR(), v.readHeader)
			out.hdr, out.hdrAsked = hdr, v.readHeader
			finishStream(&out, s, err, v)
			return
		}},
		{"ReadObject", true, func(o *Obj, r Rng, v variant) (out outcome) {
			buf := make([]byte, v.bufLen)
			n, s, err := e.ReadObject(ctx, o.Addr, r.PR(), buf, interceptor(v, &out))
			finishParts(&out, buf, n, s, err, r, v)
			return
		}},
		{"ReadPayloadRange", false, func(o *Obj, r Rng, v variant) (out outcome) {
			s, err := e.ReadPayloadRange(ctx, o.Addr, r.First, r.Second, make([]byte, v.bufLen))
			finishStream(&out, s, err, v)
			return
		}},
	}}
}

// ---------- oracle ----------

func short(b []byte) string {
	if len(b) <= 24 {
		return fmt.Sprintf("%d bytes %x", len(b), b)
	}
	return fmt.Sprintf("%d bytes %x…%x", len(b), b[:12], b[len(b)-8:])
}

func firstDiff(a, b []byte) int {
	n := min(len(a), len(b))
	for i := 0; i < n; i++ {
		if a[i] != b[i] {
			return i
		}
	}
	if len(a) != len(b) {
		return n
	}
	return -1
}

// verify compares one outcome with the reference. It returns a description of the deviation or "".
func verify(o *Obj, r Rng, out outcome) string {
	L := uint64(len(o.Payload))
	off, ln, oor := Ref(r, L)
	if out.full {
		// documented: non-partial ReadObject/ReadObjectParts return the first bytes in buf and the rest as a stream
		if out.err != nil {
			return fmt.Sprintf("full read failed: %v", out.err)
		}
		if d := firstDiff(out.data, o.Bin); d >= 0 {
			return fmt.Sprintf("buf[:n]+stream differs from the object binary at byte %d: got %s, want %s", d, short(out.data), short(o.Bin))
		}
	} else if oor {
		if !errors.Is(out.err, apistatus.ErrObjectOutOfRange) {
			if out.err != nil {
				return fmt.Sprintf("reference says out of range, got another error: %v", out.err)
			}
			return fmt.Sprintf("reference says out of range, got %s", short(out.data))
		}
		return ""
	} else {
		if out.err != nil {
			if errors.Is(out.err, apistatus.ErrObjectOutOfRange) {
				return fmt.Sprintf("reference gives payload[%d:%d], got out of range: %v", off, off+ln, out.err)
			}
			return fmt.Sprintf("reference gives payload[%d:%d], got error: %v", off, off+ln, out.err)
		}
		want := o.Payload[off : off+ln]
		if d := firstDiff(out.data, want); d >= 0 {
			return fmt.Sprintf("reference gives payload[%d:%d] = %s, got %s (first difference at %d)", off, off+ln, short(want), short(out.data), d)
		}
	}
	if out.hdrAsked {
		if out.hdr == nil {
			return "readHeader=true but nil header returned"
		}
		if !bytes.Equal(out.hdr.Marshal(), o.HdrObj) {
			return "returned header differs from the stored object's header"
		}
	}
	if out.pldLenSet && out.pldLen != L {
		return fmt.Sprintf("returned payload length %d, stored %d", out.pldLen, L)
	}
	for _, h := range out.intercepts {
		if !bytes.Equal(h, o.HdrBin) {
			return fmt.Sprintf("intercepted header binary (%d bytes) differs from the stored header field (%d bytes)", len(h), len(o.HdrBin))
		}
	}
	return ""
}

// ---------- world ----------

type world struct {
	dir     string
	layers  []layer
	closers []func()
}

func (w *world) close() {
	for i := len(w.closers) - 1; i >= 0; i-- {
		w.closers[i]()
	}
	_ = os.RemoveAll(w.dir)
}

// rawTree is a handle on an FSTree directory that is never Init-ed: generic writer (one plain file per Put).
func rawTree(dir string) *fstree.FSTree {
	t := fstree.New(fstree.WithPath(dir), fstree.WithDepth(1))
	_ = t.Open(false)
	return t
}

func fatalEnv(format string, a ...any) { ev.Inconclusive("C11 harness: "+format, a...) }

// swapLegacy replaces the blob file of o in dir by its zstd-compressed form, as a
// blob storage written by an older node version would contain it.
func swapLegacy(dir string, o *Obj, combined bool) {
	raw := rawTree(dir)
	if ok, err := raw.Exists(o.Addr); err != nil || !ok {
		fatalEnv("object %s expected in %s: exists=%v err=%v", o.Spec, dir, ok, err)
	}
	if err := raw.Delete(o.Addr); err != nil {
		fatalEnv("delete blob file: %v", err)
	}
	if combined {
		t, err := stor.OpenFSTree(dir)
		if err != nil {
			fatalEnv("reopen blob dir: %v", err)
		}
		if err := t.PutBatch(map[oid.Address][]byte{o.Addr: o.Stored}); err != nil {
			fatalEnv("put legacy combined: %v", err)
		}
		_ = t.Close()
		return
	}
	if err := raw.Put(o.Addr, o.Stored); err != nil {
		fatalEnv("put legacy plain: %v", err)
	}
}

func putAll(objs []*Obj, put func(*Obj) error, what string) {
	for _, o := range objs {
		if err := put(o); err != nil {
			fatalEnv("%s put %s: %v", what, o.Spec, err)
		}
	}
}

// ---------- the property ----------

func TestC11Layers(t *testing.T) {
	rec := ev.New("C11", "layers")
	defer rec.Flush()
	rapid.Check(t, func(t *rapid.T) {
		nObj := rapid.IntRange(1, 3).Draw(t, "nobj")
		ids := rapid.Permutation([]int{0, 1, 2, 3, 4, 5, 6, 7, 8, 9, 10, 11}).Draw(t, "ids")[:nObj]
		objs := make([]*Obj, nObj)
		for i := range objs {
			objs[i] = MkObj(genObjSpec(t, ids[i]))
		}
		nRng := rapid.IntRange(4, 10).Draw(t, "nrng")
		type query struct {
			o *Obj
			r Rng
			v variant
		}
		var qs []query
		for _, o := range objs {
			for i := 0; i < nRng; i++ {
				qs = append(qs, query{o, genRng(t, uint64(len(o.Payload)), o.P), genVariant(t)})
			}
		}
		legacyCombined := rapid.Bool().Draw(t, "legacyCombined")
		flushFirst := rapid.Bool().Draw(t, "engineFlush")

		dir, err := os.MkdirTemp("", "c11-")
		if err != nil {
			fatalEnv("mkdtemp: %v", err)
		}
		w := &world{dir: dir}
		defer w.close()

		anyZ := false
		for _, o := range objs {
			anyZ = anyZ || o.Spec.Compress
		}

		// L1: FSTree, one plain file per object (stored plain or legacy-compressed)
		fsPlain, err := stor.OpenFSTree(filepath.Join(dir, "fs-plain"), fstree.WithCombinedCountLimit(1))
		if err != nil {
			fatalEnv("open fstree: %v", err)
		}
		w.closers = append(w.closers, func() { _ = fsPlain.Close() })
		putAll(objs, func(o *Obj) error { return fsPlain.Put(o.Addr, o.Stored) }, "fs-plain")
		w.layers = append(w.layers, storageLayer("fstree-plain", fsPlain))

		// L2: FSTree, all objects of the case in one combined file
		fsComb, err := stor.OpenFSTree(filepath.Join(dir, "fs-comb"))
		if err != nil {
			fatalEnv("open fstree: %v", err)
		}
		w.closers = append(w.closers, func() { _ = fsComb.Close() })
		batch := map[oid.Address][]byte{}
		for _, o := range objs {
			batch[o.Addr] = o.Stored
		}
		if err := fsComb.PutBatch(batch); err != nil {
			fatalEnv("PutBatch: %v", err)
		}
		w.layers = append(w.layers, storageLayer("fstree-combined", fsComb))

		// L3: stand-alone write-cache over an FSTree
		wcBack, err := stor.OpenFSTree(filepath.Join(dir, "wc-back"))
		if err != nil {
			fatalEnv("open fstree: %v", err)
		}
		w.closers = append(w.closers, func() { _ = wcBack.Close() })
		wc := writecache.New(writecache.WithPath(filepath.Join(dir, "wc")), writecache.WithStorage(wcBack), writecache.WithLogger(zap.NewNop()))
		if err := wc.Open(false); err != nil {
			fatalEnv("open write-cache: %v", err)
		}
		if err := wc.Init(common.ID{}); err != nil {
			fatalEnv("init write-cache: %v", err)
		}
		w.closers = append(w.closers, func() { _ = wc.Close() })
		putAll(objs, func(o *Obj) error { return wc.Put(o.Addr, o.O, o.Bin) }, "write-cache")
		w.layers = append(w.layers, storageLayer("writecache", wc))

		// L4: shard with write-cache: resident now, flushed (and legacy-swapped) in the second pass
		shDir := filepath.Join(dir, "shard")
		sh, err := stor.OpenShard(stor.ShardCfg{Dir: shDir, WriteCache: true})
		if err != nil {
			fatalEnv("open shard: %v", err)
		}
		w.closers = append(w.closers, func() { _ = sh.Close() })
		putAll(objs, func(o *Obj) error { return sh.Put(o.O, nil) }, "shard")
		w.layers = append(w.layers, shardLayer("shard-wc", sh))

		// L5: engine with two shards: A without write-cache and plain blob files, B with write-cache
		eng, err := stor.OpenEngine([]stor.ShardCfg{
			{Dir: filepath.Join(dir, "engA"), FSTOpts: []fstree.Option{fstree.WithCombinedCountLimit(1)}},
			{Dir: filepath.Join(dir, "engB"), WriteCache: true},
		})
		if err != nil {
			fatalEnv("open engine: %v", err)
		}
		w.closers = append(w.closers, func() { _ = eng.E.Close() })
		putAll(objs, func(o *Obj) error { return eng.E.Put(context.Background(), o.O, nil) }, "engine")
		if flushFirst {
			if err := eng.E.FlushWriteCache(eng.IDs[1]); err != nil {
				fatalEnv("engine flush: %v", err)
			}
		}
		w.layers = append(w.layers, engineLayer("engine", eng.E))

		wcRaw := rawTree(stor.WCDir(shDir))
		run := func(pass string, only func(*Obj) bool) {
			for _, q := range qs {
				if only != nil && !only(q.o) {
					continue
				}
				for _, l := range w.layers {
					for _, a := range l.apis {
						if !a.allModes && q.r.Mode != common.PayloadRangeModeOffsetLength {
							continue
						}
						out := a.call(q.o, q.r, q.v)
						if l.name == "writecache" && errors.Is(out.err, apistatus.ErrObjectNotFound) {
							// background flush (1 s ticker) moved it to the backing storage meanwhile
							if ok, _ := wcBack.Exists(q.o.Addr); ok {
								rec.Label("wc-raced-flush")
								continue
							}
						}
						rec.Label("q:" + l.name + "/" + a.name)
						if msg := verify(q.o, q.r, out); msg != "" {
							t.Fatalf("%s %s.%s(%s) on object %s [pass %s, prefix boundary P=%d, variant %+v]:\n  %s",
								pass, l.name, a.name, q.r, q.o.Spec, pass, q.o.P, q.v, msg)
						}
					}
				}
			}
		}
		resident := 0
		for _, o := range objs {
			if ok, _ := wcRaw.Exists(o.Addr); ok {
				resident++
			}
		}
		rec.LabelN("shard-wc-resident-objects", int64(resident))
		run("resident", nil)

		// second pass: flush the shard's write-cache; swap legacy compressed forms into blob storages
		if err := sh.FlushWriteCache(false); err != nil {
			fatalEnv("flush: %v", err)
		}
		if err := wc.Flush(false); err != nil {
			fatalEnv("wc flush: %v", err)
		}
		for _, o := range objs {
			if ok, _ := wcRaw.Exists(o.Addr); ok {
				fatalEnv("object still in write-cache after flush")
			}
		}
		swapped := 0
		for _, o := range objs {
			if !o.Spec.Compress {
				continue
			}
			swapLegacy(stor.BlobDir(shDir), o, legacyCombined)
			for _, d := range []string{"engA", "engB"} {
				bd := stor.BlobDir(filepath.Join(dir, d))
				if ok, _ := rawTree(bd).Exists(o.Addr); ok {
					if okWC, _ := rawTree(stor.WCDir(filepath.Join(dir, d))).Exists(o.Addr); !okWC {
						swapLegacy(bd, o, legacyCombined)
						swapped++
					}
				}
			}
		}
		rec.LabelN("engine-legacy-swapped", int64(swapped))
		// the stand-alone write-cache is empty now: drop that layer, keep the rest
		var ls []layer
		for _, l := range w.layers {
			if l.name == "writecache" {
				l = storageLayer("writecache-backing", wcBack)
			}
			if l.name == "fstree-plain" || l.name == "fstree-combined" {
				continue // unchanged since the first pass
			}
			ls = append(ls, l)
		}
		w.layers = ls
		run("flushed", nil)

		// bookkeeping: one evidence case per (object, range)
		for _, q := range qs {
			L := uint64(len(q.o.Payload))
			cls := boundaryClass(q.r, L, q.o.P)
			form := "plain"
			if q.o.Spec.Compress {
				form = "zstd"
			}
			size := "fits-first-read"
			if q.o.P < int64(L) {
				size = "streamed"
			}
			_, _, oor := Ref(q.r, L)
			lbls := []string{"mode-" + modeNames[q.r.Mode], "form-" + form, "size-" + size}
			if oor {
				lbls = append(lbls, "ref-oor")
			} else {
				lbls = append(lbls, "ref-ok")
			}
			for _, c := range strings.Split(cls, "+") {
				if c != "" {
					lbls = append(lbls, "b:"+c)
				}
			}
			if off, _, oor := Ref(q.r, L); !oor && partial(q.r) && q.o.Spec.Compress && len(q.o.Stored) < hdrBuf &&
				len(q.o.Bin) > q.v.bufLen && int(off) > q.v.bufLen-(len(q.o.Bin)-len(q.o.Payload)) {
				// small legacy compressed file that decompresses beyond the caller's buffer, range starts beyond the buffer
				lbls = append(lbls, "cls:small-zstd-range-beyond-buffer")
			}
			rec.Case(cls != "", modeNames[q.r.Mode]+"|"+cls+"|"+form+"|"+size, lbls...)
		}
		if rec.WantSample() {
			var s []string
			for _, q := range qs[:min(len(qs), 6)] {
				s = append(s, q.o.Spec.String()+" "+q.r.String())
			}
			rec.Sample(s)
		}
		if anyZ {
			rec.Label("case-has-compressed")
		}
	})
}

package c11

import (
	"io"
	"os"
	"testing"

	"github.com/nspcc-dev/neofs-node/pkg/local_object_storage/blobstor/common"
	"github.com/nspcc-dev/neofs-node/verifharness/stor"
)

// TestC11ReproSeekEOF is the minimal reproduction of finding
// C11:readobjectparts-seek-eof-legacy-compressed (fixed in /repo 21ecd34), kept
// as a plain regression test: ./vgo test -run TestC11ReproSeekEOF -v ./c11/
func TestC11ReproSeekEOF(t *testing.T) {
	dir, _ := os.MkdirTemp("", "c11-repro-")
	defer os.RemoveAll(dir)
	fst, err := stor.OpenFSTree(dir)
	if err != nil {
		t.Fatal(err)
	}
	defer fst.Close()
	o := MkObj(ObjSpec{ID: 0, Len: 50000, Compress: true, Repetitive: true})
	t.Logf("stored zstd file: %d bytes, object binary: %d bytes", len(o.Stored), len(o.Bin))
	if err := fst.Put(o.Addr, o.Stored); err != nil {
		t.Fatal(err)
	}
	buf := make([]byte, 2*hdrBuf)
	for _, off := range []uint64{40000, 45000} {
		n, s, err := fst.ReadObjectParts(buf, o.Addr, common.NewPayloadRange(off, 10), nil)
		if err != nil {
			t.Errorf("ReadObjectParts(off=%d,len=10): n=%d err=%v", off, n, err)
			continue
		}
		b, _ := io.ReadAll(s)
		s.Close()
		t.Logf("ReadObjectParts(off=%d,len=10): ok %x (want %x)", off, b, o.Payload[off:off+10])
	}
}

package stor_test

import (
	"crypto/sha256"
	"os"
	"testing"
	"time"

	"github.com/nspcc-dev/neofs-node/verifharness/bubble"
	"github.com/nspcc-dev/neofs-node/verifharness/stor"
	"github.com/nspcc-dev/neofs-sdk-go/checksum"
	cid "github.com/nspcc-dev/neofs-sdk-go/container/id"
	"github.com/nspcc-dev/neofs-sdk-go/object"
	oid "github.com/nspcc-dev/neofs-sdk-go/object/id"
	"github.com/nspcc-dev/neofs-sdk-go/user"
	"github.com/nspcc-dev/neofs-sdk-go/version"
	"pgregory.net/rapid"
)

func mkObj(n byte, payload []byte) *object.Object {
	var c cid.ID
	c[0] = 1
	var o oid.ID
	o[0] = n
	owner := user.NewFromScriptHash([20]byte{1, 2, 3})
	obj := object.New(c, owner)
	obj.SetID(o)
	v := version.Current()
	obj.SetVersion(&v)
	obj.SetPayload(payload)
	obj.SetPayloadSize(uint64(len(payload)))
	obj.SetPayloadChecksum(checksum.NewSHA256(sha256.Sum256(payload)))
	return obj
}

// Smoke test: shard + write-cache inside a synctest bubble under rapid.
func TestSmokeShardBubble(t *testing.T) {
	bubble.Check(t, func(t *rapid.T) {
		n := rapid.IntRange(1, 5).Draw(t, "n")
		dir, err := os.MkdirTemp("", "smoke")
		if err != nil {
			t.Fatal(err)
		}
		defer os.RemoveAll(dir)
		ep := &stor.Epoch{}
		sh, err := stor.OpenShard(stor.ShardCfg{Dir: dir, Epoch: ep, WriteCache: true})
		if err != nil {
			t.Fatal(err)
		}
		defer sh.Close()
		for i := 0; i < n; i++ {
			if err := sh.Put(mkObj(byte(i+1), []byte{1, 2, 3, byte(i)}), nil); err != nil {
				t.Fatal(err)
			}
		}
		time.Sleep(30 * time.Second)
		if os.Getenv("SMOKE_FAIL") != "" && n >= 3 {
			t.Fatalf("deliberate failure n=%d", n)
		}
		for i := 0; i < n; i++ {
			o := mkObj(byte(i+1), nil)
			got, err := sh.Get(o.Address(), false)
			if err != nil {
				t.Fatalf("get %d: %v", i, err)
			}
			if len(got.Payload()) != 4 {
				t.Fatalf("payload %v", got.Payload())
			}
		}
		sh.VerifNewEpoch(3)
		sh.VerifGCPass()
	})
}

// Package stor builds real neofs-node storage components (FSTree, metabase,
// write-cache, shard, engine) on temp directories for the /verif property
// tests: mutable epoch source, no-op loggers, GC remover interval of 1 hour
// (GC passes are triggered explicitly through the shard export shim
// VerifGCPass / VerifNewEpoch compiled in with -tags verif), bbolt batch
// delay 1µs.
//
// Nothing here draws random values; callers pass everything explicitly.
package stor

import (
	"path/filepath"
	"sync/atomic"
	"time"

	"github.com/nspcc-dev/neofs-node/pkg/local_object_storage/blobstor/common"
	"github.com/nspcc-dev/neofs-node/pkg/local_object_storage/blobstor/fstree"
	"github.com/nspcc-dev/neofs-node/pkg/local_object_storage/engine"
	meta "github.com/nspcc-dev/neofs-node/pkg/local_object_storage/metabase"
	"github.com/nspcc-dev/neofs-node/pkg/local_object_storage/shard"
	"github.com/nspcc-dev/neofs-node/pkg/local_object_storage/writecache"
	cid "github.com/nspcc-dev/neofs-sdk-go/container/id"
	"go.uber.org/zap"
)

// Epoch is a mutable epoch source implementing meta.EpochState.
type Epoch struct{ v atomic.Uint64 }

// CurrentEpoch implements meta.EpochState.
func (e *Epoch) CurrentEpoch() uint64 { return e.v.Load() }

// Set sets the epoch.
func (e *Epoch) Set(v uint64) { e.v.Store(v) }

// Add advances the epoch and returns the new value.
func (e *Epoch) Add(d uint64) uint64 { return e.v.Add(d) }

// Payments is a scriptable shard.ContainerPayments.
type Payments struct {
	Disabled bool
	// Since maps container → unpaid-since epoch; missing = paid (-1).
	Since map[cid.ID]int64
	// Err maps container → error returned by UnpaidSince.
	Err map[cid.ID]error
}

// PaymentsDisabled implements shard.ContainerPayments.
func (p *Payments) PaymentsDisabled() bool { return p == nil || p.Disabled }

// UnpaidSince implements shard.ContainerPayments.
func (p *Payments) UnpaidSince(c cid.ID) (int64, error) {
	if p == nil {
		return -1, nil
	}
	if err := p.Err[c]; err != nil {
		return 0, err
	}
	if v, ok := p.Since[c]; ok {
		return v, nil
	}
	return -1, nil
}

// FSTree returns a new (not opened) FSTree rooted at dir.
func FSTree(dir string, opts ...fstree.Option) *fstree.FSTree {
	return fstree.New(append([]fstree.Option{fstree.WithPath(dir), fstree.WithDepth(1)}, opts...)...)
}

// OpenFSTree returns an opened and initialised read-write FSTree.
func OpenFSTree(dir string, opts ...fstree.Option) (*fstree.FSTree, error) {
	t := FSTree(dir, opts...)
	if err := t.Open(false); err != nil {
		return nil, err
	}
	if err := t.Init(common.ID{}); err != nil {
		_ = t.Close()
		return nil, err
	}
	return t, nil
}

// MetaOpts returns the standard metabase options for file path p.
func MetaOpts(p string, ep *Epoch, extra ...meta.Option) []meta.Option {
	return append([]meta.Option{
		meta.WithPath(p),
		meta.WithPermissions(0o700),
		meta.WithEpochState(ep),
		meta.WithLogger(zap.NewNop()),
		meta.WithMaxBatchDelay(time.Microsecond),
	}, extra...)
}

// OpenMeta returns an opened and initialised read-write metabase at file p.
func OpenMeta(p string, ep *Epoch, extra ...meta.Option) (*meta.DB, error) {
	db := meta.New(MetaOpts(p, ep, extra...)...)
	if err := db.Open(false); err != nil {
		return nil, err
	}
	if err := db.Init(common.ID{}); err != nil {
		_ = db.Close()
		return nil, err
	}
	return db, nil
}

// ShardCfg describes a shard to build. Directory layout under Dir:
// blob/ (FSTree unless Blob is given), meta (bbolt file), wc/ (write-cache).
type ShardCfg struct {
	Dir        string
	Epoch      *Epoch
	WriteCache bool
	WCOpts     []writecache.Option
	// Blob overrides the blob storage (e.g. a faultstore wrapper). nil = FSTree(Dir/blob).
	Blob     common.Storage
	FSTOpts  []fstree.Option
	MetaOpts []meta.Option
	Payments *Payments
	// GCInterval of the background remover; 0 = 1 hour (effectively off).
	GCInterval time.Duration
	// RemoverBatch is the GC batch size; 0 = default (100).
	RemoverBatch int
	Extra        []shard.Option
}

// BlobDir, MetaPath, WCDir return the component locations of a shard dir.
func BlobDir(dir string) string  { return filepath.Join(dir, "blob") }
func MetaPath(dir string) string { return filepath.Join(dir, "meta") }
func WCDir(dir string) string    { return filepath.Join(dir, "wc") }

// ShardOpts converts c into shard options (used directly with engine.AddShard).
func ShardOpts(c ShardCfg) []shard.Option {
	if c.Epoch == nil {
		c.Epoch = &Epoch{}
	}
	blob := c.Blob
	if blob == nil {
		blob = FSTree(BlobDir(c.Dir), c.FSTOpts...)
	}
	gci := c.GCInterval
	if gci == 0 {
		gci = time.Hour
	}
	if c.Payments == nil {
		c.Payments = &Payments{Disabled: true}
	}
	opts := []shard.Option{
		shard.WithLogger(zap.NewNop()),
		shard.WithBlobstor(blob),
		shard.WithMetaBaseOptions(MetaOpts(MetaPath(c.Dir), c.Epoch, c.MetaOpts...)...),
		shard.WithWriteCache(c.WriteCache),
		shard.WithWriteCacheOptions(append([]writecache.Option{
			writecache.WithLogger(zap.NewNop()),
			writecache.WithPath(WCDir(c.Dir)),
		}, c.WCOpts...)...),
		shard.WithGCRemoverSleepInterval(gci),
		shard.WithContainerPayments(c.Payments),
	}
	if c.RemoverBatch > 0 {
		opts = append(opts, shard.WithRemoverBatchSize(c.RemoverBatch))
	}
	return append(opts, c.Extra...)
}

// OpenShard builds, opens and initialises a shard.
func OpenShard(c ShardCfg) (*shard.Shard, error) {
	s := shard.New(ShardOpts(c)...)
	if err := s.Open(); err != nil {
		return nil, err
	}
	if err := s.Init(); err != nil {
		_ = s.Close()
		return nil, err
	}
	return s, nil
}

// Engine is an engine with its shards' IDs in creation order.
type Engine struct {
	E   *engine.StorageEngine
	IDs []common.ID
}

// OpenEngine builds an engine with one shard per cfg and initialises it. The
// engine wires its own expired-objects callback into every shard (as in the node).
func OpenEngine(cfgs []ShardCfg, eopts ...engine.Option) (*Engine, error) {
	e := engine.New(append([]engine.Option{engine.WithLogger(zap.NewNop())}, eopts...)...)
	res := &Engine{E: e}
	for _, c := range cfgs {
		id, err := e.AddShard(ShardOpts(c)...)
		if err != nil {
			_ = e.Close()
			return nil, err
		}
		res.IDs = append(res.IDs, id)
	}
	if err := e.Init(); err != nil {
		_ = e.Close()
		return nil, err
	}
	return res, nil
}

// Package fsobj builds the small deterministic object universe used by the
// FSTree checks (C10, C12, C13): real encoded NeoFS objects (header + payload)
// addressed by index, with sizes aimed at the combined-file threshold and at
// multiples of the 20 KiB header buffer, optionally stored zstd-compressed
// (legacy on-disk form that FSTree still has to read).
//
// Everything is a pure function of Spec, so that a helper process and the
// verifying test process derive identical bytes from the same JSON spec.
// No global randomness: filler bytes come from a xorshift generator seeded
// by Spec.Seed (drawn by rapid in the caller).
package fsobj

import (
	"bytes"
	"encoding/binary"
	"fmt"
	"sync"

	"github.com/klauspost/compress/zstd"
	"github.com/nspcc-dev/neo-go/pkg/util"
	cid "github.com/nspcc-dev/neofs-sdk-go/container/id"
	"github.com/nspcc-dev/neofs-sdk-go/object"
	oid "github.com/nspcc-dev/neofs-sdk-go/object/id"
	"github.com/nspcc-dev/neofs-sdk-go/user"
)

// Spec describes one object of the universe.
type Spec struct {
	Idx        int    `json:"i"` // index in the universe (decides the address together with Seed)
	Seed       uint64 `json:"s"` // universe seed
	Payload    int    `json:"p"` // payload length in bytes (0 = object without payload)
	AttrLen    int    `json:"a"` // length of one big attribute value (0 = none); makes the header large
	Compress   bool   `json:"z"` // stored form is zstd(Marshal()) – legacy compressed file
	Repetitive bool   `json:"r"` // payload is highly compressible
	Cnr        int    `json:"c"` // container index (few containers)
}

// Obj is a generated object.
type Obj struct {
	Spec   Spec
	Addr   oid.Address
	Object *object.Object
	Plain  []byte // canonical binary (what every read API must return)
	Stored []byte // bytes handed to Put (== Plain unless Spec.Compress)
	Header []byte // CutPayload().Marshal()
	HdrEnd int    // offset in Plain just after the header field (0 when there is no header field)
}

type xs uint64

func (x *xs) next() uint64 {
	v := uint64(*x)
	if v == 0 {
		v = 0x9E3779B97F4A7C15
	}
	v ^= v << 13
	v ^= v >> 7
	v ^= v << 17
	*x = xs(v)
	return v
}

func (x *xs) fill(b []byte) {
	var w [8]byte
	for i := 0; i < len(b); i += 8 {
		binary.LittleEndian.PutUint64(w[:], x.next())
		copy(b[i:], w[:])
	}
}

var (
	encOnce sync.Once
	enc     *zstd.Encoder
)

// Compress returns the zstd frame the old node versions stored (EncodeAll with default options).
func Compress(data []byte) []byte {
	encOnce.Do(func() {
		var err error
		enc, err = zstd.NewWriter(nil, zstd.WithEncoderConcurrency(1))
		if err != nil {
			panic(err)
		}
	})
	return enc.EncodeAll(data, nil)
}

// ID returns the deterministic object ID of (seed, idx).
func ID(seed uint64, idx int) oid.ID {
	var id oid.ID
	g := xs(seed*0x9E3779B97F4A7C15 + uint64(idx)*0xD1B54A32D192ED03 + 1)
	g.next()
	g.fill(id[:])
	if id.IsZero() {
		id[0] = 1
	}
	return id
}

// CID returns the deterministic container ID of (seed, c).
func CID(seed uint64, c int) cid.ID {
	var id cid.ID
	g := xs(seed*0xC2B2AE3D27D4EB4F + uint64(c)*0x165667B19E3779F9 + 7)
	g.next()
	g.fill(id[:])
	if id.IsZero() {
		id[0] = 1
	}
	return id
}

// Make builds the object described by s.
func Make(s Spec) *Obj {
	g := xs(s.Seed ^ (uint64(s.Idx)+1)*0x9E3779B97F4A7C15)
	g.next()
	var sh util.Uint160
	g.fill(sh[:])
	owner := user.NewFromScriptHash(sh)
	o := object.New(CID(s.Seed, s.Cnr), owner)
	o.SetID(ID(s.Seed, s.Idx))
	o.SetCreationEpoch(uint64(s.Idx) + 1)
	attrs := []object.Attribute{object.NewAttribute("idx", fmt.Sprint(s.Idx))}
	if s.AttrLen > 0 {
		v := make([]byte, s.AttrLen)
		for i := range v {
			v[i] = 'a' + byte(g.next()%26)
		}
		attrs = append(attrs, object.NewAttribute("big", string(v)))
	}
	o.SetAttributes(attrs...)
	if s.Payload > 0 {
		p := make([]byte, s.Payload)
		if s.Repetitive {
			pat := make([]byte, 1+g.next()%29)
			g.fill(pat)
			for i := range p {
				p[i] = pat[i%len(pat)]
			}
		} else {
			g.fill(p)
		}
		o.SetPayload(p)
	}
	o.SetPayloadSize(uint64(s.Payload))
	r := &Obj{Spec: s, Addr: o.Address(), Object: o}
	r.Plain = o.Marshal()
	r.Header = o.CutPayload().Marshal()
	r.HdrEnd = len(r.Header)
	r.Stored = r.Plain
	if s.Compress {
		r.Stored = Compress(r.Plain)
	}
	// self-check of the generator: canonical encoding must round-trip, otherwise the oracle
	// "Get(...).Marshal() == stored bytes" would be wrong
	var back object.Object
	if err := back.Unmarshal(r.Plain); err != nil || !bytes.Equal(back.Marshal(), r.Plain) {
		panic(fmt.Sprintf("fsobj: generated object %+v does not round-trip: %v", s, err))
	}
	if !bytes.HasPrefix(r.Plain, r.Header) {
		panic("fsobj: header binary is not a prefix of the object binary")
	}
	return r
}

package fsobj

import (
	"encoding/binary"
	"os"
	"path/filepath"
	"syscall"

	oid "github.com/nspcc-dev/neofs-sdk-go/object/id"
)

// Constants of the documented combined file format (fstree/doc.go).
const (
	CombinedPrefix  = 0x7f
	CombinedHdrLen  = 2 + 32 + 4
	HeaderBufferLen = 20 << 10 // internal/object.NonPayloadFieldsBufferLength
)

// TreePath computes the documented location of an object file: Depth one-character
// directories taken from "<OID>.<CID>" and the rest as the file name (fstree/doc.go).
func TreePath(root string, depth int, addr oid.Address) string {
	s := addr.Object().EncodeToString() + "." + addr.Container().EncodeToString()
	parts := []string{root}
	for i := 0; i < depth; i++ {
		parts = append(parts, s[:1])
		s = s[1:]
	}
	parts = append(parts, s)
	return filepath.Join(parts...)
}

// Inode returns (inode, nlink) of a path, ok=false when it does not exist.
func Inode(p string) (ino uint64, nlink uint64, ok bool) {
	var st syscall.Stat_t
	if err := syscall.Stat(p, &st); err != nil {
		return 0, 0, false
	}
	return st.Ino, uint64(st.Nlink), true
}

// Entry is one member of a combined file.
type Entry struct {
	ID  oid.ID
	Off int64 // offset of the member's combined prefix
	Len int64 // data length
}

// Layout parses a raw file; combined=false when the file does not start with the combined prefix.
// ok=false when the combined structure is malformed (e.g. truncated).
func Layout(p string) (entries []Entry, size int64, combined bool, ok bool) {
	b, err := os.ReadFile(p)
	if err != nil {
		return nil, 0, false, false
	}
	size = int64(len(b))
	if len(b) < CombinedHdrLen || b[0] != CombinedPrefix || b[1] != 0 {
		return nil, size, false, true
	}
	var off int64
	for off < size {
		if size-off < CombinedHdrLen || b[off] != CombinedPrefix || b[off+1] != 0 {
			return entries, size, true, false
		}
		var e Entry
		copy(e.ID[:], b[off+2:off+34])
		e.Off = off
		e.Len = int64(binary.BigEndian.Uint32(b[off+34 : off+38]))
		if off+CombinedHdrLen+e.Len > size {
			return entries, size, true, false
		}
		entries = append(entries, e)
		off += CombinedHdrLen + e.Len
	}
	return entries, size, true, true
}

// ScanClass classifies how a buffered front-to-back scan with a 20 KiB refill
// (the strategy documented for header reads: read 20 KiB, walk prefixes, refill
// when fewer than one prefix remains) meets member k of a combined file:
//
//	split   – the member's 38-byte prefix is cut by a buffer refill
//	extend  – the first hdrLen bytes of the member (its header) are not completely
//	          inside the buffer that holds its prefix, so the header itself is cut by
//	          the buffer end and more bytes must be read
//	refills – number of refills before the member is reached
//
// It is used for labelling generated cases only, never as an oracle.
func ScanClass(entries []Entry, size int64, k int, hdrLen int64) (split, extend bool, refills int) {
	const B = HeaderBufferLen
	pos := min(int64(B), size) // file position (bytes consumed from the file)
	n := pos                   // valid bytes in buffer
	offset := int64(CombinedHdrLen)
	for i := range entries {
		l := entries[i].Len
		if i == k {
			sz := min(offset+l, offset+hdrLen)
			return split, n < sz, refills
		}
		offset += l
		split = false
		if n-offset < CombinedHdrLen {
			if offset > n {
				pos += offset - n
			} else if offset < n {
				split = true
			}
			left := n - min(offset, n)
			k2 := min(int64(B), size-pos)
			if k2 < 0 {
				k2 = 0
			}
			pos += k2
			n = left + k2
			offset = 0
			refills++
		}
		offset += CombinedHdrLen
	}
	return false, false, refills
}

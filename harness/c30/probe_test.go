package c30

import (
	"context"
	"testing"

	"github.com/google/uuid"
	"github.com/nspcc-dev/neofs-sdk-go/container"
	"github.com/nspcc-dev/neofs-sdk-go/netmap"
	oid "github.com/nspcc-dev/neofs-sdk-go/object/id"
	"github.com/nspcc-dev/neofs-sdk-go/session"
)

func testContainer(owner actor) container.Container {
	var c container.Container
	c.Init()
	c.SetOwner(owner.id)
	var pp netmap.PlacementPolicy
	pp.SetReplicas([]netmap.ReplicaDescriptor{{}})
	if err := pp.DecodeString("REP 1"); err != nil {
		panic(err)
	}
	c.SetPlacementPolicy(pp)
	return c
}

func TestProbeSharedCache(t *testing.T) {
	w := newWorld(1024)
	w.cnrs.m[cnrs[0]] = testContainer(actors[0])
	st := new(recStore)
	ps := newPutSvc(w, st)

	var tok session.Object
	tok.SetID(uuid.MustParse("6ba7b810-9dad-41d1-80b4-00c04fd430c8"))
	tok.ForVerb(session.VerbObjectPut)
	tok.BindContainer(cnrs[0])
	tok.SetIat(4)
	tok.SetNbf(4)
	tok.SetExp(5)
	tok.SetAuthKey(signerFor(actors[1], schemes[0]).Public())
	if err := tok.Sign(signerFor(actors[0], schemes[0])); err != nil {
		t.Fatal(err)
	}
	w.newEpoch(7)

	_, err := w.svc.VerifySessionV1TokenMessage(tok.ProtoMessage(), session.VerbObjectPut, cnrs[0], oid.ID{})
	t.Logf("fresh verify of expired token: %v", err)

	w.newEpoch(7)
	obj, err := sessionObject(cnrs[0], actors[1], &tok, nil, 5, []byte("hello"))
	if err != nil {
		t.Fatal(err)
	}
	err = ps.ValidateAndStoreObjectLocally(context.Background(), obj)
	t.Logf("store object with expired token: %v (puts=%d)", err, st.puts)

	_, err = w.svc.VerifySessionV1TokenMessage(tok.ProtoMessage(), session.VerbObjectPut, cnrs[0], oid.ID{})
	t.Logf("verify of expired token after object validation: %v", err)

	// reverse direction
	w.newEpoch(7)
	_, err = w.svc.VerifySessionV1TokenMessage(tok.ProtoMessage(), session.VerbObjectPut, cnrs[0], oid.ID{})
	t.Logf("verify of expired token: %v", err)
	err = ps.ValidateAndStoreObjectLocally(context.Background(), obj)
	t.Logf("store object with expired token after request: %v (puts=%d)", err, st.puts)
}

package c30

// A real putsvc.Service sharing the ObjectSessionsCache with the ACL service,
// wired like cmd/neofs-node/object.go does (putsvc.WithSessionsCache(cache) and
// aclsvc.New(fsChain, cache, ...)). Its ValidateAndStoreObjectLocally is what
// Server.Replicate and local PUT call for a prepared object.

import (
	"context"
	"errors"
	"sync"

	putsvc "github.com/nspcc-dev/neofs-node/pkg/services/object/put"
	cid "github.com/nspcc-dev/neofs-sdk-go/container/id"
	"github.com/nspcc-dev/neofs-sdk-go/object"
	oid "github.com/nspcc-dev/neofs-sdk-go/object/id"
	"github.com/nspcc-dev/neofs-sdk-go/session"
	sessionv2 "github.com/nspcc-dev/neofs-sdk-go/session/v2"
	"github.com/nspcc-dev/neofs-sdk-go/version"
	"go.uber.org/zap"
)

type recStore struct {
	mu   sync.Mutex
	puts int
}

func (s *recStore) Put(context.Context, *object.Object, []byte) error {
	s.mu.Lock()
	s.puts++
	s.mu.Unlock()
	return nil
}
func (s *recStore) IsLocked(context.Context, oid.Address) (bool, error) { return false, nil }

type fakeNeoFSNet struct{}

func (fakeNeoFSNet) GetContainerNodes(cid.ID) (putsvc.ContainerNodes, error) {
	return nil, errors.New("verif: unexpected GetContainerNodes")
}
func (fakeNeoFSNet) IsLocalNodePublicKey([]byte) bool { return false }
func (fakeNeoFSNet) GetEpochBlock(uint64) (uint32, error) {
	return 0, errors.New("verif: N3 witnesses are not modelled")
}
func (fakeNeoFSNet) GetEpochBlockByTime(uint32) (uint32, error) {
	return 0, errors.New("verif: N3 witnesses are not modelled")
}

type netState struct{ nm *fakeNetmapper }

func (s netState) CurrentEpoch() uint64         { return s.nm.epoch.Load() }
func (s netState) CurrentBlock() uint32         { return 1 }
func (s netState) CurrentEpochDuration() uint64 { return 240 }

type maxSize uint64

func (m maxSize) MaxObjectSize() uint64 { return uint64(m) }

func newPutSvc(w *world, st *recStore) *putsvc.Service {
	return putsvc.NewService(nil, fakeNeoFSNet{}, nil, nil, nil,
		putsvc.WithMaxSizeSource(maxSize(1<<20)),
		putsvc.WithObjectStorage(st),
		putsvc.WithContainerSource(w.cnrs),
		putsvc.WithNetworkState(netState{w.nm}),
		putsvc.WithSessionsCache(w.cache),
		putsvc.WithLogger(zap.NewNop()),
	)
}

// sessionObject builds a complete, valid REGULAR object created within a
// session: signed by the session key holder, carrying the token in its header.
func sessionObject(cnr cid.ID, objSigner actor, v1 *session.Object, v2 *sessionv2.Token, creationEpoch uint64, payload []byte) (object.Object, error) {
	var owner = objSigner.id
	if v1 != nil {
		owner = v1.Issuer()
	}
	if v2 != nil {
		owner = v2.OriginalIssuer()
	}
	obj := object.New(cnr, owner)
	ver := version.Current()
	obj.SetVersion(&ver)
	obj.SetCreationEpoch(creationEpoch)
	obj.SetType(object.TypeRegular)
	obj.SetPayload(payload)
	obj.SetPayloadSize(uint64(len(payload)))
	obj.CalculateAndSetPayloadChecksum()
	if v1 != nil {
		obj.SetSessionToken(v1)
	}
	if v2 != nil {
		obj.SetSessionTokenV2(v2)
	}
	if err := obj.SetVerificationFields(signerFor(objSigner, schemes[1])); err != nil {
		return object.Object{}, err
	}
	return *obj, nil
}

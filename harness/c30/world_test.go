// Package c30 decides property C30: a session (v1, v2) or bearer token is
// honoured by the object ACL service only when it is correctly signed by its
// issuer, within its validity period, and applicable to the request's
// container, object and operation; changing any signed field makes it rejected.
//
// Reach: aclsvc.Service.VerifySessionV1TokenMessage / VerifySessionTokenMessage /
// VerifyBearerTokenMessage / *RequestToInfo (bearer-vs-request relation) and
// icrypto.AuthenticateToken(V2), all through exported API with offline fakes.
// The session cache (internal/sessions) is shared with a real
// putsvc.Service.ValidateAndStoreObjectLocally in the shared-cache test exactly
// as cmd/neofs-node wires it.
//
// Oracle: independent reference predicates written from the property statement,
// the NeoFS API documentation of the token fields (SDK doc comments), and the
// verb relation table of the NeoFS spec (HEAD by GET/DELETE/RANGE tokens,
// SEARCH by DELETE tokens).
package c30

import (
	"crypto/ecdsa"
	"crypto/elliptic"
	"crypto/sha256"
	"errors"
	"fmt"
	"math/big"
	"sync/atomic"
	"time"

	"github.com/nspcc-dev/neo-go/pkg/core/block"
	"github.com/nspcc-dev/neo-go/pkg/core/transaction"
	"github.com/nspcc-dev/neo-go/pkg/neorpc/result"
	"github.com/nspcc-dev/neo-go/pkg/smartcontract/trigger"
	"github.com/nspcc-dev/neo-go/pkg/util"
	isessions "github.com/nspcc-dev/neofs-node/internal/sessions"
	aclsvc "github.com/nspcc-dev/neofs-node/pkg/services/object/acl/v2"
	apistatus "github.com/nspcc-dev/neofs-sdk-go/client/status"
	"github.com/nspcc-dev/neofs-sdk-go/container"
	cid "github.com/nspcc-dev/neofs-sdk-go/container/id"
	neofscrypto "github.com/nspcc-dev/neofs-sdk-go/crypto"
	neofsecdsa "github.com/nspcc-dev/neofs-sdk-go/crypto/ecdsa"
	"github.com/nspcc-dev/neofs-sdk-go/netmap"
	oid "github.com/nspcc-dev/neofs-sdk-go/object/id"
	"github.com/nspcc-dev/neofs-sdk-go/user"
	"go.uber.org/zap"
	"pgregory.net/rapid"
)

// ---- deterministic universe -------------------------------------------------

const nKeys = 5

type actor struct {
	priv ecdsa.PrivateKey
	pub  []byte // compressed
	id   user.ID
}

var actors [nKeys]actor

func detKey(label string) ecdsa.PrivateKey {
	h := sha256.Sum256([]byte("verif-c30-key-" + label))
	d := new(big.Int).SetBytes(h[:])
	c := elliptic.P256()
	n := new(big.Int).Sub(c.Params().N, big.NewInt(1))
	d.Mod(d, n)
	d.Add(d, big.NewInt(1))
	var k ecdsa.PrivateKey
	k.Curve = c
	k.D = d
	k.X, k.Y = c.ScalarBaseMult(d.Bytes())
	return k
}

func detID32(label string) [32]byte { return sha256.Sum256([]byte("verif-c30-id-" + label)) }

var (
	cnrs [3]cid.ID // cnrs[0] < cnrs[1] < cnrs[2] bytewise (v2 contexts must be sorted)
	objs [3]oid.ID
)

func init() {
	for i := range actors {
		k := detKey(fmt.Sprint(i))
		actors[i] = actor{priv: k, pub: neofscrypto.PublicKeyBytes((*neofsecdsa.PublicKey)(&k.PublicKey)), id: user.NewFromECDSAPublicKey(k.PublicKey)}
	}
	for i := range cnrs {
		cnrs[i] = cid.ID(detID32(fmt.Sprint("cnr", i)))
		cnrs[i][0] = byte(0x20 + 0x40*i) // fixed order, non-zero
	}
	for i := range objs {
		objs[i] = oid.ID(detID32(fmt.Sprint("obj", i)))
	}
}

var schemes = []neofscrypto.Scheme{neofscrypto.ECDSA_SHA512, neofscrypto.ECDSA_DETERMINISTIC_SHA256, neofscrypto.ECDSA_WALLETCONNECT}

func signerFor(a actor, s neofscrypto.Scheme) user.Signer {
	switch s {
	case neofscrypto.ECDSA_SHA512:
		return user.NewSigner(neofsecdsa.Signer(a.priv), a.id)
	case neofscrypto.ECDSA_DETERMINISTIC_SHA256:
		return user.NewSigner(neofsecdsa.SignerRFC6979(a.priv), a.id)
	case neofscrypto.ECDSA_WALLETCONNECT:
		return user.NewSigner(neofsecdsa.SignerWalletConnect(a.priv), a.id)
	}
	panic("scheme")
}

func genScheme() *rapid.Generator[neofscrypto.Scheme] { return rapid.SampledFrom(schemes) }

// ---- fakes ------------------------------------------------------------------

type fakeFSChain struct {
	nns          map[string]map[util.Uint160]bool
	cnrNodes     map[cid.ID][][]byte
	n3Calls      atomic.Int64
	n3Result     bool
	nnsCallCount atomic.Int64
}

func (x *fakeFSChain) InvokeContainedScript(*transaction.Transaction, *block.Header, *trigger.Type, *bool) (*result.Invoke, error) {
	x.n3Calls.Add(1)
	return nil, errors.New("verif: N3 witnesses are not modelled")
}

func (x *fakeFSChain) InContainerInLastTwoEpochs(c cid.ID, pub []byte) (bool, error) {
	for _, k := range x.cnrNodes[c] {
		if string(k) == string(pub) {
			return true, nil
		}
	}
	return false, nil
}

func (x *fakeFSChain) HasUserInNNS(name string, addr util.Uint160) (bool, error) {
	x.nnsCallCount.Add(1)
	return x.nns[name][addr], nil
}

type fakeIR struct{}

func (fakeIR) InnerRingKeys() [][]byte { return nil }

type fakeClock struct{ ms atomic.Int64 }

func (c *fakeClock) Now() time.Time { return time.UnixMilli(c.ms.Load()) }

type fakeContainers struct {
	m map[cid.ID]container.Container
}

func (x *fakeContainers) Get(id cid.ID) (container.Container, error) {
	c, ok := x.m[id]
	if !ok {
		return container.Container{}, apistatus.ErrContainerNotFound
	}
	return c, nil
}

type fakeNetmapper struct{ epoch atomic.Uint64 }

func (x *fakeNetmapper) GetNetMapByEpoch(uint64) (*netmap.NetMap, error) {
	return nil, errors.New("verif: unexpected GetNetMapByEpoch")
}
func (x *fakeNetmapper) NetMap() (*netmap.NetMap, error) {
	return nil, errors.New("verif: unexpected NetMap")
}
func (x *fakeNetmapper) Epoch() (uint64, error)                 { return x.epoch.Load(), nil }
func (x *fakeNetmapper) ServerInContainer(cid.ID) (bool, error) { return true, nil }
func (x *fakeNetmapper) GetEpochBlock(uint64) (uint32, error) {
	return 0, errors.New("verif: N3 witnesses are not modelled")
}
func (x *fakeNetmapper) GetEpochBlockByTime(uint32) (uint32, error) {
	return 0, errors.New("verif: N3 witnesses are not modelled")
}

// world is one ACL service with its environment.
type world struct {
	svc   aclsvc.Service
	cache *isessions.ObjectSessionsCache
	chain *fakeFSChain
	nm    *fakeNetmapper
	clock *fakeClock
	cnrs  *fakeContainers
}

const nnsName = "team.verif"

// newWorld builds the service as cmd/neofs-node does (one ObjectSessionsCache
// handed to the ACL service). actors[3] is registered in NNS under nnsName.
func newWorld(cacheSize int) *world {
	w := &world{
		cache: isessions.NewObjectSessionsCache(cacheSize),
		chain: &fakeFSChain{nns: map[string]map[util.Uint160]bool{nnsName: {actors[3].id.ScriptHash(): true}}, cnrNodes: map[cid.ID][][]byte{}},
		nm:    new(fakeNetmapper),
		clock: new(fakeClock),
		cnrs:  &fakeContainers{m: map[cid.ID]container.Container{}},
	}
	w.svc = aclsvc.New(w.chain, w.cache,
		aclsvc.WithLogger(zap.NewNop()),
		aclsvc.WithContainerSource(w.cnrs),
		aclsvc.WithNetmapper(w.nm),
		aclsvc.WithIRFetcher(fakeIR{}),
		aclsvc.WithTimeProvider(w.clock),
	)
	return w
}

// newEpoch models the node's new-epoch handlers (cmd/neofs-node/object.go):
// both token caches are purged when the epoch changes.
func (w *world) newEpoch(e uint64) {
	w.nm.epoch.Store(e)
	w.cache.ResetCache()
	w.svc.ResetTokenCheckCache()
}

// ---- small generator helpers ------------------------------------------------

// around draws a value from {c-1, c, c+1} mostly, sometimes an extreme.
func around(t *rapid.T, c uint64, label string) uint64 {
	switch rapid.IntRange(0, 9).Draw(t, label+"-cls") {
	case 0:
		return 0
	case 1:
		return ^uint64(0)
	default:
		return c - 1 + uint64(rapid.IntRange(0, 2).Draw(t, label))
	}
}

func flipByte(b []byte, pos int, x byte) []byte {
	c := append([]byte(nil), b...)
	c[pos] ^= x
	return c
}

package c30

import (
	"context"
	"fmt"
	"os"
	"strings"
	"testing"

	"github.com/nspcc-dev/neofs-node/verifharness/ev"
	"github.com/nspcc-dev/neofs-sdk-go/container"
	"github.com/nspcc-dev/neofs-sdk-go/netmap"
	"github.com/nspcc-dev/neofs-sdk-go/session"
	sessionv2 "github.com/nspcc-dev/neofs-sdk-go/session/v2"
	"pgregory.net/rapid"
)

func testContainer(owner actor) container.Container {
	var c container.Container
	c.Init()
	c.SetOwner(owner.id)
	var pp netmap.PlacementPolicy
	if err := pp.DecodeString("REP 1"); err != nil {
		panic(err)
	}
	c.SetPlacementPolicy(pp)
	return c
}

// TestC30SharedCacheDirections drives the two-step interaction between object
// validation and the ACL service over the shared session cache directly, so
// that each of the four combinations {v1, v2} x {object first, request first}
// is exercised in every run (TestC30SharedCache reaches them through random
// histories). The token is genuine (correctly signed) but NOT valid for
// requests: v1 - outside its epoch lifetime; v2 - outside its time window or
// not a valid delegation. Objects carrying such tokens are legitimately
// storable (the token was valid when the object was created), requests with
// them are not.
func TestC30SharedCacheDirections(t *testing.T) {
	rec := ev.New("C30", "shared-cache-directions")
	defer rec.Flush()
	rapid.Check(t, func(t *rapid.T) {
		size := rapid.SampledFrom([]int{1, 2, 1024}).Draw(t, "cacheSize")
		w, fresh := newWorld(size), newWorld(4)
		for _, x := range []*world{w, fresh} {
			x.cnrs.m[cnrs[0]] = testContainer(actors[0])
			x.cnrs.m[cnrs[1]] = testContainer(actors[0])
			x.newEpoch(7)
		}
		ps, freshPS := newPutSvc(w, new(recStore)), newPutSvc(fresh, new(recStore))
		ver := rapid.SampledFrom([]string{"v1", "v2"}).Draw(t, "version")
		objectFirst := rapid.Bool().Draw(t, "objectFirst")
		// VERIF_C30_ONLY=v2:request-first pins the combination (used by the
		// sensitivity runs to show that each of the four is detected on its own).
		if only := os.Getenv("VERIF_C30_ONLY"); only != "" {
			v, d, _ := strings.Cut(only, ":")
			ver, objectFirst = v, d == "object-first"
		}
		repeat := rapid.IntRange(1, 2).Draw(t, "repeatFirstStep")

		var verify func() error
		var wantAccept bool
		var desc string
		var store func(*world) error
		switch ver {
		case "v1":
			r := genV1Req(t)
			spec := genV1Spec(t, r, 7)
			// make it applicable to r in everything but (possibly) lifetime
			spec.Cnr, spec.Objs = r.Cnr, nil
			for v := int32(1); v <= 6; v++ {
				if refVerbV1(session.ObjectVerb(v), r.Verb) {
					spec.Verb = v
				}
			}
			switch rapid.SampledFrom([]string{"expired", "expired", "not-yet", "iat-future", "valid"}).Draw(t, "life") {
			case "expired":
				spec.Nbf, spec.Iat, spec.Exp = 3, 3, uint64(rapid.IntRange(3, 6).Draw(t, "exp"))
			case "not-yet":
				spec.Nbf, spec.Iat, spec.Exp = 8, 7, 100
			case "iat-future":
				spec.Nbf, spec.Iat, spec.Exp = 7, 8, 100
			default:
				spec.Nbf, spec.Iat, spec.Exp = 6, 6, 7
			}
			tok, err := buildV1(spec)
			if err != nil {
				t.Fatal(err)
			}
			m := tok.ProtoMessage()
			wantAccept = refV1(spec, r, 7).ok()
			desc = fmt.Sprintf("v1 %+v req %+v", spec, r)
			verify = func() error {
				_, err := w.svc.VerifySessionV1TokenMessage(m, r.Verb, cnrs[r.Cnr], r.obj())
				return err
			}
			obj, err := sessionObject(cnrs[spec.Cnr], actors[spec.AuthKey], &tok, nil, min(7, spec.Exp), []byte("x"))
			if err != nil {
				t.Fatal(err)
			}
			store = func(x *world) error {
				if x == w {
					return ps.ValidateAndStoreObjectLocally(context.Background(), obj)
				}
				return freshPS.ValidateAndStoreObjectLocally(context.Background(), obj)
			}
		case "v2":
			var c v2Case
			for {
				c = genV2Case(t)
				if c.msg != nil && c.sigsOK && !c.ambiguous {
					break
				}
			}
			w.clock.ms.Store(c.nowMs)
			fresh.clock.ms.Store(c.nowMs)
			wantAccept = c.want
			desc = fmt.Sprintf("v2[%s] %+v req %+v now %d", c.label, c.chain, c.req, c.nowMs)
			verify = func() error {
				_, err := w.svc.VerifySessionTokenMessage(c.msg, c.req.Verb, cnrs[c.req.Cnr])
				return err
			}
			var tok sessionv2.Token
			if err := tok.FromProtoMessage(c.msg); err != nil {
				t.Fatalf("decode generated v2 token: %v", err)
			}
			leaf := c.chain[len(c.chain)-1]
			obj, err := sessionObject(cnrs[c.req.Cnr], actors[leaf.Subjects[0].User], nil, &tok, 7, []byte("x"))
			if err != nil {
				t.Fatal(err)
			}
			store = func(x *world) error {
				if x == w {
					return ps.ValidateAndStoreObjectLocally(context.Background(), obj)
				}
				return freshPS.ValidateAndStoreObjectLocally(context.Background(), obj)
			}
		}
		dir := map[bool]string{true: "object-first", false: "request-first"}[objectFirst]
		rec.Case(true, desc+dir, "dir/"+ver+":"+dir, fmt.Sprintf("dir/want-accept:%v", wantAccept))
		if rec.WantSample() {
			rec.Sample(map[string]any{"token": desc, "direction": dir, "want_accept": wantAccept})
		}

		freshErr := store(fresh)
		checkStore := func(step string) {
			if err := store(w); (err == nil) != (freshErr == nil) {
				t.Fatalf("%s %s: ValidateAndStoreObjectLocally -> %v with the shared cache, %v with an empty cache\n%s", dir, step, err, freshErr, desc)
			}
		}
		checkVerify := func(step string) {
			if err := verify(); (err == nil) != wantAccept {
				t.Fatalf("%s %s: token verification -> %v, reference accept=%v\n%s", dir, step, err, wantAccept, desc)
			}
		}
		if objectFirst {
			for i := 0; i < repeat; i++ {
				checkStore("object validation")
			}
			checkVerify("request after object validation")
			checkStore("object validation after request")
		} else {
			for i := 0; i < repeat; i++ {
				checkVerify("request")
			}
			checkStore("object validation after request")
			checkVerify("request after object validation")
		}
	})
}

package c30

import (
	"bytes"
	"context"
	"fmt"
	"strings"
	"testing"

	"github.com/nspcc-dev/neofs-node/verifharness/ev"
	"github.com/nspcc-dev/neofs-sdk-go/object"
	protoacl "github.com/nspcc-dev/neofs-sdk-go/proto/acl"
	protosession "github.com/nspcc-dev/neofs-sdk-go/proto/session"
	"github.com/nspcc-dev/neofs-sdk-go/session"
	sessionv2 "github.com/nspcc-dev/neofs-sdk-go/session/v2"
	"google.golang.org/protobuf/proto"
	"pgregory.net/rapid"
)

// TestC30SharedCache is the "caches NOT reset between cases" variant: one ACL
// service keeps its caches over a generated history of token submissions, and
// the session cache is shared with a real putsvc.Service (object validation),
// exactly as cmd/neofs-node wires them. Caches are purged only when the epoch
// changes (the node's new-epoch handlers). Every submission must get the same
// verdict as the reference predicate; a verdict cached for one token (or by
// object validation, which checks signatures only) must never leak to another
// token, another epoch/time or another request. In the other direction, the
// outcome of validating an object must not depend on what the ACL service
// cached (compared with the same call on a fresh, cache-less world).

type poolEntry struct {
	kind   string // "v1", "v2", "bearer"
	name   string
	intact bool
	// pristine: every (body, signature) pair is exactly what an issuer produced
	// (derivations start from such entries only)
	pristine bool
	family   int // entries derived from one another share it

	v1  v1Spec
	v1m *protosession.SessionToken
	v2  []v2Level
	v2m *protosession.SessionTokenV2
	b   bSpec
	bm  *protoacl.BearerToken
}

func (e *poolEntry) bytes() []byte {
	switch e.kind {
	case "v1":
		return stable(e.v1m)
	case "v2":
		return stable(e.v2m)
	default:
		return stable(e.bm)
	}
}

var cacheTimes = []int64{(baseSec - 1) * 1000, baseSec * 1000, baseSec*1000 + 500, (baseSec + 2) * 1000}

type cacheState struct {
	w, fresh   *world
	ps, freshP interface {
		ValidateAndStoreObjectLocally(context.Context, object.Object) error
	}
	epoch  uint64
	pool   []*poolEntry
	log    []string
	stored map[string]bool // token bytes validated inside an object this epoch
	seen   map[int]bool    // families verified this epoch
	flags  map[string]bool
}

func (s *cacheState) setEpoch(e uint64) {
	s.epoch = e
	s.w.newEpoch(e)
	s.fresh.newEpoch(e)
	s.stored = map[string]bool{}
	s.seen = map[int]bool{}
}

func (s *cacheState) addV1(t *rapid.T, family int) {
	r := genV1Req(t)
	spec := genV1Spec(t, r, 7)
	tok, err := buildV1(spec)
	if err != nil {
		t.Fatalf("build v1: %v", err)
	}
	e := &poolEntry{kind: "v1", intact: true, pristine: true, v1: spec, v1m: tok.ProtoMessage(), family: family}
	e.name = fmt.Sprintf("v1#%d%+v", len(s.pool), spec)
	s.pool = append(s.pool, e)
}

func (s *cacheState) addV2(t *rapid.T, family int) {
	c := genV2Case(t)
	if c.msg == nil {
		return
	}
	e := &poolEntry{kind: "v2", intact: c.intact, pristine: c.sigsOK, v2: c.chain, v2m: c.msg, family: family}
	e.name = fmt.Sprintf("v2#%d[%s]%+v", len(s.pool), c.label, c.chain)
	s.pool = append(s.pool, e)
}

func (s *cacheState) addBearer(t *rapid.T, family int) {
	spec := genBearer(t, bReq{Sender: 1, Session: -1, Cnr: 0, Owner: 0}, 7)
	tok, err := buildBearer(spec)
	if err != nil {
		t.Fatalf("build bearer: %v", err)
	}
	e := &poolEntry{kind: "bearer", intact: true, pristine: true, b: spec, bm: tok.ProtoMessage(), family: family}
	e.name = fmt.Sprintf("bearer#%d%+v", len(s.pool), spec)
	s.pool = append(s.pool, e)
}

// derive adds a sibling of pool[i]: same session ID / same body with something
// changed, either without re-signing (not intact) or properly re-issued (a
// different, valid token sharing the ID).
func (s *cacheState) derive(t *rapid.T, i int) {
	src := s.pool[i]
	if !src.pristine {
		return
	}
	switch src.kind {
	case "v1":
		if rapid.Bool().Draw(t, "reissue") {
			spec := src.v1
			switch rapid.IntRange(0, 3).Draw(t, "reissueField") {
			case 0:
				spec.Exp = rapid.SampledFrom([]uint64{5, 6, 7, 8, ^uint64(0)}).Draw(t, "exp")
			case 1:
				spec.Verb = int32(rapid.IntRange(1, 6).Draw(t, "verb"))
			case 2:
				spec.Issuer = (spec.Issuer + 1) % nKeys
			case 3:
				spec.Cnr = 1 - spec.Cnr
			}
			tok, err := buildV1(spec)
			if err != nil {
				t.Fatalf("build v1: %v", err)
			}
			e := &poolEntry{kind: "v1", intact: true, pristine: true, v1: spec, v1m: tok.ProtoMessage(), family: src.family}
			e.name = fmt.Sprintf("v1#%d(reissue of #%d)%+v", len(s.pool), i, spec)
			s.pool = append(s.pool, e)
			return
		}
		kind := rapid.SampledFrom(v1Mutations[6:]).Draw(t, "mutation")
		m, label := mutateV1(t, kind, src.v1, src.v1m)
		if m == nil {
			return
		}
		e := &poolEntry{kind: "v1", intact: src.intact && bytes.Equal(stable(m), stable(src.v1m)), v1: src.v1, v1m: m, family: src.family}
		e.name = fmt.Sprintf("v1#%d(%s of #%d)", len(s.pool), label, i)
		s.pool = append(s.pool, e)
	case "v2":
		m := proto.Clone(src.v2m).(*protosession.SessionTokenV2)
		ok, label := applyPostSign(t, rapid.SampledFrom(v2PostSign).Draw(t, "postSign"), src.v2, m)
		if !ok {
			return
		}
		e := &poolEntry{kind: "v2", intact: src.intact && bytes.Equal(stable(m), stable(src.v2m)), v2: src.v2, v2m: m, family: src.family}
		e.name = fmt.Sprintf("v2#%d(%s of #%d)", len(s.pool), label, i)
		s.pool = append(s.pool, e)
	case "bearer":
		m, label := mutateBearer(t, rapid.SampledFrom(bMutations[6:]).Draw(t, "mutation"), src.b, src.bm)
		if m == nil {
			return
		}
		e := &poolEntry{kind: "bearer", intact: src.intact && bytes.Equal(stable(m), stable(src.bm)), b: src.b, bm: m, family: src.family}
		e.name = fmt.Sprintf("bearer#%d(%s of #%d)", len(s.pool), label, i)
		s.pool = append(s.pool, e)
	}
}

func (s *cacheState) verify(t *rapid.T, i int) {
	e := s.pool[i]
	k := string(e.bytes())
	if s.stored[k] {
		s.flags["verify-after-store"] = true
	}
	if s.seen[e.family] {
		s.flags["verify-after-family"] = true
	}
	s.seen[e.family] = true
	nowMs := s.w.clock.ms.Load()
	nowSec := (nowMs + 500) / 1000
	switch e.kind {
	case "v1":
		r := genV1Req(t)
		if rapid.Bool().Draw(t, "matchReq") {
			r.Cnr = e.v1.Cnr
			for _, v := range reqVerbsV1 {
				if refVerbV1(session.ObjectVerb(e.v1.Verb), v) {
					r.Verb = v
					break
				}
			}
		}
		want := e.intact && refV1(e.v1, r, s.epoch).ok()
		s.log = append(s.log, fmt.Sprintf("verify #%d %+v at epoch %d (want accept=%v)", i, r, s.epoch, want))
		got, err := s.w.svc.VerifySessionV1TokenMessage(e.v1m, r.Verb, cnrs[r.Cnr], r.obj())
		if (err == nil) != want {
			t.Fatalf("step %d: VerifySessionV1TokenMessage(%s): err=%v, reference accept=%v (intact=%v verdict=%+v)\nhistory:\n%s",
				len(s.log), e.name, err, want, e.intact, refV1(e.v1, r, s.epoch), strings.Join(s.log, "\n"))
		}
		if err == nil && !bytes.Equal(got.Marshal(), stable(e.v1m)) {
			t.Fatalf("step %d: accepted v1 token differs from the submitted one (%s)\nhistory:\n%s", len(s.log), e.name, strings.Join(s.log, "\n"))
		}
		if want {
			s.flags["accepted"] = true
		}
	case "v2":
		r := v2Req{Verb: rapid.SampledFrom(reqVerbsV2).Draw(t, "reqVerb"), Cnr: rapid.IntRange(0, 1).Draw(t, "reqCnr")}
		leaf := e.v2[len(e.v2)-1]
		if rapid.Bool().Draw(t, "matchReq") {
			for _, c := range leaf.Ctxs {
				for _, v := range c.Verbs {
					if v >= 1 && v <= 6 {
						r.Verb = sessionv2.Verb(v)
						if c.Cnr >= 0 && c.Cnr <= 1 {
							r.Cnr = c.Cnr
						}
					}
				}
			}
		}
		want := e.intact && lifeOKV2(leaf, nowSec) && grantsV2(leaf, r)
		s.log = append(s.log, fmt.Sprintf("verify #%d %+v at %dms (want accept=%v)", i, r, nowMs, want))
		got, err := s.w.svc.VerifySessionTokenMessage(e.v2m, r.Verb, cnrs[r.Cnr])
		if lifeOKV2(leaf, nowSec) != lifeOKV2(leaf, nowMs/1000) {
			break // sub-second chain time decides: not asserted (see v2Case.ambiguous)
		}
		if (err == nil) != want {
			t.Fatalf("step %d: VerifySessionTokenMessage(%s): err=%v, reference accept=%v (intact=%v life=%v grants=%v)\nhistory:\n%s",
				len(s.log), e.name, err, want, e.intact, lifeOKV2(leaf, nowSec), grantsV2(leaf, r), strings.Join(s.log, "\n"))
		}
		if err == nil && !bytes.Equal(got.Marshal(), stable(e.v2m)) {
			t.Fatalf("step %d: accepted v2 token differs from the submitted one (%s)\nhistory:\n%s", len(s.log), e.name, strings.Join(s.log, "\n"))
		}
		if want {
			s.flags["accepted"] = true
		}
	case "bearer":
		want := e.intact && refBearerLife(e.b, s.epoch)
		s.log = append(s.log, fmt.Sprintf("verify #%d at epoch %d (want accept=%v)", i, s.epoch, want))
		got, err := s.w.svc.VerifyBearerTokenMessage(e.bm)
		if (err == nil) != want {
			t.Fatalf("step %d: VerifyBearerTokenMessage(%s): err=%v, reference accept=%v\nhistory:\n%s", len(s.log), e.name, err, want, strings.Join(s.log, "\n"))
		}
		if err == nil && !bytes.Equal(got.Marshal(), stable(e.bm)) {
			t.Fatalf("step %d: accepted bearer token differs from the submitted one (%s)\nhistory:\n%s", len(s.log), e.name, strings.Join(s.log, "\n"))
		}
		_ = got
	}
}

// store validates (and "stores") an object created within session pool[i]
// through the real put service that shares the session cache.
func (s *cacheState) store(t *rapid.T, i int) {
	e := s.pool[i]
	var obj *object.Object
	switch e.kind {
	case "v1":
		var tok session.Object
		if tok.FromProtoMessage(e.v1m) != nil {
			return
		}
		o, err := sessionObject(cnrs[e.v1.Cnr], actors[e.v1.AuthKey], &tok, nil, min(s.epoch, max(e.v1.Exp, 1)), []byte("payload"))
		if err != nil {
			t.Fatalf("build object: %v", err)
		}
		obj = &o
	case "v2":
		var tok sessionv2.Token
		if tok.FromProtoMessage(e.v2m) != nil {
			return
		}
		leaf := e.v2[len(e.v2)-1]
		signer := leaf.Subjects[0].User
		if signer < 0 {
			signer = 3
		}
		cnr := 0
		for _, c := range leaf.Ctxs {
			if c.Cnr >= 0 && c.Cnr <= 1 {
				cnr = c.Cnr
			}
		}
		o, err := sessionObject(cnrs[cnr], actors[signer], nil, &tok, s.epoch, []byte("payload"))
		if err != nil {
			t.Fatalf("build object: %v", err)
		}
		obj = &o
	default:
		return
	}
	if s.seen[e.family] {
		s.flags["store-after-verify"] = true
	}
	err := s.ps.ValidateAndStoreObjectLocally(context.Background(), *obj)
	ferr := s.freshP.ValidateAndStoreObjectLocally(context.Background(), *obj)
	s.fresh.cache.ResetCache()
	s.log = append(s.log, fmt.Sprintf("store object with token #%d at epoch %d -> %v", i, s.epoch, err))
	if (err == nil) != (ferr == nil) {
		t.Fatalf("step %d: ValidateAndStoreObjectLocally of an object with token %s: %v with the shared cache, %v with an empty cache\nhistory:\n%s",
			len(s.log), e.name, err, ferr, strings.Join(s.log, "\n"))
	}
	if err == nil {
		s.stored[string(e.bytes())] = true
		s.flags["stored-ok"] = true
	}
}

func TestC30SharedCache(t *testing.T) {
	rec := ev.New("C30", "shared-cache")
	defer rec.Flush()
	rapid.Check(t, func(t *rapid.T) {
		size := rapid.SampledFrom([]int{1, 2, 3, 1024}).Draw(t, "cacheSize")
		s := &cacheState{w: newWorld(size), fresh: newWorld(16), flags: map[string]bool{}}
		for _, w := range []*world{s.w, s.fresh} {
			w.cnrs.m[cnrs[0]] = testContainer(actors[0])
			w.cnrs.m[cnrs[1]] = testContainer(actors[0])
			w.clock.ms.Store(cacheTimes[1])
		}
		s.ps = newPutSvc(s.w, new(recStore))
		s.freshP = newPutSvc(s.fresh, new(recStore))
		s.setEpoch(7)
		defer func() {
			var ls []string
			for f := range s.flags {
				ls = append(ls, "sc/"+f)
			}
			nontrivial := s.flags["verify-after-store"] || s.flags["verify-after-family"] || s.flags["store-after-verify"]
			rec.Case(nontrivial, strings.Join(s.log, ";"), ls...)
			if nontrivial && rec.WantSample() {
				rec.Sample(s.log)
			}
		}()

		family := 0
		steps := rapid.IntRange(4, 24).Draw(t, "steps")
		for step := 0; step < steps; step++ {
			op := rapid.SampledFrom([]string{"add", "derive", "verify", "verify", "verify", "store", "store", "epoch", "time"}).Draw(t, "op")
			if len(s.pool) == 0 {
				op = "add"
			}
			switch op {
			case "add":
				family++
				switch rapid.SampledFrom([]string{"v1", "v1", "v2", "v2", "bearer"}).Draw(t, "kind") {
				case "v1":
					s.addV1(t, family)
				case "v2":
					s.addV2(t, family)
				default:
					s.addBearer(t, family)
				}
				if n := len(s.pool); n > 0 {
					s.log = append(s.log, "add "+s.pool[n-1].name)
				}
			case "derive":
				i := rapid.IntRange(0, len(s.pool)-1).Draw(t, "src")
				n := len(s.pool)
				s.derive(t, i)
				if len(s.pool) > n {
					s.log = append(s.log, "add "+s.pool[n].name)
				}
			case "verify":
				s.verify(t, rapid.IntRange(0, len(s.pool)-1).Draw(t, "tok"))
			case "store":
				s.store(t, rapid.IntRange(0, len(s.pool)-1).Draw(t, "tok"))
			case "epoch":
				e := uint64(rapid.IntRange(5, 9).Draw(t, "epoch"))
				s.setEpoch(e)
				s.log = append(s.log, fmt.Sprintf("new epoch %d (caches purged)", e))
				s.flags["epoch-change"] = true
			case "time":
				ms := rapid.SampledFrom(cacheTimes).Draw(t, "ms")
				s.w.clock.ms.Store(ms)
				s.fresh.clock.ms.Store(ms)
				s.log = append(s.log, fmt.Sprintf("chain time %dms", ms))
				s.flags["time-change"] = true
			}
		}
	})
}

package c30

import (
	"bytes"
	"fmt"
	"slices"
	"testing"

	"github.com/google/uuid"
	icrypto "github.com/nspcc-dev/neofs-node/internal/crypto"
	"github.com/nspcc-dev/neofs-node/verifharness/ev"
	neofscrypto "github.com/nspcc-dev/neofs-sdk-go/crypto"
	neofsecdsa "github.com/nspcc-dev/neofs-sdk-go/crypto/ecdsa"
	oid "github.com/nspcc-dev/neofs-sdk-go/object/id"
	protosession "github.com/nspcc-dev/neofs-sdk-go/proto/session"
	"github.com/nspcc-dev/neofs-sdk-go/session"
	"google.golang.org/protobuf/proto"
	"pgregory.net/rapid"
)

// ---- reference --------------------------------------------------------------

// Request verbs the object server really passes (pkg/services/object/server.go).
var reqVerbsV1 = []session.ObjectVerb{session.VerbObjectPut, session.VerbObjectGet, session.VerbObjectHead,
	session.VerbObjectSearch, session.VerbObjectDelete, session.VerbObjectRange}

// refVerbV1 is the NeoFS spec table (neofs-spec "Session" chapter, also cited by
// the repository test): which token verbs authorise a request verb.
func refVerbV1(tok, req session.ObjectVerb) bool {
	switch req {
	case session.VerbObjectHead:
		return tok == session.VerbObjectHead || tok == session.VerbObjectGet || tok == session.VerbObjectDelete || tok == session.VerbObjectRange
	case session.VerbObjectSearch:
		return tok == session.VerbObjectSearch || tok == session.VerbObjectDelete
	default:
		return tok == req
	}
}

type v1Spec struct {
	Issuer, AuthKey int
	Scheme          neofscrypto.Scheme
	ID              uuid.UUID
	Verb            int32
	Cnr             int
	Objs            []int
	Iat, Nbf, Exp   uint64
}

type v1Req struct {
	Verb session.ObjectVerb
	Cnr  int
	Obj  int // -1: no object in the request
}

func (r v1Req) obj() oid.ID {
	if r.Obj < 0 {
		return oid.ID{}
	}
	return objs[r.Obj]
}

// refV1 says which conjuncts of the property hold for an UNMUTATED token.
type v1Verdict struct{ life, cnr, obj, verb bool }

func (v v1Verdict) ok() bool { return v.life && v.cnr && v.obj && v.verb }
func (v v1Verdict) failures() int {
	n := 0
	for _, b := range []bool{v.life, v.cnr, v.obj, v.verb} {
		if !b {
			n++
		}
	}
	return n
}

func refV1(s v1Spec, r v1Req, cur uint64) v1Verdict {
	var v v1Verdict
	v.life = s.Nbf <= cur && s.Iat <= cur && cur <= s.Exp
	v.cnr = s.Cnr == r.Cnr
	// DESIGN.md §4 C30: object unbound or equal, or the token is a DELETE token
	// (the tombstone ID of a removal cannot be predicted by the issuer).
	v.obj = r.Obj < 0 || len(s.Objs) == 0 || slices.Contains(s.Objs, r.Obj) || session.ObjectVerb(s.Verb) == session.VerbObjectDelete
	v.verb = refVerbV1(session.ObjectVerb(s.Verb), r.Verb)
	return v
}

// ---- generators -------------------------------------------------------------

func genUUIDv4(t *rapid.T, label string) uuid.UUID {
	var id uuid.UUID
	copy(id[:], rapid.SliceOfN(rapid.Byte(), 16, 16).Draw(t, label))
	id[6] = (id[6] & 0x0f) | 0x40
	id[8] = (id[8] & 0x3f) | 0x80
	return id
}

func genV1Req(t *rapid.T) v1Req {
	return v1Req{
		Verb: rapid.SampledFrom(reqVerbsV1).Draw(t, "reqVerb"),
		Cnr:  rapid.IntRange(0, 1).Draw(t, "reqCnr"),
		Obj:  rapid.IntRange(-1, 2).Draw(t, "reqObj"),
	}
}

// genV1Spec draws a token biased towards "applicable to r at epoch cur" so that
// accepted and one-defect-away cases are frequent.
func genV1Spec(t *rapid.T, r v1Req, cur uint64) v1Spec {
	s := v1Spec{
		Issuer:  rapid.IntRange(0, nKeys-1).Draw(t, "issuer"),
		AuthKey: rapid.IntRange(0, nKeys-1).Draw(t, "authKey"),
		Scheme:  genScheme().Draw(t, "scheme"),
		ID:      genUUIDv4(t, "id"),
	}
	if rapid.IntRange(0, 9).Draw(t, "cnrMatch") < 8 {
		s.Cnr = r.Cnr
	} else {
		s.Cnr = rapid.IntRange(0, 1).Draw(t, "cnr")
	}
	if rapid.IntRange(0, 9).Draw(t, "verbMatch") < 6 {
		var ok []int32
		for v := int32(0); v <= 8; v++ {
			if refVerbV1(session.ObjectVerb(v), r.Verb) {
				ok = append(ok, v)
			}
		}
		s.Verb = rapid.SampledFrom(ok).Draw(t, "verbOK")
	} else {
		s.Verb = int32(rapid.IntRange(0, 8).Draw(t, "verb"))
	}
	s.Objs = rapid.SliceOfNDistinct(rapid.IntRange(0, 2), 0, 2, rapid.ID[int]).Draw(t, "objs")
	if rapid.IntRange(0, 9).Draw(t, "lifeOK") < 6 {
		s.Nbf = rapid.SampledFrom([]uint64{0, cur - 1, cur, cur}).Draw(t, "nbfOK")
		s.Iat = rapid.SampledFrom([]uint64{0, cur - 1, cur, cur}).Draw(t, "iatOK")
		s.Exp = rapid.SampledFrom([]uint64{cur, cur, cur + 1, ^uint64(0)}).Draw(t, "expOK")
	} else {
		s.Nbf, s.Iat, s.Exp = around(t, cur, "nbf"), around(t, cur, "iat"), around(t, cur, "exp")
	}
	return s
}

func buildV1(s v1Spec) (session.Object, error) {
	var tok session.Object
	tok.SetID(s.ID)
	tok.ForVerb(session.ObjectVerb(s.Verb))
	tok.BindContainer(cnrs[s.Cnr])
	if len(s.Objs) > 0 {
		ids := make([]oid.ID, len(s.Objs))
		for i, o := range s.Objs {
			ids[i] = objs[o]
		}
		tok.LimitByObjects(ids...)
	}
	tok.SetIat(s.Iat)
	tok.SetNbf(s.Nbf)
	tok.SetExp(s.Exp)
	tok.SetAuthKey((*neofsecdsa.PublicKey)(&actors[s.AuthKey].priv.PublicKey))
	err := tok.Sign(signerFor(actors[s.Issuer], s.Scheme))
	return tok, err
}

// ---- mutations --------------------------------------------------------------

var v1Mutations = []string{"none", "none", "none", "none", "none", "none",
	"exp+1", "exp-1", "exp-max", "nbf-1", "nbf-0", "iat-1", "iat-0", "verb", "cnr", "obj-add", "obj-drop", "obj-replace",
	"id", "owner", "session-key", "sig", "sig", "forged-issuer", "drop-field", "wire", "wire"}

// mutateV1 applies kind to a clone of m. It returns the mutated message and
// whether the result is still exactly the issuer's token (same stable bytes).
// A nil message means the mutated bytes are not a decodable SessionToken
// (nothing reaches the service).
func mutateV1(t *rapid.T, kind string, s v1Spec, m *protosession.SessionToken) (*protosession.SessionToken, string) {
	orig := stable(m)
	c := proto.Clone(m).(*protosession.SessionToken)
	lt := c.Body.Lifetime
	if lt == nil {
		lt = new(protosession.SessionToken_Body_TokenLifetime)
	}
	ctx := c.Body.Context.(*protosession.SessionToken_Body_Object).Object
	label := kind
	switch kind {
	case "none":
	case "exp+1":
		c.Body.Lifetime = lt
		lt.Exp++
	case "exp-1":
		c.Body.Lifetime = lt
		lt.Exp--
	case "exp-max":
		c.Body.Lifetime = lt
		if lt.Exp == ^uint64(0) {
			lt.Exp = 1 << 62
		} else {
			lt.Exp = ^uint64(0)
		}
	case "nbf-1":
		c.Body.Lifetime = lt
		lt.Nbf--
	case "nbf-0":
		c.Body.Lifetime = lt
		if lt.Nbf == 0 {
			lt.Nbf = 1
		} else {
			lt.Nbf = 0
		}
	case "iat-1":
		c.Body.Lifetime = lt
		lt.Iat--
	case "iat-0":
		c.Body.Lifetime = lt
		if lt.Iat == 0 {
			lt.Iat = 1
		} else {
			lt.Iat = 0
		}
	case "verb":
		for {
			v := protosession.ObjectSessionContext_Verb(rapid.IntRange(0, 8).Draw(t, "mverb"))
			if v != ctx.Verb {
				ctx.Verb = v
				break
			}
		}
	case "cnr":
		if ctx.Target == nil {
			ctx.Target = new(protosession.ObjectSessionContext_Target)
		}
		ctx.Target.Container = cnrs[1-s.Cnr].ProtoMessage()
	case "obj-add":
		if ctx.Target == nil {
			ctx.Target = new(protosession.ObjectSessionContext_Target)
		}
		for o := range objs {
			if !slices.Contains(s.Objs, o) {
				ctx.Target.Objects = append(ctx.Target.Objects, objs[o].ProtoMessage())
				break
			}
		}
	case "obj-drop":
		if ctx.Target == nil || len(ctx.Target.Objects) == 0 {
			label = "none"
			break
		}
		ctx.Target.Objects = ctx.Target.Objects[:len(ctx.Target.Objects)-1]
	case "obj-replace":
		if ctx.Target == nil || len(ctx.Target.Objects) == 0 {
			label = "none"
			break
		}
		for o := range objs {
			if !slices.Contains(s.Objs, o) {
				ctx.Target.Objects[0] = objs[o].ProtoMessage()
				break
			}
		}
	case "id":
		pos := rapid.IntRange(0, 15).Draw(t, "pos")
		bit := byte(1 << rapid.IntRange(0, 7).Draw(t, "bit"))
		if pos == 6 {
			bit = 1 << rapid.IntRange(0, 3).Draw(t, "bit6") // keep UUID version 4
		}
		c.Body.Id = flipByte(c.Body.Id, pos, bit)
	case "owner":
		for {
			k := rapid.IntRange(0, nKeys-1).Draw(t, "mowner")
			if k != s.Issuer {
				c.Body.OwnerId = actors[k].id.ProtoMessage()
				break
			}
		}
	case "session-key":
		for {
			k := rapid.IntRange(0, nKeys-1).Draw(t, "mkey")
			if k != s.AuthKey {
				c.Body.SessionKey = bytes.Clone(actors[k].pub)
				break
			}
		}
	case "sig":
		label = mutateSignature(t, c.Signature)
	case "forged-issuer":
		// somebody else signs the same body (which names the victim as issuer)
		var k int
		for {
			k = rapid.IntRange(0, nKeys-1).Draw(t, "forger")
			if k != s.Issuer {
				break
			}
		}
		var sig neofscrypto.Signature
		if err := sig.Calculate(signerFor(actors[k], genScheme().Draw(t, "forgerScheme")), stable(c.Body)); err != nil {
			t.Fatalf("sign: %v", err)
		}
		c.Signature = sig.ProtoMessage()
	case "drop-field":
		f := rapid.SampledFrom([]string{"body", "id", "owner", "lifetime", "session-key", "context", "target", "container", "signature"}).Draw(t, "drop")
		label = "drop-" + f
		switch f {
		case "body":
			c.Body = nil
		case "id":
			c.Body.Id = nil
		case "owner":
			c.Body.OwnerId = nil
		case "lifetime":
			c.Body.Lifetime = nil
		case "session-key":
			c.Body.SessionKey = nil
		case "context":
			c.Body.Context = nil
		case "target":
			ctx.Target = nil
		case "container":
			if ctx.Target != nil {
				ctx.Target.Container = nil
			}
		case "signature":
			c.Signature = nil
		}
	case "wire":
		pos := rapid.IntRange(0, len(orig)-1).Draw(t, "wirePos")
		b := flipByte(orig, pos, byte(1<<rapid.IntRange(0, 7).Draw(t, "wireBit")))
		c = new(protosession.SessionToken)
		if err := proto.Unmarshal(b, c); err != nil {
			return nil, "wire-undecodable"
		}
		label = "wire"
	}
	if bytes.Equal(stable(c), orig) {
		if label != "none" {
			label += "-noop"
		}
	}
	return c, label
}

// ---- the property -----------------------------------------------------------

var curEpochs = []uint64{1, 2, 7, 1000, 1 << 63, ^uint64(0) - 1}

func TestC30SessionV1(t *testing.T) {
	rec := ev.New("C30", "session-v1")
	defer rec.Flush()
	w := newWorld(1024)
	rapid.Check(t, func(t *rapid.T) {
		cur := rapid.SampledFrom(curEpochs).Draw(t, "epoch")
		w.newEpoch(cur) // caches reset between cases
		r := genV1Req(t)
		s := genV1Spec(t, r, cur)
		tok, err := buildV1(s)
		if err != nil {
			t.Fatalf("build token: %v", err)
		}
		m0 := tok.ProtoMessage()
		kind := rapid.SampledFrom(v1Mutations).Draw(t, "mutation")
		m, label := mutateV1(t, kind, s, m0)

		verdict := refV1(s, r, cur)
		intact := m != nil && bytes.Equal(stable(m), stable(m0))
		want := intact && verdict.ok()
		// non-trivial: accepted, or exactly one reason to reject
		reasons := verdict.failures()
		if !intact {
			reasons++
		}
		labels := []string{"mut:" + label, fmt.Sprintf("reasons:%d", min(reasons, 3)), fmt.Sprintf("req:%d", r.Verb)}
		if want {
			labels = append(labels, "accepted")
		}
		if !verdict.life && intact && reasons == 1 {
			labels = append(labels, "only-lifetime")
		}
		if intact && reasons == 1 && !verdict.obj {
			labels = append(labels, "only-object")
		}
		for i := range labels {
			labels[i] = "v1/" + labels[i]
		}
		rec.Case(reasons <= 1, fmt.Sprintf("%+v|%+v|%d|%s|%x", s, r, cur, label, bodyBytesV1(m)), labels...)
		if rec.WantSample() {
			rec.Sample(map[string]any{"token": fmt.Sprintf("%+v", s), "req": fmt.Sprintf("%+v", r), "epoch": cur, "mutation": label, "want_accept": want})
		}
		if m == nil {
			return
		}

		got, err := w.svc.VerifySessionV1TokenMessage(m, r.Verb, cnrs[r.Cnr], r.obj())
		if (err == nil) != want {
			t.Fatalf("VerifySessionV1TokenMessage: err=%v, reference accept=%v\n token=%+v\n request=%+v epoch=%d mutation=%s verdict=%+v intact=%v",
				err, want, s, r, cur, label, verdict, intact)
		}
		if err == nil && !bytes.Equal(got.Marshal(), stable(m)) {
			t.Fatalf("accepted token differs from the submitted one: %x vs %x", got.Marshal(), stable(m))
		}
		// a second submission (now served from the cache) must agree
		_, err2 := w.svc.VerifySessionV1TokenMessage(m, r.Verb, cnrs[r.Cnr], r.obj())
		if (err2 == nil) != want {
			t.Fatalf("second (cached) VerifySessionV1TokenMessage: err=%v, reference accept=%v token=%+v request=%+v epoch=%d mutation=%s", err2, want, s, r, cur, label)
		}

		// icrypto.AuthenticateToken on the decoded token: signature and issuer only.
		var dec session.Object
		if dec.FromProtoMessage(m) == nil {
			aerr := icrypto.AuthenticateToken(&dec, nil)
			if (aerr == nil) != intact {
				t.Fatalf("AuthenticateToken: err=%v, token intact=%v mutation=%s token=%+v", aerr, intact, label, s)
			}
		}
	})
}

// bodyBytesV1 is the signed part only (signatures of two schemes are randomised
// and must not inflate the distinct-case count).
func bodyBytesV1(m *protosession.SessionToken) []byte {
	if m == nil || m.Body == nil {
		return nil
	}
	return stable(m.Body)
}

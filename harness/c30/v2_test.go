package c30

import (
	"bytes"
	"fmt"
	"slices"
	"testing"
	"time"

	icrypto "github.com/nspcc-dev/neofs-node/internal/crypto"
	"github.com/nspcc-dev/neofs-node/verifharness/ev"
	cid "github.com/nspcc-dev/neofs-sdk-go/container/id"
	neofscrypto "github.com/nspcc-dev/neofs-sdk-go/crypto"
	"github.com/nspcc-dev/neofs-sdk-go/proto/refs"
	protosession "github.com/nspcc-dev/neofs-sdk-go/proto/session"
	sessionv2 "github.com/nspcc-dev/neofs-sdk-go/session/v2"
	"google.golang.org/protobuf/proto"
	"pgregory.net/rapid"
)

// ---- model ------------------------------------------------------------------

type v2Ctx struct {
	Cnr   int // -1: wildcard
	Verbs []int32
}

type v2Subject struct {
	User int    // actor index, or -1 for an NNS name
	NNS  string // when User < 0
}

type v2Level struct {
	Issuer        int
	Scheme        neofscrypto.Scheme
	Subjects      []v2Subject
	Iat, Nbf, Exp int64 // Unix seconds
	Ctxs          []v2Ctx
	Final         bool
	Version       uint32
	AppData       []byte
}

type v2Req struct {
	Verb sessionv2.Verb
	Cnr  int
}

var reqVerbsV2 = []sessionv2.Verb{sessionv2.VerbObjectPut, sessionv2.VerbObjectGet, sessionv2.VerbObjectHead,
	sessionv2.VerbObjectSearch, sessionv2.VerbObjectDelete, sessionv2.VerbObjectRange}

const baseSec = int64(1_700_000_000)

// ---- reference --------------------------------------------------------------

func grantsV2(l v2Level, r v2Req) bool {
	for _, c := range l.Ctxs {
		if (c.Cnr < 0 || c.Cnr == r.Cnr) && slices.Contains(c.Verbs, int32(r.Verb)) {
			return true
		}
	}
	return false
}

// lifeOKV2: "exp: the last valid Unix timestamp, nbf: the first valid Unix
// timestamp, iat: when the token was issued" (NeoFS API, TokenLifetime).
func lifeOKV2(l v2Level, nowSec int64) bool {
	return l.Iat <= nowSec && l.Nbf <= nowSec && nowSec <= l.Exp
}

// ---- generators -------------------------------------------------------------

func genVerbSet(t *rapid.T, label string, must int32) []int32 {
	vs := rapid.SliceOfNDistinct(rapid.Int32Range(1, 8), 1, 4, rapid.ID[int32]).Draw(t, label)
	if must > 0 && !slices.Contains(vs, must) {
		vs = append(vs, must)
	}
	slices.Sort(vs)
	return vs
}

func sortCtxs(cs []v2Ctx) { slices.SortFunc(cs, func(a, b v2Ctx) int { return a.Cnr - b.Cnr }) }

// fixWildcardClash keeps the token well-formed: an explicit context must not
// repeat exactly the wildcard's verbs (SDK rule); extend the explicit one with
// a verb outside the generated universe.
func fixWildcardClash(cs []v2Ctx) {
	if len(cs) == 0 || cs[0].Cnr >= 0 {
		return
	}
	for i := 1; i < len(cs); i++ {
		if slices.Equal(cs[i].Verbs, cs[0].Verbs) {
			for v := int32(12); v >= 1; v-- {
				if !slices.Contains(cs[i].Verbs, v) {
					cs[i].Verbs = append(slices.Clone(cs[i].Verbs), v)
					slices.Sort(cs[i].Verbs)
					break
				}
			}
		}
	}
}

func genLeaf(t *rapid.T, r v2Req, nowSec int64) v2Level {
	l := v2Level{
		Issuer: rapid.IntRange(0, nKeys-1).Draw(t, "leafIssuer"),
		Scheme: genScheme().Draw(t, "leafScheme"),
		Final:  rapid.Bool().Draw(t, "leafFinal"),
	}
	if rapid.IntRange(0, 3).Draw(t, "appdata") == 0 {
		l.AppData = rapid.SliceOfN(rapid.Byte(), 1, 8).Draw(t, "appdataBytes")
	}
	l.Subjects = []v2Subject{{User: rapid.IntRange(0, nKeys-1).Draw(t, "leafSubject")}}
	// contexts
	match := rapid.IntRange(0, 9).Draw(t, "grant") < 6
	kinds := rapid.SliceOfNDistinct(rapid.IntRange(-1, 2), 1, 3, rapid.ID[int]).Draw(t, "leafCnrs")
	for _, k := range kinds {
		l.Ctxs = append(l.Ctxs, v2Ctx{Cnr: k, Verbs: genVerbSet(t, fmt.Sprint("verbs", k), 0)})
	}
	if match {
		i := rapid.IntRange(0, len(l.Ctxs)-1).Draw(t, "grantCtx")
		if l.Ctxs[i].Cnr >= 0 {
			dup := false
			for j := range l.Ctxs {
				dup = dup || (j != i && l.Ctxs[j].Cnr == r.Cnr)
			}
			if !dup {
				l.Ctxs[i].Cnr = r.Cnr
			}
		}
		if !slices.Contains(l.Ctxs[i].Verbs, int32(r.Verb)) {
			l.Ctxs[i].Verbs = append(l.Ctxs[i].Verbs, int32(r.Verb))
			slices.Sort(l.Ctxs[i].Verbs)
		}
	}
	sortCtxs(l.Ctxs)
	fixWildcardClash(l.Ctxs)
	// lifetime around now
	if rapid.IntRange(0, 9).Draw(t, "lifeOK") < 6 {
		l.Nbf = rapid.SampledFrom([]int64{1, nowSec - 1, nowSec, nowSec}).Draw(t, "nbfOK")
		l.Iat = rapid.SampledFrom([]int64{1, nowSec - 1, nowSec, nowSec}).Draw(t, "iatOK")
		l.Exp = rapid.SampledFrom([]int64{nowSec, nowSec, nowSec + 1, 1 << 40}).Draw(t, "expOK")
	} else {
		d := func(label string) int64 {
			switch rapid.IntRange(0, 9).Draw(t, label+"-cls") {
			case 0:
				return 1
			case 1:
				return 1 << 40
			default:
				return nowSec - 1 + int64(rapid.IntRange(0, 2).Draw(t, label))
			}
		}
		l.Nbf, l.Iat, l.Exp = d("nbf"), d("iat"), d("exp")
	}
	return l
}

// genOrigin draws a token that legitimately delegates to child: child's issuer
// is among its subjects, its contexts authorise every child context (explicit
// container by explicit container, or by the wildcard when the origin has no
// explicit context for that container), its lifetime contains the child's.
func genOrigin(t *rapid.T, child v2Level, depth int) v2Level {
	p := fmt.Sprintf("o%d-", depth)
	o := v2Level{
		Issuer: rapid.IntRange(0, nKeys-1).Draw(t, p+"issuer"),
		Scheme: genScheme().Draw(t, p+"scheme"),
	}
	// subjects
	if child.Issuer == 3 && rapid.Bool().Draw(t, p+"viaNNS") {
		o.Subjects = append(o.Subjects, v2Subject{User: -1, NNS: nnsName})
	} else {
		o.Subjects = append(o.Subjects, v2Subject{User: child.Issuer})
	}
	for range rapid.IntRange(0, 2).Draw(t, p+"extraSubjects") {
		if rapid.IntRange(0, 3).Draw(t, p+"extraNNS") == 0 {
			o.Subjects = append(o.Subjects, v2Subject{User: -1, NNS: "nobody.verif"})
		} else {
			o.Subjects = append(o.Subjects, v2Subject{User: rapid.IntRange(0, nKeys-1).Draw(t, p+"extraSubject")})
		}
	}
	if rapid.Bool().Draw(t, p+"subjFirst") && len(o.Subjects) > 1 {
		o.Subjects[0], o.Subjects[len(o.Subjects)-1] = o.Subjects[len(o.Subjects)-1], o.Subjects[0]
	}
	// contexts
	childHasWild := len(child.Ctxs) > 0 && child.Ctxs[0].Cnr < 0
	wild := childHasWild || rapid.Bool().Draw(t, p+"wild")
	var wildVerbs []int32
	if childHasWild {
		wildVerbs = slices.Clone(child.Ctxs[0].Verbs)
	}
	for _, c := range child.Ctxs {
		if c.Cnr < 0 {
			continue
		}
		if wild && rapid.Bool().Draw(t, fmt.Sprint(p, "byWild", c.Cnr)) {
			for _, v := range c.Verbs {
				if !slices.Contains(wildVerbs, v) {
					wildVerbs = append(wildVerbs, v)
				}
			}
			continue
		}
		vs := slices.Clone(c.Verbs)
		for _, v := range rapid.SliceOfNDistinct(rapid.Int32Range(1, 8), 0, 2, rapid.ID[int32]).Draw(t, fmt.Sprint(p, "extraVerbs", c.Cnr)) {
			if !slices.Contains(vs, v) {
				vs = append(vs, v)
			}
		}
		slices.Sort(vs)
		o.Ctxs = append(o.Ctxs, v2Ctx{Cnr: c.Cnr, Verbs: vs})
	}
	if wild {
		for _, v := range rapid.SliceOfNDistinct(rapid.Int32Range(1, 8), 0, 2, rapid.ID[int32]).Draw(t, p+"extraWildVerbs") {
			if !slices.Contains(wildVerbs, v) {
				wildVerbs = append(wildVerbs, v)
			}
		}
		if len(wildVerbs) == 0 {
			wildVerbs = []int32{int32(rapid.IntRange(1, 8).Draw(t, p+"wildVerb"))}
		}
		slices.Sort(wildVerbs)
		o.Ctxs = append(o.Ctxs, v2Ctx{Cnr: -1, Verbs: wildVerbs})
	}
	if len(o.Ctxs) == 0 { // child had no contexts the origin must cover explicitly
		o.Ctxs = append(o.Ctxs, v2Ctx{Cnr: 2, Verbs: []int32{1}})
	}
	sortCtxs(o.Ctxs)
	fixWildcardClash(o.Ctxs)
	// lifetime containing the child's
	ds := []int64{0, 0, 1, 3600}
	o.Nbf = child.Nbf - rapid.SampledFrom(ds).Draw(t, p+"dNbf")
	o.Exp = child.Exp + rapid.SampledFrom(ds).Draw(t, p+"dExp")
	o.Iat = o.Nbf - int64(rapid.IntRange(0, 1).Draw(t, p+"dIat"))
	if o.Nbf < 1 {
		o.Nbf = 1
	}
	if o.Iat < 1 {
		o.Iat = 1
	}
	return o
}

// ---- building ---------------------------------------------------------------

func (s v2Subject) target() sessionv2.Target {
	if s.User < 0 {
		return sessionv2.NewTargetNamed(s.NNS)
	}
	return sessionv2.NewTargetUser(actors[s.User].id)
}

// buildV2 signs the chain root-first; chain[0] is the root, the last element
// the leaf that is submitted.
func buildV2(chain []v2Level) (*sessionv2.Token, error) {
	var prev *sessionv2.Token
	for _, l := range chain {
		tok := new(sessionv2.Token)
		tok.SetVersion(l.Version)
		if err := tok.SetAppData(l.AppData); err != nil {
			return nil, err
		}
		for _, s := range l.Subjects {
			if err := tok.AddSubject(s.target()); err != nil {
				return nil, err
			}
		}
		for _, c := range l.Ctxs {
			var id cid.ID
			if c.Cnr >= 0 {
				id = cnrs[c.Cnr]
			}
			vs := make([]sessionv2.Verb, len(c.Verbs))
			for i, v := range c.Verbs {
				vs[i] = sessionv2.Verb(v)
			}
			ctx, err := sessionv2.NewContext(id, vs)
			if err != nil {
				return nil, err
			}
			if err := tok.AddContext(ctx); err != nil {
				return nil, err
			}
		}
		tok.SetIat(time.Unix(l.Iat, 0))
		tok.SetNbf(time.Unix(l.Nbf, 0))
		tok.SetExp(time.Unix(l.Exp, 0))
		tok.SetFinal(l.Final)
		if prev != nil {
			tok.SetOrigin(prev)
		}
		if err := tok.Sign(signerFor(actors[l.Issuer], l.Scheme)); err != nil {
			return nil, err
		}
		prev = tok
	}
	return prev, nil
}

// levelMsg returns the message of chain level i (0 = root) inside the leaf message.
func levelMsg(leaf *protosession.SessionTokenV2, n, i int) *protosession.SessionTokenV2 {
	m := leaf
	for k := n - 1; k > i; k-- {
		m = m.Origin
	}
	return m
}

// ---- defects ----------------------------------------------------------------

// structural defects are applied to the chain description BEFORE signing: all
// signatures stay genuine, the chain is not a valid delegation.
var v2Structural = []string{"issuer-not-subject", "verb-broadened", "container-added", "exp-beyond-origin", "nbf-before-origin", "origin-final", "too-deep", "version"}

// post-signing defects break one level's (body, signature) pair.
var v2PostSign = []string{"body", "body", "sig", "forged-issuer", "drop-field", "wire-body", "wire-sig"}

func covers(o v2Level, actor int) bool {
	for _, s := range o.Subjects {
		if s.User == actor || (s.User < 0 && s.NNS == nnsName && actor == 3) {
			return true
		}
	}
	return false
}

// applyStructural returns the label actually applied ("none" when the defect
// does not apply to this chain).
func applyStructural(t *rapid.T, kind string, chain []v2Level) ([]v2Level, string) {
	n := len(chain)
	if kind == "too-deep" {
		for len(chain) < 7 {
			chain = append([]v2Level{genOrigin(t, chain[0], len(chain)+10)}, chain...)
		}
		return chain, kind
	}
	if kind == "version" {
		i := rapid.IntRange(0, n-1).Draw(t, "level")
		chain[i].Version = uint32(rapid.IntRange(1, 3).Draw(t, "version"))
		return chain, kind
	}
	if n < 2 {
		return chain, "none"
	}
	i := rapid.IntRange(1, n-1).Draw(t, "level") // delegated level, its origin is i-1
	o, c := &chain[i-1], &chain[i]
	switch kind {
	case "issuer-not-subject":
		for k := 0; k < nKeys; k++ {
			if !covers(*o, k) {
				c.Issuer = k
				return chain, kind
			}
		}
		return chain, "none"
	case "verb-broadened":
		j := rapid.IntRange(0, len(c.Ctxs)-1).Draw(t, "ctx")
		var granted []int32 // by the origin for this container under any reading
		for _, oc := range o.Ctxs {
			if oc.Cnr < 0 || oc.Cnr == c.Ctxs[j].Cnr {
				granted = append(granted, oc.Verbs...)
			}
		}
		for v := int32(1); v <= 12; v++ {
			if !slices.Contains(granted, v) && !slices.Contains(c.Ctxs[j].Verbs, v) {
				c.Ctxs[j].Verbs = append(slices.Clone(c.Ctxs[j].Verbs), v)
				slices.Sort(c.Ctxs[j].Verbs)
				fixWildcardClash(c.Ctxs)
				return chain, kind
			}
		}
		return chain, "none"
	case "container-added":
		if o.Ctxs[0].Cnr < 0 {
			return chain, "none"
		}
		for k := range cnrs {
			if !slices.ContainsFunc(o.Ctxs, func(x v2Ctx) bool { return x.Cnr == k }) && !slices.ContainsFunc(c.Ctxs, func(x v2Ctx) bool { return x.Cnr == k }) {
				c.Ctxs = append(c.Ctxs, v2Ctx{Cnr: k, Verbs: []int32{int32(rapid.IntRange(1, 6).Draw(t, "addedVerb"))}})
				sortCtxs(c.Ctxs)
				fixWildcardClash(c.Ctxs)
				return chain, kind
			}
		}
		return chain, "none"
	case "exp-beyond-origin":
		o.Exp = c.Exp - 1
		return chain, kind
	case "nbf-before-origin":
		o.Nbf = c.Nbf + 1
		return chain, kind
	case "origin-final":
		o.Final = true
		return chain, kind
	}
	return chain, "none"
}

func applyPostSign(t *rapid.T, kind string, chain []v2Level, leaf *protosession.SessionTokenV2) (ok bool, label string) {
	n := len(chain)
	i := rapid.IntRange(0, n-1).Draw(t, "level")
	m := levelMsg(leaf, n, i)
	spec := chain[i]
	label = fmt.Sprintf("%s@%s", kind, map[bool]string{true: "leaf", false: "origin"}[i == n-1])
	switch kind {
	case "body":
		f := rapid.SampledFrom([]string{"exp+1", "exp-1", "nbf-1", "nbf+1", "iat-1", "verb-add", "verb-drop", "cnr", "subject", "issuer", "final", "appdata", "version"}).Draw(t, "field")
		label = "body:" + f + label[4:]
		b := m.Body
		switch f {
		case "exp+1":
			b.Lifetime.Exp++
		case "exp-1":
			b.Lifetime.Exp--
		case "nbf-1":
			b.Lifetime.Nbf--
		case "nbf+1":
			b.Lifetime.Nbf++
		case "iat-1":
			b.Lifetime.Iat--
		case "verb-add":
			j := rapid.IntRange(0, len(b.Contexts)-1).Draw(t, "ctx")
			for v := int32(1); v <= 12; v++ {
				if !slices.Contains(spec.Ctxs[j].Verbs, v) {
					vs := append(slices.Clone(spec.Ctxs[j].Verbs), v)
					slices.Sort(vs)
					b.Contexts[j].Verbs = nil
					for _, x := range vs {
						b.Contexts[j].Verbs = append(b.Contexts[j].Verbs, protosession.Verb(x))
					}
					break
				}
			}
		case "verb-drop":
			j := rapid.IntRange(0, len(b.Contexts)-1).Draw(t, "ctx")
			if len(b.Contexts[j].Verbs) < 2 {
				b.Contexts[j].Verbs[0] = b.Contexts[j].Verbs[0]%12 + 1
			} else {
				b.Contexts[j].Verbs = b.Contexts[j].Verbs[1:]
			}
		case "cnr":
			j := rapid.IntRange(0, len(b.Contexts)-1).Draw(t, "ctx")
			if b.Contexts[j].Container == nil {
				b.Contexts[j].Container = cnrs[0].ProtoMessage()
			} else {
				b.Contexts[j].Container = nil // explicit -> wildcard
			}
		case "subject":
			cur := spec.Subjects[0]
			for k := 0; k < nKeys; k++ {
				if cur.User != k {
					b.Subjects[0] = &protosession.Target{Identifier: &protosession.Target_OwnerId{OwnerId: actors[k].id.ProtoMessage()}}
					break
				}
			}
		case "issuer":
			b.Issuer = actors[(spec.Issuer+1)%nKeys].id.ProtoMessage()
		case "final":
			b.Final = !b.Final
		case "appdata":
			b.Appdata = append(bytes.Clone(b.Appdata), 0x7f)
		case "version":
			b.Version++
		}
	case "sig":
		label = mutateSignature(t, m.Signature) + label[3:]
	case "forged-issuer":
		k := (spec.Issuer + 1 + rapid.IntRange(0, nKeys-2).Draw(t, "forger")) % nKeys
		var sig neofscrypto.Signature
		if err := sig.Calculate(signerFor(actors[k], genScheme().Draw(t, "forgerScheme")), stable(m.Body)); err != nil {
			t.Fatalf("sign: %v", err)
		}
		m.Signature = sig.ProtoMessage()
	case "drop-field":
		f := rapid.SampledFrom([]string{"body", "issuer", "subjects", "lifetime", "contexts", "signature"}).Draw(t, "drop")
		label = "drop-" + f + label[10:]
		switch f {
		case "body":
			m.Body = nil
		case "issuer":
			m.Body.Issuer = nil
		case "subjects":
			m.Body.Subjects = nil
		case "lifetime":
			m.Body.Lifetime = nil
		case "contexts":
			m.Body.Contexts = nil
		case "signature":
			m.Signature = nil
		}
	case "wire-body":
		raw := stable(m.Body)
		b := flipByte(raw, rapid.IntRange(0, len(raw)-1).Draw(t, "wirePos"), byte(1<<rapid.IntRange(0, 7).Draw(t, "wireBit")))
		nb := new(protosession.SessionTokenV2_Body)
		if proto.Unmarshal(b, nb) != nil {
			return false, "wire-undecodable"
		}
		m.Body = nb
	case "wire-sig":
		raw := stable(m.Signature)
		b := flipByte(raw, rapid.IntRange(0, len(raw)-1).Draw(t, "wirePos"), byte(1<<rapid.IntRange(0, 7).Draw(t, "wireBit")))
		ns := new(refs.Signature)
		if proto.Unmarshal(b, ns) != nil {
			return false, "wire-undecodable"
		}
		m.Signature = ns
	}
	return true, label
}

// ---- the property -----------------------------------------------------------

type v2Case struct {
	chain   []v2Level
	req     v2Req
	nowMs   int64
	nowSec  int64
	msg     *protosession.SessionTokenV2 // nil: undecodable
	label   string
	intact  bool // every level is exactly what its issuer signed and the chain is a valid delegation
	sigsOK  bool // every level's signature/issuer is genuine (AuthenticateTokenV2's scope)
	want    bool
	reasons int
	// ambiguous: the millisecond chain time lies in the upper half of a second
	// and the verdict depends on whether "now" is that second or the next one.
	// The property does not say how a sub-second chain time maps to the whole
	// seconds tokens carry (the service rounds to nearest), so nothing is
	// asserted about acceptance for such cases.
	ambiguous bool
}

func genV2Case(t *rapid.T) v2Case {
	var c v2Case
	off := rapid.SampledFrom([]int64{0, 0, 0, 1, 499, 500, 501, 999}).Draw(t, "nowMsOffset")
	c.nowMs = baseSec*1000 + off
	// The service rounds the millisecond chain time to the nearest second
	// (tokens carry whole seconds); the reference compares against that second.
	c.nowSec = (c.nowMs + 500) / 1000
	c.req = v2Req{Verb: rapid.SampledFrom(reqVerbsV2).Draw(t, "reqVerb"), Cnr: rapid.IntRange(0, 1).Draw(t, "reqCnr")}
	leaf := genLeaf(t, c.req, c.nowSec)
	chain := []v2Level{leaf}
	depth := rapid.SampledFrom([]int{1, 1, 2, 2, 2, 3, 4}).Draw(t, "chainLen")
	for len(chain) < depth {
		chain = append([]v2Level{genOrigin(t, chain[0], len(chain))}, chain...)
	}
	if depth > 1 {
		chain[len(chain)-1].Final = chain[len(chain)-1].Final && rapid.Bool().Draw(t, "keepFinal")
	}

	defect := "none"
	switch rapid.IntRange(0, 9).Draw(t, "defectClass") {
	case 0, 1, 2:
		defect = rapid.SampledFrom(v2Structural).Draw(t, "structural")
		chain, defect = applyStructural(t, defect, chain)
	case 3, 4, 5:
		defect = rapid.SampledFrom(v2PostSign).Draw(t, "postSign")
	}
	c.chain = chain
	tok, err := buildV2(chain)
	if err != nil {
		t.Fatalf("build chain: %v\n%+v", err, chain)
	}
	msg := tok.ProtoMessage()
	orig := stable(msg)
	c.label, c.intact, c.sigsOK = defect, defect == "none", true
	if slices.Contains(v2PostSign, defect) {
		ok, label := applyPostSign(t, defect, chain, msg)
		c.label = label
		if !ok {
			msg = nil
		} else if bytes.Equal(stable(msg), orig) {
			c.label += "-noop"
			c.intact = true
		} else {
			c.sigsOK = false
		}
	}
	c.msg = msg
	l := chain[len(chain)-1]
	life, grant := lifeOKV2(l, c.nowSec), grantsV2(l, c.req)
	c.ambiguous = c.intact && grant && life != lifeOKV2(l, c.nowMs/1000)
	c.want = c.intact && life && grant
	for _, b := range []bool{c.intact, life, grant} {
		if !b {
			c.reasons++
		}
	}
	return c
}

func TestC30SessionV2(t *testing.T) {
	rec := ev.New("C30", "session-v2")
	defer rec.Flush()
	w := newWorld(1024)
	rapid.Check(t, func(t *rapid.T) {
		c := genV2Case(t)
		w.newEpoch(5)
		w.clock.ms.Store(c.nowMs)
		labels := []string{"mut:" + c.label, fmt.Sprintf("reasons:%d", c.reasons), fmt.Sprintf("chain:%d", len(c.chain))}
		if c.want {
			labels = append(labels, "accepted")
		}
		if c.nowMs%1000 != 0 {
			labels = append(labels, "subsecond-now")
		}
		if c.ambiguous {
			labels = append(labels, "subsecond-ambiguous(not asserted)")
		}
		for i := range labels {
			labels[i] = "v2/" + labels[i]
		}
		rec.Case(c.reasons <= 1 && !c.ambiguous, fmt.Sprintf("%+v|%+v|%d|%s", c.chain, c.req, c.nowMs, c.label), labels...)
		if rec.WantSample() {
			rec.Sample(map[string]any{"chain(root..leaf)": fmt.Sprintf("%+v", c.chain), "req": fmt.Sprintf("%+v", c.req), "now_ms": c.nowMs, "defect": c.label, "want_accept": c.want})
		}
		if c.msg == nil {
			return
		}
		got, err := w.svc.VerifySessionTokenMessage(c.msg, c.req.Verb, cnrs[c.req.Cnr])
		if c.ambiguous {
			return
		}
		if (err == nil) != c.want {
			t.Fatalf("VerifySessionTokenMessage: err=%v, reference accept=%v\n chain(root..leaf)=%+v\n request=%+v now=%dms (second %d) defect=%s", err, c.want, c.chain, c.req, c.nowMs, c.nowSec, c.label)
		}
		if err == nil && !bytes.Equal(got.Marshal(), stable(c.msg)) {
			t.Fatalf("accepted token differs from the submitted one")
		}
		_, err2 := w.svc.VerifySessionTokenMessage(c.msg, c.req.Verb, cnrs[c.req.Cnr])
		if (err2 == nil) != c.want {
			t.Fatalf("second (cached) VerifySessionTokenMessage: err=%v, reference accept=%v chain=%+v request=%+v defect=%s", err2, c.want, c.chain, c.req, c.label)
		}
		var dec sessionv2.Token
		if dec.FromProtoMessage(c.msg) == nil {
			aerr := icrypto.AuthenticateTokenV2(&dec, nil)
			if (aerr == nil) != c.sigsOK {
				t.Fatalf("AuthenticateTokenV2: err=%v, genuine signatures=%v defect=%s chain=%+v", aerr, c.sigsOK, c.label, c.chain)
			}
		}
	})
}

package c30

import (
	"bytes"

	"github.com/nspcc-dev/neofs-sdk-go/proto/refs"
	"pgregory.net/rapid"
)

// stable returns the NeoFS stable encoding of m (what the ACL service hashes
// and what the signature is verified against).
func stable(m interface {
	MarshaledSize() int
	MarshalStable([]byte)
}) []byte {
	b := make([]byte, m.MarshaledSize())
	m.MarshalStable(b)
	return b
}

// mutateSignature changes the signature structure in one way. Every result is a
// signature that the issuer did not produce for the body, so a token carrying
// it must be rejected. Returns a label.
func mutateSignature(t *rapid.T, sig *refs.Signature) string {
	kind := rapid.SampledFrom([]string{"sig-flip", "sig-inc", "sig-trunc", "sig-extend", "key-swap", "key-flip", "scheme-ecdsa", "scheme-n3", "scheme-unknown", "sig-empty", "key-empty"}).Draw(t, "sigmut")
	switch kind {
	case "sig-flip":
		if len(sig.Sign) == 0 {
			sig.Sign = []byte{1}
			break
		}
		pos := rapid.IntRange(0, len(sig.Sign)-1).Draw(t, "pos")
		sig.Sign = flipByte(sig.Sign, pos, byte(1<<rapid.IntRange(0, 7).Draw(t, "bit")))
	case "sig-inc":
		if len(sig.Sign) == 0 {
			sig.Sign = []byte{1}
			break
		}
		pos := rapid.IntRange(0, len(sig.Sign)-1).Draw(t, "pos")
		sig.Sign = bytes.Clone(sig.Sign)
		sig.Sign[pos]++
	case "sig-trunc":
		if len(sig.Sign) > 0 {
			sig.Sign = bytes.Clone(sig.Sign[:len(sig.Sign)-1])
		} else {
			sig.Sign = []byte{1}
		}
	case "sig-extend":
		sig.Sign = append(bytes.Clone(sig.Sign), byte(rapid.IntRange(0, 255).Draw(t, "b")))
	case "key-swap":
		// public key of another actor (the signature value stays)
		for {
			k := actors[rapid.IntRange(0, nKeys-1).Draw(t, "k")].pub
			if !bytes.Equal(k, sig.Key) {
				sig.Key = bytes.Clone(k)
				break
			}
		}
	case "key-flip":
		if len(sig.Key) == 0 {
			sig.Key = []byte{2}
			break
		}
		pos := rapid.IntRange(0, len(sig.Key)-1).Draw(t, "pos")
		sig.Key = flipByte(sig.Key, pos, byte(1<<rapid.IntRange(0, 7).Draw(t, "bit")))
	case "scheme-ecdsa":
		sig.Scheme = refs.SignatureScheme((int32(sig.Scheme) + int32(rapid.IntRange(1, 2).Draw(t, "d"))) % 3)
	case "scheme-n3":
		sig.Scheme = refs.SignatureScheme_N3
	case "scheme-unknown":
		sig.Scheme = refs.SignatureScheme(rapid.SampledFrom([]int32{4, 5, 100, 1 << 30}).Draw(t, "scheme"))
	case "sig-empty":
		sig.Sign = nil
	case "key-empty":
		sig.Key = nil
	}
	return kind
}

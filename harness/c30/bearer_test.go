package c30

import (
	"bytes"
	"context"
	"fmt"
	"testing"

	"github.com/google/uuid"
	icrypto "github.com/nspcc-dev/neofs-node/internal/crypto"
	"github.com/nspcc-dev/neofs-node/pkg/services/object/common"
	"github.com/nspcc-dev/neofs-node/verifharness/ev"
	"github.com/nspcc-dev/neofs-sdk-go/bearer"
	"github.com/nspcc-dev/neofs-sdk-go/container/acl"
	neofscrypto "github.com/nspcc-dev/neofs-sdk-go/crypto"
	neofsecdsa "github.com/nspcc-dev/neofs-sdk-go/crypto/ecdsa"
	"github.com/nspcc-dev/neofs-sdk-go/eacl"
	protoacl "github.com/nspcc-dev/neofs-sdk-go/proto/acl"
	protoobject "github.com/nspcc-dev/neofs-sdk-go/proto/object"
	"github.com/nspcc-dev/neofs-sdk-go/proto/refs"
	protosession "github.com/nspcc-dev/neofs-sdk-go/proto/session"
	"github.com/nspcc-dev/neofs-sdk-go/session"
	"github.com/nspcc-dev/neofs-sdk-go/user"
	"google.golang.org/protobuf/proto"
	"pgregory.net/rapid"
)

type bRecord struct {
	Deny   bool
	Op     int // eacl.Operation
	Others bool
	Acc    int
}

type bSpec struct {
	Issuer        int
	Scheme        neofscrypto.Scheme
	Target        int // -1: any user
	Cnr           int // -1: any container of the issuer
	Records       []bRecord
	Iat, Nbf, Exp uint64
}

type bReq struct {
	Kind    string // which RPC
	Sender  int    // request signer
	Session int    // -1, or issuer of a v1 session token attached to the request
	Cnr     int
	Owner   int // owner of the requested container
}

var bKinds = []string{"get", "head", "range", "delete", "search", "put"}

func refBearerLife(s bSpec, cur uint64) bool { return s.Nbf <= cur && s.Iat <= cur && cur <= s.Exp }

// refBearerRelation: the token replaces the container's eACL only when it was
// issued by the container owner, for this container (or any), for this sender
// (or any). The sender is the session issuer when the request is sent within a
// session.
func refBearerRelation(s bSpec, r bReq) (issuer, cnr, usr bool) {
	sender := r.Sender
	if r.Session >= 0 {
		sender = r.Session
	}
	return s.Issuer == r.Owner, s.Cnr < 0 || s.Cnr == r.Cnr, s.Target < 0 || s.Target == sender
}

func genBearer(t *rapid.T, r bReq, cur uint64) bSpec {
	s := bSpec{Scheme: genScheme().Draw(t, "scheme")}
	pick := func(label string, match, lo, hi int) int {
		if rapid.IntRange(0, 9).Draw(t, label+"Match") < 7 {
			if lo < 0 && rapid.Bool().Draw(t, label+"Any") {
				return -1
			}
			return match
		}
		return rapid.IntRange(lo, hi).Draw(t, label)
	}
	sender := r.Sender
	if r.Session >= 0 {
		sender = r.Session
	}
	s.Issuer = pick("issuer", r.Owner, 0, nKeys-1)
	s.Target = pick("target", sender, -1, nKeys-1)
	s.Cnr = pick("cnr", r.Cnr, -1, 1)
	n := rapid.IntRange(0, 2).Draw(t, "records")
	for i := 0; i < n; i++ {
		s.Records = append(s.Records, bRecord{
			Deny: rapid.Bool().Draw(t, "deny"), Op: rapid.IntRange(1, 7).Draw(t, "op"),
			Others: rapid.Bool().Draw(t, "others"), Acc: rapid.IntRange(0, nKeys-1).Draw(t, "acc"),
		})
	}
	if rapid.IntRange(0, 9).Draw(t, "lifeOK") < 6 {
		s.Nbf = rapid.SampledFrom([]uint64{0, cur - 1, cur, cur}).Draw(t, "nbfOK")
		s.Iat = rapid.SampledFrom([]uint64{0, cur - 1, cur, cur}).Draw(t, "iatOK")
		s.Exp = rapid.SampledFrom([]uint64{cur, cur, cur + 1, ^uint64(0)}).Draw(t, "expOK")
	} else {
		s.Nbf, s.Iat, s.Exp = around(t, cur, "nbf"), around(t, cur, "iat"), around(t, cur, "exp")
	}
	return s
}

func buildBearer(s bSpec) (bearer.Token, error) {
	var rs []eacl.Record
	for _, r := range s.Records {
		a := eacl.ActionAllow
		if r.Deny {
			a = eacl.ActionDeny
		}
		tg := eacl.NewTargetByRole(eacl.RoleOthers)
		if !r.Others {
			tg = eacl.NewTargetByAccounts([]user.ID{actors[r.Acc].id})
		}
		rs = append(rs, eacl.ConstructRecord(a, eacl.Operation(r.Op), []eacl.Target{tg}))
	}
	tbl := eacl.ConstructTable(rs)
	if s.Cnr >= 0 {
		tbl.SetCID(cnrs[s.Cnr])
	}
	var tok bearer.Token
	tok.SetEACLTable(tbl)
	if s.Target >= 0 {
		tok.ForUser(actors[s.Target].id)
	}
	tok.SetIat(s.Iat)
	tok.SetNbf(s.Nbf)
	tok.SetExp(s.Exp)
	err := tok.Sign(signerFor(actors[s.Issuer], s.Scheme))
	return tok, err
}

var bMutations = []string{"none", "none", "none", "none", "none", "none",
	"exp+1", "exp-1", "nbf-1", "iat-1", "target", "issuer", "table-cnr", "record-action", "record-drop", "record-add",
	"sig", "sig", "forged-issuer", "drop-field", "wire", "wire"}

func mutateBearer(t *rapid.T, kind string, s bSpec, m *protoacl.BearerToken) (*protoacl.BearerToken, string) {
	orig := stable(m)
	c := proto.Clone(m).(*protoacl.BearerToken)
	lt := c.Body.Lifetime
	if lt == nil {
		lt = new(protoacl.BearerToken_Body_TokenLifetime)
	}
	label := kind
	switch kind {
	case "none":
	case "exp+1":
		c.Body.Lifetime = lt
		lt.Exp++
	case "exp-1":
		c.Body.Lifetime = lt
		lt.Exp--
	case "nbf-1":
		c.Body.Lifetime = lt
		lt.Nbf--
	case "iat-1":
		c.Body.Lifetime = lt
		lt.Iat--
	case "target":
		if s.Target >= 0 && rapid.Bool().Draw(t, "dropTarget") {
			c.Body.OwnerId = nil
		} else {
			c.Body.OwnerId = actors[(s.Target+1+nKeys)%nKeys].id.ProtoMessage()
		}
	case "issuer":
		c.Body.Issuer = actors[(s.Issuer+1)%nKeys].id.ProtoMessage()
	case "table-cnr":
		if s.Cnr >= 0 && rapid.Bool().Draw(t, "dropCnr") {
			c.Body.EaclTable.ContainerId = nil
		} else {
			c.Body.EaclTable.ContainerId = cnrs[(s.Cnr+1+len(cnrs))%len(cnrs)].ProtoMessage()
		}
	case "record-action":
		if len(c.Body.EaclTable.Records) == 0 {
			label = "none"
			break
		}
		r := c.Body.EaclTable.Records[0]
		r.Action = 3 - r.Action // allow <-> deny
	case "record-drop":
		if len(c.Body.EaclTable.Records) == 0 {
			label = "none"
			break
		}
		c.Body.EaclTable.Records = c.Body.EaclTable.Records[1:]
	case "record-add":
		c.Body.EaclTable.Records = append(c.Body.EaclTable.Records, &protoacl.EACLRecord{Operation: protoacl.Operation_GET, Action: protoacl.Action_ALLOW,
			Targets: []*protoacl.EACLRecord_Target{{Role: protoacl.Role_OTHERS}}})
	case "sig":
		label = mutateSignature(t, c.Signature)
	case "forged-issuer":
		k := (s.Issuer + 1 + rapid.IntRange(0, nKeys-2).Draw(t, "forger")) % nKeys
		var sig neofscrypto.Signature
		if err := sig.Calculate(signerFor(actors[k], genScheme().Draw(t, "forgerScheme")), stable(c.Body)); err != nil {
			t.Fatalf("sign: %v", err)
		}
		c.Signature = sig.ProtoMessage()
	case "drop-field":
		f := rapid.SampledFrom([]string{"body", "table", "issuer", "lifetime", "signature"}).Draw(t, "drop")
		label = "drop-" + f
		switch f {
		case "body":
			c.Body = nil
		case "table":
			c.Body.EaclTable = nil
		case "issuer":
			c.Body.Issuer = nil
		case "lifetime":
			c.Body.Lifetime = nil
		case "signature":
			c.Signature = nil
		}
	case "wire":
		pos := rapid.IntRange(0, len(orig)-1).Draw(t, "wirePos")
		b := flipByte(orig, pos, byte(1<<rapid.IntRange(0, 7).Draw(t, "wireBit")))
		c = new(protoacl.BearerToken)
		if err := proto.Unmarshal(b, c); err != nil {
			return nil, "wire-undecodable"
		}
	}
	if label != "none" && bytes.Equal(stable(c), orig) {
		label += "-noop"
	}
	return c, label
}

// requestToInfo sends the (already verified) bearer token through the exported
// entry point the object server uses for the RPC kind.
func requestToInfo(t *rapid.T, w *world, r bReq, bt *bearer.Token, mbt *protoacl.BearerToken) error {
	signer := signerFor(actors[r.Sender], schemes[1])
	meta := &protosession.RequestMetaHeader{Ttl: 2, BearerToken: mbt}
	tokens := common.RequestTokens{Bearer: bt}
	if r.Session >= 0 {
		var st session.Object
		st.SetID(uuid.UUID{0: 1, 6: 0x40, 8: 0x80})
		st.ForVerb(session.VerbObjectGet)
		st.BindContainer(cnrs[r.Cnr])
		st.SetExp(^uint64(0))
		st.SetAuthKey((*neofsecdsa.PublicKey)(&actors[r.Sender].priv.PublicKey))
		if err := st.Sign(signerFor(actors[r.Session], schemes[1])); err != nil {
			t.Fatalf("sign session: %v", err)
		}
		meta.SessionToken = st.ProtoMessage()
		tokens.SessionV1 = &st
	}
	addr := &refs.Address{ContainerId: cnrs[r.Cnr].ProtoMessage(), ObjectId: objs[0].ProtoMessage()}
	ctx := context.Background()
	var err error
	sign := func(vh **protosession.RequestVerificationHeader, f func() (*protosession.RequestVerificationHeader, error)) {
		h, serr := f()
		if serr != nil {
			t.Fatalf("sign request: %v", serr)
		}
		*vh = h
	}
	switch r.Kind {
	case "get":
		req := &protoobject.GetRequest{Body: &protoobject.GetRequest_Body{Address: addr}, MetaHeader: meta}
		sign(&req.VerifyHeader, func() (*protosession.RequestVerificationHeader, error) {
			return neofscrypto.SignRequestWithBuffer(signer, req, nil)
		})
		_, err = w.svc.GetRequestToInfo(ctx, req, cnrs[r.Cnr], tokens)
	case "head":
		req := &protoobject.HeadRequest{Body: &protoobject.HeadRequest_Body{Address: addr}, MetaHeader: meta}
		sign(&req.VerifyHeader, func() (*protosession.RequestVerificationHeader, error) {
			return neofscrypto.SignRequestWithBuffer(signer, req, nil)
		})
		_, err = w.svc.HeadRequestToInfo(ctx, req, cnrs[r.Cnr], tokens)
	case "range":
		req := &protoobject.GetRangeRequest{Body: &protoobject.GetRangeRequest_Body{Address: addr, Range: &protoobject.Range{Length: 1}}, MetaHeader: meta}
		sign(&req.VerifyHeader, func() (*protosession.RequestVerificationHeader, error) {
			return neofscrypto.SignRequestWithBuffer(signer, req, nil)
		})
		_, err = w.svc.RangeRequestToInfo(ctx, req, cnrs[r.Cnr], tokens)
	case "delete":
		req := &protoobject.DeleteRequest{Body: &protoobject.DeleteRequest_Body{Address: addr}, MetaHeader: meta}
		sign(&req.VerifyHeader, func() (*protosession.RequestVerificationHeader, error) {
			return neofscrypto.SignRequestWithBuffer(signer, req, nil)
		})
		_, err = w.svc.DeleteRequestToInfo(ctx, req, cnrs[r.Cnr], tokens)
	case "search":
		req := &protoobject.SearchV2Request{Body: &protoobject.SearchV2Request_Body{ContainerId: cnrs[r.Cnr].ProtoMessage(), Count: 1}, MetaHeader: meta}
		sign(&req.VerifyHeader, func() (*protosession.RequestVerificationHeader, error) {
			return neofscrypto.SignRequestWithBuffer(signer, req, nil)
		})
		_, err = w.svc.SearchV2RequestToInfo(ctx, req, cnrs[r.Cnr], tokens)
	case "put":
		init := &protoobject.PutRequest_Body_Init{Header: &protoobject.Header{ContainerId: cnrs[r.Cnr].ProtoMessage(), OwnerId: actors[r.Sender].id.ProtoMessage()}}
		req := &protoobject.PutRequest{Body: &protoobject.PutRequest_Body{ObjectPart: &protoobject.PutRequest_Body_Init_{Init: init}}, MetaHeader: meta}
		sign(&req.VerifyHeader, func() (*protosession.RequestVerificationHeader, error) {
			return neofscrypto.SignRequestWithBuffer(signer, req, nil)
		})
		_, _, err = w.svc.PutRequestToInfo(ctx, req, init, cnrs[r.Cnr], acl.OpObjectPut, tokens)
	}
	return err
}

func TestC30Bearer(t *testing.T) {
	rec := ev.New("C30", "bearer")
	defer rec.Flush()
	w := newWorld(1024)
	rapid.Check(t, func(t *rapid.T) {
		cur := rapid.SampledFrom(curEpochs).Draw(t, "epoch")
		w.newEpoch(cur)
		r := bReq{
			Kind:    rapid.SampledFrom(bKinds).Draw(t, "kind"),
			Sender:  rapid.IntRange(0, nKeys-1).Draw(t, "sender"),
			Session: -1,
			Cnr:     rapid.IntRange(0, 1).Draw(t, "reqCnr"),
			Owner:   rapid.IntRange(0, nKeys-1).Draw(t, "owner"),
		}
		if rapid.IntRange(0, 3).Draw(t, "withSession") == 0 {
			r.Session = rapid.IntRange(0, nKeys-1).Draw(t, "sessionIssuer")
		}
		w.cnrs.m[cnrs[r.Cnr]] = testContainer(actors[r.Owner])
		w.cnrs.m[cnrs[1-r.Cnr]] = testContainer(actors[(r.Owner+1)%nKeys])

		s := genBearer(t, r, cur)
		tok, err := buildBearer(s)
		if err != nil {
			t.Fatalf("build bearer: %v", err)
		}
		m0 := tok.ProtoMessage()
		kind := rapid.SampledFrom(bMutations).Draw(t, "mutation")
		m, label := mutateBearer(t, kind, s, m0)
		intact := m != nil && bytes.Equal(stable(m), stable(m0))
		life := refBearerLife(s, cur)
		rIssuer, rCnr, rUser := refBearerRelation(s, r)
		reasons := 0
		for _, b := range []bool{intact, life, rIssuer, rCnr, rUser} {
			if !b {
				reasons++
			}
		}
		wantToken := intact && life
		want := wantToken && rIssuer && rCnr && rUser
		labels := []string{"mut:" + label, fmt.Sprintf("reasons:%d", min(reasons, 3)), "rpc:" + r.Kind}
		if want {
			labels = append(labels, "accepted")
		}
		if r.Session >= 0 {
			labels = append(labels, "with-session")
		}
		var body []byte
		if m != nil && m.Body != nil {
			body = stable(m.Body)
		}
		for i := range labels {
			labels[i] = "b/" + labels[i]
		}
		rec.Case(reasons <= 1, fmt.Sprintf("%+v|%+v|%d|%s|%x", s, r, cur, label, body), labels...)
		if rec.WantSample() {
			rec.Sample(map[string]any{"token": fmt.Sprintf("%+v", s), "req": fmt.Sprintf("%+v", r), "epoch": cur, "mutation": label, "want_accept": want})
		}
		if m == nil {
			return
		}

		got, err := w.svc.VerifyBearerTokenMessage(m)
		if (err == nil) != wantToken {
			t.Fatalf("VerifyBearerTokenMessage: err=%v, reference accept=%v\n token=%+v epoch=%d mutation=%s", err, wantToken, s, cur, label)
		}
		_, err2 := w.svc.VerifyBearerTokenMessage(m)
		if (err2 == nil) != wantToken {
			t.Fatalf("second (cached) VerifyBearerTokenMessage: err=%v, reference accept=%v token=%+v epoch=%d mutation=%s", err2, wantToken, s, cur, label)
		}
		var dec bearer.Token
		if dec.FromProtoMessage(m) == nil {
			aerr := icrypto.AuthenticateToken(&dec, nil)
			if (aerr == nil) != intact {
				t.Fatalf("AuthenticateToken(bearer): err=%v, intact=%v mutation=%s token=%+v", aerr, intact, label, s)
			}
		}
		if err != nil {
			return // the server stops here
		}
		if !bytes.Equal(got.Marshal(), stable(m)) {
			t.Fatalf("accepted bearer token differs from the submitted one")
		}
		rerr := requestToInfo(t, w, r, &got, m)
		if (rerr == nil) != want {
			t.Fatalf("%s RequestToInfo with bearer: err=%v, reference accept=%v (issuer==owner %v, container %v, user %v)\n token=%+v\n request=%+v", r.Kind, rerr, want, rIssuer, rCnr, rUser, s, r)
		}
	})
}

// Package c45 decides property C45: while the local node is in maintenance,
// every client object operation (get, head, range, put, delete, search) is
// refused with the NODE_UNDER_MAINTENANCE status and touches neither local
// storage nor other nodes; only client operations are refused (Replicate is not).
//
// The server under test is the real object.Server built by harness/objsrv (the
// C29 harness) with FSChain.LocalNodeUnderMaintenance() switched on. Oracle:
// the same generated request (valid, access-denied, bad token, badly signed) is
// sent with maintenance off (the effect of a valid one must be observable) and
// on (exactly the maintenance status, empty effect log including ACL reads;
// badly signed requests may get the signature failure status instead).
package c45

import (
	"fmt"
	"os"
	"strings"
	"testing"

	"github.com/nspcc-dev/neofs-node/verifharness/ev"
	"github.com/nspcc-dev/neofs-node/verifharness/objsrv"
	"pgregory.net/rapid"
)

func newEnv(t *testing.T) *objsrv.Env {
	dir, err := os.MkdirTemp("", "c45-")
	if err != nil {
		ev.Inconclusive("temp dir: %v", err)
	}
	t.Cleanup(func() { os.RemoveAll(dir) })
	env, err := objsrv.NewEnv(dir)
	if err != nil {
		ev.Inconclusive("cannot build the object server harness: %v", err)
	}
	t.Cleanup(env.Close)
	infos, problems := objsrv.Methods()
	if len(problems) > 0 {
		ev.Inconclusive("object service methods not covered by the harness: %s", strings.Join(problems, "; "))
	}
	// every client operation of the service must be one the generator can produce
	seen := map[objsrv.Op]bool{}
	for _, m := range infos {
		if m.Class == objsrv.ClassClientOp {
			seen[m.Op] = true
		}
	}
	for op := objsrv.Op(0); op < objsrv.NumOps; op++ {
		if !seen[op] {
			ev.Inconclusive("client operation %v has no handler in the service any more", op)
		}
	}
	return env
}

func expectedEffect(op objsrv.Op) string {
	switch op {
	case objsrv.OpGet:
		return "handler.Get"
	case objsrv.OpHead:
		return "handler.Head"
	case objsrv.OpRange:
		return "handler.GetRange"
	case objsrv.OpDelete:
		return "handler.Delete"
	case objsrv.OpSearch:
		return "storage.SearchObjects"
	}
	return "put.init"
}

// In every client handler of the unchanged tree the maintenance probe is the
// second step, right after request signature verification (Put: per stream
// message). So in maintenance EVERY authentic client request - valid, denied
// by basic ACL / sticky bit / eACL, or carrying a bad session / bearer token -
// must be answered with exactly NODE_UNDER_MAINTENANCE before any token or
// access evaluation (which may read object headers from local storage or other
// nodes). Documented exception: a request whose signatures do not verify may
// be answered with the signature failure status instead; it must touch nothing either.
func refusedClasses() []objsrv.Defect {
	res := []objsrv.Defect{objsrv.DefNone}
	for _, d := range objsrv.AllDefects() {
		res = append(res, d)
	}
	return res
}

func TestC45ClientOps(t *testing.T) {
	rec := ev.New("C45", "clientops")
	defer rec.Flush()
	env := newEnv(t)
	defects := refusedClasses()
	rapid.Check(t, func(t *rapid.T) {
		s := objsrv.GenSpec(t, defects)
		valid := s.Defect == objsrv.DefNone
		lbl := []string{"op:" + s.Op.String(), "class:" + s.Defect.String(), fmt.Sprintf("ttl:%d", s.TTL), fmt.Sprintf("cnr:%d", s.Cnr)}
		if s.Trusted {
			lbl = append(lbl, "trusted-peer")
		}
		if s.Session != objsrv.SessionNone || s.Bearer {
			lbl = append(lbl, "with-token")
		}
		rec.Case(true, s.Fingerprint(), lbl...)

		// maintenance off: the effect of the operation is observable by the harness
		env.SetMaintenance(false)
		off := env.Invoke(env.U.Build(s))
		if valid && !objsrv.HasWhat(objsrv.OfKind(off.Events, objsrv.KindEffect), expectedEffect(s.Op)) {
			ev.Inconclusive("a request built as valid shows no %q effect with maintenance off: %v\n%v", expectedEffect(s.Op), s, off)
		}
		if len(objsrv.OfKind(off.Events, objsrv.KindACLRead)) > 0 {
			rec.Label("acl-reads-storage-when-not-in-maintenance")
		}

		// maintenance on
		env.SetMaintenance(true)
		on := env.Invoke(env.U.Build(s))
		env.SetMaintenance(false)
		if rec.WantSample() {
			rec.Sample(map[string]any{"request": s.String(), "off_status": off.Status, "off_events": off.Events, "on_status": on.Status, "on_events": on.Events})
		}
		fail := func(format string, a ...any) {
			t.Fatalf("C45 violated: %s\nrequest: %v\nin maintenance: %v\nwithout maintenance: %v", fmt.Sprintf(format, a...), s, on, off)
		}
		if on.Panic != nil {
			fail("handler panicked: %v", on.Panic)
		}
		if touched := objsrv.OfKind(on.Events, objsrv.KindEffect, objsrv.KindACLRead); len(touched) > 0 {
			fail("operation touched local storage / other nodes / the response stream while in maintenance:\n%s", objsrv.Format(touched))
		}
		if !on.Failed() {
			fail("operation was not refused while in maintenance")
		}
		switch {
		case s.Defect.IsSignature():
			if on.Err != nil || (on.Status != objsrv.StatusMaintenance && on.Status != objsrv.StatusSignature) {
				fail("badly signed client operation refused with status %d (err %v): neither NODE_UNDER_MAINTENANCE (%d) nor the signature failure (%d)",
					on.Status, on.Err, objsrv.StatusMaintenance, objsrv.StatusSignature)
			}
		case on.Status != objsrv.StatusMaintenance || on.Err != nil:
			fail("authentic client operation (%v) refused with status %d %q (err %v) instead of NODE_UNDER_MAINTENANCE (%d)", s.Defect, on.Status, on.StatusMsg, on.Err, objsrv.StatusMaintenance)
		}
		rec.Label(fmt.Sprintf("on-status:%d", on.Status))
	})
}

// TestC45Replicate: replication between container nodes is not a client
// operation; maintenance must not change its outcome.
func TestC45Replicate(t *testing.T) {
	rec := ev.New("C45", "replicate")
	defer rec.Flush()
	env := newEnv(t)
	rapid.Check(t, func(t *rapid.T) {
		ci := rapid.IntRange(0, objsrv.NumContainers-1).Draw(t, "cnr")
		payload := rapid.SliceOfN(rapid.Byte(), 0, 100).Draw(t, "payload")
		sign := rapid.Bool().Draw(t, "signObject")
		rec.Case(true, fmt.Sprintf("%d|%x|%v", ci, payload, sign), fmt.Sprintf("cnr:%d", ci))
		// SignObject needs the meta service (nil in the harness): keep it off, it is not the subject
		_ = sign
		req := env.U.ReplicateRequest(ci, payload, false)
		env.SetMaintenance(false)
		off := env.InvokeReplicate(req)
		env.SetMaintenance(true)
		on := env.InvokeReplicate(req)
		env.SetMaintenance(false)
		if !objsrv.HasWhat(off.Events, "storage.VerifyAndStoreObjectLocally") || off.Failed() {
			ev.Inconclusive("a replication request built as valid is not accepted with maintenance off: %v", off)
		}
		if on.Status == objsrv.StatusMaintenance {
			t.Fatalf("C45 violated: Replicate refused with NODE_UNDER_MAINTENANCE\n%v", on)
		}
		if on.Failed() || !objsrv.HasWhat(on.Events, "storage.VerifyAndStoreObjectLocally") {
			t.Fatalf("C45 violated: maintenance changed the outcome of Replicate\nin maintenance: %v\nwithout: %v", on, off)
		}
	})
}

package c12

import (
	"fmt"
	"os"
	"testing"
	"time"

	"pgregory.net/rapid"
	"github.com/nspcc-dev/neofs-node/verifharness/sysinject"
)

func TestDebugTiming(t *testing.T) {
	rapid.Check(t, func(rt *rapid.T) {
		w := genWorkload(rt)
		objs := w.spec.Universe()
		t0 := time.Now()
		res, _, _, dir, err := runOne(w, objs, nil)
		if err != nil { t.Fatal(err) }
		fmt.Println("dry total", time.Since(t0), "strace wall", res.Wall, "events", len(res.Events), "parseErrs", res.ParseErrs)
		os.WriteFile("/tmp/c12-dry.trace", res.RawTrace, 0644)
		os.RemoveAll(dir)
		t0 = time.Now()
		res, _, _, dir, err = runOne(w, objs, []sysinject.Inject{{Syscall: "linkat", Signal: "SIGKILL", When: "1"}})
		if err != nil { t.Fatal(err) }
		fmt.Println("kill total", time.Since(t0), "strace wall", res.Wall, "events", len(res.Events), res.Signal, res.ExitCode)
		os.RemoveAll(dir)
	})
}

// Package c12 decides property C12: a crash (process stop) at any syscall
// boundary of a single / batched blob write or a deletion never exposes
// partial or foreign object bytes, acknowledged writes stay readable, and
// leftover temporary files never show up.
//
// Technique: crash-point enumeration with strace (sysinject). For a generated
// sequential workload a dry traced run lists every file syscall between the
// "start" and "closed" markers; the helper is then re-run once per
// (syscall, per-thread ordinal) with SIGKILL attached to that call (the kill
// is delivered BEFORE the syscall executes). After each crash the test process
// reopens the tree as a starting node does and checks it (fshelper.Verify).
package c12

import (
	"fmt"
	"os"
	"runtime"
	"sort"
	"strings"
	"sync"
	"testing"
	"time"

	"github.com/nspcc-dev/neofs-node/verifharness/ev"
	"github.com/nspcc-dev/neofs-node/verifharness/fshelper"
	"github.com/nspcc-dev/neofs-node/verifharness/fsobj"
	"github.com/nspcc-dev/neofs-node/verifharness/sysinject"
	"pgregory.net/rapid"
)

func TestMain(m *testing.M) {
	if sysinject.IsHelper() {
		fshelper.Main()
	}
	os.Exit(m.Run())
}

// workload is one generated case.
type workload struct {
	spec fshelper.Spec
	pre  []int
}

func (w *workload) String() string {
	var ops []string
	for _, o := range w.spec.FlatOps() {
		ops = append(ops, o.String())
	}
	var sz []string
	for i, o := range w.spec.Objects {
		z := ""
		if o.Compress {
			z = "z"
		}
		sz = append(sz, fmt.Sprintf("#%d:p%d%s", i, o.Payload, z))
	}
	return fmt.Sprintf("%s pre=%v ops=%s objects=[%s]", w.spec.String(), w.pre, strings.Join(ops, " "), strings.Join(sz, " "))
}

const (
	nObjects   = 12
	runTimeout = 60 * time.Second
)

func genWorkload(t *rapid.T, first bool) *workload {
	w := &workload{}
	s := &w.spec
	s.Depth = rapid.IntRange(0, 2).Draw(t, "depth")
	s.Generic = rapid.IntRange(0, 2).Draw(t, "writer") == 0
	if first {
		// the first workload of a shard takes its writer from the shard number, so that even a run that is cut
		// to one workload per shard by the time budget covers both writers (deterministic partition, like an
		// enumeration over shards)
		k, _ := ev.Shard()
		s.Generic = k%2 == 1
	}
	s.CntLim = rapid.SampledFrom([]int{1, 2, 3, 128}).Draw(t, "cntLim")
	s.Thr = rapid.SampledFrom([]int{400, 2048, 128 << 10}).Draw(t, "thr")
	s.SizeLim = rapid.SampledFrom([]int{300, 1500, 8 << 20}).Draw(t, "sizeLim")
	s.NoSync = rapid.IntRange(0, 3).Draw(t, "noSync") == 0
	s.IntervalUs = 300
	s.WatchdogMs = 10000
	s.OpMarks = true
	// no padding here (fshelper.Spec.Pad): with signal injection the pad calls themselves would be the kill point
	seed := rapid.Uint64().Draw(t, "seed")
	for i := 0; i < nObjects; i++ {
		o := fsobj.Spec{Idx: i, Seed: seed, Cnr: i % 2}
		switch rapid.IntRange(0, 5).Draw(t, "sizeClass") {
		case 0:
			o.Payload = 0
		case 1, 2:
			o.Payload = rapid.IntRange(1, 250).Draw(t, "payload")
		case 3:
			o.Payload = max(1, s.Thr-150+rapid.IntRange(-40, 40).Draw(t, "payloadAroundThr"))
		case 4:
			o.Payload = rapid.IntRange(251, 5000).Draw(t, "payload")
		default:
			o.Payload = rapid.IntRange(5001, 70000).Draw(t, "payload")
		}
		o.Compress = rapid.IntRange(0, 5).Draw(t, "compress") == 0
		o.Repetitive = o.Compress
		s.Objects = append(s.Objects, o)
	}
	w.pre = rapid.SliceOfNDistinct(rapid.IntRange(0, nObjects-1), 0, 4, rapid.ID[int]).Draw(t, "pre")
	sort.Ints(w.pre)
	nops := rapid.IntRange(2, 6).Draw(t, "nops")
	var ops []fshelper.Op
	for k := 0; k < nops; k++ {
		switch rapid.SampledFrom([]string{"batch", "batch", "batch", "batchmap", "put", "put", "put", "delete"}).Draw(t, "kind") {
		case "batch":
			n := rapid.IntRange(1, 8).Draw(t, "n")
			ops = append(ops, fshelper.Op{Kind: fshelper.OpBatch, Objs: rapid.Permutation(seq(nObjects)).Draw(t, "members")[:n]})
		case "batchmap":
			n := rapid.IntRange(1, 8).Draw(t, "n")
			m := append([]int(nil), rapid.Permutation(seq(nObjects)).Draw(t, "members")[:n]...)
			sort.Ints(m)
			ops = append(ops, fshelper.Op{Kind: fshelper.OpBatchMap, Objs: m})
		case "put":
			ops = append(ops, fshelper.Op{Kind: fshelper.OpPut, Objs: []int{rapid.IntRange(0, nObjects-1).Draw(t, "i")}})
		default:
			ops = append(ops, fshelper.Op{Kind: fshelper.OpDelete, Objs: []int{rapid.IntRange(0, nObjects-1).Draw(t, "i")}})
		}
	}
	s.Phases = []fshelper.Phase{{Workers: [][]fshelper.Op{ops}}}
	return w
}

// reputOps marks the operations that store an object whose earlier write was acknowledged (pre-stored or written by
// an earlier operation) – whether or not it was deleted in between (delete+put is one of the wanted histories).
func reputOps(w *workload) map[int]bool {
	acked := map[int]bool{}
	for _, i := range w.pre {
		acked[i] = true
	}
	r := map[int]bool{}
	for k, op := range w.spec.FlatOps() {
		if op.Kind == fshelper.OpDelete {
			continue
		}
		for _, i := range op.Objs {
			if acked[i] {
				r[k] = true
			}
		}
		for _, i := range op.Objs {
			acked[i] = true
		}
	}
	return r
}

// genReput builds workloads around re-puts of acknowledged objects: 3-5 pre-stored objects (always one above the
// combined threshold = single-file writer, one below = combined writer), and 3-6 operations drawn from: put of a
// pre-stored big object, put of a pre-stored small object, batch containing pre-stored objects, delete followed by
// put of the same object, put of a new object twice.
func genReput(t *rapid.T, first bool) *workload {
	w := &workload{}
	s := &w.spec
	s.Depth = rapid.IntRange(0, 2).Draw(t, "depth")
	s.Generic = rapid.IntRange(0, 3).Draw(t, "writer") == 0
	if first {
		s.Generic = false // the O_TMPFILE+linkat writer is the one with an explicit "already exists" path
	}
	s.CntLim = rapid.SampledFrom([]int{1, 3, 128}).Draw(t, "cntLim")
	s.Thr = rapid.SampledFrom([]int{400, 2048, 128 << 10, 128 << 10}).Draw(t, "thr")
	s.SizeLim = rapid.SampledFrom([]int{300, 1500, 8 << 20}).Draw(t, "sizeLim")
	s.NoSync = rapid.IntRange(0, 3).Draw(t, "noSync") == 0
	s.IntervalUs = 300
	s.WatchdogMs = 10000
	s.OpMarks = true
	seed := rapid.Uint64().Draw(t, "seed")
	big := func(i int) fsobj.Spec {
		return fsobj.Spec{Idx: i, Seed: seed, Cnr: i % 2, Payload: s.Thr + rapid.IntRange(1, 4000).Draw(t, "bigExtra")}
	}
	small := func(i int) fsobj.Spec {
		return fsobj.Spec{Idx: i, Seed: seed, Cnr: i % 2, Payload: rapid.IntRange(0, 250).Draw(t, "smallPayload")}
	}
	// objects 0,1: big; 2,3,4: small; 5: big, 6,7: small (5-7 not pre-stored)
	for i := 0; i < 8; i++ {
		if i < 2 || i == 5 {
			s.Objects = append(s.Objects, big(i))
		} else {
			s.Objects = append(s.Objects, small(i))
		}
	}
	w.pre = []int{0, 2}
	for _, i := range []int{1, 3, 4} {
		if rapid.Bool().Draw(t, "preMore") {
			w.pre = append(w.pre, i)
		}
	}
	sort.Ints(w.pre)
	preBig, preSmall := []int{}, []int{}
	for _, i := range w.pre {
		if i < 2 {
			preBig = append(preBig, i)
		} else {
			preSmall = append(preSmall, i)
		}
	}
	var ops []fshelper.Op
	put := func(i int) { ops = append(ops, fshelper.Op{Kind: fshelper.OpPut, Objs: []int{i}}) }
	// the two re-put paths are always there, in drawn order with drawn company
	kinds := append([]string{"reputBig", "reputSmall"}, rapid.SliceOfN(rapid.SampledFrom([]string{"reputBig", "reputSmall", "batch", "deletePut", "putTwice"}), 1, 4).Draw(t, "moreOps")...)
	kinds = permute(kinds, rapid.Permutation(seq(len(kinds))).Draw(t, "opOrder"))
	for _, k := range kinds {
		switch k {
		case "reputBig":
			put(rapid.SampledFrom(preBig).Draw(t, "big"))
		case "reputSmall":
			put(rapid.SampledFrom(preSmall).Draw(t, "small"))
		case "batch":
			n := rapid.IntRange(1, 5).Draw(t, "n")
			kind := fshelper.OpBatch
			m := append([]int(nil), rapid.Permutation(seq(8)).Draw(t, "members")[:n]...)
			if rapid.IntRange(0, 3).Draw(t, "mapOrder") == 0 {
				kind = fshelper.OpBatchMap
				sort.Ints(m)
			}
			ops = append(ops, fshelper.Op{Kind: kind, Objs: m})
		case "deletePut":
			i := rapid.SampledFrom(w.pre).Draw(t, "victim")
			ops = append(ops, fshelper.Op{Kind: fshelper.OpDelete, Objs: []int{i}})
			put(i)
		case "putTwice":
			i := rapid.IntRange(5, 7).Draw(t, "fresh")
			put(i)
			put(i)
		}
	}
	s.Phases = []fshelper.Phase{{Workers: [][]fshelper.Op{ops}}}
	return w
}

func permute(a []string, p []int) []string {
	r := make([]string, len(a))
	for i, j := range p {
		r[i] = a[j]
	}
	return r
}

func seq(n int) []int {
	r := make([]int, n)
	for i := range r {
		r[i] = i
	}
	return r
}

// point is one crash point to try.
type point struct {
	syscall string
	when    int
}

// instance identifies a syscall of the workload independent of threads: the n-th call of that name after "start".
type instance struct {
	syscall string
	ord     int
}

type outcome struct {
	pt       point
	hit      *instance // nil: the kill did not land inside the workload (before start / not delivered)
	hitDesc  string
	inWindow bool  // between first write and last link/rename
	err      error // *fshelper.Violation or harness error
	harness  bool
	note     string
	killOp   int // operation (index) inside whose markers the kill landed, -1 = between operations
}

var crashSyscalls = []string{"openat", "write", "writev", "linkat", "renameat", "renameat2", "fsync", "fdatasync", "close", "unlinkat", "mkdirat"}

func isCrashSyscall(n string) bool {
	for _, s := range crashSyscalls {
		if s == n {
			return true
		}
	}
	return false
}

// postStart lists the workload's file syscalls (trace order) between the markers "start" and "closed".
func postStart(r *sysinject.Result) (idx []int, ok bool) {
	a, b := r.Mark("start"), r.Mark("closed")
	if a < 0 {
		return nil, false
	}
	if b < 0 {
		b = len(r.Events)
	}
	for i := a + 1; i < b; i++ {
		if isCrashSyscall(r.Events[i].Name) {
			idx = append(idx, i)
		}
	}
	return idx, true
}

func workers() int {
	n := runtime.NumCPU()
	if n > 8 {
		n = 8
	}
	if n < 2 {
		n = 2
	}
	return n
}

// mustHave computes which objects must be readable after the crash: pre-existing objects and objects of
// acknowledged puts/batches, unless a delete of the object was started at or after that point.
func mustHave(w *workload, rr *fshelper.Results) map[int]string {
	mh := map[int]string{}
	for _, i := range w.pre {
		mh[i] = "it was stored before the workload started"
	}
	for k, op := range w.spec.FlatOps() {
		st := rr.Ops[k].State
		switch op.Kind {
		case fshelper.OpDelete:
			if st != fshelper.StNone {
				delete(mh, op.Objs[0])
			}
		default:
			if st == fshelper.StOK {
				for _, i := range op.Objs {
					mh[i] = fmt.Sprintf("operation %d %s reported success before the crash", k, op)
				}
			}
		}
	}
	return mh
}

func TestC12CrashPoints(t *testing.T) { crashTest(t, "crashpoints", genWorkload, 1) }

// TestC12Reput enumerates crash points of workloads that store ALREADY ACKNOWLEDGED objects again (single-file path,
// combined path, batches, delete+put, put twice): a crash anywhere inside such a re-put must not lose or damage the
// copy whose earlier write had returned success.
func TestC12Reput(t *testing.T) { crashTest(t, "reput", genReput, 0.6) }

func crashTest(t *testing.T, name string, gen func(*rapid.T, bool) *workload, budgetShare float64) {
	rec := ev.New("C12", name)
	defer rec.Flush()
	if err := sysinject.Available(); err != nil {
		ev.Inconclusive("C12 needs strace with ptrace permission: %v", err)
	}
	allExhaustive := true
	var totalInst, totalHit int
	budget := fshelper.NewBudget(45*time.Second, budgetShare)
	cases := 0
	harnessErrs, runsTotal := 0, 0
	lastHarnessErr := ""
	rapid.Check(t, func(t *rapid.T) {
		w := gen(t, cases == 0)
		order := rapid.Uint64().Draw(t, "pointOrder")
		if cases > 0 && budget.Exceeded() {
			// the time budget of this run is used up: later workloads are not enumerated (reported, not a verdict)
			rec.Label("workload-skipped-time-budget")
			allExhaustive = false
			return
		}
		cases++
		objs := w.spec.Universe()
		desc := w.String()

		// ---- dry run
		dr, err := fshelper.Execute(w.spec, w.pre, nil, runTimeout)
		if err != nil {
			ev.Inconclusive("dry run: %v", err)
		}
		dry, drr, dspec, ddir := dr.Trace, dr.Results, dr.Spec, dr.Dir
		if dry.ExitCode != 0 || dry.Signal != "" || !drr.Finished {
			os.RemoveAll(ddir)
			t.Fatalf("workload fails without any injection: exit=%d signal=%q finished=%v stderr:\n%s\nworkload: %s", dry.ExitCode, dry.Signal, drr.Finished, dry.Stderr, desc)
		}
		for k, r := range drr.Ops {
			op := w.spec.FlatOps()[k]
			if r.State != fshelper.StOK && !(op.Kind == fshelper.OpDelete && r.State == fshelper.StErr) {
				os.RemoveAll(ddir)
				t.Fatalf("operation %d %s fails without any injection: %q\nworkload: %s", k, op, r.Err, desc)
			}
		}
		if verr := fshelper.Verify(dspec, objs, fshelper.VerifyOpts{MustHave: mustHave(w, drr), CleanUpTmp: true, RePut: true}); verr != nil {
			os.RemoveAll(ddir)
			t.Fatalf("tree wrong after an uninterrupted run: %v\nworkload: %s", verr, desc)
		}
		os.RemoveAll(ddir)
		post, ok := postStart(dry)
		if !ok {
			ev.Inconclusive("dry run trace has no start marker (parse errors %d)", dry.ParseErrs)
		}
		// instances of the dry run, window of interest, per-thread counts
		ordOf := map[string]int{}
		var insts []instance
		firstWrite, lastLink := -1, -1
		for n, i := range post {
			e := dry.Events[i]
			ordOf[e.Name]++
			insts = append(insts, instance{e.Name, ordOf[e.Name]})
			if (e.Name == "write" || e.Name == "writev") && firstWrite < 0 {
				firstWrite = n
			}
			if e.Name == "linkat" || e.Name == "renameat" || e.Name == "renameat2" {
				lastLink = n
			}
		}
		instPos := map[instance]int{}
		for n, in := range insts {
			instPos[in] = n
		}
		startIdx := dry.Mark("start")
		pre := map[string]int{}   // main thread calls before start
		total := map[string]int{} // main thread calls up to "closed"
		other := map[string]map[int]int{}
		endIdx := dry.Mark("closed")
		if endIdx < 0 {
			endIdx = len(dry.Events)
		}
		for i := 0; i < endIdx; i++ {
			e := dry.Events[i]
			if !isCrashSyscall(e.Name) {
				continue
			}
			if e.Tid == dry.MainTid {
				total[e.Name]++
				if i < startIdx {
					pre[e.Name]++
				}
			} else {
				if other[e.Name] == nil {
					other[e.Name] = map[int]int{}
				}
				other[e.Name][e.Tid]++
			}
		}
		// operation windows of the dry run (op markers) and which operations store an already acknowledged object again
		reput := reputOps(w)
		ptOp := map[point]int{} // main-thread point -> index of the operation it belongs to
		{
			cur := -1
			cnt := map[string]int{}
			for k, v := range pre {
				cnt[k] = v
			}
			for i := startIdx + 1; i < endIdx; i++ {
				e := dry.Events[i]
				if mk, ok := e.IsMark(); ok {
					var k int
					if _, err := fmt.Sscanf(mk, "op-%d-begin", &k); err == nil && strings.HasSuffix(mk, "-begin") {
						cur = k
					} else if strings.HasSuffix(mk, "-end") {
						cur = -1
					}
					continue
				}
				if e.Tid == dry.MainTid && isCrashSyscall(e.Name) {
					cnt[e.Name]++
					ptOp[point{e.Name, cnt[e.Name]}] = cur
				}
			}
		}
		inReput := func(p point) bool {
			k, ok := ptOp[p]
			return ok && k >= 0 && reput[k]
		}
		// Crash points. Main-thread calls: ordinal pre+j addresses the j-th call of the workload (the kill goes to the
		// first thread reaching that ordinal; the hit is measured). Calls made by other threads (fdatasync/close of
		// the batch sync timer) are reachable only through ordinals no main-thread call takes first; instances that
		// stay unhit are reported (their on-disk state equals the one after the preceding main-thread call: all
		// members written and linked, only sync/close outstanding).
		var pts []point
		otherSum := map[string]int{}
		for _, sc := range crashSyscalls {
			for _, c := range other[sc] {
				otherSum[sc] += c
			}
			for k := 1; k <= otherSum[sc] && k <= pre[sc]; k++ {
				pts = append(pts, point{sc, k})
			}
			for k := pre[sc] + 1; k <= total[sc]; k++ {
				pts = append(pts, point{sc, k})
			}
		}

		// ---- crash runs
		skipped := 0
		runPts := func(pts []point) []outcome {
			// deterministic pseudo-random order, so that a budget cut leaves a spread-out sample, not a prefix
			pts = append([]point(nil), pts...)
			x := order | 1
			for i := len(pts) - 1; i > 0; i-- {
				x ^= x << 13
				x ^= x >> 7
				x ^= x << 17
				j := int(x % uint64(i+1))
				pts[i], pts[j] = pts[j], pts[i]
			}
			// crash points inside a re-put of an acknowledged object first: a time-budget cut must not drop them
			sort.SliceStable(pts, func(a, b int) bool { return inReput(pts[a]) && !inReput(pts[b]) })
			nReput := 0
			for _, p := range pts {
				if inReput(p) {
					nReput++
				}
			}
			outs := make([]outcome, 0, len(pts))
			nw := workers()
			for at := 0; at < len(pts); at += nw {
				// the re-put crash points (a few dozen at most) are always run; the budget cuts only the rest
				if at >= 2*nw && at >= nReput && budget.Exceeded() {
					skipped += len(pts) - at
					break
				}
				chunk := pts[at:min(at+nw, len(pts))]
				res := make([]outcome, len(chunk))
				var wg sync.WaitGroup
				for n := range chunk {
					wg.Add(1)
					go func() {
						defer wg.Done()
						res[n] = crashRun(w, objs, chunk[n], instPos, firstWrite, lastLink)
					}()
				}
				wg.Wait()
				outs = append(outs, res...)
			}
			return outs
		}
		outs := runPts(pts)
		// extra rounds for instances on timer threads that were not hit (which thread runs a timer differs per run)
		for round := 0; round < 2; round++ {
			got := map[instance]bool{}
			for _, o := range outs {
				if o.hit != nil {
					got[*o.hit] = true
				}
			}
			missing := map[string]bool{}
			for _, in := range insts {
				if !got[in] {
					missing[in.syscall] = true
				}
			}
			var again []point
			for sc := range missing {
				for k := 1; k <= otherSum[sc] && k <= pre[sc]; k++ {
					again = append(again, point{sc, k})
				}
			}
			if len(again) == 0 || budget.Exceeded() {
				break
			}
			sort.Slice(again, func(a, b int) bool {
				if again[a].syscall != again[b].syscall {
					return again[a].syscall < again[b].syscall
				}
				return again[a].when < again[b].when
			})
			outs = append(outs, runPts(again)...)
		}

		runsTotal += len(outs)
		hit := map[instance]bool{}
		var firstViol *outcome
		for n := range outs {
			o := &outs[n]
			if o.harness {
				// environment trouble in a single run (overloaded machine: strace/helper start timeouts) is not a
				// verdict; the point counts as not evaluated. Too many of them make the whole run inconclusive.
				harnessErrs++
				lastHarnessErr = fmt.Sprintf("crash run %v: %v", o.pt, o.err)
				rec.Label("crash-run-harness-error")
				continue
			}
			labels := []string{"kill-on-" + o.pt.syscall}
			if o.hit != nil {
				hit[*o.hit] = true
				labels = append(labels, "kill-inside-workload")
			} else {
				labels = append(labels, "kill-outside-workload:"+o.note)
			}
			if o.inWindow {
				labels = append(labels, "kill-between-first-write-and-last-link")
			}
			if o.hit != nil && o.killOp >= 0 && reput[o.killOp] {
				labels = append(labels, "reput&kill", "reput&kill-on-"+o.pt.syscall)
			}
			if w.spec.Generic {
				labels = append(labels, "writer-generic")
			} else {
				labels = append(labels, "writer-linux")
			}
			fpr := fmt.Sprintf("%s|%s|%d", desc, o.pt.syscall, o.pt.when)
			if o.hit != nil {
				fpr = fmt.Sprintf("%s|hit %s#%d", desc, o.hit.syscall, o.hit.ord)
			}
			rec.Case(o.inWindow, fpr, labels...)
			if o.err != nil && firstViol == nil {
				firstViol = o
			}
		}
		if skipped > 0 {
			rec.LabelN("crash-points-skipped-time-budget", int64(skipped))
		}
		totalInst += len(insts)
		totalHit += len(hit)
		if len(hit) != len(insts) {
			allExhaustive = false
			var miss []string
			for _, in := range insts {
				if !hit[in] {
					miss = append(miss, fmt.Sprintf("%s#%d", in.syscall, in.ord))
				}
			}
			rec.LabelN("crash-instances-not-hit", int64(len(insts)-len(hit)))
			if rec.WantSample() {
				rec.Sample(map[string]any{"workload": desc, "instances": len(insts), "hit": len(hit), "missed": miss})
			}
		} else if rec.WantSample() {
			rec.Sample(map[string]any{"workload": desc, "instances": len(insts), "hit": len(hit)})
		}
		rec.LabelN("crash-instances-total", int64(len(insts)))
		rec.LabelN("crash-instances-hit", int64(len(hit)))
		if firstViol != nil {
			t.Fatalf("crash at %s (strace inject=%s:signal=SIGKILL:when=%d): %v\nworkload: %s",
				firstViol.hitDesc, firstViol.pt.syscall, firstViol.pt.when, firstViol.err, desc)
		}
	})
	if harnessErrs > 0 && harnessErrs*4 > runsTotal {
		ev.Inconclusive("%d of %d crash runs hit harness/environment errors, last: %s", harnessErrs, runsTotal, lastHarnessErr)
	}
	rec.Set("crash_point_instances", totalInst)
	rec.Set("crash_point_instances_hit", totalHit)
	// "exhaustive" here means: every syscall instance of every generated workload was used as a crash point;
	// the workloads themselves are sampled.
	rec.Set("all_crash_points_of_generated_workloads_hit", allExhaustive)
}

func crashRun(w *workload, objs []*fsobj.Obj, pt point, instPos map[instance]int, firstWrite, lastLink int) (o outcome) {
	o = crashRunOnce(w, objs, pt, instPos, firstWrite, lastLink)
	if o.harness {
		o = crashRunOnce(w, objs, pt, instPos, firstWrite, lastLink)
	}
	return o
}

func crashRunOnce(w *workload, objs []*fsobj.Obj, pt point, instPos map[instance]int, firstWrite, lastLink int) (o outcome) {
	o.pt = pt
	inj := []sysinject.Inject{{Syscall: pt.syscall, Signal: "SIGKILL", When: fmt.Sprint(pt.when)}}
	run, err := fshelper.Execute(w.spec, w.pre, inj, runTimeout)
	if err != nil {
		o.err, o.harness = err, true
		return
	}
	defer run.Cleanup()
	res, rr, spec := run.Trace, run.Results, run.Spec
	if res.TimedOut {
		o.err, o.harness = fmt.Errorf("helper timed out under SIGKILL injection; stderr: %s", res.Stderr), true
		return
	}
	kp := res.KillPoint(pt.syscall)
	start := res.Mark("start")
	switch {
	case res.Signal != "SIGKILL" && res.ExitCode == 0:
		o.note = "not-delivered" // no thread reached that ordinal
	case res.Signal != "SIGKILL":
		o.err = &fshelper.Violation{Msg: fmt.Sprintf("helper ended with exit=%d signal=%q instead of the injected SIGKILL; stderr:\n%s", res.ExitCode, res.Signal, tail(res.Stderr, 3000))}
		return
	case kp < 0:
		o.note = "kill-point-not-in-trace"
	case start < 0 || kp < start:
		o.note = "before-start"
	default:
		// ordinal of the killed call among same-named calls after start
		ord := 0
		for i := start + 1; i <= kp; i++ {
			if res.Events[i].Name == pt.syscall {
				ord++
			}
		}
		if c := res.Mark("closed"); c >= 0 && kp > c {
			o.note = "after-close"
			break
		}
		in := instance{pt.syscall, ord}
		o.hit = &in
		o.killOp = -1
		for i := kp - 1; i > start; i-- {
			if mk, ok := res.Events[i].IsMark(); ok {
				var k int
				if _, err := fmt.Sscanf(mk, "op-%d-begin", &k); err == nil && strings.HasSuffix(mk, "-begin") {
					o.killOp = k
				}
				break
			}
		}
		e := res.Events[kp]
		o.hitDesc = fmt.Sprintf("%s #%d after start: %s(%s)", in.syscall, in.ord, e.Name, e.Args)
		if pos, ok := instPos[in]; ok && firstWrite >= 0 && pos > firstWrite && pos <= lastLink {
			o.inWindow = true
		}
	}
	if o.hitDesc == "" {
		o.hitDesc = o.note
	}
	verr := fshelper.Verify(spec, objs, fshelper.VerifyOpts{MustHave: mustHave(w, rr), CleanUpTmp: true, RePut: true})
	if verr != nil {
		o.err = verr
		if _, isViol := verr.(*fshelper.Violation); !isViol {
			o.harness = true
		}
	}
	return
}

func tail(b []byte, n int) string {
	if len(b) > n {
		b = b[len(b)-n:]
	}
	return string(b)
}

// Package irchain starts a REAL single-node NeoFS inner ring in local
// consensus mode (embedded neo-go node with dBFT, RPC and notary service) with
// contract auto-deployment, exactly through innerring.New/Start — the mode the
// all-in-one images use. The C35/C37/C38 harnesses attach additional morph
// clients (alphabet or foreign keys) to its RPC port through harness/neoproxy.
package irchain

import (
	"context"
	"fmt"
	"net"
	"os"
	"path/filepath"
	"strings"
	"time"

	"github.com/nspcc-dev/neo-go/pkg/crypto/keys"
	"github.com/nspcc-dev/neo-go/pkg/wallet"
	"github.com/nspcc-dev/neofs-node/internal/configutil"
	"github.com/nspcc-dev/neofs-node/pkg/innerring"
	irconfig "github.com/nspcc-dev/neofs-node/pkg/innerring/config"
	"github.com/spf13/viper"
	"go.uber.org/zap"
)

// Chain is a running inner ring with its chain.
type Chain struct {
	Server *innerring.Server
	Key    *keys.PrivateKey // the only committee / alphabet key
	RPC    string           // ws://host:port/ws
	Magic  uint32
	Errs   chan error
	cancel context.CancelFunc
	dir    string
}

func freePort() (int, error) {
	l, err := net.Listen("tcp", "127.0.0.1:0")
	if err != nil {
		return 0, err
	}
	defer l.Close()
	return l.Addr().(*net.TCPAddr).Port, nil
}

const pass = "verif"

// Start deploys everything; blockTime is the dBFT block interval.
func Start(key *keys.PrivateKey, blockTime time.Duration, log *zap.Logger, extraYAML string) (*Chain, error) {
	dir, err := os.MkdirTemp("", "verif-irchain-")
	if err != nil {
		return nil, err
	}
	wpath := filepath.Join(dir, "wallet.json")
	w, err := wallet.NewWallet(wpath)
	if err != nil {
		return nil, err
	}
	w.Scrypt = keys.ScryptParams{N: 2, R: 1, P: 1}
	single := wallet.NewAccountFromPrivateKey(key)
	single.Label = "single"
	if err = single.Encrypt(pass, w.Scrypt); err != nil {
		return nil, err
	}
	cons := wallet.NewAccountFromPrivateKey(key)
	cons.Label = "consensus"
	if err = cons.ConvertMultisig(1, keys.PublicKeys{key.PublicKey()}); err != nil {
		return nil, err
	}
	if err = cons.Encrypt(pass, w.Scrypt); err != nil {
		return nil, err
	}
	w.AddAccount(single)
	w.AddAccount(cons)
	if err = w.SavePretty(); err != nil {
		return nil, err
	}

	rpcPort, err := freePort()
	if err != nil {
		return nil, err
	}
	const magic = 15405
	yaml := fmt.Sprintf(`
wallet:
  path: %s
  address: %s
  password: %s
node:
  persistent_state:
    path: %s
fschain:
  dial_timeout: 1m
  reconnections_number: 1
  reconnections_delay: 1s
  consensus:
    magic: %d
    committee:
      - %s
    storage:
      type: inmemory
    time_per_block: %s
    max_traceable_blocks: 200000
    rpc:
      listen:
        - 127.0.0.1:%d
      max_websocket_clients: 200
      session_pool_size: 100
    set_roles_in_genesis: true
timers:
  collect_basic_income:
    mul: 1
    div: 2
workers:
  netmap: 10
  balance: 10
  neofs: 10
  container: 10
  alphabet: 10
  reputation: 10
emit:
  mint:
    cache_size: 1000
    threshold: 1
    value: 20000000
indexer:
  cache_timeout: 15s
%s`, wpath, single.Address, pass, filepath.Join(dir, "state"), magic, key.PublicKey().StringCompressed(), blockTime, rpcPort, extraYAML)

	v := viper.New()
	v.SetConfigType("yaml")
	if err = v.ReadConfig(strings.NewReader(yaml)); err != nil {
		return nil, err
	}
	var cfg irconfig.Config
	if err = configutil.Unmarshal(v, &cfg, "verif_ir"); err != nil {
		return nil, fmt.Errorf("config: %w", err)
	}
	if cfg.FSChain.Validators == nil {
		cfg.FSChain.Validators = keys.PublicKeys{}
	}
	if cfg.Control.AuthorizedKeys == nil {
		cfg.Control.AuthorizedKeys = keys.PublicKeys{}
	}

	ctx, cancel := context.WithCancel(context.Background())
	errs := make(chan error, 16)
	srv, err := innerring.New(ctx, log, &cfg, errs)
	if err != nil {
		cancel()
		return nil, fmt.Errorf("innerring.New: %w", err)
	}
	c := &Chain{Server: srv, Key: key, RPC: fmt.Sprintf("ws://127.0.0.1:%d/ws", rpcPort), Magic: magic, Errs: errs, cancel: cancel, dir: dir}
	return c, nil
}

// Run starts the inner ring application itself (listeners, timers): it then
// acts as the (only) alphabet node of the network.
func (c *Chain) Run() error {
	return c.Server.Start(context.Background(), c.Errs)
}

// Stop shuts everything down.
func (c *Chain) Stop() {
	c.Server.Stop()
	c.cancel()
	_ = os.RemoveAll(c.dir)
}

package irchain

import (
	"context"
	"fmt"
	"time"

	"github.com/nspcc-dev/neo-go/pkg/core/transaction"
	"github.com/nspcc-dev/neo-go/pkg/crypto/keys"
	"github.com/nspcc-dev/neo-go/pkg/rpcclient"
	"github.com/nspcc-dev/neo-go/pkg/rpcclient/actor"
	"github.com/nspcc-dev/neo-go/pkg/util"
	"github.com/nspcc-dev/neo-go/pkg/vm/vmstate"
	"github.com/nspcc-dev/neo-go/pkg/wallet"
	"github.com/nspcc-dev/neofs-node/pkg/morph/client"
	"github.com/nspcc-dev/neofs-node/verifharness/irsetup"
	"go.uber.org/zap"
)

// Admin sends plain committee-signed transactions straight to the node (not
// through any proxy): with a single committee key the 1-of-1 multisignature
// account is the alphabet, so the harness can put the chain into any state
// (containers, network map, epochs) without the notary flow.
type Admin struct {
	ws    *rpcclient.WSClient
	key   *keys.PrivateKey
	multi *wallet.Account
	plain *wallet.Account
}

// NewAdmin connects straight to the chain's RPC.
func (c *Chain) NewAdmin() (*Admin, error) {
	ws, err := rpcclient.NewWS(context.Background(), c.RPC, rpcclient.WSOptions{})
	if err != nil {
		return nil, err
	}
	if err = ws.Init(); err != nil {
		return nil, err
	}
	multi := wallet.NewAccountFromPrivateKey(c.Key)
	if err = multi.ConvertMultisig(1, keys.PublicKeys{c.Key.PublicKey()}); err != nil {
		return nil, err
	}
	return &Admin{ws: ws, key: c.Key, multi: multi, plain: wallet.NewAccountFromPrivateKey(c.Key)}, nil
}

func (a *Admin) Close() { a.ws.Close() }

// Invoke calls contract.method with the alphabet (committee) witness plus the
// witnesses of extra keys, waits for the block and demands HALT.
func (a *Admin) Invoke(contract util.Uint160, method string, extra []*keys.PrivateKey, args ...any) error {
	signers := []actor.SignerAccount{
		{Signer: transaction.Signer{Account: a.plain.ScriptHash(), Scopes: transaction.Global}, Account: a.plain},
		{Signer: transaction.Signer{Account: a.multi.ScriptHash(), Scopes: transaction.Global}, Account: a.multi},
	}
	for _, k := range extra {
		acc := wallet.NewAccountFromPrivateKey(k)
		signers = append(signers, actor.SignerAccount{Signer: transaction.Signer{Account: acc.ScriptHash(), Scopes: transaction.Global}, Account: acc})
	}
	act, err := actor.New(a.ws, signers)
	if err != nil {
		return err
	}
	h, vub, err := act.SendCall(contract, method, args...)
	if err != nil {
		return fmt.Errorf("%s: %w", method, err)
	}
	aer, err := act.Wait(context.Background(), h, vub, nil)
	if err != nil {
		return fmt.Errorf("%s: wait: %w", method, err)
	}
	if aer.VMState != vmstate.Halt {
		return fmt.Errorf("%s: %s: %s", method, aer.VMState, aer.FaultException)
	}
	return nil
}

// Height returns the current block count.
func (a *Admin) Height() (uint32, error) { return a.ws.GetBlockCount() }

// WaitBlocks waits until n more blocks were accepted (chain progress, not
// wall-clock, is the signal).
func (a *Admin) WaitBlocks(n uint32) error {
	h0, err := a.ws.GetBlockCount()
	if err != nil {
		return err
	}
	for {
		h, err := a.ws.GetBlockCount()
		if err != nil {
			return err
		}
		if h >= h0+n {
			return nil
		}
		time.Sleep(20 * time.Millisecond)
	}
}

// Contracts resolves the deployed contracts through NNS like the inner ring.
func (c *Chain) Contracts() (irsetup.Contracts, error) {
	var res irsetup.Contracts
	cli, err := client.New(c.Key, client.WithEndpoints([]string{c.RPC}), client.WithLogger(zap.NewNop()))
	if err != nil {
		return res, err
	}
	defer cli.Close()
	for _, x := range []struct {
		name string
		dst  *util.Uint160
	}{
		{client.NNSNetmapContractName, &res.Netmap}, {client.NNSContainerContractName, &res.Container},
		{client.NNSBalanceContractName, &res.Balance}, {client.NNSReputationContractName, &res.Reputation},
		{client.NNSProxyContractName, &res.Proxy},
	} {
		if *x.dst, err = cli.NNSContractAddress(x.name); err != nil {
			return res, fmt.Errorf("resolve %s: %w", x.name, err)
		}
	}
	for i := 0; ; i++ {
		h, err := cli.NNSContractAddress(client.NNSAlphabetContractName(i))
		if err != nil {
			break
		}
		res.Alphabet = append(res.Alphabet, h)
	}
	if len(res.Alphabet) == 0 {
		return res, fmt.Errorf("no alphabet contracts resolved")
	}
	// no main chain in this setup: a NeoFS contract hash that exists nowhere
	res.NeoFS = util.Uint160{0xEE, 1, 2, 3}
	return res, nil
}

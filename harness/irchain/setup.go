package irchain

import (
	"fmt"
	"time"

	"github.com/nspcc-dev/neo-go/pkg/crypto/keys"
	"github.com/nspcc-dev/neofs-node/verifharness/irfix"
	"github.com/nspcc-dev/neofs-node/verifharness/irsetup"
	"github.com/nspcc-dev/neofs-node/verifharness/neoproxy"
	"go.uber.org/zap"
)

// World is a deployed chain plus two sets of inner ring processors attached
// to it through recording proxies that swallow (log, do not relay) writes:
// Member runs with the committee key, Outsider with a key unknown to the chain.
type World struct {
	Chain     *Chain
	Admin     *Admin
	Contracts irsetup.Contracts

	MemberProxy, OutsiderProxy *neoproxy.Proxy
	Member, Outsider           *irsetup.Env

	mk     func(key *keys.PrivateKey) (*neoproxy.Proxy, *irsetup.Env, error)
	mkOpts func(key *keys.PrivateKey, tune func(*irsetup.Options)) (*neoproxy.Proxy, *irsetup.Env, error)
}

// NewEnvWith is NewEnv with adjusted options (URLs, key, contracts are preset).
func (w *World) NewEnvWith(key *keys.PrivateKey, tune func(*irsetup.Options)) (*neoproxy.Proxy, *irsetup.Env, error) {
	return w.mkOpts(key, tune)
}

// NewEnv attaches one more set of processors (own recording proxy) to the chain.
func (w *World) NewEnv(key *keys.PrivateKey) (*neoproxy.Proxy, *irsetup.Env, error) { return w.mk(key) }

// CommitteeKey is the only committee/alphabet key of the world.
func CommitteeKey() *keys.PrivateKey { return irfix.Key(1) }

// OutsiderKey is a key without any role on the chain.
func OutsiderKey() *keys.PrivateKey { return irfix.Key(9) }

// NewWorld starts everything. prepare (may be nil) runs after the chain is
// deployed and BEFORE the processors are constructed.
func NewWorld(allowEC bool, prepare func(w *World) error) (*World, error) {
	w := &World{}
	var err error
	if w.Chain, err = Start(CommitteeKey(), 100*time.Millisecond, zap.NewNop(), ""); err != nil {
		return nil, err
	}
	fail := func(err error) (*World, error) { w.Close(); return nil, err }
	if w.Admin, err = w.Chain.NewAdmin(); err != nil {
		return fail(err)
	}
	if w.Contracts, err = w.Chain.Contracts(); err != nil {
		return fail(err)
	}
	if prepare != nil {
		if err = prepare(w); err != nil {
			return fail(fmt.Errorf("prepare: %w", err))
		}
	}
	w.mk = func(key *keys.PrivateKey) (*neoproxy.Proxy, *irsetup.Env, error) { return nil, nil, nil }
	mk := func(key *keys.PrivateKey) (*neoproxy.Proxy, *irsetup.Env, error) {
		return w.NewEnvWith(key, nil)
	}
	w.mkOpts = func(key *keys.PrivateKey, tune func(*irsetup.Options)) (*neoproxy.Proxy, *irsetup.Env, error) {
		p, err := neoproxy.New(w.Chain.RPC)
		if err != nil {
			return nil, nil, err
		}
		p.SwallowWrites(true)
		o := irsetup.Options{
			FSURL: p.URL, MainURL: p.URL, Key: key, AlphabetKeys: keys.PublicKeys{CommitteeKey().PublicKey()},
			Contracts: w.Contracts, Magic: w.Chain.Magic, AllowEC: allowEC,
		}
		if tune != nil {
			tune(&o)
		}
		e, err := irsetup.NewEnv(o)
		if err != nil {
			p.Close()
			return nil, nil, err
		}
		return p, e, nil
	}
	w.mk = mk
	if w.MemberProxy, w.Member, err = mk(CommitteeKey()); err != nil {
		return fail(fmt.Errorf("member env: %w", err))
	}
	if w.OutsiderProxy, w.Outsider, err = mk(OutsiderKey()); err != nil {
		return fail(fmt.Errorf("outsider env: %w", err))
	}
	return w, nil
}

// Close stops everything.
func (w *World) Close() {
	if w.Member != nil {
		w.Member.Close()
	}
	if w.Outsider != nil {
		w.Outsider.Close()
	}
	if w.MemberProxy != nil {
		w.MemberProxy.Close()
	}
	if w.OutsiderProxy != nil {
		w.OutsiderProxy.Close()
	}
	if w.Admin != nil {
		w.Admin.Close()
	}
	if w.Chain != nil {
		w.Chain.Stop()
	}
}

// Package c47 decides property C47: container data is discarded only when the
// container is gone or long unpaid.
//
// Exhaustive enumeration of the stated finite domain (package cells: 1848
// cells) through
//   - the shard new-epoch handler (shard.setEpochEventHandler via the export
//     shim VerifNewEpoch) on a real shard with a scripted ContainerPayments
//     (TestC47ShardEpoch; one shard per (epoch, payments, delivery mode), one
//     container per remaining cell);
//   - the engine startup cleanup (engine.Init → deleteNotFoundContainers) with
//     a scripted containercore.Source, followed by the new-epoch handler on
//     every shard of that engine (TestC47EngineStartup).
//
// The policer's container-missing path is enumerated by the in-package test
// /verif/inpkg/pkg/services/policer/zz_verif_c47_test.go.
//
// Oracle (reference decision, written from the property text):
//
//	discarded ⇔ source definitively says "container not found"                    (startup / policer)
//	          ∨ payments on ∧ no payment-check error ∧ 0 ≤ unpaidSince ≤ epoch ∧ epoch−unpaidSince ≥ 3   (epoch handler)
//
// "discarded" is observed through the public read API (Get → ObjectNotFound for
// every object of the container) and "kept" means every object is still
// returned byte-exact (and the container is listed), also after GC passes.
package c47

import (
	"context"
	"errors"
	"fmt"
	"os"
	"sort"
	"testing"

	"github.com/nspcc-dev/neofs-node/pkg/local_object_storage/engine"
	"github.com/nspcc-dev/neofs-node/verifharness/c47/cells"
	"github.com/nspcc-dev/neofs-node/verifharness/ev"
	"github.com/nspcc-dev/neofs-node/verifharness/stor"
	cid "github.com/nspcc-dev/neofs-sdk-go/container/id"
	"github.com/nspcc-dev/neofs-sdk-go/object"
	oid "github.com/nspcc-dev/neofs-sdk-go/object/id"
)

func contains(l []cid.ID, c cid.ID) bool {
	for _, x := range l {
		if x == c {
			return true
		}
	}
	return false
}

var modeNames = []string{"single", "sequence"}

// TestC47ShardEpoch: the shard new-epoch handler. Delivery modes: 0 = a single
// event for the processed epoch (the shard missed or never saw earlier ones –
// the engine drops events of busy shards), 1 = events 0..epoch one after the
// other (the reference decision is monotone in the epoch, so the expectation
// is the same).
func TestC47ShardEpoch(t *testing.T) {
	rec := ev.New("C47", "shard-epoch")
	defer rec.Flush()
	k := &cells.Collector{Rec: rec}
	cells.Outer(2, func(epoch int, payOn bool, mode int) {
		dir, err := os.MkdirTemp("", "c47s")
		if err != nil {
			ev.Inconclusive("mkdtemp: %v", err)
		}
		defer os.RemoveAll(dir)
		ep := &stor.Epoch{}
		sh, err := stor.OpenShard(stor.ShardCfg{Dir: dir, Epoch: ep, Payments: cells.Payments(payOn), FSTOpts: cells.FastBlob})
		if err != nil {
			ev.Inconclusive("open shard: %v", err)
		}
		defer sh.Close()
		cells.Fill(func(o *object.Object) error { return sh.Put(o, nil) })
		first := epoch
		if mode == 0 {
			ep.Set(uint64(epoch))
			sh.VerifNewEpoch(uint64(epoch))
		} else {
			first = 0
			for e := 0; e <= epoch; e++ {
				ep.Set(uint64(e))
				sh.VerifNewEpoch(uint64(e))
			}
		}
		get := func(a oid.Address) (*object.Object, error) { return sh.Get(a, false) }
		check := func(stage string) {
			list, err := sh.ListContainers()
			if err != nil {
				ev.Inconclusive("list containers: %v", err)
			}
			cells.Inner(func(u, s int, pe bool) {
				c := cells.Cell{Epoch: epoch, Unpaid: u, PayOn: payOn, Src: s, PayErr: pe}
				id := cells.CnrOf(u, s, pe)
				got, oerr := cells.Observe(get, id)
				if oerr == nil && !got && !contains(list, id) {
					oerr = errors.New("objects are readable but the container is missing from ListContainers")
				}
				k.Judge("shard-epoch/"+stage, c, true, first, cells.UnpaidLong(c), got, oerr)
			})
		}
		check(modeNames[mode])
		// kept containers must survive GC passes physically
		sh.VerifGCPass()
		sh.VerifGCPass()
		check(modeNames[mode] + "+gc")
		cells.Inner(func(u, s int, pe bool) {
			c := cells.Cell{Epoch: epoch, Unpaid: u, PayOn: payOn, Src: s, PayErr: pe}
			lbl := "keep"
			if cells.UnpaidLong(c) {
				lbl = "discard"
			}
			rec.Case(cells.Nontrivial(c), fmt.Sprintf("shard/%d/%v", mode, c), "shard:"+lbl, "shard:mode-"+modeNames[mode])
			if rec.WantSample() && c.Epoch == 4 && u >= 0 && u <= 5 && s == 0 && !pe && mode == 0 {
				rec.Sample(map[string]any{"path": "shard-epoch", "cell": c, "expect_discard": cells.UnpaidLong(c)})
			}
		})
	})
	rec.Set("exhaustive", true)
	rec.Set("domain", "epoch 0..10 x unpaidSince -1..12 x payments on/off x source 3 x payErr 2 = 1848 cells (x2 delivery modes on the shard path)")
	if msg := k.Report(); msg != "" {
		t.Fatal(msg)
	}
}

// TestC47EngineStartup: engine.Init's cleanup of containers the source does not
// know, then the new-epoch handler on every shard of the same engine.
func TestC47EngineStartup(t *testing.T) {
	rec := ev.New("C47", "engine-startup")
	defer rec.Flush()
	k := &cells.Collector{Rec: rec}
	ctx := context.Background()
	cells.Outer(1, func(epoch int, payOn bool, _ int) {
		dir, err := os.MkdirTemp("", "c47e")
		if err != nil {
			ev.Inconclusive("mkdtemp: %v", err)
		}
		defer os.RemoveAll(dir)
		ep := &stor.Epoch{}
		cfgs := func() []stor.ShardCfg {
			return []stor.ShardCfg{
				{Dir: dir + "/s0", Epoch: ep, Payments: cells.Payments(payOn), FSTOpts: cells.FastBlob},
				{Dir: dir + "/s1", Epoch: ep, Payments: cells.Payments(payOn), FSTOpts: cells.FastBlob},
			}
		}
		// phase 0: fill without a container source
		e0, err := stor.OpenEngine(cfgs())
		if err != nil {
			ev.Inconclusive("open engine: %v", err)
		}
		cells.Fill(func(o *object.Object) error { return e0.E.Put(ctx, o, nil) })
		if err := e0.E.Close(); err != nil {
			ev.Inconclusive("engine close: %v", err)
		}
		// phase 1: restart with the scripted source
		e1, err := stor.OpenEngine(cfgs(), engine.WithContainersSource(cells.NewSource(epoch*2+1)))
		if err != nil {
			t.Fatalf("engine start with container source failed (epoch=%d payments=%v): %v", epoch, payOn, err)
		}
		defer e1.E.Close()
		get := func(a oid.Address) (*object.Object, error) { return e1.E.Get(ctx, a) }
		cells.Inner(func(u, s int, pe bool) {
			c := cells.Cell{Epoch: epoch, Unpaid: u, PayOn: payOn, Src: s, PayErr: pe}
			got, oerr := cells.Observe(get, cells.CnrOf(u, s, pe))
			k.Judge("startup", c, false, 0, cells.Gone(c), got, oerr)
		})
		// phase 2: the epoch event reaches every shard
		ep.Set(uint64(epoch))
		shards := e1.E.VerifShards()
		ids := make([]string, 0, len(shards))
		for id := range shards {
			ids = append(ids, id)
		}
		sort.Strings(ids)
		for _, id := range ids {
			shards[id].VerifNewEpoch(uint64(epoch))
		}
		for pass := 0; pass < 2; pass++ {
			cells.Inner(func(u, s int, pe bool) {
				c := cells.Cell{Epoch: epoch, Unpaid: u, PayOn: payOn, Src: s, PayErr: pe}
				got, oerr := cells.Observe(get, cells.CnrOf(u, s, pe))
				k.Judge("startup+epoch", c, true, epoch, cells.Gone(c) || cells.UnpaidLong(c), got, oerr)
			})
			for _, id := range ids {
				shards[id].VerifGCPass()
			}
		}
		cells.Inner(func(u, s int, pe bool) {
			c := cells.Cell{Epoch: epoch, Unpaid: u, PayOn: payOn, Src: s, PayErr: pe}
			lbl := "keep"
			if cells.Gone(c) {
				lbl = "discard-gone"
			} else if cells.UnpaidLong(c) {
				lbl = "discard-unpaid"
			}
			rec.Case(cells.Nontrivial(c), fmt.Sprintf("engine/%v", c), "engine:"+lbl, "engine:src-"+cells.SrcNames[s])
			if rec.WantSample() && c.Epoch == 3 && u == 0 && !pe {
				rec.Sample(map[string]any{"path": "engine-startup+epoch", "cell": c, "expect_discard": cells.Gone(c) || cells.UnpaidLong(c)})
			}
		})
	})
	rec.Set("exhaustive", true)
	if msg := k.Report(); msg != "" {
		t.Fatal(msg)
	}
}

// Package c47 decides property C47: container data is discarded only when the
// container is gone or long unpaid.
//
// Exhaustive enumeration of the stated finite domain
//
//	processed epoch 0..10 × unpaid-since −1..12 × payments on/off ×
//	container source {found, not found, transient error} × payment-check error on/off
//
// (1848 cells) through
//   - the shard new-epoch handler (shard.setEpochEventHandler via the export
//     shim VerifNewEpoch) on a real shard with a scripted ContainerPayments
//     (TestC47ShardEpoch; one shard per (epoch, payments, delivery mode), one
//     container per remaining cell);
//   - the engine startup cleanup (engine.Init → deleteNotFoundContainers) with
//     a scripted containercore.Source, followed by the new-epoch handler on
//     every shard of that engine (TestC47EngineStartup).
//
// The policer's container-missing path is enumerated by the in-package test
// /verif/inpkg/pkg/services/policer/zz_verif_c47_test.go.
//
// Oracle (reference decision, written from the property text):
//
//	discarded ⇔ source definitively says "container not found"                    (startup / policer)
//	          ∨ payments on ∧ no payment-check error ∧ 0 ≤ unpaidSince ≤ epoch ∧ epoch−unpaidSince ≥ 3   (epoch handler)
//
// "discarded" is observed through the public read API (Get → ObjectNotFound for
// every object of the container, container absent from ListContainers) and
// "kept" means every object is still returned byte-exact, also after GC passes.
package c47

import (
	"bytes"
	"context"
	"crypto/sha256"
	"errors"
	"fmt"
	"os"
	"sort"
	"sync"
	"testing"

	"github.com/nspcc-dev/neofs-node/pkg/local_object_storage/blobstor/fstree"
	"github.com/nspcc-dev/neofs-node/pkg/local_object_storage/engine"
	"github.com/nspcc-dev/neofs-node/pkg/local_object_storage/shard"
	"github.com/nspcc-dev/neofs-node/verifharness/ev"
	"github.com/nspcc-dev/neofs-node/verifharness/stor"
	"github.com/nspcc-dev/neofs-sdk-go/checksum"
	apistatus "github.com/nspcc-dev/neofs-sdk-go/client/status"
	"github.com/nspcc-dev/neofs-sdk-go/container"
	cid "github.com/nspcc-dev/neofs-sdk-go/container/id"
	"github.com/nspcc-dev/neofs-sdk-go/object"
	oid "github.com/nspcc-dev/neofs-sdk-go/object/id"
	"github.com/nspcc-dev/neofs-sdk-go/user"
	"github.com/nspcc-dev/neofs-sdk-go/version"
)

// FPUnderflow is the fingerprint of the suspected defect: the unsigned
// subtraction epoch−unpaidSince in shard/gc.go wraps when unpaidSince > epoch.
const fpUnderflow = "C47:unpaid-since-after-epoch-underflow"

const (
	minEpoch, maxEpoch   = 0, 10
	minUnpaid, maxUnpaid = -1, 12
	grace                = 3
)

const (
	srcFound = iota
	srcNotFound
	srcTransient
)

var srcNames = [...]string{"found", "not-found", "transient"}

// cell is one point of the enumerated domain.
type cell struct {
	Epoch  int  `json:"epoch"`
	Unpaid int  `json:"unpaid_since"`
	PayOn  bool `json:"payments_on"`
	Src    int  `json:"source"`
	PayErr bool `json:"payment_check_error"`
}

func (c cell) String() string {
	return fmt.Sprintf("epoch=%d unpaidSince=%d payments=%v source=%s payErr=%v", c.Epoch, c.Unpaid, c.PayOn, srcNames[c.Src], c.PayErr)
}

// unpaidLong is the reference decision of the epoch handler, straight from the
// property text: unpaid for at least the grace period counted from the epoch
// being processed; marks newer than the processed epoch never count.
func unpaidLong(c cell) bool {
	return c.PayOn && !c.PayErr && c.Unpaid >= 0 && c.Unpaid <= c.Epoch && c.Epoch-c.Unpaid >= grace
}

// underflowClass tells whether the cell belongs to the suspected-defect class.
func underflowClass(c cell) bool {
	return c.PayOn && !c.PayErr && c.Unpaid >= 0 && c.Unpaid > c.Epoch
}

// nontrivial: at least one discard-capable input is active in the cell.
func nontrivial(c cell) bool {
	return c.Src != srcFound || c.PayErr || (c.PayOn && c.Unpaid >= 0) || (!c.PayOn && c.Unpaid >= 0)
}

// cnrOf maps the in-shard part of a cell to a distinct container ID.
func cnrOf(unpaid, src int, payErr bool) cid.ID {
	var c cid.ID
	c[0] = byte(unpaid - minUnpaid + 1)
	c[1] = byte(src + 1)
	if payErr {
		c[2] = 1
	}
	c[31] = 0x47
	return c
}

const objsPerCnr = 2

func mkObj(c cid.ID, i int) *object.Object {
	var id oid.ID
	copy(id[:], c[:8])
	id[30], id[31] = 0xc4, byte(i+1)
	o := object.New(c, user.NewFromScriptHash([20]byte{0x47, byte(i)}))
	o.SetID(id)
	v := version.Current()
	o.SetVersion(&v)
	p := []byte(fmt.Sprintf("payload-%x-%d", c[:3], i))
	o.SetPayload(p)
	o.SetPayloadSize(uint64(len(p)))
	o.SetPayloadChecksum(checksum.NewSHA256(sha256.Sum256(p)))
	return o
}

// blob writes are not under test here: no 10 ms combined-write batching window.
var fastBlob = []fstree.Option{fstree.WithCombinedCountLimit(1)}

var errPay = errors.New("FS chain RPC call: connection lost")

// transient / not-found error spellings rotated over the cells.
var (
	notFoundErrs = []error{
		apistatus.ContainerNotFound{},
		apistatus.ErrContainerNotFound,
		fmt.Errorf("read container by ID: %w", apistatus.ErrContainerNotFound),
	}
	transientErrs = []error{
		errors.New("could not perform test invocation (getInfo): connection lost"),
		context.DeadlineExceeded,
		errors.New("container not found"), // text only, no status
		apistatus.ObjectNotFound{},        // a different "not found" status
		fmt.Errorf("read container by ID: %w", apistatus.ErrServerInternal),
		apistatus.EACLNotFound{},
	}
)

// source is a scripted containercore.Source.
type source struct {
	ans map[cid.ID]error
}

func (s *source) Get(c cid.ID) (container.Container, error) {
	if err, ok := s.ans[c]; ok && err != nil {
		return container.Container{}, err
	}
	return container.Container{}, nil
}

// inner enumerates the per-shard part of the domain.
func inner(f func(unpaid, src int, payErr bool)) {
	for u := minUnpaid; u <= maxUnpaid; u++ {
		for s := srcFound; s <= srcTransient; s++ {
			for _, pe := range []bool{false, true} {
				f(u, s, pe)
			}
		}
	}
}

func payments(on bool) *stor.Payments {
	p := &stor.Payments{Disabled: !on, Since: map[cid.ID]int64{}, Err: map[cid.ID]error{}}
	inner(func(u, s int, pe bool) {
		c := cnrOf(u, s, pe)
		p.Since[c] = int64(u)
		if pe {
			p.Err[c] = errPay
		}
	})
	return p
}

// fill stores every object of every container (setup only, so it is done by a
// few workers to let the metabase coalesce transactions).
func fill(put func(*object.Object) error) {
	var objs []*object.Object
	inner(func(u, s int, pe bool) {
		for i := 0; i < objsPerCnr; i++ {
			objs = append(objs, mkObj(cnrOf(u, s, pe), i))
		}
	})
	const workers = 8
	var wg sync.WaitGroup
	errs := make([]error, workers)
	for w := 0; w < workers; w++ {
		wg.Add(1)
		go func() {
			defer wg.Done()
			for i := w; i < len(objs); i += workers {
				if err := put(objs[i]); err != nil {
					errs[w] = err
					return
				}
			}
		}()
	}
	wg.Wait()
	for _, err := range errs {
		if err != nil {
			ev.Inconclusive("fill: %v", err)
		}
	}
}

type reader interface {
	get(oid.Address) (*object.Object, error)
}

type shardReader struct{ s *shard.Shard }

func (r shardReader) get(a oid.Address) (*object.Object, error) { return r.s.Get(a, false) }

type engineReader struct{ e *engine.StorageEngine }

func (r engineReader) get(a oid.Address) (*object.Object, error) {
	return r.e.Get(context.Background(), a)
}

// observe returns (discarded, problem). discarded=false means every object of
// the container was returned byte-exact.
func observe(r reader, c cid.ID) (bool, error) {
	var nf, ok int
	for i := 0; i < objsPerCnr; i++ {
		want := mkObj(c, i)
		got, err := r.get(want.Address())
		switch {
		case err == nil:
			if !bytes.Equal(got.Payload(), want.Payload()) || got.GetID() != want.GetID() {
				return false, fmt.Errorf("object %d read back differently", i)
			}
			ok++
		case errors.Is(err, apistatus.ErrObjectNotFound):
			nf++
		default:
			return false, fmt.Errorf("object %d: unexpected read error %w", i, err)
		}
	}
	if nf != 0 && ok != 0 {
		return false, fmt.Errorf("container half discarded: %d objects kept, %d unavailable", ok, nf)
	}
	return nf != 0, nil
}

type failure struct {
	c    cell
	path string
	msg  string
}

type collector struct {
	rec      *ev.Recorder
	fails    []failure
	known    int
	converse bool
}

// judge compares one observation with the reference decision.
func (k *collector) judge(path string, c cell, want, got bool, obsErr error) {
	k.judgeFrom(path, c, c.Epoch, want, got, obsErr)
}

// judgeFrom: first is the lowest epoch whose event was delivered before the
// observation (== c.Epoch for a single event); the suspected-defect class is
// "the unpaid mark is newer than SOME processed epoch".
func (k *collector) judgeFrom(path string, c cell, first int, want, got bool, obsErr error) {
	if obsErr != nil {
		k.fails = append(k.fails, failure{c, path, obsErr.Error()})
		return
	}
	if got == want {
		return
	}
	if got && !want {
		if d := c; path != "startup" && underflowClass(cell{first, d.Unpaid, d.PayOn, d.Src, d.PayErr}) {
			if k.rec.Known(fpUnderflow) {
				k.known++
				k.rec.Label("known:unpaid-since-after-epoch")
				return
			}
			k.fails = append(k.fails, failure{c, path, "container DISCARDED although its unpaid mark is newer than the processed epoch [" + fpUnderflow + "]"})
			return
		}
		k.fails = append(k.fails, failure{c, path, "container DISCARDED although neither gone nor unpaid for the grace period"})
		return
	}
	k.fails = append(k.fails, failure{c, path, "container KEPT although the reference decision is to discard it"})
}

func (k *collector) report(t *testing.T) {
	if len(k.fails) == 0 {
		return
	}
	sort.SliceStable(k.fails, func(i, j int) bool {
		a, b := k.fails[i].c, k.fails[j].c
		if a.Epoch != b.Epoch {
			return a.Epoch < b.Epoch
		}
		if a.Unpaid != b.Unpaid {
			return a.Unpaid < b.Unpaid
		}
		return a.Src < b.Src
	})
	f := k.fails[0]
	msg := fmt.Sprintf("%d violating cells; minimal: path=%s %s: %s", len(k.fails), f.path, f.c, f.msg)
	for i, g := range k.fails {
		if i == 0 {
			continue
		}
		if i > 8 {
			msg += "\n  ..."
			break
		}
		msg += fmt.Sprintf("\n  also: path=%s %s: %s", g.path, g.c, g.msg)
	}
	t.Fatal(msg)
}

// outer enumerates (epoch, payments on/off, mode) triples assigned to this process.
func outer(modes int, f func(epoch int, payOn bool, mode int)) {
	k, n := ev.Shard()
	idx := 0
	for e := minEpoch; e <= maxEpoch; e++ {
		for _, on := range []bool{true, false} {
			for m := 0; m < modes; m++ {
				if idx%n == k {
					f(e, on, m)
				}
				idx++
			}
		}
	}
}

func contains(l []cid.ID, c cid.ID) bool {
	for _, x := range l {
		if x == c {
			return true
		}
	}
	return false
}

// TestC47ShardEpoch: the shard new-epoch handler. Delivery modes: 0 = a single
// event for the processed epoch (the shard missed or never saw earlier ones –
// the engine drops events of busy shards), 1 = events 0..epoch one after the
// other (the reference decision is monotone in the epoch, so the expectation
// is the same).
func TestC47ShardEpoch(t *testing.T) {
	rec := ev.New("C47", "shard-epoch")
	defer rec.Flush()
	k := &collector{rec: rec}
	outer(2, func(epoch int, payOn bool, mode int) {
		dir, err := os.MkdirTemp("", "c47s")
		if err != nil {
			ev.Inconclusive("mkdtemp: %v", err)
		}
		defer os.RemoveAll(dir)
		ep := &stor.Epoch{}
		sh, err := stor.OpenShard(stor.ShardCfg{Dir: dir, Epoch: ep, Payments: payments(payOn), FSTOpts: fastBlob})
		if err != nil {
			ev.Inconclusive("open shard: %v", err)
		}
		defer sh.Close()
		fill(func(o *object.Object) error { return sh.Put(o, nil) })
		if mode == 0 {
			ep.Set(uint64(epoch))
			sh.VerifNewEpoch(uint64(epoch))
		} else {
			for e := 0; e <= epoch; e++ {
				ep.Set(uint64(e))
				sh.VerifNewEpoch(uint64(e))
			}
		}
		check := func(stage string) {
			list, err := sh.ListContainers()
			if err != nil {
				ev.Inconclusive("list containers: %v", err)
			}
			inner(func(u, s int, pe bool) {
				c := cell{epoch, u, payOn, s, pe}
				id := cnrOf(u, s, pe)
				got, oerr := observe(shardReader{sh}, id)
				if oerr == nil && !got && !contains(list, id) {
					oerr = errors.New("objects are readable but the container is missing from ListContainers")
				}
				first := epoch
				if mode == 1 {
					first = 0
				}
				k.judgeFrom("shard-epoch/"+stage, c, first, unpaidLong(c), got, oerr)
			})
		}
		check([]string{"single", "sequence"}[mode])
		// kept containers must survive GC passes physically
		sh.VerifGCPass()
		sh.VerifGCPass()
		check([]string{"single", "sequence"}[mode] + "+gc")
		inner(func(u, s int, pe bool) {
			c := cell{epoch, u, payOn, s, pe}
			lbl := "keep"
			if unpaidLong(c) {
				lbl = "discard"
			}
			rec.Case(nontrivial(c), fmt.Sprintf("shard/%d/%v", mode, c), "shard:"+lbl, "shard:mode-"+[]string{"single", "sequence"}[mode])
			if rec.WantSample() && c.Epoch == 4 && u >= 0 && u <= 5 && s == 0 && !pe && mode == 0 {
				rec.Sample(map[string]any{"path": "shard-epoch", "cell": c, "expect_discard": unpaidLong(c)})
			}
		})
	})
	rec.Set("exhaustive", true)
	rec.Set("domain", "epoch 0..10 x unpaidSince -1..12 x payments on/off x source 3 x payErr 2 = 1848 cells, x2 delivery modes")
	k.report(t)
}

// TestC47EngineStartup: engine.Init's cleanup of containers the source does not
// know, then the new-epoch handler on every shard of the same engine.
func TestC47EngineStartup(t *testing.T) {
	rec := ev.New("C47", "engine-startup")
	defer rec.Flush()
	k := &collector{rec: rec}
	ctx := context.Background()
	outer(1, func(epoch int, payOn bool, _ int) {
		dir, err := os.MkdirTemp("", "c47e")
		if err != nil {
			ev.Inconclusive("mkdtemp: %v", err)
		}
		defer os.RemoveAll(dir)
		ep := &stor.Epoch{}
		cfgs := func() []stor.ShardCfg {
			return []stor.ShardCfg{
				{Dir: dir + "/s0", Epoch: ep, Payments: payments(payOn), FSTOpts: fastBlob},
				{Dir: dir + "/s1", Epoch: ep, Payments: payments(payOn), FSTOpts: fastBlob},
			}
		}
		// phase 0: fill without a container source
		e0, err := stor.OpenEngine(cfgs())
		if err != nil {
			ev.Inconclusive("open engine: %v", err)
		}
		fill(func(o *object.Object) error { return e0.E.Put(ctx, o, nil) })
		if err := e0.E.Close(); err != nil {
			ev.Inconclusive("engine close: %v", err)
		}
		// phase 1: restart with the scripted source
		src := &source{ans: map[cid.ID]error{}}
		n := epoch*2 + 1
		inner(func(u, s int, pe bool) {
			n++
			switch s {
			case srcNotFound:
				src.ans[cnrOf(u, s, pe)] = notFoundErrs[n%len(notFoundErrs)]
			case srcTransient:
				src.ans[cnrOf(u, s, pe)] = transientErrs[n%len(transientErrs)]
			}
		})
		e1, err := stor.OpenEngine(cfgs(), engine.WithContainersSource(src))
		if err != nil {
			t.Fatalf("engine start with container source failed (epoch=%d payments=%v): %v", epoch, payOn, err)
		}
		defer e1.E.Close()
		inner(func(u, s int, pe bool) {
			c := cell{epoch, u, payOn, s, pe}
			got, oerr := observe(engineReader{e1.E}, cnrOf(u, s, pe))
			k.judge("startup", c, s == srcNotFound, got, oerr)
		})
		// phase 2: the epoch event reaches every shard
		ep.Set(uint64(epoch))
		shards := e1.E.VerifShards()
		ids := make([]string, 0, len(shards))
		for id := range shards {
			ids = append(ids, id)
		}
		sort.Strings(ids)
		for _, id := range ids {
			shards[id].VerifNewEpoch(uint64(epoch))
		}
		for pass := 0; pass < 2; pass++ {
			inner(func(u, s int, pe bool) {
				c := cell{epoch, u, payOn, s, pe}
				got, oerr := observe(engineReader{e1.E}, cnrOf(u, s, pe))
				k.judge("startup+epoch", c, s == srcNotFound || unpaidLong(c), got, oerr)
			})
			for _, id := range ids {
				shards[id].VerifGCPass()
			}
		}
		inner(func(u, s int, pe bool) {
			c := cell{epoch, u, payOn, s, pe}
			lbl := "keep"
			if s == srcNotFound {
				lbl = "discard-gone"
			} else if unpaidLong(c) {
				lbl = "discard-unpaid"
			}
			rec.Case(nontrivial(c), fmt.Sprintf("engine/%v", c), "engine:"+lbl, "engine:src-"+srcNames[s])
			if rec.WantSample() && c.Epoch == 3 && u == 0 && !pe {
				rec.Sample(map[string]any{"path": "engine-startup+epoch", "cell": c, "expect_discard": s == srcNotFound || unpaidLong(c)})
			}
		})
	})
	rec.Set("exhaustive", true)
	k.report(t)
}

// Package cells is the enumerated domain of property C47 and its reference
// decision, shared by the external test (/verif/harness/c47) and the policer
// in-package test (/verif/inpkg/pkg/services/policer/zz_verif_c47_test.go):
//
//	processed epoch 0..10 × unpaid-since −1..12 × payments on/off ×
//	container source {found, not found, transient error} × payment-check error on/off  (1848 cells)
//
// One storage instance (shard / engine) is built per (epoch, payments) pair and
// holds one container per remaining cell (84 containers, two objects each).
package cells

import (
	"bytes"
	"context"
	"crypto/sha256"
	"errors"
	"fmt"
	"sort"
	"sync"

	"github.com/nspcc-dev/neofs-node/pkg/local_object_storage/blobstor/fstree"
	"github.com/nspcc-dev/neofs-node/verifharness/ev"
	"github.com/nspcc-dev/neofs-node/verifharness/stor"
	"github.com/nspcc-dev/neofs-sdk-go/checksum"
	apistatus "github.com/nspcc-dev/neofs-sdk-go/client/status"
	"github.com/nspcc-dev/neofs-sdk-go/container"
	cid "github.com/nspcc-dev/neofs-sdk-go/container/id"
	"github.com/nspcc-dev/neofs-sdk-go/object"
	oid "github.com/nspcc-dev/neofs-sdk-go/object/id"
	"github.com/nspcc-dev/neofs-sdk-go/user"
	"github.com/nspcc-dev/neofs-sdk-go/version"
)

// FPUnderflow is the fingerprint of the defect found by this check and FIXED in
// /repo commit b5c6f5c: the unsigned subtraction epoch−unpaidSince in
// shard/gc.go wrapped when unpaidSince > epoch. It only tags the failure
// message now; nothing is excused.
const FPUnderflow = "C47:unpaid-since-after-epoch-underflow"

// Domain bounds.
const (
	MinEpoch, MaxEpoch   = 0, 10
	MinUnpaid, MaxUnpaid = -1, 12
	Grace                = 3
)

// Container source answers.
const (
	SrcFound = iota
	SrcNotFound
	SrcTransient
)

// SrcNames names the source answers.
var SrcNames = [...]string{"found", "not-found", "transient"}

// Cell is one point of the enumerated domain.
type Cell struct {
	Epoch  int  `json:"epoch"`
	Unpaid int  `json:"unpaid_since"`
	PayOn  bool `json:"payments_on"`
	Src    int  `json:"source"`
	PayErr bool `json:"payment_check_error"`
}

func (c Cell) String() string {
	return fmt.Sprintf("epoch=%d unpaidSince=%d payments=%v source=%s payErr=%v", c.Epoch, c.Unpaid, c.PayOn, SrcNames[c.Src], c.PayErr)
}

// UnpaidLong is the reference decision of the epoch handler, straight from the
// property text: unpaid for at least the grace period counted from the epoch
// being processed; marks newer than the processed epoch never count; disabled
// payments and payment-check errors never discard.
func UnpaidLong(c Cell) bool {
	return c.PayOn && !c.PayErr && c.Unpaid >= 0 && c.Unpaid <= c.Epoch && c.Epoch-c.Unpaid >= Grace
}

// Gone is the reference decision of the paths that ask the container source.
func Gone(c Cell) bool { return c.Src == SrcNotFound }

// underflowClass: the unpaid mark is newer than processed epoch `first`.
func underflowClass(c Cell, first int) bool {
	return c.PayOn && !c.PayErr && c.Unpaid >= 0 && c.Unpaid > first
}

// Nontrivial: at least one discard-capable input is active in the cell (the
// only trivial cells are "found, paid, no error").
func Nontrivial(c Cell) bool {
	return c.Src != SrcFound || c.PayErr || c.Unpaid >= 0
}

// CnrOf maps the in-instance part of a cell to a distinct container ID.
func CnrOf(unpaid, src int, payErr bool) cid.ID {
	var c cid.ID
	c[0] = byte(unpaid - MinUnpaid + 1)
	c[1] = byte(src + 1)
	if payErr {
		c[2] = 1
	}
	c[31] = 0x47
	return c
}

// ObjsPerCnr objects are stored in every container.
const ObjsPerCnr = 2

// MkObj builds object i of container c (pure).
func MkObj(c cid.ID, i int) *object.Object {
	var id oid.ID
	copy(id[:], c[:8])
	id[30], id[31] = 0xc4, byte(i+1)
	o := object.New(c, user.NewFromScriptHash([20]byte{0x47, byte(i)}))
	o.SetID(id)
	v := version.Current()
	o.SetVersion(&v)
	p := []byte(fmt.Sprintf("payload-%x-%d", c[:3], i))
	o.SetPayload(p)
	o.SetPayloadSize(uint64(len(p)))
	o.SetPayloadChecksum(checksum.NewSHA256(sha256.Sum256(p)))
	return o
}

// FastBlob: blob writes are not under test here, so the 10 ms combined-write
// batching window of FSTree is switched off.
var FastBlob = []fstree.Option{fstree.WithCombinedCountLimit(1)}

var errPay = errors.New("FS chain RPC call: connection lost")

// Error spellings rotated over the cells. "Not found" is what the morph
// container client returns (a ContainerNotFound status value), bare or wrapped
// with %w by the callers in between; everything else is transient.
var (
	NotFoundErrs = []error{
		apistatus.ContainerNotFound{},
		apistatus.ErrContainerNotFound,
		fmt.Errorf("read container by ID: %w", apistatus.ErrContainerNotFound),
	}
	TransientErrs = []error{
		errors.New("could not perform test invocation (getInfo): connection lost"),
		context.DeadlineExceeded,
		errors.New("container not found"), // text only, no status
		apistatus.ObjectNotFound{},        // a different "not found" status
		fmt.Errorf("read container by ID: %w", apistatus.ErrServerInternal),
		apistatus.EACLNotFound{},
	}
)

// Source is a scripted containercore.Source.
type Source struct {
	// Found is returned for containers without a scripted error.
	Found container.Container
	Ans   map[cid.ID]error
}

// Get implements containercore.Source.
func (s *Source) Get(c cid.ID) (container.Container, error) {
	if err := s.Ans[c]; err != nil {
		return container.Container{}, err
	}
	return s.Found, nil
}

// NewSource scripts the answers of all containers of one instance; salt
// rotates the error spellings.
func NewSource(salt int) *Source {
	src := &Source{Ans: map[cid.ID]error{}}
	n := salt
	Inner(func(u, s int, pe bool) {
		n++
		switch s {
		case SrcNotFound:
			src.Ans[CnrOf(u, s, pe)] = NotFoundErrs[n%len(NotFoundErrs)]
		case SrcTransient:
			src.Ans[CnrOf(u, s, pe)] = TransientErrs[n%len(TransientErrs)]
		}
	})
	return src
}

// Inner enumerates the per-instance part of the domain.
func Inner(f func(unpaid, src int, payErr bool)) {
	for u := MinUnpaid; u <= MaxUnpaid; u++ {
		for s := SrcFound; s <= SrcTransient; s++ {
			for _, pe := range []bool{false, true} {
				f(u, s, pe)
			}
		}
	}
}

// Outer enumerates the (epoch, payments on/off, mode) triples assigned to this
// process (ev.Shard partition).
func Outer(modes int, f func(epoch int, payOn bool, mode int)) {
	k, n := ev.Shard()
	idx := 0
	for e := MinEpoch; e <= MaxEpoch; e++ {
		for _, on := range []bool{true, false} {
			for m := 0; m < modes; m++ {
				if idx%n == k {
					f(e, on, m)
				}
				idx++
			}
		}
	}
}

// Payments scripts the payment checker for all containers of one instance.
func Payments(on bool) *stor.Payments {
	p := &stor.Payments{Disabled: !on, Since: map[cid.ID]int64{}, Err: map[cid.ID]error{}}
	Inner(func(u, s int, pe bool) {
		c := CnrOf(u, s, pe)
		p.Since[c] = int64(u)
		if pe {
			p.Err[c] = errPay
		}
	})
	return p
}

// Fill stores every object of every container (setup only, so it is done by a
// few workers to let the metabase coalesce transactions).
func Fill(put func(*object.Object) error) {
	var objs []*object.Object
	Inner(func(u, s int, pe bool) {
		for i := 0; i < ObjsPerCnr; i++ {
			objs = append(objs, MkObj(CnrOf(u, s, pe), i))
		}
	})
	const workers = 8
	var wg sync.WaitGroup
	errs := make([]error, workers)
	for w := 0; w < workers; w++ {
		wg.Add(1)
		go func() {
			defer wg.Done()
			for i := w; i < len(objs); i += workers {
				if err := put(objs[i]); err != nil {
					errs[w] = err
					return
				}
			}
		}()
	}
	wg.Wait()
	for _, err := range errs {
		if err != nil {
			ev.Inconclusive("fill: %v", err)
		}
	}
}

// Observe returns (discarded, problem) for container c read through get.
// discarded=false means every object of the container was returned byte-exact.
func Observe(get func(oid.Address) (*object.Object, error), c cid.ID) (bool, error) {
	var nf, ok int
	for i := 0; i < ObjsPerCnr; i++ {
		want := MkObj(c, i)
		got, err := get(want.Address())
		switch {
		case err == nil:
			if !bytes.Equal(got.Payload(), want.Payload()) || got.GetID() != want.GetID() {
				return false, fmt.Errorf("object %d read back differently", i)
			}
			ok++
		case errors.Is(err, apistatus.ErrObjectNotFound):
			nf++
		default:
			return false, fmt.Errorf("object %d: unexpected read error %w", i, err)
		}
	}
	if nf != 0 && ok != 0 {
		return false, fmt.Errorf("container half discarded: %d objects kept, %d unavailable", ok, nf)
	}
	return nf != 0, nil
}

type failure struct {
	c    Cell
	path string
	msg  string
}

// Collector gathers violating cells so that the minimal one can be reported.
type Collector struct {
	Rec   *ev.Recorder
	fails []failure
}

// Judge compares one observation with the reference decision. epochHandled
// says whether an epoch event was processed before the observation; first is
// the lowest processed epoch (the suspected-defect class is "the unpaid mark is
// newer than SOME processed epoch").
func (k *Collector) Judge(path string, c Cell, epochHandled bool, first int, want, got bool, obsErr error) {
	if obsErr != nil {
		k.fails = append(k.fails, failure{c, path, obsErr.Error()})
		return
	}
	if got == want {
		return
	}
	if got && !want {
		if epochHandled && underflowClass(c, first) {
			k.fails = append(k.fails, failure{c, path, "container DISCARDED although its unpaid mark is newer than the processed epoch [" + FPUnderflow + "]"})
			return
		}
		k.fails = append(k.fails, failure{c, path, "container DISCARDED although neither gone nor unpaid for the grace period"})
		return
	}
	k.fails = append(k.fails, failure{c, path, "container KEPT although the reference decision is to discard it"})
}

// Report returns "" when no cell violated, else a message led by the minimal cell.
func (k *Collector) Report() string {
	if len(k.fails) == 0 {
		return ""
	}
	sort.SliceStable(k.fails, func(i, j int) bool {
		a, b := k.fails[i].c, k.fails[j].c
		if a.Epoch != b.Epoch {
			return a.Epoch < b.Epoch
		}
		if a.Unpaid != b.Unpaid {
			return a.Unpaid < b.Unpaid
		}
		return a.Src < b.Src
	})
	f := k.fails[0]
	msg := fmt.Sprintf("%d violating observations; minimal cell: path=%s %s: %s", len(k.fails), f.path, f.c, f.msg)
	for i, g := range k.fails {
		if i == 0 {
			continue
		}
		if i > 8 {
			msg += "\n  ..."
			break
		}
		msg += fmt.Sprintf("\n  also: path=%s %s: %s", g.path, g.c, g.msg)
	}
	return msg
}

package c03tmp

import (
	"fmt"
	"os"
	"testing"

	objectcore "github.com/nspcc-dev/neofs-node/pkg/core/object"
	"github.com/nspcc-dev/neofs-node/verifharness/stor"
	"github.com/nspcc-dev/neofs-node/verifharness/uni"
	"github.com/nspcc-dev/neofs-sdk-go/object"
)

func TestX(t *testing.T) {
	dir, _ := os.MkdirTemp("", "x")
	defer os.RemoveAll(dir)
	ep := &stor.Epoch{}
	db, err := stor.OpenMeta(dir+"/m", ep)
	if err != nil {
		t.Fatal(err)
	}
	defer db.Close()
	for i, v := range []string{"5", "12", "15", "30"} {
		o := uni.Build(uni.Spec{Kind: uni.Regular, ID: i, Exp: -1, Parent: -1, ParentExp: -1, First: -1, Attrs: [][2]string{{"N", v}, {"S", "a" + v}}})
		if err := db.Put(o); err != nil {
			t.Fatal(err)
		}
	}
	run := func(attrs []string, fl ...[3]string) {
		var fs object.SearchFilters
		ops := map[string]object.SearchMatchType{"EQ": object.MatchStringEqual, "NE": object.MatchStringNotEqual, "PREFIX": object.MatchCommonPrefix,
			"GT": object.MatchNumGT, "GE": object.MatchNumGE, "LT": object.MatchNumLT, "LE": object.MatchNumLE}
		for _, f := range fl {
			fs.AddFilter(f[0], f[2], ops[f[1]])
		}
		ofs, cur, err := objectcore.PreprocessSearchQuery(fs, attrs, "")
		if err != nil {
			fmt.Println(fl, attrs, "prep err:", err)
			return
		}
		res, c, err := db.Search(uni.Cnr(0), ofs, attrs, cur, 100)
		fmt.Println(fl, attrs, "->", len(res), c != nil, err)
		for _, r := range res {
			fmt.Println("   ", r.ID[31], r.Attributes)
		}
	}
	run([]string{"N"}, [3]string{"N", "GE", "10"}, [3]string{"N", "LE", "20"})
	run([]string{"N"}, [3]string{"N", "LE", "20"}, [3]string{"N", "GE", "10"})
	run(nil, [3]string{"N", "LE", "20"}, [3]string{"N", "GE", "10"})
	run([]string{"S"}, [3]string{"S", "PREFIX", "a1"}, [3]string{"S", "EQ", "a15"})
	run([]string{"S"}, [3]string{"S", "NE", "zz"}, [3]string{"S", "PREFIX", "a3"})
	own := uni.Owner(0).EncodeToString()
	for n := 0; n <= 6; n++ {
		run([]string{"$Object:ownerID"}, [3]string{"$Object:ownerID", "PREFIX", own[:n]})
	}
	run(nil, [3]string{"$Object:ownerID", "PREFIX", own[:4]})
}

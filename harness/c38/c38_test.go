// Package c38 decides part (a) of property C38: the node validators of
// pkg/innerring/processors/netmap/nodevalidation and their composition.
//
// Generated node descriptors (keys, endpoints incl. malformed multiaddresses,
// attributes incl. duplicates, states, UN/LOCODE variants with correct or
// mutated derived attributes, verified-domain attributes) are checked under
// generated validator configurations (subset + order, incl. the production
// order of innerring.New). Oracles:
//
//  1. composition: CompositeValidator accepts  <=>  every configured validator,
//     evaluated on its own on the same descriptor, accepts;
//  2. per validator: the verdict equals a reference predicate written from the
//     validator's doc comment (state, structure, private domains, LOCODE,
//     external service, availability), computed from the *generation recipe*
//     and harness-owned fakes (NNS table, HTTP verifier, gRPC node), not from
//     the code under test.
package c38

import (
	"crypto/ecdsa"
	"encoding/json"
	"errors"
	"fmt"
	"net"
	"net/http"
	"net/http/httptest"
	"os"
	"sort"
	"strings"
	"sync"
	"testing"

	"github.com/nspcc-dev/locode-db/pkg/locodedb"
	"github.com/nspcc-dev/neo-go/pkg/crypto/hash"
	"github.com/nspcc-dev/neo-go/pkg/crypto/keys"
	"github.com/nspcc-dev/neo-go/pkg/encoding/address"
	netmapcore "github.com/nspcc-dev/neofs-node/pkg/core/netmap"
	nmproc "github.com/nspcc-dev/neofs-node/pkg/innerring/processors/netmap"
	"github.com/nspcc-dev/neofs-node/pkg/innerring/processors/netmap/nodevalidation"
	"github.com/nspcc-dev/neofs-node/pkg/innerring/processors/netmap/nodevalidation/availability"
	"github.com/nspcc-dev/neofs-node/pkg/innerring/processors/netmap/nodevalidation/external"
	"github.com/nspcc-dev/neofs-node/pkg/innerring/processors/netmap/nodevalidation/locode"
	"github.com/nspcc-dev/neofs-node/pkg/innerring/processors/netmap/nodevalidation/privatedomains"
	statev "github.com/nspcc-dev/neofs-node/pkg/innerring/processors/netmap/nodevalidation/state"
	"github.com/nspcc-dev/neofs-node/pkg/innerring/processors/netmap/nodevalidation/structure"
	netmapsvc "github.com/nspcc-dev/neofs-node/pkg/services/netmap"
	"github.com/nspcc-dev/neofs-node/verifharness/ev"
	"github.com/nspcc-dev/neofs-sdk-go/netmap"
	protonetmap "github.com/nspcc-dev/neofs-sdk-go/proto/netmap"
	"google.golang.org/grpc"
	"pgregory.net/rapid"
)

// ---------------------------------------------------------------- fixtures

func detKey(b byte) *keys.PrivateKey {
	raw := make([]byte, 32)
	for i := range raw {
		raw[i] = b + byte(i)*7 + 1
	}
	k, err := keys.NewPrivateKeyFromBytes(raw)
	if err != nil {
		panic(err)
	}
	return k
}

var (
	nodeKeys = []*keys.PrivateKey{detKey(1), detKey(2), detKey(3), detKey(4)}
	irKey    = detKey(40)
	srvKey   = detKey(41)
)

// fake NNS ---------------------------------------------------------------

type fakeNNS struct {
	mu      sync.Mutex
	records map[string]map[string]struct{} // domain -> "address=.."
	failing map[string]struct{}
}

// load replaces the content (the validator keeps pointing to the same NNS).
func (n *fakeNNS) load(from *fakeNNS) {
	n.mu.Lock()
	n.records, n.failing = from.records, from.failing
	n.mu.Unlock()
}

var errNNSRPC = errors.New("harness: NNS RPC failure")

func (n *fakeNNS) CheckDomainRecord(domain, record string) error {
	n.mu.Lock()
	defer n.mu.Unlock()
	if _, ok := n.failing[domain]; ok {
		return errNNSRPC
	}
	recs, ok := n.records[domain]
	if !ok {
		return errors.New("harness: domain not found")
	}
	if _, ok := recs[record]; ok {
		return nil
	}
	return privatedomains.ErrMissingDomainRecord
}

// fake external verifier -------------------------------------------------

type extMode int

const (
	extOK extMode = iota
	extNotVerified
	extBadSig
	extNoSig
	extWrongNonce
	extStatus500
	extGarbage
	extForeignSigner
	extModes
)

var extModeNames = []string{"ok", "not-verified", "bad-sig", "no-sig", "wrong-nonce", "status-500", "garbage", "foreign-signer"}

type extServer struct {
	mu     sync.Mutex
	mode   extMode
	srv    *httptest.Server
	calls  int
	badReq string
}

func newExtServer() *extServer {
	s := &extServer{}
	s.srv = httptest.NewServer(http.HandlerFunc(s.handle))
	return s
}

func (s *extServer) set(m extMode) {
	s.mu.Lock()
	s.mode = m
	s.calls = 0
	s.badReq = ""
	s.mu.Unlock()
}

func (s *extServer) handle(w http.ResponseWriter, r *http.Request) {
	s.mu.Lock()
	mode := s.mode
	s.calls++
	s.mu.Unlock()

	var req external.SignedMessage
	if err := json.NewDecoder(r.Body).Decode(&req); err != nil {
		s.note("undecodable request: " + err.Error())
		w.WriteHeader(http.StatusBadRequest)
		return
	}
	// the descriptor is kept raw: a lenient verifier must not choke on
	// descriptors the SDK decoder refuses (e.g. duplicated attributes)
	var body struct {
		NodeInfo json.RawMessage `json:"node_info"`
		Nonce    uint64          `json:"nonce"`
	}
	if err := json.Unmarshal(req.Body, &body); err != nil {
		s.note("undecodable request body: " + err.Error())
		w.WriteHeader(http.StatusBadRequest)
		return
	}
	// The validator signs sha256(body) with the IR key.
	if req.Signature == nil || !irKey.PublicKey().Verify(req.Signature.Sign, hash.Sha256(req.Body).BytesBE()) {
		s.note("request not signed by the IR key")
	}
	if len(body.NodeInfo) == 0 {
		s.note("request without node_info")
	}

	switch mode {
	case extStatus500:
		w.WriteHeader(http.StatusInternalServerError)
		return
	case extGarbage:
		_, _ = w.Write([]byte("{not json"))
		return
	}
	res := external.ResponseBody{Verified: mode != extNotVerified, Nonce: body.Nonce}
	if mode == extNotVerified {
		res.Details = "harness says no"
	}
	if mode == extWrongNonce {
		res.Nonce = body.Nonce + 1
	}
	raw, _ := json.Marshal(res)
	msg := external.SignedMessage{Body: raw}
	switch mode {
	case extNoSig:
	case extBadSig:
		sig := irKey.Sign(raw)
		sig[len(sig)/2] ^= 0x40
		msg.Signature = &external.Signature{Sign: sig}
	case extForeignSigner:
		msg.Signature = &external.Signature{Sign: srvKey.Sign(raw)}
	default:
		msg.Signature = &external.Signature{Sign: irKey.Sign(raw)}
	}
	_ = json.NewEncoder(w).Encode(msg)
}

func (s *extServer) note(m string) {
	s.mu.Lock()
	if s.badReq == "" {
		s.badReq = m
	}
	s.mu.Unlock()
}

// fake storage node (gRPC NetmapService) ----------------------------------

type nodeContract struct {
	mu   sync.Mutex
	info netmap.NodeInfo
	fail bool
}

func (c *nodeContract) CurrentEpoch() uint64 { return 7 }
func (c *nodeContract) LocalNodeInfo() (netmap.NodeInfo, error) {
	c.mu.Lock()
	defer c.mu.Unlock()
	if c.fail {
		return netmap.NodeInfo{}, errors.New("harness: node info unavailable")
	}
	return c.info, nil
}
func (c *nodeContract) GetNetworkInfo() (netmap.NetworkInfo, error) {
	return netmap.NetworkInfo{}, errors.New("unused")
}
func (c *nodeContract) GetNetworkMap() (netmap.NetMap, error) {
	return netmap.NetMap{}, errors.New("unused")
}

var _ netmapcore.State = (*nodeContract)(nil)

type fakeNode struct {
	contract *nodeContract
	port     int
	stop     func()
}

func startFakeNode() (*fakeNode, error) {
	lis, err := net.Listen("tcp", "127.0.0.1:0")
	if err != nil {
		return nil, err
	}
	c := &nodeContract{}
	gs := grpc.NewServer()
	protonetmap.RegisterNetmapServiceServer(gs, netmapsvc.New((*ecdsa.PrivateKey)(&srvKey.PrivateKey), c))
	go func() { _ = gs.Serve(lis) }()
	return &fakeNode{contract: c, port: lis.Addr().(*net.TCPAddr).Port, stop: gs.Stop}, nil
}

// ---------------------------------------------------------------- recipe

type endpoint struct {
	s     string
	valid int // structure verdict per the documented rule: 1 valid, 0 invalid, -1 not classified
	live  bool
	dead  bool // parsable and pointing to a closed local port
}

func endpointPool(livePort int) []endpoint {
	lp := fmt.Sprint(livePort)
	return []endpoint{
		{s: "/ip4/127.0.0.1/tcp/" + lp, valid: 1, live: true},
		{s: "127.0.0.1:" + lp, valid: 1, live: true},
		{s: "/dns4/localhost/tcp/" + lp, valid: 1, live: true},
		{s: "/ip4/127.0.0.1/tcp/1", valid: 1, dead: true},
		{s: "127.0.0.1:1", valid: 1, dead: true},
		{s: "/ip4/127.0.0.1/tcp/1/tls", valid: 1, dead: true},
		{s: "grpcs://127.0.0.1:1", valid: 1, dead: true},
		{s: "/ip6/::1/tcp/1", valid: 1, dead: true},
		{s: "/ip4/127.0.0.1/udp/1", valid: 0},
		{s: "/ip4/127.0.0.1", valid: 0},
		{s: "/tcp/1", valid: 0},
		{s: "/ip4/127.0.0.1/tcp/1/tls/http", valid: 0},
		{s: "/ip4/127.0.0.1/tcp/1/http", valid: 0},
		{s: "/dns6/localhost/tcp/1", valid: 0},
		{s: "/ip4/999.0.0.1/tcp/1", valid: 0},
		{s: "/ip4/127.0.0.1/tcp/70000", valid: 0},
		{s: "", valid: 0},
		{s: "no port here", valid: 0},
		{s: "/", valid: 0},
	}
}

type locodeSpec struct {
	name     string
	attr     string // UN-LOCODE attribute value ("" = absent)
	lookup   string // what locodedb.Get is expected to be asked (normalised) – only for known-valid
	validFmt bool
}

var locodePool = []locodeSpec{
	{name: "none"},
	{name: "RU MOW", attr: "RU MOW", validFmt: true},
	{name: "RUMOW", attr: "RUMOW", validFmt: true},
	{name: "SE STO", attr: "SE STO", validFmt: true},
	{name: "US NYC", attr: "US NYC", validFmt: true},
	{name: "DE BER", attr: "DE BER", validFmt: true},
	{name: "FI HEL", attr: "FI HEL", validFmt: true},
	{name: "lower", attr: "ru mow"},
	{name: "two-spaces", attr: "RU  MOW"},
	{name: "too-long", attr: "RU MOWW"},
	{name: "short", attr: "RU"},
	{name: "unknown-country", attr: "XX AAA"},
	{name: "unknown-location", attr: "RU QQ9"},
	{name: "tab-sep", attr: "RU\tMOW"},
	{name: "trailing-space", attr: "RU MOW "},
}

// derived attribute mutations.
const (
	locMutNone = iota
	locMutCountryCode
	locMutCountryName
	locMutLocation
	locMutContinent
	locMutSubDivCode
	locMutSubDivName
	locMutDropCountryName
	locMutDropLocation
	locMutDropAll
	locMuts
)

var locMutNames = []string{"none", "cc", "country", "location", "continent", "subdiv-code", "subdiv-name", "drop-country", "drop-location", "drop-all"}

type recipe struct {
	KeyKind   string // "pool", "none", "garbage33", "short"
	KeyIdx    int
	Endpoints []int
	State     string // "unset","online","offline","maintenance"
	Attrs     [][2]string
	DupAttr   bool
	Locode    int
	LocMut    int
	Domain    string // "" none
	InDomain  bool
	ExtMode   extMode
	NodeMut   string // what the live node serves: "same","state","attr-value","attr-extra","attr-missing","key","endpoint-extra","endpoint-other","error"
	Config    []string
}

var plainAttrKeys = []string{"Price", "Capacity", "k", "k1", "k1x", "Zone", "Ext"}
var plainAttrVals = []string{"1", "0", "v", "vv", "10", "RU"}

func genRecipe(t *rapid.T, nEndpoints int) recipe {
	var r recipe
	r.KeyKind = rapid.SampledFrom([]string{"pool", "pool", "pool", "pool", "none", "garbage33", "short"}).Draw(t, "keyKind")
	r.KeyIdx = rapid.IntRange(0, len(nodeKeys)-1).Draw(t, "keyIdx")
	// validator configuration first: live endpoints are dialled (slow) only
	// when the availability validator is configured
	all := []string{"state", "structure", "availability", "privatedomains", "locode", "external"}
	switch rapid.IntRange(0, 3).Draw(t, "cfgKind") {
	case 0: // production order without external
		r.Config = all[:5]
	case 1: // production order with external
		r.Config = all
	default:
		perm := rapid.Permutation(all).Draw(t, "cfgPerm")
		n := rapid.IntRange(0, len(all)).Draw(t, "cfgLen")
		r.Config = perm[:n]
		if rapid.IntRange(0, 7).Draw(t, "cfgRepeat") == 0 && n > 0 {
			r.Config = append(append([]string{}, r.Config...), r.Config[0])
		}
	}
	withAvail := false
	for _, c := range r.Config {
		withAvail = withAvail || c == "availability"
	}
	// endpoints: mostly few and valid, so that whole-descriptor acceptance is common
	nEp := rapid.SampledFrom([]int{0, 0, 1, 1, 1, 2, 2, 3}).Draw(t, "nEndpoints")
	classes := []string{"live", "live", "any", "valid", "any", "valid"}
	if withAvail {
		classes = []string{"live", "dead", "dead", "any", "any", "any", "dead", "any", "dead", "any"}
	}
	epClass := rapid.SampledFrom(classes).Draw(t, "epClass")
	pool := endpointPool(0)
	for i := 0; i < nEp; i++ {
		var idx int
		switch epClass {
		case "live":
			idx = rapid.IntRange(0, 2).Draw(t, "ep")
		case "valid":
			idx = rapid.IntRange(0, 7).Draw(t, "ep")
		case "dead":
			idx = rapid.IntRange(3, 7).Draw(t, "ep")
		default:
			idx = rapid.IntRange(3, len(pool)-1).Draw(t, "ep")
		}
		r.Endpoints = append(r.Endpoints, idx)
	}
	r.State = rapid.SampledFrom([]string{"online", "online", "online", "maintenance", "offline", "unset"}).Draw(t, "state")
	nAttr := rapid.IntRange(0, 4).Draw(t, "nAttr")
	for i := 0; i < nAttr; i++ {
		k := rapid.SampledFrom(plainAttrKeys).Draw(t, "attrKey")
		v := rapid.SampledFrom(plainAttrVals).Draw(t, "attrVal")
		r.Attrs = append(r.Attrs, [2]string{k, v})
	}
	r.DupAttr = rapid.IntRange(0, 5).Draw(t, "dupAttr") == 0
	if rapid.IntRange(0, 2).Draw(t, "withLocode") > 0 {
		if rapid.IntRange(0, 2).Draw(t, "locodeValid") > 0 {
			r.Locode = rapid.IntRange(1, 6).Draw(t, "locode")
		} else {
			r.Locode = rapid.IntRange(1, len(locodePool)-1).Draw(t, "locode")
		}
		if rapid.IntRange(0, 2).Draw(t, "locMutate") == 0 {
			r.LocMut = rapid.IntRange(1, locMuts-1).Draw(t, "locMut")
		}
	} else if rapid.IntRange(0, 5).Draw(t, "strayDerived") == 0 {
		// derived attributes without UN-LOCODE
		r.LocMut = -1
	}
	if rapid.IntRange(0, 2).Draw(t, "withDomain") == 0 {
		r.Domain = rapid.SampledFrom([]string{"nodes.neofs", "nodes.neofs", "empty.neofs", "absent.neofs", "failing.neofs"}).Draw(t, "domain")
		r.InDomain = rapid.Bool().Draw(t, "inDomain")
	}
	if rapid.IntRange(0, 1).Draw(t, "extOK") == 0 {
		r.ExtMode = extOK
	} else {
		r.ExtMode = extMode(rapid.IntRange(0, int(extModes)-1).Draw(t, "extMode"))
	}
	r.NodeMut = rapid.SampledFrom([]string{"same", "same", "same", "state", "attr-value", "attr-extra", "attr-missing", "key", "endpoint-extra", "endpoint-other", "error"}).Draw(t, "nodeMut")

	_ = nEndpoints
	return r
}

type world struct {
	ext  *extServer
	node *fakeNode
	nns  *fakeNNS
	eps  []endpoint
}

func (w *world) keyBytes(r recipe) []byte {
	switch r.KeyKind {
	case "pool":
		return nodeKeys[r.KeyIdx].PublicKey().Bytes()
	case "garbage33":
		b := make([]byte, 33)
		for i := range b {
			b[i] = byte(0xA0 + i + r.KeyIdx)
		}
		return b
	case "short":
		return []byte{2, 1, 2, 3, byte(r.KeyIdx)}
	}
	return nil
}

// build makes the descriptor and the reference verdict of every validator.
func (w *world) build(r recipe) (netmap.NodeInfo, map[string]int) {
	var ni netmap.NodeInfo
	ref := map[string]int{} // 1 accept, 0 reject, -1 no reference

	if kb := w.keyBytes(r); kb != nil {
		ni.SetPublicKey(kb)
	}
	var eps []string
	for _, i := range r.Endpoints {
		eps = append(eps, w.eps[i].s)
	}
	if len(eps) > 0 {
		ni.SetNetworkEndpoints(eps...)
	}
	switch r.State {
	case "online":
		ni.SetOnline()
	case "offline":
		ni.SetOffline()
	case "maintenance":
		ni.SetMaintenance()
	}

	attrs := [][2]string{}
	seen := map[string]bool{}
	add := func(k, v string) {
		if v == "" {
			return
		}
		if seen[k] { // keep the attribute list a map unless a duplicate is requested
			for i := range attrs {
				if attrs[i][0] == k {
					attrs[i][1] = v
				}
			}
			return
		}
		seen[k] = true
		attrs = append(attrs, [2]string{k, v})
	}
	for _, a := range r.Attrs {
		add(a[0], a[1])
	}

	// LOCODE
	ls := locodePool[r.Locode]
	refLocode := 1
	if ls.attr != "" {
		add("UN-LOCODE", ls.attr)
		rec, err := locodedb.Get(ls.attr)
		if ls.validFmt && err != nil {
			panic(fmt.Sprintf("harness: locode %q expected in DB: %v", ls.attr, err))
		}
		if err != nil {
			refLocode = 0
		} else {
			cc := ls.attr[:2]
			vals := map[string]string{
				"CountryCode": cc, "Country": rec.Country, "Location": rec.Location,
				"Continent": rec.Cont.String(), "SubDivCode": rec.SubDivCode, "SubDiv": rec.SubDivName,
			}
			mutated := false
			mut := func(k string) {
				vals[k] = vals[k] + "x"
				mutated = true
			}
			drop := func(k string) {
				if vals[k] != "" {
					mutated = true
				}
				vals[k] = ""
			}
			switch r.LocMut {
			case locMutCountryCode:
				mut("CountryCode")
			case locMutCountryName:
				mut("Country")
			case locMutLocation:
				mut("Location")
			case locMutContinent:
				mut("Continent")
			case locMutSubDivCode:
				mut("SubDivCode")
			case locMutSubDivName:
				mut("SubDiv")
			case locMutDropCountryName:
				drop("Country")
			case locMutDropLocation:
				drop("Location")
			case locMutDropAll:
				for k := range vals {
					drop(k)
				}
			}
			for _, k := range []string{"CountryCode", "Country", "Location", "Continent", "SubDivCode", "SubDiv"} {
				add(k, vals[k])
			}
			if mutated {
				refLocode = 0
			}
		}
	} else if r.LocMut == -1 {
		add("CountryCode", "RU")
		add("Country", "Russia")
	}
	ref["locode"] = refLocode

	// verified domain
	refDomain := 1
	if r.Domain != "" {
		add("VerifiedNodesDomain", r.Domain)
		kb := w.keyBytes(r)
		switch {
		case len(kb) == 0:
			refDomain = 0
		case r.Domain != "nodes.neofs":
			refDomain = 0 // empty record list, unknown domain, failing RPC
		default:
			refDomain = 0
			if r.KeyKind == "pool" && r.InDomain {
				refDomain = 1
			}
		}
	}
	ref["privatedomains"] = refDomain

	dup := false
	if r.DupAttr && len(attrs) > 0 {
		attrs = append(attrs, [2]string{attrs[0][0], "dup"})
		dup = true
	}
	if len(attrs) > 0 {
		ni.SetAttributes(attrs)
	}

	// state
	ref["state"] = 0
	if r.State == "online" || r.State == "maintenance" {
		ref["state"] = 1
	}

	// structure
	st := 1
	for _, i := range r.Endpoints {
		switch w.eps[i].valid {
		case 0:
			st = 0
		case -1:
			if st == 1 {
				st = -1
			}
		}
	}
	if st != 0 && dup {
		st = 0
	}
	ref["structure"] = st

	// external
	ref["external"] = 0
	if r.ExtMode == extOK {
		ref["external"] = 1
	}

	// availability: every announced endpoint must answer EndpointInfo with the
	// same descriptor (state aside).
	av := 1
	for _, i := range r.Endpoints {
		if !w.eps[i].live {
			av = 0
		}
	}
	if av == 1 && len(r.Endpoints) > 0 {
		switch r.NodeMut {
		case "same", "state":
		default:
			av = 0
		}
		if r.KeyKind != "pool" {
			// the served descriptor is signed/encoded by a real node: a descriptor
			// without a valid key cannot be served back identically; no reference.
			av = -1
		}
		if dup {
			av = -1
		}
		var probe netmap.NodeInfo
		if probe.Unmarshal(ni.Marshal()) != nil {
			// a descriptor the SDK refuses to decode cannot be served back by a
			// real node at all (the harness serves a substitute): no reference.
			av = -1
		}
	}
	ref["availability"] = av

	return ni, ref
}

// served computes what the fake node answers for the announced descriptor.
func (w *world) serve(r recipe, ni netmap.NodeInfo) {
	var s netmap.NodeInfo
	raw := ni.Marshal()
	if err := s.Unmarshal(raw); err != nil {
		// cannot be served as is (e.g. bad key): serve something well-formed
		s = netmap.NodeInfo{}
		s.SetPublicKey(nodeKeys[0].PublicKey().Bytes())
		s.SetNetworkEndpoints("/ip4/127.0.0.1/tcp/1")
		s.SetOnline()
	}
	fail := false
	switch r.NodeMut {
	case "state":
		if ni.IsMaintenance() {
			s.SetOnline()
		} else {
			s.SetMaintenance()
		}
	case "attr-value":
		if s.NumberOfAttributes() > 0 {
			a := s.GetAttributes()
			cp := make([][2]string, len(a))
			copy(cp, a)
			cp[len(cp)-1][1] += "y"
			s.SetAttributes(cp)
		} else {
			s.SetAttribute("k", "served-only")
		}
	case "attr-extra":
		s.SetAttribute("ServedExtra", "1")
	case "attr-missing":
		if s.NumberOfAttributes() > 0 {
			a := s.GetAttributes()
			cp := make([][2]string, len(a)-1)
			copy(cp, a[:len(a)-1])
			s.SetAttributes(cp)
		} else {
			s.SetAttribute("k", "served-only")
		}
	case "key":
		s.SetPublicKey(nodeKeys[(r.KeyIdx+1)%len(nodeKeys)].PublicKey().Bytes())
	case "endpoint-extra":
		var e []string
		for x := range s.NetworkEndpoints() {
			e = append(e, x)
		}
		s.SetNetworkEndpoints(append(e, "/ip4/10.0.0.1/tcp/1")...)
	case "endpoint-other":
		var e []string
		for x := range s.NetworkEndpoints() {
			e = append(e, x)
		}
		if len(e) > 0 {
			e[len(e)-1] = "/ip4/10.0.0.1/tcp/1"
		}
		s.SetNetworkEndpoints(e...)
	case "error":
		fail = true
	}
	c := w.node.contract
	c.mu.Lock()
	c.info = s
	c.fail = fail
	c.mu.Unlock()
}

func (w *world) validator(name string) nmproc.NodeValidator {
	switch name {
	case "state":
		return statev.New()
	case "structure":
		return structure.New()
	case "availability":
		return availability.New()
	case "privatedomains":
		return privatedomains.New(w.nns)
	case "locode":
		return locode.New()
	case "external":
		return external.New(w.ext.srv.URL+"/verify", irKey)
	}
	panic(name)
}

var (
	worldOnce sync.Once
	theWorld  *world
)

func getWorld() *world {
	worldOnce.Do(func() {
		node, err := startFakeNode()
		if err != nil {
			fmt.Println("VERIF-INCONCLUSIVE: cannot start local gRPC node:", err)
			os.Exit(3)
		}
		w := &world{ext: newExtServer(), node: node, eps: endpointPool(node.port)}
		recs := map[string]struct{}{}
		for _, k := range nodeKeys {
			recs["address="+address.Uint160ToString(k.PublicKey().GetScriptHash())] = struct{}{}
		}
		w.nns = &fakeNNS{
			records: map[string]map[string]struct{}{"nodes.neofs": recs, "empty.neofs": {}},
			failing: map[string]struct{}{"failing.neofs": {}},
		}
		theWorld = w
	})
	return theWorld
}

// nnsFor returns the NNS view of the case: the node's key is listed in
// nodes.neofs iff the recipe says so.
func (w *world) nnsFor(r recipe) *fakeNNS {
	recs := map[string]struct{}{}
	for i, k := range nodeKeys {
		if r.KeyKind == "pool" && i == r.KeyIdx && !r.InDomain {
			continue
		}
		recs["address="+address.Uint160ToString(k.PublicKey().GetScriptHash())] = struct{}{}
	}
	return &fakeNNS{
		records: map[string]map[string]struct{}{"nodes.neofs": recs, "empty.neofs": {}},
		failing: map[string]struct{}{"failing.neofs": {}},
	}
}

// safeVerify runs a validator; a panic is reported as a rejection carrying
// errPanicked (a validator that panics certainly did not accept).
func safeVerify(v nmproc.NodeValidator, ni netmap.NodeInfo) (err error) {
	defer func() {
		if p := recover(); p != nil {
			err = fmt.Errorf("%w: %v", errPanicked, p)
		}
	}()
	return v.Verify(ni)
}

var errPanicked = errors.New("validator panicked")

func verdict(err error) int {
	if err == nil {
		return 1
	}
	return 0
}

// TestC38Self checks the harness tables against the documented rules once, so
// that a wrong table shows up as one clear failure instead of random ones.
func TestC38Self(t *testing.T) {
	w := getWorld()
	for _, e := range w.eps {
		if e.valid < 0 {
			continue
		}
		var ni netmap.NodeInfo
		ni.SetNetworkEndpoints(e.s)
		got := verdict(structure.New().Verify(ni))
		if got != e.valid {
			t.Errorf("endpoint %q: structure validator verdict %d, documented rule says %d", e.s, got, e.valid)
		}
	}
}

func TestC38Validators(t *testing.T) {
	rec := ev.New("C38", "validators")
	defer rec.Flush()
	w := getWorld()

	rapid.Check(t, func(t *rapid.T) {
		r := genRecipe(t, len(w.eps))
		w.nns.load(w.nnsFor(r))
		ni, ref := w.build(r)
		w.serve(r, ni)
		w.ext.set(r.ExtMode)

		// each configured validator on its own
		single := map[string]error{}
		uniq := map[string]bool{}
		for _, name := range r.Config {
			if uniq[name] {
				continue
			}
			uniq[name] = true
			single[name] = safeVerify(w.validator(name), ni)
		}
		var vs []nmproc.NodeValidator
		for _, name := range r.Config {
			vs = append(vs, w.validator(name))
		}
		w.ext.set(r.ExtMode)
		compErr := safeVerify(nodevalidation.New(vs...), ni)

		// A time-out of the local gRPC / HTTP round trip is a property of the (shared, loaded)
		// machine, not of the validators: such a case decides nothing.
		timedOut := isTimeout(compErr)
		for _, e := range single {
			timedOut = timedOut || isTimeout(e)
		}
		if timedOut {
			envTimeouts++
			rec.Case(false, "env-timeout", "env-timeout")
			if envTimeouts > 50 {
				ev.Inconclusive("more than 50 cases hit local network time-outs (overloaded machine)")
			}
			return
		}

		allAccept := true
		firstReject := ""
		nRej := 0
		for _, name := range r.Config {
			if single[name] != nil {
				if allAccept {
					firstReject = name
				}
				allAccept = false
			}
		}
		for name := range uniq {
			if single[name] != nil {
				nRej++
			}
		}

		// labels / non-triviality
		labels := []string{fmt.Sprintf("cfg-len-%d", len(r.Config)), fmt.Sprintf("rejecting-%d", min(nRej, 3))}
		if allAccept {
			labels = append(labels, "all-accept")
		} else {
			labels = append(labels, "first-reject-"+firstReject)
			if len(r.Config) > 0 && firstReject != r.Config[0] {
				labels = append(labels, "reject-after-an-accept")
			}
		}
		if ref["availability"] == 1 && len(r.Endpoints) > 0 && uniq["availability"] {
			labels = append(labels, "availability-live-accept")
		}
		if uniq["external"] {
			labels = append(labels, "ext-"+extModeNames[r.ExtMode])
		}
		if r.Locode != 0 {
			labels = append(labels, "locode-"+map[bool]string{true: "known", false: "bad"}[locodePool[r.Locode].validFmt], "locmut-"+locMutNames[max(r.LocMut, 0)])
		}
		if r.Domain != "" {
			labels = append(labels, "domain-"+r.Domain)
		}
		if r.DupAttr {
			labels = append(labels, "dup-attr")
		}
		// non-trivial: at least two configured validators that disagree or all
		// accept with >= 3 validators (composition really decides something)
		nontrivial := len(uniq) >= 2 && (allAccept && len(uniq) >= 3 || nRej >= 1 && nRej < len(uniq))
		fp, _ := json.Marshal(r)
		rec.Case(nontrivial, string(fp), labels...)
		if rec.WantSample() {
			rec.Sample(map[string]any{"recipe": r, "composite": fmt.Sprint(compErr)})
		}

		// oracle 1: composition
		if (compErr == nil) != allAccept {
			t.Fatalf("composite verdict %v but individual verdicts %v\nconfig %v\nnode %s", compErr, errMap(single), r.Config, dump(ni))
		}
		if compErr != nil && !mentions(compErr, single) {
			t.Fatalf("composite error %q is not the error of any configured validator %v", compErr, errMap(single))
		}

		// oracle 2: reference verdict per validator
		for name, err := range single {
			want := ref[name]
			if want < 0 {
				continue
			}
			if verdict(err) != want {
				t.Fatalf("validator %s: got %v, reference verdict %d\nrecipe %s\nnode %s", name, err, want, fp, dump(ni))
			}
		}
		if uniq["external"] {
			w.ext.mu.Lock()
			bad := w.ext.badReq
			w.ext.mu.Unlock()
			if bad != "" {
				t.Fatalf("external validator sent a bad request: %s", bad)
			}
		}
	})
}

var envTimeouts int

func isTimeout(err error) bool {
	if err == nil {
		return false
	}
	m := err.Error()
	return strings.Contains(m, "DeadlineExceeded") || strings.Contains(m, "deadline exceeded") || strings.Contains(m, "Client.Timeout")
}

func errMap(m map[string]error) string {
	var ks []string
	for k := range m {
		ks = append(ks, k)
	}
	sort.Strings(ks)
	var sb strings.Builder
	for _, k := range ks {
		fmt.Fprintf(&sb, "%s=%v; ", k, m[k])
	}
	return sb.String()
}

// mentions: the composite error is (textually, modulo random nonces and ports)
// the error of a rejecting configured validator.
func mentions(err error, single map[string]error) bool {
	for _, e := range single {
		if e == nil {
			continue
		}
		if errors.Is(err, e) || prefix(err.Error()) == prefix(e.Error()) {
			return true
		}
	}
	return false
}

func prefix(s string) string {
	if len(s) > 24 {
		return s[:24]
	}
	return s
}

func dump(ni netmap.NodeInfo) string {
	b, _ := ni.MarshalJSON()
	return string(b)
}

// TestC38History: the inner ring keeps ONE CompositeValidator for its whole
// life and candidates re-announce themselves every epoch. One composite
// instance per configuration receives a history of 3-10 candidates in which
// later candidates are near copies of earlier ones: the same key / addresses /
// attributes with another node state, or the identical descriptor after a
// verdict of a validator changed (record removed from the private-domain
// access list, external verifier revoked it, the node stopped answering or
// answers with another descriptor). Oracle at every step: the composite
// accepts <=> every configured validator, evaluated on its own right now on
// the same descriptor, accepts.
func TestC38History(t *testing.T) {
	rec := ev.New("C38", "validator-history")
	defer rec.Flush()
	w := getWorld()

	rapid.Check(t, func(t *rapid.T) {
		base := genRecipe(t, len(w.eps))
		cfg := base.Config
		// composites that matter: at least the state validator plus verdict-flipping ones, mostly the production order
		if len(cfg) == 0 || rapid.IntRange(0, 2).Draw(t, "productionCfg") > 0 {
			cfg = []string{"state", "structure", "availability", "privatedomains", "locode", "external"}
			if rapid.Bool().Draw(t, "noExternal") {
				cfg = cfg[:5]
			}
		}
		var vs []nmproc.NodeValidator
		uniq := map[string]bool{}
		for _, name := range cfg {
			vs = append(vs, w.validator(name))
			uniq[name] = true
		}
		composite := nodevalidation.New(vs...) // ONE instance for the whole history

		var (
			steps                []recipe
			accepted             []int // indexes of steps the composite accepted
			history              []string
			reAfterAccept, flips int
		)
		n := rapid.IntRange(3, 10).Draw(t, "steps")
		for i := 0; i < n; i++ {
			var r recipe
			kind := "fresh"
			if len(steps) > 0 && rapid.IntRange(0, 3).Draw(t, "reannounce") > 0 {
				src := rapid.IntRange(0, len(steps)-1).Draw(t, "of")
				if len(accepted) > 0 && rapid.IntRange(0, 3).Draw(t, "ofAccepted") > 0 {
					src = accepted[rapid.IntRange(0, len(accepted)-1).Draw(t, "ofAcceptedIdx")]
				}
				r = steps[src]
				kind = rapid.SampledFrom([]string{"state", "state", "nns", "external", "node", "same"}).Draw(t, "change")
				switch kind {
				case "state":
					r.State = rapid.SampledFrom([]string{"offline", "unset", "maintenance", "online"}).Draw(t, "newState")
				case "nns":
					r.InDomain = !r.InDomain
				case "external":
					r.ExtMode = extMode(rapid.IntRange(0, int(extModes)-1).Draw(t, "newExtMode"))
				case "node":
					r.NodeMut = rapid.SampledFrom([]string{"same", "attr-value", "key", "error", "endpoint-extra"}).Draw(t, "newNodeMut")
				}
				kind = fmt.Sprintf("re(%d):%s", src, kind)
			} else {
				r = genRecipe(t, len(w.eps))
				// candidates that pass are what makes a history interesting
				if rapid.Bool().Draw(t, "easy") {
					r.State, r.DupAttr, r.Domain, r.ExtMode, r.NodeMut = "online", false, "", extOK, "same"
					if r.Locode != 0 {
						r.Locode, r.LocMut = 1+r.Locode%6, locMutNone
					}
					var eps []int
					for _, e := range r.Endpoints {
						eps = append(eps, e%3)
					}
					r.Endpoints = eps
					if r.KeyKind != "pool" {
						r.KeyKind = "pool"
					}
				}
			}
			r.Config = cfg
			steps = append(steps, r)

			w.nns.load(w.nnsFor(r))
			ni, _ := w.build(r)
			w.serve(r, ni)
			w.ext.set(r.ExtMode)

			single := map[string]error{}
			for name := range uniq {
				single[name] = safeVerify(w.validator(name), ni)
			}
			w.ext.set(r.ExtMode)
			compErr := safeVerify(composite, ni)
			timedOut := isTimeout(compErr)
			allAccept := true
			for _, e := range single {
				timedOut = timedOut || isTimeout(e)
				if e != nil {
					allAccept = false
				}
			}
			if timedOut {
				envTimeouts++
				if envTimeouts > 50 {
					ev.Inconclusive("more than 50 cases hit local network time-outs (overloaded machine)")
				}
				history = append(history, kind+"->env-timeout")
				continue
			}
			history = append(history, fmt.Sprintf("%s->%v", kind, compErr == nil))
			if strings.HasPrefix(kind, "re(") {
				var src int
				fmt.Sscanf(kind, "re(%d)", &src)
				for _, a := range accepted {
					if a == src {
						reAfterAccept++
						if !allAccept {
							flips++
						}
					}
				}
			}
			if (compErr == nil) != allAccept {
				b, _ := json.Marshal(r)
				t.Fatalf("step %d (%s): composite verdict %v but the validators, run on their own right now, say %s\nconfig %v\nhistory %s\nrecipe %s\nnode %s",
					i, kind, compErr, errMap(single), cfg, strings.Join(history, " "), b, dump(ni))
			}
			if compErr == nil {
				accepted = append(accepted, i)
			}
		}
		labels := []string{fmt.Sprintf("accepted-%d", min(len(accepted), 3)), fmt.Sprintf("reannounce-after-accept-%d", min(reAfterAccept, 3))}
		if flips > 0 {
			labels = append(labels, "accepted-then-must-reject")
		}
		rec.Case(flips > 0, strings.Join(history, " ")+fmt.Sprint(cfg), labels...)
		if rec.WantSample() {
			rec.Sample(map[string]any{"config": cfg, "history": history})
		}
	})
}

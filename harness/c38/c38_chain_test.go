package c38

// C38 (b) on a real chain (see harness/irchain): netmap.Processor built with
// its public constructor over the real morph client behind a recording proxy.
//
//   - TestC38AddNode: addNode notary requests with valid / invalid main
//     transaction scripts (the chain's test invocation decides validity) and a
//     validator chain made of the real state/structure/LOCODE validators plus a
//     scripted one. Oracle: an approval (submitnotaryrequest carrying the
//     request's main transaction) is recorded  =>  script valid AND every
//     validator accepts AND the state says alphabet; conversely a valid,
//     accepted request in alphabet state is approved exactly once.
//   - TestC38EpochTick: histories of on-chain epoch changes, NewEpoch
//     notifications (current and stale) and timer ticks. Oracle: a tick in
//     alphabet state asks for exactly (last notified epoch + 1), once; in
//     non-alphabet state (or failed lookup) nothing is sent.

import (
	"bytes"
	"errors"
	"fmt"
	"os"
	"strings"
	"sync"
	"testing"
	"time"

	"github.com/nspcc-dev/neo-go/pkg/crypto/keys"
	"github.com/nspcc-dev/neo-go/pkg/smartcontract"
	netmaprpc "github.com/nspcc-dev/neofs-contract/rpc/netmap"
	"github.com/nspcc-dev/neofs-node/pkg/innerring/processors/netmap/nodevalidation"
	"github.com/nspcc-dev/neofs-node/pkg/innerring/processors/netmap/nodevalidation/locode"
	statev "github.com/nspcc-dev/neofs-node/pkg/innerring/processors/netmap/nodevalidation/state"
	"github.com/nspcc-dev/neofs-node/pkg/innerring/processors/netmap/nodevalidation/structure"
	nmEvent "github.com/nspcc-dev/neofs-node/pkg/morph/event/netmap"
	"github.com/nspcc-dev/neofs-node/verifharness/ev"
	"github.com/nspcc-dev/neofs-node/verifharness/irchain"
	"github.com/nspcc-dev/neofs-node/verifharness/irfix"
	"github.com/nspcc-dev/neofs-node/verifharness/irsetup"
	"github.com/nspcc-dev/neofs-node/verifharness/neoproxy"
	"github.com/nspcc-dev/neofs-sdk-go/netmap"
	"pgregory.net/rapid"
)

var (
	chainOnce  sync.Once
	chainWorld *irchain.World
	chainErr   error
	chainEpoch int
)

func getChain() *irchain.World {
	chainOnce.Do(func() {
		chainWorld, chainErr = irchain.NewWorld(false, func(w *irchain.World) error {
			chainEpoch = 1
			return w.Admin.Invoke(w.Contracts.Netmap, "newEpoch", nil, 1)
		})
	})
	if chainErr != nil {
		fmt.Println("VERIF-INCONCLUSIVE: cannot start the local FS chain:", chainErr)
		os.Exit(3)
	}
	return chainWorld
}

func findHandler(e *irsetup.Env, name string) irsetup.Handler {
	hs, err := e.Handlers()
	if err != nil {
		fmt.Println("VERIF-INCONCLUSIVE:", err)
		os.Exit(3)
	}
	for _, h := range hs {
		if h.Proc+"/"+h.Name == name {
			return h
		}
	}
	fmt.Println("VERIF-INCONCLUSIVE: handler not registered:", name)
	os.Exit(3)
	return irsetup.Handler{}
}

// envTrouble: the handler's own log says an RPC round trip timed out / the
// connection was lost (overloaded machine) - a missing action then proves nothing.
func envTrouble(logs []string) bool {
	for _, l := range logs {
		l = strings.ToLower(l)
		if strings.Contains(l, "timeout") || strings.Contains(l, "deadline") || strings.Contains(l, "connection lost") || strings.Contains(l, "connection closed") {
			return true
		}
	}
	return false
}

func runHandler(e *irsetup.Env, p *neoproxy.Proxy, call func()) {
	e.WaitIdle()
	e.Dropped()
	p.Reset()
	for {
		call()
		if !e.WaitIdleTimeout(2 * time.Minute) {
			fmt.Println("VERIF-INCONCLUSIVE: handler did not finish within 2 minutes:", neoproxy.Describe(p.Calls()))
			os.Exit(3)
		}
		if !e.Dropped() {
			return
		}
	}
}

// scriptedValidator is a harness-owned validator whose verdict can change
// between requests (stands for the external / private-domain / availability
// verdicts that depend on the outside world).
type scriptedValidator struct {
	mu     sync.Mutex
	reject bool
}

var errScripted = errors.New("harness: scripted validator says no")

func (v *scriptedValidator) set(reject bool) { v.mu.Lock(); v.reject = reject; v.mu.Unlock() }
func (v *scriptedValidator) Verify(netmap.NodeInfo) error {
	v.mu.Lock()
	defer v.mu.Unlock()
	if v.reject {
		return errScripted
	}
	return nil
}

type addNodeReq struct {
	NodeKey     int
	ScriptFault string
	Addr        string
	SecondAddr  bool
	Locode      string
	Price       int
	State       string // membership state of the inner ring node
	Scripted    string
}

func TestC38AddNode(t *testing.T) {
	rec := ev.New("C38", "add-node")
	defer rec.Flush()
	w := getChain()
	env, proxy := w.Member, w.MemberProxy
	h := findHandler(env, "netmap/addNode")

	// The processor consults ONE real CompositeValidator for its whole life, as wired by
	// innerring.New: real state / structure / LOCODE validators plus the scripted one.
	scripted := &scriptedValidator{}
	composite := nodevalidation.New(statev.New(), structure.New(), locode.New(), scripted)
	env.F.Validator.Set(nil, composite.Verify)
	vals := []struct {
		name string
		f    func(netmap.NodeInfo) error
	}{{"state", statev.New().Verify}, {"structure", structure.New().Verify}, {"locode", locode.New().Verify}, {"scripted", scripted.Verify}}

	rapid.Check(t, func(t *rapid.T) {
		var (
			history      []addNodeReq
			approvedReqs []int
			summary      []string
			nontrivial   bool
		)
		steps := rapid.IntRange(1, 4).Draw(t, "requests")
		for step := 0; step < steps; step++ {
			var q addNodeReq
			re := ""
			if len(history) > 0 && rapid.IntRange(0, 2).Draw(t, "reannounce") > 0 {
				src := rapid.IntRange(0, len(history)-1).Draw(t, "of")
				if len(approvedReqs) > 0 && rapid.IntRange(0, 3).Draw(t, "ofApproved") > 0 {
					src = approvedReqs[rapid.IntRange(0, len(approvedReqs)-1).Draw(t, "ofApprovedIdx")]
				}
				q = history[src]
				// same key / addresses / attributes; what may change is the outside world and the request envelope
				q.Scripted = rapid.SampledFrom([]string{"accept", "reject", "reject"}).Draw(t, "scriptedValidator")
				q.ScriptFault = rapid.SampledFrom([]string{"", "", "", "foreign-invoker", "offline-state", "maintenance-state"}).Draw(t, "scriptFault")
				q.State = rapid.SampledFrom([]string{"member", "member", "member", "non-member", "lookup-error"}).Draw(t, "state")
				re = fmt.Sprintf("re(%d):", src)
			} else {
				q = addNodeReq{
					NodeKey:     rapid.IntRange(0, 3).Draw(t, "nodeKey"),
					ScriptFault: rapid.SampledFrom([]string{"", "", "", "foreign-invoker", "offline-state", "maintenance-state"}).Draw(t, "scriptFault"),
					Addr:        rapid.SampledFrom([]string{"/ip4/10.0.0.1/tcp/8080", "/ip4/10.0.0.1/tcp/8080", "/dns4/node/tcp/80/tls", "/ip4/10.0.0.1/udp/1", "/ip4/10.0.0.1", "grpcs://node:8082"}).Draw(t, "addr"),
					SecondAddr:  rapid.Bool().Draw(t, "secondAddr"),
					Locode:      rapid.SampledFrom([]string{"", "", "ok", "wrong-country", "unknown"}).Draw(t, "locode"),
					Price:       rapid.IntRange(0, 9).Draw(t, "price"),
					Scripted:    rapid.SampledFrom([]string{"accept", "accept", "reject"}).Draw(t, "scriptedValidator"),
					State:       rapid.SampledFrom([]string{"member", "member", "member", "non-member", "lookup-error"}).Draw(t, "state"),
				}
			}
			history = append(history, q)

			nodeKey := irfix.Key(byte(130 + q.NodeKey))
			invoker := nodeKey
			if q.ScriptFault == "foreign-invoker" {
				invoker = irfix.Key(140)
			}
			node := &netmaprpc.NetmapNode2{Key: nodeKey.PublicKey(), State: netmaprpc.NodeStateOnline, Attributes: map[string]string{}}
			switch q.ScriptFault {
			case "offline-state":
				node.State = netmaprpc.NodeStateOffline
			case "maintenance-state":
				node.State = netmaprpc.NodeStateMaintenance
			}
			node.Addresses = []string{q.Addr}
			if q.SecondAddr {
				node.Addresses = append(node.Addresses, "/ip4/10.0.0.2/tcp/8080")
			}
			switch q.Locode {
			case "ok":
				node.Attributes = map[string]string{"UN-LOCODE": "SE STO", "CountryCode": "SE", "Country": "Sweden", "Location": "Stockholm", "Continent": "Europe", "SubDivCode": "AB", "SubDiv": "Stockholms län"}
			case "wrong-country":
				node.Attributes = map[string]string{"UN-LOCODE": "SE STO", "CountryCode": "SE", "Country": "Norway", "Location": "Stockholm", "Continent": "Europe", "SubDivCode": "AB", "SubDiv": "Stockholms län"}
			case "unknown":
				node.Attributes = map[string]string{"UN-LOCODE": "XX AAA"}
			}
			node.Attributes["Price"] = fmt.Sprint(q.Price)
			scripted.set(q.Scripted == "reject")
			mode := q.State

			height, err := w.Admin.Height()
			if err != nil {
				t.Fatalf("harness: %v", err)
			}
			signers := env.Signers
			signers.Invoker = invoker
			req, err := irsetup.NewRequest(signers, env.C.Netmap, nmEvent.AddNodeNotaryEvent, rapid.Uint32().Draw(t, "nonce"), height+5, node)
			if err != nil {
				t.Fatalf("harness: %v", err)
			}
			event, err := nmEvent.ParseAddNodeNotary(req.Ev)
			if err != nil {
				t.Fatalf("harness: parser refused the request: %v", err)
			}
			env.F.State.Set(map[bool]int{true: 0, false: -1}[mode == "member"], mode == "lookup-error")
			callsBefore := env.F.Validator.NCalls()

			runHandler(env, proxy, func() { h.Call(event) })
			writes := proxy.Writes()

			// reference, evaluated independently, right now, on the descriptor the event carries
			scriptValid := q.ScriptFault == ""
			var rejecting []string
			allAccept := true
			evNode := event.(nmEvent.AddNode).Node
			if ni, err := nmEvent.Node2Info(&evNode); err != nil {
				allAccept = false
				rejecting = append(rejecting, "node2info")
			} else {
				for _, v := range vals {
					if v.f(ni) != nil {
						allAccept = false
						rejecting = append(rejecting, v.name)
					}
				}
			}
			member := mode == "member"
			want := member && scriptValid && allAccept

			approved := 0
			for _, wr := range writes {
				nr, err := wr.NotaryRequest()
				if err != nil {
					t.Fatalf("unexpected write %s", wr.Method)
				}
				if nr.MainTransaction.Hash() != req.Req.MainTransaction.Hash() {
					t.Fatalf("a notary request for ANOTHER main transaction was sent: script %x", nr.MainTransaction.Script)
				}
				approved++
			}
			summary = append(summary, fmt.Sprintf("%s%+v->%d", re, q, approved))
			if member && (scriptValid != allAccept || want) {
				nontrivial = true
			}
			labels := []string{mode, "script-" + map[bool]string{true: "valid", false: q.ScriptFault}[scriptValid]}
			if allAccept {
				labels = append(labels, "validators-accept")
			} else {
				labels = append(labels, "rejected-by-"+strings.Join(rejecting, "+"))
			}
			if want {
				labels = append(labels, "approval-expected")
			}
			if re != "" {
				labels = append(labels, "re-announcement")
				for _, a := range approvedReqs {
					if fmt.Sprintf("re(%d):", a) == re && !want {
						labels = append(labels, "re-announcement-of-approved-must-be-refused")
					}
				}
			}
			for _, l := range labels {
				rec.Label(l)
			}

			if approved > 0 && !want {
				t.Fatalf("node admission approved although it must not be: state=%s scriptValid=%v (fault %q) rejecting validators=%v\nnode %+v\nhistory: %s", mode, scriptValid, q.ScriptFault, rejecting, node, strings.Join(summary, " | "))
			}
			if want && approved != 1 && envTrouble(env.LastLogs) {
				rec.Label("env-rpc-timeout")
				continue
			}
			if want && approved != 1 {
				t.Fatalf("valid request accepted by every validator in alphabet state: %d approvals recorded (want 1); RPCs: %s\nhistory: %s", approved, neoproxy.Describe(proxy.Calls()), strings.Join(summary, " | "))
			}
			if scriptValid && member && env.F.Validator.NCalls()-callsBefore != 1 {
				t.Fatalf("validators consulted %d times for a request with a valid script", env.F.Validator.NCalls()-callsBefore)
			}
			if approved > 0 {
				approvedReqs = append(approvedReqs, step)
			}
		}
		rec.Case(nontrivial, strings.Join(summary, " | "))
		if rec.WantSample() {
			rec.Sample(summary)
		}
	})
}

func TestC38EpochTick(t *testing.T) {
	rec := ev.New("C38", "epoch-tick")
	defer rec.Flush()
	w := getChain()
	env, proxy := w.Member, w.MemberProxy
	hTick := findHandler(env, "netmap/epoch timer tick")
	hNew := findHandler(env, "netmap/NewEpoch")

	rapid.Check(t, func(t *rapid.T) {
		var history []string
		interesting := false
		lastNotified := uint64(chainEpoch)
		snapshotFaults := 0
		notify := func(n uint64) {
			event, err := hNew.Event(env, irsetup.Variation{Epoch: n, Salt: byte(n)})
			if err != nil {
				t.Fatalf("harness: %v", err)
			}
			env.F.State.Set(-1, false) // notifications are processed by every inner ring node
			// RPC fault exactly at the network map snapshot read of the new-epoch handling
			// (connection trouble while switching epochs), in at most two deliveries per history
			fault := snapshotFaults < 2 && rapid.IntRange(0, 3).Draw(t, "snapshotReadFails") == 0
			if fault {
				snapshotFaults++
				proxy.FailInvoke("listNodes", "harness: injected failure of the network map snapshot read")
				history = append(history, "snapshot-read-fails:")
				interesting = true
			}
			runHandler(env, proxy, func() { hNew.Call(event) })
			if fault {
				proxy.FailInvoke("listNodes", "")
				sawList := false
				for _, c := range proxy.Calls() {
					if c.Method == "invokefunction" && strings.Contains(neoproxy.Describe([]neoproxy.Call{c}), "listNodes") {
						sawList = true
					}
				}
				if !sawList {
					t.Fatalf("harness: the injected fault was not hit (no listNodes read during NewEpoch handling): %s", neoproxy.Describe(proxy.Calls()))
				}
			}
			if ws := proxy.Writes(); len(ws) > 0 {
				t.Fatalf("NewEpoch(%d) notification with an unchanged network map caused writes: %d", n, len(ws))
			}
			lastNotified = n
		}
		notify(uint64(chainEpoch))
		ticks := 0
		steps := rapid.IntRange(1, 6).Draw(t, "steps")
		for i := 0; i < steps; i++ {
			switch op := rapid.SampledFrom([]string{"tick", "tick", "tick", "chain-epoch", "stale-notify", "repeat-notify"}).Draw(t, "op"); op {
			case "chain-epoch":
				chainEpoch++
				if err := w.Admin.Invoke(w.Contracts.Netmap, "newEpoch", nil, chainEpoch); err != nil {
					t.Fatalf("harness: newEpoch on chain: %v", err)
				}
				if rapid.IntRange(0, 3).Draw(t, "deliver") > 0 {
					notify(uint64(chainEpoch))
					history = append(history, fmt.Sprintf("chain->%d+notify", chainEpoch))
				} else {
					history = append(history, fmt.Sprintf("chain->%d(notification not yet delivered)", chainEpoch))
					interesting = true
				}
			case "stale-notify":
				n := uint64(rapid.IntRange(0, chainEpoch).Draw(t, "staleEpoch"))
				notify(n)
				history = append(history, fmt.Sprintf("notify(%d)", n))
				interesting = interesting || n != uint64(chainEpoch)
			case "repeat-notify":
				notify(lastNotified)
				history = append(history, fmt.Sprintf("notify-again(%d)", lastNotified))
			case "tick":
				mode := rapid.SampledFrom([]string{"member", "member", "non-member", "lookup-error"}).Draw(t, "state")
				env.F.State.Set(map[bool]int{true: 0, false: -1}[mode == "member"], mode == "lookup-error")
				runHandler(env, proxy, func() { hTick.Call(nil) })
				writes := proxy.Writes()
				history = append(history, fmt.Sprintf("tick[%s]->%d", mode, len(writes)))
				ticks++
				if mode != "member" {
					if len(writes) > 0 {
						t.Fatalf("epoch tick in state %s sent %d write(s)\nhistory: %s", mode, len(writes), strings.Join(history, " "))
					}
					continue
				}
				wantScript, err := smartcontract.CreateCallScript(env.C.Netmap, "newEpoch", int64(lastNotified+1))
				if err != nil {
					t.Fatal(err)
				}
				for _, wr := range writes {
					nr, err := wr.NotaryRequest()
					if err != nil {
						t.Fatalf("unexpected write %s", wr.Method)
					}
					if !bytes.Equal(nr.MainTransaction.Script, wantScript) {
						t.Fatalf("tick asked for something else than newEpoch(%d): script %x, want %x\nhistory: %s", lastNotified+1, nr.MainTransaction.Script, wantScript, strings.Join(history, " "))
					}
				}
				if len(writes) > 1 {
					t.Fatalf("one tick, %d newEpoch requests\nhistory: %s", len(writes), strings.Join(history, " "))
				}
				// the chain accepts newEpoch(n) iff n > its current epoch; the node test-invokes before sending
				if lastNotified+1 > uint64(chainEpoch) && len(writes) != 1 && envTrouble(env.LastLogs) {
					rec.Label("env-rpc-timeout")
					continue
				}
				if lastNotified+1 > uint64(chainEpoch) && len(writes) != 1 {
					t.Fatalf("tick in alphabet state with last notified epoch %d (chain at %d): %d requests, want exactly 1\nRPCs: %s\nlogs: %v\nhistory: %s", lastNotified, chainEpoch, len(writes), neoproxy.Describe(proxy.Calls()), env.LastLogs, strings.Join(history, " "))
				}
			}
		}
		rec.Case(ticks > 0 && (interesting || len(history) > 2), strings.Join(history, " "), fmt.Sprintf("ticks-%d", min(ticks, 3)), map[bool]string{true: "stale-or-undelivered-or-faulty", false: "in-sync"}[interesting], fmt.Sprintf("snapshot-read-faults-%d", snapshotFaults))
		if rec.WantSample() {
			rec.Sample(history)
		}
	})
}

var _ = keys.PublicKeys{}

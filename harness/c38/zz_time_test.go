package c38

import (
	"testing"
	"time"

	"github.com/nspcc-dev/neofs-node/pkg/innerring/processors/netmap/nodevalidation/availability"
	"github.com/nspcc-dev/neofs-sdk-go/netmap"
)

func TestZZTime(t *testing.T) {
	w := getWorld()
	for _, e := range w.eps {
		func() {
			defer func() { recover() }()
			var ni netmap.NodeInfo
			ni.SetPublicKey(nodeKeys[0].PublicKey().Bytes())
			ni.SetNetworkEndpoints(e.s)
			ni.SetOnline()
			w.node.contract.info = ni
			st := time.Now()
			err := availability.New().Verify(ni)
			t.Logf("%q: %v in %v", e.s, err, time.Since(st))
		}()
	}
}

// Package snap hashes and copies directory trees: byte-level "nothing changed"
// oracles (C14, C19, C43) and crash snapshots (C09, C15).
package snap

import (
	"crypto/sha256"
	"encoding/hex"
	"fmt"
	"io"
	"io/fs"
	"os"
	"path/filepath"
	"sort"
	"strings"
)

// Entry is one file or directory of a tree.
type Entry struct {
	Path string
	Mode fs.FileMode
	Size int64
	Sum  string
}

// Tree returns the sorted entries under root (root itself excluded). Missing
// root yields an empty list. Times are ignored.
func Tree(root string) ([]Entry, error) {
	var res []Entry
	err := filepath.WalkDir(root, func(p string, d fs.DirEntry, err error) error {
		if err != nil {
			if os.IsNotExist(err) {
				return nil
			}
			return err
		}
		if p == root {
			return nil
		}
		rel, _ := filepath.Rel(root, p)
		info, err := d.Info()
		if err != nil {
			if os.IsNotExist(err) {
				return nil
			}
			return err
		}
		e := Entry{Path: rel, Mode: info.Mode() & (fs.ModeType | fs.ModePerm)}
		if info.Mode().IsRegular() {
			f, err := os.Open(p)
			if err != nil {
				if os.IsNotExist(err) {
					return nil
				}
				return err
			}
			h := sha256.New()
			n, err := io.Copy(h, f)
			f.Close()
			if err != nil {
				return err
			}
			e.Size = n
			e.Sum = hex.EncodeToString(h.Sum(nil))
		}
		res = append(res, e)
		return nil
	})
	sort.Slice(res, func(i, j int) bool { return res[i].Path < res[j].Path })
	return res, err
}

// Digest returns one hash over Tree(root...) of all given roots plus a short
// textual listing for diagnostics.
func Digest(roots ...string) (string, error) {
	h := sha256.New()
	for _, r := range roots {
		es, err := Tree(r)
		if err != nil {
			return "", err
		}
		st, err := os.Lstat(r)
		if err == nil && st.Mode().IsRegular() {
			b, err := os.ReadFile(r)
			if err != nil {
				return "", err
			}
			fmt.Fprintf(h, "F %s %d %x\n", filepath.Base(r), len(b), sha256.Sum256(b))
		}
		for _, e := range es {
			fmt.Fprintf(h, "%s %s %o %d %s\n", filepath.Base(r), e.Path, e.Mode, e.Size, e.Sum)
		}
	}
	return hex.EncodeToString(h.Sum(nil)), nil
}

// Diff describes the difference of two Tree results (for failure messages).
func Diff(a, b []Entry) string {
	am, bm := map[string]Entry{}, map[string]Entry{}
	for _, e := range a {
		am[e.Path] = e
	}
	for _, e := range b {
		bm[e.Path] = e
	}
	var sb strings.Builder
	for p, e := range am {
		o, ok := bm[p]
		switch {
		case !ok:
			fmt.Fprintf(&sb, "- %s\n", p)
		case o != e:
			fmt.Fprintf(&sb, "~ %s (%d→%d bytes)\n", p, e.Size, o.Size)
		}
	}
	for p := range bm {
		if _, ok := am[p]; !ok {
			fmt.Fprintf(&sb, "+ %s\n", p)
		}
	}
	return sb.String()
}

// Copy copies a file or directory tree src to dst (regular files and
// directories only; hard links are not preserved, so the copy is independent).
func Copy(src, dst string) error {
	st, err := os.Lstat(src)
	if err != nil {
		if os.IsNotExist(err) {
			return nil
		}
		return err
	}
	if st.Mode().IsRegular() {
		return copyFile(src, dst, st.Mode().Perm())
	}
	return filepath.WalkDir(src, func(p string, d fs.DirEntry, err error) error {
		if err != nil {
			if os.IsNotExist(err) {
				return nil
			}
			return err
		}
		rel, _ := filepath.Rel(src, p)
		target := filepath.Join(dst, rel)
		info, err := d.Info()
		if err != nil {
			if os.IsNotExist(err) {
				return nil
			}
			return err
		}
		if d.IsDir() {
			return os.MkdirAll(target, info.Mode().Perm()|0o700)
		}
		if !info.Mode().IsRegular() {
			return nil
		}
		err = copyFile(p, target, info.Mode().Perm())
		if os.IsNotExist(err) {
			return nil
		}
		return err
	})
}

func copyFile(src, dst string, perm fs.FileMode) error {
	in, err := os.Open(src)
	if err != nil {
		return err
	}
	defer in.Close()
	if err := os.MkdirAll(filepath.Dir(dst), 0o755); err != nil {
		return err
	}
	out, err := os.OpenFile(dst, os.O_CREATE|os.O_TRUNC|os.O_WRONLY, perm|0o600)
	if err != nil {
		return err
	}
	if _, err := io.Copy(out, in); err != nil {
		out.Close()
		return err
	}
	return out.Close()
}

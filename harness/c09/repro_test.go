package c09

// Reproductions of defects found while building the C09/C15 checks. They are
// NOT part of the check (the unit runs ^TestC09); run them by hand:
//
//	/verif/vgo test -run TestRepro -v ./c09/

import (
	"os"
	"testing"

	"github.com/nspcc-dev/neofs-node/verifharness/stor"
	"github.com/nspcc-dev/neofs-node/verifharness/uni"
	oid "github.com/nspcc-dev/neofs-sdk-go/object/id"
)

// Shard.Delete on a shard WITH write-cache for a container the metabase has
// no bucket for: meta.Delete returns (nil, diff, nil) and deleteObjs slices
// res[len(addrs):] -> "slice bounds out of range [1:0]".
func TestReproDeleteUnknownContainerPanics(t *testing.T) {
	dir, _ := os.MkdirTemp("", "repro")
	defer os.RemoveAll(dir)
	sh, err := stor.OpenShard(stor.ShardCfg{Dir: dir, Epoch: &stor.Epoch{}, WriteCache: true})
	if err != nil {
		t.Fatal(err)
	}
	defer sh.Close()
	defer func() {
		if p := recover(); p != nil {
			t.Fatalf("Shard.Delete panicked: %v", p)
		}
	}()
	if err := sh.Delete(uni.Cnr(0), []oid.ID{uni.OID(0)}); err != nil {
		t.Logf("Delete: %v", err)
	}
}

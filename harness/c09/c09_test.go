// Package c09 decides property C09: a removed object never becomes readable
// again without a new upload.
//
// rapid generates histories of ≤10 operations over ONE real shard (with and
// without write-cache, inside a synctest bubble): puts, tombstones with
// expirations, drop / redundant marks, direct deletes, GC passes, epoch
// advances (also past tombstone expiry), explicit and background write-cache
// flushes, flush-versus-delete schedules (the background flusher is parked in
// front of its blob write, i.e. after it has read the object from the cache,
// while foreground removals and a GC pass run), clean restarts and offline
// metabase resyncs (exactly what `neofs-lancet meta resync` does). Package
// crashrig additionally snapshots the three storage locations before/after
// every component step (crash points).
//
// Model: Removed = regular objects whose removal COMPLETED and that nobody
// stored anew since. A removal is complete when
//   - the shard's deleteObjs ran all its steps for the object (its blob Delete
//     returned, which comes after the write-cache and metabase deletes) inside a
//     GC pass or a direct Delete (tap level, gives mid-operation precision), or
//   - a GC pass returned: everything the metabase listed as garbage right
//     before the pass (DB.GetGarbage, the pass's own input), or
//   - a direct Shard.Delete of an object known to the metabase returned nil.
//
// A Put attempt takes the object out of Removed; if the Put is REJECTED
// (ObjectAlreadyRemoved, rolled back) nothing was stored anew and the object
// is tracked again.
//
// Oracle: for r ∈ Removed neither Shard.Exists nor Shard.Get may succeed
//   - on the live shard after every later operation (and after every
//     foreground step of a flush-versus-delete schedule),
//   - on every crash snapshot taken after the completion, reopened
//     (A) as a plain restart, then again after FlushWriteCache + GC pass;
//     (B) after an offline resync, then again after all tombstones expired
//     (epoch advance + event + 2 GC passes + flush), then after a SECOND resync.
//
//     (C) "long downtime": all tombstones expire FIRST (no GC pass), then a
//     resync with the live epoch (every tombstone is indexed while already expired
//     by its own header), restart, epoch event, 2 GC passes, flush, second resync.
//
// Tombstoned = objects with an ACCEPTED tombstone (Shard.Put of the tombstone
// returned nil, also when the tombstone arrives late with an expiration below
// the current epoch) that were not stored anew; they are judged by the same
// oracle from the end of the tombstone put on, collected or not: in the code
// under test a tombstoned object is unreadable while the tombstone is indexed
// and is collected in the very pass that drops the expired tombstone.
// Not asserted (excluded by construction, counted as excluded cases): a
// tombstoned object in the RESYNC stages when none of its tombstones is in
// the blob storage at that moment (tombstone still in the write-cache only, or
// already dropped by the running GC pass): a resync reads blobs only.
// Objects only garbage-marked (no tombstone) and not collected yet are not tracked.
//
// A third of the histories is steered to "tombstone expires without a GC pass,
// (flush,) resync, GC pass" and a third to "late tombstone (exp < epoch), GC pass".
package c09

import (
	"fmt"
	"os"
	"sort"
	"strings"
	"testing"

	"github.com/nspcc-dev/neofs-node/pkg/local_object_storage/shard"
	"github.com/nspcc-dev/neofs-node/verifharness/bubble"
	"github.com/nspcc-dev/neofs-node/verifharness/c15/crashrig"
	"github.com/nspcc-dev/neofs-node/verifharness/ev"
	"github.com/nspcc-dev/neofs-node/verifharness/snap"
	"github.com/nspcc-dev/neofs-node/verifharness/stor"
	oid "github.com/nspcc-dev/neofs-sdk-go/object/id"
	"pgregory.net/rapid"
)

// Known-finding class: the background flusher read an object from the
// write-cache, the object was removed completely (cache, metabase, blob) while
// the flusher was about to write, and the flusher then wrote it into the blob
// storage: an orphan blob that the next metabase resync turns into an
// available object again.
const fpRace = "C09:flush-after-delete-leaves-orphan-blob-revived-by-resync"

type snapMeta struct {
	removed  []oid.Address
	raced    map[oid.Address]bool
	resynced map[oid.Address]bool
	// tombed: objects with an accepted tombstone that were not stored anew (superset
	// of the tombstoned part of removed: includes the not yet collected ones)
	tombed []oid.Address
	// tombsOf: the accepted tombstones per tombstoned object
	tombsOf map[oid.Address][]oid.Address
}

type model struct {
	r *crashrig.Rig
	// removed: completed removals not followed by a put attempt (guarded by the rig lock)
	removed map[oid.Address]bool
	// raced: removal completed while a parked flusher was holding the object
	raced map[oid.Address]bool
	// resynced: a live resync happened after such a race
	resynced map[oid.Address]bool
	// tombed / tombsOf: see snapMeta
	tombed  map[oid.Address]bool
	tombsOf map[oid.Address][]oid.Address
	// stored: a put of the object succeeded and it was not removed since
	// (only for the non-triviality rule: removing a never-stored object is trivial)
	stored map[oid.Address]bool
	// kind of the operation currently applied (nesting: race > inner)
	kinds []string
	// statistics for the non-triviality rule
	completions     int
	eventsAfter     map[string]bool
	snapsChecked    int
}

func (m *model) cur() string {
	if len(m.kinds) == 0 {
		return ""
	}
	return m.kinds[len(m.kinds)-1]
}

func regular(a oid.Address) bool {
	for c := 0; c < crashrig.NCnr; c++ {
		for i := 0; i < crashrig.NReg; i++ {
			if crashrig.RegAddr(c, i) == a {
				return true
			}
		}
	}
	return false
}

// onStep runs under the rig lock.
func (m *model) onStep(st crashrig.Step) {
	if st.Comp != "blob" || st.Method != "Delete" || !st.After {
		return
	}
	if k := m.cur(); k != crashrig.KGC && k != crashrig.KDel {
		return // e.g. the rollback of a rejected Put
	}
	if st.Err != nil && !crashrig.IsNotFound(st.Err) {
		return
	}
	m.complete(st.Addrs[0])
}

// complete records a completed removal (rig lock held).
func (m *model) complete(a oid.Address) {
	if !regular(a) {
		return
	}
	if !m.removed[a] {
		m.removed[a] = true
		if m.stored[a] {
			m.completions++
		}
		delete(m.stored, a)
	}
	if m.r.ParkedNow {
		for _, p := range m.r.Parked {
			if p == a {
				m.raced[a] = true
			}
		}
	}
}

func (m *model) snapMeta() any {
	s := snapMeta{raced: map[oid.Address]bool{}, resynced: map[oid.Address]bool{}}
	for a := range m.removed {
		s.removed = append(s.removed, a)
	}
	sort.Slice(s.removed, func(i, j int) bool { return s.removed[i].EncodeToString() < s.removed[j].EncodeToString() })
	for a := range m.raced {
		s.raced[a] = true
	}
	for a := range m.resynced {
		s.resynced[a] = true
	}
	s.tombsOf = map[oid.Address][]oid.Address{}
	for a := range m.tombed {
		s.tombed = append(s.tombed, a)
		s.tombsOf[a] = append([]oid.Address(nil), m.tombsOf[a]...)
	}
	sort.Slice(s.tombed, func(i, j int) bool { return s.tombed[i].EncodeToString() < s.tombed[j].EncodeToString() })
	return s
}

type violation struct {
	addr  oid.Address
	where string
	what  string
}

// observe applies the oracle to one shard.
func observe(sh *shard.Shard, removed []oid.Address, where string) []violation {
	var vs []violation
	seen := map[oid.Address]bool{}
	for _, a := range removed {
		if seen[a] {
			continue
		}
		seen[a] = true
		if ok, err := sh.Exists(a, false); ok && err == nil {
			vs = append(vs, violation{a, where, "Exists = (true, nil)"})
		}
		if _, err := sh.Get(a, false); err == nil {
			vs = append(vs, violation{a, where, "Get succeeded"})
		}
	}
	return vs
}

func must(err error, what string, s crashrig.Snap) {
	if err != nil {
		ev.Inconclusive("C09: %s of %v: %v", what, s, err)
	}
}

// aftermath reopens one crash snapshot in the two ways described in the
// package comment and applies the oracle at every stage.
func aftermath(r *crashrig.Rig, w *crashrig.World, s crashrig.Snap, rec *ev.Recorder) []violation {
	meta := s.Meta.(snapMeta)
	var vs []violation
	all := append(append([]oid.Address(nil), meta.removed...), meta.tombed...)

	// Tombstoned objects whose tombstones are not in the blob storage of this
	// crash state (still in the write-cache only, or already collected with the
	// object's own collection pending) lose their removal record in a resync:
	// excluded from the resync stages by construction (the write-cache is not
	// part of a resync; not asserted, see the package comment).
	var tombs []oid.Address
	for _, x := range meta.tombed {
		tombs = append(tombs, meta.tombsOf[x]...)
	}
	inBlob, err := crashrig.BlobHas(s.Dir, tombs)
	must(err, "blob lookup", s)
	afterResync := append([]oid.Address(nil), meta.removed...)
	expiredShape := false
	for _, x := range meta.tombed {
		ok := false
		for _, t := range meta.tombsOf[x] {
			ok = ok || inBlob[t]
		}
		if ok {
			afterResync = append(afterResync, x)
			if !contains(meta.removed, x) {
				expiredShape = true // tombstone and (possibly) its target are still there
			}
		} else if !contains(meta.removed, x) {
			rec.Excluded(1)
			rec.Label("excluded:tombstone-not-in-blob-at-snapshot-resync")
		}
	}

	dirB, dirC := s.Dir+"-b", s.Dir+"-c"
	must(snap.Copy(s.Dir, dirB), "copy", s)
	defer os.RemoveAll(dirB)
	must(snap.Copy(s.Dir, dirC), "copy", s)
	defer os.RemoveAll(dirC)

	// (A) plain restart
	sh, _, err := r.OpenSnapshot(s.Dir, s.Epoch)
	must(err, "open", s)
	vs = append(vs, observe(sh, all, "crash+restart")...)
	if r.Cfg.WC {
		_ = sh.FlushWriteCache(false)
	}
	sh.VerifGCPass()
	vs = append(vs, observe(sh, all, "crash+restart+flush+gc")...)
	must(sh.Close(), "close", s)

	// (B) resync, tombstone expiry, second resync
	ep := &stor.Epoch{}
	ep.Set(s.Epoch)
	must(crashrig.Resync(dirB, ep), "resync", s)
	sh, ep, err = r.OpenSnapshot(dirB, s.Epoch)
	must(err, "open after resync", s)
	vs = append(vs, observe(sh, afterResync, "crash+resync+restart")...)
	e := max(uint64(w.MaxExp), s.Epoch) + 1
	ep.Set(e)
	sh.VerifNewEpoch(e)
	sh.VerifGCPass()
	sh.VerifGCPass()
	if r.Cfg.WC {
		_ = sh.FlushWriteCache(false)
	}
	vs = append(vs, observe(sh, afterResync, "crash+resync+restart+tombstones-expired+gc+flush")...)
	must(sh.Close(), "close", s)
	must(crashrig.Resync(dirB, ep), "second resync", s)
	sh, _, err = r.OpenSnapshot(dirB, e)
	must(err, "open after second resync", s)
	vs = append(vs, observe(sh, afterResync, "crash+resync+tombstones-expired+gc+flush+second-resync")...)
	must(sh.Close(), "close", s)

	if os.Getenv("VERIF_C09_SKIP_STAGE_C") != "" {
		return vs // sensitivity experiments only: judge by the live shapes alone
	}
	// (C) long downtime: the tombstones expire FIRST (epoch advance, no GC pass),
	// then the resync runs with the live epoch (every tombstone is indexed while
	// already expired by its own header), restart, GC passes, second resync
	ep = &stor.Epoch{}
	ep.Set(e)
	must(crashrig.Resync(dirC, ep), "resync after expiry", s)
	sh, ep, err = r.OpenSnapshot(dirC, e)
	must(err, "open after resync after expiry", s)
	vs = append(vs, observe(sh, afterResync, "crash+tombstones-expired+resync+restart")...)
	sh.VerifNewEpoch(e)
	sh.VerifGCPass()
	sh.VerifGCPass()
	if r.Cfg.WC {
		_ = sh.FlushWriteCache(false)
	}
	vs = append(vs, observe(sh, afterResync, "crash+tombstones-expired+resync+restart+gc+flush")...)
	must(sh.Close(), "close", s)
	must(crashrig.Resync(dirC, ep), "second resync", s)
	sh, _, err = r.OpenSnapshot(dirC, e)
	must(err, "open after second resync", s)
	vs = append(vs, observe(sh, afterResync, "crash+tombstones-expired+resync+gc+flush+second-resync")...)
	must(sh.Close(), "close", s)
	if expiredShape {
		rec.Label("shape-a(snapshot):resync-after-tombstone-expiry-before-gc,then-gc")
	}
	return vs
}

func contains(l []oid.Address, a oid.Address) bool {
	for _, x := range l {
		if x == a {
			return true
		}
	}
	return false
}

func TestC09Removed(t *testing.T) {
	rec := ev.New("C09", "removed")
	defer rec.Flush()
	bubble.Check(t, func(t *rapid.T) {
		cfg := crashrig.Cfg{WC: rapid.IntRange(0, 3).Draw(t, "wc") > 0}
		if cfg.WC {
			cfg.WCBatchThreshold = crashrig.BatchThreshold
			if rapid.IntRange(0, 3).Draw(t, "smallcache") == 0 {
				cfg.WCMaxSize = crashrig.CacheSize
			}
		}
		r, err := crashrig.New(cfg)
		if err != nil {
			ev.Inconclusive("C09: rig: %v", err)
		}
		defer r.Cleanup()
		w := crashrig.NewWorld(r)
		// a third of the histories is steered towards each of the two expired-tombstone shapes
		focus := rapid.IntRange(0, 2).Draw(t, "focus")
		if focus == 2 {
			w.LateTombs = 3
		}

		m := &model{r: r, removed: map[oid.Address]bool{}, raced: map[oid.Address]bool{}, resynced: map[oid.Address]bool{}, stored: map[oid.Address]bool{}, tombed: map[oid.Address]bool{}, tombsOf: map[oid.Address][]oid.Address{}, eventsAfter: map[string]bool{}}
		r.OnStep = m.onStep
		r.SnapMeta = m.snapMeta
		// crash snapshots matter only once something has been removed
		r.Filter = func(bool) bool { return len(m.removed)+len(m.tombed) > 0 }

		var (
			ops    []crashrig.Op
			cfgs   = fmt.Sprintf("wc=%v cache=%d", cfg.WC, cfg.WCMaxSize)
			labels = map[string]bool{}
			known  bool
			// objects of this history already counted as excluded known-finding cases
			knownSeen = map[oid.Address]bool{}
		)
		// st is the model state the observation belongs to (the live one, or the
		// one recorded with the crash snapshot)
		fail := func(v violation, extra string, st snapMeta) {
			// known class: an in-flight flush of the object overlapped its complete
			// removal (orphan blob) AND a resync has turned the orphan into metadata
			if st.raced[v.addr] && (st.resynced[v.addr] || strings.Contains(v.where, "resync")) {
				if rec.Known(fpRace) {
					known = true
					if !knownSeen[v.addr] {
						knownSeen[v.addr] = true
						rec.Excluded(1)
					}
					return
				}
				t.Fatalf("C09 violated [%s]: removed object %s readable again: %s (%s)%s\n  shard: %s\n  history: %s\n  op errors: %v",
					fpRace, v.addr, v.what, v.where, extra, cfgs, crashrig.OpsString(ops), w.Log)
			}
			t.Fatalf("C09 violated: removed (tombstoned / collected) object %s readable again: %s (%s)%s\n  shard: %s\n  history: %s\n  op errors: %v",
				v.addr, v.what, v.where, extra, cfgs, crashrig.OpsString(ops), w.Log)
		}
		checkLive := func(where string) {
			if r.Sh == nil {
				return
			}
			r.Lock()
			st := m.snapMeta().(snapMeta)
			r.Unlock()
			for _, v := range observe(r.Sh, append(append([]oid.Address(nil), st.removed...), st.tombed...), where) {
				fail(v, "", st)
			}
		}
		depth := 0
		// Operation-level completion (independent of the taps, so that a removal
		// that forgets a component step still counts as completed): a GC pass
		// completes the removal of everything the metabase listed as garbage
		// right before it; a direct Delete that returned nil completes the
		// removal of an object the metabase knew.
		var (
			gcInput  [][]oid.Address
			delKnown []bool
			wasRem   []bool
			wasTomb  []bool
			tombExp  = map[oid.Address]int{} // accepted tombstone -> its expiration epoch
			// shapes of the history (labels): see the end of the case
			shapeAResync, shapeAGC, shapeBPut, shapeBGC bool
		)
		// pendingTomb: tombstoned, not collected yet; expired: all its tombstones are expired now
		pendingTomb := func() (pending, expired, inBlob bool) {
			cur := int(r.Epoch.CurrentEpoch())
			for x := range m.tombed {
				if m.removed[x] {
					continue
				}
				pending = true
				for _, tb := range m.tombsOf[x] {
					if tombExp[tb] < cur {
						expired = true
						if r.FS != nil && r.Sh != nil {
							if ok, _ := r.FS.Storage.Exists(tb); ok {
								inBlob = true
							}
						}
					}
				}
			}
			return
		}
		w.OnOp = func(op crashrig.Op, phase string, opErr error) {
			r.Lock()
			defer func() {
				r.Unlock()
				if phase == "end" && depth > 0 {
					// foreground step of a flush-versus-delete schedule (flusher still parked)
					checkLive(fmt.Sprintf("live shard after %s while the flusher is parked", op))
				}
			}()
			if phase == "begin" {
				if op.Kind != crashrig.KRace && m.cur() == crashrig.KRace {
					depth++
				}
				m.kinds = append(m.kinds, op.Kind)
				if op.Kind == crashrig.KPut {
					// someone stores it anew (or tries to): not tracked any more
					// (if the put is REJECTED nothing was stored anew: tracked again at its end)
					a := crashrig.RegAddr(op.C, op.I)
					wasRem = append(wasRem, m.removed[a])
					wasTomb = append(wasTomb, m.tombed[a])
					delete(m.tombed, a)
					delete(m.removed, a)
					delete(m.raced, a)
					delete(m.resynced, a)
				}
				switch op.Kind {
				case crashrig.KGC:
					var in []oid.Address
					bins, err := r.Sh.VerifMetabase().GetGarbage(100)
					if err != nil {
						ev.Inconclusive("C09: GetGarbage: %v", err)
					}
					for _, b := range bins {
						for _, id := range b.Objects {
							in = append(in, oid.NewAddress(b.Container, id))
						}
					}
					gcInput = append(gcInput, in)
				case crashrig.KDel:
					ok, err := r.Sh.VerifMetabase().Exists(crashrig.RegAddr(op.C, op.I), true)
					delKnown = append(delKnown, ok || err != nil)
				case crashrig.KResync:
					// A resync reads the blob storage only. A tombstone that still sits
					// in the write-cache is not seen and its target loses the removal
					// record: not asserted (excluded by construction, counted).
					for x := range m.tombed {
						ok := false
						for _, tb := range m.tombsOf[x] {
							if has, _ := r.FS.Storage.Exists(tb); has {
								ok = true
							}
						}
						if !ok {
							delete(m.tombed, x)
							if !m.removed[x] {
								rec.Excluded(1)
								labels["excluded:tombstone-only-in-write-cache-at-resync"] = true
							}
						}
					}
					if _, expired, inBlob := pendingTomb(); expired && inBlob && op.Mark == 0 {
						shapeAResync = true
					}
				}
				return
			}
			switch op.Kind {
			case crashrig.KPut:
				a := crashrig.RegAddr(op.C, op.I)
				if opErr == nil {
					m.stored[a] = true
					delete(m.tombsOf, a)
				} else {
					if wasRem[len(wasRem)-1] {
						m.complete(a)
					}
					if wasTomb[len(wasTomb)-1] {
						m.tombed[a] = true
					}
				}
				wasRem = wasRem[:len(wasRem)-1]
				wasTomb = wasTomb[:len(wasTomb)-1]
			case crashrig.KTomb:
				if opErr == nil {
					x, tb := crashrig.RegAddr(op.C, op.I), crashrig.TombAddr(op.C, op.T)
					m.tombed[x] = true
					if !contains(m.tombsOf[x], tb) {
						m.tombsOf[x] = append(m.tombsOf[x], tb)
					}
					tombExp[tb] = op.Exp
					if op.Exp < int(r.Epoch.CurrentEpoch()) && m.stored[x] {
						shapeBPut = true
					}
				}
			case crashrig.KGC:
				if shapeAResync {
					shapeAGC = true
				}
				if shapeBPut {
					shapeBGC = true
				}
				for _, a := range gcInput[len(gcInput)-1] {
					m.complete(a)
				}
				gcInput = gcInput[:len(gcInput)-1]
			case crashrig.KDel:
				if delKnown[len(delKnown)-1] && opErr == nil {
					m.complete(crashrig.RegAddr(op.C, op.I))
				}
				delKnown = delKnown[:len(delKnown)-1]
			}
			m.kinds = m.kinds[:len(m.kinds)-1]
			if m.cur() != crashrig.KRace {
				depth = 0
			}
			if op.Kind == crashrig.KResync {
				for a := range m.raced {
					m.resynced[a] = true
				}
			}
			if len(m.removed) > 0 {
				switch op.Kind {
				case crashrig.KResync, crashrig.KReopen, crashrig.KFlush, crashrig.KTick, crashrig.KRace, crashrig.KEpoch:
					m.eventsAfter[op.Kind] = true
				}
			}
		}
		// once a removal completed, prefer the events the property is about
		w.Bias = func(add func(string, int)) {
			// steer towards: tombstone expires WITHOUT a GC pass, then (flush and) resync, then GC
			w.GCPendingWeight = 0
			switch focus {
			case 1: // tombstone expires WITHOUT a GC pass, then (flush and) resync, then GC
				if pending, expired, inBlob := pendingTomb(); pending && !shapeAResync {
					w.GCPendingWeight = 1
					switch {
					case !expired:
						add(crashrig.KEpoch, 60)
					case !inBlob:
						add(crashrig.KFlush, 60)
					default:
						add(crashrig.KResync, 80)
					}
				} else if shapeAResync && !shapeAGC {
					add(crashrig.KGC, 80)
				} else if w.AnyStored() {
					add(crashrig.KTomb, 8)
				}
			case 2: // a tombstone delivered late (expiration below the current epoch), then GC
				switch {
				case r.Epoch.CurrentEpoch() == 0:
					add(crashrig.KEpoch, 10)
				case shapeBPut && !shapeBGC:
					add(crashrig.KGC, 80)
				case w.AnyStored() && !shapeBPut:
					add(crashrig.KTomb, 12)
				}
			}
			if len(m.removed) == 0 {
				if w.AnyPending() {
					add(crashrig.KGC, 6)
				}
				return
			}
			add(crashrig.KResync, 4)
			add(crashrig.KReopen, 2)
			add(crashrig.KEpoch, 3)
			add(crashrig.KFlush, 2)
			add(crashrig.KTick, 2)
		}

		nontrivial := false
		defer func() {
			var ls []string
			for l := range labels {
				ls = append(ls, l)
			}
			sort.Strings(ls)
			rec.Case(nontrivial, cfgs+" | "+crashrig.OpsString(ops), ls...)
		}()

		seen := map[string]bool{}
		n := rapid.IntRange(4, 10).Draw(t, "n")
		for i := 0; i < n; i++ {
			op := w.Draw(t, crashrig.Allow{Race: true, Reopen: true, Resync: true}, false)
			ops = append(ops, op)
			r.Begin(i, op.String())
			if err := w.Apply(op); err != nil {
				ev.Inconclusive("C09: %v (history %s)", err, crashrig.OpsString(ops))
			}
			r.End()
			checkLive(fmt.Sprintf("live shard after op[%d] %s", i, op))

			snaps, err := r.Drain()
			if err != nil {
				ev.Inconclusive("C09: %v", err)
			}
			for _, s := range snaps {
				sm := s.Meta.(snapMeta)
				if len(sm.removed)+len(sm.tombed) == 0 {
					os.RemoveAll(s.Dir)
					continue
				}
				dg, err := snap.Digest(stor.BlobDir(s.Dir), stor.MetaPath(s.Dir), stor.WCDir(s.Dir))
				must(err, "digest", s)
				key := fmt.Sprintf("%s@%d%v%v", dg, s.Epoch, sm.removed, sm.tombed)
				if seen[key] {
					os.RemoveAll(s.Dir)
					continue
				}
				seen[key] = true
				m.snapsChecked++
				if s.Inside {
					labels["crash-snapshot-inside-op-after-a-removal"] = true
				}
				for _, v := range aftermath(r, w, s, rec) {
					fail(v, fmt.Sprintf("\n  at %v", s), sm)
				}
				os.RemoveAll(s.Dir)
			}
		}

		// classification
		if cfg.WC {
			labels["shard:write-cache"] = true
		} else {
			labels["shard:no-cache"] = true
		}
		if m.completions > 0 {
			labels["removal-completed"] = true
		}
		for k := range m.eventsAfter {
			labels["after-removal:"+k] = true
		}
		if m.snapsChecked > 0 {
			labels["after-removal:crash-snapshot(restart,resync,expiry,second-resync)"] = true
		}
		if w.RacesParked > 0 {
			labels["flusher-parked"] = true
		}
		if len(m.raced) > 0 || known {
			labels["removal-completed-while-flusher-parked"] = true
		}
		if known {
			labels["known-finding-hit"] = true
		}
		for _, o := range ops {
			labels["op:"+o.Kind] = true
		}
		if shapeAResync {
			labels["shape-a(live):resync-after-tombstone-expiry-before-gc"] = true
		}
		if shapeBPut {
			labels["shape-b(live):late-tombstone(exp<epoch)-on-stored-object"] = true
		}
		if shapeAGC {
			labels["shape-a(live):resync-after-tombstone-expiry-before-gc,then-gc"] = true
		}
		if shapeBGC {
			labels["shape-b(live):late-tombstone(exp<epoch)-on-stored-object,then-gc"] = true
		}
		if len(m.tombed) > 0 {
			labels["tombstoned-object-tracked"] = true
		}
		if strings.Contains(crashrig.OpsString(ops), "tomb(") && m.completions > 0 {
			labels["tombstone+removal"] = true
		}
		if len(m.removed) > 0 || m.snapsChecked > 0 {
			labels["something-in-Removed(incl. never-stored targets)"] = true
		}
		nontrivial = m.completions > 0 && (len(m.eventsAfter) > 0 || m.snapsChecked > 0)
		if rec.WantSample() && nontrivial {
			rec.Sample(map[string]any{"shard": cfgs, "history": crashrig.OpsString(ops), "removed_at_end": fmt.Sprint(m.snapMeta().(snapMeta).removed)})
		}
	})
}

// Package c09 decides property C09: a removed object never becomes readable
// again without a new upload.
//
// rapid generates histories of ≤10 operations over ONE real shard (with and
// without write-cache, inside a synctest bubble): puts, tombstones with
// expirations, drop / redundant marks, direct deletes, GC passes, epoch
// advances (also past tombstone expiry), explicit and background write-cache
// flushes, flush-versus-delete schedules (the background flusher is parked in
// front of its blob write, i.e. after it has read the object from the cache,
// while foreground removals and a GC pass run), clean restarts and offline
// metabase resyncs (exactly what `neofs-lancet meta resync` does). Package
// crashrig additionally snapshots the three storage locations before/after
// every component step (crash points).
//
// Model: Removed = regular objects whose removal COMPLETED and that nobody
// stored anew since. A removal is complete when
//   - the shard's deleteObjs ran all its steps for the object (its blob Delete
//     returned, which comes after the write-cache and metabase deletes) inside a
//     GC pass or a direct Delete (tap level, gives mid-operation precision), or
//   - a GC pass returned: everything the metabase listed as garbage right
//     before the pass (DB.GetGarbage, the pass's own input), or
//   - a direct Shard.Delete of an object known to the metabase returned nil.
//
// A Put attempt takes the object out of Removed; if the Put is REJECTED
// (ObjectAlreadyRemoved, rolled back) nothing was stored anew and the object
// is tracked again.
//
// Oracle: for r ∈ Removed neither Shard.Exists nor Shard.Get may succeed
//   - on the live shard after every later operation (and after every
//     foreground step of a flush-versus-delete schedule),
//   - on every crash snapshot taken after the completion, reopened
//     (A) as a plain restart, then again after FlushWriteCache + GC pass;
//     (B) after an offline resync, then again after all tombstones expired
//     (epoch advance + event + 2 GC passes + flush), then after a SECOND resync.
//
// Objects tombstoned/marked but not collected yet are not in Removed.
package c09

import (
	"fmt"
	"os"
	"sort"
	"strings"
	"testing"

	"github.com/nspcc-dev/neofs-node/pkg/local_object_storage/shard"
	"github.com/nspcc-dev/neofs-node/verifharness/bubble"
	"github.com/nspcc-dev/neofs-node/verifharness/c15/crashrig"
	"github.com/nspcc-dev/neofs-node/verifharness/ev"
	"github.com/nspcc-dev/neofs-node/verifharness/snap"
	"github.com/nspcc-dev/neofs-node/verifharness/stor"
	oid "github.com/nspcc-dev/neofs-sdk-go/object/id"
	"pgregory.net/rapid"
)

// Known-finding class: the background flusher read an object from the
// write-cache, the object was removed completely (cache, metabase, blob) while
// the flusher was about to write, and the flusher then wrote it into the blob
// storage: an orphan blob that the next metabase resync turns into an
// available object again.
const fpRace = "C09:flush-after-delete-leaves-orphan-blob-revived-by-resync"

type snapMeta struct {
	removed  []oid.Address
	raced    map[oid.Address]bool
	resynced map[oid.Address]bool
}

type model struct {
	r *crashrig.Rig
	// removed: completed removals not followed by a put attempt (guarded by the rig lock)
	removed map[oid.Address]bool
	// raced: removal completed while a parked flusher was holding the object
	raced map[oid.Address]bool
	// resynced: a live resync happened after such a race
	resynced map[oid.Address]bool
	// stored: a put of the object succeeded and it was not removed since
	// (only for the non-triviality rule: removing a never-stored object is trivial)
	stored map[oid.Address]bool
	// kind of the operation currently applied (nesting: race > inner)
	kinds []string
	// statistics for the non-triviality rule
	completions     int
	eventsAfter     map[string]bool
	snapsChecked    int
}

func (m *model) cur() string {
	if len(m.kinds) == 0 {
		return ""
	}
	return m.kinds[len(m.kinds)-1]
}

func regular(a oid.Address) bool {
	for c := 0; c < crashrig.NCnr; c++ {
		for i := 0; i < crashrig.NReg; i++ {
			if crashrig.RegAddr(c, i) == a {
				return true
			}
		}
	}
	return false
}

// onStep runs under the rig lock.
func (m *model) onStep(st crashrig.Step) {
	if st.Comp != "blob" || st.Method != "Delete" || !st.After {
		return
	}
	if k := m.cur(); k != crashrig.KGC && k != crashrig.KDel {
		return // e.g. the rollback of a rejected Put
	}
	if st.Err != nil && !crashrig.IsNotFound(st.Err) {
		return
	}
	m.complete(st.Addrs[0])
}

// complete records a completed removal (rig lock held).
func (m *model) complete(a oid.Address) {
	if !regular(a) {
		return
	}
	if !m.removed[a] {
		m.removed[a] = true
		if m.stored[a] {
			m.completions++
		}
		delete(m.stored, a)
	}
	if m.r.ParkedNow {
		for _, p := range m.r.Parked {
			if p == a {
				m.raced[a] = true
			}
		}
	}
}

func (m *model) snapMeta() any {
	s := snapMeta{raced: map[oid.Address]bool{}, resynced: map[oid.Address]bool{}}
	for a := range m.removed {
		s.removed = append(s.removed, a)
	}
	sort.Slice(s.removed, func(i, j int) bool { return s.removed[i].EncodeToString() < s.removed[j].EncodeToString() })
	for a := range m.raced {
		s.raced[a] = true
	}
	for a := range m.resynced {
		s.resynced[a] = true
	}
	return s
}

type violation struct {
	addr  oid.Address
	where string
	what  string
}

// observe applies the oracle to one shard.
func observe(sh *shard.Shard, removed []oid.Address, where string) []violation {
	var vs []violation
	for _, a := range removed {
		if ok, err := sh.Exists(a, false); ok && err == nil {
			vs = append(vs, violation{a, where, "Exists = (true, nil)"})
		}
		if _, err := sh.Get(a, false); err == nil {
			vs = append(vs, violation{a, where, "Get succeeded"})
		}
	}
	return vs
}

func must(err error, what string, s crashrig.Snap) {
	if err != nil {
		ev.Inconclusive("C09: %s of %v: %v", what, s, err)
	}
}

// aftermath reopens one crash snapshot in the two ways described in the
// package comment and applies the oracle at every stage.
func aftermath(r *crashrig.Rig, w *crashrig.World, s crashrig.Snap) []violation {
	meta := s.Meta.(snapMeta)
	var vs []violation
	dirB := s.Dir + "-b"
	must(snap.Copy(s.Dir, dirB), "copy", s)
	defer os.RemoveAll(dirB)

	// (A) plain restart
	sh, _, err := r.OpenSnapshot(s.Dir, s.Epoch)
	must(err, "open", s)
	vs = append(vs, observe(sh, meta.removed, "crash+restart")...)
	if r.Cfg.WC {
		_ = sh.FlushWriteCache(false)
	}
	sh.VerifGCPass()
	vs = append(vs, observe(sh, meta.removed, "crash+restart+flush+gc")...)
	must(sh.Close(), "close", s)

	// (B) resync, tombstone expiry, second resync
	ep := &stor.Epoch{}
	ep.Set(s.Epoch)
	must(crashrig.Resync(dirB, ep), "resync", s)
	sh, ep, err = r.OpenSnapshot(dirB, s.Epoch)
	must(err, "open after resync", s)
	vs = append(vs, observe(sh, meta.removed, "crash+resync+restart")...)
	e := max(uint64(w.MaxExp), s.Epoch) + 1
	ep.Set(e)
	sh.VerifNewEpoch(e)
	sh.VerifGCPass()
	sh.VerifGCPass()
	if r.Cfg.WC {
		_ = sh.FlushWriteCache(false)
	}
	vs = append(vs, observe(sh, meta.removed, "crash+resync+restart+tombstones-expired+gc+flush")...)
	must(sh.Close(), "close", s)
	must(crashrig.Resync(dirB, ep), "second resync", s)
	sh, _, err = r.OpenSnapshot(dirB, e)
	must(err, "open after second resync", s)
	vs = append(vs, observe(sh, meta.removed, "crash+resync+tombstones-expired+gc+flush+second-resync")...)
	must(sh.Close(), "close", s)
	return vs
}

func TestC09Removed(t *testing.T) {
	rec := ev.New("C09", "removed")
	defer rec.Flush()
	bubble.Check(t, func(t *rapid.T) {
		cfg := crashrig.Cfg{WC: rapid.IntRange(0, 3).Draw(t, "wc") > 0}
		if cfg.WC {
			cfg.WCBatchThreshold = crashrig.BatchThreshold
			if rapid.IntRange(0, 3).Draw(t, "smallcache") == 0 {
				cfg.WCMaxSize = crashrig.CacheSize
			}
		}
		r, err := crashrig.New(cfg)
		if err != nil {
			ev.Inconclusive("C09: rig: %v", err)
		}
		defer r.Cleanup()
		w := crashrig.NewWorld(r)
		m := &model{r: r, removed: map[oid.Address]bool{}, raced: map[oid.Address]bool{}, resynced: map[oid.Address]bool{}, stored: map[oid.Address]bool{}, eventsAfter: map[string]bool{}}
		r.OnStep = m.onStep
		r.SnapMeta = m.snapMeta
		// crash snapshots matter only once something has been removed
		r.Filter = func(bool) bool { return len(m.removed) > 0 }

		var (
			ops    []crashrig.Op
			cfgs   = fmt.Sprintf("wc=%v cache=%d", cfg.WC, cfg.WCMaxSize)
			labels = map[string]bool{}
			known  bool
			// objects of this history already counted as excluded known-finding cases
			knownSeen = map[oid.Address]bool{}
		)
		// st is the model state the observation belongs to (the live one, or the
		// one recorded with the crash snapshot)
		fail := func(v violation, extra string, st snapMeta) {
			// known class: an in-flight flush of the object overlapped its complete
			// removal (orphan blob) AND a resync has turned the orphan into metadata
			if st.raced[v.addr] && (st.resynced[v.addr] || strings.Contains(v.where, "resync")) {
				if rec.Known(fpRace) {
					known = true
					if !knownSeen[v.addr] {
						knownSeen[v.addr] = true
						rec.Excluded(1)
					}
					return
				}
				t.Fatalf("C09 violated [%s]: removed object %s readable again: %s (%s)%s\n  shard: %s\n  history: %s\n  op errors: %v",
					fpRace, v.addr, v.what, v.where, extra, cfgs, crashrig.OpsString(ops), w.Log)
			}
			t.Fatalf("C09 violated: removed object %s readable again: %s (%s)%s\n  shard: %s\n  history: %s\n  op errors: %v",
				v.addr, v.what, v.where, extra, cfgs, crashrig.OpsString(ops), w.Log)
		}
		checkLive := func(where string) {
			if r.Sh == nil {
				return
			}
			r.Lock()
			st := m.snapMeta().(snapMeta)
			r.Unlock()
			for _, v := range observe(r.Sh, st.removed, where) {
				fail(v, "", st)
			}
		}
		depth := 0
		// Operation-level completion (independent of the taps, so that a removal
		// that forgets a component step still counts as completed): a GC pass
		// completes the removal of everything the metabase listed as garbage
		// right before it; a direct Delete that returned nil completes the
		// removal of an object the metabase knew.
		var (
			gcInput  [][]oid.Address
			delKnown []bool
			wasRem   []bool
		)
		w.OnOp = func(op crashrig.Op, phase string, opErr error) {
			r.Lock()
			defer func() {
				r.Unlock()
				if phase == "end" && depth > 0 {
					// foreground step of a flush-versus-delete schedule (flusher still parked)
					checkLive(fmt.Sprintf("live shard after %s while the flusher is parked", op))
				}
			}()
			if phase == "begin" {
				if op.Kind != crashrig.KRace && m.cur() == crashrig.KRace {
					depth++
				}
				m.kinds = append(m.kinds, op.Kind)
				if op.Kind == crashrig.KPut {
					// someone stores it anew (or tries to): not tracked any more
					// (if the put is REJECTED nothing was stored anew: tracked again at its end)
					a := crashrig.RegAddr(op.C, op.I)
					wasRem = append(wasRem, m.removed[a])
					delete(m.removed, a)
					delete(m.raced, a)
					delete(m.resynced, a)
				}
				switch op.Kind {
				case crashrig.KGC:
					var in []oid.Address
					bins, err := r.Sh.VerifMetabase().GetGarbage(100)
					if err != nil {
						ev.Inconclusive("C09: GetGarbage: %v", err)
					}
					for _, b := range bins {
						for _, id := range b.Objects {
							in = append(in, oid.NewAddress(b.Container, id))
						}
					}
					gcInput = append(gcInput, in)
				case crashrig.KDel:
					ok, err := r.Sh.VerifMetabase().Exists(crashrig.RegAddr(op.C, op.I), true)
					delKnown = append(delKnown, ok || err != nil)
				}
				return
			}
			switch op.Kind {
			case crashrig.KPut:
				if opErr == nil {
					m.stored[crashrig.RegAddr(op.C, op.I)] = true
				} else if wasRem[len(wasRem)-1] {
					m.complete(crashrig.RegAddr(op.C, op.I))
				}
				wasRem = wasRem[:len(wasRem)-1]
			case crashrig.KGC:
				for _, a := range gcInput[len(gcInput)-1] {
					m.complete(a)
				}
				gcInput = gcInput[:len(gcInput)-1]
			case crashrig.KDel:
				if delKnown[len(delKnown)-1] && opErr == nil {
					m.complete(crashrig.RegAddr(op.C, op.I))
				}
				delKnown = delKnown[:len(delKnown)-1]
			}
			m.kinds = m.kinds[:len(m.kinds)-1]
			if m.cur() != crashrig.KRace {
				depth = 0
			}
			if op.Kind == crashrig.KResync {
				for a := range m.raced {
					m.resynced[a] = true
				}
			}
			if len(m.removed) > 0 {
				switch op.Kind {
				case crashrig.KResync, crashrig.KReopen, crashrig.KFlush, crashrig.KTick, crashrig.KRace, crashrig.KEpoch:
					m.eventsAfter[op.Kind] = true
				}
			}
		}
		// once a removal completed, prefer the events the property is about
		w.Bias = func(add func(string, int)) {
			if len(m.removed) == 0 {
				if w.AnyPending() {
					add(crashrig.KGC, 6)
				}
				return
			}
			add(crashrig.KResync, 4)
			add(crashrig.KReopen, 2)
			add(crashrig.KEpoch, 3)
			add(crashrig.KFlush, 2)
			add(crashrig.KTick, 2)
		}

		nontrivial := false
		defer func() {
			var ls []string
			for l := range labels {
				ls = append(ls, l)
			}
			sort.Strings(ls)
			rec.Case(nontrivial, cfgs+" | "+crashrig.OpsString(ops), ls...)
		}()

		seen := map[string]bool{}
		n := rapid.IntRange(4, 10).Draw(t, "n")
		for i := 0; i < n; i++ {
			op := w.Draw(t, crashrig.Allow{Race: true, Reopen: true, Resync: true}, false)
			ops = append(ops, op)
			r.Begin(i, op.String())
			if err := w.Apply(op); err != nil {
				ev.Inconclusive("C09: %v (history %s)", err, crashrig.OpsString(ops))
			}
			r.End()
			checkLive(fmt.Sprintf("live shard after op[%d] %s", i, op))

			snaps, err := r.Drain()
			if err != nil {
				ev.Inconclusive("C09: %v", err)
			}
			for _, s := range snaps {
				sm := s.Meta.(snapMeta)
				if len(sm.removed) == 0 {
					os.RemoveAll(s.Dir)
					continue
				}
				dg, err := snap.Digest(stor.BlobDir(s.Dir), stor.MetaPath(s.Dir), stor.WCDir(s.Dir))
				must(err, "digest", s)
				key := fmt.Sprintf("%s@%d%v", dg, s.Epoch, sm.removed)
				if seen[key] {
					os.RemoveAll(s.Dir)
					continue
				}
				seen[key] = true
				m.snapsChecked++
				if s.Inside {
					labels["crash-snapshot-inside-op-after-a-removal"] = true
				}
				for _, v := range aftermath(r, w, s) {
					fail(v, fmt.Sprintf("\n  at %v", s), sm)
				}
				os.RemoveAll(s.Dir)
			}
		}

		// classification
		if cfg.WC {
			labels["shard:write-cache"] = true
		} else {
			labels["shard:no-cache"] = true
		}
		if m.completions > 0 {
			labels["removal-completed"] = true
		}
		for k := range m.eventsAfter {
			labels["after-removal:"+k] = true
		}
		if m.snapsChecked > 0 {
			labels["after-removal:crash-snapshot(restart,resync,expiry,second-resync)"] = true
		}
		if w.RacesParked > 0 {
			labels["flusher-parked"] = true
		}
		if len(m.raced) > 0 || known {
			labels["removal-completed-while-flusher-parked"] = true
		}
		if known {
			labels["known-finding-hit"] = true
		}
		for _, o := range ops {
			labels["op:"+o.Kind] = true
		}
		if strings.Contains(crashrig.OpsString(ops), "tomb(") && m.completions > 0 {
			labels["tombstone+removal"] = true
		}
		if len(m.removed) > 0 || m.snapsChecked > 0 {
			labels["something-in-Removed(incl. never-stored targets)"] = true
		}
		nontrivial = m.completions > 0 && (len(m.eventsAfter) > 0 || m.snapsChecked > 0)
		if rec.WantSample() && nontrivial {
			rec.Sample(map[string]any{"shard": cfgs, "history": crashrig.OpsString(ops), "removed_at_end": fmt.Sprint(m.snapMeta().(snapMeta).removed)})
		}
	})
}

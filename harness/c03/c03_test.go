// Package c03 decides property C03: a single shard's search returns exactly the
// matching available objects, with the requested attribute values, ordered by
// the first requested attribute and then by ID, and following the returned
// cursor with any page size yields every match exactly once and then stops.
//
// Reach: meta.DB.Search / shard.Shard.Search through
// objectcore.PreprocessSearchQuery with the returned cursor fed back in its
// API (Base64) form; DB.Select as an additional set-level view.
// Oracle: refsearch (naive reference written from the API docs) over the
// generated corpus description (searchgen.Corpus.View()).
package c03

import (
	"encoding/base64"
	"encoding/json"
	"errors"
	"fmt"
	"os"
	"sort"
	"strings"
	"testing"

	objectcore "github.com/nspcc-dev/neofs-node/pkg/core/object"
	meta "github.com/nspcc-dev/neofs-node/pkg/local_object_storage/metabase"
	"github.com/nspcc-dev/neofs-node/verifharness/ev"
	"github.com/nspcc-dev/neofs-node/verifharness/refsearch"
	"github.com/nspcc-dev/neofs-node/verifharness/searchgen"
	"github.com/nspcc-dev/neofs-node/verifharness/stor"
	"github.com/nspcc-dev/neofs-node/verifharness/uni"
	"github.com/nspcc-dev/neofs-sdk-go/client"
	apistatus "github.com/nspcc-dev/neofs-sdk-go/client/status"
	cid "github.com/nspcc-dev/neofs-sdk-go/container/id"
	"github.com/nspcc-dev/neofs-sdk-go/object"
	oid "github.com/nspcc-dev/neofs-sdk-go/object/id"
	"pgregory.net/rapid"
)

// target abstracts meta.DB and shard.Shard.
type target struct {
	put    func(*object.Object) error
	mark   func(cid.ID, []oid.ID) error
	del    func(cid.ID, []oid.ID) error
	search func(cid.ID, []objectcore.SearchFilter, []string, *objectcore.SearchCursor, uint16) ([]client.SearchResultItem, []byte, error)
	sel    func(cid.ID, object.SearchFilters) ([]oid.Address, error)
	close  func()
}

func openDB(ep *stor.Epoch) (*target, error) {
	dir, err := os.MkdirTemp("", "c03db")
	if err != nil {
		return nil, err
	}
	db, err := stor.OpenMeta(dir+"/meta", ep)
	if err != nil {
		os.RemoveAll(dir)
		return nil, err
	}
	return &target{
		put: db.Put,
		mark: func(c cid.ID, ids []oid.ID) error {
			_, err := db.MarkGarbage(c, ids, meta.GarbageMarkDefault)
			return err
		},
		del: func(c cid.ID, ids []oid.ID) error {
			_, _, err := db.Delete(c, ids)
			return err
		},
		search: db.Search,
		sel:    db.Select,
		close:  func() { _ = db.Close(); os.RemoveAll(dir) },
	}, nil
}

func openShard(ep *stor.Epoch) (*target, error) {
	dir, err := os.MkdirTemp("", "c03sh")
	if err != nil {
		return nil, err
	}
	sh, err := stor.OpenShard(stor.ShardCfg{Dir: dir, Epoch: ep})
	if err != nil {
		os.RemoveAll(dir)
		return nil, err
	}
	return &target{
		put:    func(o *object.Object) error { return sh.Put(o, nil) },
		mark:   func(c cid.ID, ids []oid.ID) error { return sh.MarkGarbage(c, ids, meta.GarbageMarkDefault) },
		del:    sh.Delete,
		search: sh.Search,
		sel:    func(c cid.ID, fs object.SearchFilters) ([]oid.Address, error) { return sh.Select(c, fs) }, //nolint:staticcheck
		close:  func() { _ = sh.Close(); os.RemoveAll(dir) },
	}, nil
}

// Load stores the corpus: puts at epoch 0 (a put of an object whose tombstone
// is already stored must be refused), then garbage marks, then the epoch moves.
func load(tg *target, c *searchgen.Corpus, ep *stor.Epoch) {
	ep.Set(0)
	cnr := uni.Cnr(c.Cnr)
	for i, s := range c.Specs {
		err := tg.put(searchgen.Build(s))
		if c.TombstonedBefore(i) {
			if !errors.Is(err, apistatus.ErrObjectAlreadyRemoved) {
				ev.Inconclusive("put of %v after its tombstone: %v (expected already removed)", s, err)
			}
			continue
		}
		if err != nil {
			ev.Inconclusive("harness: put %v failed: %v", s, err)
		}
	}
	if len(c.Garbage) > 0 {
		var ids []oid.ID
		for _, g := range c.Garbage {
			ids = append(ids, searchgen.ExtID(c.Specs[g].ID))
		}
		if err := tg.mark(cnr, ids); err != nil {
			ev.Inconclusive("harness: mark garbage: %v", err)
		}
	}
	// physical removal (what GC does with marked / tombstoned / expired objects, or a
	// direct removal): one Delete call per object or one call for all
	if len(c.Deleted) > 0 {
		var ids []oid.ID
		for _, d := range c.Deleted {
			ids = append(ids, searchgen.ExtID(c.Specs[d].ID))
		}
		if len(ids)%2 == 0 {
			if err := tg.del(cnr, ids); err != nil {
				ev.Inconclusive("harness: delete: %v", err)
			}
		} else {
			for _, id := range ids {
				if err := tg.del(cnr, []oid.ID{id}); err != nil {
					ev.Inconclusive("harness: delete: %v", err)
				}
			}
		}
	}
	ep.Set(c.Epoch)
}

type pageErr struct {
	page   int
	cursor string
	err    error
	prep   bool // error from PreprocessSearchQuery
}

// paginate follows cursors with page size p. It returns the concatenation.
func paginate(tg *target, cnr cid.ID, q refsearch.Query, p uint16, maxPages int) ([]refsearch.Item, int, *pageErr) {
	var all []refsearch.Item
	cursor := ""
	fs := q.SDK()
	for page := 0; ; page++ {
		if page > maxPages {
			return all, page, &pageErr{page: page, cursor: cursor, err: errors.New("listing does not terminate")}
		}
		ofs, cur, err := objectcore.PreprocessSearchQuery(fs, q.Attrs, cursor)
		if err != nil {
			return all, page, &pageErr{page: page, cursor: cursor, err: err, prep: true}
		}
		items, next, err := safeSearch(tg, cnr, ofs, q.Attrs, cur, p)
		if err != nil {
			return all, page, &pageErr{page: page, cursor: cursor, err: err}
		}
		if len(items) > int(p) {
			return all, page, &pageErr{page: page, cursor: cursor, err: fmt.Errorf("page of %d items exceeds count %d", len(items), p)}
		}
		for _, it := range items {
			all = append(all, refsearch.Item{ID: it.ID, Attrs: it.Attributes})
		}
		if len(next) == 0 {
			return all, page + 1, nil
		}
		if len(items) == 0 {
			return all, page, &pageErr{page: page, cursor: cursor, err: errors.New("empty page with a continuation cursor")}
		}
		cursor = base64.StdEncoding.EncodeToString(next)
	}
}

// safeSearch converts a panic of the code under test into an error so that it
// is reported with the query (and can be matched against known findings).
func safeSearch(tg *target, cnr cid.ID, ofs []objectcore.SearchFilter, attrs []string, cur *objectcore.SearchCursor, p uint16) (items []client.SearchResultItem, next []byte, err error) {
	defer func() {
		if r := recover(); r != nil {
			err = fmt.Errorf("PANIC in search: %v", r)
		}
	}()
	return tg.search(cnr, ofs, attrs, cur, p)
}

func safeSelect(tg *target, cnr cid.ID, fs object.SearchFilters) (res []oid.Address, err error) {
	defer func() {
		if r := recover(); r != nil {
			err = fmt.Errorf("PANIC in Select: %v", r)
		}
	}()
	return tg.sel(cnr, fs)
}

func fmtItems(v []refsearch.Item) string {
	var b strings.Builder
	for i, it := range v {
		fmt.Fprintf(&b, "\n    %2d %x.. %q", i, it.ID[:2], it.Attrs)
		fmt.Fprintf(&b, " (%x/%x/%x)", it.ID[15], it.ID[16], it.ID[31])
	}
	return b.String()
}

func diffItems(exp, got []refsearch.Item, nattr int) string {
	if len(exp) != len(got) {
		return fmt.Sprintf("expected %d items, got %d", len(exp), len(got))
	}
	for i := range exp {
		if exp[i].ID != got[i].ID {
			return fmt.Sprintf("item %d: expected ID %x, got %x", i, exp[i].ID[:], got[i].ID[:])
		}
		if len(got[i].Attrs) != nattr {
			return fmt.Sprintf("item %d: %d attributes returned, %d requested", i, len(got[i].Attrs), nattr)
		}
		for k := 0; k < nattr; k++ {
			if exp[i].Attrs[k] != got[i].Attrs[k] {
				return fmt.Sprintf("item %d attribute %d: expected %q, got %q", i, k, exp[i].Attrs[k], got[i].Attrs[k])
			}
		}
	}
	return ""
}

// primaryDecodable mirrors the validator's stated rule for the 1st filter when
// attributes are requested: values of binary attributes given with = or PREFIX
// must be decodable (Base58 / HEX / UUID). Only used to accept a rejection.
func mayRejectPrimary(q refsearch.Query) bool {
	if len(q.Filters) == 0 || len(q.Attrs) == 0 {
		return false
	}
	f := q.Filters[0]
	return refsearch.IsBinary(f.Key) && (f.Op == refsearch.OpEQ || f.Op == refsearch.OpPrefix)
}

// isSubsequence reports whether got is exp with some items left out.
func isSubsequence(got, exp []refsearch.Item, nattr int) bool {
	j := 0
	for _, g := range got {
		for j < len(exp) && exp[j].ID != g.ID {
			j++
		}
		if j == len(exp) || diffItems(exp[j:j+1], []refsearch.Item{g}, nattr) != "" {
			return false
		}
		j++
	}
	return true
}

func sharesPrefix(vals []string) bool {
	for i := range vals {
		for j := range vals {
			if i != j && vals[i] != vals[j] && strings.HasPrefix(vals[j], vals[i]) {
				return true
			}
		}
	}
	return false
}

func classify(view []refsearch.Obj, q refsearch.Query) []string { return searchgen.C03Classes(view, q) }

func runCorpus(t *rapid.T, rec *ev.Recorder, open func(*stor.Epoch) (*target, error), nQueries int) {
	c := searchgen.Gen(searchgen.GenOpts{}).Draw(t, "corpus")
	ep := &stor.Epoch{}
	tg, err := open(ep)
	if err != nil {
		ev.Inconclusive("open: %v", err)
	}
	defer tg.close()
	load(tg, &c, ep)
	view := c.View()
	cnr := uni.Cnr(c.Cnr)
	cjs, _ := json.Marshal(c)
	nAvail := 0
	for _, o := range view {
		if o.Available {
			nAvail++
		}
	}

	for qi := 0; qi < nQueries; qi++ {
		q := searchgen.GenQuery(view, searchgen.QueryOpts{}).Draw(t, fmt.Sprintf("q%d", qi))
		verdict := refsearch.Check(q)
		exp := refsearch.Search(view, q)
		sizes := []int{1, 2, 3, len(exp), len(exp) + 1, len(exp) - 1, 1000}
		np := rapid.IntRange(1, 2).Draw(t, "npages")
		for pi := 0; pi < np; pi++ {
			p := rapid.SampledFrom(sizes).Draw(t, "page")
			if p < 1 {
				p = 1
			}
			labels := []string{"verdict-" + map[refsearch.Verdict]string{refsearch.Valid: "valid", refsearch.BadNumeric: "bad-numeric", refsearch.Undefined: "undefined"}[verdict]}
			primKind := "none"
			if len(q.Filters) > 0 {
				primKind = q.Filters[0].Key
				if len(q.Attrs) == 0 {
					labels = append(labels, "no-attrs")
				}
				for _, f := range q.Filters {
					labels = append(labels, "op-"+f.Op.String())
				}
			} else {
				labels = append(labels, "unfiltered")
			}
			labels = append(labels, "primary-"+primKind, fmt.Sprintf("nfilters-%d", len(q.Filters)))
			// non-triviality
			numeric := false
			prefixOp := false
			for _, f := range q.Filters {
				numeric = numeric || refsearch.IsNumeric(f.Op)
				prefixOp = prefixOp || (f.Op == refsearch.OpPrefix && f.Val != "")
			}
			tie := false
			var primVals []string
			if !refsearch.IDOrdered(q) {
				for i := range exp {
					primVals = append(primVals, exp[i].Attrs[0])
					if i > 0 && i%p == 0 && exp[i].Attrs[0] == exp[i-1].Attrs[0] {
						tie = true
					}
				}
			}
			shared := prefixOp || sharesPrefix(primVals)
			nontrivial := verdict == refsearch.Valid && len(exp) >= 2 && (tie || numeric || shared)
			if tie {
				labels = append(labels, "page-break-on-equal-primary")
			}
			if len(exp) >= 2 {
				labels = append(labels, "matches>=2")
			} else {
				labels = append(labels, fmt.Sprintf("matches-%d", len(exp)))
			}
			if len(exp) > p {
				labels = append(labels, "multi-page")
			}
			if len(exp) < nAvail && len(exp) > 0 {
				labels = append(labels, "selective")
			}
			fp := fmt.Sprintf("%s|%s|%d", cjs, q, p)
			rec.Case(nontrivial, fp, labels...)
			if nontrivial && rec.WantSample() {
				rec.Sample(map[string]any{"corpus": c, "query": q, "page": p, "expected": len(exp)})
			}

			// a failure is excused only if the query has the shape of an OPEN known
			// finding and the failure shows that finding's symptom
			known := func(symptom string) bool {
				for _, cls := range classify(view, q) {
					if symptom == "error" || (symptom == "other" && searchgen.OmissionOnly(cls)) {
						continue
					}
					if rec.Known(cls) {
						rec.Label("known-" + cls)
						rec.Excluded(1)
						return true
					}
				}
				return false
			}
			got, pages, perr := paginate(tg, cnr, q, uint16(p), len(view)+3)
			if perr != nil {
				switch {
				case perr.prep && perr.page == 0 && errors.Is(perr.err, objectcore.ErrUnreachableQuery):
					// valid but unreachable: must coincide with an empty expected result
					rec.Label("unreachable")
					if verdict == refsearch.Valid && len(exp) != 0 {
						t.Fatalf("query declared unreachable but %d objects match\nquery: %s\ncorpus: %s\nexpected:%s", len(exp), q, cjs, fmtItems(exp))
					}
					continue
				case perr.prep && perr.page == 0 && verdict == refsearch.BadNumeric:
					rec.Label("rejected-bad-numeric")
					continue
				case perr.prep && perr.page == 0 && verdict == refsearch.Undefined:
					rec.Label("rejected-undefined")
					continue
				case perr.prep && perr.page == 0 && mayRejectPrimary(q):
					rec.Label("rejected-primary-undecodable")
					continue
				}
				if known("error") {
					continue
				}
				t.Fatalf("page %d (cursor %q, count %d): %v\nquery: %s\ncorpus: %s\nexpected:%s\ngot so far:%s",
					perr.page, perr.cursor, p, perr.err, q, cjs, fmtItems(exp), fmtItems(got))
			}
			if verdict == refsearch.BadNumeric {
				t.Fatalf("numeric filter with a non-integer / out-of-range value was accepted\nquery: %s", q)
			}
			if verdict == refsearch.Undefined {
				rec.Label("undefined-not-compared")
				continue
			}
			nattr := len(q.Attrs)
			if len(q.Filters) == 0 {
				nattr = 0
			}
			if d := diffItems(exp, got, nattr); d != "" {
				symptom := "other"
				if isSubsequence(got, exp, nattr) {
					symptom = "omission"
				}
				if known(symptom) {
					continue
				}
				t.Fatalf("%s\nquery: %s\npage size %d (%d pages)\ncorpus: %s\nexpected:%s\ngot:%s", d, q, p, pages, cjs, fmtItems(exp), fmtItems(got))
			}
		}
		// set-level view through the deprecated Select (ordered by the 1st filter's attribute)
		if verdict == refsearch.Valid && tg.sel != nil && qi%2 == 0 {
			qa := q
			if len(q.Filters) > 0 {
				qa.Attrs = []string{q.Filters[0].Key}
			}
			selKnown := func(omission bool) bool {
				for _, cls := range classify(view, qa) {
					if !omission && searchgen.OmissionOnly(cls) {
						continue
					}
					if rec.Known(cls) {
						rec.Label("known-" + cls)
						return true
					}
				}
				return false
			}
			addrs, err := safeSelect(tg, cnr, q.SDK())
			if err != nil {
				if strings.HasPrefix(err.Error(), "PANIC") {
					t.Fatalf("Select: %v\nquery: %s\ncorpus: %s", err, q, cjs)
				}
				rec.Label("select-rejected")
				continue
			}
			qs := q
			qs.Attrs = nil
			want := refsearch.Search(view, qs)
			var a, b []string
			for _, x := range addrs {
				if x.Container() != cnr {
					t.Fatalf("Select returned address of another container: %s", x)
				}
				a = append(a, x.Object().EncodeToString())
			}
			for _, x := range want {
				b = append(b, x.ID.EncodeToString())
			}
			sort.Strings(a)
			sort.Strings(b)
			omission := true
			inB := map[string]bool{}
			for _, x := range b {
				inB[x] = true
			}
			for _, x := range a {
				omission = omission && inB[x]
			}
			if strings.Join(a, ",") != strings.Join(b, ",") && !selKnown(omission) {
				t.Fatalf("Select: expected %v, got %v\nquery: %s\ncorpus: %s", b, a, q, cjs)
			}
			rec.Label("select-compared")
		}
	}
}

func TestC03Metabase(t *testing.T) {
	rec := ev.New("C03", "metabase")
	defer rec.Flush()
	rapid.Check(t, func(t *rapid.T) { runCorpus(t, rec, openDB, 12) })
}

func TestC03Shard(t *testing.T) {
	rec := ev.New("C03", "shard")
	defer rec.Flush()
	rapid.Check(t, func(t *rapid.T) { runCorpus(t, rec, openShard, 12) })
}

// Package faultstore wraps a real common.Storage (normally an FSTree) with
// per-method scripted failures, call recording and before/after callbacks.
// It is used for fault injection (C16/C17/C19/C20/C43) and as the
// crash-snapshot tap (C09/C15): Before/After run synchronously around every
// mutating call, so a test can snapshot directories "between component steps".
//
// All decisions (which call fails) are taken by the caller-provided Fail
// function or script; nothing here is random.
package faultstore

import (
	"errors"
	"io"
	"sync"

	"github.com/nspcc-dev/neofs-node/pkg/local_object_storage/blobstor/common"
	"github.com/nspcc-dev/neofs-sdk-go/object"
	oid "github.com/nspcc-dev/neofs-sdk-go/object/id"
)

// ErrInjected is returned by failed calls (wrapped I/O-like error, not a
// logical status error).
var ErrInjected = errors.New("faultstore: injected failure")

// Call describes one recorded call.
type Call struct {
	Seq    int
	Method string
	Addrs  []oid.Address
	Err    error
}

// Store is the wrapper. Zero hooks mean pass-through.
type Store struct {
	common.Storage

	mu    sync.Mutex
	seq   int
	calls []Call
	// Record enables call recording.
	Record bool

	// Fail is consulted before every call with the method name and the
	// addresses involved; a non-nil result is returned instead of calling the
	// wrapped storage. Methods: Open, Init, Close, Put, PutBatch, Delete, Get,
	// GetBytes, GetStream, GetRangeStream, Head, ReadHeader, ReadObject,
	// ReadPayloadRange, ReadObjectParts, Exists, Iterate, IterateAddresses.
	Fail func(method string, addrs []oid.Address) error
	// Before and After run around every call (after Fail was consulted;
	// Before also runs when the call is going to fail, After gets the result).
	Before func(method string, addrs []oid.Address)
	After  func(method string, addrs []oid.Address, err error)
}

// New wraps s.
func New(s common.Storage) *Store { return &Store{Storage: s} }

// SetFail / SetBefore / SetAfter replace hooks under the lock (hooks may be
// swapped while background goroutines call the store).
func (s *Store) SetFail(f func(string, []oid.Address) error) { s.mu.Lock(); s.Fail = f; s.mu.Unlock() }
func (s *Store) SetBefore(f func(string, []oid.Address))      { s.mu.Lock(); s.Before = f; s.mu.Unlock() }
func (s *Store) SetAfter(f func(string, []oid.Address, error)) {
	s.mu.Lock()
	s.After = f
	s.mu.Unlock()
}

// Calls returns a copy of the recorded calls.
func (s *Store) Calls() []Call {
	s.mu.Lock()
	defer s.mu.Unlock()
	return append([]Call(nil), s.calls...)
}

// ResetCalls drops the recorded calls.
func (s *Store) ResetCalls() { s.mu.Lock(); s.calls = nil; s.mu.Unlock() }

func (s *Store) enter(m string, addrs []oid.Address) error {
	s.mu.Lock()
	fail, before := s.Fail, s.Before
	s.mu.Unlock()
	var err error
	if fail != nil {
		err = fail(m, addrs)
	}
	if before != nil {
		before(m, addrs)
	}
	return err
}

func (s *Store) leave(m string, addrs []oid.Address, err error) {
	s.mu.Lock()
	after := s.After
	if s.Record {
		s.seq++
		s.calls = append(s.calls, Call{Seq: s.seq, Method: m, Addrs: addrs, Err: err})
	}
	s.mu.Unlock()
	if after != nil {
		after(m, addrs, err)
	}
}

func one(a oid.Address) []oid.Address { return []oid.Address{a} }

func (s *Store) Open(ro bool) error {
	err := s.enter("Open", nil)
	if err == nil {
		err = s.Storage.Open(ro)
	}
	s.leave("Open", nil, err)
	return err
}

func (s *Store) Init(id common.ID) error {
	err := s.enter("Init", nil)
	if err == nil {
		err = s.Storage.Init(id)
	}
	s.leave("Init", nil, err)
	return err
}

func (s *Store) Close() error {
	err := s.enter("Close", nil)
	if err == nil {
		err = s.Storage.Close()
	}
	s.leave("Close", nil, err)
	return err
}

func (s *Store) Put(a oid.Address, b []byte) error {
	err := s.enter("Put", one(a))
	if err == nil {
		err = s.Storage.Put(a, b)
	}
	s.leave("Put", one(a), err)
	return err
}

func (s *Store) PutBatch(m map[oid.Address][]byte) error {
	addrs := make([]oid.Address, 0, len(m))
	for a := range m {
		addrs = append(addrs, a)
	}
	err := s.enter("PutBatch", addrs)
	if err == nil {
		err = s.Storage.PutBatch(m)
	}
	s.leave("PutBatch", addrs, err)
	return err
}

func (s *Store) Delete(a oid.Address) error {
	err := s.enter("Delete", one(a))
	if err == nil {
		err = s.Storage.Delete(a)
	}
	s.leave("Delete", one(a), err)
	return err
}

func (s *Store) GetBytes(a oid.Address) ([]byte, error) {
	err := s.enter("GetBytes", one(a))
	var r []byte
	if err == nil {
		r, err = s.Storage.GetBytes(a)
	}
	s.leave("GetBytes", one(a), err)
	return r, err
}

func (s *Store) Get(a oid.Address) (*object.Object, error) {
	err := s.enter("Get", one(a))
	var r *object.Object
	if err == nil {
		r, err = s.Storage.Get(a)
	}
	s.leave("Get", one(a), err)
	return r, err
}

func (s *Store) GetRangeStream(a oid.Address, rng common.PayloadRange, readHeader bool) (*object.Object, uint64, io.ReadCloser, error) {
	err := s.enter("GetRangeStream", one(a))
	var (
		h  *object.Object
		n  uint64
		rc io.ReadCloser
	)
	if err == nil {
		h, n, rc, err = s.Storage.GetRangeStream(a, rng, readHeader)
	}
	s.leave("GetRangeStream", one(a), err)
	return h, n, rc, err
}

func (s *Store) GetStream(a oid.Address) (*object.Object, io.ReadCloser, error) {
	err := s.enter("GetStream", one(a))
	var (
		h  *object.Object
		rc io.ReadCloser
	)
	if err == nil {
		h, rc, err = s.Storage.GetStream(a)
	}
	s.leave("GetStream", one(a), err)
	return h, rc, err
}

func (s *Store) Head(a oid.Address) (*object.Object, error) {
	err := s.enter("Head", one(a))
	var r *object.Object
	if err == nil {
		r, err = s.Storage.Head(a)
	}
	s.leave("Head", one(a), err)
	return r, err
}

func (s *Store) ReadHeader(a oid.Address, buf []byte) (int, error) {
	err := s.enter("ReadHeader", one(a))
	var n int
	if err == nil {
		n, err = s.Storage.ReadHeader(a, buf)
	}
	s.leave("ReadHeader", one(a), err)
	return n, err
}

func (s *Store) ReadObject(a oid.Address, buf []byte) (int, io.ReadCloser, error) {
	err := s.enter("ReadObject", one(a))
	var (
		n  int
		rc io.ReadCloser
	)
	if err == nil {
		n, rc, err = s.Storage.ReadObject(a, buf)
	}
	s.leave("ReadObject", one(a), err)
	return n, rc, err
}

func (s *Store) ReadPayloadRange(a oid.Address, off, ln uint64, buf []byte, f func([]byte) error) (io.ReadCloser, error) {
	err := s.enter("ReadPayloadRange", one(a))
	var rc io.ReadCloser
	if err == nil {
		rc, err = s.Storage.ReadPayloadRange(a, off, ln, buf, f)
	}
	s.leave("ReadPayloadRange", one(a), err)
	return rc, err
}

func (s *Store) ReadObjectParts(buf []byte, a oid.Address, rng common.PayloadRange, f func([]byte) error) (int, io.ReadCloser, error) {
	err := s.enter("ReadObjectParts", one(a))
	var (
		n  int
		rc io.ReadCloser
	)
	if err == nil {
		n, rc, err = s.Storage.ReadObjectParts(buf, a, rng, f)
	}
	s.leave("ReadObjectParts", one(a), err)
	return n, rc, err
}

func (s *Store) Exists(a oid.Address) (bool, error) {
	err := s.enter("Exists", one(a))
	var r bool
	if err == nil {
		r, err = s.Storage.Exists(a)
	}
	s.leave("Exists", one(a), err)
	return r, err
}

func (s *Store) Iterate(f func(oid.Address, []byte) error, ef func(oid.Address, error) error) error {
	err := s.enter("Iterate", nil)
	if err == nil {
		err = s.Storage.Iterate(f, ef)
	}
	s.leave("Iterate", nil, err)
	return err
}

func (s *Store) IterateAddresses(f func(oid.Address) error, ignoreErrors bool) error {
	err := s.enter("IterateAddresses", nil)
	if err == nil {
		err = s.Storage.IterateAddresses(f, ignoreErrors)
	}
	s.leave("IterateAddresses", nil, err)
	return err
}

// Package c07 decides property C07: a live lock protects its object from
// tombstones, expiry and garbage collection (single shard).
//
// A rapid state machine drives a REAL shard (metabase + FSTree, optionally a
// write-cache; every case inside a synctest bubble) with: puts of regular
// objects / LOCKs / TOMBSTONEs (with and without expiration, present or absent
// targets) through the same "exists? then put" sequence the engine uses,
// forced marks (MarkGarbage default / redundant – what the control service and
// the policer do), metabase-epoch advances, (possibly lagging) new-epoch events
// for the GC, GC passes (export shims VerifNewEpoch / VerifGCPass; the expired
// objects callback is wired the way the engine wires it: lock check, then
// Delete), reopenings, and a concurrent LOCK-vs-TOMBSTONE race on a fresh
// object.
//
// The reference model is deliberately small and only claims what it can know
// for certain from the history:
//
//	liveLock(o)  = some LOCK targeting o was accepted, is unexpired at the current
//	               (metabase) epoch and was never force-marked.
//	maybeLock(o) = like liveLock but the lock was force-marked (removal pending).
//	present(o)   = o was stored and since then no GC pass ran while o was
//	               unprotected and expired.
//	exempt(o)    = o was ever force-marked or a tombstone for o was ever accepted
//	               (the statement allows its removal).
//
// Invariants checked after every step (numbers as in DESIGN.md §4 C07):
//
//	(1) a TOMBSTONE for o with liveLock(o) is rejected with ObjectLocked;
//	(2) while liveLock(o) and not exempt(o): Exists never fails (not expired, not
//	    removed, not garbage) and, if present(o), Exists is true and Get returns
//	    the bytes;
//	(3) a LOCK for a certainly tombstoned target is rejected with ObjectAlreadyRemoved;
//	(4) a TOMBSTONE whose target is a certainly stored LOCK is rejected;
//	(5) liveLock(o) ⇒ IsLocked(o); ¬liveLock(o) ∧ ¬maybeLock(o) ⇒ ¬IsLocked(o).
//
// Concurrent variant: LOCK and TOMBSTONE for the same fresh object are put from
// two goroutines; exactly one of the two sequential outcomes must result
// (lock accepted + tombstone rejected as ObjectLocked, or tombstone accepted +
// lock rejected as ObjectAlreadyRemoved), the loser must leave nothing behind,
// and the invariants above keep being checked afterwards.
package c07

import (
	"bytes"
	"errors"
	"fmt"
	"os"
	"strings"
	"sync"
	"testing"
	"time"

	"github.com/nspcc-dev/neofs-node/pkg/local_object_storage/blobstor/fstree"
	meta "github.com/nspcc-dev/neofs-node/pkg/local_object_storage/metabase"
	"github.com/nspcc-dev/neofs-node/pkg/local_object_storage/shard"
	"github.com/nspcc-dev/neofs-node/verifharness/bubble"
	"github.com/nspcc-dev/neofs-node/verifharness/ev"
	"github.com/nspcc-dev/neofs-node/verifharness/stor"
	"github.com/nspcc-dev/neofs-node/verifharness/uni"
	apistatus "github.com/nspcc-dev/neofs-sdk-go/client/status"
	oid "github.com/nspcc-dev/neofs-sdk-go/object/id"
	"pgregory.net/rapid"
)

// Object IDs are never shared between containers (real IDs are hashes over the
// header including the container ID): ids 0..7 live in container 0, 8..11 in 1.
const (
	nCnr  = 2
	nObj  = uni.NObjects
	split = 8

	// fingerprints of the two defects this check found (both FIXED in /repo:
	// 1ce2955 and cbf83bd); they only tag failure messages, nothing is excused
	fpMultiLock = "C07:marked-lock-shadows-live-lock"
	fpExpTomb   = "C07:lock-accepted-for-expired-tombstoned-target"
)

type key struct{ c, i int }

func cnrOf(i int) int {
	if i < split {
		return 0
	}
	return 1
}

func keyOf(i int) key { return key{cnrOf(i), i} }

// idRange returns the id range [lo, hi) of container c.
func idRange(c int) (int, int) {
	if c == 0 {
		return 0, split
	}
	return split, nObj
}

func (k key) String() string { return fmt.Sprintf("c%d/o%d", k.c, k.i) }
func (k key) addr() oid.Address {
	return uni.Addr(k.c, k.i)
}

type mobj struct {
	hasSpec bool
	spec    uni.Spec
	putOK   bool // a put of this object was accepted by the shard
	present bool // certainly still stored (see package doc)
	forced  bool // ever force-marked (sticky, even when marked while absent)
	// defMark: the DEFAULT mark was applied at least once. An object carrying only
	// the REDUNDANT mark stays stored, readable and – if it is a LOCK – protective
	// until a GC pass physically removes it (gcSince).
	defMark bool
	gcSince bool // a GC pass ran after the first forced mark
	tombed  bool // a tombstone targeting it was ever accepted (sticky)
}

type world struct {
	t    *rapid.T
	rec  *ev.Recorder
	dir  string
	ep   *stor.Epoch
	sh   *shard.Shard
	wc   bool
	slow bool
	// naive: the expired-objects callback deletes without its own lock check
	naive bool

	metaEpoch, gcEpoch, maxGC uint64

	objs map[key]*mobj
	ops  []string

	// non-triviality bookkeeping
	lockAccepted   map[key]bool // targets with an accepted lock
	threatened     map[key]bool // such targets that later saw a tombstone attempt or expired
	gcAfterThreat  bool
	tombRejected   map[key]uint64 // target -> exp of the protecting lock (or ^0)
	lockExpiredGap bool           // lock expired between a rejected tombstone and a GC pass
	labels         map[string]bool
}

func (w *world) logf(f string, a ...any) { w.ops = append(w.ops, fmt.Sprintf(f, a...)) }

func (w *world) fail(f string, a ...any) {
	w.t.Fatalf("%s\nconfig: write-cache=%v slow-batch=%v naive-expired-callback=%v\nhistory:\n  %s", fmt.Sprintf(f, a...), w.wc, w.slow, w.naive, strings.Join(w.ops, "\n  "))
}

func (w *world) get(k key) *mobj {
	m := w.objs[k]
	if m == nil {
		m = &mobj{}
		w.objs[k] = m
	}
	return m
}

func expired(exp int, epoch uint64) bool { return exp >= 0 && epoch > uint64(exp) }

// locks returns (live, maybe) for target k.
func (w *world) locks(k key) (live, maybe bool) {
	for lk, m := range w.objs {
		if !m.hasSpec || m.spec.Kind != uni.Lock || lk.c != k.c || m.spec.Target != k.i || !m.putOK {
			continue
		}
		if expired(m.spec.Exp, w.metaEpoch) {
			continue
		}
		switch {
		case !m.forced:
			live = true
		case !m.defMark && !m.gcSince:
			// only redundant-marked and not yet collected: still held, still protects
			live = true
		default:
			maybe = true
		}
	}
	return
}

// onlyRedundantLocks: every live lock of k carries the redundant mark.
func (w *world) onlyRedundantLocks(k key) bool {
	any := false
	for lk, m := range w.objs {
		if !m.hasSpec || m.spec.Kind != uni.Lock || lk.c != k.c || m.spec.Target != k.i || !m.putOK || expired(m.spec.Exp, w.metaEpoch) {
			continue
		}
		if !m.forced {
			return false
		}
		if !m.defMark && !m.gcSince {
			any = true
		}
	}
	return any
}

// shadowed: k has a live lock AND a force-marked unexpired one (class of fpMultiLock).
func (w *world) shadowed(k key) bool {
	l, m := w.locks(k)
	return l && m
}

func (w *world) tombstonedCertain(k key) bool {
	for tk, m := range w.objs {
		if !m.hasSpec || m.spec.Kind != uni.Tombstone || tk.c != k.c || m.spec.Target != k.i || !m.putOK || m.forced {
			continue
		}
		if m.spec.Exp < 0 || w.maxGC <= uint64(m.spec.Exp) {
			return true
		}
	}
	return false
}

func (w *world) lockCertainlyStored(k key) bool {
	m := w.objs[k]
	return m != nil && m.hasSpec && m.spec.Kind == uni.Lock && m.putOK && !m.forced &&
		(m.spec.Exp < 0 || w.maxGC <= uint64(m.spec.Exp))
}

func (w *world) exempt(k key) bool {
	m := w.objs[k]
	return m != nil && (m.forced || m.tombed)
}

// expiredCallback mirrors engine.processExpiredObjects for one shard: skip
// locked objects, otherwise delete what exists.
func (w *world) expiredCallback(addrs []oid.Address) {
	for _, a := range addrs {
		if w.naive {
			// the consumer the metabase documents ("locked objects are not included")
			// and the repo's own shard tests use: delete whatever is reported
			_ = w.sh.Delete(a.Container(), []oid.ID{a.Object()})
			continue
		}
		if locked, err := w.sh.IsLocked(a); err == nil && locked {
			continue
		}
		ex, err := w.sh.Exists(a, true)
		if err != nil || !ex {
			continue
		}
		_ = w.sh.Delete(a.Container(), []oid.ID{a.Object()})
	}
}

func (w *world) open() {
	var mopts []meta.Option
	if w.slow {
		mopts = append(mopts, meta.WithMaxBatchDelay(2*time.Millisecond))
	}
	// With a write-cache the flush workers write into the blobstor while holding
	// the cache's mode lock; if that write waited for the combined-batch timer, a
	// concurrent Close would block on the (non-durable) mutex and the bubble's fake
	// clock would never fire the timer. So no batching timer on that path.
	fsto := []fstree.Option{fstree.WithCombinedWriteInterval(time.Millisecond)}
	if w.wc {
		fsto = []fstree.Option{fstree.WithCombinedCountLimit(1)}
	}
	sh, err := stor.OpenShard(stor.ShardCfg{
		Dir: w.dir, Epoch: w.ep, WriteCache: w.wc, MetaOpts: mopts,
		FSTOpts: fsto,
		Extra:   []shard.Option{shard.WithExpiredObjectsCallback(w.expiredCallback)},
	})
	if err != nil {
		ev.Inconclusive("open shard: %v", err)
	}
	w.sh = sh
	w.gcEpoch = 0
}

// enginePut is what engine.putToShard does: existence check, then Put.
// Returns (reached the shard's Put, error).
func (w *world) enginePut(s uni.Spec) (bool, error) {
	obj := uni.Build(s)
	ex, err := w.sh.Exists(obj.Address(), false)
	if err != nil {
		return false, err
	}
	if ex {
		return false, nil
	}
	return true, w.sh.Put(obj, nil)
}

func errClass(err error) string {
	switch {
	case err == nil:
		return "ok"
	case errors.Is(err, apistatus.ErrObjectLocked):
		return "ObjectLocked"
	case errors.Is(err, apistatus.ErrObjectAlreadyRemoved):
		return "AlreadyRemoved"
	case errors.Is(err, shard.ErrLockObjectRemoval):
		return "LockObjectRemoval"
	case errors.Is(err, apistatus.ErrLockNonRegularObject):
		return "LockNonRegular"
	case errors.Is(err, meta.ErrObjectIsExpired):
		return "Expired"
	case errors.Is(err, apistatus.ErrObjectNotFound):
		return "NotFound"
	}
	return "other(" + err.Error() + ")"
}

func (w *world) genExp(lbl string) int {
	t := w.t
	switch rapid.IntRange(0, 5).Draw(t, lbl+"-mode") {
	case 0, 1:
		return -1
	case 2:
		return rapid.IntRange(0, 14).Draw(t, lbl)
	default:
		lo := int(w.metaEpoch) - 1
		if lo < 0 {
			lo = 0
		}
		return rapid.IntRange(lo, int(w.metaEpoch)+3).Draw(t, lbl)
	}
}

// pickTarget prefers ids that make the step interesting for the given kind.
func (w *world) pickTarget(c, self int, kind string) int {
	t := w.t
	var good []int
	lo, hi := idRange(c)
	for i := lo; i < hi; i++ {
		if i == self {
			continue
		}
		m := w.objs[key{c, i}]
		if m == nil || !m.hasSpec {
			continue
		}
		switch kind {
		case uni.Lock:
			if m.spec.Kind == uni.Regular {
				good = append(good, i)
				if live, _ := w.locks(key{c, i}); live {
					good = append(good, i, i) // second lock on the same object
				}
			}
		case uni.Tombstone:
			live, maybe := w.locks(key{c, i})
			if m.spec.Kind == uni.Regular || m.spec.Kind == uni.Lock {
				good = append(good, i)
				if live || maybe {
					good = append(good, i, i)
				}
			}
		}
	}
	if len(good) > 0 && rapid.IntRange(0, 9).Draw(t, "tgt-known") < 8 {
		return rapid.SampledFrom(good).Draw(t, "tgt")
	}
	v := rapid.IntRange(lo, hi-2).Draw(t, "tgt-any")
	if v >= self {
		v++
	}
	return v
}

// freshIDs: ids of container c that neither have a model entry nor are the
// target of any known spec.
func (w *world) freshIDs(c int) []int {
	isTarget := map[int]bool{}
	for k, m := range w.objs {
		if k.c == c && m.hasSpec && m.spec.Kind != uni.Regular {
			isTarget[m.spec.Target] = true
		}
	}
	lo, hi := idRange(c)
	var fresh []int
	for i := lo; i < hi; i++ {
		if w.objs[key{c, i}] == nil && !isTarget[i] {
			fresh = append(fresh, i)
		}
	}
	return fresh
}

// hasExpiredLock: some accepted LOCK for k has expired at the metabase epoch
// (it may still be stored until GC collects it).
func (w *world) hasExpiredLock(k key) bool {
	for lk, m := range w.objs {
		if m.hasSpec && m.spec.Kind == uni.Lock && lk.c == k.c && m.spec.Target == k.i && m.putOK && expired(m.spec.Exp, w.metaEpoch) {
			return true
		}
	}
	return false
}

// actLockTombed sends a NEW LOCK for an object that certainly is tombstoned,
// preferring objects that still have an expired (possibly uncollected) lock:
// invariant (3) must reject it whatever old locks are around.
func (w *world) actLockTombed() {
	t := w.t
	var tgts []int
	for i := 0; i < nObj; i++ {
		k := keyOf(i)
		if !w.tombstonedCertain(k) {
			continue
		}
		if m := w.objs[k]; m != nil && m.hasSpec && m.spec.Kind != uni.Regular {
			continue
		}
		tgts = append(tgts, i)
		if w.hasExpiredLock(k) {
			tgts = append(tgts, i, i, i)
		}
	}
	if len(tgts) == 0 {
		t.Skip("nothing is certainly tombstoned")
	}
	tg := keyOf(rapid.SampledFrom(tgts).Draw(t, "tombstoned-target"))
	fresh := w.freshIDs(tg.c)
	if len(fresh) == 0 {
		t.Skip("no fresh id")
	}
	k := key{tg.c, rapid.SampledFrom(fresh).Draw(t, "lock-id")}
	m := w.get(k)
	m.spec = uni.Spec{Kind: uni.Lock, Cnr: k.c, ID: k.i, Exp: int(w.metaEpoch) + rapid.IntRange(0, 4).Draw(t, "exp"), Target: tg.i, Parent: -1, ParentExp: -1, First: -1}
	m.hasSpec = true
	if w.hasExpiredLock(tg) {
		w.labels["new-lock-for-tombstoned-with-expired-lock"] = true
	}
	w.putKnown(k)
}

// actTombLocked aims a new TOMBSTONE at an object that currently has a lock.
func (w *world) actTombLocked() {
	t := w.t
	var tgts []int
	for i := 0; i < nObj; i++ {
		if live, maybe := w.locks(keyOf(i)); live || maybe {
			tgts = append(tgts, i)
		} else if w.hasExpiredLock(keyOf(i)) {
			// the lock has expired (and may still be stored): the tombstone is admissible now
			tgts = append(tgts, i)
		}
	}
	if len(tgts) == 0 {
		t.Skip("nothing is locked")
	}
	tg := keyOf(rapid.SampledFrom(tgts).Draw(t, "locked-target"))
	fresh := w.freshIDs(tg.c)
	if len(fresh) == 0 {
		t.Skip("no fresh id")
	}
	k := key{tg.c, rapid.SampledFrom(fresh).Draw(t, "tomb-id")}
	m := w.get(k)
	m.spec = uni.Spec{Kind: uni.Tombstone, Cnr: k.c, ID: k.i, Exp: w.genExp("exp"), Target: tg.i, Parent: -1, ParentExp: -1, First: -1}
	m.hasSpec = true
	w.putKnown(k)
}

func (w *world) actPut() {
	t := w.t
	k := keyOf(rapid.IntRange(0, nObj-1).Draw(t, "id"))
	m := w.get(k)
	if !m.hasSpec {
		kinds := []string{uni.Regular, uni.Regular, uni.Regular, uni.Lock, uni.Lock, uni.Lock, uni.Tombstone, uni.Tombstone}
		for tk := range w.lockAccepted {
			if tk.c == k.c && !w.threatened[tk] {
				kinds = append(kinds, uni.Tombstone, uni.Tombstone, uni.Tombstone)
				break
			}
		}
		kind := rapid.SampledFrom(kinds).Draw(t, "kind")
		s := uni.Spec{Kind: kind, Cnr: k.c, ID: k.i, Exp: w.genExp("exp"), Parent: -1, ParentExp: -1, First: -1}
		if kind == uni.Regular {
			s.PayloadLen = rapid.SampledFrom([]int{0, 1, 7, 64}).Draw(t, "len")
		} else {
			s.Target = w.pickTarget(k.c, k.i, kind)
		}
		m.spec, m.hasSpec = s, true
	}
	w.putKnown(k)
}

// putKnown puts the object whose spec is already fixed and judges the outcome.
func (w *world) putKnown(k key) {
	m := w.objs[k]
	s := m.spec
	tk := key{s.Cnr, s.Target}

	// preconditions the model is certain about, evaluated BEFORE the call
	var (
		mustLocked, mustRemoved, mustLockRemoval, expTombEdge bool
	)
	switch s.Kind {
	case uni.Tombstone:
		live, _ := w.locks(tk)
		mustLocked = live && !w.lockCertainlyStored(tk)
		mustLockRemoval = w.lockCertainlyStored(tk)
	case uni.Lock:
		mustRemoved = w.tombstonedCertain(tk)
		if tm := w.objs[tk]; mustRemoved && tm != nil && tm.hasSpec && expired(tm.spec.Exp, w.metaEpoch) {
			expTombEdge = true
		}
	}

	reached, err := w.enginePut(s)
	w.logf("put %s @meta-epoch %d -> reached=%v %s", s, w.metaEpoch, reached, errClass(err))

	if !reached {
		// already stored, or the existence check itself failed (e.g. the id carries a
		// garbage mark): the engine does not call Put then, nothing to judge
		return
	}
	switch s.Kind {
	case uni.Tombstone:
		if live, maybe := w.locks(tk); live || maybe {
			w.labels["tombstone-on-locked"] = true
			if w.lockAccepted[tk] {
				w.threatened[tk] = true
			}
		}
		if mustLocked {
			sysTarget := false
			if tm := w.objs[tk]; tm != nil && tm.hasSpec && tm.spec.Kind != uni.Regular {
				// a locked ID that turned out to be a system object: the type check may
				// reject first ("target is another TS" / lock removal) – any rejection is fine
				sysTarget = true
			}
			switch {
			case sysTarget:
				if err == nil {
					w.fail("(1) TOMBSTONE %s for live-locked system object %s was accepted", s, tk)
				}
			case errors.Is(err, apistatus.ErrObjectLocked):
			case w.shadowed(tk):
				w.fail("(1) TOMBSTONE %s for %s accepted/mis-rejected (%s) although a live lock exists next to a force-marked one [%s]", s, tk, errClass(err), fpMultiLock)
			default:
				w.fail("(1) TOMBSTONE %s for live-locked %s: want ObjectLocked, got %s", s, tk, errClass(err))
			}
			exp := ^uint64(0)
			for lk, lm := range w.objs {
				if lm.hasSpec && lm.spec.Kind == uni.Lock && lk.c == tk.c && lm.spec.Target == tk.i && lm.putOK && !lm.forced && lm.spec.Exp >= 0 && !expired(lm.spec.Exp, w.metaEpoch) {
					if uint64(lm.spec.Exp) < exp {
						exp = uint64(lm.spec.Exp)
					}
				}
			}
			w.tombRejected[tk] = exp
			w.labels["tombstone-rejected-by-lock"] = true
		}
		if mustLockRemoval {
			if err == nil {
				w.fail("(4) TOMBSTONE %s targets stored LOCK %s but was accepted", s, tk)
			}
			if !errors.Is(err, shard.ErrLockObjectRemoval) && !errors.Is(err, apistatus.ErrObjectLocked) {
				w.fail("(4) TOMBSTONE %s targets stored LOCK %s: want lock-removal rejection, got %s", s, tk, errClass(err))
			}
			w.labels["tombstone-on-lock-object"] = true
		}
		if err == nil && reached {
			m.putOK = true
			w.get(tk).tombed = true
		}
	case uni.Lock:
		if mustRemoved {
			if err == nil && expTombEdge {
				w.fail("(3) LOCK %s accepted although target %s is tombstoned (and expired) [%s]", s, tk, fpExpTomb)
			} else if !errors.Is(err, apistatus.ErrObjectAlreadyRemoved) {
				w.fail("(3) LOCK %s for tombstoned %s: want ObjectAlreadyRemoved, got %s", s, tk, errClass(err))
			}
			w.labels["lock-on-tombstoned"] = true
		}
		if err == nil && reached {
			m.putOK = true
			w.lockAccepted[tk] = true
			w.labels["lock-accepted"] = true
			if tm := w.objs[tk]; tm == nil || !tm.putOK {
				w.labels["lock-before-target"] = true
			}
		}
	default:
		if err == nil && reached {
			m.putOK = true
			m.present = true
		}
	}
}

func (w *world) actMark() {
	t := w.t
	k := keyOf(rapid.IntRange(0, nObj-1).Draw(t, "id"))
	// mostly regular objects; marking locks / tombstones is the rarer operator action
	if m := w.objs[k]; m != nil && m.hasSpec && m.spec.Kind != uni.Regular && rapid.IntRange(0, 3).Draw(t, "mark-sys") != 0 {
		t.Skip("skip marking a system object this time")
	}
	mark := meta.GarbageMarkDefault
	if rapid.Bool().Draw(t, "redundant") {
		mark = meta.GarbageMarkRedundant
	}
	err := w.sh.MarkGarbage(uni.Cnr(k.c), []oid.ID{uni.OID(k.i)}, mark)
	w.logf("mark-garbage %s mark=%d -> %s", k, mark, errClass(err))
	if err != nil {
		w.fail("MarkGarbage(%s) failed: %v", k, err)
	}
	m := w.get(k)
	w.noteMark(m, mark)
	if m.hasSpec && m.spec.Kind == uni.Lock {
		w.labels["forced-mark-on-lock"] = true
		if !m.defMark && m.putOK && !expired(m.spec.Exp, w.metaEpoch) {
			w.labels["lock-redundant-marked"] = true
		}
	}
	if live, _ := w.locks(k); live {
		w.labels["forced-mark-on-locked"] = true
	}
}

// noteMark records a successful MarkGarbage in the model. A default mark
// overrides a redundant one, a redundant mark never overrides a default one.
func (w *world) noteMark(m *mobj, mark meta.GarbageMark) {
	if !m.forced {
		m.gcSince = false
	}
	m.forced = true
	if mark == meta.GarbageMarkDefault {
		m.defMark = true
	}
}

// actMarkLock force-marks one of several live locks of the same object (an
// operator dropping one LOCK object); the others must keep protecting it.
func (w *world) actMarkLock() {
	t := w.t
	mark := meta.GarbageMarkDefault
	if rapid.Bool().Draw(t, "redundant") {
		mark = meta.GarbageMarkRedundant
	}
	var cands []int
	for i := 0; i < nObj; i++ {
		k := keyOf(i)
		m := w.objs[k]
		if m == nil || !m.hasSpec || m.spec.Kind != uni.Lock || !m.putOK || m.forced || expired(m.spec.Exp, w.metaEpoch) {
			continue
		}
		n := 0
		for j := 0; j < nObj; j++ {
			o := w.objs[keyOf(j)]
			if o != nil && o.hasSpec && o.spec.Kind == uni.Lock && cnrOf(j) == k.c && o.spec.Target == m.spec.Target && o.putOK && !o.forced && !expired(o.spec.Exp, w.metaEpoch) {
				n++
			}
		}
		if n >= 2 {
			cands = append(cands, i)
		}
	}
	if len(cands) == 0 && mark == meta.GarbageMarkRedundant && rapid.Bool().Draw(t, "single") {
		// the policer drops a redundant copy of the only LOCK: it keeps protecting
		// until GC removes it
		for i := 0; i < nObj; i++ {
			m := w.objs[keyOf(i)]
			if m != nil && m.hasSpec && m.spec.Kind == uni.Lock && m.putOK && !m.forced && !expired(m.spec.Exp, w.metaEpoch) {
				cands = append(cands, i)
			}
		}
	}
	if len(cands) == 0 {
		// give a singly locked object a second lock first
		var single []int
		for i := 0; i < nObj; i++ {
			m := w.objs[keyOf(i)]
			if m != nil && m.hasSpec && m.spec.Kind == uni.Lock && m.putOK && !m.forced && !expired(m.spec.Exp, w.metaEpoch) {
				single = append(single, i)
			}
		}
		if len(single) == 0 {
			t.Skip("no live lock")
		}
		first := keyOf(rapid.SampledFrom(single).Draw(t, "first-lock"))
		fresh := w.freshIDs(first.c)
		if len(fresh) == 0 {
			t.Skip("no fresh id for a second lock")
		}
		second := key{first.c, rapid.SampledFrom(fresh).Draw(t, "second-lock")}
		sp := uni.Spec{Kind: uni.Lock, Cnr: second.c, ID: second.i, Exp: int(w.metaEpoch) + rapid.IntRange(0, 4).Draw(t, "exp2"),
			Target: w.objs[first].spec.Target, Parent: -1, ParentExp: -1, First: -1}
		m := w.get(second)
		m.spec, m.hasSpec = sp, true
		reached, err := w.enginePut(sp)
		w.logf("put %s @meta-epoch %d -> reached=%v %s (second lock)", sp, w.metaEpoch, reached, errClass(err))
		if !reached || err != nil {
			return
		}
		m.putOK = true
		w.lockAccepted[key{sp.Cnr, sp.Target}] = true
		cands = []int{first.i, second.i}
	}
	k := keyOf(rapid.SampledFrom(cands).Draw(t, "lock"))
	err := w.sh.MarkGarbage(uni.Cnr(k.c), []oid.ID{uni.OID(k.i)}, mark)
	w.logf("mark-garbage LOCK %s mark=%d (a lock of o%d) -> %s", k, mark, w.objs[k].spec.Target, errClass(err))
	if err != nil {
		w.fail("MarkGarbage(%s) failed: %v", k, err)
	}
	w.noteMark(w.objs[k], mark)
	w.labels["one-of-several-locks-dropped"] = true
	if mark == meta.GarbageMarkRedundant {
		w.labels["lock-redundant-marked"] = true
	}
}

func (w *world) noteExpiry(before uint64) {
	for k := range w.lockAccepted {
		m := w.objs[k]
		if m != nil && m.hasSpec && m.spec.Exp >= 0 && !expired(m.spec.Exp, before) && expired(m.spec.Exp, w.metaEpoch) {
			w.threatened[k] = true
			w.labels["locked-target-expired"] = true
		}
	}
}

func (w *world) actEpoch() {
	t := w.t
	d := uint64(rapid.IntRange(1, 3).Draw(t, "delta"))
	notify := rapid.IntRange(0, 3).Draw(t, "notify") != 0
	before := w.metaEpoch
	w.metaEpoch += d
	w.ep.Set(w.metaEpoch)
	w.noteExpiry(before)
	if notify {
		w.sh.VerifNewEpoch(w.metaEpoch)
		w.gcEpoch = w.metaEpoch
		if w.gcEpoch > w.maxGC {
			w.maxGC = w.gcEpoch
		}
		w.logf("epoch -> %d (GC notified)", w.metaEpoch)
	} else {
		w.labels["gc-epoch-lags"] = true
		w.logf("epoch -> %d (GC still at %d)", w.metaEpoch, w.gcEpoch)
	}
}

func (w *world) actNotify() {
	if w.gcEpoch == w.metaEpoch {
		w.t.Skip("GC epoch is current")
	}
	w.sh.VerifNewEpoch(w.metaEpoch)
	w.gcEpoch = w.metaEpoch
	if w.gcEpoch > w.maxGC {
		w.maxGC = w.gcEpoch
	}
	w.logf("GC notified of epoch %d", w.metaEpoch)
}

func (w *world) actGC() {
	n := rapid.IntRange(1, 3).Draw(w.t, "passes")
	// model first: what MAY be removed by these passes. Whatever carries a garbage
	// mark (also a redundant-marked LOCK) may be gone after the first pass, so it
	// stops counting as certain protection for the later passes of this action.
	for _, m := range w.objs {
		if m.forced {
			m.gcSince = true // the pass removes whatever carries a garbage mark
		}
	}
	for k, m := range w.objs {
		if !m.present {
			continue
		}
		if live, _ := w.locks(k); live {
			continue
		}
		if m.hasSpec && expired(m.spec.Exp, w.gcEpoch) {
			m.present = false
		}
	}
	for i := 0; i < n; i++ {
		w.sh.VerifGCPass()
	}
	w.logf("gc x%d @gc-epoch %d", n, w.gcEpoch)
	w.labels["gc"] = true
	if len(w.threatened) > 0 {
		w.gcAfterThreat = true
	}
	for _, exp := range w.tombRejected {
		if exp != ^uint64(0) && w.metaEpoch > exp {
			w.lockExpiredGap = true
		}
	}
}

func (w *world) actReopen() {
	if rapid.IntRange(0, 2).Draw(w.t, "really-reopen") != 0 {
		w.t.Skip("reopen only sometimes")
	}
	if err := w.sh.Close(); err != nil {
		w.fail("close: %v", err)
	}
	w.open()
	w.logf("reopen")
	w.labels["reopen"] = true
}

func (w *world) actSleep() {
	if !w.wc {
		w.t.Skip("no write-cache")
	}
	time.Sleep(3 * time.Second) // fake time: lets the write-cache flush
	w.logf("sleep 3s (write-cache flush)")
	w.labels["wc-flush-window"] = true
}

// actRace: LOCK and TOMBSTONE for the same fresh regular object concurrently.
func (w *world) actRace() {
	t := w.t
	c := rapid.IntRange(0, nCnr-1).Draw(t, "cnr")
	var fresh []int
	lo, hi := idRange(c)
	for i := lo; i < hi; i++ {
		if m := w.objs[key{c, i}]; m == nil || (!m.hasSpec && !m.forced && !m.tombed) {
			fresh = append(fresh, i)
		}
	}
	// ids that are targets of existing specs are not fresh either
	isTarget := map[int]bool{}
	for k, m := range w.objs {
		if k.c == c && m.hasSpec && m.spec.Kind != uni.Regular {
			isTarget[m.spec.Target] = true
		}
	}
	var ids []int
	for _, i := range fresh {
		if !isTarget[i] {
			ids = append(ids, i)
		}
	}
	if len(ids) < 3 {
		t.Skip("not enough fresh ids for a race")
	}
	perm := rapid.Permutation(ids).Draw(t, "race-ids")
	o, l, ts := perm[0], perm[1], perm[2]
	future := func(lbl string) int {
		if rapid.Bool().Draw(t, lbl+"-none") {
			return -1
		}
		return int(w.metaEpoch) + rapid.IntRange(0, 3).Draw(t, lbl)
	}
	so := uni.Spec{Kind: uni.Regular, Cnr: c, ID: o, Exp: future("oexp"), PayloadLen: 7, Parent: -1, ParentExp: -1, First: -1}
	sl := uni.Spec{Kind: uni.Lock, Cnr: c, ID: l, Exp: future("lexp"), Target: o, Parent: -1, ParentExp: -1, First: -1}
	st := uni.Spec{Kind: uni.Tombstone, Cnr: c, ID: ts, Exp: w.genExp("texp"), Target: o, Parent: -1, ParentExp: -1, First: -1}
	if _, err := w.enginePut(so); err != nil {
		w.fail("race: put of fresh %s failed: %v", so, err)
	}
	mo, ml, mt := w.get(key{c, o}), w.get(key{c, l}), w.get(key{c, ts})
	mo.spec, mo.hasSpec, mo.putOK, mo.present = so, true, true, true
	ml.spec, ml.hasSpec = sl, true
	mt.spec, mt.hasSpec = st, true

	var (
		wg         sync.WaitGroup
		errL, errT error
		start      = make(chan struct{})
	)
	wg.Add(2)
	go func() { defer wg.Done(); <-start; _, errL = w.enginePut(sl) }()
	go func() { defer wg.Done(); <-start; _, errT = w.enginePut(st) }()
	close(start)
	wg.Wait()
	w.logf("race on %s: LOCK %s -> %s || TOMBSTONE %s -> %s", key{c, o}, sl, errClass(errL), st, errClass(errT))
	w.labels["race"] = true

	gone := func(k key, what string) {
		ex, err := w.sh.Exists(k.addr(), true)
		if err != nil || ex {
			w.fail("race: rejected %s %s left metadata behind: Exists=%v err=%v", what, k, ex, err)
		}
		if _, err := w.sh.Get(k.addr(), true); err == nil {
			w.fail("race: rejected %s %s left its blob behind", what, k)
		}
	}
	switch {
	case errL == nil && errT == nil:
		w.fail("race: both LOCK and TOMBSTONE for %s were accepted – no sequential order allows that", key{c, o})
	case errL == nil:
		if !errors.Is(errT, apistatus.ErrObjectLocked) {
			w.fail("race: lock won, tombstone must be rejected with ObjectLocked, got %s", errClass(errT))
		}
		ml.putOK = true
		w.lockAccepted[key{c, o}] = true
		w.threatened[key{c, o}] = true
		w.labels["race:lock-won"] = true
		gone(key{c, ts}, "TOMBSTONE")
	case errT == nil:
		if !errors.Is(errL, apistatus.ErrObjectAlreadyRemoved) {
			w.fail("race: tombstone won, lock must be rejected with ObjectAlreadyRemoved, got %s", errClass(errL))
		}
		mt.putOK = true
		mo.tombed = true
		w.labels["race:tombstone-won"] = true
		gone(key{c, l}, "LOCK")
		if ex, err := w.sh.Exists(key{c, o}.addr(), false); !errors.Is(err, apistatus.ErrObjectAlreadyRemoved) {
			w.fail("race: tombstone won but Exists(%s) = %v, %v (want ObjectAlreadyRemoved)", key{c, o}, ex, err)
		}
	default:
		w.fail("race: both LOCK (%s) and TOMBSTONE (%s) were rejected", errClass(errL), errClass(errT))
	}
}

func (w *world) invariants() {
	for c := 0; c < nCnr; c++ {
		lo, hi := idRange(c)
		for i := lo; i < hi; i++ {
			k := key{c, i}
			live, maybe := w.locks(k)
			locked, err := w.sh.IsLocked(k.addr())
			if err != nil {
				w.fail("IsLocked(%s): %v", k, err)
			}
			if live && !locked {
				if maybe {
					w.fail("(5) %s has a live lock (and a force-marked one) but IsLocked=false [%s]", k, fpMultiLock)
				}
				w.fail("(5) %s has a live lock but IsLocked=false (meta epoch %d)", k, w.metaEpoch)
			}
			if !live && !maybe && locked {
				w.fail("(5) %s has no live lock but IsLocked=true (meta epoch %d)", k, w.metaEpoch)
			}
			if !live || w.exempt(k) {
				continue
			}
			m := w.objs[k]
			ex, err := w.sh.Exists(k.addr(), false)
			if err != nil {
				w.fail("(2) live-locked %s: Exists reports %s (%v)", k, errClass(err), err)
			}
			if m == nil || !m.present {
				continue
			}
			w.labels["protected-present-checked"] = true
			if w.onlyRedundantLocks(k) {
				w.labels["protected-by-redundant-marked-lock"] = true
			}
			if expired(m.spec.Exp, w.metaEpoch) {
				w.labels["protected-while-expired"] = true
			}
			if !ex {
				w.fail("(2) live-locked stored %s: Exists=false", k)
			}
			got, err := w.sh.Get(k.addr(), false)
			if err != nil {
				w.fail("(2) live-locked stored %s: Get failed: %s (%v)", k, errClass(err), err)
			}
			if want := uni.Build(m.spec); !bytes.Equal(got.Payload(), want.Payload()) || got.Type() != want.Type() {
				w.fail("(2) live-locked stored %s: Get returned different content: got type=%s id=%s cnr=%s payload=%x, want type=%s payload=%x", k, got.Type(), got.GetID(), got.GetContainerID(), got.Payload(), want.Type(), want.Payload())
			}
		}
	}
}

func TestC07LockProtects(t *testing.T) {
	rec := ev.New("C07", "lock-protects")
	defer rec.Flush()
	bubble.Check(t, func(t *rapid.T) {
		dir, err := os.MkdirTemp("", "c07")
		if err != nil {
			ev.Inconclusive("mkdtemp: %v", err)
		}
		defer os.RemoveAll(dir)
		w := &world{t: t, rec: rec, dir: dir, ep: &stor.Epoch{}, objs: map[key]*mobj{},
			lockAccepted: map[key]bool{}, threatened: map[key]bool{}, tombRejected: map[key]uint64{}, labels: map[string]bool{}}
		w.wc = rapid.IntRange(0, 3).Draw(t, "write-cache") == 0
		w.slow = rapid.IntRange(0, 3).Draw(t, "slow-batch") == 0
		w.naive = rapid.IntRange(0, 3).Draw(t, "naive-callback") == 0
		w.metaEpoch = uint64(rapid.IntRange(0, 3).Draw(t, "epoch0"))
		w.ep.Set(w.metaEpoch)
		w.open()
		defer func() { _ = w.sh.Close() }()
		if w.metaEpoch > 0 && rapid.Bool().Draw(t, "notify0") {
			w.sh.VerifNewEpoch(w.metaEpoch)
			w.gcEpoch, w.maxGC = w.metaEpoch, w.metaEpoch
		}
		defer func() {
			nontrivial := len(w.lockAccepted) > 0 && len(w.threatened) > 0 && w.gcAfterThreat
			ls := []string{}
			for l := range w.labels {
				ls = append(ls, l)
			}
			if w.wc {
				ls = append(ls, "write-cache")
			}
			if w.naive {
				ls = append(ls, "naive-expired-callback")
			}
			if w.lockExpiredGap {
				ls = append(ls, "lock-expired-between-tombstone-and-gc")
			}
			if nontrivial {
				ls = append(ls, "nontrivial")
			}
			rec.Case(nontrivial, strings.Join(w.ops, ";"), ls...)
			if nontrivial && rec.WantSample() {
				rec.Sample(w.ops)
			}
		}()
		t.Repeat(map[string]func(*rapid.T){
			"put":    func(*rapid.T) { w.actPut() },
			"put2":   func(*rapid.T) { w.actPut() },
			"put3":   func(*rapid.T) { w.actPut() },
			"tomb-l": func(*rapid.T) { w.actTombLocked() },
			"lock-t": func(*rapid.T) { w.actLockTombed() },
			"mark":   func(*rapid.T) { w.actMark() },
			"mark-l": func(*rapid.T) { w.actMarkLock() },
			"epoch":  func(*rapid.T) { w.actEpoch() },
			"notify": func(*rapid.T) { w.actNotify() },
			"gc":     func(*rapid.T) { w.actGC() },
			"gc2":    func(*rapid.T) { w.actGC() },
			"reopen": func(*rapid.T) { w.actReopen() },
			"sleep":  func(*rapid.T) { w.actSleep() },
			"race":   func(*rapid.T) { w.actRace() },
			"":       func(*rapid.T) { w.invariants() },
		})
	})
}

package c07

import (
	"os"
	"testing"

	meta "github.com/nspcc-dev/neofs-node/pkg/local_object_storage/metabase"
	"github.com/nspcc-dev/neofs-node/verifharness/stor"
	"github.com/nspcc-dev/neofs-node/verifharness/uni"
	oid "github.com/nspcc-dev/neofs-sdk-go/object/id"
)

func sp(kind string, id, exp, target int) uni.Spec {
	return uni.Spec{Kind: kind, Cnr: 0, ID: id, Exp: exp, Target: target, PayloadLen: 7, Parent: -1, ParentExp: -1, First: -1}
}

func TestReproMultiLock(t *testing.T) {
	dir, _ := os.MkdirTemp("", "r")
	defer os.RemoveAll(dir)
	ep := &stor.Epoch{}
	sh, err := stor.OpenShard(stor.ShardCfg{Dir: dir, Epoch: ep})
	if err != nil {
		t.Fatal(err)
	}
	defer sh.Close()
	put := func(s uni.Spec) error { return sh.Put(uni.Build(s), nil) }
	t.Log("put o0:", put(sp(uni.Regular, 0, -1, 0)))
	t.Log("put L1->o0:", put(sp(uni.Lock, 1, 100, 0)))
	t.Log("put L2->o0:", put(sp(uni.Lock, 2, 100, 0)))
	l, err := sh.IsLocked(uni.Addr(0, 0))
	t.Log("IsLocked:", l, err)
	t.Log("MarkGarbage(L1):", sh.MarkGarbage(uni.Cnr(0), []oid.ID{uni.OID(1)}, meta.GarbageMarkDefault))
	l, err = sh.IsLocked(uni.Addr(0, 0))
	t.Log("IsLocked after marking L1 (L2 untouched):", l, err)
	t.Log("put T3->o0:", put(sp(uni.Tombstone, 3, 100, 0)))
	_, err = sh.Get(uni.Addr(0, 0), false)
	t.Log("Get o0:", err)
}

func TestReproExpTomb(t *testing.T) {
	dir, _ := os.MkdirTemp("", "r")
	defer os.RemoveAll(dir)
	ep := &stor.Epoch{}
	sh, err := stor.OpenShard(stor.ShardCfg{Dir: dir, Epoch: ep})
	if err != nil {
		t.Fatal(err)
	}
	defer sh.Close()
	put := func(s uni.Spec) error { return sh.Put(uni.Build(s), nil) }
	ep.Set(5)
	t.Log("put o0 exp=5:", put(sp(uni.Regular, 0, 5, 0)))
	t.Log("put T1->o0:", put(sp(uni.Tombstone, 1, 100, 0)))
	_, err = sh.Get(uni.Addr(0, 0), false)
	t.Log("Get o0 @5:", err)
	t.Log("put L2->o0 @5 (must be AlreadyRemoved):", put(sp(uni.Lock, 2, 100, 0)))
	ep.Set(6)
	t.Log("put L3->o0 @6:", put(sp(uni.Lock, 3, 100, 0)))
	_, err = sh.Get(uni.Addr(0, 0), false)
	t.Log("Get o0 @6 after lock:", err)
	l, _ := sh.IsLocked(uni.Addr(0, 0))
	t.Log("IsLocked:", l)
}

package c07

// Engine-level unit of C07: expiry handling never physically deletes an object
// while an unexpired, non-removed LOCK for it is held – also when the LOCK is
// stored between the shard's collection of expired addresses and the engine's
// processing of that list (processExpiredObjects re-checks locks engine-wide).
//
// A real engine with 1..3 shards (1 shard in half of the cases) is driven with
// puts of expiring objects, LOCKs, epoch ticks and synchronous GC passes. The
// shards' expired-objects callback (installed by the engine) is wrapped through
// the additive shim VerifWrapExpiredCallback so that a scheduled step – the Put
// of a LOCK for one of the just collected objects, as a concurrent client would
// do – runs exactly between collection and processing.
//
// Model: liveLock(X) = an accepted LOCK for X that is unexpired at the current
// epoch; present(X) = X was stored and no GC pass has run since while X was
// expired and unlocked at the moment its list was processed. Invariant after
// every step: liveLock(X) ∧ present(X) ⇒ engine.IsLocked(X) ∧ engine.Get(X)
// returns the bytes.

import (
	"bytes"
	"context"
	"fmt"
	"os"
	"sort"
	"strings"
	"testing"

	"github.com/nspcc-dev/neofs-node/pkg/local_object_storage/blobstor/fstree"
	"github.com/nspcc-dev/neofs-node/pkg/local_object_storage/shard"
	"github.com/nspcc-dev/neofs-node/verifharness/ev"
	"github.com/nspcc-dev/neofs-node/verifharness/stor"
	"github.com/nspcc-dev/neofs-node/verifharness/uni"
	oid "github.com/nspcc-dev/neofs-sdk-go/object/id"
	"pgregory.net/rapid"
)

const (
	engObjs  = 6  // ids 0..5: regular objects
	engFirst = 6  // ids 6..11: LOCK objects
	engLast  = 11 //
)

type engWorld struct {
	t      *rapid.T
	e      *stor.Engine
	shards []*shard.Shard
	ep     *stor.Epoch
	epoch  uint64

	spec    map[int]uni.Spec // by id
	putOK   map[int]bool
	present map[int]bool
	ops     []string

	// pending is run once, inside the next non-empty expired-objects callback
	pending    func(collected []oid.Address)
	interleave int // times a LOCK was accepted between collect and process for a collected object
}

func (w *engWorld) logf(f string, a ...any) { w.ops = append(w.ops, fmt.Sprintf(f, a...)) }

func (w *engWorld) fail(f string, a ...any) {
	w.t.Fatalf("%s\nconfig: shards=%d\nhistory:\n  %s", fmt.Sprintf(f, a...), len(w.shards), strings.Join(w.ops, "\n  "))
}

func (w *engWorld) liveLock(x int) bool {
	for i := engFirst; i <= engLast; i++ {
		if s, ok := w.spec[i]; ok && w.putOK[i] && s.Target == x && !expired(s.Exp, w.epoch) {
			return true
		}
	}
	return false
}

func (w *engWorld) freshLockID() (int, bool) {
	for i := engFirst; i <= engLast; i++ {
		if _, used := w.spec[i]; !used {
			return i, true
		}
	}
	return 0, false
}

func (w *engWorld) putLock(id, target, exp int, note string) bool {
	s := uni.Spec{Kind: uni.Lock, Cnr: 0, ID: id, Exp: exp, Target: target, Parent: -1, ParentExp: -1, First: -1}
	w.spec[id] = s
	err := w.e.E.Put(context.Background(), uni.Build(s), nil)
	w.logf("put %s @%d%s -> %s", s, w.epoch, note, errClass(err))
	if err == nil {
		w.putOK[id] = true
	}
	return err == nil
}

func (w *engWorld) actPutObj() {
	t := w.t
	var free []int
	for i := 0; i < engObjs; i++ {
		if _, used := w.spec[i]; !used {
			free = append(free, i)
		}
	}
	if len(free) == 0 {
		t.Skip("all objects used")
	}
	id := rapid.SampledFrom(free).Draw(t, "obj")
	exp := int(w.epoch) + rapid.IntRange(0, 2).Draw(t, "exp")
	s := uni.Spec{Kind: uni.Regular, Cnr: 0, ID: id, Exp: exp, PayloadLen: 7, Parent: -1, ParentExp: -1, First: -1}
	w.spec[id] = s
	err := w.e.E.Put(context.Background(), uni.Build(s), nil)
	w.logf("put %s @%d -> %s", s, w.epoch, errClass(err))
	if err != nil {
		w.fail("put of a fresh unexpired object failed: %v", err)
	}
	w.putOK[id], w.present[id] = true, true
}

func (w *engWorld) actPutLock() {
	t := w.t
	id, ok := w.freshLockID()
	if !ok {
		t.Skip("no lock ids left")
	}
	target := rapid.IntRange(0, engObjs-1).Draw(t, "target")
	w.putLock(id, target, int(w.epoch)+rapid.IntRange(0, 3).Draw(t, "lexp"), "")
}

func (w *engWorld) actEpoch() {
	w.epoch += uint64(rapid.IntRange(1, 2).Draw(w.t, "delta"))
	w.ep.Set(w.epoch)
	for _, sh := range w.shards {
		sh.VerifNewEpoch(w.epoch)
	}
	w.logf("epoch -> %d", w.epoch)
}

// actGC: one GC pass on every shard; with `race`, a LOCK for one of the expired
// unlocked objects is put between collection and processing.
func (w *engWorld) actGC(race bool) {
	t := w.t
	var cand []int // present, expired, unlocked: the pass may delete them
	for i := 0; i < engObjs; i++ {
		if w.present[i] && expired(w.spec[i].Exp, w.epoch) && !w.liveLock(i) {
			cand = append(cand, i)
		}
	}
	saved := -1
	if race {
		if len(cand) == 0 {
			t.Skip("nothing to collect")
		}
		lid, ok := w.freshLockID()
		if !ok {
			t.Skip("no lock ids left")
		}
		target := rapid.SampledFrom(cand).Draw(t, "race-target")
		lexp := int(w.epoch) + rapid.IntRange(0, 3).Draw(t, "race-lexp")
		w.pending = func(collected []oid.Address) {
			in := false
			for _, a := range collected {
				if a == uni.Addr(0, target) {
					in = true
				}
			}
			note := " (before the shard collected it)"
			if in {
				note = " (BETWEEN collection and processing of the expired list)"
			}
			if w.putLock(lid, target, lexp, note) {
				saved = target
				if in {
					w.interleave++
				}
			}
		}
	}
	for _, sh := range w.shards {
		sh.VerifGCPass()
	}
	if w.pending != nil {
		// no shard reported anything (nothing was collected): the lock simply was not sent
		w.pending = nil
	}
	w.logf("gc pass @%d", w.epoch)
	for _, i := range cand {
		if i != saved {
			w.present[i] = false
		}
	}
}

func (w *engWorld) invariants() {
	ctx := context.Background()
	for i := 0; i < engObjs; i++ {
		if !w.present[i] || !w.liveLock(i) {
			continue
		}
		a := uni.Addr(0, i)
		locked, err := w.e.E.IsLocked(ctx, a)
		if err != nil || !locked {
			w.fail("c0/o%d has a live lock but engine.IsLocked = %v, %v (epoch %d)", i, locked, err, w.epoch)
		}
		got, err := w.e.E.Get(ctx, a)
		if err != nil {
			w.fail("c0/o%d is protected by a live lock (IsLocked=true) but expiry handling removed it: Get = %s (%v) (epoch %d)", i, errClass(err), err, w.epoch)
		}
		if !bytes.Equal(got.Payload(), uni.Build(w.spec[i]).Payload()) {
			w.fail("c0/o%d reads back differently", i)
		}
	}
}

func TestC07EngineExpiry(t *testing.T) {
	rec := ev.New("C07", "engine-expiry")
	defer rec.Flush()
	rapid.Check(t, func(t *rapid.T) {
		dir, err := os.MkdirTemp("", "c07e")
		if err != nil {
			ev.Inconclusive("mkdtemp: %v", err)
		}
		defer os.RemoveAll(dir)
		n := rapid.SampledFrom([]int{1, 1, 1, 2, 3}).Draw(t, "shards")
		w := &engWorld{t: t, ep: &stor.Epoch{}, spec: map[int]uni.Spec{}, putOK: map[int]bool{}, present: map[int]bool{}}
		w.epoch = uint64(rapid.IntRange(1, 3).Draw(t, "epoch0"))
		w.ep.Set(w.epoch)
		var cfgs []stor.ShardCfg
		for i := 0; i < n; i++ {
			cfgs = append(cfgs, stor.ShardCfg{Dir: fmt.Sprintf("%s/s%d", dir, i), Epoch: w.ep,
				FSTOpts: []fstree.Option{fstree.WithCombinedCountLimit(1)}})
		}
		e, err := stor.OpenEngine(cfgs)
		if err != nil {
			ev.Inconclusive("open engine: %v", err)
		}
		w.e = e
		defer e.E.Close()
		m := e.E.VerifShards()
		ids := make([]string, 0, len(m))
		for k := range m {
			ids = append(ids, k)
		}
		sort.Strings(ids)
		for _, k := range ids {
			sh := m[k]
			sh.VerifWrapExpiredCallback(func(orig shard.ExpiredObjectsCallback) shard.ExpiredObjectsCallback {
				return func(addrs []oid.Address) {
					if p := w.pending; p != nil {
						w.pending = nil
						p(addrs)
					}
					if orig != nil {
						orig(addrs) // engine.processExpiredObjects
					}
				}
			})
			sh.VerifNewEpoch(w.epoch)
			w.shards = append(w.shards, sh)
		}
		defer func() {
			ls := []string{fmt.Sprintf("shards-%d", n)}
			if w.interleave > 0 {
				ls = append(ls, "lock-between-collect-and-process")
				if n == 1 {
					ls = append(ls, "single-shard&lock-between-collect-and-process")
				}
			}
			rec.Case(w.interleave > 0, fmt.Sprintf("%d|%s", n, strings.Join(w.ops, ";")), ls...)
			if w.interleave > 0 && rec.WantSample() {
				rec.Sample(map[string]any{"shards": n, "ops": w.ops})
			}
		}()
		t.Repeat(map[string]func(*rapid.T){
			"put-obj":  func(*rapid.T) { w.actPutObj() },
			"put-obj2": func(*rapid.T) { w.actPutObj() },
			"put-lock": func(*rapid.T) { w.actPutLock() },
			"epoch":    func(*rapid.T) { w.actEpoch() },
			"gc":       func(*rapid.T) { w.actGC(false) },
			"gc-race":  func(*rapid.T) { w.actGC(true) },
			"gc-race2": func(*rapid.T) { w.actGC(true) },
			"":         func(*rapid.T) { w.invariants() },
		})
	})
}

package c35

// C35 (b) on a REAL chain: a single-node inner ring in local consensus mode
// (innerring.New with contract auto-deployment) provides the FS chain; two
// sets of processors are attached to its RPC through recording proxies that
// swallow writes: one with the committee key ("member key"), one with a key
// unknown to the chain ("outsider key").
//
// Oracles:
//   - outsider key, whatever the (possibly stale) membership state says
//     (member i / non-member / lookup error): no write RPC after any handler;
//   - member key with state non-member / lookup error: no write RPC;
//   - member key and member state: every write of one event is a distinct
//     action (no duplicated main transaction) and single-action handlers write
//     at most once.

import (
	"fmt"
	"os"
	"strings"
	"sync"
	"testing"
	"time"

	"github.com/nspcc-dev/neo-go/pkg/crypto/keys"
	netmaprpc "github.com/nspcc-dev/neofs-contract/rpc/netmap"
	"github.com/nspcc-dev/neofs-node/verifharness/ev"
	"github.com/nspcc-dev/neofs-node/verifharness/irchain"
	"github.com/nspcc-dev/neofs-node/verifharness/irfix"
	"github.com/nspcc-dev/neofs-node/verifharness/irsetup"
	"github.com/nspcc-dev/neofs-node/verifharness/neoproxy"
	"pgregory.net/rapid"
)

var (
	worldOnce sync.Once
	world     *irchain.World
	worldErr  error
)

// chain state prepared for the run: one storage node in the network map and
// two containers, both created AFTER the processors were built, so that the
// netmap processor sees a changed map at the next NewEpoch notification.
func getWorld() *irchain.World {
	worldOnce.Do(func() {
		world, worldErr = irchain.NewWorld(false, prepareChain)
	})
	if worldErr != nil {
		fmt.Println("VERIF-INCONCLUSIVE: cannot start the local FS chain:", worldErr)
		os.Exit(3)
	}
	return world
}

var (
	nodeKeys   = []*keys.PrivateKey{irfix.Key(120), irfix.Key(121)}
	chainEpoch = 0
)

func netmapNode(k *keys.PrivateKey) *netmaprpc.NetmapNode2 {
	return &netmaprpc.NetmapNode2{Addresses: []string{"/ip4/10.0.0.1/tcp/8080"}, Attributes: map[string]string{"Price": "1", "Capacity": "100"}, Key: k.PublicKey(), State: netmaprpc.NodeStateOnline}
}

// prepareChain: one storage node in the network map (epoch 1), free container
// creation, two containers.
func prepareChain(w *irchain.World) error {
	if err := w.Admin.Invoke(w.Contracts.Netmap, "addNode", []*keys.PrivateKey{nodeKeys[0]}, netmapNode(nodeKeys[0])); err != nil {
		return err
	}
	if err := w.Admin.Invoke(w.Contracts.Netmap, "newEpoch", nil, 1); err != nil {
		return err
	}
	chainEpoch = 1
	if err := w.Admin.Invoke(w.Contracts.Netmap, "setConfig", nil, []byte("verif-1"), []byte("ContainerFee"), 0); err != nil {
		return err
	}
	for i := byte(0); i < 2; i++ {
		c := testContainer(irfix.Key(100), i)
		if err := w.Admin.Invoke(w.Contracts.Container, "create", nil, c.Marshal(), []byte{}, []byte{}, []byte{}, "", "", false); err != nil {
			return err
		}
	}
	return nil
}

// changeNetmap adds or removes the second storage node and ticks the epoch on
// the chain, so that the next NewEpoch notification finds a changed map.
var secondNodeIn = false

func changeNetmap(w *irchain.World) error {
	var err error
	if secondNodeIn {
		err = w.Admin.Invoke(w.Contracts.Netmap, "deleteNode", nil, nodeKeys[1].PublicKey().Bytes())
	} else {
		err = w.Admin.Invoke(w.Contracts.Netmap, "addNode", []*keys.PrivateKey{nodeKeys[1]}, netmapNode(nodeKeys[1]))
	}
	if err != nil {
		return err
	}
	secondNodeIn = !secondNodeIn
	chainEpoch++
	return w.Admin.Invoke(w.Contracts.Netmap, "newEpoch", nil, chainEpoch)
}

// maxWrites: handlers that legitimately perform several distinct actions per event.
func maxWrites(name string) int {
	switch name {
	case "netmap/NewEpoch": // one placement update per container (2) when the map changed
		return 2
	case "alphabet/NewEpoch->emit": // emit + one GAS transfer per storage node (<= 2)
		return 3
	case "neofs/Deposit->mint": // mint + GAS emission
		return 2
	case "settlement/basic income timer": // one payment per container
		return 2
	}
	return 1
}

func TestC35Chain(t *testing.T) {
	rec := ev.New("C35", "handlers-chain")
	defer rec.Flush()
	w := getWorld()
	type side struct {
		name  string
		env   *irsetup.Env
		proxy *neoproxy.Proxy
		hs    []irsetup.Handler
	}
	sides := []*side{{name: "member-key", env: w.Member, proxy: w.MemberProxy}, {name: "outsider-key", env: w.Outsider, proxy: w.OutsiderProxy}}
	for _, s := range sides {
		hs, err := s.env.Handlers()
		if err != nil {
			fmt.Println("VERIF-INCONCLUSIVE:", err)
			os.Exit(3)
		}
		s.hs = hs
	}
	memberWrote := map[string]int{}

	rapid.Check(t, func(t *rapid.T) {
		s := sides[rapid.IntRange(0, 1).Draw(t, "key")]
		h := s.hs[rapid.IntRange(0, len(s.hs)-1).Draw(t, "handler")]
		mode := rapid.SampledFrom([]string{"non-member", "lookup-error", "member"}).Draw(t, "state")
		idx := -1
		switch mode {
		case "member":
			idx = rapid.IntRange(0, 2).Draw(t, "index")
		case "lookup-error":
			idx = rapid.IntRange(-1, 1).Draw(t, "wouldBeIndex")
		}
		v := genVariation(t)
		name := h.Proc + "/" + h.Name
		mapChanged := false
		if name == "netmap/NewEpoch" && s.name == "member-key" && rapid.Bool().Draw(t, "changeNetmapFirst") {
			if err := changeNetmap(w); err != nil {
				t.Fatalf("harness: cannot change the network map on chain: %v", err)
			}
			mapChanged = true
		}
		defer func() {
			if p := recover(); p != nil {
				panic(p) // the case already failed
			}
			if !mapChanged {
				return
			}
			{
				// bring the other set of processors up to date with the chain's network map (as a
				// non-member: only local state is refreshed), otherwise its next NewEpoch event in a
				// stale "member" state would retry the refused placement update for 15 minutes
				o := sides[1]
				var hn irsetup.Handler
				for _, x := range o.hs {
					if x.Proc+"/"+x.Name == "netmap/NewEpoch" {
						hn = x
					}
				}
				oe, err := hn.Event(o.env, irsetup.Variation{Epoch: uint64(chainEpoch), Salt: 7})
				if err != nil {
					t.Fatalf("harness: %v", err)
				}
				o.env.F.State.Set(-1, false)
				o.proxy.Reset()
				hn.Call(oe)
				if !o.env.WaitIdleTimeout(20 * time.Second) {
					t.Fatalf("outsider key, state non-member: netmap/NewEpoch with a changed network map does not finish (stuck retrying the container placement update it must not attempt); RPCs: %s", neoproxy.Describe(o.proxy.Calls()))
				}
				o.env.Dropped()
				if ws := o.proxy.Writes(); len(ws) > 0 {
					t.Fatalf("outsider key, state non-member: netmap/NewEpoch sent writes: %s", describeWrites(ws))
				}
			}

		}()
		height, err := w.Admin.Height()
		if err != nil {
			t.Fatalf("harness: %v", err)
		}
		v.VUB = height + 2 // awaited approvals give up after two blocks (writes are swallowed)
		// epoch-carrying events: the chain is at epoch 1
		v.Epoch = uint64(rapid.IntRange(0, 3).Draw(t, "eventEpoch"))
		event, err := h.Event(s.env, v)
		if err != nil {
			t.Fatalf("harness: cannot build event for %s/%s: %v", h.Proc, h.Name, err)
		}
		s.env.F.State.Set(idx, mode == "lookup-error")
		s.env.F.Epoch.SetEpochCounter(uint64(rapid.IntRange(0, 2).Draw(t, "localEpoch")))

		if !s.env.WaitIdleTimeout(30 * time.Second) {
			t.Fatalf("%s: a handler of an earlier case is still running (stuck in a retry loop)", s.name)
		}
		s.env.Dropped()
		s.proxy.Reset()
		for {
			h.Call(event)
			if !s.env.WaitIdleTimeout(2 * time.Minute) {
				fmt.Printf("VERIF-INCONCLUSIVE: %s/%s (%s, %s) did not finish within 2 minutes; RPCs so far: %s\n", h.Proc, h.Name, s.name, mode, neoproxy.Describe(s.proxy.Calls()))
				os.Exit(3)
			}
			if !s.env.Dropped() {
				break
			}
		}
		writes := s.proxy.Writes()
		calls := s.proxy.Calls()

		mayAct := s.name == "member-key" && mode == "member"
		labels := []string{s.name + "/" + mode, name}
		if mapChanged {
			labels = append(labels, "new-epoch-with-changed-netmap/"+mode)
		}
		if len(writes) > 0 {
			labels = append(labels, "wrote:"+s.name+"/"+mode, "wrote:"+name)
		}
		rec.Case(!mayAct, fmt.Sprintf("%s|%s|%s|%d|%d|%d", s.name, name, mode, idx, v.Epoch, v.Salt), labels...)
		if rec.WantSample() {
			rec.Sample(map[string]any{"key": s.name, "handler": name, "state": mode, "writes": len(writes), "rpc": neoproxy.Describe(calls)})
		}

		if !mayAct {
			if len(writes) == 0 {
				return
			}
			// (netmap/NewEpoch with a changed map used to update container placements without asking
			// the membership state: confirmed on the original tree, fixed in /repo 3c41e32)
			t.Fatalf("%s, state %s (index %d): %s sent %d write RPC(s): %s\nall RPCs: %s", s.name, mode, idx, name, len(writes), describeWrites(writes), neoproxy.Describe(calls))
		}
		memberWrote[name] += len(writes)
		if len(writes) > maxWrites(name) {
			t.Fatalf("alphabet member acted %d times on one %s event (at most %d distinct actions expected): %s", len(writes), name, maxWrites(name), describeWrites(writes))
		}
		seen := map[string]bool{}
		for _, wr := range writes {
			d := describeWrites([]neoproxy.Call{wr})
			if seen[d] {
				t.Fatalf("alphabet member sent the same action twice for one %s event: %s", name, d)
			}
			seen[d] = true
		}
	})
	var rows []string
	for _, h := range sides[0].hs {
		n := h.Proc + "/" + h.Name
		rows = append(rows, fmt.Sprintf("%s: writes by member in member state = %d", n, memberWrote[n]))
	}
	rec.Set("member_writes", rows)
	t.Log("\n" + strings.Join(rows, "\n"))
}

// describeWrites renders writes as main-transaction script hashes + nonce.
func describeWrites(ws []neoproxy.Call) string {
	var sb strings.Builder
	for _, c := range ws {
		if nr, err := c.NotaryRequest(); err == nil {
			fmt.Fprintf(&sb, "[notary main tx script=%x nonce=%d vub=%d] ", nr.MainTransaction.Script, nr.MainTransaction.Nonce, nr.MainTransaction.ValidUntilBlock)
			continue
		}
		if tx, err := c.Tx(); err == nil {
			fmt.Fprintf(&sb, "[tx script=%x nonce=%d] ", tx.Script, tx.Nonce)
			continue
		}
		sb.WriteString("[" + c.Method + " undecodable] ")
	}
	return sb.String()
}

// TestC35NewEpochOutsider: a node whose key is NOT in the committee receives a
// NewEpoch notification after the network map changed. netmap.processNewEpoch
// has no membership guard before updatePlacementInContract; the only thing
// between it and a chain write is the morph client refusing to build the
// alphabet multi-signature account without the own key. Oracle: no write RPC.
// Observation (label, not a failure): the handler then sits in the exponential
// back-off retry of UpdateContainerPlacement (up to 15 min per container),
// holding a netmap worker.
func TestC35NewEpochOutsider(t *testing.T) {
	rec := ev.New("C35", "new-epoch-outsider")
	defer rec.Flush()
	w := getWorld()
	proxy, env, err := w.NewEnv(irchain.OutsiderKey())
	if err != nil {
		ev.Inconclusive("cannot attach processors: %v", err)
	}
	// deliberately not closed: the handler may still be retrying (see above)
	hs, err := env.Handlers()
	if err != nil {
		ev.Inconclusive("%v", err)
	}
	if err := changeNetmap(w); err != nil {
		ev.Inconclusive("cannot change the network map: %v", err)
	}
	for _, mode := range []string{"non-member"} {
		env.F.State.Set(-1, false)
		var h irsetup.Handler
		for _, x := range hs {
			if x.Proc+"/"+x.Name == "netmap/NewEpoch" {
				h = x
			}
		}
		event, err := h.Event(env, irsetup.Variation{Epoch: uint64(chainEpoch), Salt: 1})
		if err != nil {
			t.Fatal(err)
		}
		proxy.Reset()
		h.Call(event)
		finished := env.WaitIdleTimeout(5 * time.Second)
		writes := proxy.Writes()
		label := "finished"
		if !finished {
			label = "stuck-in-placement-update-retry"
		}
		rec.Case(true, "outsider|netmap/NewEpoch|changed-map|"+mode, label)
		rec.Sample(map[string]any{"finished": finished, "rpc": neoproxy.Describe(proxy.Calls())})
		if len(writes) > 0 {
			t.Fatalf("outsider key: netmap/NewEpoch sent write RPCs: %s", describeWrites(writes))
		}
		t.Logf("outsider NewEpoch with changed map: finished=%v, RPCs: %s", finished, neoproxy.Describe(proxy.Calls()))
	}
}

package c35

// C35 (b) on a REAL chain: a single-node inner ring in local consensus mode
// (innerring.New with contract auto-deployment) provides the FS chain; two
// sets of processors are attached to its RPC through recording proxies that
// swallow writes: one with the committee key ("member key"), one with a key
// unknown to the chain ("outsider key").
//
// Oracles:
//   - outsider key, whatever the (possibly stale) membership state says
//     (member i / non-member / lookup error): no write RPC after any handler;
//   - member key with state non-member / lookup error: no write RPC;
//   - member key and member state: every write of one event is a distinct
//     action (no duplicated main transaction) and single-action handlers write
//     at most once.

import (
	"fmt"
	"os"
	"strings"
	"sync"
	"testing"

	"github.com/nspcc-dev/neo-go/pkg/crypto/keys"
	netmaprpc "github.com/nspcc-dev/neofs-contract/rpc/netmap"
	"github.com/nspcc-dev/neofs-node/verifharness/ev"
	"github.com/nspcc-dev/neofs-node/verifharness/irchain"
	"github.com/nspcc-dev/neofs-node/verifharness/irfix"
	"github.com/nspcc-dev/neofs-node/verifharness/irsetup"
	"github.com/nspcc-dev/neofs-node/verifharness/neoproxy"
	"pgregory.net/rapid"
)

var (
	worldOnce sync.Once
	world     *irchain.World
	worldErr  error
)

// chain state prepared for the run: one storage node in the network map and
// two containers, both created AFTER the processors were built, so that the
// netmap processor sees a changed map at the next NewEpoch notification.
func getWorld() *irchain.World {
	worldOnce.Do(func() {
		world, worldErr = irchain.NewWorld(false, nil)
		if worldErr != nil {
			return
		}
		w := world
		nodeKey := irfix.Key(120)
		node := &netmaprpc.NetmapNode2{Addresses: []string{"/ip4/10.0.0.1/tcp/8080"}, Attributes: map[string]string{"Price": "1", "Capacity": "100"}, Key: nodeKey.PublicKey(), State: netmaprpc.NodeStateOnline}
		if worldErr = w.Admin.Invoke(w.Contracts.Netmap, "addNode", []*keys.PrivateKey{nodeKey}, node); worldErr != nil {
			return
		}
		if worldErr = w.Admin.Invoke(w.Contracts.Netmap, "newEpoch", nil, 1); worldErr != nil {
			return
		}
		// container creation is paid by the owner: make it free
		if worldErr = w.Admin.Invoke(w.Contracts.Netmap, "setConfig", nil, []byte("verif-1"), []byte("ContainerFee"), 0); worldErr != nil {
			return
		}
		for i := byte(0); i < 2; i++ {
			c := testContainer(irfix.Key(100), i)
			if worldErr = w.Admin.Invoke(w.Contracts.Container, "create", nil, c.Marshal(), []byte{}, []byte{}, []byte{}, "", "", false); worldErr != nil {
				return
			}
		}
	})
	if worldErr != nil {
		fmt.Println("VERIF-INCONCLUSIVE: cannot start the local FS chain:", worldErr)
		os.Exit(3)
	}
	return world
}

// maxWrites: handlers that legitimately perform several distinct actions per event.
func maxWrites(name string) int {
	switch name {
	case "netmap/NewEpoch": // one placement update per container (2) when the map changed
		return 2
	case "alphabet/NewEpoch->emit": // emit + one GAS transfer per storage node (1)
		return 2
	case "neofs/Deposit->mint": // mint + GAS emission
		return 2
	case "settlement/basic income timer": // one payment per container
		return 2
	}
	return 1
}

func TestC35Chain(t *testing.T) {
	rec := ev.New("C35", "handlers-chain")
	defer rec.Flush()
	w := getWorld()
	type side struct {
		name  string
		env   *irsetup.Env
		proxy *neoproxy.Proxy
		hs    []irsetup.Handler
	}
	sides := []*side{{name: "member-key", env: w.Member, proxy: w.MemberProxy}, {name: "outsider-key", env: w.Outsider, proxy: w.OutsiderProxy}}
	for _, s := range sides {
		hs, err := s.env.Handlers()
		if err != nil {
			fmt.Println("VERIF-INCONCLUSIVE:", err)
			os.Exit(3)
		}
		s.hs = hs
	}
	memberWrote := map[string]int{}

	rapid.Check(t, func(t *rapid.T) {
		s := sides[rapid.IntRange(0, 1).Draw(t, "key")]
		h := s.hs[rapid.IntRange(0, len(s.hs)-1).Draw(t, "handler")]
		mode := rapid.SampledFrom([]string{"non-member", "lookup-error", "member"}).Draw(t, "state")
		idx := -1
		switch mode {
		case "member":
			idx = rapid.IntRange(0, 2).Draw(t, "index")
		case "lookup-error":
			idx = rapid.IntRange(-1, 1).Draw(t, "wouldBeIndex")
		}
		v := genVariation(t)
		height, err := w.Admin.Height()
		if err != nil {
			t.Fatalf("harness: %v", err)
		}
		v.VUB = height + 2 // awaited approvals give up after two blocks (writes are swallowed)
		// epoch-carrying events: the chain is at epoch 1
		v.Epoch = uint64(rapid.IntRange(0, 3).Draw(t, "eventEpoch"))
		event, err := h.Event(s.env, v)
		if err != nil {
			t.Fatalf("harness: cannot build event for %s/%s: %v", h.Proc, h.Name, err)
		}
		s.env.F.State.Set(idx, mode == "lookup-error")
		s.env.F.Epoch.SetEpochCounter(uint64(rapid.IntRange(0, 2).Draw(t, "localEpoch")))
		name := h.Proc + "/" + h.Name

		s.env.WaitIdle()
		s.env.Dropped()
		s.proxy.Reset()
		for {
			h.Call(event)
			s.env.WaitIdle()
			if !s.env.Dropped() {
				break
			}
		}
		writes := s.proxy.Writes()
		calls := s.proxy.Calls()

		mayAct := s.name == "member-key" && mode == "member"
		labels := []string{s.name + "/" + mode, name}
		if len(writes) > 0 {
			labels = append(labels, "wrote:"+s.name+"/"+mode, "wrote:"+name)
		}
		rec.Case(!mayAct, fmt.Sprintf("%s|%s|%s|%d|%d|%d", s.name, name, mode, idx, v.Epoch, v.Salt), labels...)
		if rec.WantSample() {
			rec.Sample(map[string]any{"key": s.name, "handler": name, "state": mode, "writes": len(writes), "rpc": neoproxy.Describe(calls)})
		}

		if !mayAct {
			if len(writes) == 0 {
				return
			}
			if s.name == "member-key" && name == "netmap/NewEpoch" {
				// reported to the coordinator: processNewEpoch updates container placements in the
				// Container contract (RunAlphabetNotaryScript) without asking the membership state
				if rec.Known("C35:new-epoch-placement-update-without-membership-check") {
					return
				}
			}
			t.Fatalf("%s, state %s (index %d): %s sent %d write RPC(s): %s\nall RPCs: %s", s.name, mode, idx, name, len(writes), describeWrites(writes), neoproxy.Describe(calls))
		}
		memberWrote[name] += len(writes)
		if len(writes) > maxWrites(name) {
			t.Fatalf("alphabet member acted %d times on one %s event (at most %d distinct actions expected): %s", len(writes), name, maxWrites(name), describeWrites(writes))
		}
		seen := map[string]bool{}
		for _, wr := range writes {
			d := describeWrites([]neoproxy.Call{wr})
			if seen[d] {
				t.Fatalf("alphabet member sent the same action twice for one %s event: %s", name, d)
			}
			seen[d] = true
		}
	})
	var rows []string
	for _, h := range sides[0].hs {
		n := h.Proc + "/" + h.Name
		rows = append(rows, fmt.Sprintf("%s: writes by member in member state = %d", n, memberWrote[n]))
	}
	rec.Set("member_writes", rows)
	t.Log("\n" + strings.Join(rows, "\n"))
}

// describeWrites renders writes as main-transaction script hashes + nonce.
func describeWrites(ws []neoproxy.Call) string {
	var sb strings.Builder
	for _, c := range ws {
		if nr, err := c.NotaryRequest(); err == nil {
			fmt.Fprintf(&sb, "[notary main tx script=%x nonce=%d vub=%d] ", nr.MainTransaction.Script, nr.MainTransaction.Nonce, nr.MainTransaction.ValidUntilBlock)
			continue
		}
		if tx, err := c.Tx(); err == nil {
			fmt.Fprintf(&sb, "[tx script=%x nonce=%d] ", tx.Script, tx.Nonce)
			continue
		}
		sb.WriteString("[" + c.Method + " undecodable] ")
	}
	return sb.String()
}

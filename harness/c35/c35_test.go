// Package c35 decides part (b) of property C35 against the real inner ring
// processors: every registered notification / notary / timer handler of the
// alphabet, balance, container, governance, neofs, netmap, reputation and
// settlement processors is driven (through the handler functions the
// processors register, incl. their worker pools) with generated well-formed
// events while the global state says alphabet member i / non-member /
// index-lookup failure. The processors are built with their public
// constructors over the real pkg/morph/client connected to a recording RPC
// endpoint (harness/neoproxy).
//
// Stub backend (no chain): every RPC of the morph client is logged. Oracle:
// a node that is not an alphabet member makes no write RPC
// (sendrawtransaction / submitnotaryrequest) and does not go to the chain at
// all without having consulted the membership state (reads before the guard
// are allowed - "guard placed after a read" is not a violation; a handler that
// reaches the chain and never asked has no guard). What non-members did per
// handler is tabulated in the evidence.
package c35

import (
	"fmt"
	"os"
	"sort"
	"strings"
	"testing"

	"github.com/nspcc-dev/neo-go/pkg/core/native/noderoles"
	"github.com/nspcc-dev/neo-go/pkg/crypto/keys"
	"github.com/nspcc-dev/neo-go/pkg/util"
	"github.com/nspcc-dev/neofs-node/verifharness/ev"
	"github.com/nspcc-dev/neofs-node/verifharness/irfix"
	"github.com/nspcc-dev/neofs-node/verifharness/irsetup"
	"github.com/nspcc-dev/neofs-node/verifharness/neoproxy"
	"github.com/nspcc-dev/neofs-sdk-go/container"
	"github.com/nspcc-dev/neofs-sdk-go/container/acl"
	"github.com/nspcc-dev/neofs-sdk-go/netmap"
	"github.com/nspcc-dev/neofs-sdk-go/user"
	"pgregory.net/rapid"
)

func alphabetKeys(n int) keys.PublicKeys {
	res := make(keys.PublicKeys, n)
	for i := range res {
		res[i] = irfix.Key(byte(i + 1)).PublicKey()
	}
	return res
}

func stubContracts() irsetup.Contracts {
	return irsetup.Contracts{
		Netmap: irfix.Hash160(0x11), Container: irfix.Hash160(0x22), Balance: irfix.Hash160(0x33), Reputation: irfix.Hash160(0x44),
		Proxy: irfix.Hash160(0x55), NeoFS: irfix.Hash160(0x66),
		Alphabet: []util.Uint160{irfix.Hash160(0x71), irfix.Hash160(0x72), irfix.Hash160(0x73), irfix.Hash160(0x74)},
	}
}

func testContainer(owner *keys.PrivateKey, salt byte) container.Container {
	var c container.Container
	c.Init()
	c.SetOwner(user.NewFromScriptHash(owner.GetScriptHash()))
	c.SetBasicACL(acl.PublicRWExtended)
	var p netmap.PlacementPolicy
	if err := p.DecodeString("REP 1"); err != nil {
		panic(err)
	}
	c.SetPlacementPolicy(p)
	c.SetAttribute("salt", fmt.Sprint(salt))
	return c
}

func genVariation(t *rapid.T) irsetup.Variation {
	owner := irfix.Key(byte(100 + rapid.IntRange(0, 3).Draw(t, "owner")))
	salt := byte(rapid.IntRange(0, 255).Draw(t, "salt"))
	return irsetup.Variation{
		Epoch:  rapid.Uint64Range(0, 1<<40).Draw(t, "epoch"),
		Amount: rapid.Int64Range(0, 1<<50).Draw(t, "amount"),
		Key:    irfix.Key(byte(120 + rapid.IntRange(0, 3).Draw(t, "nodeKey"))),
		Nonce:  rapid.Uint32().Draw(t, "nonce"),
		VUB:    rapid.Uint32Range(2, 1<<20).Draw(t, "vub"),
		Salt:   salt,
		Role:   rapid.SampledFrom([]noderoles.Role{noderoles.NeoFSAlphabet, noderoles.NeoFSAlphabet, noderoles.P2PNotary, noderoles.Oracle}).Draw(t, "role"),
		Cnr:    testContainer(owner, salt),
		Owner:  owner,
	}
}

func TestC35Stub(t *testing.T) {
	rec := ev.New("C35", "handlers-stub")
	defer rec.Flush()

	proxy, err := neoproxy.NewStub()
	if err != nil {
		ev.Inconclusive("cannot start recording endpoint: %v", err)
	}
	defer proxy.Close()
	env, err := irsetup.NewEnv(irsetup.Options{
		FSURL: proxy.URL, MainURL: proxy.URL, Key: irfix.Key(1), AlphabetKeys: alphabetKeys(4), Contracts: stubContracts(),
		Magic: neoproxy.StubMagic, Offline: true, ScriptedNet: true,
	})
	if err != nil {
		ev.Inconclusive("cannot build the inner ring processors offline: %v", err)
	}
	defer env.Close()
	handlers, err := env.Handlers()
	if err != nil {
		fmt.Println("VERIF-INCONCLUSIVE:", err)
		os.Exit(3)
	}
	// the alphabet sync of netmap.processNewEpoch goes to the governance processor as in innerring.New;
	// the notary deposit handler is wrapped by onlyAlphabetEventHandler there.
	type obs struct{ asked, reads, writes int }
	table := map[string]*obs{}
	var names []string
	for _, h := range handlers {
		names = append(names, h.Proc+"/"+h.Name)
		table[h.Proc+"/"+h.Name] = &obs{}
	}

	rapid.Check(t, func(t *rapid.T) {
		hi := rapid.IntRange(0, len(handlers)-1).Draw(t, "handler")
		h := handlers[hi]
		mode := rapid.SampledFrom([]string{"non-member", "non-member", "lookup-error", "member"}).Draw(t, "state")
		idx := -1
		switch mode {
		case "member":
			idx = rapid.IntRange(0, 6).Draw(t, "index") // may exceed the number of alphabet contracts (4)
		case "lookup-error":
			idx = rapid.IntRange(-1, 3).Draw(t, "wouldBeIndex")
		}
		v := genVariation(t)
		event, err := h.Event(env, v)
		if err != nil {
			t.Fatalf("harness: cannot build event for %s/%s: %v", h.Proc, h.Name, err)
		}
		env.F.State.Set(idx, mode == "lookup-error")
		env.F.Epoch.SetEpochCounter(v.Epoch + 1)
		member := mode == "member"

		env.WaitIdle()
		env.Dropped()
		proxy.Reset()
		for {
			h.Call(event)
			env.WaitIdle()
			if !env.Dropped() {
				break
			}
		}
		calls := proxy.Calls()
		writes := proxy.Writes()
		asked := int(env.F.State.Asked.Load())

		name := h.Proc + "/" + h.Name
		labels := []string{mode, name}
		if !member {
			o := table[name]
			o.asked += asked
			o.reads += len(calls) - len(writes)
			o.writes += len(writes)
			if asked == 0 {
				labels = append(labels, "never-asks-membership:"+name)
			}
			if len(calls) > 0 {
				labels = append(labels, "rpc-by-non-member:"+name)
			}
		}
		rec.Case(!member, fmt.Sprintf("%s|%s|%d|%d|%d|%d", name, mode, idx, v.Epoch, v.Salt, v.Nonce), labels...)
		if rec.WantSample() {
			rec.Sample(map[string]any{"handler": name, "state": mode, "index": idx, "rpc": neoproxy.Describe(calls)})
		}

		// A non-member may read the chain before its guard, but a handler that touches the chain
		// without EVER consulting the membership state has no guard on that path. The only handler
		// that legitimately does so is netmap/NewEpoch (it refreshes local state - epoch counter,
		// timers, network map copy - on every inner ring node and asks the state only before the
		// placement update).
		if !member && asked == 0 && len(calls) > 0 && name != "netmap/NewEpoch" {
			t.Fatalf("%s in state %s (index %d) went to the chain without consulting the membership state: %s", name, mode, idx, neoproxy.Describe(calls))
		}
		if !member && len(writes) > 0 {
			t.Fatalf("%s in state %s (index %d) sent %d write RPC(s): %s", name, mode, idx, len(writes), neoproxy.Describe(calls))
		}
		ignoredRole := name == "governance/Designation" && v.Role != noderoles.NeoFSAlphabet // not an alphabet designation: dropped by the handler
		if member && asked == 0 && h.Proc != "netmap" && !ignoredRole {
			t.Fatalf("harness self-check: %s did not consult the membership state at all", name)
		}
	})

	// table for the evidence: what non-members did per handler
	sort.Strings(names)
	var rows []string
	for _, n := range names {
		o := table[n]
		rows = append(rows, fmt.Sprintf("%s: membership questions=%d, read RPCs=%d, write RPCs=%d", n, o.asked, o.reads, o.writes))
	}
	rec.Set("non_member_behaviour", rows)
	t.Log("\n" + strings.Join(rows, "\n"))
}

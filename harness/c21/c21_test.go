// Package c21 decides the internal/ec part of property C21: for every
// supported rule and payload the encoded parts have equal length, the announced
// hashes match, every subset of at least DataPartNum parts decodes to exactly
// the payload, partial reconstruction (DecodeIndexes / DecodeRange) restores
// exactly the originally encoded parts, and encoding one payload under several
// rules corrupts neither the payload nor earlier encodings.
//
// The multi-rule encoding through putsvc.modifyECParentObject (pooled buffers)
// is checked by the in-package test
// /verif/inpkg/pkg/services/object/put/zz_verif_c21_test.go.
//
// Domain notes (how real callers use the package):
//   - iec.Encode is only called on a slice WITHOUT spare capacity (putsvc trims
//     it: "prohibit using additional slice's capacity for EC library"). The
//     generator never passes a slice with cap > len; when it draws "spare
//     capacity" it applies the caller's trim b[:n:n] first (label
//     "payload-inside-larger-array-trimmed"). Untrimmed calls are outside the
//     domain: none generated.
//   - iec.Decode / DecodeRange / DecodeIndexes are only called for non-empty
//     payloads (an empty parent is served from any part header) and with at most
//     ParityPartNum missing parts; the same is generated here. Missing parts
//     are nil entries.
package c21

import (
	"bytes"
	"crypto/sha256"
	"encoding/hex"
	"fmt"
	"math/bits"
	"testing"

	iec "github.com/nspcc-dev/neofs-node/internal/ec"
	"github.com/nspcc-dev/neofs-node/verifharness/ev"
	"pgregory.net/rapid"
)

const maxPayload = 4096

// fill produces deterministic pseudo-random bytes from a rapid-drawn seed
// (splitmix64); every 16th seed gives a low-entropy pattern instead.
func fill(b []byte, seed uint64) {
	if seed%16 == 0 {
		for i := range b {
			b[i] = byte(seed >> 8) // constant payload (zeros when seed < 256)
		}
		return
	}
	x := seed
	for i := range b {
		if i%8 == 0 {
			x += 0x9e3779b97f4a7c15
			z := x
			z = (z ^ (z >> 30)) * 0xbf58476d1ce4e5b9
			z = (z ^ (z >> 27)) * 0x94d049bb133111eb
			seed = z ^ (z >> 31)
		}
		b[i] = byte(seed >> (8 * (i % 8)))
	}
}

func ruleGen() *rapid.Generator[iec.Rule] {
	return rapid.Custom(func(t *rapid.T) iec.Rule {
		return iec.Rule{
			DataPartNum:   uint8(rapid.IntRange(1, 8).Draw(t, "d")),
			ParityPartNum: uint8(rapid.IntRange(0, 4).Draw(t, "p")),
		}
	})
}

// lenGen draws a payload length 0..4096 biased to multiples of d, +-1.
func lenGen(d int) *rapid.Generator[int] {
	return rapid.Custom(func(t *rapid.T) int {
		var n int
		switch rapid.IntRange(0, 5).Draw(t, "lenKind") {
		case 0:
			n = rapid.IntRange(0, 2*d+1).Draw(t, "tiny")
		case 1, 2:
			n = d*rapid.IntRange(0, maxPayload/d).Draw(t, "mult") + rapid.IntRange(-1, 1).Draw(t, "pm")
		case 3:
			n = rapid.SampledFrom([]int{0, 1, 63, 64, 65, 255, 256, 257, 1023, 1024, 1025, 4095, 4096}).Draw(t, "edge")
		default:
			n = rapid.IntRange(0, maxPayload).Draw(t, "any")
		}
		return min(max(n, 0), maxPayload)
	})
}

// payloadGen returns an exact-capacity payload of n bytes. When "spare" is
// drawn, the bytes live inside a larger, garbage-filled array and the slice is
// trimmed like the real caller does.
func payloadGen(t *rapid.T, n int) (data []byte, backing []byte) {
	seed := rapid.Uint64().Draw(t, "seed")
	if n > 0 && rapid.IntRange(0, 3).Draw(t, "spare") == 0 {
		extra := rapid.SampledFrom([]int{1, 7, 64, 1024, 3 * maxPayload}).Draw(t, "extra")
		backing = make([]byte, n+extra)
		for i := range backing {
			backing[i] = 0xA5
		}
		fill(backing[:n], seed)
		return backing[:n:n], backing // the caller's trim
	}
	data = make([]byte, n)
	fill(data, seed)
	return data, nil
}

func hashHex(b []byte) string {
	h := sha256.Sum256(b)
	return hex.EncodeToString(h[:])
}

// refParts is the reference split: part i = payload[i*per:(i+1)*per] padded
// with zeros, per = ceil(n/d).
func refDataParts(d int, payload []byte) [][]byte {
	per := (len(payload) + d - 1) / d
	res := make([][]byte, d)
	for i := range d {
		res[i] = make([]byte, per)
		lo := min(i*per, len(payload))
		hi := min((i+1)*per, len(payload))
		copy(res[i], payload[lo:hi])
	}
	return res
}

// checkEncoding asserts shape, hashes and data part contents of one encoding.
func checkEncoding(rule iec.Rule, payload []byte, parts [][]byte, hashes []string) string {
	d, total := int(rule.DataPartNum), int(rule.DataPartNum)+int(rule.ParityPartNum)
	if len(parts) != total || len(hashes) != total {
		return fmt.Sprintf("rule %s: %d parts, %d hashes, want %d", rule, len(parts), len(hashes), total)
	}
	per := (len(payload) + d - 1) / d
	for i := range parts {
		if len(parts[i]) != per {
			return fmt.Sprintf("rule %s len %d: part #%d has %d bytes, want %d", rule, len(payload), i, len(parts[i]), per)
		}
		if got := hashHex(parts[i]); got != hashes[i] {
			return fmt.Sprintf("rule %s len %d: announced hash of part #%d is %s, part hashes to %s", rule, len(payload), i, hashes[i], got)
		}
	}
	if len(payload) == 0 {
		return ""
	}
	for i, ref := range refDataParts(d, payload) {
		if !bytes.Equal(ref, parts[i]) {
			return fmt.Sprintf("rule %s len %d: data part #%d differs from the zero-padded slice of the payload", rule, len(payload), i)
		}
	}
	return ""
}

// withErasures returns a copy of the outer slice with nil at erased indexes.
func withErasures(parts [][]byte, mask uint) [][]byte {
	res := make([][]byte, len(parts))
	for i := range parts {
		if mask&(1<<i) == 0 {
			res[i] = parts[i]
		}
	}
	return res
}

func cloneParts(parts [][]byte) [][]byte {
	res := make([][]byte, len(parts))
	for i := range parts {
		if parts[i] != nil {
			res[i] = bytes.Clone(parts[i])
		}
	}
	return res
}

func samePresent(orig [][]byte, snapshot [][]byte) int {
	for i := range orig {
		if !bytes.Equal(orig[i], snapshot[i]) {
			return i
		}
	}
	return -1
}

// checkDecode decodes from the parts with the given erasure mask.
func checkDecode(rule iec.Rule, payload []byte, parts [][]byte, mask uint) string {
	in := withErasures(parts, mask)
	got, err := iec.Decode(rule, uint64(len(payload)), in)
	if err != nil {
		return fmt.Sprintf("rule %s len %d erased %b: Decode: %v", rule, len(payload), mask, err)
	}
	if !bytes.Equal(got, payload) {
		return fmt.Sprintf("rule %s len %d erased %b: Decode returned %d bytes differing from the payload (first diff at %d)", rule, len(payload), mask, len(got), firstDiff(got, payload))
	}
	return ""
}

func firstDiff(a, b []byte) int {
	for i := 0; i < len(a) && i < len(b); i++ {
		if a[i] != b[i] {
			return i
		}
	}
	return min(len(a), len(b))
}

// erasureMasks: every subset of size <= p when total <= 8, otherwise drawn.
func erasureMasks(t *rapid.T, total, p int) (masks []uint, all bool) {
	if total <= 8 {
		for m := uint(0); m < 1<<total; m++ {
			if bits.OnesCount(m) <= p {
				masks = append(masks, m)
			}
		}
		return masks, true
	}
	masks = append(masks, 0)
	for range 12 {
		masks = append(masks, drawMask(t, total, rapid.IntRange(0, p).Draw(t, "nErased")))
	}
	return masks, false
}

func drawMask(t *rapid.T, total, k int) uint {
	idx := rapid.Permutation(seq(total)).Draw(t, "erasedPerm")
	var m uint
	for _, i := range idx[:k] {
		m |= 1 << i
	}
	return m
}

func seq(n int) []int {
	s := make([]int, n)
	for i := range s {
		s[i] = i
	}
	return s
}

func TestC21RoundTrip(t *testing.T) {
	rec := ev.New("C21", "roundtrip")
	defer rec.Flush()
	rapid.Check(t, func(t *rapid.T) {
		rule := ruleGen().Draw(t, "rule")
		d, p := int(rule.DataPartNum), int(rule.ParityPartNum)
		total := d + p
		n := lenGen(d).Draw(t, "len")
		data, backing := payloadGen(t, n)
		pristine := bytes.Clone(data)

		labels := []string{fmt.Sprintf("total<=8:%v", total <= 8)}
		switch {
		case n == 0:
			labels = append(labels, "len=0")
		case n%d == 0:
			labels = append(labels, "len-divisible")
		default:
			labels = append(labels, "len-padded")
		}
		if n > 0 && n < d {
			labels = append(labels, "len<d")
		}
		if backing != nil {
			labels = append(labels, "payload-inside-larger-array-trimmed")
		}
		if p == 0 {
			labels = append(labels, "no-parity")
		}
		// non-trivial: a non-empty payload, erasures possible
		rec.Case(n > 0 && p > 0, fmt.Sprintf("%s|%d|%x", rule, n, hashHex(pristine)[:16]), labels...)
		if rec.WantSample() && n > 0 && n%d != 0 && p > 0 {
			rec.Sample(map[string]any{"rule": rule.String(), "len": n})
		}

		parts, hashes, err := iec.Encode(rule, data)
		if err != nil {
			t.Fatalf("Encode(%s, %d bytes): %v", rule, n, err)
		}
		if !bytes.Equal(data, pristine) {
			t.Fatalf("Encode(%s, %d bytes) modified the payload at %d", rule, n, firstDiff(data, pristine))
		}
		if msg := checkEncoding(rule, pristine, parts, hashes); msg != "" {
			t.Fatalf("%s", msg)
		}
		if backing != nil {
			for i := n; i < len(backing); i++ {
				if backing[i] != 0xA5 {
					t.Fatalf("Encode(%s, %d bytes) wrote beyond the trimmed capacity at offset %d", rule, n, i)
				}
			}
		}
		if n == 0 {
			for i := range parts {
				if parts[i] != nil {
					t.Fatalf("Encode(%s, empty): part #%d is not nil", rule, i)
				}
			}
			if got := iec.ConcatDataParts(rule, 0, parts); len(got) != 0 {
				t.Fatalf("ConcatDataParts(%s, 0) = %d bytes", rule, len(got))
			}
			return
		}
		orig := cloneParts(parts)

		// all data parts present: plain concatenation (GET fast path)
		if got := iec.ConcatDataParts(rule, uint64(n), parts); !bytes.Equal(got, pristine) {
			t.Fatalf("ConcatDataParts(%s, %d) differs from the payload at %d (len %d)", rule, n, firstDiff(got, pristine), len(got))
		}

		// every sufficient subset decodes to the payload
		masks, all := erasureMasks(t, total, p)
		for _, m := range masks {
			if msg := checkDecode(rule, pristine, parts, m); msg != "" {
				t.Fatalf("%s", msg)
			}
		}
		rec.LabelN("decode-calls", int64(len(masks)))
		if all {
			rec.Label("all-erasure-subsets")
		}
		if i := samePresent(orig, parts); i >= 0 {
			t.Fatalf("rule %s len %d: decoding modified encoded part #%d", rule, n, i)
		}
		if !bytes.Equal(data, pristine) {
			t.Fatalf("rule %s len %d: decoding modified the payload", rule, n)
		}

		if p == 0 {
			return
		}
		// partial reconstruction by indexes (policer): requested = subset of the missing parts
		{
			k := rapid.IntRange(1, p).Draw(t, "nMissing")
			m := drawMask(t, total, k)
			var missing []int
			for i := range total {
				if m&(1<<i) != 0 {
					missing = append(missing, i)
				}
			}
			nReq := rapid.IntRange(1, len(missing)).Draw(t, "nRequested")
			req := missing[:nReq] // missing is in index order; skipIdx parts are the rest
			if rapid.Bool().Draw(t, "reqFromEnd") {
				req = missing[len(missing)-nReq:]
			}
			in := withErasures(parts, m)
			if err := iec.DecodeIndexes(rule, in, req); err != nil {
				t.Fatalf("DecodeIndexes(%s, erased %b, idxs %v): %v", rule, m, req, err)
			}
			for _, i := range req {
				if !bytes.Equal(in[i], orig[i]) {
					t.Fatalf("DecodeIndexes(%s, len %d, erased %b, idxs %v): part #%d differs from the encoded one", rule, n, m, req, i)
				}
			}
			for i := range total {
				if m&(1<<i) == 0 && !bytes.Equal(in[i], orig[i]) {
					t.Fatalf("DecodeIndexes(%s, len %d, erased %b, idxs %v): present part #%d was modified", rule, n, m, req, i)
				}
			}
		}
		// partial reconstruction of a range of parts over a byte range of every part (GET RANGE recovery)
		{
			k := rapid.IntRange(1, p).Draw(t, "nMissingR")
			m := drawMask(t, total, k)
			from := rapid.IntRange(0, total-1).Draw(t, "from")
			to := rapid.IntRange(from, total-1).Draw(t, "to")
			if rapid.Bool().Draw(t, "dataOnly") && from < d {
				to = min(to, d-1)
			}
			per := len(orig[0])
			off := rapid.IntRange(0, per-1).Draw(t, "off")
			ln := rapid.IntRange(1, per-off).Draw(t, "ln")
			if rapid.Bool().Draw(t, "fullParts") {
				off, ln = 0, per
			}
			in := withErasures(parts, m)
			for i := range in {
				if in[i] != nil {
					in[i] = bytes.Clone(in[i][off : off+ln])
				}
			}
			if err := iec.DecodeRange(rule, from, to, in); err != nil {
				t.Fatalf("DecodeRange(%s, %d..%d, erased %b, bytes %d+%d): %v", rule, from, to, m, off, ln, err)
			}
			for i := from; i <= to; i++ {
				if !bytes.Equal(in[i], orig[i][off:off+ln]) {
					t.Fatalf("DecodeRange(%s, len %d, %d..%d, erased %b, bytes %d+%d): part #%d differs from the encoded one", rule, n, from, to, m, off, ln, i)
				}
			}
			anyMissing := false
			for i := from; i <= to; i++ {
				if m&(1<<i) != 0 {
					anyMissing = true
				}
			}
			if anyMissing {
				rec.Label("range-recovers-missing-part")
			}
		}
		if i := samePresent(orig, parts); i >= 0 {
			t.Fatalf("rule %s len %d: partial reconstruction modified encoded part #%d", rule, n, i)
		}
	})
}

// TestC21MultiRule encodes one payload buffer under 2-3 rules in sequence (as
// putsvc does for a multi-rule policy) and checks that neither the payload nor
// any earlier encoding is corrupted by a later one and that each still decodes.
func TestC21MultiRule(t *testing.T) {
	rec := ev.New("C21", "multirule")
	defer rec.Flush()
	rapid.Check(t, func(t *rapid.T) {
		rules := rapid.SliceOfN(ruleGen(), 2, 3).Draw(t, "rules")
		n := lenGen(int(rules[0].DataPartNum)).Draw(t, "len")
		if rapid.Bool().Draw(t, "lenBySecondRule") {
			n = lenGen(int(rules[1].DataPartNum)).Draw(t, "len2")
		}
		data, backing := payloadGen(t, n)
		pristine := bytes.Clone(data)
		withParity := 0
		for _, r := range rules {
			if r.ParityPartNum > 0 {
				withParity++
			}
		}
		lbl := []string{fmt.Sprintf("rules=%d", len(rules)), fmt.Sprintf("rules-with-parity=%d", withParity)}
		if backing != nil {
			lbl = append(lbl, "payload-inside-larger-array-trimmed")
		}
		rec.Case(n > 0 && withParity >= 1, fmt.Sprintf("%v|%d|%s", rules, n, hashHex(pristine)[:16]), lbl...)

		type enc struct {
			parts  [][]byte
			orig   [][]byte
			hashes []string
		}
		encs := make([]enc, len(rules))
		for i, r := range rules {
			parts, hashes, err := iec.Encode(r, data)
			if err != nil {
				t.Fatalf("Encode(%s, %d bytes): %v", r, n, err)
			}
			encs[i] = enc{parts, cloneParts(parts), hashes}
			if msg := checkEncoding(r, pristine, parts, hashes); msg != "" {
				t.Fatalf("rule #%d: %s", i, msg)
			}
			// everything encoded so far is intact
			if !bytes.Equal(data, pristine) {
				t.Fatalf("encoding under rule #%d (%s) modified the payload at %d", i, r, firstDiff(data, pristine))
			}
			for j := 0; j < i; j++ {
				if k := samePresent(encs[j].orig, encs[j].parts); k >= 0 {
					t.Fatalf("encoding under rule #%d (%s) modified part #%d produced earlier under rule #%d (%s), len %d", i, r, k, j, rules[j], n)
				}
			}
		}
		if n == 0 {
			return
		}
		for i, r := range rules {
			p, total := int(r.ParityPartNum), int(r.DataPartNum)+int(r.ParityPartNum)
			if msg := checkEncoding(r, pristine, encs[i].parts, encs[i].hashes); msg != "" {
				t.Fatalf("after all encodings, rule #%d: %s", i, msg)
			}
			m := drawMask(t, total, rapid.IntRange(0, p).Draw(t, "nErased"))
			if msg := checkDecode(r, pristine, encs[i].parts, m); msg != "" {
				t.Fatalf("after all encodings, rule #%d: %s", i, msg)
			}
		}
	})
}
